(** C01 — lemmas.  Specification predicates ([partition], [eol_sub]) are defined here, next to their proofs. *)
From Coq Require Import NArith ZArith List Bool Arith Lia.
Import ListNotations.
From OBI.C01 Require Import Model.

(** * The chunk reader *)


Definition eolb (c : N) : Prop := is_eol c = true.

Section Part.
Variable spl : list N -> option nat.

(* the cut after [seg] was decided by the splitter on a buffer [seg ++ x] that is a segment of the
   file starting where [seg] starts -- or [seg] runs to the end of the file *)
Definition cut_ok (seg w : list N) : Prop :=
  w = [] \/ exists x y, w = x ++ y /\ spl (seg ++ x) = Some (length seg).

Inductive partition : nat -> list N -> list (nat * list N) -> Prop :=
| P_end : forall i w, Forall eolb w -> partition i w []
| P_skip : forall i seg w l, Forall eolb seg -> cut_ok seg w -> partition i w l -> partition i (seg ++ w) l
| P_chunk : forall i seg w l, rstrip_eol seg <> [] -> cut_ok seg w -> partition (S i) w l ->
                              partition i (seg ++ w) ((i, rstrip_eol seg) :: l)
| P_last : forall i seg, seg <> [] -> partition i seg [(i, seg)].

Variable B E : nat.
Hypothesis HE : (1 <= E)%nat.
Hypothesis Hrange : forall b c, spl b = Some c -> (0 < c <= length b)%nat.

Lemma readfull_spec : forall n rest got rest' err,
  readfull n rest = (got, rest', err) ->
  rest = got ++ rest' /\ (err <> ENil -> rest' = []) /\ (err = ENil -> length got = n) /\ (err = EEof -> got = []).
Proof.
  intros n rest got rest' err H. unfold readfull in H.
  destruct (Nat.eqb (length (firstn n rest)) n) eqn:Hl.
  - inversion H; subst. apply Nat.eqb_eq in Hl. repeat split; try congruence.
    symmetry. apply firstn_skipn.
  - apply Nat.eqb_neq in Hl.
    assert (Hs : skipn n rest = []).
    { apply skipn_all2. rewrite firstn_length in Hl. lia. }
    destruct (firstn n rest) eqn:Hf; inversion H; subst; repeat split; try congruence;
      try (rewrite <- (firstn_skipn n rest) at 1; rewrite Hf; reflexivity).
Qed.

Lemma extend_spec : forall fuel buff rest err buff1 rest1 err1 e,
  extend spl E fuel buff rest err = Some (buff1, rest1, err1, e) ->
  (err <> ENil -> rest = []) ->
  exists got, buff1 = buff ++ got /\ rest = got ++ rest1 /\ e = spl buff1 /\
              (err1 = ENil -> e <> None) /\ (err1 <> ENil -> rest1 = []).
Proof.
  induction fuel as [|f IH]; intros buff rest err buff1 rest1 err1 e H Herr; cbn [extend] in H.
  - destruct err; destruct (spl buff) eqn:Hs; inversion H; subst; exists []; rewrite app_nil_r;
      repeat split; auto; try congruence; try (intros; apply Herr; congruence).
  - destruct err; destruct (spl buff) eqn:Hs;
      try (inversion H; subst; exists []; rewrite app_nil_r;
           repeat split; auto; try congruence; try (intros; apply Herr; congruence); fail).
    destruct (readfull E rest) as [[got rest'] err'] eqn:Hr.
    apply readfull_spec in Hr. destruct Hr as (Hrest & Hnil & _ & _).
    apply IH in H; [|exact Hnil].
    destruct H as (got2 & Hb & Hr2 & He & H1 & H2).
    exists (got ++ got2). rewrite app_assoc. repeat split; auto.
    rewrite Hrest, Hr2. rewrite app_assoc. reflexivity.
Qed.

Lemma extend_total : forall fuel buff rest err,
  (length rest < fuel)%nat -> extend spl E fuel buff rest err <> None.
Proof.
  induction fuel as [|f IH]; intros buff rest err Hl; [lia|].
  cbn [extend]. destruct err; destruct (spl buff) eqn:Hs; try congruence.
  destruct (readfull E rest) as [[got rest'] err'] eqn:Hr.
  pose proof (readfull_spec _ _ _ _ _ Hr) as (Hrest & Hnil & Hlen & _).
  destruct err'.
  - apply IH. specialize (Hlen eq_refl). rewrite Hrest in Hl. rewrite app_length in Hl. lia.
  - destruct f; cbn [extend]; destruct (spl (buff ++ got)); congruence.
  - destruct f; cbn [extend]; destruct (spl (buff ++ got)); congruence.
Qed.

Lemma strip_rev_nil : forall r, strip_rev r = [] -> Forall eolb r.
Proof.
  induction r as [|c r IH]; intros H; [constructor|].
  cbn in H. destruct (is_eol c) eqn:Hc; [|discriminate]. constructor; auto.
Qed.

Lemma rstrip_nil : forall l, rstrip_eol l = [] -> Forall eolb l.
Proof.
  intros l H. unfold rstrip_eol in H.
  assert (Hs : strip_rev (rev l) = []).
  { destruct (strip_rev (rev l)) eqn:Hq; [reflexivity|].
    apply (f_equal (@length N)) in H. rewrite rev_length in H. discriminate. }
  apply strip_rev_nil in Hs. apply Forall_rev in Hs. rewrite rev_involutive in Hs. exact Hs.
Qed.

Lemma emit_spec : forall buff1 e i sent buff2 i2 w l,
  emit buff1 e i = (sent, buff2, i2) ->
  e = spl buff1 ->
  (e = None -> w = []) ->
  partition i2 (buff2 ++ w) l ->
  partition i (buff1 ++ w) (sent ++ l).
Proof.
  intros buff1 e i sent buff2 i2 w l H He Hnone Hp. unfold emit in H.
  destruct buff1 as [|b0 buff1']; [inversion H; subst; exact Hp|].
  set (buff1 := b0 :: buff1') in *.
  set (cut := match e with Some c => c | None => length buff1 end) in *.
  assert (Hcut : cut_ok (firstn cut buff1) (skipn cut buff1 ++ w)).
  { destruct e as [c|] eqn:Hec.
    - right. exists (skipn cut buff1), w. split; [reflexivity|].
      rewrite firstn_skipn. rewrite <- He. f_equal.
      symmetry in He. apply Hrange in He. rewrite firstn_length. unfold cut. lia.
    - left. unfold cut. rewrite skipn_all. rewrite (Hnone eq_refl). reflexivity. }
  assert (Heq : buff1 ++ w = firstn cut buff1 ++ (skipn cut buff1 ++ w)).
  { rewrite app_assoc. rewrite firstn_skipn. reflexivity. }
  rewrite Heq.
  destruct (rstrip_eol (firstn cut buff1)) eqn:Hbody; inversion H; subst.
  - cbn [app]. apply P_skip; auto. apply rstrip_nil. exact Hbody.
  - cbn [app]. rewrite <- Hbody. apply P_chunk; auto. rewrite Hbody. discriminate.
Qed.

Lemma outer_spec : forall fuel buff rest i l,
  outer spl E fuel buff rest i = Some l -> partition i (buff ++ rest) l.
Proof.
  induction fuel as [|f IH]; intros buff rest i l H; [discriminate|].
  cbn [outer] in H.
  destruct (extend spl E (S (length rest)) buff rest ENil) as [[[[buff1 rest1] err1] e]|] eqn:Hx; [|discriminate].
  apply extend_spec in Hx; [|congruence].
  destruct Hx as (got & Hb & Hr & He & H1 & H2).
  destruct (emit buff1 e i) as [[sent buff2] i2] eqn:Hem.
  assert (Hfile : buff ++ rest = buff1 ++ rest1).
  { rewrite Hb, Hr. rewrite app_assoc. reflexivity. }
  rewrite Hfile.
  destruct err1.
  - destruct (outer spl E f buff2 rest1 i2) as [l'|] eqn:Ho; [|discriminate].
    inversion H; subst l. apply IH in Ho.
    eapply emit_spec; eauto. intros Hn. exfalso. apply (H1 eq_refl). exact Hn.
  - inversion H; subst l. rewrite (H2 ltac:(congruence)).
    eapply emit_spec; eauto.
    rewrite app_nil_r. destruct buff2; [apply P_end; constructor|apply P_last; discriminate].
  - inversion H; subst l. rewrite (H2 ltac:(congruence)).
    eapply emit_spec; eauto.
    rewrite app_nil_r. destruct buff2; [apply P_end; constructor|apply P_last; discriminate].
Qed.

Lemma emit_len : forall buff1 c i sent buff2 i2,
  emit buff1 (Some c) i = (sent, buff2, i2) -> spl buff1 = Some c ->
  (length buff2 < length buff1)%nat.
Proof.
  intros buff1 c i sent buff2 i2 H Hs. apply Hrange in Hs. unfold emit in H.
  destruct buff1 as [|b0 b1]; [cbn in Hs; lia|].
  destruct (rstrip_eol (firstn c (b0 :: b1))); inversion H; subst; rewrite skipn_length; lia.
Qed.

Lemma outer_total : forall fuel buff rest i,
  (length buff + length rest < fuel)%nat -> outer spl E fuel buff rest i <> None.
Proof.
  induction fuel as [|f IH]; intros buff rest i Hl; [lia|].
  cbn [outer].
  destruct (extend spl E (S (length rest)) buff rest ENil) as [[[[buff1 rest1] err1] e]|] eqn:Hx.
  2:{ exfalso. eapply extend_total; [|exact Hx]. lia. }
  pose proof Hx as Hx'. apply extend_spec in Hx'; [|congruence].
  destruct Hx' as (got & Hb & Hr & He & H1 & H2).
  destruct (emit buff1 e i) as [[sent buff2] i2] eqn:Hem.
  destruct err1; try congruence.
  destruct e as [c|]; [|exfalso; apply (H1 eq_refl); reflexivity].
  pose proof (emit_len _ _ _ _ _ _ Hem (eq_sym He)) as Hlt.
  assert (Hn : outer spl E f buff2 rest1 i2 <> None).
  { apply IH. subst buff1 rest. rewrite app_length in *. lia. }
  destruct (outer spl E f buff2 rest1 i2); congruence.
Qed.

Theorem chunker_partition : forall file,
  exists l, chunker_gen spl B E file = Some l /\ partition 0 file l.
Proof.
  intros file. unfold chunker_gen, chunker_fuel.
  destruct (readfull B file) as [[got rest] err] eqn:Hr.
  apply readfull_spec in Hr. destruct Hr as (Hf & Hnil & _ & Heof).
  assert (Hex : exists l, outer spl E (S (S (length file))) got rest 0 = Some l).
  { destruct (outer spl E (S (S (length file))) got rest 0) eqn:Ho; [eauto|].
    exfalso. eapply outer_total; [|exact Ho]. rewrite Hf, app_length. lia. }
  destruct err.
  - destruct Hex as (l & Hl). exists l. split; [exact Hl|]. rewrite Hf. apply outer_spec in Hl. exact Hl.
  - exists []. split; [reflexivity|]. rewrite Hf, (Heof eq_refl), (Hnil ltac:(congruence)). apply P_end. constructor.
  - destruct Hex as (l & Hl). exists l. split; [exact Hl|]. rewrite Hf. apply outer_spec in Hl. exact Hl.
Qed.

(** consequences of [partition] *)
Lemma partition_numbers : forall i w l, partition i w l -> map fst l = seq i (length l).
Proof.
  induction 1; cbn; auto. f_equal. exact IHpartition.
Qed.

Lemma partition_nonempty : forall i w l, partition i w l -> Forall (fun c => snd c <> []) l.
Proof.
  induction 1; auto.
Qed.

(* [eol_sub a b]: a is b with some CR/LF bytes deleted *)
Inductive eol_sub : list N -> list N -> Prop :=
| ES_nil : eol_sub [] []
| ES_keep : forall c a b, eol_sub a b -> eol_sub (c :: a) (c :: b)
| ES_drop : forall c a b, eolb c -> eol_sub a b -> eol_sub a (c :: b).

Lemma eol_sub_refl : forall a, eol_sub a a.
Proof. induction a; constructor; auto. Qed.
Lemma eol_sub_app : forall a b c d, eol_sub a b -> eol_sub c d -> eol_sub (a ++ c) (b ++ d).
Proof. induction 1; intros; cbn; auto; constructor; auto. Qed.
Lemma eol_sub_all : forall w, Forall eolb w -> eol_sub [] w.
Proof. induction 1; constructor; auto. Qed.
Lemma strip_rev_sub : forall r, eol_sub (rev (strip_rev r)) (rev r).
Proof.
  induction r as [|c r IH]; [constructor|]. cbn [strip_rev].
  destruct (is_eol c) eqn:Hc; [|apply eol_sub_refl].
  cbn [rev]. rewrite <- (app_nil_r (rev (strip_rev r))). apply eol_sub_app; auto.
  apply ES_drop; [exact Hc|constructor].
Qed.
Lemma rstrip_sub : forall l, eol_sub (rstrip_eol l) l.
Proof. intros l. unfold rstrip_eol. rewrite <- (rev_involutive l) at 2. apply strip_rev_sub. Qed.

Lemma partition_bytes : forall i w l, partition i w l -> eol_sub (concat (map snd l)) w.
Proof.
  induction 1; cbn [map concat snd].
  - apply eol_sub_all; auto.
  - change (concat (map snd l)) with ([] ++ concat (map snd l)). apply eol_sub_app; auto. apply eol_sub_all; auto.
  - apply eol_sub_app; auto. apply rstrip_sub.
  - rewrite app_nil_r. apply eol_sub_refl.
Qed.
End Part.

(** B = 1 in the original code: extension reads of 0 bytes, the loop never ends *)
Lemma extend_zero_diverges : forall spl fuel buff rest, spl buff = None -> extend spl 0 fuel buff rest ENil = None.
Proof.
  induction fuel as [|f IH]; intros buff rest Hs; cbn [extend]; rewrite Hs; [reflexivity|].
  unfold readfull. cbn [firstn skipn length Nat.eqb]. rewrite app_nil_r. apply IH. exact Hs.
Qed.

Lemma chunker_orig_B1_diverges : forall spl c file fuel,
  spl [c] = None -> chunker_fuel spl 1 0 fuel (c :: file) = None.
Proof.
  intros spl c file fuel Hs. unfold chunker_fuel, readfull. cbn [firstn skipn length Nat.eqb].
  destruct fuel; cbn [outer]; [reflexivity|].
  rewrite extend_zero_diverges; auto.
Qed.

(** * The splitters answer inside the buffer *)


Lemma fasta_scan_range : forall L r n st1 last x,
  n = length r -> (n <= L)%nat -> (st1 = true -> last = n /\ (n < L)%nat) ->
  fasta_scan r n st1 last = Some x -> (0 < x < L)%nat.
Proof.
  intros L. induction r as [|c r IH]; intros n st1 last x Hn HL Hst H; [discriminate|].
  cbn [fasta_scan] in H. cbn [length] in Hn.
  destruct ((c =? 62)%N && negb st1) eqn:H1.
  - apply (IH (pred n) true (pred n) x); auto; subst n; cbn [pred]; try lia.
  - destruct (st1 && is_eol c) eqn:H2.
    + destruct (Nat.eqb (pred n) 1); [discriminate|]. inversion H; subst x.
      apply andb_true_iff in H2. destruct H2 as [Hs _]. destruct (Hst Hs). lia.
    + apply (IH (pred n) false last x); auto; subst n; cbn [pred]; try lia; try discriminate.
Qed.

Lemma fasta_split_range : forall b c, fasta_split b = Some c -> (0 < c <= length b)%nat.
Proof.
  intros b c H. unfold fasta_split in H.
  eapply (fasta_scan_range (length b)) in H; try lia; try discriminate.
  rewrite rev_length. reflexivity.
Qed.

Lemma fq_try_range : forall L r n st cut x,
  n = length r -> (n < L)%nat -> (st = 6%nat -> cut = n) ->
  fq_try r n st cut = Final (Some x) -> (0 < x < L)%nat.
Proof.
  intros L. induction r as [|c r IH]; intros n st cut x Hn HL Hst H; [discriminate|].
  cbn [length] in Hn.
  assert (Hrec : forall st' cut', (st' = 6%nat -> cut' = pred n) ->
                 fq_try r (pred n) st' cut' = Final (Some x) -> (0 < x < L)%nat).
  { intros st' cut' Hc Hq. eapply IH in Hq; eauto; subst n; cbn [pred]; lia. }
  destruct st as [|[|[|[|[|[|[|st]]]]]]]; cbn [fq_try] in H; try discriminate.
  - destruct (is_eol c); [|discriminate]. eapply Hrec in H; auto; try discriminate.
  - destruct (is_sep c); [eapply Hrec in H; auto; try discriminate|].
    destruct (is_seqch c); [|discriminate]. eapply Hrec in H; auto; try discriminate.
  - destruct (is_eol c); [eapply Hrec in H; auto; try discriminate|].
    destruct (is_seqch c); [|discriminate]. eapply Hrec in H; auto; try discriminate.
  - destruct (is_eol c); eapply Hrec in H; auto; try discriminate.
  - destruct (is_eol c); [discriminate|].
    destruct (c =? 64)%N; eapply Hrec in H; auto; try discriminate.
  - destruct (is_eol c).
    + destruct (Nat.eqb (pred n) 1); [discriminate|]. inversion H; subst x. rewrite (Hst eq_refl). lia.
    + eapply Hrec in H; auto; try discriminate.
Qed.

Lemma fq_scan_range : forall L r n x,
  n = length r -> (n <= L)%nat -> fq_scan r n = Some x -> (0 < x < L)%nat.
Proof.
  intros L. induction r as [|c r IH]; intros n x Hn HL H; [discriminate|].
  cbn [fq_scan] in H. cbn [length] in Hn.
  destruct (c =? 43)%N.
  - destruct (fq_try r (pred n) 1%nat 0%nat) as [|y] eqn:Ht.
    + eapply IH in H; eauto; subst n; cbn [pred]; lia.
    + subst y. eapply fq_try_range in Ht; eauto; subst n; cbn [pred]; try lia; try discriminate.
  - eapply IH in H; eauto; subst n; cbn [pred]; lia.
Qed.

Lemma fastq_split_range : forall b c, fastq_split b = Some c -> (0 < c <= length b)%nat.
Proof.
  intros b c H. unfold fastq_split in H.
  eapply (fq_scan_range (length b)) in H; try lia. rewrite rev_length. reflexivity.
Qed.

Lemma flat_scan_range : forall L r n st start x,
  n = length r -> (n <= L)%nat -> (st = 1%nat -> (n < L)%nat) -> ((2 <= st)%nat -> (0 < start <= L)%nat) ->
  flat_scan r n st start = Some x -> (0 < x <= L)%nat.
Proof.
  intros L. induction r as [|c r IH]; intros n st start x Hn HL H1 H2 H; [discriminate|].
  cbn [length] in Hn.
  assert (Hp : pred n = length r) by (subst n; reflexivity).
  assert (Hlt : (pred n < L)%nat) by lia.
  destruct st as [|[|[|[|st]]]]; cbn [flat_scan] in H.
  - destruct (c =? 10)%N; eapply IH in H; eauto; try lia; try (intros; lia).
  - specialize (H1 eq_refl).
    destruct (c =? 13)%N; [|destruct (c =? 47)%N; [|destruct (c =? 10)%N]];
      eapply IH in H; eauto; try lia; try (intros; lia).
  - destruct (c =? 47)%N; [|destruct (c =? 10)%N];
      eapply IH in H; eauto; try lia; try (intros _; apply H2; lia); try (intros; lia).
  - destruct (c =? 47)%N; [|destruct (c =? 10)%N];
      eapply IH in H; eauto; try lia; try (intros _; apply H2; lia); try (intros; lia).
  - destruct (c =? 10)%N.
    + destruct (Nat.leb 2 (pred n)); [|discriminate]. inversion H; subst x. apply H2. lia.
    + eapply IH in H; eauto; try lia; try (intros; lia).
Qed.

Lemma flat_split_range : forall b c, flat_split b = Some c -> (0 < c <= length b)%nat.
Proof.
  intros b c H. unfold flat_split in H.
  eapply (flat_scan_range (length b)) in H; try lia. rewrite rev_length. reflexivity.
Qed.



(** * Flat-file parsers: a record's content does not depend on its neighbours *)
Definition opt_app {A} (a b : option (list A)) : option (list A) :=
  match a, b with Some x, Some y => Some (x ++ y) | _, _ => None end.

(** EMBL *)
Definition em_with (s : em_st) (o : list rec) : em_st := mkem (em_id s) (em_sci s) (em_defb s) (em_seqb s) (em_tax s) o.

Lemma em_line_out : forall fixed id sci defb seqb tax o line,
  em_line fixed (mkem id sci defb seqb tax o) line =
  let s' := em_line fixed (mkem id sci defb seqb tax []) line in em_with s' (em_out s' ++ o).
Proof.
  intros. unfold em_line. cbn [em_id em_sci em_defb em_seqb em_tax em_out].
  repeat match goal with |- context [if ?c then _ else _] => destruct c end; reflexivity.
Qed.

Lemma em_fold_out : forall fixed ls id sci defb seqb tax o,
  fold_left (em_line fixed) ls (mkem id sci defb seqb tax o) =
  let s' := fold_left (em_line fixed) ls (mkem id sci defb seqb tax []) in em_with s' (em_out s' ++ o).
Proof.
  induction ls as [|l ls IH]; intros; cbn [fold_left].
  - reflexivity.
  - rewrite em_line_out. cbv zeta.
    destruct (em_line fixed (mkem id sci defb seqb tax []) l) as [id' sci' defb' seqb' tax' o'] eqn:Hl.
    unfold em_with. cbn [em_id em_sci em_defb em_seqb em_tax em_out].
    rewrite IH. cbv zeta. rewrite (IH _ _ _ _ _ o').
    cbv zeta. unfold em_with. cbn [em_id em_sci em_defb em_seqb em_tax em_out].
    rewrite <- app_assoc. reflexivity.
Qed.

Lemma em_end_fixed : forall s, exists r, em_line true s s_end = mkem [] [] [] [] 1%Z (r :: em_out s).
Proof. intros s. eexists. reflexivity. Qed.

Lemma embl_record_independent : forall ls1 ls2,
  embl_parse_lines true ((ls1 ++ [s_end]) ++ ls2) = embl_parse_lines true (ls1 ++ [s_end]) ++ embl_parse_lines true ls2.
Proof.
  intros ls1 ls2. unfold embl_parse_lines.
  rewrite (fold_left_app (em_line true) (ls1 ++ [s_end]) ls2).
  rewrite (fold_left_app (em_line true) ls1 [s_end]). cbn [fold_left].
  destruct (em_end_fixed (fold_left (em_line true) ls1 em_init)) as [r Hr]. rewrite Hr.
  rewrite em_fold_out. cbv zeta. unfold em_with, em_init. cbn [em_out]. rewrite rev_app_distr. reflexivity.
Qed.

(** GenBank *)
Definition gb_with (s : gb_st) (o : list rec) : gb_st := mkgb (gb_s s) (gb_id s) (gb_sci s) (gb_defb s) (gb_seqb s) (gb_tax s) o.
Definition gb_lift (o : list rec) (r : option gb_st) : option gb_st :=
  match r with Some s' => Some (gb_with s' (gb_out s' ++ o)) | None => None end.

Lemma gb_line_out : forall fixed st id sci defb seqb tax o line,
  gb_line fixed (mkgb st id sci defb seqb tax o) line = gb_lift o (gb_line fixed (mkgb st id sci defb seqb tax []) line).
Proof.
  intros. unfold gb_line. cbn [gb_s gb_id gb_sci gb_defb gb_seqb gb_tax gb_out].
  repeat match goal with |- context [if ?c then _ else _] => destruct c end; reflexivity.
Qed.

Lemma gb_run_out : forall fixed ls st id sci defb seqb tax o,
  gb_run fixed (mkgb st id sci defb seqb tax o) ls = gb_lift o (gb_run fixed (mkgb st id sci defb seqb tax []) ls).
Proof.
  induction ls as [|l ls IH]; intros; cbn [gb_run].
  - reflexivity.
  - rewrite gb_line_out.
    destruct (gb_line fixed (mkgb st id sci defb seqb tax []) l) as [[st' id' sci' defb' seqb' tax' o']|] eqn:Hl; [|reflexivity].
    unfold gb_lift at 1. unfold gb_with. cbn [gb_s gb_id gb_sci gb_defb gb_seqb gb_tax gb_out].
    rewrite IH. rewrite (IH _ _ _ _ _ _ o').
    destruct (gb_run fixed (mkgb st' id' sci' defb' seqb' tax' []) ls) as [s''|]; [|reflexivity].
    unfold gb_lift, gb_with. cbn [gb_s gb_id gb_sci gb_defb gb_seqb gb_tax gb_out]. rewrite <- app_assoc. reflexivity.
Qed.

Lemma gb_run_app : forall fixed a b s,
  gb_run fixed s (a ++ b) = match gb_run fixed s a with Some s' => gb_run fixed s' b | None => None end.
Proof.
  induction a as [|l a IH]; intros; cbn [gb_run app]; [reflexivity|].
  destruct (gb_line fixed s l); [apply IH|reflexivity].
Qed.

Lemma gb_end_fixed : forall s s', gb_line true s s_end = Some s' -> exists r, s' = mkgb 0%nat [] [] [] [] 1%Z (r :: gb_out s).
Proof.
  intros [st id sci defb seqb tax o] s' H. unfold gb_line in H.
  cbn [gb_s gb_id gb_sci gb_defb gb_seqb gb_tax gb_out] in H.
  change (Nat.ltb 100 (length s_end)) with false in H.
  change (has_prefix s_LOCUS s_end) with false in H.
  change (has_prefix s_DEFINITION s_end) with false in H.
  change (has_prefix s_SOURCE s_end) with false in H.
  change (has_prefix s_FEATURES s_end) with false in H.
  change (has_prefix s_ORIGIN s_end) with false in H.
  change (has_prefix s_CONTIG s_end) with false in H.
  change (has_prefix (spaces 12) s_end) with false in H.
  change (list_eqb s_end s_end) with true in H.
  cbv iota in H.
  destruct (Nat.eqb st 2).
  - cbn in H. discriminate.
  - destruct (Nat.eqb st 4 || Nat.eqb st 5); [|discriminate]. inversion H. eexists. reflexivity.
Qed.

Lemma genbank_record_independent : forall ls1 ls2,
  genbank_parse_lines true ((ls1 ++ [s_end]) ++ ls2) =
  opt_app (genbank_parse_lines true (ls1 ++ [s_end])) (genbank_parse_lines true ls2).
Proof.
  intros ls1 ls2. unfold genbank_parse_lines.
  rewrite (gb_run_app true (ls1 ++ [s_end]) ls2).
  rewrite (gb_run_app true ls1 [s_end]).
  destruct (gb_run true gb_init ls1) as [s1|]; [|reflexivity].
  cbn [gb_run].
  destruct (gb_line true s1 s_end) as [s2|] eqn:He; [|reflexivity].
  destruct (gb_end_fixed _ _ He) as [r Hr]. subst s2.
  rewrite gb_run_out. unfold gb_init.
  destruct (gb_run true (mkgb 0 [] [] [] [] 1 []) ls2) as [s3|]; [|reflexivity].
  unfold gb_lift, gb_with, opt_app. cbn [gb_out]. rewrite rev_app_distr. reflexivity.
Qed.
Definition w_gb1 : list (list N) := [[76;79;67;85;83;32;32;32;32;32;32;32;65;32;50;32;98;112]%N; [83;79;85;82;67;69;32;32;32;32;32;32;72;111;109;111;32;115;97;112;105;101;110;115]%N; [70;69;65;84;85;82;69;83;32;32;32;32;32;32;32;32;32;32;32;32;32;76;111;99;97;116;105;111;110;47;81;117;97;108;105;102;105;101;114;115]%N; [32;32;32;32;32;32;32;32;32;32;32;32;32;32;32;32;32;32;32;32;32;47;100;98;95;120;114;101;102;61;34;116;97;120;111;110;58;57;54;48;54;34]%N; [79;82;73;71;73;78]%N; [32;32;32;32;32;32;32;32;49;32;97;99]%N].
Definition w_gb2 : list (list N) := [[76;79;67;85;83;32;32;32;32;32;32;32;66;32;49;32;98;112]%N; [70;69;65;84;85;82;69;83;32;32;32;32;32;32;32;32;32;32;32;32;32;76;111;99;97;116;105;111;110;47;81;117;97;108;105;102;105;101;114;115]%N; [79;82;73;71;73;78]%N; [32;32;32;32;32;32;32;32;49;32;116]%N; [47;47]%N].
Definition w_em1 : list (list N) := [[73;68;32;32;32;88;49;59;32;83;86;32;49]%N; [79;83;32;32;32;72;111;109;111;32;115;97;112;105;101;110;115]%N; [70;84;32;32;32;32;32;32;32;32;32;32;32;32;32;32;32;32;32;32;32;47;100;98;95;120;114;101;102;61;34;116;97;120;111;110;58;57;54;48;54;34]%N; [32;32;32;32;32;97;99;32;32;32;32;32;32;32;32;32;50]%N].
Definition w_em2 : list (list N) := [[32;32;32;32;32;116;32;32;32;32;32;32;32;32;32;32;49]%N; [47;47]%N].

Lemma genbank_record_independent_orig_refuted :
  genbank_parse_lines false ((w_gb1 ++ [s_end]) ++ w_gb2) <>
  opt_app (genbank_parse_lines false (w_gb1 ++ [s_end])) (genbank_parse_lines false w_gb2)
  /\ genbank_parse_lines false w_gb2 <> None.
Proof. vm_compute. split; discriminate. Qed.

Lemma embl_record_independent_orig_refuted :
  embl_parse_lines false ((w_em1 ++ [s_end]) ++ w_em2) <>
  embl_parse_lines false (w_em1 ++ [s_end]) ++ embl_parse_lines false w_em2.
Proof. vm_compute. discriminate. Qed.

(** FASTQ without qualities *)
Definition noq (r : rec) : Prop := rqual r = None.
Lemma fq_step_noq : forall shift s C s', fq_step shift false s C = Some s' -> Forall noq (fq_out s) -> Forall noq (fq_out s').
Proof.
  intros shift s C s' H Ho. unfold fq_step in H.
  destruct (fq_s s) as [|[|[|[|[|[|[|[|[|[|[|[|?]]]]]]]]]]]];
    repeat match type of H with
           | context [if ?c then _ else _] => destruct c
           | context [match ?l with [] => _ | _ :: _ => _ end] => destruct l
           end; inversion H; subst; cbn [fq_out]; auto.
  constructor; auto. reflexivity.
Qed.
Lemma fq_run_noq : forall shift l s s', fq_run shift false s l = Some s' -> Forall noq (fq_out s) -> Forall noq (fq_out s').
Proof.
  induction l as [|c l IH]; intros s s' H Ho; cbn [fq_run] in H.
  - inversion H; subst; auto.
  - destruct (fq_step shift false s c) eqn:Hs; [|discriminate]. eapply IH; eauto. eapply fq_step_noq; eauto.
Qed.
Lemma fastq_noqual : forall shift text recs, fastq_parse shift false text = Some recs -> Forall noq recs.
Proof.
  intros shift text recs H. unfold fastq_parse, fastq_parse_gen in H.
  destruct (fq_run shift false fq_init text) as [s|] eqn:Hr; [|discriminate].
  apply fq_run_noq in Hr; [|constructor].
  destruct (fq_out s) eqn:Ho; [inversion H; constructor|].
  rewrite andb_false_r in H. injection H as Hq. rewrite <- Hq. change (rev l ++ [r]) with (rev (r :: l)). apply Forall_rev. exact Hr.
Qed.
Lemma fastq_noqual_orig_refuted :
  exists t, fastq_parse_orig 33 false t <> fastq_parse_orig 33 false (t ++ [10]%N)
            /\ fastq_parse_orig 33 false t <> None /\ fastq_parse_orig 33 false (t ++ [10]%N) <> None.
Proof. exists [64;97;10;97;99;10;43;10;73;73]%N. vm_compute. repeat split; discriminate. Qed.



(** * FASTA: the splitter only answers at a '>' that follows CR/LF *)
Lemma fasta_scan_sound : forall r n st1 last x,
  n = length r -> (st1 = true -> last = n) ->
  fasta_scan r n st1 last = Some x ->
  (st1 = true /\ exists e r2, r = e :: r2 /\ is_eol e = true /\ x = n) \/
  (exists a r2 e, r = a ++ 62%N :: e :: r2 /\ is_eol e = true /\ x = S (length r2)).
Proof.
  induction r as [|c r IH]; intros n st1 last x Hn Hst H; [discriminate|].
  cbn [fasta_scan] in H. cbn [length] in Hn.
  destruct ((c =? 62)%N && negb st1) eqn:H1.
  - apply andb_true_iff in H1. destruct H1 as [Hc _]. apply N.eqb_eq in Hc. subst c.
    apply IH in H; [|subst n; reflexivity|intros _; reflexivity].
    destruct H as [(_ & e & r2 & Hr & He & Hx)|(a & r2 & e & Hr & He & Hx)].
    + right. exists [], r2, e. subst r. cbn [app]. repeat split; auto. subst x n. cbn [pred length]. reflexivity.
    + right. exists (62%N :: a), r2, e. subst r. repeat split; auto.
  - destruct (st1 && is_eol c) eqn:H2.
    + apply andb_true_iff in H2. destruct H2 as [Hs He].
      destruct (Nat.eqb (pred n) 1); [discriminate|]. inversion H; subst x.
      left. split; [exact Hs|]. exists c, r. repeat split; auto.
    + apply IH in H; [|subst n; reflexivity|discriminate].
      destruct H as [(Hf & _)|(a & r2 & e & Hr & He & Hx)]; [discriminate|].
      right. exists (c :: a), r2, e. subst r. repeat split; auto.
Qed.

Lemma fasta_split_sound : forall b c, fasta_split b = Some c ->
  exists pre e post, b = pre ++ e :: 62%N :: post /\ is_eol e = true /\ c = S (length pre).
Proof.
  intros b c H. unfold fasta_split in H.
  apply fasta_scan_sound in H; [|rewrite rev_length; reflexivity|discriminate].
  destruct H as [(Hf & _)|(a & r2 & e & Hr & He & Hx)]; [discriminate|].
  exists (rev r2), e, (rev a). repeat split; auto.
  - apply (f_equal (@rev N)) in Hr. rewrite rev_involutive in Hr. rewrite Hr.
    rewrite rev_app_distr. rewrite ?Hq'. unfold fa_emit. cbn [rev]. rewrite <- ?app_assoc. reflexivity.
  - rewrite rev_length. exact Hx.
Qed.

(** * FASTA parser: decomposition at a '>' that follows CR/LF *)
Definition fa_sim (o : list rec) (s s' : fa_st) : Prop :=
  fa_s s = fa_s s' /\ fa_out s = fa_out s' ++ o /\ fa_prev s = fa_prev s' /\
  match fa_s s with
  | 1%nat => True
  | 2%nat => fa_idb s = fa_idb s'
  | 3%nat => fa_id s = fa_id s'
  | 4%nat => fa_id s = fa_id s' /\ fa_defb s = fa_defb s'
  | 5%nat => fa_id s = fa_id s' /\ fa_def s = fa_def s'
  | 6%nat => fa_id s = fa_id s' /\ fa_def s = fa_def s' /\ fa_seqb s = fa_seqb s'
  | _ => False
  end.

Lemma fa_step_sim : forall o s s' C, fa_sim o s s' ->
  match fa_step s C, fa_step s' C with
  | Some t, Some t' => fa_sim o t t'
  | None, None => True
  | _, _ => False
  end.
Proof.
  intros o [st idb defb seqb id def prev out] [st' idb' defb' seqb' id' def' prev' out'] C (Hs & Ho & Hp & Hm).
  cbn [fa_s fa_out fa_prev fa_idb fa_defb fa_seqb fa_id fa_def] in *. subst st' prev' out.
  unfold fa_step, fa_emit. cbn [fa_s fa_out fa_prev fa_idb fa_defb fa_seqb fa_id fa_def].
  destruct st as [|[|[|[|[|[|[|st]]]]]]]; try contradiction.
  - destruct (is_space C || is_eol C); [exact I|]. unfold fa_sim; cbn; repeat split; auto.
  - subst idb'. destruct (is_space C || is_eol C); [destruct (is_eol C)|]; unfold fa_sim; cbn; repeat split; auto.
  - subst id'. destruct (is_eol C); [|destruct (negb (is_space C))]; unfold fa_sim; cbn; repeat split; auto.
  - destruct Hm; subst id' defb'. destruct (is_eol C); unfold fa_sim; cbn; repeat split; auto.
  - destruct Hm; subst id' def'. destruct (is_eol C); [|destruct (is_seqlow (lower C))]; unfold fa_sim; cbn; repeat split; auto.
  - destruct Hm as (? & ? & ?); subst id' def' seqb'.
    destruct (C =? 62)%N.
    + destruct (is_eol prev); [|exact I]. destruct seqb; [exact I|]. unfold fa_sim; cbn; repeat split; auto.
    + destruct (negb (is_space C || is_eol C)); [destruct (is_seqlow (lower C))|]; unfold fa_sim; cbn; repeat split; auto.
Qed.

Lemma fa_run_sim : forall o l s s', fa_sim o s s' ->
  match fa_run s l, fa_run s' l with
  | Some t, Some t' => fa_sim o t t'
  | None, None => True
  | _, _ => False
  end.
Proof.
  induction l as [|c l IH]; intros s s' H; cbn [fa_run]; [exact H|].
  pose proof (fa_step_sim o s s' c H) as Hc.
  destruct (fa_step s c), (fa_step s' c); try contradiction; auto. apply IH. exact Hc.
Qed.

Lemma fa_run_app : forall a b s,
  fa_run s (a ++ b) = match fa_run s a with Some s' => fa_run s' b | None => None end.
Proof.
  induction a as [|c a IH]; intros; cbn [fa_run app]; [reflexivity|].
  destruct (fa_step s c); [apply IH|reflexivity].
Qed.

Lemma fa_step_eol : forall s C s', fa_step s C = Some s' -> is_eol C = true ->
  (fa_s s' = 5%nat) \/ (fa_s s' = 6%nat /\ fa_prev s' = C /\ fa_s s = 6%nat /\ fa_seqb s' = fa_seqb s /\ fa_id s' = fa_id s /\ fa_def s' = fa_def s /\ fa_out s' = fa_out s).
Proof.
  intros [st idb defb seqb id def prev out] C s' H He. unfold fa_step in H.
  cbn [fa_s fa_out fa_prev fa_idb fa_defb fa_seqb fa_id fa_def] in H.
  assert (Hne : (C =? 62)%N = false).
  { unfold is_eol in He. destruct (C =? 62)%N eqn:Hc; [|reflexivity]. apply N.eqb_eq in Hc. subst C. discriminate. }
  rewrite He in H. rewrite orb_true_r in H. rewrite Hne in H.
  destruct st as [|[|[|[|[|[|[|st]]]]]]]; cbn in H; try discriminate;
    inversion H; subst; cbn; auto.
  right. repeat split; reflexivity.
Qed.

(* the flush at the end of the input *)
Definition fa_flush (s : fa_st) : option (list rec) :=
  if Nat.eqb (fa_s s) 6 then match fa_seqb s with [] => None | _ => Some (rev (fa_emit s)) end
  else Some (rev (fa_out s)).

Lemma fasta_parse_unfold : forall c0 c1 t, fasta_parse (c0 :: c1 :: t) =
  if negb (c0 =? 62)%N then None else if (c1 =? 32)%N then None else
  match fa_run fa_init (c0 :: c1 :: t) with Some s => fa_flush s | None => None end.
Proof. reflexivity. Qed.

(** a text is complete when the parser ends inside the sequence of a record (state 6) *)
Definition fa_complete (t : list N) : Prop := exists s, fa_run fa_init t = Some s /\ fa_s s = 6%nat.

Theorem fasta_parse_decompose : forall t1 e t2 recs,
  is_eol e = true -> t2 <> [] ->
  fasta_parse ((t1 ++ [e]) ++ 62%N :: t2) = Some recs ->
  exists r1 r2, fasta_parse (t1 ++ [e]) = Some r1 /\ fasta_parse (62%N :: t2) = Some r2 /\ recs = r1 ++ r2
                /\ fa_complete (t1 ++ [e])
                /\ (fa_complete ((t1 ++ [e]) ++ 62%N :: t2) -> fa_complete (62%N :: t2)).
Proof.
  intros t1 e t2 recs He Ht2 H.
  (* t1 ++ [e] has at least two bytes and starts like the whole text *)
  destruct t1 as [|c0 t1].
  { destruct t2 as [|d t2]; [contradiction|].
    change (([] ++ [e]) ++ 62%N :: d :: t2) with (e :: 62%N :: d :: t2) in H. rewrite fasta_parse_unfold in H.
    destruct (e =? 62)%N eqn:E1; [apply N.eqb_eq in E1; subst e; discriminate|]. cbn [negb] in H. discriminate. }
  assert (Hsh : exists c1 t1', t1 ++ [e] = c1 :: t1').
  { destruct t1; cbn; eauto. }
  destruct Hsh as (c1 & t1' & Hsh).
  cbn [app] in H. rewrite Hsh in H. cbn [app] in H. rewrite fasta_parse_unfold in H.
  destruct (negb (c0 =? 62)%N) eqn:H0; [discriminate|].
  destruct (c1 =? 32)%N eqn:H1; [discriminate|].
  change (c0 :: c1 :: t1' ++ 62%N :: t2) with ((c0 :: c1 :: t1') ++ 62%N :: t2) in H.
  rewrite fa_run_app in H.
  destruct (fa_run fa_init (c0 :: c1 :: t1')) as [s1|] eqn:Hr1; [|discriminate].
  (* the state after the EOL that ends t1 *)
  assert (Hs1 : fa_s s1 = 6%nat /\ is_eol (fa_prev s1) = true).
  { assert (Hlast : c0 :: c1 :: t1' = (c0 :: t1) ++ [e]) by (cbn [app]; rewrite Hsh; reflexivity).
    rewrite Hlast in Hr1. rewrite fa_run_app in Hr1.
    destruct (fa_run fa_init (c0 :: t1)) as [s0|]; [|discriminate].
    cbn [fa_run] in Hr1. destruct (fa_step s0 e) as [s1'|] eqn:Hse; [|discriminate].
    inversion Hr1; subst s1'.
    destruct (fa_step_eol _ _ _ Hse He) as [H5|(H6 & Hp & _)].
    - exfalso. cbn [fa_run] in H. unfold fa_step in H. rewrite H5 in H. cbn in H. discriminate.
    - split; [exact H6|]. rewrite Hp. exact He. }
  destruct Hs1 as [Hs6 Hpe].
  cbn [fa_run] in H.
  destruct (fa_step s1 62%N) as [s2|] eqn:Hst; [|discriminate].
  assert (Hs2 : fa_seqb s1 <> [] /\ s2 = mkfa 1%nat (fa_idb s1) (fa_defb s1) (fa_seqb s1) (fa_id s1) (fa_def s1) 62%N (fa_emit s1)).
  { unfold fa_step in Hst. rewrite Hs6, Hpe in Hst. cbn in Hst.
    destruct (fa_seqb s1) eqn:Hq; [discriminate|]. split; [discriminate|]. inversion Hst. reflexivity. }
  destruct Hs2 as [Hq Hs2]. subst s2.
  (* the run over t2 from the fresh parser *)
  set (s2' := mkfa 1%nat [] [] [] [] [] 62%N []).
  assert (Hsim : fa_sim (fa_emit s1) (mkfa 1%nat (fa_idb s1) (fa_defb s1) (fa_seqb s1) (fa_id s1) (fa_def s1) 62%N (fa_emit s1)) s2').
  { unfold fa_sim, s2'; cbn. auto. }
  pose proof (fa_run_sim _ t2 _ _ Hsim) as Hrun.
  destruct (fa_run (mkfa 1%nat (fa_idb s1) (fa_defb s1) (fa_seqb s1) (fa_id s1) (fa_def s1) 62%N (fa_emit s1)) t2) as [s3|] eqn:Hr3; [|discriminate].
  destruct (fa_run s2' t2) as [s3'|] eqn:Hr3'; [|contradiction].
  destruct Hrun as (Hst3 & Ho3 & _ & Hm3).
  exists (rev (fa_emit s1)).
  assert (Hflush : exists r2, fa_flush s3' = Some r2 /\ recs = rev (fa_emit s1) ++ r2).
  { unfold fa_flush in *. rewrite <- Hst3.
    destruct (Nat.eqb (fa_s s3) 6) eqn:E6.
    - apply Nat.eqb_eq in E6. rewrite E6 in Hm3. destruct Hm3 as (Hi & Hd & Hsq).
      rewrite Hsq in H. destruct (fa_seqb s3') as [|q0 q] eqn:Hq'; [discriminate|].
      eexists. split; [reflexivity|]. injection H as H. rewrite <- H. unfold fa_emit.
      rewrite Ho3, Hi, Hd, Hsq. rewrite rev_app_distr. rewrite ?Hq'. unfold fa_emit. cbn [rev]. rewrite <- ?app_assoc. reflexivity.
    - eexists. split; [reflexivity|]. inversion H. rewrite Ho3, rev_app_distr. reflexivity. }
  destruct Hflush as (r2 & Hf2 & Hrecs). exists r2.
  destruct t2 as [|d1 t2']; [contradiction|].
  assert (Hd1 : (d1 =? 32)%N = false).
  { cbn [fa_run] in Hr3'. unfold s2', fa_step in Hr3'. cbn in Hr3'.
    destruct (d1 =? 32)%N eqn:E; [|reflexivity]. apply N.eqb_eq in E. subst d1. cbn in Hr3'. discriminate. }
  repeat split.
  - cbn [app]. rewrite Hsh. rewrite fasta_parse_unfold, H0, H1, Hr1. unfold fa_flush. rewrite Hs6. cbn.
    destruct (fa_seqb s1); [contradiction|reflexivity].
  - rewrite fasta_parse_unfold. cbn [negb N.eqb Pos.eqb]. rewrite Hd1.
    change (fa_run fa_init (62%N :: d1 :: t2')) with (fa_run s2' (d1 :: t2')). rewrite Hr3'. exact Hf2.
  - exact Hrecs.
  - exists s1. cbn [app]. rewrite Hsh. split; auto.
  - intros (sf & Hsf & Hsf6). exists s3'. split.
    + change (fa_run fa_init (62%N :: d1 :: t2')) with (fa_run s2' (d1 :: t2')). exact Hr3'.
    + rewrite <- Hst3. cbn [app] in Hsf. rewrite Hsh in Hsf.
      change (c0 :: (c1 :: t1') ++ 62%N :: d1 :: t2') with ((c0 :: c1 :: t1') ++ 62%N :: d1 :: t2') in Hsf.
      rewrite fa_run_app, Hr1 in Hsf. cbn [fa_run] in Hsf. rewrite Hst in Hsf.
      cbn [fa_run] in Hr3. rewrite Hr3 in Hsf. inversion Hsf; subst. exact Hsf6.
Qed.



(** records delivered when every chunk is parsed on its own, in the order of the chunk numbers *)
Definition parse_chunks (parse : list N -> option (list rec)) (l : list (nat * list N)) : option (list rec) :=
  fold_right (fun c acc => opt_app (parse (snd c)) acc) (Some []) l.

Lemma strip_rev_split : forall r, exists e, r = e ++ strip_rev r /\ Forall eolb e.
Proof.
  induction r as [|c r IH]; [exists []; split; [reflexivity|constructor]|].
  cbn [strip_rev]. destruct (is_eol c) eqn:Hc.
  - destruct IH as (e & He & Hf). exists (c :: e). split; [cbn; f_equal; exact He|constructor; auto].
  - exists []. split; [reflexivity|constructor].
Qed.

Lemma rstrip_split : forall t, exists eols, t = rstrip_eol t ++ eols /\ Forall eolb eols.
Proof.
  intros t. destruct (strip_rev_split (rev t)) as (e & He & Hf).
  exists (rev e). split; [|apply Forall_rev; exact Hf].
  unfold rstrip_eol. rewrite <- rev_app_distr. rewrite <- He. symmetry. apply rev_involutive.
Qed.

Lemma fa_run_eols_back : forall eols s s', Forall eolb eols -> fa_run s eols = Some s' -> fa_s s' = 6%nat ->
  fa_s s = 6%nat /\ fa_seqb s' = fa_seqb s /\ fa_id s' = fa_id s /\ fa_def s' = fa_def s /\ fa_out s' = fa_out s.
Proof.
  induction eols as [|c eols IH]; intros s s' Hf H H6; cbn [fa_run] in H.
  - inversion H; subst. auto.
  - inversion Hf; subst. destruct (fa_step s c) as [s1|] eqn:Hs; [|discriminate].
    destruct (IH _ _ H3 H H6) as (H61 & Hq & Hi & Hd & Ho).
    destruct (fa_step_eol _ _ _ Hs H2) as [H5|(_ & _ & Hs6 & Hq1 & Hi1 & Hd1 & Ho1)]; [congruence|].
    repeat split; congruence.
Qed.

Lemma fasta_parse_rstrip : forall t, fa_complete t -> fasta_parse (rstrip_eol t) = fasta_parse t /\ fa_complete (rstrip_eol t).
Proof.
  intros t (sf & Hrun & H6).
  destruct (rstrip_split t) as (eols & Ht & Hf).
  set (t' := rstrip_eol t) in *.
  rewrite Ht in Hrun. rewrite fa_run_app in Hrun.
  destruct (fa_run fa_init t') as [s'|] eqn:Hr'; [|discriminate].
  destruct (fa_run_eols_back _ _ _ Hf Hrun H6) as (H6' & Hq & Hi & Hd & Ho).
  split; [|exists s'; auto].
  destruct t' as [|c0 [|c1 t'']].
  - cbn in Hr'. inversion Hr'; subst s'. discriminate.
  - cbn in Hr'. destruct (c0 =? 62)%N; [|discriminate]. inversion Hr'; subst s'. discriminate.
  - rewrite Ht. cbn [app]. rewrite !fasta_parse_unfold.
    change (c0 :: c1 :: t'' ++ eols) with ((c0 :: c1 :: t'') ++ eols).
    rewrite fa_run_app, Hr', Hrun. unfold fa_flush, fa_emit. rewrite H6, H6', Hq, Hi, Hd, Ho. reflexivity.
Qed.

Lemma fa_step_gt_not6 : forall s s', fa_step s 62%N = Some s' -> fa_s s' <> 6%nat.
Proof.
  intros [st idb defb seqb id def prev out] s' H. unfold fa_step in H.
  cbn [fa_s fa_out fa_prev fa_idb fa_defb fa_seqb fa_id fa_def] in H.
  destruct st as [|[|[|[|[|[|[|st]]]]]]]; cbn in H; try discriminate;
    try (inversion H; subst; cbn; discriminate).
  destruct (is_eol prev); [|discriminate]. destruct seqb; [discriminate|]. inversion H; subst; cbn; discriminate.
Qed.

Lemma partition_nil : forall spl i w l, partition spl i w l -> w = [] -> l = [].
Proof.
  induction 1; intros Hw; auto.
  - apply app_eq_nil in Hw. destruct Hw; auto.
  - apply app_eq_nil in Hw. destruct Hw as [Hs _]. subst seg. exfalso. apply H. reflexivity.
  - contradiction.
Qed.

Lemma starts_eol_no_parse : forall c w, is_eol c = true -> fasta_parse (c :: w) = None.
Proof.
  intros c w Hc. destruct w as [|c1 w]; [reflexivity|]. rewrite fasta_parse_unfold.
  destruct (c =? 62)%N eqn:E; [apply N.eqb_eq in E; subst c; discriminate|]. reflexivity.
Qed.

Lemma fasta_partition_records : forall i w l, partition fasta_split i w l ->
  forall recs, fasta_parse w = Some recs -> fa_complete w -> parse_chunks fasta_parse l = Some recs.
Proof.
  induction 1 as [i w Hall|i seg w l Hall Hcut Hp IH|i seg w l Hne Hcut Hp IH|i seg Hne]; intros recs Hparse Hcomp.
  - exfalso. destruct w as [|c w]; [discriminate|]. inversion Hall; subst. rewrite starts_eol_no_parse in Hparse; [discriminate|assumption].
  - destruct seg as [|c seg]; [apply IH; assumption|].
    exfalso. inversion Hall; subst. cbn [app] in Hparse. rewrite starts_eol_no_parse in Hparse; [discriminate|assumption].
  - destruct Hcut as [Hw|(x & y & Hw & Hs)].
    + subst w. rewrite app_nil_r in *. rewrite (partition_nil _ _ _ _ Hp eq_refl).
      cbn [parse_chunks fold_right snd]. destruct (fasta_parse_rstrip _ Hcomp) as [Hrs _]. rewrite Hrs, Hparse.
      cbn. rewrite app_nil_r. reflexivity.
    + apply fasta_split_sound in Hs. destruct Hs as (pre & e & post & Hb & He & Hlen).
      assert (Hseg : seg = pre ++ [e] /\ x = 62%N :: post).
      { assert (Hl : length seg = length (pre ++ [e])) by (rewrite app_length; cbn; lia).
        replace (pre ++ e :: 62%N :: post) with ((pre ++ [e]) ++ 62%N :: post) in Hb by (rewrite <- app_assoc; reflexivity).
        split.
        - apply (f_equal (firstn (length seg))) in Hb. rewrite firstn_app, Nat.sub_diag, firstn_all in Hb. cbn [firstn] in Hb.
          rewrite app_nil_r in Hb. rewrite Hb, Hl. rewrite firstn_app, Nat.sub_diag, firstn_all. cbn [firstn]. apply app_nil_r.
        - apply (f_equal (skipn (length seg))) in Hb. rewrite skipn_app, Nat.sub_diag, skipn_all in Hb. cbn [skipn app] in Hb.
          rewrite Hb, Hl. rewrite skipn_app, Nat.sub_diag, skipn_all. reflexivity. }
      destruct Hseg as [Hseg Hx]. subst seg x w.
      change ((62%N :: post) ++ y) with (62%N :: (post ++ y)) in *.
      assert (Ht2 : post ++ y <> []).
      { intros Hn. rewrite Hn in Hcomp. destruct Hcomp as (sf & Hrun & H6).
        rewrite fa_run_app in Hrun. destruct (fa_run fa_init (pre ++ [e])); [|discriminate].
        cbn [fa_run] in Hrun. destruct (fa_step f 62%N) eqn:Hst; [|discriminate]. inversion Hrun; subst.
        eapply fa_step_gt_not6; eauto. }
      destruct (fasta_parse_decompose _ _ _ _ He Ht2 Hparse) as (r1 & r2 & Hp1 & Hp2 & Hrecs & Hc1 & Hc2).
      cbn [parse_chunks fold_right snd].
      destruct (fasta_parse_rstrip _ Hc1) as [Hrs _]. rewrite Hrs, Hp1.
      change (fold_right (fun c acc => opt_app (fasta_parse (snd c)) acc) (Some []) l) with (parse_chunks fasta_parse l).
      rewrite (IH r2 Hp2 (Hc2 Hcomp)). cbn. rewrite Hrecs. reflexivity.
  - cbn [parse_chunks fold_right snd]. rewrite Hparse. cbn. rewrite app_nil_r. reflexivity.
Qed.

(** C01_read_fasta: for every text that the FASTA parser accepts as a whole and that ends inside a
    record's sequence, every buffer size: the chunks parsed one by one give the same records, in order *)
Theorem read_fasta : forall B file recs, (1 <= B)%nat ->
  fasta_parse file = Some recs -> fa_complete file ->
  exists l, chunker fasta_split B file = Some l /\ map fst l = seq 0 (length l) /\ parse_chunks fasta_parse l = Some recs.
Proof.
  intros B file recs HB Hp Hc.
  destruct (chunker_partition fasta_split B B HB fasta_split_range file) as (l & Hl & Hpart).
  exists l. split; [exact Hl|]. split; [eapply partition_numbers; eauto|]. eapply fasta_partition_records; eauto.
Qed.



(** * FASTQ parser: decomposition at an '@' read in state 11 (after a complete record) *)
Definition fq_sim (o : list rec) (s s' : fq_st) : Prop :=
  fq_s s = fq_s s' /\ fq_out s = fq_out s' ++ o /\
  match fq_s s with
  | 1%nat => True
  | 2%nat => fq_idb s = fq_idb s'
  | 3%nat => fq_id s = fq_id s'
  | 4%nat => fq_id s = fq_id s' /\ fq_defb s = fq_defb s'
  | 5%nat => fq_id s = fq_id s' /\ fq_def s = fq_def s'
  | 6%nat => fq_id s = fq_id s' /\ fq_def s = fq_def s' /\ fq_seqb s = fq_seqb s'
  | 7%nat | 8%nat | 9%nat => fq_out s' <> []
  | 10%nat => fq_out s' <> [] /\ fq_qualb s = fq_qualb s'
  | 11%nat => True
  | _ => False
  end.

Lemma fq_store_app : forall shift q out o, out <> [] ->
  fq_store shift q (out ++ o) = match fq_store shift q out with Some x => Some (x ++ o) | None => None end.
Proof.
  intros shift q out o Hne. destruct out as [|r out]; [contradiction|].
  unfold fq_store. cbn [app]. destruct (rev q); [reflexivity|].
  destruct (Nat.eqb (length (n :: l)) (length (rseq r))); reflexivity.
Qed.

Lemma fq_store_ne : forall shift q out x, fq_store shift q out = Some x -> x <> [].
Proof.
  intros shift q out x H. unfold fq_store in H. destruct out; [discriminate|].
  destruct (rev q); [discriminate|]. destruct (Nat.eqb _ _); [|discriminate]. inversion H. discriminate.
Qed.

Lemma fq_step_sim : forall shift withq o s s' C, fq_sim o s s' ->
  match fq_step shift withq s C, fq_step shift withq s' C with
  | Some t, Some t' => fq_sim o t t'
  | None, None => True
  | _, _ => False
  end.
Proof.
  intros shift withq o [st idb defb seqb qualb id def out] [st' idb' defb' seqb' qualb' id' def' out'] C (Hs & Ho & Hm).
  cbn [fq_s fq_out fq_idb fq_defb fq_seqb fq_qualb fq_id fq_def] in *. subst st' out.
  unfold fq_step. cbn [fq_s fq_out fq_idb fq_defb fq_seqb fq_qualb fq_id fq_def].
  destruct st as [|[|[|[|[|[|[|[|[|[|[|[|st]]]]]]]]]]]]; try contradiction.
  - destruct (is_space C || is_eol C); [exact I|]. unfold fq_sim; cbn; repeat split; auto.
  - subst idb'. destruct (is_space C || is_eol C); [destruct (is_eol C)|]; unfold fq_sim; cbn; repeat split; auto.
  - subst id'. destruct (is_eol C); [|destruct (negb (is_space C))]; unfold fq_sim; cbn; repeat split; auto.
  - destruct Hm; subst id' defb'. destruct (is_eol C); unfold fq_sim; cbn; repeat split; auto.
  - destruct Hm; subst id' def'. destruct (is_eol C); unfold fq_sim; cbn; repeat split; auto.
  - destruct Hm as (? & ? & ?); subst id' def' seqb'.
    destruct (is_eol C).
    + destruct seqb; [exact I|]. unfold fq_sim; cbn; repeat split; auto. discriminate.
    + destruct (is_seqlow (lower C)); [|exact I]. unfold fq_sim; cbn; repeat split; auto.
  - destruct (is_eol C); [|destruct (C =? 43)%N]; try exact I; unfold fq_sim; cbn; repeat split; auto.
  - destruct (is_eol C); unfold fq_sim; cbn; repeat split; auto.
  - destruct (is_eol C); unfold fq_sim; cbn; repeat split; auto.
  - destruct Hm as [Hne Hq]. subst qualb'.
    destruct (is_eol C).
    + destruct withq.
      * rewrite fq_store_app by exact Hne.
        destruct (fq_store shift qualb out') eqn:Hst; [|exact I]. unfold fq_sim; cbn; repeat split; auto.
      * unfold fq_sim; cbn; repeat split; auto.
    + unfold fq_sim; cbn; repeat split; auto.
  - destruct (is_eol C); [|destruct (C =? 64)%N]; try exact I; unfold fq_sim; cbn; repeat split; auto.
Qed.

Lemma fq_run_sim : forall shift withq o l s s', fq_sim o s s' ->
  match fq_run shift withq s l, fq_run shift withq s' l with
  | Some t, Some t' => fq_sim o t t'
  | None, None => True
  | _, _ => False
  end.
Proof.
  induction l as [|c l IH]; intros s s' H; cbn [fq_run]; [exact H|].
  pose proof (fq_step_sim shift withq o s s' c H) as Hc.
  destruct (fq_step shift withq s c), (fq_step shift withq s' c); try contradiction; auto. apply IH. exact Hc.
Qed.

Lemma fq_run_app : forall shift withq a b s,
  fq_run shift withq s (a ++ b) = match fq_run shift withq s a with Some s' => fq_run shift withq s' b | None => None end.
Proof.
  induction a as [|c a IH]; intros; cbn [fq_run app]; [reflexivity|].
  destruct (fq_step shift withq s c); [apply IH|reflexivity].
Qed.

Lemma match_rev : forall (A : Type) (l : list A), match l with [] => Some [] | _ :: _ => Some (rev l) end = Some (rev l).
Proof. destruct l; reflexivity. Qed.

Theorem fastq_parse_decompose : forall fixed shift withq t1 t2 s1 recs,
  fq_run shift withq fq_init t1 = Some s1 -> fq_s s1 = 11%nat ->
  fastq_parse_gen fixed shift withq (t1 ++ 64%N :: t2) = Some recs ->
  exists r2, fastq_parse_gen fixed shift withq t1 = Some (rev (fq_out s1)) /\
             fastq_parse_gen fixed shift withq (64%N :: t2) = Some r2 /\
             recs = rev (fq_out s1) ++ r2.
Proof.
  intros fixed shift withq t1 t2 s1 recs Hr1 H11 H.
  unfold fastq_parse_gen in *. rewrite fq_run_app, Hr1 in H. rewrite Hr1.
  cbn [fq_run] in *.
  assert (Hst : fq_step shift withq s1 64%N = Some (mkfq 1%nat (fq_idb s1) (fq_defb s1) (fq_seqb s1) (fq_qualb s1) (fq_id s1) (fq_def s1) (fq_out s1))).
  { unfold fq_step. rewrite H11. reflexivity. }
  rewrite Hst in H.
  change (fq_step shift withq fq_init 64%N) with (Some (mkfq 1%nat [] [] [] [] [] [] [])).
  assert (Hsim : fq_sim (fq_out s1) (mkfq 1%nat (fq_idb s1) (fq_defb s1) (fq_seqb s1) (fq_qualb s1) (fq_id s1) (fq_def s1) (fq_out s1)) (mkfq 1%nat [] [] [] [] [] [] [])).
  { unfold fq_sim; cbn; auto. }
  pose proof (fq_run_sim shift withq _ t2 _ _ Hsim) as Hrun.
  destruct (fq_run shift withq (mkfq 1%nat (fq_idb s1) (fq_defb s1) (fq_seqb s1) (fq_qualb s1) (fq_id s1) (fq_def s1) (fq_out s1)) t2) as [s3|]; [|discriminate].
  destruct (fq_run shift withq (mkfq 1%nat [] [] [] [] [] [] []) t2) as [s3'|]; [|contradiction].
  destruct Hrun as (Hs3 & Ho3 & Hm3).
  assert (Hfirst : (match fq_out s1 with [] => Some [] | _ :: _ => if Nat.eqb (fq_s s1) 10 && (withq || negb fixed) then
                      match fq_store shift (fq_qualb s1) (fq_out s1) with Some out' => Some (rev out') | None => None end
                    else Some (rev (fq_out s1)) end) = Some (rev (fq_out s1))).
  { rewrite H11. cbn. destruct (fq_out s1); reflexivity. }
  rewrite Hfirst. rewrite <- Hs3.
  destruct (Nat.eqb (fq_s s3) 10 && (withq || negb fixed)) eqn:Hc.
  - apply andb_true_iff in Hc. destruct Hc as [H10 _]. apply Nat.eqb_eq in H10. rewrite H10 in Hm3.
    destruct Hm3 as [Hne Hq]. rewrite Ho3, Hq in H. rewrite fq_store_app in H by exact Hne.
    destruct (fq_out s3') as [|r' o'] eqn:Ho'; [contradiction|]. rewrite <- Ho' in *.
    destruct (fq_store shift (fq_qualb s3') (fq_out s3')) as [x|] eqn:Hx.
    + exists (rev x). split; [reflexivity|]. split; [reflexivity|].
      pose proof (fq_store_ne _ _ _ _ Hx) as Hxne.
      destruct (fq_out s3' ++ fq_out s1) eqn:Happ.
      { apply app_eq_nil in Happ. destruct Happ as [Hz _]. rewrite Hz in Ho'. discriminate. }
      inversion H. rewrite rev_app_distr. reflexivity.
    + destruct (fq_out s3' ++ fq_out s1) eqn:Happ; [|discriminate].
      apply app_eq_nil in Happ. destruct Happ as [Hz _]. rewrite Hz in Ho'. discriminate.
  - exists (rev (fq_out s3')). split; [reflexivity|]. split.
    + destruct (fq_out s3'); reflexivity.
    + rewrite Ho3 in H. cbv iota in H. rewrite match_rev in H. injection H as H. rewrite <- H. apply rev_app_distr.
Qed.



(** * FASTQ splitter: what the backward scan has seen when it answers *)
Definition noeol (c : N) : Prop := is_eol c = false.
Definition eolb' (c : N) : Prop := is_eol c = true.
Definition seqchb (c : N) : Prop := is_seqch c = true.

(* r = the buffer reversed, to the left of the scan position; x = the answer *)
Definition Hq5 (r : list N) (x : nat) : Prop :=
  exists hrev e r2, r = hrev ++ 64%N :: e :: r2 /\ Forall noeol hrev /\ is_eol e = true /\ x = S (length r2).
Definition Hq6 (r : list N) (x : nat) : Prop :=
  (exists e r2, r = e :: r2 /\ is_eol e = true /\ x = S (length r2)) \/
  (exists c r', r = c :: r' /\ is_eol c = false /\ Hq5 r' x).
Definition Hq4 (r : list N) (x : nat) : Prop :=
  exists eols hk r', r = eols ++ hk :: r' /\ Forall eolb' eols /\ is_eol hk = false /\ Hq5 r' x.
Definition Hq3 (r : list N) (x : nat) : Prop :=
  exists S' e r', r = S' ++ e :: r' /\ Forall seqchb S' /\ is_eol e = true /\ Hq4 r' x.
Definition Hq2 (r : list N) (x : nat) : Prop :=
  exists pre c r', r = pre ++ c :: r' /\ is_seqch c = true /\ Hq3 r' x.
Definition Hqst (st : nat) (r : list N) (x : nat) : Prop :=
  match st with
  | 1%nat | 2%nat => Hq2 r x
  | 3%nat => Hq3 r x
  | 4%nat => Hq4 r x
  | 5%nat => Hq5 r x
  | 6%nat => Hq6 r x
  | _ => False
  end.

Lemma H6_to_H5 : forall r x, Hq6 r x -> Hq5 (64%N :: r) x.
Proof.
  intros r x [(e & r2 & Hr & He & Hx)|(c & r' & Hr & Hc & (hrev & e & r2 & Hr' & Hh & He & Hx))].
  - exists [], e, r2. subst r. repeat split; auto.
  - exists (64%N :: c :: hrev), e, r2. subst r r'. repeat split; auto.
    constructor; [reflexivity|]. constructor; auto.
Qed.

Lemma fq_try_sound : forall r n st cut x,
  n = length r -> (st = 6%nat -> cut = n) ->
  fq_try r n st cut = Final (Some x) -> Hqst st r x.
Proof.
  induction r as [|c r IH]; intros n st cut x Hn Hc H; [discriminate|].
  cbn [length] in Hn.
  assert (Hp : pred n = length r) by (subst n; reflexivity).
  destruct st as [|[|[|[|[|[|[|st]]]]]]]; cbn [fq_try] in H; try discriminate; cbn [Hqst].
  - (* 1 *) destruct (is_eol c) eqn:Ec; [|discriminate].
    apply IH in H; auto; [|discriminate]. cbn [Hqst] in H.
    destruct H as (pre & c' & r' & Hr & Hs & Hq3'). exists (c :: pre), c', r'. subst r. auto.
  - (* 2 *) destruct (is_sep c) eqn:Es.
    + apply IH in H; auto; [|discriminate]. cbn [Hqst] in H.
      destruct H as (pre & c' & r' & Hr & Hs & Hq3'). exists (c :: pre), c', r'. subst r. auto.
    + destruct (is_seqch c) eqn:Eq; [|discriminate].
      apply IH in H; auto; [|discriminate]. cbn [Hqst] in H. exists [], c, r. auto.
  - (* 3 *) destruct (is_eol c) eqn:Ec.
    + apply IH in H; auto; [|discriminate]. cbn [Hqst] in H. exists [], c, r. repeat split; auto.
    + destruct (is_seqch c) eqn:Eq; [|discriminate].
      apply IH in H; auto; [|discriminate]. cbn [Hqst] in H.
      destruct H as (S' & e & r' & Hr & HS & He & Hq4'). exists (c :: S'), e, r'. subst r. repeat split; auto.
  - (* 4 *) destruct (is_eol c) eqn:Ec.
    + apply IH in H; auto; [|discriminate]. cbn [Hqst] in H.
      destruct H as (eols & hk & r' & Hr & HE & Hk & Hq5'). exists (c :: eols), hk, r'. subst r. repeat split; auto.
    + apply IH in H; auto; [|discriminate]. cbn [Hqst] in H. exists [], c, r. repeat split; auto.
  - (* 5 *) destruct (is_eol c) eqn:Ec; [discriminate|].
    destruct (c =? 64)%N eqn:E64.
    + apply N.eqb_eq in E64. subst c. apply IH in H; auto. cbn [Hqst] in H. apply H6_to_H5. exact H.
    + apply IH in H; auto; [|discriminate]. cbn [Hqst] in H.
      destruct H as (hrev & e & r2 & Hr & Hh & He & Hx). exists (c :: hrev), e, r2. subst r. repeat split; auto.
  - (* 6 *) destruct (is_eol c) eqn:Ec.
    + destruct (Nat.eqb (pred n) 1); [discriminate|]. inversion H; subst x.
      left. exists c, r. repeat split; auto. rewrite (Hc eq_refl). subst n. reflexivity.
    + apply IH in H; auto; [|discriminate]. cbn [Hqst] in H. right. exists c, r. auto.
Qed.

Lemma fq_scan_sound : forall r n x, n = length r -> fq_scan r n = Some x ->
  exists a r', r = a ++ 43%N :: r' /\ Hq2 r' x.
Proof.
  induction r as [|c r IH]; intros n x Hn H; [discriminate|].
  cbn [fq_scan] in H. cbn [length] in Hn.
  assert (Hp : pred n = length r) by (subst n; reflexivity).
  destruct (c =? 43)%N eqn:Ec.
  - destruct (fq_try r (pred n) 1%nat 0%nat) as [|y] eqn:Ht.
    + apply IH in H; auto. destruct H as (a & r' & Hr & Hq2'). exists (c :: a), r'. subst r. auto.
    + subst y. apply fq_try_sound in Ht; auto; [|discriminate]. cbn [Hqst] in Ht.
      apply N.eqb_eq in Ec. subst c. exists [], r. auto.
  - apply IH in H; auto. destruct H as (a & r' & Hr & Hq2'). exists (c :: a), r'. subst r. auto.
Qed.

(** forward reading: after the cut there is a line starting with '@' (the cut), then at least one
    CR/LF, then a byte of the sequence alphabet *)
Definition fq_fwd (t : list N) : Prop :=
  exists h E s0 rest, t = 64%N :: h ++ E ++ s0 :: rest /\ Forall noeol h /\ E <> [] /\ Forall eolb' E /\ is_seqch s0 = true.

Lemma Forall_rev' : forall (P : N -> Prop) l, Forall P l -> Forall P (rev l).
Proof. intros. apply Forall_rev. assumption. Qed.

Lemma fastq_split_sound : forall b c, fastq_split b = Some c ->
  exists pre e t, b = pre ++ e :: t /\ is_eol e = true /\ c = S (length pre) /\ fq_fwd t.
Proof.
  intros b c H. unfold fastq_split in H.
  apply fq_scan_sound in H; [|rewrite rev_length; reflexivity].
  destruct H as (a & r1 & Hr & (pre2 & c2 & r3 & Hr1 & Hc2 & (S' & e2 & r4 & Hr3 & HS & He2 & (eols & hk & r5 & Hr4 & HE & Hk & (hrev & e3 & r2 & Hr5 & Hh & He3 & Hx))))).
  subst r1 r3 r4 r5.
  apply (f_equal (@rev N)) in Hr. rewrite rev_involutive in Hr.
  exists (rev r2), e3.
  (* the sequence line, forward: rev S' ++ [c2]; its first byte *)
  assert (Hs0 : exists s0 srest, rev S' ++ [c2] = s0 :: srest /\ is_seqch s0 = true).
  { destruct (rev S') as [|s0 sr] eqn:Hrs.
    - exists c2, []. auto.
    - exists s0, (sr ++ [c2]). split; [reflexivity|].
      assert (Hf : Forall seqchb (rev S')) by (apply Forall_rev'; exact HS). rewrite Hrs in Hf. inversion Hf; auto. }
  destruct Hs0 as (s0 & srest & Hs0 & Hq0).
  exists (64%N :: (rev hrev ++ [hk]) ++ (rev eols ++ [e2]) ++ s0 :: (srest ++ rev pre2 ++ 43%N :: rev a)).
  split.
  - rewrite Hr. repeat (rewrite rev_app_distr; cbn [rev]). repeat rewrite <- app_assoc. cbn [app].
    f_equal. f_equal. f_equal. f_equal. f_equal. f_equal.
    change (s0 :: srest ++ rev pre2 ++ 43%N :: rev a) with ((s0 :: srest) ++ rev pre2 ++ 43%N :: rev a).
    rewrite <- Hs0. repeat rewrite <- app_assoc. reflexivity.
  - split; [exact He3|]. split; [rewrite rev_length; exact Hx|].
    exists (rev hrev ++ [hk]), (rev eols ++ [e2]), s0, (srest ++ rev pre2 ++ 43%N :: rev a).
    split; [reflexivity|]. split.
    + apply Forall_app. split; [apply Forall_rev'; exact Hh|constructor; [exact Hk|constructor]].
    + split; [destruct (rev eols); discriminate|]. split; [|exact Hq0].
      apply Forall_app. split; [apply Forall_rev'; exact HE|constructor; [exact He2|constructor]].
Qed.

(** * FASTQ: the cut chosen by the splitter is a record start for the parser *)
Lemma seqch_facts : forall c, is_seqch c = true -> is_eol c = false /\ (c =? 43)%N = false /\ (c =? 64)%N = false.
Proof.
  intros c H. repeat split.
  - unfold is_eol. destruct (c =? 10)%N eqn:E1; [apply N.eqb_eq in E1; subst c; discriminate|].
    destruct (c =? 13)%N eqn:E2; [apply N.eqb_eq in E2; subst c; discriminate|]. reflexivity.
  - destruct (c =? 43)%N eqn:E1; [apply N.eqb_eq in E1; subst c; discriminate|reflexivity].
  - destruct (c =? 64)%N eqn:E1; [apply N.eqb_eq in E1; subst c; discriminate|reflexivity].
Qed.

Section FQ.
Variable shift : N.
Variable withq : bool.
Notation step := (fq_step shift withq).
Notation run := (fq_run shift withq).

Lemma fq_step_eol : forall s C s', step s C = Some s' -> is_eol C = true ->
  (fq_s s' = 5%nat \/ fq_s s' = 7%nat \/ fq_s s' = 9%nat) \/
  (fq_s s' = 11%nat /\ ((fq_s s = 11%nat /\ fq_out s' = fq_out s) \/
                        (fq_s s = 10%nat /\ if withq then fq_store shift (fq_qualb s) (fq_out s) = Some (fq_out s') else fq_out s' = fq_out s))).
Proof.
  intros [st idb defb seqb qualb id def out] C s' H He. unfold fq_step in H.
  cbn [fq_s fq_out fq_idb fq_defb fq_seqb fq_qualb fq_id fq_def] in *.
  assert (H64 : (C =? 64)%N = false).
  { unfold is_eol in He. destruct (C =? 64)%N eqn:Hc; [|reflexivity]. apply N.eqb_eq in Hc. subst C. discriminate. }
  rewrite He in H. rewrite ?orb_true_r in H. rewrite ?H64 in H.
  destruct st as [|[|[|[|[|[|[|[|[|[|[|[|st]]]]]]]]]]]]; cbn in H; try discriminate;
    try (inversion H; subst; cbn; auto 10; fail).
  - destruct seqb; [discriminate|]. inversion H; subst; cbn; auto 10.
  - destruct withq.
    + destruct (fq_store shift qualb out) eqn:Hs; [|discriminate]. inversion H; subst; cbn. right. split; auto.
    + inversion H; subst; cbn. right. split; auto.
Qed.

Lemma run_eols_keep : forall E s, Forall eolb' E ->
  (fq_s s = 5%nat \/ fq_s s = 7%nat \/ fq_s s = 9%nat \/ fq_s s = 11%nat) ->
  exists s', run s E = Some s' /\ fq_s s' = fq_s s /\ fq_out s' = fq_out s.
Proof.
  induction E as [|e E IH]; intros s Hf Hs; [exists s; auto|].
  inversion Hf; subst. cbn [fq_run].
  assert (Hstep : exists s1, step s e = Some s1 /\ fq_s s1 = fq_s s /\ fq_out s1 = fq_out s).
  { destruct s as [st idb defb seqb qualb id def out]. unfold fq_step.
    cbn [fq_s fq_out fq_idb fq_defb fq_seqb fq_qualb fq_id fq_def] in *. unfold eolb' in H1. rewrite H1.
    destruct Hs as [Hs|[Hs|[Hs|Hs]]]; subst st; eexists; split; try reflexivity; cbn; auto. }
  destruct Hstep as (s1 & Hs1 & Hst1 & Ho1). rewrite Hs1.
  destruct (IH s1 H2) as (s' & Hr & Hst' & Ho'); [rewrite Hst1; exact Hs|].
  exists s'. repeat split; congruence.
Qed.

Lemma run_noeol_10 : forall h s, Forall noeol h -> fq_s s = 10%nat -> exists s', run s h = Some s' /\ fq_s s' = 10%nat.
Proof.
  induction h as [|c h IH]; intros s Hf Hs; [exists s; auto|].
  inversion Hf; subst. cbn [fq_run].
  destruct s as [st idb defb seqb qualb id def out]. cbn [fq_s] in Hs. subst st.
  unfold fq_step. cbn [fq_s fq_out fq_idb fq_defb fq_seqb fq_qualb fq_id fq_def]. unfold noeol in H1. rewrite H1.
  apply IH; auto.
Qed.

Lemma run_noeol_6 : forall h s, Forall noeol h -> fq_s s = 6%nat -> run s h = None \/ exists s', run s h = Some s' /\ fq_s s' = 6%nat.
Proof.
  induction h as [|c h IH]; intros s Hf Hs; [right; exists s; auto|].
  inversion Hf; subst. cbn [fq_run].
  destruct s as [st idb defb seqb qualb id def out]. cbn [fq_s] in Hs. subst st.
  unfold fq_step. cbn [fq_s fq_out fq_idb fq_defb fq_seqb fq_qualb fq_id fq_def]. unfold noeol in H1. rewrite H1.
  destruct (is_seqlow (lower c)); [|left; reflexivity]. apply IH; auto.
Qed.

(* from a state that is not a record boundary, the text after a splitter cut is rejected *)
Lemma bad_start_fails : forall t s, fq_fwd t ->
  (fq_s s = 5%nat \/ fq_s s = 7%nat \/ fq_s s = 9%nat) -> run s t = None.
Proof.
  intros t s (h & E & s0 & rest & Ht & Hh & HE & HEf & Hs0) Hs. subst t.
  destruct (seqch_facts _ Hs0) as (Hs0e & Hs043 & Hs064).
  destruct E as [|e E]; [contradiction|]. inversion HEf; subst.
  cbn [fq_run].
  destruct s as [st idb defb seqb qualb id def out]. cbn [fq_s] in Hs.
  destruct Hs as [Hs|[Hs|Hs]]; subst st; unfold fq_step at 1; cbn [fq_s fq_out fq_idb fq_defb fq_seqb fq_qualb fq_id fq_def]; cbn [is_eol N.eqb Pos.eqb orb].
  - (* 5 -> 6 *)
    change (is_eol 64) with false. cbv iota.
    rewrite fq_run_app.
    match goal with |- match run ?s6 h with _ => _ end = None => destruct (run_noeol_6 h s6 Hh eq_refl) as [Hn|(s' & Hr & H6)] end.
    + rewrite Hn. reflexivity.
    + rewrite Hr. cbn [app fq_run].
      destruct (step s' e) as [s7|] eqn:Hst; [|reflexivity].
      assert (H7 : fq_s s7 = 7%nat).
      { destruct s' as [st' idb' defb' seqb' qualb' id' def' out']. cbn [fq_s] in H6. subst st'.
        unfold fq_step in Hst. cbn [fq_s fq_out fq_idb fq_defb fq_seqb fq_qualb fq_id fq_def] in Hst.
        unfold eolb' in H1. rewrite H1 in Hst. destruct seqb'; [discriminate|]. inversion Hst. reflexivity. }
      rewrite fq_run_app.
      destruct (run_eols_keep E s7 H2) as (s8 & Hr8 & Hs8 & _); [rewrite H7; auto|].
      rewrite Hr8. cbn [fq_run].
      destruct s8 as [st8 idb8 defb8 seqb8 qualb8 id8 def8 out8]. cbn [fq_s] in Hs8. rewrite H7 in Hs8. subst st8.
      unfold fq_step. cbn [fq_s]. rewrite Hs0e, Hs043. reflexivity.
  - (* 7 *) reflexivity.
  - (* 9 -> 10 *)
    change (is_eol 64) with false. cbv iota.
    rewrite fq_run_app.
    match goal with |- match run ?s10 h with _ => _ end = None => destruct (run_noeol_10 h s10 Hh eq_refl) as (s' & Hr & H10) end.
    rewrite Hr. cbn [app fq_run].
    destruct (step s' e) as [s11|] eqn:Hst; [|reflexivity].
    assert (H11 : fq_s s11 = 11%nat).
    { destruct (fq_step_eol _ _ _ Hst H1) as [[H|[H|H]]|[H _]]; auto;
        destruct s' as [st' idb' defb' seqb' qualb' id' def' out']; cbn [fq_s] in H10; subst st';
        unfold fq_step in Hst; cbn [fq_s fq_out fq_idb fq_defb fq_seqb fq_qualb fq_id fq_def] in Hst;
        unfold eolb' in H1; rewrite H1 in Hst; destruct withq;
        try (destruct (fq_store shift qualb' out'); [|discriminate]); inversion Hst; subst; discriminate. }
    rewrite fq_run_app.
    destruct (run_eols_keep E s11 H2) as (s12 & Hr12 & Hs12 & _); [rewrite H11; auto|].
    rewrite Hr12. cbn [fq_run].
    destruct s12 as [st8 idb8 defb8 seqb8 qualb8 id8 def8 out8]. cbn [fq_s] in Hs12. rewrite H11 in Hs12. subst st8.
    unfold fq_step. cbn [fq_s]. rewrite Hs0e, Hs064. reflexivity.
Qed.

(** a text is complete when the parser ends in (10) or after (11) the quality line of a record *)
Definition fq_complete (t : list N) : Prop := exists s, run fq_init t = Some s /\ (fq_s s = 10%nat \/ fq_s s = 11%nat).

Definition fq_flush (s : fq_st) : option (list rec) :=
  match fq_out s with
  | [] => Some []
  | _ => if Nat.eqb (fq_s s) 10 && (withq || negb true)
         then match fq_store shift (fq_qualb s) (fq_out s) with Some out' => Some (rev out') | None => None end
         else Some (rev (fq_out s))
  end.
Lemma fastq_parse_flush : forall t, fastq_parse shift withq t = match run fq_init t with Some s => fq_flush s | None => None end.
Proof. reflexivity. Qed.

Lemma fastq_parse_rstrip : forall t, fq_complete t ->
  fastq_parse shift withq (rstrip_eol t) = fastq_parse shift withq t /\ fq_complete (rstrip_eol t).
Proof.
  intros t (sf & Hrun & Hsf).
  destruct (rstrip_split t) as (eols & Ht & Hf).
  set (t' := rstrip_eol t) in *. clearbody t'.
  destruct eols as [|e E].
  { rewrite app_nil_r in Ht. rewrite <- Ht. split; [reflexivity|exists sf; auto]. }
  rewrite Ht in Hrun. rewrite fq_run_app in Hrun.
  destruct (run fq_init t') as [s'|] eqn:Hr'; [|discriminate].
  cbn [fq_run] in Hrun. destruct (step s' e) as [s1|] eqn:Hst; [|discriminate].
  inversion_clear Hf as [|? ? H1 H2].
  assert (Hkeep : fq_s sf = fq_s s1 /\ fq_out sf = fq_out s1).
  { destruct (fq_step_eol _ _ _ Hst H1) as [H|[H _]];
      (destruct (run_eols_keep E s1 H2) as (s2 & Hr2 & Hs2 & Ho2); [intuition|]);
      rewrite Hr2 in Hrun; inversion Hrun; subst; auto. }
  destruct Hkeep as [Hks Hko].
  destruct (fq_step_eol _ _ _ Hst H1) as [H|(H11 & Hprev)].
  { exfalso. rewrite Hks in Hsf. intuition congruence. }
  assert (Hcomp' : fq_complete t').
  { exists s'. split; [exact Hr'|]. destruct Hprev as [[H _]|[H _]]; auto. }
  split; [|exact Hcomp'].
  rewrite (fastq_parse_flush t), (fastq_parse_flush t'). rewrite Ht, fq_run_app, Hr'. cbn [fq_run]. rewrite Hst, Hrun.
  unfold fq_flush. rewrite Hks, H11, Hko. cbn [Nat.eqb andb].
  destruct Hprev as [[Hp Ho]|[Hp Ho]]; rewrite Hp; cbn [Nat.eqb andb].
  - rewrite Ho. reflexivity.
  - destruct withq; cbn [orb negb].
    + destruct (fq_out s') eqn:Ho'; [discriminate|]. rewrite Ho.
      pose proof (fq_store_ne _ _ _ _ Ho) as Hne. destruct (fq_out s1); [contradiction|reflexivity].
    + rewrite Ho. reflexivity.
Qed.

Lemma fq_fwd_app : forall t y, fq_fwd t -> fq_fwd (t ++ y).
Proof.
  intros t y (h & E & s0 & rest & Ht & H). exists h, E, s0, (rest ++ y). split; [|exact H].
  subst t. cbn [app]. rewrite <- !app_assoc. reflexivity.
Qed.

Lemma fq_starts_eol_no_parse : forall c w, is_eol c = true -> fastq_parse shift withq (c :: w) = None.
Proof.
  intros c w Hc. rewrite fastq_parse_flush. cbn [fq_run]. unfold fq_step. cbn.
  destruct (c =? 64)%N eqn:E; [apply N.eqb_eq in E; subst c; discriminate|]. reflexivity.
Qed.

Lemma fastq_decompose_complete : forall t1 t2 s1,
  run fq_init t1 = Some s1 -> fq_s s1 = 11%nat -> fq_complete (t1 ++ 64%N :: t2) -> fq_complete (64%N :: t2).
Proof.
  intros t1 t2 s1 Hr1 H11 (sf & Hrun & Hsf).
  rewrite fq_run_app, Hr1 in Hrun. cbn [fq_run] in Hrun.
  assert (Hst : step s1 64%N = Some (mkfq 1%nat (fq_idb s1) (fq_defb s1) (fq_seqb s1) (fq_qualb s1) (fq_id s1) (fq_def s1) (fq_out s1))).
  { unfold fq_step. rewrite H11. reflexivity. }
  rewrite Hst in Hrun.
  assert (Hsim : fq_sim (fq_out s1) (mkfq 1%nat (fq_idb s1) (fq_defb s1) (fq_seqb s1) (fq_qualb s1) (fq_id s1) (fq_def s1) (fq_out s1)) (mkfq 1%nat [] [] [] [] [] [] [])).
  { unfold fq_sim; cbn; auto. }
  pose proof (fq_run_sim shift withq _ t2 _ _ Hsim) as Hs. rewrite Hrun in Hs.
  destruct (run (mkfq 1%nat [] [] [] [] [] [] []) t2) as [sf'|] eqn:Hr2; [|contradiction].
  destruct Hs as (Hst' & _). exists sf'. split.
  - cbn [fq_run]. change (step fq_init 64%N) with (Some (mkfq 1%nat [] [] [] [] [] [] [])). exact Hr2.
  - rewrite <- Hst'. exact Hsf.
Qed.

Lemma fastq_partition_records : forall i w l, partition fastq_split i w l ->
  forall recs, fastq_parse shift withq w = Some recs -> fq_complete w -> parse_chunks (fastq_parse shift withq) l = Some recs.
Proof.
  induction 1 as [i w Hall|i seg w l Hall Hcut Hp IH|i seg w l Hne Hcut Hp IH|i seg Hne]; intros recs Hparse Hcomp.
  - destruct w as [|c w]; [cbn in Hparse; inversion Hparse; reflexivity|].
    exfalso. inversion Hall; subst. rewrite fq_starts_eol_no_parse in Hparse; [discriminate|assumption].
  - destruct seg as [|c seg]; [apply IH; assumption|].
    exfalso. inversion Hall; subst. cbn [app] in Hparse. rewrite fq_starts_eol_no_parse in Hparse; [discriminate|assumption].
  - destruct Hcut as [Hw|(x & y & Hw & Hs)].
    + subst w. rewrite app_nil_r in *. rewrite (partition_nil _ _ _ _ Hp eq_refl).
      cbn [parse_chunks fold_right snd]. destruct (fastq_parse_rstrip _ Hcomp) as [Hrs _]. rewrite Hrs, Hparse.
      cbn. rewrite app_nil_r. reflexivity.
    + apply fastq_split_sound in Hs. destruct Hs as (pre & e & t & Hb & He & Hlen & Hfwd).
      assert (Hseg : seg = pre ++ [e] /\ x = t).
      { assert (Hl : length seg = length (pre ++ [e])) by (rewrite app_length; cbn; lia).
        replace (pre ++ e :: t) with ((pre ++ [e]) ++ t) in Hb by (rewrite <- app_assoc; reflexivity).
        split.
        - apply (f_equal (firstn (length seg))) in Hb. rewrite firstn_app, Nat.sub_diag, firstn_all in Hb. cbn [firstn] in Hb.
          rewrite app_nil_r in Hb. rewrite Hb, Hl. rewrite firstn_app, Nat.sub_diag, firstn_all. cbn [firstn]. apply app_nil_r.
        - apply (f_equal (skipn (length seg))) in Hb. rewrite skipn_app, Nat.sub_diag, skipn_all in Hb. cbn [skipn app] in Hb.
          rewrite Hb, Hl. rewrite skipn_app, Nat.sub_diag, skipn_all. reflexivity. }
      destruct Hseg as [Hseg Hx]. subst seg x w.
      pose proof (fq_fwd_app _ y Hfwd) as Hfwd'.
      (* state of the parser at the cut *)
      rewrite fastq_parse_flush in Hparse. rewrite fq_run_app in Hparse.
      destruct (run fq_init (pre ++ [e])) as [s1|] eqn:Hr1; [|discriminate].
      assert (H11 : fq_s s1 = 11%nat).
      { rewrite fq_run_app in Hr1. destruct (run fq_init pre) as [s0|]; [|discriminate].
        cbn [fq_run] in Hr1. destruct (step s0 e) as [s1'|] eqn:Hst; [|discriminate]. inversion Hr1; subst s1'.
        destruct (fq_step_eol _ _ _ Hst He) as [Hbad|[H _]]; [|exact H].
        exfalso. rewrite (bad_start_fails _ s1 Hfwd' Hbad) in Hparse. discriminate. }
      destruct Hfwd' as (h & E & s0 & rest & Ht & _).
      assert (Hparse' : fastq_parse shift withq ((pre ++ [e]) ++ t ++ y) = Some recs).
      { rewrite fastq_parse_flush, fq_run_app, Hr1. exact Hparse. }
      rewrite Ht in Hparse', Hcomp, IH, Hp.
      destruct (fastq_parse_decompose true shift withq _ _ _ _ Hr1 H11 Hparse') as (r2 & Hp1 & Hp2 & Hrecs).
      cbn [parse_chunks fold_right snd].
      assert (Hc1 : fq_complete (pre ++ [e])) by (exists s1; auto).
      destruct (fastq_parse_rstrip _ Hc1) as [Hrs _]. rewrite Hrs. unfold fastq_parse at 1. rewrite Hp1.
      change (fold_right (fun c acc => opt_app (fastq_parse shift withq (snd c)) acc) (Some []) l) with (parse_chunks (fastq_parse shift withq) l).
      rewrite (IH r2 Hp2 (fastq_decompose_complete _ _ _ Hr1 H11 Hcomp)). cbn. rewrite Hrecs. reflexivity.
  - cbn [parse_chunks fold_right snd]. rewrite Hparse. cbn. rewrite app_nil_r. reflexivity.
Qed.

Theorem read_fastq : forall B file recs, (1 <= B)%nat ->
  fastq_parse shift withq file = Some recs -> fq_complete file ->
  exists l, chunker fastq_split B file = Some l /\ map fst l = seq 0 (length l) /\ parse_chunks (fastq_parse shift withq) l = Some recs.
Proof.
  intros B file recs HB Hp Hc.
  destruct (chunker_partition fastq_split B B HB fastq_split_range file) as (l & Hl & Hpart).
  exists l. split; [exact Hl|]. split; [eapply partition_numbers; eauto|]. eapply fastq_partition_records; eauto.
Qed.
End FQ.

From Coq Require Import Permutation.
From OBI.Common Require Import Reseq.

(** * Any arrival order of the parsed batches (parser workers racing on the chunk channel) *)
Lemma parse_chunks_batches : forall parse l recs, parse_chunks parse l = Some recs ->
  exists bs, Forall2 (fun c b => parse (snd c) = Some b) l bs /\ concat bs = recs.
Proof.
  induction l as [|c l IH]; intros recs H; cbn [parse_chunks fold_right] in H.
  - inversion H. exists []. split; constructor.
  - change (fold_right (fun c acc => opt_app (parse (snd c)) acc) (Some []) l) with (parse_chunks parse l) in H.
    destruct (parse (snd c)) as [b|] eqn:Hb; [|discriminate].
    destruct (parse_chunks parse l) as [r|] eqn:Hr; [|discriminate].
    destruct (IH r eq_refl) as (bs & Hf & Hc). inversion H. exists (b :: bs). split; [constructor; auto|].
    cbn [concat]. rewrite Hc. reflexivity.
Qed.

Lemma batches_any_order : forall (l : list (nat * list N)) (bs : list (list rec)) parse,
  map fst l = seq 0 (length l) -> Forall2 (fun c b => parse (snd c) = Some b) l bs ->
  forall arr, Permutation arr (combine (map fst l) bs) ->
  out (run arr) = bs /\ pend (run arr) = [].
Proof.
  intros l bs parse Hn Hf arr Hp.
  assert (Hl : length l = length bs) by (clear Hn Hp; induction Hf; cbn; auto).
  rewrite Hn, Hl in Hp.
  destruct (reseq_any_permutation _ bs arr Hp) as (Ho & Hpe & _). auto.
Qed.

Theorem read_fasta_any_order : forall B file recs, (1 <= B)%nat ->
  fasta_parse file = Some recs -> fa_complete file ->
  exists l bs, chunker fasta_split B file = Some l /\
    Forall2 (fun c b => fasta_parse (snd c) = Some b) l bs /\ concat bs = recs /\
    forall arr, Permutation arr (combine (map fst l) bs) -> out (run arr) = bs /\ pend (run arr) = [].
Proof.
  intros B file recs HB Hp Hc.
  destruct (read_fasta B file recs HB Hp Hc) as (l & Hl & Hn & Hpc).
  destruct (parse_chunks_batches _ _ _ Hpc) as (bs & Hf & Hcat).
  exists l, bs. repeat split; auto; eapply batches_any_order; eauto.
Qed.

Theorem read_fastq_any_order : forall shift withq B file recs, (1 <= B)%nat ->
  fastq_parse shift withq file = Some recs -> fq_complete shift withq file ->
  exists l bs, chunker fastq_split B file = Some l /\
    Forall2 (fun c b => fastq_parse shift withq (snd c) = Some b) l bs /\ concat bs = recs /\
    forall arr, Permutation arr (combine (map fst l) bs) -> out (run arr) = bs /\ pend (run arr) = [].
Proof.
  intros shift withq B file recs HB Hp Hc.
  destruct (read_fastq shift withq B file recs HB Hp Hc) as (l & Hl & Hn & Hpc).
  destruct (parse_chunks_batches _ _ _ Hpc) as (bs & Hf & Hcat).
  exists l, bs. repeat split; auto; eapply batches_any_order; eauto.
Qed.

(** * Flat files: the splitter only answers right after  LF "//" CR? LF *)
Definition flat_inv (st : nat) (done : list N) (start L : nat) : Prop :=
  match st with
  | 0%nat => True
  | 1%nat => exists d', done = 10%N :: d'
  | 2%nat => exists d', done = 13%N :: 10%N :: d' /\ start = (L - length d')%nat
  | 3%nat => exists d', (done = 47%N :: 10%N :: d' \/ done = 47%N :: 13%N :: 10%N :: d') /\ start = (L - length d')%nat
  | 4%nat => exists d', (done = 47%N :: 47%N :: 10%N :: d' \/ done = 47%N :: 47%N :: 13%N :: 10%N :: d') /\ start = (L - length d')%nat
  | _ => False
  end.

Definition flat_end (cr : list N) : list N := [10;47;47]%N ++ cr ++ [10]%N.

Lemma flat_scan_sound : forall r n st start x done,
  n = length r -> flat_inv st done start (n + length done) ->
  flat_scan r n st start = Some x ->
  exists p0 cr post, rev r ++ done = (p0 ++ flat_end cr) ++ post /\ (cr = [] \/ cr = [13%N]) /\ x = length (p0 ++ flat_end cr).
Proof.
  induction r as [|c r IH]; intros n st start x done Hn Hinv H; [discriminate|].
  cbn [length] in Hn.
  assert (Hp : pred n = length r) by (subst n; reflexivity).
  assert (HL : (n + length done = pred n + length (c :: done))%nat) by (subst n; cbn [length pred]; lia).
  assert (Hrev : rev (c :: r) ++ done = rev r ++ c :: done) by (cbn [rev]; rewrite <- app_assoc; reflexivity).
  rewrite Hrev. rewrite HL in Hinv.
  destruct st as [|[|[|[|[|st]]]]]; cbn [flat_scan] in H; cbn [flat_inv] in Hinv; try contradiction.
  - (* 0 *) destruct (c =? 10)%N eqn:E.
    + apply N.eqb_eq in E. subst c. eapply IH in H; eauto. cbn [flat_inv]. eauto.
    + eapply IH in H; eauto; try exact I.
  - (* 1 *) destruct Hinv as (d' & Hd). subst done.
    assert (Hs : (pred n + 2 = pred n + length (c :: 10%N :: d') - length d')%nat) by (cbn [length]; lia).
    destruct (c =? 13)%N eqn:E13; [apply N.eqb_eq in E13; subst c; eapply IH in H; eauto; cbn [flat_inv]; eauto|].
    destruct (c =? 47)%N eqn:E47; [apply N.eqb_eq in E47; subst c; eapply IH in H; eauto; cbn [flat_inv]; eauto|].
    destruct (c =? 10)%N eqn:E10; [apply N.eqb_eq in E10; subst c; eapply IH in H; eauto; cbn [flat_inv]; eauto|].
    eapply IH in H; eauto; try exact I.
  - (* 2 *) destruct Hinv as (d' & Hd & Hs). subst done.
    destruct (c =? 47)%N eqn:E47; [apply N.eqb_eq in E47; subst c; eapply IH in H; eauto; cbn [flat_inv]; exists d'; split; [auto|cbn [length] in *; lia]|].
    destruct (c =? 10)%N eqn:E10; [apply N.eqb_eq in E10; subst c; eapply IH in H; eauto; cbn [flat_inv]; eauto|].
    eapply IH in H; eauto; try exact I.
  - (* 3 *) destruct Hinv as (d' & Hd & Hs).
    destruct (c =? 47)%N eqn:E47.
    { apply N.eqb_eq in E47; subst c; eapply IH in H; eauto; cbn [flat_inv]; exists d'.
      split; [destruct Hd as [Hd|Hd]; subst done; auto|destruct Hd as [Hd|Hd]; subst done; cbn [length] in *; lia]. }
    destruct (c =? 10)%N eqn:E10; [apply N.eqb_eq in E10; subst c; eapply IH in H; eauto; cbn [flat_inv]; eauto|].
    eapply IH in H; eauto; try exact I.
  - (* 4 *) destruct Hinv as (d' & Hd & Hs).
    destruct (c =? 10)%N eqn:E10.
    + apply N.eqb_eq in E10; subst c. destruct (Nat.leb 2 (pred n)); [|discriminate]. inversion H; subst x.
      destruct Hd as [Hd|Hd]; subst done.
      * exists (rev r), [], d'. split; [unfold flat_end; cbn [app]; rewrite <- app_assoc; reflexivity|]. split; [auto|].
        rewrite app_length, rev_length. unfold flat_end. cbn [length app] in *. lia.
      * exists (rev r), [13%N], d'. split; [unfold flat_end; cbn [app]; rewrite <- app_assoc; reflexivity|]. split; [auto|].
        rewrite app_length, rev_length. unfold flat_end. cbn [length app] in *. lia.
    + eapply IH in H; eauto; try exact I.
Qed.

Lemma flat_split_sound : forall b c, flat_split b = Some c ->
  exists p0 cr post, b = (p0 ++ flat_end cr) ++ post /\ (cr = [] \/ cr = [13%N]) /\ c = length (p0 ++ flat_end cr).
Proof.
  intros b c H. unfold flat_split in H.
  eapply (flat_scan_sound _ _ _ _ _ []) in H; [|rewrite rev_length; reflexivity|exact I].
  rewrite rev_involutive, app_nil_r in H. exact H.
Qed.

(** * Flat files, text level: cutting where the splitter says and stripping CR/LF preserves the records *)
Lemma lines_aux_app_lf : forall lc a b cur,
  lines_aux lc (a ++ 10%N :: b) cur = lines_aux lc (a ++ [10%N]) cur ++ lines_aux lc b [].
Proof.
  induction a as [|c a IH]; intros b cur; cbn [app lines_aux].
  - cbn. reflexivity.
  - destruct (c =? 10)%N; [cbn [app]; f_equal; apply IH|apply IH].
Qed.

Lemma lines_flat_end : forall lc p0 cr, cr = [] \/ cr = [13%N] ->
  lines_aux lc (p0 ++ flat_end cr) [] = lines_aux lc (p0 ++ [10%N]) [] ++ [s_end].
Proof.
  intros lc p0 cr Hcr. unfold flat_end. cbn [app]. rewrite lines_aux_app_lf.
  f_equal. destruct Hcr; subst cr; reflexivity.
Qed.

Lemma lines_cut : forall lc p0 cr post,
  lines_aux lc ((p0 ++ flat_end cr) ++ post) [] = lines_aux lc (p0 ++ flat_end cr) [] ++ lines_aux lc post [].
Proof.
  intros. unfold flat_end.
  replace ((p0 ++ [10;47;47]%N ++ cr ++ [10%N]) ++ post) with ((p0 ++ [10;47;47]%N ++ cr) ++ 10%N :: post)
    by (repeat rewrite <- app_assoc; reflexivity).
  rewrite lines_aux_app_lf. f_equal. f_equal. repeat rewrite <- app_assoc. reflexivity.
Qed.

Lemma rstrip_flat_end : forall p0 cr, cr = [] \/ cr = [13%N] -> rstrip_eol (p0 ++ flat_end cr) = p0 ++ [10;47;47]%N.
Proof.
  intros p0 cr Hcr. unfold rstrip_eol, flat_end.
  destruct Hcr; subst cr; rewrite rev_app_distr; cbn [rev app strip_rev];
    change (is_eol 10) with true; change (is_eol 13) with true; change (is_eol 47) with false; cbv iota;
    change (47%N :: 47%N :: 10%N :: rev p0) with (rev [10;47;47]%N ++ rev p0);
    rewrite <- rev_app_distr, rev_involutive; reflexivity.
Qed.

Lemma lines_stripped : forall lc p0, lines_aux lc (p0 ++ [10;47;47]%N) [] = lines_aux lc (p0 ++ [10%N]) [] ++ [s_end].
Proof.
  intros. change (p0 ++ [10;47;47]%N) with (p0 ++ 10%N :: [47;47]%N). rewrite lines_aux_app_lf.
  f_equal. destruct lc; reflexivity.
Qed.

Theorem genbank_text_cut : forall p0 cr post, cr = [] \/ cr = [13%N] ->
  genbank_parse ((p0 ++ flat_end cr) ++ post) = opt_app (genbank_parse (p0 ++ flat_end cr)) (genbank_parse post)
  /\ genbank_parse (rstrip_eol (p0 ++ flat_end cr)) = genbank_parse (p0 ++ flat_end cr).
Proof.
  intros p0 cr post Hcr. unfold genbank_parse, genbank_parse_gen, lines_readline. split.
  - rewrite lines_cut, (lines_flat_end _ _ _ Hcr). apply genbank_record_independent.
  - rewrite (rstrip_flat_end _ _ Hcr), lines_stripped, (lines_flat_end _ _ _ Hcr). reflexivity.
Qed.

Theorem embl_text_cut : forall p0 cr post, cr = [] \/ cr = [13%N] ->
  embl_parse ((p0 ++ flat_end cr) ++ post) = opt_app (embl_parse (p0 ++ flat_end cr)) (embl_parse post)
  /\ embl_parse (rstrip_eol (p0 ++ flat_end cr)) = embl_parse (p0 ++ flat_end cr).
Proof.
  intros p0 cr post Hcr. unfold embl_parse, embl_parse_gen, lines_scanner, opt_app. split.
  - rewrite lines_cut, (lines_flat_end _ _ _ Hcr). f_equal. apply embl_record_independent.
  - rewrite (rstrip_flat_end _ _ Hcr), lines_stripped, (lines_flat_end _ _ _ Hcr). reflexivity.
Qed.

(** * Flat files: composition with the chunk reader, for texts that end right after the last "//" line *)
Definition flat_term (cr : list N) : list N := [47;47]%N ++ cr ++ [10]%N.
Definition ends_term (w : list N) : Prop := exists p cr, w = p ++ flat_term cr /\ (cr = [] \/ cr = [13%N]).

Lemma rev_eq_nil : forall (l : list N), rev l = [] -> l = [].
Proof. intros l H. apply (f_equal (@rev N)) in H. rewrite rev_involutive in H. exact H. Qed.

Lemma ends_term_not_eol : forall w, ends_term w -> Forall eolb w -> False.
Proof.
  intros w (p & cr & Hw & _) Hall. subst w. apply Forall_app in Hall. destruct Hall as [_ Hall].
  unfold flat_term in Hall. cbn [app] in Hall. inversion Hall as [|? ? H47 _]. discriminate H47.
Qed.

Lemma flat_end_not_eol : forall p0 cr, Forall eolb (p0 ++ flat_end cr) -> False.
Proof.
  intros p0 cr Hall. apply Forall_app in Hall. destruct Hall as [_ Hall].
  unfold flat_end in Hall. cbn [app] in Hall. inversion Hall as [|? ? _ H1]. inversion H1 as [|? ? H47 _]. discriminate H47.
Qed.

Lemma ends_term_suffix : forall s0 w', ends_term ((s0 ++ [10%N]) ++ w') -> w' = [] \/ ends_term w'.
Proof.
  intros s0 w' (p & cr & Hw & Hcr).
  apply (f_equal (@rev N)) in Hw. unfold flat_term in Hw. repeat rewrite rev_app_distr in Hw. cbn [rev app] in Hw.
  destruct (rev w') as [|a v1] eqn:Hv; [left; apply rev_eq_nil; exact Hv|]. right.
  assert (Hw' : w' = rev (a :: v1)) by (rewrite <- Hv, rev_involutive; reflexivity).
  cbn [app] in Hw. injection Hw as Ha Hw. subst a.
  destruct Hcr; subst cr; cbn [rev app] in Hw.
  - destruct v1 as [|b v2]; cbn [app] in Hw; [discriminate|]. injection Hw as Hb Hw. subst b.
    destruct v2 as [|c v3]; cbn [app] in Hw; [discriminate|]. injection Hw as Hc Hw. subst c.
    exists (rev v3), []. split; [|auto]. rewrite Hw'. cbn [rev]. unfold flat_term. repeat rewrite <- app_assoc. reflexivity.
  - destruct v1 as [|b v2]; cbn [app] in Hw; [discriminate|]. injection Hw as Hb Hw. subst b.
    destruct v2 as [|c v3]; cbn [app] in Hw; [discriminate|]. injection Hw as Hc Hw. subst c.
    destruct v3 as [|d v4]; cbn [app] in Hw; [discriminate|]. injection Hw as Hd Hw. subst d.
    exists (rev v4), [13%N]. split; [|auto]. rewrite Hw'. cbn [rev]. unfold flat_term. repeat rewrite <- app_assoc. reflexivity.
Qed.

Lemma app_eq_len : forall (a b c d : list N), a ++ b = c ++ d -> length a = length c -> a = c /\ b = d.
Proof.
  induction a as [|x a IH]; intros b c d H Hl; destruct c as [|y c]; try discriminate; [auto|].
  cbn in H. injection H as Hx H. cbn in Hl. injection Hl as Hl. destruct (IH _ _ _ H Hl). subst. auto.
Qed.

Section FlatRead.
Variable tp : list N -> option (list rec).
Hypothesis tp_nil : tp [] = Some [].
Hypothesis tp_cut : forall p0 cr post, cr = [] \/ cr = [13%N] ->
  tp ((p0 ++ flat_end cr) ++ post) = opt_app (tp (p0 ++ flat_end cr)) (tp post)
  /\ tp (rstrip_eol (p0 ++ flat_end cr)) = tp (p0 ++ flat_end cr).
Hypothesis tp_strip_end : forall p cr, cr = [] \/ cr = [13%N] -> tp (rstrip_eol (p ++ flat_term cr)) = tp (p ++ flat_term cr).

Lemma flat_partition_records : forall i w l, partition flat_split i w l ->
  forall recs, tp w = Some recs -> (w = [] \/ ends_term w) -> parse_chunks tp l = Some recs.
Proof.
  induction 1 as [i w Hall|i seg w l Hall Hcut Hp IH|i seg w l Hne Hcut Hp IH|i seg Hne]; intros recs Hparse Hterm.
  - destruct Hterm as [Hw|Ht]; [|exfalso; eapply ends_term_not_eol; eauto].
    subst w. rewrite tp_nil in Hparse. inversion Hparse. reflexivity.
  - destruct Hcut as [Hw|(x & y & Hw & Hs)].
    + subst w. rewrite app_nil_r in *. destruct Hterm as [Hs|Ht]; [|exfalso; eapply ends_term_not_eol; eauto].
      subst seg. apply IH; auto.
    + exfalso. apply flat_split_sound in Hs. destruct Hs as (p0 & cr & post & Hb & Hcr & Hlen).
      destruct (app_eq_len _ _ _ _ Hb Hlen) as [Hseg _]. subst seg. eapply flat_end_not_eol; eauto.
  - destruct Hcut as [Hw|(x & y & Hw & Hs)].
    + subst w. rewrite app_nil_r in *. rewrite (partition_nil _ _ _ _ Hp eq_refl).
      cbn [parse_chunks fold_right snd].
      destruct Hterm as [Hs|(p & cr & Hs & Hcr)]; [subst seg; exfalso; apply Hne; reflexivity|].
      subst seg. rewrite (tp_strip_end _ _ Hcr), Hparse. cbn. rewrite app_nil_r. reflexivity.
    + apply flat_split_sound in Hs. destruct Hs as (p0 & cr & post & Hb & Hcr & Hlen).
      destruct (app_eq_len _ _ _ _ Hb Hlen) as [Hseg Hx]. subst seg x w.
      destruct (tp_cut p0 cr (post ++ y) Hcr) as [Hc1 Hc2]. rewrite Hc1 in Hparse.
      destruct (tp (p0 ++ flat_end cr)) as [r1|] eqn:H1; [|discriminate].
      destruct (tp (post ++ y)) as [r2|] eqn:H2; [|discriminate].
      cbn [parse_chunks fold_right snd]. rewrite Hc2; try rewrite H1.
      change (fold_right (fun c acc => opt_app (tp (snd c)) acc) (Some []) l) with (parse_chunks tp l).
      rewrite (IH r2 eq_refl).
      * exact Hparse.
      * destruct Hterm as [Hn|Ht].
        { exfalso. apply app_eq_nil in Hn. destruct Hn as [Hn _]. apply app_eq_nil in Hn. destruct Hn as [_ Hn]. discriminate. }
        unfold flat_end in Ht.
        replace ((p0 ++ [10;47;47]%N ++ cr ++ [10%N]) ++ post ++ y) with (((p0 ++ [10;47;47]%N ++ cr) ++ [10%N]) ++ post ++ y) in Ht
          by (repeat rewrite <- app_assoc; reflexivity).
        apply ends_term_suffix in Ht. exact Ht.
  - cbn [parse_chunks fold_right snd]. rewrite Hparse. cbn. rewrite app_nil_r. reflexivity.
Qed.

Theorem read_flat : forall B file recs, (1 <= B)%nat ->
  tp file = Some recs -> (file = [] \/ ends_term file) ->
  exists l, chunker flat_split B file = Some l /\ map fst l = seq 0 (length l) /\ parse_chunks tp l = Some recs.
Proof.
  intros B file recs HB Hp Hc.
  destruct (chunker_partition flat_split B B HB flat_split_range file) as (l & Hl & Hpart).
  exists l. split; [exact Hl|]. split; [eapply partition_numbers; eauto|]. eapply flat_partition_records; eauto.
Qed.
End FlatRead.

Lemma rstrip_flat_term : forall p cr, cr = [] \/ cr = [13%N] -> rstrip_eol (p ++ flat_term cr) = p ++ [47;47]%N.
Proof.
  intros p cr Hcr. unfold rstrip_eol, flat_term.
  destruct Hcr; subst cr; rewrite rev_app_distr; cbn [rev app strip_rev];
    change (is_eol 10) with true; change (is_eol 13) with true; change (is_eol 47) with false; cbv iota;
    change (47%N :: 47%N :: rev p) with (rev [47;47]%N ++ rev p);
    rewrite <- rev_app_distr, rev_involutive; reflexivity.
Qed.

Lemma lines_flat_term : forall lc cr p cur, cr = [] \/ cr = [13%N] ->
  lines_aux lc (p ++ flat_term cr) cur = lines_aux lc (p ++ [47;47]%N) cur.
Proof.
  intros lc cr p cur Hcr. revert cur. induction p as [|c p IH]; intros cur.
  - destruct Hcr; subst cr; destruct lc; reflexivity.
  - cbn [app lines_aux]. destruct (c =? 10)%N; [f_equal; apply IH|apply IH].
Qed.

Theorem read_genbank : forall B file recs, (1 <= B)%nat ->
  genbank_parse file = Some recs -> (file = [] \/ ends_term file) ->
  exists l, chunker flat_split B file = Some l /\ map fst l = seq 0 (length l) /\ parse_chunks genbank_parse l = Some recs.
Proof.
  apply read_flat.
  - reflexivity.
  - exact genbank_text_cut.
  - intros p cr Hcr. unfold genbank_parse, genbank_parse_gen, lines_readline.
    rewrite (rstrip_flat_term _ _ Hcr), (lines_flat_term _ _ _ _ Hcr). reflexivity.
Qed.

Theorem read_embl : forall B file recs, (1 <= B)%nat ->
  embl_parse file = Some recs -> (file = [] \/ ends_term file) ->
  exists l, chunker flat_split B file = Some l /\ map fst l = seq 0 (length l) /\ parse_chunks embl_parse l = Some recs.
Proof.
  apply read_flat.
  - reflexivity.
  - exact embl_text_cut.
  - intros p cr Hcr. unfold embl_parse, embl_parse_gen, lines_scanner.
    rewrite (rstrip_flat_term _ _ Hcr), (lines_flat_term _ _ _ _ Hcr). reflexivity.
Qed.

(** * io.ReadFull over any reader *)
Definition rf_spec (min : nat) (acc data : list N) : list N * list N * rerr :=
  let w := (min - length acc)%nat in
  (acc ++ firstn w data, skipn w data,
   if Nat.leb min (length acc + length data) then ENil else match acc ++ data with [] => EEof | _ => EUnexp end).

Lemma firstn_add : forall (a b : nat) (l : list N), firstn a l ++ firstn b (skipn a l) = firstn (a + b) l.
Proof.
  induction a as [|a IH]; intros b l; [reflexivity|].
  destruct l as [|x l]; [cbn; rewrite firstn_nil; reflexivity|]. cbn. f_equal. apply IH.
Qed.
Lemma skipn_add : forall (a b : nat) (l : list N), skipn b (skipn a l) = skipn (a + b) l.
Proof.
  induction a as [|a IH]; intros b l; [reflexivity|].
  destruct l as [|x l]; [cbn; rewrite skipn_nil; reflexivity|]. cbn. apply IH.
Qed.

Lemma read_at_least_spec : forall fuel sched min acc data,
  (length data < fuel)%nat -> read_at_least fuel sched min acc data = Some (rf_spec min acc data).
Proof.
  induction fuel as [|f IH]; intros sched min acc data Hf; [lia|].
  cbn [read_at_least]. unfold rf_spec.
  destruct (Nat.leb min (length acc)) eqn:Hle.
  - apply Nat.leb_le in Hle. replace (min - length acc)%nat with 0%nat by lia. cbn [firstn skipn].
    rewrite app_nil_r. replace (Nat.leb min (length acc + length data)) with true by (symmetry; apply Nat.leb_le; lia). reflexivity.
  - apply Nat.leb_gt in Hle. set (w := (min - length acc)%nat). assert (Hw : (1 <= w)%nat) by (unfold w; lia).
    destruct (hd (1%nat, false) sched) as [k e]. unfold rd_read.
    destruct data as [|d0 data'].
    + cbn [firstn skipn length]. rewrite !firstn_nil, !skipn_nil, !app_nil_r.
      replace (Nat.leb min (length acc)) with false by (symmetry; apply Nat.leb_gt; lia).
      replace (Nat.leb min (length acc + 0)) with false by (symmetry; apply Nat.leb_gt; lia). reflexivity.
    + cbv iota. assert (Hdl : (1 <= length (d0 :: data'))%nat) by (cbn; lia). remember (d0 :: data') as data eqn:Hdata. clear Hdata. set (m := Nat.min w (Nat.max 1 k)).
      assert (Hm : (1 <= m <= w)%nat) by (unfold m; lia).
      destruct (skipn m data) as [|r0 rest'] eqn:Hsk.
      * (* the read reaches the end of the data *)
        assert (Hlen : (length data <= m)%nat).
        { apply (f_equal (@length N)) in Hsk. rewrite skipn_length in Hsk. cbn in Hsk. lia. }
        assert (Hfm : firstn m data = data) by (apply firstn_all2; lia).
        assert (Hfw : firstn w data = data) by (apply firstn_all2; lia).
        assert (Hsw : skipn w data = []) by (apply skipn_all2; lia).
        rewrite Hfm.
        destruct e.
        -- rewrite Hfw, Hsw, app_length. reflexivity.
        -- rewrite IH by (cbn; lia). unfold rf_spec. cbn [length firstn skipn]. rewrite firstn_nil, skipn_nil, app_nil_r.
           rewrite Hfw, Hsw, app_length, Nat.add_0_r. reflexivity.
      * (* a short read, more data left *)
        assert (Hlen : (m < length data)%nat).
        { apply (f_equal (@length N)) in Hsk. rewrite skipn_length in Hsk. cbn in Hsk. lia. }
        rewrite <- Hsk. rewrite IH by (rewrite skipn_length; lia).
        unfold rf_spec. rewrite app_length, firstn_length, skipn_length, Nat.min_l by lia.
        replace (min - (length acc + m))%nat with (w - m)%nat by (unfold w; lia).
        rewrite <- app_assoc, firstn_add, skipn_add. replace (m + (w - m))%nat with w by lia.
        replace (length acc + m + (length data - m))%nat with (length acc + length data)%nat by lia.
        rewrite <- app_assoc. rewrite (firstn_skipn m data). reflexivity.
Qed.

(** whatever the way the bytes arrive (any schedule of short reads, EOF reported early or late),
    io.ReadFull of n bytes sees exactly what [readfull] (one read of the whole file) sees *)
Theorem readfull_any_transport : forall sched n data,
  read_at_least (S (length data)) sched n [] data = Some (readfull n data).
Proof.
  intros sched n data. rewrite read_at_least_spec by lia. unfold rf_spec, readfull. cbn [length app]. rewrite Nat.sub_0_r.
  destruct (Nat.eqb (length (firstn n data)) n) eqn:He.
  - apply Nat.eqb_eq in He. rewrite firstn_length in He.
    replace (Nat.leb n (0 + length data)) with true by (symmetry; apply Nat.leb_le; lia). reflexivity.
  - apply Nat.eqb_neq in He. rewrite firstn_length in He.
    replace (Nat.leb n (0 + length data)) with false by (symmetry; apply Nat.leb_gt; lia).
    assert (Hf : firstn n data = data) by (apply firstn_all2; lia). rewrite Hf. destruct data; reflexivity.
Qed.

(** * FASTA: printer round trip -- the records of a printed file are the records that were printed *)
(* layout of one record: the line end, the separator between identifier and definition, the folding of
   the sequence (any non-empty lines), blank lines after the record *)
Record fa_layout := mklay { l_eol : list N; l_sep : list N; l_segs : list (list N); l_blank : list N }.

Definition print_seq (eol : list N) (segs : list (list N)) : list N := concat (map (fun s => s ++ eol) segs).
Definition print_fa (lr : fa_layout * rec) : list N :=
  let '(l, r) := lr in
  [62%N] ++ rid r ++ (match rdef r with [] => [] | d => l_sep l ++ d end) ++ l_eol l ++ print_seq (l_eol l) (l_segs l) ++ l_blank l.

Definition eolb'' (c : N) : Prop := is_eol c = true.
Definition valid_fa (lr : fa_layout * rec) : Prop :=
  let '(l, r) := lr in
  (l_eol l = [10%N] \/ l_eol l = [13%N; 10%N]) /\
  l_sep l <> [] /\ Forall (fun c => is_space c = true) (l_sep l) /\
  Forall eolb'' (l_blank l) /\
  rid r <> [] /\ Forall (fun c => is_sep c = false) (rid r) /\
  Forall (fun c => is_eol c = false) (rdef r) /\ (forall c d, rdef r = c :: d -> is_space c = false) /\
  l_segs l <> [] /\ Forall (fun s => s <> []) (l_segs l) /\ map lower (concat (l_segs l)) = rseq r /\
  Forall (fun c => is_seqlow (lower c) = true) (concat (l_segs l)) /\
  rqual r = None /\ rtax r = None /\ rsci r = [].

Lemma seqlow_facts : forall c, is_seqlow c = true -> lower c = c /\ is_sep c = false /\ (c =? 62)%N = false.
Proof.
  intros c H. unfold lower, is_upper, is_sep, is_space, is_eol. unfold is_seqlow in H.
  repeat split.
  - destruct ((65 <=? c) && (c <=? 90))%N eqn:E; [|reflexivity].
    apply andb_true_iff in E. destruct E as [E1 E2]. apply N.leb_le in E1, E2.
    repeat (apply orb_true_iff in H; destruct H as [H|H]);
      try (apply andb_true_iff in H; destruct H as [H1 H2]; apply N.leb_le in H1, H2; lia);
      apply N.eqb_eq in H; subst c; lia.
  - destruct (c =? 32)%N eqn:E1; [apply N.eqb_eq in E1; subst c; discriminate|].
    destruct (c =? 9)%N eqn:E2; [apply N.eqb_eq in E2; subst c; discriminate|].
    destruct (c =? 10)%N eqn:E3; [apply N.eqb_eq in E3; subst c; discriminate|].
    destruct (c =? 13)%N eqn:E4; [apply N.eqb_eq in E4; subst c; discriminate|]. reflexivity.
  - destruct (c =? 62)%N eqn:E1; [apply N.eqb_eq in E1; subst c; discriminate|reflexivity].
Qed.

(* upper-case nucleotides are accepted and lower-cased *)
Lemma seqany_facts : forall c, is_seqlow (lower c) = true -> is_sep c = false /\ (c =? 62)%N = false.
Proof.
  intros c H. unfold lower in H. destruct (is_upper c) eqn:E.
  - unfold is_upper in E. apply andb_true_iff in E. destruct E as [E1 E2]. apply N.leb_le in E1, E2.
    unfold is_sep, is_space, is_eol. split.
    + destruct (c =? 32)%N eqn:K1; [apply N.eqb_eq in K1; lia|]. destruct (c =? 9)%N eqn:K2; [apply N.eqb_eq in K2; lia|].
      destruct (c =? 10)%N eqn:K3; [apply N.eqb_eq in K3; lia|]. destruct (c =? 13)%N eqn:K4; [apply N.eqb_eq in K4; lia|]. reflexivity.
    + apply N.eqb_neq. lia.
  - destruct (seqlow_facts c H) as (_ & H2 & H3). auto.
Qed.

(* the state after the header and k bytes of sequence, in terms of what has been read *)
Definition st6 (id def seqb : list N) (prev : N) (out : list rec) (idb defb : list N) : fa_st :=
  mkfa 6%nat idb defb seqb id def prev out.

Lemma run_id : forall ids idb defb seqb id def prev out,
  Forall (fun c => is_sep c = false) ids ->
  exists p, fa_run (mkfa 2%nat idb defb seqb id def prev out) ids =
  Some (mkfa 2%nat (rev ids ++ idb) defb seqb id def p out).
Proof.
  induction ids as [|c ids IH]; intros idb defb seqb id def prev out Hf; [eexists; reflexivity|].
  inversion Hf; subst. cbn [fa_run]. unfold fa_step at 1. cbn [fa_s fa_idb fa_defb fa_seqb fa_id fa_def fa_out fa_prev].
  unfold is_sep in H1. rewrite H1.
  destruct (IH (c :: idb) defb seqb id def c out H2) as (p & Hp). exists p. rewrite Hp. cbn [rev]. rewrite <- app_assoc. reflexivity.
Qed.

Lemma run_def : forall d idb defb seqb id def prev out,
  Forall (fun c => is_eol c = false) d ->
  exists p, fa_run (mkfa 4%nat idb defb seqb id def prev out) d =
  Some (mkfa 4%nat idb (rev d ++ defb) seqb id def p out).
Proof.
  induction d as [|c d IH]; intros idb defb seqb id def prev out Hf; [eexists; reflexivity|].
  inversion Hf; subst. cbn [fa_run]. unfold fa_step at 1. cbn [fa_s fa_idb fa_defb fa_seqb fa_id fa_def fa_out fa_prev].
  rewrite H1.
  destruct (IH idb (c :: defb) seqb id def c out H2) as (p & Hp). exists p. rewrite Hp. cbn [rev]. rewrite <- app_assoc. reflexivity.
Qed.

Lemma run_spaces3 : forall sp idb defb seqb id def prev out,
  Forall (fun c => is_space c = true) sp -> sp <> [] ->
  exists p, fa_run (mkfa 3%nat idb defb seqb id def prev out) sp = Some (mkfa 3%nat idb defb seqb id def p out).
Proof.
  induction sp as [|c sp IH]; intros idb defb seqb id def prev out Hf Hne; [contradiction|].
  inversion Hf; subst. cbn [fa_run]. unfold fa_step at 1. cbn [fa_s fa_idb fa_defb fa_seqb fa_id fa_def fa_out fa_prev].
  assert (He : is_eol c = false).
  { unfold is_space in H1. unfold is_eol. destruct (c =? 10)%N eqn:E1; [apply N.eqb_eq in E1; subst c; discriminate|].
    destruct (c =? 13)%N eqn:E2; [apply N.eqb_eq in E2; subst c; discriminate|]. reflexivity. }
  rewrite He, H1. cbn [negb].
  destruct sp as [|c2 sp]; [eexists; reflexivity|]. apply IH; auto. discriminate.
Qed.

Lemma run_eols6 : forall E idb defb seqb id def prev out,
  Forall eolb'' E -> (E <> [] \/ is_eol prev = true) ->
  exists p, fa_run (st6 id def seqb prev out idb defb) E = Some (st6 id def seqb p out idb defb) /\ is_eol p = true.
Proof.
  induction E as [|c E IH]; intros idb defb seqb id def prev out Hf Hne.
  - destruct Hne as [Hne|Hp]; [contradiction|]. exists prev. split; [reflexivity|exact Hp].
  - inversion Hf; subst. cbn [fa_run]. unfold st6 at 1. unfold fa_step. cbn [fa_s fa_idb fa_defb fa_seqb fa_id fa_def fa_out fa_prev].
    unfold eolb'' in H1.
    assert (H62 : (c =? 62)%N = false).
    { destruct (c =? 62)%N eqn:E1; [apply N.eqb_eq in E1; subst c; discriminate|reflexivity]. }
    rewrite H62, H1, orb_true_r. cbn [negb]. fold (st6 id def seqb c out idb defb).
    apply IH; auto.
Qed.

Lemma run_seg6 : forall seg idb defb seqb id def prev out,
  Forall (fun c => is_seqlow (lower c) = true) seg ->
  exists p, fa_run (st6 id def seqb prev out idb defb) seg = Some (st6 id def (rev (map lower seg) ++ seqb) p out idb defb).
Proof.
  induction seg as [|c seg IH]; intros idb defb seqb id def prev out Hf; [eexists; reflexivity|].
  inversion Hf; subst. cbn [fa_run]. unfold st6 at 1. unfold fa_step. cbn [fa_s fa_idb fa_defb fa_seqb fa_id fa_def fa_out fa_prev].
  destruct (seqany_facts c H1) as (Hs & H62). unfold is_sep in Hs. rewrite H62, Hs, H1. cbn [negb].
  fold (st6 id def (lower c :: seqb) (lower c) out idb defb).
  destruct (IH idb defb (lower c :: seqb) id def (lower c) out H2) as (p & Hp). exists p. rewrite Hp. cbn [map rev]. rewrite <- app_assoc. reflexivity.
Qed.

Lemma eol_is_eols : forall e, e = [10%N] \/ e = [13%N; 10%N] -> Forall eolb'' e /\ e <> [].
Proof. intros e [H|H]; subst e; split; try discriminate; repeat constructor. Qed.

(* the sequence lines *)
Lemma run_segs6 : forall eol segs idb defb seqb id def prev out,
  (eol = [10%N] \/ eol = [13%N; 10%N]) ->
  Forall (fun c => is_seqlow (lower c) = true) (concat segs) -> is_eol prev = true ->
  exists p, fa_run (st6 id def seqb prev out idb defb) (print_seq eol segs) =
            Some (st6 id def (rev (map lower (concat segs)) ++ seqb) p out idb defb) /\ is_eol p = true.
Proof.
  intros eol. induction segs as [|s segs IH]; intros idb defb seqb id def prev out He Hf Hprev.
  - exists prev. split; [reflexivity|exact Hprev].
  - cbn [concat] in Hf. apply Forall_app in Hf. destruct Hf as [Hs Hf].
    unfold print_seq. cbn [map concat]. rewrite <- app_assoc. rewrite fa_run_app.
    destruct (run_seg6 s idb defb seqb id def prev out Hs) as (p1 & Hr1). rewrite Hr1.
    destruct (eol_is_eols eol He) as (Hee & Hne).
    rewrite fa_run_app.
    destruct (run_eols6 eol idb defb (rev (map lower s) ++ seqb) id def p1 out Hee (or_introl Hne)) as (p2 & Hr2 & Hp2). rewrite Hr2.
    destruct (IH idb defb (rev (map lower s) ++ seqb) id def p2 out He Hf Hp2) as (p & Hr & Hp).
    fold (print_seq eol segs). rewrite Hr. exists p. split; [|exact Hp].
    cbn [concat]. rewrite map_app, rev_app_distr, <- app_assoc. reflexivity.
Qed.

(* what follows the '>' of a printed record *)
Definition print_fa_body (lr : fa_layout * rec) : list N :=
  let '(l, r) := lr in
  rid r ++ (match rdef r with [] => [] | d => l_sep l ++ d end) ++ l_eol l ++ print_seq (l_eol l) (l_segs l) ++ l_blank l.
Lemma print_fa_cons : forall lr, print_fa lr = 62%N :: print_fa_body lr.
Proof. intros [l r]. reflexivity. Qed.

Lemma run_eol5 : forall eol idb defb seqb id def prev out,
  Forall eolb'' eol ->
  exists p, fa_run (mkfa 5%nat idb defb seqb id def prev out) eol = Some (mkfa 5%nat idb defb seqb id def p out).
Proof.
  induction eol as [|c E IH]; intros idb defb seqb id def prev out Hf; [eexists; reflexivity|].
  inversion Hf; subst. cbn [fa_run]. unfold fa_step at 1. cbn [fa_s fa_idb fa_defb fa_seqb fa_id fa_def fa_out fa_prev].
  unfold eolb'' in H1. rewrite H1. apply IH; auto.
Qed.

Lemma run_eol_from2 : forall eol idb defb seqb id def prev out, (eol = [10%N] \/ eol = [13%N; 10%N]) ->
  exists p, fa_run (mkfa 2%nat idb defb seqb id def prev out) eol = Some (mkfa 5%nat [] defb seqb (rev idb) [] p out).
Proof. intros eol idb defb seqb id def prev out [H|H]; subst eol; eexists; reflexivity. Qed.
Lemma run_eol_from4 : forall eol idb defb seqb id def prev out, (eol = [10%N] \/ eol = [13%N; 10%N]) ->
  exists p, fa_run (mkfa 4%nat idb defb seqb id def prev out) eol = Some (mkfa 5%nat idb defb seqb id (rev defb) p out).
Proof. intros eol idb defb seqb id def prev out [H|H]; subst eol; eexists; reflexivity. Qed.

(* header + sequence of one record, from the state that follows its '>' *)
Lemma run_record : forall l r idb defb seqb id def prev out,
  valid_fa (l, r) ->
  exists idb' defb' p,
    fa_run (mkfa 1%nat idb defb seqb id def prev out) (print_fa_body (l, r)) =
    Some (mkfa 6%nat idb' defb' (rev (rseq r)) (rid r) (rdef r) p out) /\ is_eol p = true /\ rseq r <> [].
Proof.
  intros l r idb defb seqb id def prev out
    (Heol & Hsepne & Hsep & Hblank & Hidne & Hid & Hdef & Hdef0 & Hsegne & Hsegs & Hcat & Hseq & _).
  destruct (eol_is_eols _ Heol) as (Hee & Heone).
  unfold print_fa_body.
  destruct (rid r) as [|i0 ids] eqn:Hrid; [contradiction|]. inversion Hid as [|? ? Hi0 Hids]; subst.
  (* first byte of the identifier *)
  cbn [app fa_run]. unfold fa_step at 1. cbn [fa_s fa_idb fa_defb fa_seqb fa_id fa_def fa_out fa_prev].
  unfold is_sep in Hi0. rewrite Hi0.
  rewrite fa_run_app. destruct (run_id ids [i0] defb seqb id def i0 out Hids) as (p1 & Hr1). rewrite Hr1.
  assert (Hidb : rev (rev ids ++ [i0]) = i0 :: ids) by (rewrite rev_app_distr, rev_involutive; reflexivity).
  (* the first sequence line *)
  destruct (l_segs l) as [|s0 segs] eqn:Hsg; [contradiction|]. inversion Hsegs as [|? ? Hs0ne Hsegs']; subst.
  destruct s0 as [|q0 s0]; [contradiction|].
  cbn [concat app] in Hseq. inversion Hseq as [|? ? Hq0 Hrest]; subst.
  apply Forall_app in Hrest. destruct Hrest as [Hs0 Hsegsq].
  destruct (seqany_facts q0 Hq0) as (Hsq & _).
  assert (Hq0e : is_eol q0 = false) by (unfold is_sep in Hsq; apply orb_false_iff in Hsq; tauto).
  (* what happens from state 5 on: common to both header shapes *)
  assert (Hseqpart : forall idb2 defb2 seqb2 prev2,
    exists p, fa_run (mkfa 5%nat idb2 defb2 seqb2 (i0 :: ids) (rdef r) prev2 out)
                     (print_seq (l_eol l) ((q0 :: s0) :: segs) ++ l_blank l) =
              Some (mkfa 6%nat idb2 defb2 (rev (rseq r)) (i0 :: ids) (rdef r) p out) /\ is_eol p = true).
  { intros idb2 defb2 seqb2 prev2. unfold print_seq. cbn [map concat app fa_run].
    unfold fa_step at 1. cbn [fa_s fa_idb fa_defb fa_seqb fa_id fa_def fa_out fa_prev]. rewrite Hq0e, Hq0.
    fold (st6 (i0 :: ids) (rdef r) [lower q0] (lower q0) out idb2 defb2).
    rewrite <- !app_assoc. rewrite fa_run_app.
    destruct (run_seg6 s0 idb2 defb2 [lower q0] (i0 :: ids) (rdef r) (lower q0) out Hs0) as (p2 & Hr2). rewrite Hr2.
    rewrite fa_run_app.
    destruct (run_eols6 (l_eol l) idb2 defb2 (rev (map lower s0) ++ [lower q0]) (i0 :: ids) (rdef r) p2 out Hee (or_introl Heone)) as (p3 & Hr3 & Hp3).
    rewrite Hr3. fold (print_seq (l_eol l) segs). rewrite fa_run_app.
    destruct (run_segs6 (l_eol l) segs idb2 defb2 (rev (map lower s0) ++ [lower q0]) (i0 :: ids) (rdef r) p3 out Heol Hsegsq Hp3) as (p4 & Hr4 & Hp4).
    rewrite Hr4.
    destruct (run_eols6 (l_blank l) idb2 defb2 (rev (map lower (concat segs)) ++ rev (map lower s0) ++ [lower q0]) (i0 :: ids) (rdef r) p4 out Hblank (or_intror Hp4)) as (p5 & Hr5 & Hp5).
    rewrite Hr5. exists p5. split; [|exact Hp5]. unfold st6. f_equal. f_equal.
    rewrite <- Hcat. cbn [concat app map rev]. rewrite map_app, rev_app_distr. rewrite <- app_assoc. reflexivity. }
  assert (Hne : rseq r <> []) by (rewrite <- Hcat; discriminate).
  destruct (rdef r) as [|d0 d] eqn:Hrd.
  - (* no definition: the line end follows the identifier *)
    cbn [app]. rewrite fa_run_app.
    destruct (run_eol_from2 (l_eol l) (rev ids ++ [i0]) defb seqb id def p1 out Heol) as (p2 & Hr2). rewrite Hr2, Hidb.
    destruct (Hseqpart [] defb seqb p2) as (p & Hr & Hp). rewrite Hr. exists [], defb, p. auto.
  - (* separator, definition, line end *)
    destruct (l_sep l) as [|sp0 sps] eqn:Hls; [contradiction|]. inversion Hsep as [|? ? Hsp0 Hsps]; subst.
    rewrite <- !app_assoc. cbn [app fa_run]. unfold fa_step at 1. cbn [fa_s fa_idb fa_defb fa_seqb fa_id fa_def fa_out fa_prev].
    assert (Hsp0e : is_eol sp0 = false).
    { unfold is_space in Hsp0. unfold is_eol. destruct (sp0 =? 10)%N eqn:E1; [apply N.eqb_eq in E1; subst sp0; discriminate|].
      destruct (sp0 =? 13)%N eqn:E2; [apply N.eqb_eq in E2; subst sp0; discriminate|]. reflexivity. }
    rewrite Hsp0, Hsp0e. cbn [orb]. rewrite Hidb.
    (* remaining separators *)
    assert (Hsp3 : exists p, fa_run (mkfa 3%nat [] defb seqb (i0 :: ids) def sp0 out) sps = Some (mkfa 3%nat [] defb seqb (i0 :: ids) def p out)).
    { destruct sps as [|sp1 sps']; [eexists; reflexivity|]. apply run_spaces3; auto. discriminate. }
    destruct Hsp3 as (p2 & Hr2). rewrite fa_run_app, Hr2.
    (* first byte of the definition *)
    inversion Hdef as [|? ? Hd0 Hd]; subst.
    cbn [app fa_run]. unfold fa_step at 1. cbn [fa_s fa_idb fa_defb fa_seqb fa_id fa_def fa_out fa_prev].
    rewrite Hd0, (Hdef0 d0 d eq_refl). cbn [negb].
    rewrite fa_run_app. destruct (run_def d [] [d0] seqb (i0 :: ids) def d0 out Hd) as (p3 & Hr3). rewrite Hr3.
    rewrite fa_run_app.
    destruct (run_eol_from4 (l_eol l) [] (rev d ++ [d0]) seqb (i0 :: ids) def p3 out Heol) as (p4 & Hr4). rewrite Hr4.
    assert (Hdb : rev (rev d ++ [d0]) = d0 :: d) by (rewrite rev_app_distr, rev_involutive; reflexivity). rewrite Hdb.
    destruct (Hseqpart [] (rev d ++ [d0]) seqb p4) as (p & Hr & Hp). rewrite Hr. exists [], (rev d ++ [d0]), p. auto.
Qed.

Definition print_fasta (lrs : list (fa_layout * rec)) : list N := concat (map print_fa lrs).

Lemma valid_rec_eta : forall l r, valid_fa (l, r) -> mkrec (rid r) (rdef r) (rev (rev (rseq r))) None None [] = r.
Proof.
  intros l [id def sq q t sc] (_ & _ & _ & _ & _ & _ & _ & _ & _ & _ & _ & _ & Hq & Ht & Hs).
  cbn in *. subst. rewrite rev_involutive. reflexivity.
Qed.

(* from the state reached inside the sequence of a record, with the previous byte a CR/LF *)
Lemma run_records : forall lrs s, Forall valid_fa lrs ->
  fa_s s = 6%nat -> is_eol (fa_prev s) = true -> fa_seqb s <> [] ->
  exists s', fa_run s (print_fasta lrs) = Some s' /\ fa_flush s' = Some (rev (fa_emit s) ++ map snd lrs)
             /\ fa_s s' = 6%nat.
Proof.
  induction lrs as [|[l r] lrs IH]; intros s Hv H6 Hp Hq.
  - exists s. split; [reflexivity|]. split; [|exact H6]. unfold fa_flush. rewrite H6. cbn [Nat.eqb].
    destruct (fa_seqb s); [contradiction|]. cbn [map]. rewrite app_nil_r. reflexivity.
  - inversion Hv as [|? ? Hv1 Hv2]; subst.
    unfold print_fasta. cbn [map concat]. rewrite print_fa_cons. cbn [app fa_run].
    destruct s as [st idb defb seqb id def prev out]. cbn [fa_s fa_prev fa_seqb] in H6, Hp, Hq. subst st.
    unfold fa_step at 1. cbn [fa_s fa_idb fa_defb fa_seqb fa_id fa_def fa_out fa_prev]. cbn [N.eqb Pos.eqb]. rewrite Hp.
    destruct seqb as [|q0 seqb]; [contradiction|].
    destruct (run_record l r idb defb (q0 :: seqb) id def 62%N
               (fa_emit (mkfa 6%nat idb defb (q0 :: seqb) id def prev out)) Hv1) as (idb' & defb' & p & Hr & Hpe & Hne).
    destruct (IH (mkfa 6%nat idb' defb' (rev (rseq r)) (rid r) (rdef r) p
                       (fa_emit (mkfa 6%nat idb defb (q0 :: seqb) id def prev out))) Hv2 eq_refl Hpe) as (s' & Hr' & Hf' & H6').
    { cbn [fa_seqb]. intros Hn. apply Hne. apply (f_equal (@rev N)) in Hn. rewrite rev_involutive in Hn. exact Hn. }
    exists s'. split; [rewrite fa_run_app, Hr; exact Hr'|]. split; [|exact H6'].
    rewrite Hf'. unfold fa_emit at 1. cbn [fa_id fa_def fa_seqb fa_out]. rewrite (valid_rec_eta l r Hv1).
    cbn [rev map snd]. rewrite <- app_assoc. reflexivity.
Qed.

(** every printed file: any line end per record (LF / CRLF), any separator, any folding of the sequence,
    blank lines after any record, with or without definition, with or without final newline handled by
    [l_blank] of the last record *)
Theorem fasta_print_parse : forall lrs, lrs <> [] -> Forall valid_fa lrs ->
  fasta_parse (print_fasta lrs) = Some (map snd lrs) /\ fa_complete (print_fasta lrs).
Proof.
  intros lrs Hne Hv. destruct lrs as [|[l r] lrs]; [contradiction|].
  inversion Hv as [|? ? Hv1 Hv2]; subst.
  unfold print_fasta. cbn [map concat]. rewrite print_fa_cons.
  pose proof Hv1 as (_ & _ & _ & _ & Hidne & Hid & _).
  assert (Hc1 : exists c1 t, print_fa_body (l, r) = c1 :: t /\ (c1 =? 32)%N = false).
  { unfold print_fa_body. destruct (rid r) as [|c1 ids]; [contradiction|]. exists c1. eexists. split; [reflexivity|].
    inversion Hid as [|? ? Hc _]; subst. unfold is_sep, is_space in Hc.
    destruct (c1 =? 32)%N; [discriminate|reflexivity]. }
  destruct Hc1 as (c1 & t & Hb & Hc1).
  destruct (run_record l r [] [] [] [] [] 62%N [] Hv1) as (idb' & defb' & p & Hr & Hpe & Hnz).
  destruct (run_records lrs (mkfa 6%nat idb' defb' (rev (rseq r)) (rid r) (rdef r) p []) Hv2 eq_refl Hpe) as (s' & Hr' & Hf' & H6').
  { cbn [fa_seqb]. intros Hn. apply Hnz. apply (f_equal (@rev N)) in Hn. rewrite rev_involutive in Hn. exact Hn. }
  assert (Hrun : fa_run fa_init ((62%N :: print_fa_body (l, r)) ++ concat (map print_fa lrs)) = Some s').
  { cbn [app fa_run]. change (fa_step fa_init 62%N) with (Some (mkfa 1%nat [] [] [] [] [] 62%N [])). cbv iota.
    rewrite fa_run_app, Hr. exact Hr'. }
  split.
  - cbn [app] in *. rewrite Hb in *. cbn [app] in *. rewrite fasta_parse_unfold. cbn [negb N.eqb Pos.eqb]. rewrite Hc1, Hrun, Hf'.
    unfold fa_emit. cbn [fa_id fa_def fa_seqb fa_out]. rewrite (valid_rec_eta l r Hv1). reflexivity.
  - exists s'. split; [exact Hrun|exact H6'].
Qed.

Theorem read_fasta_printed : forall B lrs, (1 <= B)%nat -> lrs <> [] -> Forall valid_fa lrs ->
  exists l bs, chunker fasta_split B (print_fasta lrs) = Some l /\
    Forall2 (fun c b => fasta_parse (snd c) = Some b) l bs /\ concat bs = map snd lrs /\
    forall arr, Permutation arr (combine (map fst l) bs) -> out (run arr) = bs /\ pend (run arr) = [].
Proof.
  intros B lrs HB Hne Hv. destruct (fasta_print_parse lrs Hne Hv) as [Hp Hc].
  exact (read_fasta_any_order B _ _ HB Hp Hc).
Qed.

(** * FASTQ: printer round trip *)
(* [q_seq]: the nucleotides as written in the file (upper, lower or mixed case) *)
Record fq_layout := mkql { q_eol : list N; q_sep : list N; q_plus : list N; q_qual : list N; q_blank : list N; q_seq : list N }.

Definition print_fq_body (lr : fq_layout * rec) : list N :=
  let '(l, r) := lr in
  rid r ++ (match rdef r with [] => [] | d => q_sep l ++ d end) ++ q_eol l ++
  q_seq l ++ q_eol l ++ [43%N] ++ q_plus l ++ q_eol l ++ q_qual l ++ q_eol l ++ q_blank l.
Definition print_fq (lr : fq_layout * rec) : list N := 64%N :: print_fq_body lr.
Definition print_fastq (lrs : list (fq_layout * rec)) : list N := concat (map print_fq lrs).

Definition unshift (shift : N) (q : list N) : list N := map (fun x => (x + 256 - shift) mod 256)%N q.

Definition valid_fq (shift : N) (withq : bool) (lr : fq_layout * rec) : Prop :=
  let '(l, r) := lr in
  (q_eol l = [10%N] \/ q_eol l = [13%N; 10%N]) /\
  q_sep l <> [] /\ Forall (fun c => is_space c = true) (q_sep l) /\
  Forall eolb'' (q_blank l) /\
  Forall (fun c => is_eol c = false) (q_plus l) /\
  rid r <> [] /\ Forall (fun c => is_sep c = false) (rid r) /\
  Forall (fun c => is_eol c = false) (rdef r) /\ (forall c d, rdef r = c :: d -> is_space c = false) /\
  q_seq l <> [] /\ Forall (fun c => is_seqlow (lower c) = true) (q_seq l) /\ map lower (q_seq l) = rseq r /\
  Forall (fun c => is_eol c = false) (q_qual l) /\ length (q_qual l) = length (rseq r) /\
  rqual r = (if withq then Some (unshift shift (q_qual l)) else None) /\ rtax r = None /\ rsci r = [].

Section FQP.
Variable shift : N.
Variable withq : bool.
Notation run := (fq_run shift withq).
Notation step := (fq_step shift withq).

Lemma qrun_id : forall ids idb defb seqb qualb id def out, Forall (fun c => is_sep c = false) ids ->
  run (mkfq 2%nat idb defb seqb qualb id def out) ids = Some (mkfq 2%nat (rev ids ++ idb) defb seqb qualb id def out).
Proof.
  induction ids as [|c ids IH]; intros idb defb seqb qualb id def out Hf; [reflexivity|].
  inversion Hf; subst. cbn [fq_run]. unfold fq_step at 1. cbn [fq_s fq_idb fq_defb fq_seqb fq_qualb fq_id fq_def fq_out].
  unfold is_sep in H1. rewrite H1. rewrite IH by assumption. cbn [rev]. rewrite <- app_assoc. reflexivity.
Qed.
Lemma qrun_def : forall d idb defb seqb qualb id def out, Forall (fun c => is_eol c = false) d ->
  run (mkfq 4%nat idb defb seqb qualb id def out) d = Some (mkfq 4%nat idb (rev d ++ defb) seqb qualb id def out).
Proof.
  induction d as [|c d IH]; intros idb defb seqb qualb id def out Hf; [reflexivity|].
  inversion Hf; subst. cbn [fq_run]. unfold fq_step at 1. cbn [fq_s fq_idb fq_defb fq_seqb fq_qualb fq_id fq_def fq_out].
  rewrite H1. rewrite IH by assumption. cbn [rev]. rewrite <- app_assoc. reflexivity.
Qed.
Lemma qrun_seq : forall sq idb defb seqb qualb id def out, Forall (fun c => is_seqlow (lower c) = true) sq ->
  run (mkfq 6%nat idb defb seqb qualb id def out) sq = Some (mkfq 6%nat idb defb (rev (map lower sq) ++ seqb) qualb id def out).
Proof.
  induction sq as [|c sq IH]; intros idb defb seqb qualb id def out Hf; [reflexivity|].
  inversion Hf; subst. cbn [fq_run]. unfold fq_step at 1. cbn [fq_s fq_idb fq_defb fq_seqb fq_qualb fq_id fq_def fq_out].
  destruct (seqany_facts c H1) as (Hs & _). unfold is_sep in Hs. apply orb_false_iff in Hs. destruct Hs as [_ He].
  rewrite He, H1. rewrite IH by assumption. cbn [map rev]. rewrite <- app_assoc. reflexivity.
Qed.
Lemma qrun_plus : forall pl idb defb seqb qualb id def out, Forall (fun c => is_eol c = false) pl ->
  run (mkfq 8%nat idb defb seqb qualb id def out) pl = Some (mkfq 8%nat idb defb seqb qualb id def out).
Proof.
  induction pl as [|c pl IH]; intros idb defb seqb qualb id def out Hf; [reflexivity|].
  inversion Hf; subst. cbn [fq_run]. unfold fq_step at 1. cbn [fq_s fq_idb fq_defb fq_seqb fq_qualb fq_id fq_def fq_out].
  rewrite H1. apply IH; assumption.
Qed.
Lemma qrun_qual : forall q idb defb seqb qualb id def out, Forall (fun c => is_eol c = false) q ->
  run (mkfq 10%nat idb defb seqb qualb id def out) q = Some (mkfq 10%nat idb defb seqb (rev q ++ qualb) id def out).
Proof.
  induction q as [|c q IH]; intros idb defb seqb qualb id def out Hf; [reflexivity|].
  inversion Hf; subst. cbn [fq_run]. unfold fq_step at 1. cbn [fq_s fq_idb fq_defb fq_seqb fq_qualb fq_id fq_def fq_out].
  rewrite H1. rewrite IH by assumption. cbn [rev]. rewrite <- app_assoc. reflexivity.
Qed.
Lemma qrun_eols : forall E st idb defb seqb qualb id def out, Forall eolb'' E ->
  (st = 5%nat \/ st = 7%nat \/ st = 9%nat \/ st = 11%nat) ->
  run (mkfq st idb defb seqb qualb id def out) E = Some (mkfq st idb defb seqb qualb id def out).
Proof.
  induction E as [|c E IH]; intros st idb defb seqb qualb id def out Hf Hs; [reflexivity|].
  inversion Hf; subst. cbn [fq_run]. unfold fq_step at 1. cbn [fq_s fq_idb fq_defb fq_seqb fq_qualb fq_id fq_def fq_out].
  unfold eolb'' in H1. rewrite H1.
  destruct Hs as [Hs|[Hs|[Hs|Hs]]]; subst st; cbv iota; apply IH; auto.
Qed.

Lemma qstep6_eol : forall c idb defb seqb qualb id def out, is_eol c = true -> seqb <> [] ->
  step (mkfq 6%nat idb defb seqb qualb id def out) c =
  Some (mkfq 7%nat idb defb seqb qualb id def (mkrec id def (map lower (rev seqb)) None None [] :: out)).
Proof.
  intros c idb defb seqb qualb id def out Hc Hne. unfold fq_step. cbn [fq_s fq_idb fq_defb fq_seqb fq_qualb fq_id fq_def fq_out].
  rewrite Hc. destruct seqb; [contradiction|reflexivity].
Qed.

Lemma qstep10_eol : forall c idb defb seqb qualb id def r0 out, is_eol c = true ->
  rev qualb <> [] -> length (rev qualb) = length (rseq r0) ->
  step (mkfq 10%nat idb defb seqb qualb id def (r0 :: out)) c =
  Some (mkfq 11%nat idb defb seqb qualb id def
          (mkrec (rid r0) (rdef r0) (rseq r0) (if withq then Some (unshift shift (rev qualb)) else rqual r0) (rtax r0) (rsci r0) :: out)).
Proof.
  intros c idb defb seqb qualb id def r0 out Hc Hne Hlen. unfold fq_step. cbn [fq_s fq_idb fq_defb fq_seqb fq_qualb fq_id fq_def fq_out].
  rewrite Hc. destruct withq.
  - unfold fq_store. destruct (rev qualb) as [|x xs] eqn:Hq; [contradiction|].
    replace (Nat.eqb (length (x :: xs)) (length (rseq r0))) with true by (symmetry; apply Nat.eqb_eq; exact Hlen). reflexivity.
  - destruct r0; reflexivity.
Qed.

Lemma eol_split : forall e, e = [10%N] \/ e = [13%N; 10%N] -> exists e0 E, e = e0 :: E /\ is_eol e0 = true /\ Forall eolb'' E.
Proof. intros e [H|H]; subst e; eexists; eexists; split; try reflexivity; split; try reflexivity; repeat constructor. Qed.

Lemma lower_idem : forall c, lower (lower c) = lower c.
Proof.
  intros c. unfold lower at 2 3. destruct (is_upper c) eqn:E; [|unfold lower; rewrite E; reflexivity].
  unfold lower, is_upper in *. apply andb_true_iff in E. destruct E as [E1 E2]. apply N.leb_le in E1, E2.
  destruct ((65 <=? c + 32) && (c + 32 <=? 90))%N eqn:K; [|reflexivity].
  apply andb_true_iff in K. destruct K as [K1 K2]. apply N.leb_le in K1, K2. lia.
Qed.
Lemma map_lower_idem : forall l, map lower (map lower l) = map lower l.
Proof. induction l as [|c l IH]; [reflexivity|]. cbn [map]. rewrite lower_idem, IH. reflexivity. Qed.

Lemma seqlow_map_lower : forall l, Forall (fun c => is_seqlow c = true) l -> map lower l = l.
Proof. induction 1 as [|c l Hc Hl IH]; [reflexivity|]. cbn. rewrite IH. destruct (seqlow_facts c Hc) as (H & _). rewrite H. reflexivity. Qed.

(* one record from the state that follows its '@' *)
Lemma qrun_record : forall l r idb defb seqb qualb id def out, valid_fq shift withq (l, r) ->
  exists idb' defb' seqb' qualb' id' def',
    run (mkfq 1%nat idb defb seqb qualb id def out) (print_fq_body (l, r)) =
    Some (mkfq 11%nat idb' defb' seqb' qualb' id' def' (r :: out)).
Proof.
  intros l [rid0 rdef0 rseq0 rqual0 rtax0 rsci0] idb defb seqb qualb id def out
    (Heol & Hsepne & Hsep & Hblank & Hplus & Hidne & Hid & Hdef & Hdef0 & Hsqne & Hsq & Hsm & Hq & Hqlen & Hrq & Hrt & Hrs).
  cbn [rid rdef rseq rqual rtax rsci] in *. subst rtax0 rsci0.
  destruct (eol_split _ Heol) as (e0 & E & He & He0 & HE).
  unfold print_fq_body. cbn [rid rdef rseq]. rewrite He.
  destruct rid0 as [|i0 ids]; [contradiction|]. inversion Hid as [|? ? Hi0 Hids]; subst.
  cbn [app fq_run]. unfold fq_step at 1. cbn [fq_s fq_idb fq_defb fq_seqb fq_qualb fq_id fq_def fq_out].
  unfold is_sep in Hi0. rewrite Hi0.
  rewrite fq_run_app, qrun_id by assumption.
  assert (Hidb : rev (rev ids ++ [i0]) = i0 :: ids) by (rewrite rev_app_distr, rev_involutive; reflexivity).
  destruct (q_seq l) as [|s0 sq] eqn:Hqsq; [contradiction|]. inversion Hsq as [|? ? Hs0 Hsq']; subst.
  destruct (seqany_facts s0 Hs0) as (Hss0 & _). unfold is_sep in Hss0. apply orb_false_iff in Hss0. destruct Hss0 as [_ Hs0e].
  destruct (q_qual l) as [|q0 qs] eqn:Hqq; [discriminate|]. inversion Hq as [|? ? Hq0 Hqs]; subst.
  (* from state 5 on *)
  assert (Htail : forall idb2 defb2 seqb2 qualb2 def2,
    exists idb' defb' seqb' qualb' id' def',
    run (mkfq 5%nat idb2 defb2 seqb2 qualb2 (i0 :: ids) def2 out)
        (E ++ (s0 :: sq) ++ (e0 :: E) ++ [43%N] ++ q_plus l ++ (e0 :: E) ++ (q0 :: qs) ++ (e0 :: E) ++ q_blank l) =
    Some (mkfq 11%nat idb' defb' seqb' qualb' id' def'
               (mkrec (i0 :: ids) def2 (map lower (s0 :: sq)) (if withq then Some (unshift shift (q0 :: qs)) else None) None [] :: out))).
  { intros idb2 defb2 seqb2 qualb2 def2.
    rewrite fq_run_app, qrun_eols by auto.
    cbn [app fq_run]. unfold fq_step at 1. cbn [fq_s fq_idb fq_defb fq_seqb fq_qualb fq_id fq_def fq_out]. rewrite Hs0e.
    rewrite fq_run_app, qrun_seq by assumption.
    cbn [app fq_run]. rewrite qstep6_eol by (auto; destruct (rev (map lower sq)); discriminate).
    assert (Hsb : rev (rev (map lower sq) ++ [lower s0]) = map lower (s0 :: sq)) by (rewrite rev_app_distr, rev_involutive; reflexivity). rewrite Hsb.
    rewrite map_lower_idem.
    rewrite fq_run_app, qrun_eols by auto.
    cbn [app fq_run]. unfold fq_step at 1. cbn [fq_s fq_idb fq_defb fq_seqb fq_qualb fq_id fq_def fq_out].
    change (is_eol 43) with false. change (43 =? 43)%N with true. cbv iota.
    rewrite fq_run_app, qrun_plus by assumption.
    cbn [app fq_run]. unfold fq_step at 1. cbn [fq_s fq_idb fq_defb fq_seqb fq_qualb fq_id fq_def fq_out]. rewrite He0.
    rewrite fq_run_app, qrun_eols by auto.
    cbn [app fq_run]. unfold fq_step at 1. cbn [fq_s fq_idb fq_defb fq_seqb fq_qualb fq_id fq_def fq_out]. rewrite Hq0.
    rewrite fq_run_app, qrun_qual by assumption.
    assert (Hqb : rev (rev qs ++ [q0]) = q0 :: qs) by (rewrite rev_app_distr, rev_involutive; reflexivity).
    cbn [app fq_run]. rewrite qstep10_eol; [|exact He0|rewrite Hqb; discriminate|rewrite Hqb; exact Hqlen].
    cbn [rid rdef rseq rqual rtax rsci]. rewrite Hqb.
    do 6 eexists. rewrite fq_run_app, qrun_eols by auto. rewrite qrun_eols by auto. reflexivity. }
  destruct rdef0 as [|d0 d].
  - cbn [app fq_run]. unfold fq_step at 1. cbn [fq_s fq_idb fq_defb fq_seqb fq_qualb fq_id fq_def fq_out].
    rewrite He0, orb_true_r. rewrite Hidb.
    destruct (Htail (rev ids ++ [i0]) defb seqb qualb []) as (a1 & a2 & a3 & a4 & a5 & a6 & Hr).
    cbn [app] in *. rewrite Hr. try subst rqual0. repeat eexists.
  - destruct (q_sep l) as [|sp0 sps] eqn:Hls; [contradiction|]. inversion Hsep as [|? ? Hsp0 Hsps]; subst.
    rewrite <- !app_assoc. cbn [app fq_run]. unfold fq_step at 1. cbn [fq_s fq_idb fq_defb fq_seqb fq_qualb fq_id fq_def fq_out].
    assert (Hsp0e : is_eol sp0 = false).
    { unfold is_space in Hsp0. unfold is_eol. destruct (sp0 =? 10)%N eqn:E1; [apply N.eqb_eq in E1; subst sp0; discriminate|].
      destruct (sp0 =? 13)%N eqn:E2; [apply N.eqb_eq in E2; subst sp0; discriminate|]. reflexivity. }
    rewrite Hsp0, Hsp0e. cbn [orb]. rewrite Hidb.
    assert (Hsp3 : forall sps', Forall (fun c => is_space c = true) sps' ->
              run (mkfq 3%nat (rev ids ++ [i0]) defb seqb qualb (i0 :: ids) def out) sps' =
              Some (mkfq 3%nat (rev ids ++ [i0]) defb seqb qualb (i0 :: ids) def out)).
    { induction sps' as [|c sps' IHs]; intros Hf; [reflexivity|]. inversion Hf; subst.
      cbn [fq_run]. unfold fq_step at 1. cbn [fq_s fq_idb fq_defb fq_seqb fq_qualb fq_id fq_def fq_out].
      assert (Hce : is_eol c = false).
      { unfold is_space in H1. unfold is_eol. destruct (c =? 10)%N eqn:E1; [apply N.eqb_eq in E1; subst c; discriminate|].
        destruct (c =? 13)%N eqn:E2; [apply N.eqb_eq in E2; subst c; discriminate|]. reflexivity. }
      rewrite Hce, H1. cbn [negb]. apply IHs; assumption. }
    rewrite fq_run_app, (Hsp3 sps Hsps).
    inversion Hdef as [|? ? Hd0 Hd]; subst.
    cbn [app fq_run]. unfold fq_step at 1. cbn [fq_s fq_idb fq_defb fq_seqb fq_qualb fq_id fq_def fq_out].
    rewrite Hd0, (Hdef0 d0 d eq_refl). cbn [negb].
    rewrite fq_run_app, qrun_def by assumption.
    cbn [app fq_run]. unfold fq_step at 1. cbn [fq_s fq_idb fq_defb fq_seqb fq_qualb fq_id fq_def fq_out]. rewrite He0.
    assert (Hdb : rev (rev d ++ [d0]) = d0 :: d) by (rewrite rev_app_distr, rev_involutive; reflexivity). rewrite Hdb.
    destruct (Htail (rev ids ++ [i0]) (rev d ++ [d0]) seqb qualb (d0 :: d)) as (a1 & a2 & a3 & a4 & a5 & a6 & Hr).
    cbn [app] in *. rewrite Hr. try subst rqual0. repeat eexists.
Qed.

Lemma qrun_records : forall lrs s, Forall (valid_fq shift withq) lrs -> (fq_s s = 0%nat \/ fq_s s = 11%nat) ->
  exists s', run s (print_fastq lrs) = Some s' /\ (lrs <> [] -> fq_s s' = 11%nat) /\ fq_out s' = rev (map snd lrs) ++ fq_out s.
Proof.
  induction lrs as [|[l r] lrs IH]; intros s Hv Hs.
  - exists s. repeat split; auto. intros H; contradiction.
  - inversion Hv as [|? ? Hv1 Hv2]; subst.
    destruct s as [st idb defb seqb qualb id def out]. cbn [fq_s fq_out] in *.
    destruct (qrun_record l r idb defb seqb qualb id def out Hv1) as (a1 & a2 & a3 & a4 & a5 & a6 & Hr).
    destruct (IH (mkfq 11%nat a1 a2 a3 a4 a5 a6 (r :: out)) Hv2 (or_intror eq_refl)) as (s' & Hr' & Hst' & Ho').
    exists s'. split; [|split].
    + unfold print_fastq. cbn [map concat]. unfold print_fq at 1. cbn [app fq_run].
      assert (Hstep : step (mkfq st idb defb seqb qualb id def out) 64%N = Some (mkfq 1%nat idb defb seqb qualb id def out)).
      { destruct Hs as [Hs|Hs]; subst st; reflexivity. }
      rewrite Hstep. rewrite fq_run_app, Hr. exact Hr'.
    + intros _. destruct lrs as [|x lrs']; [|apply Hst'; discriminate].
      cbn in Hr'. inversion Hr'. reflexivity.
    + rewrite Ho'. cbn [fq_out map snd rev]. rewrite <- app_assoc. reflexivity.
Qed.

Theorem fastq_print_parse : forall lrs, lrs <> [] -> Forall (valid_fq shift withq) lrs ->
  fastq_parse shift withq (print_fastq lrs) = Some (map snd lrs) /\ fq_complete shift withq (print_fastq lrs).
Proof.
  intros lrs Hne Hv.
  destruct (qrun_records lrs fq_init Hv (or_introl eq_refl)) as (s' & Hr & Hst & Ho).
  cbn [fq_out fq_init] in Ho. rewrite app_nil_r in Ho. specialize (Hst Hne).
  split.
  - rewrite fastq_parse_flush, Hr. unfold fq_flush. rewrite Ho, Hst. cbn [Nat.eqb andb].
    destruct (rev (map snd lrs)) eqn:E.
    + apply (f_equal (@rev rec)) in E. rewrite rev_involutive in E. rewrite E. reflexivity.
    + rewrite <- E, rev_involutive. reflexivity.
  - exists s'. split; [exact Hr|right; exact Hst].
Qed.

Theorem read_fastq_printed : forall B lrs, (1 <= B)%nat -> lrs <> [] -> Forall (valid_fq shift withq) lrs ->
  exists l bs, chunker fastq_split B (print_fastq lrs) = Some l /\
    Forall2 (fun c b => fastq_parse shift withq (snd c) = Some b) l bs /\ concat bs = map snd lrs /\
    forall arr, Permutation arr (combine (map fst l) bs) -> out (Reseq.run arr) = bs /\ pend (Reseq.run arr) = [].
Proof.
  intros B lrs HB Hne Hv. destruct (fastq_print_parse lrs Hne Hv) as [Hp Hc].
  exact (read_fastq_any_order shift withq B _ _ HB Hp Hc).
Qed.
End FQP.

(** * Flat files with blank (LF) lines after the last "//" *)
Definition lfs (k : nat) : list N := repeat 10%N k.
Definition flat_inv2 (w : list N) : Prop :=
  (exists k, w = lfs k) \/ (exists p cr k, w = (p ++ flat_term cr) ++ lfs k /\ (cr = [] \/ cr = [13%N])).

Lemma all10_lfs : forall w, Forall (fun c => c = 10%N) w -> w = lfs (length w).
Proof. induction 1 as [|c w Hc Hw IH]; [reflexivity|]. cbn. subst c. f_equal. exact IH. Qed.
Lemma lfs_all10 : forall k, Forall (fun c => c = 10%N) (lfs k).
Proof. induction k; constructor; auto. Qed.
Lemma lfs_eol : forall k, Forall eolb (lfs k).
Proof. induction k; constructor; auto. reflexivity. Qed.

Lemma flat_inv2_eol : forall w, flat_inv2 w -> Forall eolb w -> exists k, w = lfs k.
Proof.
  intros w [H|(p & cr & k & Hw & Hcr)] Hall; [exact H|]. exfalso. subst w.
  apply Forall_app in Hall. destruct Hall as [Hall _]. eapply ends_term_not_eol; [|exact Hall]. exists p, cr. auto.
Qed.

Lemma flat_inv2_suffix : forall s0 w', flat_inv2 ((s0 ++ [10%N]) ++ w') -> flat_inv2 w'.
Proof.
  intros s0 w' [(k & Hk)|(p & cr & k & Hw & Hcr)].
  - left. exists (length w'). apply all10_lfs. pose proof (lfs_all10 k) as H. rewrite <- Hk in H.
    apply Forall_app in H. tauto.
  - apply app_eq_app in Hw. destruct Hw as (e & [[Ha Hb]|[Ha Hb]]).
    + left. exists (length w'). apply all10_lfs. pose proof (lfs_all10 k) as H. rewrite Hb in H. apply Forall_app in H. tauto.
    + assert (Het : ends_term ((s0 ++ [10%N]) ++ e)) by (exists p, cr; split; [symmetry; exact Ha|exact Hcr]).
      apply ends_term_suffix in Het. destruct Het as [He|(p' & cr' & He & Hcr')].
      * subst e. left. exists k. exact Hb.
      * right. exists p', cr', k. subst e. split; [exact Hb|exact Hcr'].
Qed.

Lemma strip_rev_all : forall r, Forall eolb r -> strip_rev r = [].
Proof. induction 1 as [|c r Hc Hr IH]; [reflexivity|]. cbn. unfold eolb in Hc. rewrite Hc. exact IH. Qed.
Lemma rstrip_all_eol : forall l, Forall eolb l -> rstrip_eol l = [].
Proof. intros l H. unfold rstrip_eol. rewrite strip_rev_all; [reflexivity|apply Forall_rev; exact H]. Qed.

Lemma strip_rev_app_eol : forall e r, Forall eolb e -> strip_rev (e ++ r) = strip_rev r.
Proof. induction 1 as [|c e Hc He IH]; [reflexivity|]. cbn. unfold eolb in Hc. rewrite Hc. exact IH. Qed.
Lemma rstrip_app_eol : forall l e, Forall eolb e -> rstrip_eol (l ++ e) = rstrip_eol l.
Proof. intros l e H. unfold rstrip_eol. rewrite rev_app_distr, strip_rev_app_eol; [reflexivity|apply Forall_rev; exact H]. Qed.

Section FlatRead2.
Variable tp : list N -> option (list rec).
Hypothesis tp_blank : forall k, tp (lfs k) = Some [].
Hypothesis tp_cut : forall p0 cr post, cr = [] \/ cr = [13%N] ->
  tp ((p0 ++ flat_end cr) ++ post) = opt_app (tp (p0 ++ flat_end cr)) (tp post)
  /\ tp (rstrip_eol (p0 ++ flat_end cr)) = tp (p0 ++ flat_end cr).
Hypothesis tp_strip_end2 : forall p cr k recs, cr = [] \/ cr = [13%N] ->
  tp ((p ++ flat_term cr) ++ lfs k) = Some recs -> tp (rstrip_eol (p ++ flat_term cr)) = Some recs.

Lemma flat_partition_records2 : forall i w l, partition flat_split i w l ->
  forall recs, tp w = Some recs -> flat_inv2 w -> parse_chunks tp l = Some recs.
Proof.
  induction 1 as [i w Hall|i seg w l Hall Hcut Hp IH|i seg w l Hne Hcut Hp IH|i seg Hne]; intros recs Hparse Hinv.
  - destruct (flat_inv2_eol _ Hinv Hall) as (k & Hk). subst w. rewrite tp_blank in Hparse. inversion Hparse. reflexivity.
  - destruct Hcut as [Hw|(x & y & Hw & Hs)].
    + subst w. rewrite app_nil_r in *. destruct (flat_inv2_eol _ Hinv Hall) as (k & Hk). subst seg.
      rewrite tp_blank in Hparse. inversion Hparse; subst recs. apply IH; [exact (tp_blank 0)|left; exists 0%nat; reflexivity].
    + exfalso. apply flat_split_sound in Hs. destruct Hs as (p0 & cr & post & Hb & Hcr & Hlen).
      destruct (app_eq_len _ _ _ _ Hb Hlen) as [Hseg _]. subst seg. eapply flat_end_not_eol; eauto.
  - destruct Hcut as [Hw|(x & y & Hw & Hs)].
    + subst w. rewrite app_nil_r in *. rewrite (partition_nil _ _ _ _ Hp eq_refl).
      cbn [parse_chunks fold_right snd].
      destruct Hinv as [(k & Hk)|(p & cr & k & Hs & Hcr)].
      * exfalso. apply Hne. subst seg. apply rstrip_all_eol. apply lfs_eol.
      * subst seg. rewrite rstrip_app_eol by apply lfs_eol. rewrite (tp_strip_end2 _ _ _ _ Hcr Hparse). cbn. rewrite app_nil_r. reflexivity.
    + apply flat_split_sound in Hs. destruct Hs as (p0 & cr & post & Hb & Hcr & Hlen).
      destruct (app_eq_len _ _ _ _ Hb Hlen) as [Hseg Hx]. subst seg x w.
      destruct (tp_cut p0 cr (post ++ y) Hcr) as [Hc1 Hc2]. rewrite Hc1 in Hparse.
      destruct (tp (p0 ++ flat_end cr)) as [r1|] eqn:H1; [|discriminate].
      destruct (tp (post ++ y)) as [r2|] eqn:H2; [|discriminate].
      cbn [parse_chunks fold_right snd]. rewrite Hc2.
      change (fold_right (fun c acc => opt_app (tp (snd c)) acc) (Some []) l) with (parse_chunks tp l).
      rewrite (IH r2 eq_refl); [exact Hparse|].
      unfold flat_end in Hinv.
      replace ((p0 ++ [10;47;47]%N ++ cr ++ [10%N]) ++ post ++ y) with (((p0 ++ [10;47;47]%N ++ cr) ++ [10%N]) ++ post ++ y) in Hinv
        by (repeat rewrite <- app_assoc; reflexivity).
      apply flat_inv2_suffix in Hinv. exact Hinv.
  - cbn [parse_chunks fold_right snd]. rewrite Hparse. cbn. rewrite app_nil_r. reflexivity.
Qed.

Theorem read_flat2 : forall B file recs, (1 <= B)%nat ->
  tp file = Some recs -> flat_inv2 file ->
  exists l, chunker flat_split B file = Some l /\ map fst l = seq 0 (length l) /\ parse_chunks tp l = Some recs.
Proof.
  intros B file recs HB Hp Hc.
  destruct (chunker_partition flat_split B B HB flat_split_range file) as (l & Hl & Hpart).
  exists l. split; [exact Hl|]. split; [eapply partition_numbers; eauto|]. eapply flat_partition_records2; eauto.
Qed.
End FlatRead2.

(* lines of LF-only text, and of a text followed by LF-only text *)
Lemma lines_lfs : forall lc k, lines_aux lc (lfs k) [] = repeat [] k.
Proof. induction k; [reflexivity|]. cbn. f_equal. exact IHk. Qed.

Lemma lines_term_lfs : forall lc p cr k, cr = [] \/ cr = [13%N] ->
  lines_aux lc ((p ++ flat_term cr) ++ lfs k) [] = lines_aux lc (p ++ flat_term cr) [] ++ repeat [] k.
Proof.
  intros lc p cr k Hcr. unfold flat_term.
  replace ((p ++ [47;47]%N ++ cr ++ [10%N]) ++ lfs k) with ((p ++ [47;47]%N ++ cr) ++ 10%N :: lfs k)
    by (repeat rewrite <- app_assoc; reflexivity).
  rewrite lines_aux_app_lf, lines_lfs. f_equal. f_equal. repeat rewrite <- app_assoc. reflexivity.
Qed.

(* blank lines never emit a record *)
Lemma gb_blank_out : forall s s', gb_line true s [] = Some s' -> gb_out s' = gb_out s.
Proof.
  intros [st id sci defb seqb tax o] s' H. unfold gb_line in H. cbn in H.
  destruct st as [|[|[|[|[|[|st]]]]]]; cbn in H; try discriminate; inversion H; reflexivity.
Qed.
Lemma gb_blanks_out : forall k s s', gb_run true s (repeat [] k) = Some s' -> gb_out s' = gb_out s.
Proof.
  induction k as [|k IH]; intros s s' H; cbn [repeat gb_run] in H; [inversion H; reflexivity|].
  destruct (gb_line true s []) as [s1|] eqn:H1; [|discriminate].
  rewrite (IH _ _ H). apply gb_blank_out. exact H1.
Qed.
Lemma gb_blanks_init : forall k, gb_run true gb_init (repeat [] k) = Some gb_init.
Proof. induction k; [reflexivity|]. cbn [repeat gb_run]. exact IHk. Qed.

Theorem read_genbank_blank : forall B file recs, (1 <= B)%nat ->
  genbank_parse file = Some recs -> flat_inv2 file ->
  exists l, chunker flat_split B file = Some l /\ map fst l = seq 0 (length l) /\ parse_chunks genbank_parse l = Some recs.
Proof.
  apply read_flat2.
  - intros k. unfold genbank_parse, genbank_parse_gen, lines_readline, genbank_parse_lines. rewrite lines_lfs, gb_blanks_init. reflexivity.
  - exact genbank_text_cut.
  - intros p cr k recs Hcr H. unfold genbank_parse, genbank_parse_gen, lines_readline in *.
    rewrite (rstrip_flat_term _ _ Hcr), <- (lines_flat_term _ _ _ _ Hcr).
    rewrite (lines_term_lfs _ _ _ _ Hcr) in H. unfold genbank_parse_lines in *. rewrite gb_run_app in H.
    destruct (gb_run true gb_init (lines_aux false (p ++ flat_term cr) [])) as [s1|]; [|discriminate].
    destruct (gb_run true s1 (repeat [] k)) as [s2|] eqn:H2; [|discriminate].
    rewrite <- (gb_blanks_out _ _ _ H2). exact H.
Qed.

Lemma em_blanks : forall k s, fold_left (em_line true) (repeat [] k) s = s.
Proof. induction k; intros s; [reflexivity|]. cbn [repeat fold_left]. change (em_line true s []) with s. apply IHk. Qed.

Theorem read_embl_blank : forall B file recs, (1 <= B)%nat ->
  embl_parse file = Some recs -> flat_inv2 file ->
  exists l, chunker flat_split B file = Some l /\ map fst l = seq 0 (length l) /\ parse_chunks embl_parse l = Some recs.
Proof.
  apply read_flat2.
  - intros k. unfold embl_parse, embl_parse_gen, lines_scanner, embl_parse_lines. rewrite lines_lfs, em_blanks. reflexivity.
  - exact embl_text_cut.
  - intros p cr k recs Hcr H. unfold embl_parse, embl_parse_gen, lines_scanner in *.
    rewrite (rstrip_flat_term _ _ Hcr), <- (lines_flat_term _ _ _ _ Hcr).
    rewrite (lines_term_lfs _ _ _ _ Hcr) in H. unfold embl_parse_lines in *. rewrite fold_left_app, em_blanks in H. exact H.
Qed.
