(** C01 (round 3) -- executable model of the glue around the chunk reader that the commands go through:
    a transport that FAILS (a genuine I/O error, not the end of the data) under ReadSeqFileChunk, and the
    peek-and-rebuild reader of OBIMimeTypeGuesser (universal_read.go).  Definitions only; proofs in Glue.v. *)
From Coq Require Import NArith ZArith List Bool Arith.
Import ListNotations.
From OBI.C01 Require Import Model.
Open Scope N_scope.

(** A source is the list of bytes it delivers and a flag: [fail = true] when it ends with an I/O error
    instead of io.EOF.  io.ReadFull over it: as [readfull], except that a short read reports the
    source's own error. *)
Inductive xerr := XNil | XEof | XUnexp | XIo.
Definition xof (fail : bool) (e : rerr) : xerr :=
  match e with ENil => XNil | EEof => if fail then XIo else XEof | EUnexp => if fail then XIo else XUnexp end.
Definition readfull_e (fail : bool) (n : nat) (rest : list N) : list N * list N * xerr :=
  let '(got, rest', e) := readfull n rest in (got, rest', xof fail e).

Section ChunkerE.
  Variable spl : list N -> option nat.
  Variable B : nat.
  Variable fail : bool.

  (* for end = splitter(buff); err == nil && end < 0; end = splitter(buff) { read B more bytes } *)
  Fixpoint extend_e (fuel : nat) (buff rest : list N) (err : xerr) : option (list N * list N * xerr * option nat) :=
    match err, spl buff with
    | XNil, None =>
      match fuel with
      | O => None
      | S f => let '(got, rest', err') := readfull_e fail B rest in extend_e f (buff ++ got) rest' err'
      end
    | _, e => Some (buff, rest, err, e)
    end.

  (* for err == nil { ... }; if err != nil && err != io.EOF && err != io.ErrUnexpectedEOF { log.Fatalf };
     then "send the last chunk".  Result: the chunks sent and whether the reader died (log.Fatalf). *)
  Fixpoint outer_e (fuel : nat) (buff rest : list N) (i : nat) : option (list (nat * list N) * bool) :=
    match fuel with
    | O => None
    | S f =>
      match extend_e (S (length rest)) buff rest XNil with
      | None => None
      | Some (buff1, rest1, err1, e) =>
        let '(sent, buff2, i2) := emit buff1 e i in
        match err1 with
        | XNil => match outer_e f buff2 rest1 i2 with Some (l, d) => Some (sent ++ l, d) | None => None end
        | XIo => Some (sent, true)
        | _ => Some (sent ++ match buff2 with [] => [] | _ => [(i2, buff2)] end, false)
        end
      end
    end.

  Definition chunker_e (data : list N) : option (list (nat * list N) * bool) :=
    let '(got, rest, err) := readfull_e fail B data in
    match err with
    | XEof => Some ([], false)
    | XIo => Some ([], true)
    | _ => outer_e (S (S (length data))) got rest 0
    end.
End ChunkerE.

(** OBIMimeTypeGuesser: io.ReadFull of G bytes, then
      err != nil && err != io.ErrUnexpectedEOF -> the error is returned;
      err == nil -> io.MultiReader(bytes.NewReader(buf[:n]), stream);  otherwise bytes.NewReader(buf[:n]).
    Result: the bytes the rebuilt reader delivers and whether it ends with the source's I/O error. *)
Definition guess (G : nat) (data : list N) (fail : bool) : option (list N * bool) :=
  let '(got, rest, e) := readfull_e fail G data in
  match e with
  | XNil => Some (got ++ rest, fail)
  | XUnexp => Some (got, false)
  | XEof | XIo => None
  end.

(** xopen.Buf on the (decompressed) bytes of an input: a leading UTF-8 byte-order mark EF BB BF is dropped
    (ReadRune / UnreadRune); [None] = ErrNoContent (the callers then deliver no record: ReadEmptyFile).
    [fixed = false]: before the repair of round 3 the mark was dropped without looking at what follows. *)
Definition bom : list N := [239; 187; 191].
Definition has_bom (d : list N) : bool :=
  match d with 239 :: 187 :: 191 :: _ => true | _ => false end.
Definition buf_open (fixed : bool) (d : list N) : option (list N) :=
  match d with
  | [] => None
  | _ => if has_bom d
         then (let r := skipn 3 d in if fixed then match r with [] => None | _ => Some r end else Some r)
         else Some d
  end.

(** ReadSequencesFromFile / ReadSequencesFromStdin up to the format reader: Ropen / Buf, then the guesser *)
Inductive opened := ONoContent | OError | OBytes (l : list N).
Definition open_guess (fixed : bool) (G : nat) (d : list N) : opened :=
  match buf_open fixed d with
  | None => ONoContent
  | Some r => match guess G r false with Some (l, _) => OBytes l | None => OError end
  end.

(** Correspondence cases of the glue *)
Inductive gcase :=
| GIoErr (fmt : nat) (file : list N) (failat : nat) (obs : list (nat * list (nat * nat * nat)))
    (* the transport fails after [failat] bytes; per buffer size: the chunks delivered before the reader died *)
| GGuess (G : nat) (file : list N) (failat : option nat) (obs : option (nat * bool))
    (* Some (n, same): the rebuilt reader delivered n bytes, [same] = they are the bytes of the file *)
| GBuf (data : list N) (obs : option (list N)).
    (* xopen.Buf over the (decompressed) data: None = ErrNoContent, Some l = the bytes the reader delivers *)

Definition gcase_ok (c : gcase) : bool :=
  match c with
  | GIoErr fmt file failat obs =>
    forallb (fun bo => match chunker_e (splitter_of fmt) (fst bo) true (firstn failat file) with
                       | Some (l, true) => all2 (chunk_agrees file) l (snd bo)
                       | _ => false end) obs
  | GGuess G file failat obs =>
    let '(data, fail) := match failat with Some k => (firstn k file, true) | None => (file, false) end in
    match guess G data fail, obs with
    | None, None => true
    | Some (l, _), Some (n, same) => Nat.eqb (length l) n && Bool.eqb (list_eqb l file) same
    | _, _ => false
    end
  | GBuf data obs => opt_eqb list_eqb (buf_open true data) obs
  end.

Fixpoint glue_mismatches_from (i : nat) (l : list gcase) : list nat :=
  match l with
  | [] => []
  | c :: l' => let rest := glue_mismatches_from (S i) l' in if gcase_ok c then rest else i :: rest
  end.
Definition glue_mismatches := glue_mismatches_from 0.
