(** C01 — executable model of the chunk reader, the record splitters and the chunk parsers of
    pkg/obiformats (seqfile_chunk_read.go, fastaseq_read.go, fastqseq_read.go, genbank_read.go,
    embl_read.go), transcribed from the Go source as repaired by the [fix:] commits of this
    property; the pre-repair behaviour is kept behind the flag [fixed = false] / the suffix [_orig]
    for the [_refuted] theorems.  Executable definitions only. *)
From Coq Require Import NArith ZArith List Bool Arith.
Import ListNotations.
Open Scope N_scope.

Definition byte := N.
Definition is_eol (c : N) : bool := (c =? 10) || (c =? 13).
Definition is_space (c : N) : bool := (c =? 32) || (c =? 9).
Definition is_sep (c : N) : bool := is_space c || is_eol c.
Definition is_upper (c : N) : bool := (65 <=? c) && (c <=? 90).
Definition lower (c : N) : N := if is_upper c then c + 32 else c.
(* (C >= 'a' && C <= 'z') || C == '-' || C == '.' || C == '[' || C == ']' *)
Definition is_seqlow (c : N) : bool := ((97 <=? c) && (c <=? 122)) || (c =? 45) || (c =? 46) || (c =? 91) || (c =? 93).
(* the same with upper case letters (FASTQ splitter) *)
Definition is_seqch (c : N) : bool := is_seqlow c || is_upper c.

Fixpoint list_eqb (a b : list N) : bool :=
  match a, b with
  | [], [] => true
  | x :: a', y :: b' => (x =? y) && list_eqb a' b'
  | _, _ => false
  end.

(** ** ReadSeqFileChunk *)

(* trailing CR/LF removed: for len(buff) > 0 && (buff[len-1] == '\n' || '\r') { buff = buff[:len-1] } *)
Fixpoint strip_rev (r : list N) : list N :=
  match r with
  | c :: r' => if is_eol c then strip_rev r' else r
  | [] => []
  end.
Definition rstrip_eol (l : list N) : list N := rev (strip_rev (rev l)).

(* io.ReadFull, by its documentation: exactly n bytes and nil, or fewer bytes and io.EOF (none read)
   / io.ErrUnexpectedEOF (some read); a read of 0 bytes succeeds *)
Inductive rerr := ENil | EEof | EUnexp.
Definition readfull (n : nat) (rest : list N) : list N * list N * rerr :=
  let got := firstn n rest in
  let rest' := skipn n rest in
  if Nat.eqb (length got) n then (got, rest', ENil)
  else match got with [] => (got, rest', EEof) | _ => (got, rest', EUnexp) end.

Section Chunker.
  Variable spl : list N -> option nat.     (* the splitter: None = -1 *)
  Variable B : nat.                         (* len(buff) = fileChunkSize *)
  Variable E : nat.                         (* size of the extension reads: B (repaired) / B-1 (original) *)

  (* for end = splitter(buff); err == nil && end < 0; end = splitter(buff) { read E more bytes } *)
  Fixpoint extend (fuel : nat) (buff rest : list N) (err : rerr) : option (list N * list N * rerr * option nat) :=
    match err, spl buff with
    | ENil, None =>
      match fuel with
      | O => None
      | S f => let '(got, rest', err') := readfull E rest in extend f (buff ++ got) rest' err'
      end
    | _, e => Some (buff, rest, err, e)
    end.

  (* body of the outer loop after the extension: the chunk sent (if any), the tail carried over, the next number *)
  Definition emit (buff1 : list N) (e : option nat) (i : nat) : list (nat * list N) * list N * nat :=
    match buff1 with
    | [] => ([], [], i)
    | _ => let cut := match e with Some c => c | None => length buff1 end in
           let body := rstrip_eol (firstn cut buff1) in
           let tail := skipn cut buff1 in
           match body with
           | [] => ([], tail, i)
           | _ => ([(i, body)], tail, S i)
           end
    end.

  (* for err == nil { ... } ; then "send the last chunk" *)
  Fixpoint outer (fuel : nat) (buff rest : list N) (i : nat) : option (list (nat * list N)) :=
    match fuel with
    | O => None
    | S f =>
      match extend (S (length rest)) buff rest ENil with
      | None => None
      | Some (buff1, rest1, err1, e) =>
        let '(sent, buff2, i2) := emit buff1 e i in
        match err1 with
        | ENil => match outer f buff2 rest1 i2 with Some l => Some (sent ++ l) | None => None end
        | _ => Some (sent ++ match buff2 with [] => [] | _ => [(i2, buff2)] end)
        end
      end
    end.

  (* None = the loop does not terminate (fuel exhausted) *)
  Definition chunker_fuel (fuel : nat) (file : list N) : option (list (nat * list N)) :=
    let '(got, rest, err) := readfull B file in
    match err with
    | EEof => Some []
    | _ => outer fuel got rest 0
    end.
  Definition chunker_gen (file : list N) := chunker_fuel (S (S (length file))) file.
End Chunker.

Definition chunker (spl : list N -> option nat) (B : nat) := chunker_gen spl B B.
Definition chunker_orig (spl : list N -> option nat) (B : nat) := chunker_gen spl B (pred B).

(** ** The three splitters: backward scans, written over the reversed buffer.
    [n] is the number of bytes not yet scanned, so the head of [r] is buffer[n-1]. *)

(* EndOfLastFastaEntry *)
Fixpoint fasta_scan (r : list N) (n : nat) (st1 : bool) (last : nat) : option nat :=
  match r with
  | [] => None
  | c :: r' =>
    let i := pred n in
    if (c =? 62) && negb st1 then fasta_scan r' i true i
    else if st1 && is_eol c then (if Nat.eqb i 1 then None else Some last)   (* "i == 0" after the decrement *)
    else fasta_scan r' i false last
  end.
Definition fasta_split (b : list N) : option nat := fasta_scan (rev b) (length b) false 0.

(* EndOfLastFastqEntry: states 1..6 of one attempt started at a '+'; Restart = "state = 0; i = restart" *)
Inductive tryres := Restart | Final (x : option nat).
Fixpoint fq_try (r : list N) (n : nat) (st : nat) (cut : nat) : tryres :=
  match r with
  | [] => Final None
  | c :: r' =>
    let i := pred n in
    match st with
    | 1%nat => if is_eol c then fq_try r' i 2%nat cut else Restart
    | 2%nat => if is_sep c then fq_try r' i 2%nat cut else if is_seqch c then fq_try r' i 3%nat cut else Restart
    | 3%nat => if is_eol c then fq_try r' i 4%nat cut else if is_seqch c then fq_try r' i 3%nat cut else Restart
    | 4%nat => if is_eol c then fq_try r' i 4%nat cut else fq_try r' i 5%nat cut
    | 5%nat => if is_eol c then Restart else if c =? 64 then fq_try r' i 6%nat i else fq_try r' i 5%nat cut
    | 6%nat => if is_eol c then (if Nat.eqb i 1 then Final None else Final (Some cut)) else fq_try r' i 5%nat cut
    | _ => Final None
    end
  end.
Fixpoint fq_scan (r : list N) (n : nat) : option nat :=
  match r with
  | [] => None
  | c :: r' =>
    let i := pred n in
    if c =? 43 then match fq_try r' i 1%nat 0%nat with Restart => fq_scan r' i | Final x => x end
    else fq_scan r' i
  end.
Definition fastq_split (b : list N) : option nat := fq_scan (rev b) (length b).

(* EndOfLastFlatFileEntry: <CR>?<LF>//<CR>?<LF> *)
Fixpoint flat_scan (r : list N) (n : nat) (st : nat) (start : nat) : option nat :=
  match r with
  | [] => None
  | c :: r' =>
    let i := pred n in
    match st with
    | 0%nat => flat_scan r' i (if c =? 10 then 1%nat else 0%nat) start
    | 1%nat => flat_scan r' i (if c =? 13 then 2%nat else if c =? 47 then 3%nat else if c =? 10 then 1%nat else 0%nat) (i + 2)%nat
    | 2%nat => flat_scan r' i (if c =? 47 then 3%nat else if c =? 10 then 1%nat else 0%nat) start
    | 3%nat => flat_scan r' i (if c =? 47 then 4%nat else if c =? 10 then 1%nat else 0%nat) start
    | _ => if c =? 10 then (if Nat.leb 2 i then Some start else None) else flat_scan r' i 0%nat start
    end
  end.
Definition flat_split (b : list N) : option nat := flat_scan (rev b) (length b) 0%nat 0%nat.

(** ** Records *)
Record rec := mkrec { rid : list N; rdef : list N; rseq : list N; rqual : option (list N); rtax : option Z; rsci : list N }.

(** ** FastaChunkParser: byte state machine. Buffers are kept reversed (WriteByte = cons). None = log.Fatalf / panic *)
Record fa_st := mkfa { fa_s : nat; fa_idb : list N; fa_defb : list N; fa_seqb : list N;
                       fa_id : list N; fa_def : list N; fa_prev : N; fa_out : list rec }.

Definition fa_emit (s : fa_st) : list rec :=
  mkrec (fa_id s) (fa_def s) (rev (fa_seqb s)) None None [] :: fa_out s.

Definition fa_step (s : fa_st) (C : N) : option fa_st :=
  let eol := is_eol C in let sp := is_space C in let sep := sp || eol in
  let set st idb defb seqb id def out := Some (mkfa st idb defb seqb id def C out) in
  match fa_s s with
  | 0%nat => if C =? 62 then set 1%nat (fa_idb s) (fa_defb s) (fa_seqb s) (fa_id s) (fa_def s) (fa_out s) else None
  | 1%nat => if sep then None else set 2%nat [C] (fa_defb s) (fa_seqb s) (fa_id s) (fa_def s) (fa_out s)
  | 2%nat => if sep then
               (if eol then set 5%nat [] (fa_defb s) (fa_seqb s) (rev (fa_idb s)) [] (fa_out s)
                else set 3%nat [] (fa_defb s) (fa_seqb s) (rev (fa_idb s)) (fa_def s) (fa_out s))
             else set 2%nat (C :: fa_idb s) (fa_defb s) (fa_seqb s) (fa_id s) (fa_def s) (fa_out s)
  | 3%nat => if eol then set 5%nat (fa_idb s) (fa_defb s) (fa_seqb s) (fa_id s) [] (fa_out s)
             else if negb sp then set 4%nat (fa_idb s) [C] (fa_seqb s) (fa_id s) (fa_def s) (fa_out s)
             else set 3%nat (fa_idb s) (fa_defb s) (fa_seqb s) (fa_id s) (fa_def s) (fa_out s)
  | 4%nat => if eol then set 5%nat (fa_idb s) (fa_defb s) (fa_seqb s) (fa_id s) (rev (fa_defb s)) (fa_out s)
             else set 4%nat (fa_idb s) (C :: fa_defb s) (fa_seqb s) (fa_id s) (fa_def s) (fa_out s)
  | 5%nat => if eol then set 5%nat (fa_idb s) (fa_defb s) (fa_seqb s) (fa_id s) (fa_def s) (fa_out s)
             else let c := lower C in
                  if is_seqlow c then Some (mkfa 6%nat (fa_idb s) (fa_defb s) [c] (fa_id s) (fa_def s) c (fa_out s)) else None
  | 6%nat => if C =? 62 then
               (if is_eol (fa_prev s) then
                  match fa_seqb s with [] => None | _ => set 1%nat (fa_idb s) (fa_defb s) (fa_seqb s) (fa_id s) (fa_def s) (fa_emit s) end
                else None)
             else if negb sep then
               let c := lower C in
               if is_seqlow c then Some (mkfa 6%nat (fa_idb s) (fa_defb s) (c :: fa_seqb s) (fa_id s) (fa_def s) c (fa_out s)) else None
             else set 6%nat (fa_idb s) (fa_defb s) (fa_seqb s) (fa_id s) (fa_def s) (fa_out s)
  | _ => None
  end.

Fixpoint fa_run (s : fa_st) (l : list N) : option fa_st :=
  match l with
  | [] => Some s
  | c :: l' => match fa_step s c with Some s' => fa_run s' l' | None => None end
  end.

Definition fa_init : fa_st := mkfa 0%nat [] [] [] [] [] 0 [].

Definition fasta_parse (text : list N) : option (list rec) :=
  match text with
  | c0 :: c1 :: _ =>
    if negb (c0 =? 62) then None          (* first character is not '>' *)
    else if c1 =? 32 then None            (* "Strange" *)
    else match fa_run fa_init text with
         | None => None
         | Some s => if Nat.eqb (fa_s s) 6 then
                       match fa_seqb s with [] => None | _ => Some (rev (fa_emit s)) end
                     else Some (rev (fa_out s))
         end
  | _ => None                             (* start[0] / start[1] out of range *)
  end.

(** ** FastqChunkParser *)
Record fq_st := mkfq { fq_s : nat; fq_idb : list N; fq_defb : list N; fq_seqb : list N; fq_qualb : list N;
                       fq_id : list N; fq_def : list N; fq_out : list rec }.

(* _storeSequenceQuality on sequences[len-1] *)
Definition fq_store (shift : N) (qualb : list N) (out : list rec) : option (list rec) :=
  match out with
  | [] => None
  | r :: out' =>
    let q := rev qualb in
    match q with
    | [] => None
    | _ => if Nat.eqb (length q) (length (rseq r))
           then Some (mkrec (rid r) (rdef r) (rseq r) (Some (map (fun x => (x + 256 - shift) mod 256) q)) (rtax r) (rsci r) :: out')
           else None
    end
  end.

Definition fq_step (shift : N) (withq : bool) (s : fq_st) (C : N) : option fq_st :=
  let eol := is_eol C in let sp := is_space C in let sep := sp || eol in
  let keep st := Some (mkfq st (fq_idb s) (fq_defb s) (fq_seqb s) (fq_qualb s) (fq_id s) (fq_def s) (fq_out s)) in
  match fq_s s with
  | 0%nat => if C =? 64 then keep 1%nat else None
  | 1%nat => if sep then None else Some (mkfq 2%nat [C] (fq_defb s) (fq_seqb s) (fq_qualb s) (fq_id s) (fq_def s) (fq_out s))
  | 2%nat => if sep then
               (if eol then Some (mkfq 5%nat (fq_idb s) (fq_defb s) (fq_seqb s) (fq_qualb s) (rev (fq_idb s)) [] (fq_out s))
                else Some (mkfq 3%nat (fq_idb s) (fq_defb s) (fq_seqb s) (fq_qualb s) (rev (fq_idb s)) (fq_def s) (fq_out s)))
             else Some (mkfq 2%nat (C :: fq_idb s) (fq_defb s) (fq_seqb s) (fq_qualb s) (fq_id s) (fq_def s) (fq_out s))
  | 3%nat => if eol then Some (mkfq 5%nat (fq_idb s) (fq_defb s) (fq_seqb s) (fq_qualb s) (fq_id s) [] (fq_out s))
             else if negb sp then Some (mkfq 4%nat (fq_idb s) [C] (fq_seqb s) (fq_qualb s) (fq_id s) (fq_def s) (fq_out s))
             else keep 3%nat
  | 4%nat => if eol then Some (mkfq 5%nat (fq_idb s) (fq_defb s) (fq_seqb s) (fq_qualb s) (fq_id s) (rev (fq_defb s)) (fq_out s))
             else Some (mkfq 4%nat (fq_idb s) (C :: fq_defb s) (fq_seqb s) (fq_qualb s) (fq_id s) (fq_def s) (fq_out s))
  | 5%nat => if eol then keep 5%nat
             else Some (mkfq 6%nat (fq_idb s) (fq_defb s) [lower C] (fq_qualb s) (fq_id s) (fq_def s) (fq_out s))
  | 6%nat => if eol then
               match fq_seqb s with
               | [] => None
               | _ => Some (mkfq 7%nat (fq_idb s) (fq_defb s) (fq_seqb s) (fq_qualb s) (fq_id s) (fq_def s)
                                 (mkrec (fq_id s) (fq_def s) (map lower (rev (fq_seqb s))) None None [] :: fq_out s))
               end
             else let c := lower C in
                  if is_seqlow c then Some (mkfq 6%nat (fq_idb s) (fq_defb s) (c :: fq_seqb s) (fq_qualb s) (fq_id s) (fq_def s) (fq_out s))
                  else None
  | 7%nat => if eol then keep 7%nat else if C =? 43 then keep 8%nat else None
  | 8%nat => if eol then keep 9%nat else keep 8%nat
  | 9%nat => if eol then keep 9%nat
             else Some (mkfq 10%nat (fq_idb s) (fq_defb s) (fq_seqb s) [C] (fq_id s) (fq_def s) (fq_out s))
  | 10%nat => if eol then
                (if withq then
                   match fq_store shift (fq_qualb s) (fq_out s) with
                   | Some out' => Some (mkfq 11%nat (fq_idb s) (fq_defb s) (fq_seqb s) (fq_qualb s) (fq_id s) (fq_def s) out')
                   | None => None
                   end
                 else keep 11%nat)
              else Some (mkfq 10%nat (fq_idb s) (fq_defb s) (fq_seqb s) (C :: fq_qualb s) (fq_id s) (fq_def s) (fq_out s))
  | 11%nat => if eol then keep 11%nat else if C =? 64 then keep 1%nat else None
  | _ => None
  end.

Fixpoint fq_run (shift : N) (withq : bool) (s : fq_st) (l : list N) : option fq_st :=
  match l with
  | [] => Some s
  | c :: l' => match fq_step shift withq s c with Some s' => fq_run shift withq s' l' | None => None end
  end.

Definition fq_init : fq_st := mkfq 0%nat [] [] [] [] [] [] [].

(* [fixed = false]: the end-of-input flush stores the qualities of the last record even when
   qualities are not read (with_quality = false) *)
Definition fastq_parse_gen (fixed : bool) (shift : N) (withq : bool) (text : list N) : option (list rec) :=
  match fq_run shift withq fq_init text with
  | None => None
  | Some s =>
    match fq_out s with
    | [] => Some []
    | _ => if Nat.eqb (fq_s s) 10 && (withq || negb fixed)
           then match fq_store shift (fq_qualb s) (fq_out s) with Some out' => Some (rev out') | None => None end
           else Some (rev (fq_out s))
    end
  end.
Definition fastq_parse := fastq_parse_gen true.
Definition fastq_parse_orig := fastq_parse_gen false.

(** ** Lines (bufio.Reader.ReadLine / bufio.Scanner with ScanLines) *)
Definition drop_cr (rl : list N) : list N :=      (* rl = the line reversed *)
  match rl with 13 :: rl' => rl' | _ => rl end.
(* cur = current line reversed. [lastcr]: the final unterminated line also loses its CR (Scanner) *)
Fixpoint lines_aux (lastcr : bool) (l : list N) (cur : list N) : list (list N) :=
  match l with
  | [] => match cur with [] => [] | _ => [rev (if lastcr then drop_cr cur else cur)] end
  | c :: l' => if c =? 10 then rev (drop_cr cur) :: lines_aux lastcr l' [] else lines_aux lastcr l' (c :: cur)
  end.
Definition lines_readline (l : list N) := lines_aux false l [].
Definition lines_scanner (l : list N) := lines_aux true l [].

Fixpoint has_prefix (p l : list N) : bool :=
  match p, l with
  | [], _ => true
  | x :: p', y :: l' => (x =? y) && has_prefix p' l'
  | _, [] => false
  end.
Definition is_tspace (c : N) : bool := (c =? 32) || ((9 <=? c) && (c <=? 13)).
Fixpoint ltrim (l : list N) : list N := match l with c :: l' => if is_tspace c then ltrim l' else l | [] => [] end.
Definition trim_space (l : list N) : list N := rev (ltrim (rev (ltrim l))).
(* strings.SplitN(s, sep, n)[0] for n >= 2 *)
Fixpoint upto (sep : N) (l : list N) : list N :=
  match l with [] => [] | c :: l' => if c =? sep then [] else c :: upto sep l' end.
(* strings.SplitN(s, " ", n): cut at the first n-1 separators *)
Fixpoint splitn (n : nat) (sep : N) (l : list N) (cur : list N) : list (list N) :=
  match l with
  | [] => [rev cur]
  | c :: l' => match n with
               | S (S n') => if c =? sep then rev cur :: splitn (S n') sep l' [] else splitn n sep l' (c :: cur)
               | _ => [rev cur ++ l]
               end
  end.
Definition spaces (n : nat) : list N := repeat 32 n.
(* strconv.Atoi, value only (0 on a syntax error); optional sign *)
Fixpoint digits (l : list N) (acc : Z) : option Z :=
  match l with
  | [] => Some acc
  | c :: l' => if (48 <=? c) && (c <=? 57) then digits l' (acc * 10 + Z.of_N (c - 48))%Z else None
  end.
Definition digits0 (l : list N) : Z :=
  match l with [] => 0%Z | _ => match digits l 0%Z with Some v => v | None => 0%Z end end.
Definition atoi (l : list N) : Z :=
  match l with
  | 43 :: d => digits0 d
  | 45 :: d => (- digits0 d)%Z
  | _ => digits0 l
  end.

Definition s_LOCUS := [76;79;67;85;83;32;32;32;32;32;32;32].                (* "LOCUS       " *)
Definition s_DEFINITION := [68;69;70;73;78;73;84;73;79;78;32;32].          (* "DEFINITION  " *)
Definition s_SOURCE := [83;79;85;82;67;69;32;32;32;32;32;32].              (* "SOURCE      " *)
Definition s_FEATURES := [70;69;65;84;85;82;69;83;32;32;32;32].            (* "FEATURES    " *)
Definition s_ORIGIN := [79;82;73;71;73;78].
Definition s_CONTIG := [67;79;78;84;73;71].
Definition s_end := [47;47].
Definition s_xref := [47;100;98;95;120;114;101;102;61;34;116;97;120;111;110;58].   (* /db_xref= quote taxon: *)
Definition s_gb_xref := spaces 21 ++ s_xref.
Definition s_embl_xref := [70;84] ++ spaces 19 ++ s_xref.

(** ** GenbankChunkParser (withFeatureTable = false), line level.
    states: 0 inHeader, 1 inEntry, 2 inDefinition, 3 inFeature, 4 inSequence, 5 inContig *)
Record gb_st := mkgb { gb_s : nat; gb_id : list N; gb_sci : list N; gb_defb : list N; gb_seqb : list N;
                       gb_tax : Z; gb_out : list rec }.
Definition gb_init : gb_st := mkgb 0%nat [] [] [] [] 1%Z [].
Definition flat_rec (id def seq sci : list N) (tax : Z) : rec := mkrec id def (map lower seq) None (Some tax) sci.

(* one pass of the "for !processed" switch; the only re-entry is inDefinition -> inEntry, hence [again] *)
Definition gb_line (fixed : bool) (s : gb_st) (line : list N) : option gb_st :=
  let st := gb_s s in
  let upd st' := Some (mkgb st' (gb_id s) (gb_sci s) (gb_defb s) (gb_seqb s) (gb_tax s) (gb_out s)) in
  let body (st : nat) :=
    if has_prefix s_SOURCE line then
      (if Nat.eqb st 1 then Some (mkgb st (gb_id s) (trim_space (skipn 12 line)) (gb_defb s) (gb_seqb s) (gb_tax s) (gb_out s)) else None)
    else if has_prefix s_FEATURES line then (if Nat.eqb st 1 then upd 3%nat else None)
    else if has_prefix s_ORIGIN line then (if Nat.eqb st 3 then upd 4%nat else None)
    else if has_prefix s_CONTIG line then (if Nat.eqb st 3 || Nat.eqb st 5 then upd 5%nat else None)
    else if list_eqb line s_end then
      (if Nat.eqb st 4 || Nat.eqb st 5 then
         let r := flat_rec (gb_id s) (gb_defb s) (gb_seqb s) (gb_sci s) (gb_tax s) in
         if fixed then Some (mkgb 0%nat [] [] [] [] 1%Z (r :: gb_out s))
         else Some (mkgb 0%nat (gb_id s) (gb_sci s) [] (gb_seqb s) (gb_tax s) (r :: gb_out s))
       else None)
    else if Nat.eqb st 4 then
      (if Nat.ltb (length line) 10 then None     (* line[10:] out of range *)
       else Some (mkgb st (gb_id s) (gb_sci s) (gb_defb s) (gb_seqb s ++ concat (splitn 6 32 (skipn 10 line) [])) (gb_tax s) (gb_out s)))
    else if Nat.eqb st 3 then
      (if has_prefix s_gb_xref line
       then Some (mkgb st (gb_id s) (gb_sci s) (gb_defb s) (gb_seqb s) (atoi (upto 34 (skipn 37 line))) (gb_out s))
       else upd st)
    else if Nat.eqb st 0 || Nat.eqb st 1 || Nat.eqb st 5 then upd st
    else None in
  if Nat.ltb 100 (length line) then None          (* Line too long *)
  else if has_prefix s_LOCUS line then
    (if Nat.eqb st 0 then Some (mkgb 1%nat (upto 32 (skipn 12 line)) (gb_sci s) (gb_defb s) [] (gb_tax s) (gb_out s)) else None)
  else if has_prefix s_DEFINITION line then
    (if Nat.eqb st 1 then Some (mkgb 2%nat (gb_id s) (gb_sci s) (gb_defb s ++ trim_space (skipn 12 line)) (gb_seqb s) (gb_tax s) (gb_out s)) else None)
  else if Nat.eqb st 2 then
    (if has_prefix (spaces 12) line
     then Some (mkgb 2%nat (gb_id s) (gb_sci s) (gb_defb s ++ 32 :: trim_space (skipn 12 line)) (gb_seqb s) (gb_tax s) (gb_out s))
     else body 1%nat)                              (* state = inEntry; the line is examined again *)
  else body st.

Fixpoint gb_run (fixed : bool) (s : gb_st) (ls : list (list N)) : option gb_st :=
  match ls with
  | [] => Some s
  | l :: ls' => match gb_line fixed s l with Some s' => gb_run fixed s' ls' | None => None end
  end.
Definition genbank_parse_lines (fixed : bool) (ls : list (list N)) : option (list rec) :=
  match gb_run fixed gb_init ls with Some s => Some (rev (gb_out s)) | None => None end.
Definition genbank_parse_gen (fixed : bool) (text : list N) := genbank_parse_lines fixed (lines_readline text).
Definition genbank_parse := genbank_parse_gen true.
Definition genbank_parse_orig := genbank_parse_gen false.

(** ** EmblChunkParser (withFeatureTable = false), line level *)
Record em_st := mkem { em_id : list N; em_sci : list N; em_defb : list N; em_seqb : list N; em_tax : Z; em_out : list rec }.
Definition em_init : em_st := mkem [] [] [] [] 1%Z [].
Definition s_ID := [73;68;32;32;32].
Definition s_OS := [79;83;32;32;32].
Definition s_DE := [68;69;32;32;32].
Definition s_FT := [70;84;32;32;32].

Definition em_line (fixed : bool) (s : em_st) (line : list N) : em_st :=
  if has_prefix s_ID line then mkem (upto 59 (skipn 5 line)) (em_sci s) (em_defb s) (em_seqb s) (em_tax s) (em_out s)
  else if has_prefix s_OS line then mkem (em_id s) (trim_space (skipn 5 line)) (em_defb s) (em_seqb s) (em_tax s) (em_out s)
  else if has_prefix s_DE line then
    mkem (em_id s) (em_sci s) ((match em_defb s with [] => [] | d => d ++ [32] end) ++ trim_space (skipn 5 line)) (em_seqb s) (em_tax s) (em_out s)
  else if has_prefix s_FT line then
    (if has_prefix s_embl_xref line
     then mkem (em_id s) (em_sci s) (em_defb s) (em_seqb s) (atoi (upto 34 (skipn 37 line))) (em_out s)
     else s)
  else if has_prefix (spaces 5) line then
    mkem (em_id s) (em_sci s) (em_defb s) (em_seqb s ++ concat (removelast (splitn 7 32 (skipn 5 line) []))) (em_tax s) (em_out s)
  else if list_eqb line s_end then
    let r := flat_rec (em_id s) (em_defb s) (em_seqb s) (em_sci s) (em_tax s) in
    if fixed then mkem [] [] [] [] 1%Z (r :: em_out s)
    else mkem (em_id s) (em_sci s) [] [] (em_tax s) (r :: em_out s)
  else s.

Definition embl_parse_lines (fixed : bool) (ls : list (list N)) : list rec :=
  rev (em_out (fold_left (em_line fixed) ls em_init)).
Definition embl_parse_gen (fixed : bool) (text : list N) : option (list rec) := Some (embl_parse_lines fixed (lines_scanner text)).
Definition embl_parse := embl_parse_gen true.
Definition embl_parse_orig := embl_parse_gen false.

(** ** Correspondence cases *)
Definition opt_eqb {A} (eqb : A -> A -> bool) (a b : option A) : bool :=
  match a, b with Some x, Some y => eqb x y | None, None => true | _, _ => false end.
Definition rec_eqb (a b : rec) : bool :=
  list_eqb (rid a) (rid b) && list_eqb (rdef a) (rdef b) && list_eqb (rseq a) (rseq b) &&
  opt_eqb list_eqb (rqual a) (rqual b) && opt_eqb Z.eqb (rtax a) (rtax b) && list_eqb (rsci a) (rsci b).
Fixpoint all2 {A B} (f : A -> B -> bool) (a : list A) (b : list B) : bool :=
  match a, b with
  | [], [] => true
  | x :: a', y :: b' => f x y && all2 f a' b'
  | _, _ => false
  end.

Definition splitter_of (fmt : nat) : list N -> option nat :=
  match fmt with 0%nat => fasta_split | 1%nat => fastq_split | _ => flat_split end.
Definition parser_of (fmt : nat) (shift : N) (withq : bool) : list N -> option (list rec) :=
  match fmt with 0%nat => fasta_parse | 1%nat => fastq_parse shift withq | 2%nat => genbank_parse | _ => embl_parse end.

Inductive ccase :=
| CSweep (fmt : nat) (file : list N) (obs : list (nat * list (nat * nat * nat)))   (* B, [(order, start, len)] *)
| CParse (fmt : nat) (shift : N) (withq : bool) (text : list N) (obs : option (list rec))
| CSplit (fmt : nat) (buf : list N) (obs : option nat)
| CReadFull (data : list N) (n1 n2 : nat) (o1 o2 : nat * rerr).   (* two successive io.ReadFull: bytes read, error *)

Definition rerr_eqb (a b : rerr) : bool :=
  match a, b with ENil, ENil | EEof, EEof | EUnexp, EUnexp => true | _, _ => false end.
Definition chunk_agrees (file : list N) (m : nat * list N) (o : nat * nat * nat) : bool :=
  let '(ord, st, len) := o in Nat.eqb (fst m) ord && list_eqb (snd m) (firstn len (skipn st file)).

Definition case_ok (c : ccase) : bool :=
  match c with
  | CSweep fmt file obs =>
    forallb (fun bo => match chunker (splitter_of fmt) (fst bo) file with
                       | Some l => all2 (chunk_agrees file) l (snd bo)
                       | None => false end) obs
  | CParse fmt shift withq text obs => opt_eqb (all2 rec_eqb) (parser_of fmt shift withq text) obs
  | CSplit fmt buf obs => opt_eqb Nat.eqb (splitter_of fmt buf) obs
  | CReadFull data n1 n2 o1 o2 =>
    let '(g1, r1, e1) := readfull n1 data in
    let '(g2, r2, e2) := readfull n2 r1 in
    Nat.eqb (length g1) (fst o1) && rerr_eqb e1 (snd o1) && Nat.eqb (length g2) (fst o2) && rerr_eqb e2 (snd o2)
  end.

Fixpoint mismatches_from (i : nat) (l : list ccase) : list nat :=
  match l with
  | [] => []
  | c :: l' => let rest := mismatches_from (S i) l' in if case_ok c then rest else i :: rest
  end.
Definition mismatches := mismatches_from 0.

(** * Transports: io.ReadFull (io.ReadAtLeast) over ANY io.Reader delivering the same bytes
    One call of Read on a reader over [data]: at most [want] bytes, at most [max 1 k] bytes (short reads
    decided by the schedule), io.EOF alone when nothing is left, or together with the last bytes when
    the schedule says so (iotest.DataErrReader). *)
Definition rd_read (want k : nat) (eofnow : bool) (data : list N) : list N * list N * bool :=
  match data with
  | [] => ([], [], true)
  | _ => let m := Nat.min want (Nat.max 1 k) in
         let rest := skipn m data in
         (firstn m data, rest, match rest with [] => eofnow | _ => false end)
  end.

(* for n < min && err == nil { nn, err = r.Read(buf[n:]); n += nn }
   if n >= min { err = nil } else if n > 0 && err == EOF { err = ErrUnexpectedEOF } *)
Fixpoint read_at_least (fuel : nat) (sched : list (nat * bool)) (min : nat) (acc data : list N) : option (list N * list N * rerr) :=
  if Nat.leb min (length acc) then Some (acc, data, ENil)
  else match fuel with
       | O => None
       | S f =>
         let '(k, e) := hd (1%nat, false) sched in
         let '(got, rest, eof) := rd_read (min - length acc) k e data in
         let acc' := acc ++ got in
         if eof then Some (acc', rest, if Nat.leb min (length acc') then ENil else match acc' with [] => EEof | _ => EUnexp end)
         else read_at_least f (tl sched) min acc' rest
       end.

