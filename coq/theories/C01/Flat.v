(** C01 -- flat files (GenBank / EMBL), round 2: any CR/LF bytes after the last "//" line; printer specifications
    [print_gb] / [print_embl] (multi-line DEFINITION / DE, header lines, SOURCE / OS, feature table with or without
    /db_xref="taxon:N", ORIGIN / sequence blocks with numbering, upper / lower / mixed case nucleotides, LF or CR LF per
    record, empty lines after any "//") and their round trips through the chunk parsers and the whole reader. *)
From Coq Require Import NArith ZArith List Bool Arith Lia Permutation.
Import ListNotations.
From OBI.C01 Require Import Model Proofs FlatModel.
From OBI.Common Require Import Reseq.
Open Scope N_scope.

(** * Flat files followed by ANY CR/LF bytes after the last "//" line (LF, CR LF, stray CR) *)
Definition flat_inv3 (w : list N) : Prop :=
  Forall eolb w \/ (exists p cr t, w = (p ++ flat_term cr) ++ t /\ (cr = [] \/ cr = [13%N]) /\ Forall eolb t).

Lemma flat_inv3_eol : forall w, flat_inv3 w -> Forall eolb w -> Forall eolb w.
Proof. auto. Qed.

Lemma flat_inv3_suffix : forall s0 w', flat_inv3 ((s0 ++ [10%N]) ++ w') -> flat_inv3 w'.
Proof.
  intros s0 w' [Hall|(p & cr & t & Hw & Hcr & Ht)].
  - left. apply Forall_app in Hall. tauto.
  - apply app_eq_app in Hw. destruct Hw as (e & [[Ha Hb]|[Ha Hb]]).
    + left. rewrite Hb in Ht. apply Forall_app in Ht. tauto.
    + assert (Het : ends_term ((s0 ++ [10%N]) ++ e)) by (exists p, cr; split; [symmetry; exact Ha|exact Hcr]).
      apply ends_term_suffix in Het. destruct Het as [He|(p' & cr' & He & Hcr')].
      * subst e. left. rewrite Hb. exact Ht.
      * right. exists p', cr', t. subst e. split; [exact Hb|split; [exact Hcr'|exact Ht]].
Qed.

Section FlatRead3.
Variable tp : list N -> option (list rec).
Hypothesis tp_nil : tp [] = Some [].
Hypothesis tp_blank : forall w recs, Forall eolb w -> tp w = Some recs -> recs = [].
Hypothesis tp_cut : forall p0 cr post, cr = [] \/ cr = [13%N] ->
  tp ((p0 ++ flat_end cr) ++ post) = opt_app (tp (p0 ++ flat_end cr)) (tp post)
  /\ tp (rstrip_eol (p0 ++ flat_end cr)) = tp (p0 ++ flat_end cr).
Hypothesis tp_strip_end3 : forall p cr t recs, cr = [] \/ cr = [13%N] -> Forall eolb t ->
  tp ((p ++ flat_term cr) ++ t) = Some recs -> tp (rstrip_eol (p ++ flat_term cr)) = Some recs.

Lemma flat_partition_records3 : forall i w l, partition flat_split i w l ->
  forall recs, tp w = Some recs -> flat_inv3 w -> parse_chunks tp l = Some recs.
Proof.
  induction 1 as [i w Hall|i seg w l Hall Hcut Hp IH|i seg w l Hne Hcut Hp IH|i seg Hne]; intros recs Hparse Hinv.
  - rewrite (tp_blank _ _ Hall Hparse). reflexivity.
  - destruct Hcut as [Hw|(x & y & Hw & Hs)].
    + subst w. rewrite app_nil_r in *. rewrite (tp_blank _ _ Hall Hparse). apply IH; [exact tp_nil|left; constructor].
    + exfalso. apply flat_split_sound in Hs. destruct Hs as (p0 & cr & post & Hb & Hcr & Hlen).
      destruct (app_eq_len _ _ _ _ Hb Hlen) as [Hseg _]. subst seg. eapply flat_end_not_eol; eauto.
  - destruct Hcut as [Hw|(x & y & Hw & Hs)].
    + subst w. rewrite app_nil_r in *. rewrite (partition_nil _ _ _ _ Hp eq_refl).
      cbn [parse_chunks fold_right snd].
      destruct Hinv as [Hall|(p & cr & t & Hs & Hcr & Ht)].
      * exfalso. apply Hne. apply rstrip_all_eol. exact Hall.
      * subst seg. rewrite rstrip_app_eol by exact Ht. rewrite (tp_strip_end3 _ _ _ _ Hcr Ht Hparse). cbn. rewrite app_nil_r. reflexivity.
    + apply flat_split_sound in Hs. destruct Hs as (p0 & cr & post & Hb & Hcr & Hlen).
      destruct (app_eq_len _ _ _ _ Hb Hlen) as [Hseg Hx]. subst seg x w.
      destruct (tp_cut p0 cr (post ++ y) Hcr) as [Hc1 Hc2]. rewrite Hc1 in Hparse.
      destruct (tp (p0 ++ flat_end cr)) as [r1|] eqn:H1; [|discriminate].
      destruct (tp (post ++ y)) as [r2|] eqn:H2; [|discriminate].
      cbn [parse_chunks fold_right snd]. rewrite Hc2.
      change (fold_right (fun c acc => opt_app (tp (snd c)) acc) (Some []) l) with (parse_chunks tp l).
      rewrite (IH r2 eq_refl); [exact Hparse|].
      unfold flat_end in Hinv.
      replace ((p0 ++ [10;47;47]%N ++ cr ++ [10%N]) ++ post ++ y) with (((p0 ++ [10;47;47]%N ++ cr) ++ [10%N]) ++ post ++ y) in Hinv
        by (repeat rewrite <- app_assoc; reflexivity).
      apply flat_inv3_suffix in Hinv. exact Hinv.
  - cbn [parse_chunks fold_right snd]. rewrite Hparse. cbn. rewrite app_nil_r. reflexivity.
Qed.

Theorem read_flat3 : forall B file recs, (1 <= B)%nat ->
  tp file = Some recs -> flat_inv3 file ->
  exists l, chunker flat_split B file = Some l /\ map fst l = seq 0 (length l) /\ parse_chunks tp l = Some recs.
Proof.
  intros B file recs HB Hp Hc.
  destruct (chunker_partition flat_split B B HB flat_split_range file) as (l & Hl & Hpart).
  exists l. split; [exact Hl|]. split; [eapply partition_numbers; eauto|]. eapply flat_partition_records3; eauto.
Qed.
End FlatRead3.

(** lines of a CR/LF-only text: every line consists of CR bytes only *)
Definition cr_only (l : list N) : Prop := Forall (fun c => c = 13%N) l.

Lemma drop_cr_cr_only : forall l, cr_only l -> cr_only (drop_cr l).
Proof. intros l H. destruct H as [|c l Hc Hl]; [constructor|]. subst c. exact Hl. Qed.

Lemma lines_eols : forall lc w cur, Forall eolb w -> cr_only cur -> Forall cr_only (lines_aux lc w cur).
Proof.
  induction w as [|c w IH]; intros cur Hw Hcur; cbn [lines_aux].
  - destruct cur as [|c cur]; [constructor|]. constructor; [|constructor].
    apply Forall_rev. destruct lc; [apply drop_cr_cr_only|]; exact Hcur.
  - inversion Hw as [|? ? Hc Hw']; subst. destruct (c =? 10)%N eqn:E.
    + constructor; [apply Forall_rev, drop_cr_cr_only, Hcur|]. apply IH; [exact Hw'|constructor].
    + apply IH; [exact Hw'|]. constructor; [|exact Hcur].
      unfold eolb, is_eol in Hc. rewrite E in Hc. cbn in Hc. apply N.eqb_eq in Hc. exact Hc.
Qed.

Lemma lines_term_eols : forall lc p cr t, cr = [] \/ cr = [13%N] ->
  lines_aux lc ((p ++ flat_term cr) ++ t) [] = lines_aux lc (p ++ flat_term cr) [] ++ lines_aux lc t [].
Proof.
  intros lc p cr t Hcr. unfold flat_term.
  destruct t as [|c t]; [cbn [lines_aux]; repeat rewrite app_nil_r; reflexivity|].
  replace ((p ++ [47;47]%N ++ cr ++ [10%N]) ++ c :: t) with ((p ++ [47;47]%N ++ cr) ++ 10%N :: c :: t)
    by (repeat rewrite <- app_assoc; reflexivity).
  rewrite lines_aux_app_lf. f_equal. f_equal. repeat rewrite <- app_assoc. reflexivity.
Qed.

(* a CR-only line never emits a record and never matches a keyword *)
Lemma gb_cr_line_out : forall l s s', cr_only l -> gb_line true s l = Some s' -> gb_out s' = gb_out s.
Proof.
  intros l [st id sci defb seqb tax o] s' Hl H.
  assert (P : forall p, match p with c :: _ => (c =? 13) = false | [] => False end -> has_prefix p l = false).
  { intros p Hp. destruct p as [|c p]; [contradiction|]. destruct Hl as [|d l Hd Hl]; [reflexivity|]. subst d.
    cbn [has_prefix]. rewrite Hp. reflexivity. }
  assert (Q : list_eqb l s_end = false).
  { destruct Hl as [|d l Hd Hl]; [reflexivity|]. subst d. reflexivity. }
  unfold gb_line in H. cbn [gb_s gb_id gb_sci gb_defb gb_seqb gb_tax gb_out] in H.
  rewrite (P s_LOCUS), (P s_DEFINITION), (P s_SOURCE), (P s_FEATURES), (P s_ORIGIN), (P s_CONTIG), (P (spaces 12)), (P s_gb_xref), Q in H
    by reflexivity.
  destruct (Nat.ltb 100 (length l)); [discriminate|].
  destruct st as [|[|[|[|[|[|st]]]]]]; cbn in H; try discriminate;
    repeat match type of H with context[if ?b then _ else _] => destruct b end; try discriminate; inversion H; reflexivity.
Qed.

Lemma gb_cr_lines_out : forall ls s s', Forall cr_only ls -> gb_run true s ls = Some s' -> gb_out s' = gb_out s.
Proof.
  induction ls as [|l ls IH]; intros s s' Hls H; cbn [gb_run] in H; [inversion H; reflexivity|].
  inversion Hls as [|? ? Hl Hls']; subst.
  destruct (gb_line true s l) as [s1|] eqn:H1; [|discriminate].
  rewrite (IH _ _ Hls' H). eapply gb_cr_line_out; eauto.
Qed.

Theorem read_genbank_eols : forall B file recs, (1 <= B)%nat ->
  genbank_parse file = Some recs -> flat_inv3 file ->
  exists l, chunker flat_split B file = Some l /\ map fst l = seq 0 (length l) /\ parse_chunks genbank_parse l = Some recs.
Proof.
  apply read_flat3.
  - reflexivity.
  - intros w recs Hw H. unfold genbank_parse, genbank_parse_gen, lines_readline, genbank_parse_lines in H.
    destruct (gb_run true gb_init (lines_aux false w [])) as [s|] eqn:Hr; [|discriminate].
    apply gb_cr_lines_out in Hr; [|apply lines_eols; [exact Hw|constructor]].
    inversion H. rewrite Hr. reflexivity.
  - exact genbank_text_cut.
  - intros p cr t recs Hcr Ht H. unfold genbank_parse, genbank_parse_gen, lines_readline in *.
    rewrite (rstrip_flat_term _ _ Hcr), <- (lines_flat_term _ _ _ _ Hcr).
    rewrite (lines_term_eols _ _ _ _ Hcr) in H. unfold genbank_parse_lines in *. rewrite gb_run_app in H.
    destruct (gb_run true gb_init (lines_aux false (p ++ flat_term cr) [])) as [s1|]; [|discriminate].
    destruct (gb_run true s1 (lines_aux false t [])) as [s2|] eqn:H2; [|discriminate].
    rewrite <- (gb_cr_lines_out _ _ _ (lines_eols _ _ _ Ht (Forall_nil _)) H2). exact H.
Qed.

Lemma em_cr_line : forall l s, cr_only l -> em_line true s l = s.
Proof.
  intros l s Hl.
  assert (P : forall p, match p with c :: _ => (c =? 13) = false | [] => False end -> has_prefix p l = false).
  { intros p Hp. destruct p as [|c p]; [contradiction|]. destruct Hl as [|d l Hd Hl]; [reflexivity|]. subst d.
    cbn [has_prefix]. rewrite Hp. reflexivity. }
  assert (Q : list_eqb l s_end = false).
  { destruct Hl as [|d l Hd Hl]; [reflexivity|]. subst d. reflexivity. }
  unfold em_line. rewrite (P s_ID), (P s_OS), (P s_DE), (P s_FT), (P (spaces 5)), Q by reflexivity. reflexivity.
Qed.

Lemma em_cr_lines : forall ls s, Forall cr_only ls -> fold_left (em_line true) ls s = s.
Proof.
  induction ls as [|l ls IH]; intros s H; [reflexivity|]. inversion H; subst. cbn [fold_left].
  rewrite em_cr_line by assumption. apply IH. assumption.
Qed.

Theorem read_embl_eols : forall B file recs, (1 <= B)%nat ->
  embl_parse file = Some recs -> flat_inv3 file ->
  exists l, chunker flat_split B file = Some l /\ map fst l = seq 0 (length l) /\ parse_chunks embl_parse l = Some recs.
Proof.
  apply read_flat3.
  - reflexivity.
  - intros w recs Hw H. unfold embl_parse, embl_parse_gen, lines_scanner, embl_parse_lines in H.
    rewrite em_cr_lines in H by (apply lines_eols; [exact Hw|constructor]). inversion H. reflexivity.
  - exact embl_text_cut.
  - intros p cr t recs Hcr Ht H. unfold embl_parse, embl_parse_gen, lines_scanner in *.
    rewrite (rstrip_flat_term _ _ Hcr), <- (lines_flat_term _ _ _ _ Hcr).
    rewrite (lines_term_eols _ _ _ _ Hcr) in H. unfold embl_parse_lines in *.
    rewrite fold_left_app, em_cr_lines in H by (apply lines_eols; [exact Ht|constructor]). exact H.
Qed.

(** * Helpers for the flat-file printers *)
Definition eol_ok (e : list N) : Prop := e = [10] \/ e = [13;10].
Definition line_ok (l : list N) : Prop := Forall (fun c => is_eol c = false) l.

Lemma drop_cr_spec : forall c x, drop_cr (c :: x) = if c =? 13 then x else c :: x.
Proof.
  intros c x. destruct c as [|p]; [reflexivity|].
  do 4 (destruct p as [p|p|]; try reflexivity).
Qed.

Lemma lines_one_lf : forall lc l rest cur, Forall (fun c => (c =? 10) = false) l ->
  lines_aux lc (l ++ 10 :: rest) cur = rev (drop_cr (rev l ++ cur)) :: lines_aux lc rest [].
Proof.
  induction l as [|c l IH]; intros rest cur Hl; cbn [app lines_aux rev].
  - reflexivity.
  - inversion Hl as [|? ? Hc Hl']; subst. rewrite Hc. rewrite IH by exact Hl'.
    rewrite <- app_assoc. reflexivity.
Qed.

Lemma line_ok_no10 : forall l, line_ok l -> Forall (fun c => (c =? 10) = false) l.
Proof.
  intros l H. eapply Forall_impl; [|exact H]. intros c Hc. unfold is_eol in Hc. apply orb_false_elim in Hc. tauto.
Qed.

Lemma drop_cr_rev_ok : forall l, line_ok l -> drop_cr (rev l) = rev l.
Proof.
  intros l H. apply Forall_rev in H. destruct (rev l) as [|c x]; [reflexivity|].
  rewrite drop_cr_spec. inversion H as [|? ? Hc _]; subst. unfold is_eol in Hc. apply orb_false_elim in Hc.
  destruct Hc as [_ Hc]. rewrite Hc. reflexivity.
Qed.

Lemma lines_one : forall lc e l rest, eol_ok e -> line_ok l ->
  lines_aux lc (l ++ e ++ rest) [] = l :: lines_aux lc rest [].
Proof.
  intros lc e l rest [He|He] Hl; subst e; cbn [app].
  - rewrite lines_one_lf by (apply line_ok_no10; exact Hl). rewrite app_nil_r, drop_cr_rev_ok by exact Hl.
    rewrite rev_involutive. reflexivity.
  - replace (l ++ 13 :: 10 :: rest) with ((l ++ [13]) ++ 10 :: rest) by (rewrite <- app_assoc; reflexivity).
    rewrite lines_one_lf.
    + rewrite rev_app_distr. cbn [rev app]. rewrite drop_cr_spec. cbn. rewrite app_nil_r, rev_involutive. reflexivity.
    + apply Forall_app. split; [apply line_ok_no10; exact Hl|constructor; [reflexivity|constructor]].
Qed.

Lemma lines_print : forall lc e ls rest, eol_ok e -> Forall line_ok ls ->
  lines_aux lc (print_lines e ls ++ rest) [] = ls ++ lines_aux lc rest [].
Proof.
  intros lc e ls rest He. induction ls as [|l ls IH]; intros Hls; [reflexivity|].
  inversion Hls as [|? ? Hl Hls']; subst. unfold print_lines in *. cbn [map concat app].
  repeat rewrite <- app_assoc. rewrite lines_one by assumption. f_equal. apply IH. exact Hls'.
Qed.

(** strings.SplitN on blank-separated groups *)
Definition no32 (g : list N) : Prop := Forall (fun c => (c =? 32) = false) g.

Lemma join32_cons : forall g gs, gs <> [] -> join32 (g :: gs) = g ++ 32 :: join32 gs.
Proof. intros g gs H. destruct gs; [contradiction|reflexivity]. Qed.

Lemma splitn_group : forall n g rest cur, no32 g ->
  splitn (S (S n)) 32 (g ++ 32 :: rest) cur = (rev cur ++ g) :: splitn (S n) 32 rest [].
Proof.
  induction g as [|c g IH]; intros rest cur Hg.
  - cbn. rewrite app_nil_r. reflexivity.
  - inversion Hg as [|? ? Hc Hg']; subst. cbn [app splitn]. rewrite Hc. rewrite IH by exact Hg'.
    cbn [rev]. rewrite <- app_assoc. reflexivity.
Qed.

Lemma splitn_last : forall n g cur, no32 g \/ (n <= 1)%nat -> splitn n 32 g cur = [rev cur ++ g].
Proof.
  intros n g. revert n. induction g as [|c g IH]; intros n cur H.
  - cbn. rewrite app_nil_r. reflexivity.
  - destruct n as [|[|n]]; [reflexivity|reflexivity|].
    destruct H as [H|H]; [|lia]. inversion H as [|? ? Hc Hg]; subst. cbn [splitn]. rewrite Hc.
    rewrite IH by (left; exact Hg). cbn [rev]. rewrite <- app_assoc. reflexivity.
Qed.

Lemma splitn_join_tail : forall gs tail n, Forall no32 gs ->
  (S (length gs) = n \/ ((S (length gs) <= n)%nat /\ no32 tail)) ->
  splitn n 32 (join32 (gs ++ [tail])) [] = gs ++ [tail].
Proof.
  induction gs as [|g gs IH]; intros tail n Hgs Hn.
  - cbn [app join32]. rewrite splitn_last; [reflexivity|]. cbn [length] in Hn. destruct Hn as [Hn|[_ Hn]]; [right; lia|left; exact Hn].
  - inversion Hgs as [|? ? Hg Hgs']; subst. cbn [app]. rewrite join32_cons by (destruct gs; discriminate).
    cbn [length] in Hn. destruct n as [|[|n]]; [lia|lia|].
    rewrite splitn_group by exact Hg. cbn [rev app]. f_equal. apply IH; [exact Hgs'|]. destruct Hn as [Hn|[Hn Ht]]; [left; lia|right; split; [lia|exact Ht]].
Qed.

Lemma splitn_join : forall gs n, Forall no32 gs -> gs <> [] -> (length gs <= n)%nat ->
  splitn n 32 (join32 gs) [] = gs.
Proof.
  intros gs n Hgs Hne Hn. destruct (exists_last Hne) as (gs0 & tail & Heq). subst gs.
  apply Forall_app in Hgs. destruct Hgs as [H0 Ht]. inversion Ht; subst.
  apply splitn_join_tail; [exact H0|]. right. rewrite app_length in Hn. cbn in Hn. split; [lia|assumption].
Qed.

(** strings.TrimSpace *)
Definition pad (a : list N) : Prop := Forall (fun c => is_tspace c = true) a.
Definition trimmed (x : list N) : Prop :=
  (forall c x', x = c :: x' -> is_tspace c = false) /\ (forall c x', rev x = c :: x' -> is_tspace c = false).

Lemma ltrim_pad : forall a x, pad a -> ltrim (a ++ x) = ltrim x.
Proof. induction 1 as [|c a Hc Ha IH]; [reflexivity|]. cbn [app ltrim]. rewrite Hc. exact IH. Qed.

Lemma ltrim_all : forall a, pad a -> ltrim a = [].
Proof. intros a H. rewrite <- (app_nil_r a). rewrite ltrim_pad by exact H. reflexivity. Qed.

Lemma trim_pad : forall a x b, pad a -> pad b -> trimmed x -> trim_space (a ++ x ++ b) = x.
Proof.
  intros a x b Ha Hb [H1 H2]. unfold trim_space. rewrite ltrim_pad by exact Ha.
  destruct x as [|c x].
  - cbn [app]. rewrite (ltrim_all b) by exact Hb. reflexivity.
  - cbn [app ltrim]. rewrite (H1 c x eq_refl).
    change (c :: x ++ b) with ((c :: x) ++ b). rewrite rev_app_distr, ltrim_pad by (apply Forall_rev; exact Hb).
    destruct (rev (c :: x)) as [|d y] eqn:E.
    + apply (f_equal (@rev N)) in E. rewrite rev_involutive in E. discriminate.
    + cbn [ltrim]. rewrite (H2 d y eq_refl). rewrite <- E, rev_involutive. reflexivity.
Qed.

(** strconv.Atoi on a string of decimal digits *)

Lemma digits_dec : forall ds acc, Forall (fun c => is_digit c = true) ds ->
  digits ds acc = Some (fold_left (fun a c => (a * 10 + Z.of_N (c - 48))%Z) ds acc).
Proof.
  induction ds as [|c ds IH]; intros acc H; [reflexivity|]. inversion H as [|? ? Hc Hds]; subst.
  cbn [digits fold_left]. unfold is_digit in Hc. rewrite Hc. apply IH. exact Hds.
Qed.

Lemma atoi_digit : forall c d, is_digit c = true -> atoi (c :: d) = digits0 (c :: d).
Proof.
  intros c d H. unfold is_digit in H. destruct c as [|p]; [discriminate|].
  do 6 (destruct p as [p|p|]; try reflexivity; try discriminate).
Qed.

Lemma atoi_dec : forall ds, ds <> [] -> Forall (fun c => is_digit c = true) ds -> atoi ds = dec_val ds.
Proof.
  intros ds Hne H. destruct ds as [|c d]; [contradiction|]. inversion H as [|? ? Hc Hd]; subst.
  rewrite atoi_digit by exact Hc. unfold digits0. rewrite digits_dec by exact H. reflexivity.
Qed.

Lemma upto_app : forall sep a r, Forall (fun c => (c =? sep) = false) a -> upto sep (a ++ sep :: r) = a.
Proof.
  induction a as [|c a IH]; intros r H; cbn [app upto].
  - rewrite N.eqb_refl. reflexivity.
  - inversion H as [|? ? Hc Ha]; subst. rewrite Hc. f_equal. apply IH. exact Ha.
Qed.
Lemma upto_all : forall sep a, Forall (fun c => (c =? sep) = false) a -> upto sep a = a.
Proof.
  induction a as [|c a IH]; intros H; [reflexivity|]. inversion H as [|? ? Hc Ha]; subst. cbn [upto]. rewrite Hc. f_equal. apply IH. exact Ha.
Qed.

Lemma has_prefix_app : forall p x, has_prefix p (p ++ x) = true.
Proof. induction p as [|c p IH]; intros x; [reflexivity|]. cbn [app has_prefix]. rewrite N.eqb_refl. apply IH. Qed.
Lemma skipn_app_exact : forall (a b : list N), skipn (length a) (a ++ b) = b.
Proof. induction a; intros b; [reflexivity|]. cbn. apply IHa. Qed.

(** * GenBank printer *)
Definition pd_ok (x : padded) : Prop := pad (pd_l x) /\ pad (pd_r x) /\ trimmed (pd_t x).





Definition seq_line_ok (sl : list N * list (list N)) : Prop :=
  length (fst sl) = 10%nat /\ Forall (fun c => is_numch c = true) (fst sl) /\
  snd sl <> [] /\ (length (snd sl) <= 6)%nat /\ Forall no32 (snd sl).

Definition valid_gb (lr : gb_layout * rec) : Prop :=
  let lay := fst lr in let r := snd lr in
  eol_ok (gl_eol lay) /\ Forall eol_ok (gl_blank lay) /\
  Forall line_ok (gb_rec_lines lay r) /\ Forall (fun l => (length l <= 100)%nat) (gb_rec_lines lay r) /\
  no32 (rid r) /\ (gl_locus lay = [] \/ exists x, gl_locus lay = 32 :: x) /\
  Forall pd_ok (gl_def lay) /\ rdef r = def_text (gl_def lay) /\
  Forall (fun l => gb_hdr1_ok l = true) (gl_hdr1 lay) /\
  match gl_src lay with
  | None => rsci r = []
  | Some (a, b, h2) => pad a /\ pad b /\ trimmed (rsci r) /\ Forall (fun l => gb_hdr_ok l = true) h2
  end /\
  Forall (fun l => gb_ft_ok l = true) (gl_ft1 lay) /\ Forall (fun l => gb_ft_ok l = true) (gl_ft2 lay) /\
  match gl_xref lay with
  | None => rtax r = Some 1%Z
  | Some (ds, _) => ds <> [] /\ Forall (fun c => is_digit c = true) ds /\ (length ds <= 18)%nat /\ rtax r = Some (dec_val ds)
  end /\
  Forall seq_line_ok (gl_seq lay) /\ rseq r = map lower (seq_text (gl_seq lay)) /\ rqual r = None.

(** ** one line at a time *)
Ltac gbl := unfold gb_line; cbn [gb_s gb_id gb_sci gb_defb gb_seqb gb_tax gb_out].

Lemma ltb100 : forall n, (n <= 100)%nat -> Nat.ltb 100 n = false.
Proof. intros. apply Nat.ltb_ge. assumption. Qed.

Lemma gb_locus_line : forall id rest out, no32 id -> (rest = [] \/ exists x, rest = 32 :: x) ->
  (length (s_LOCUS ++ id ++ rest) <= 100)%nat ->
  gb_line true (mkgb 0 [] [] [] [] 1 out) (s_LOCUS ++ id ++ rest) = Some (mkgb 1 id [] [] [] 1 out).
Proof.
  intros id rest out Hid Hrest Hlen. gbl. rewrite (ltb100 _ Hlen), has_prefix_app. cbn [Nat.eqb].
  change (skipn 12 (s_LOCUS ++ id ++ rest)) with (id ++ rest).
  destruct Hrest as [Hr|(x & Hr)]; subst rest.
  - rewrite app_nil_r, upto_all by exact Hid. reflexivity.
  - rewrite upto_app by exact Hid. reflexivity.
Qed.

Lemma gb_def_line : forall x id sci seqb tax out, pd_ok x -> (length (s_DEFINITION ++ pd_raw x) <= 100)%nat ->
  gb_line true (mkgb 1 id sci [] seqb tax out) (s_DEFINITION ++ pd_raw x) = Some (mkgb 2 id sci (pd_t x) seqb tax out).
Proof.
  intros x id sci seqb tax out (Ha & Hb & Ht) Hlen. gbl. rewrite (ltb100 _ Hlen).
  change (has_prefix s_LOCUS (s_DEFINITION ++ pd_raw x)) with false. rewrite has_prefix_app. cbn [Nat.eqb].
  change (skipn 12 (s_DEFINITION ++ pd_raw x)) with (pd_raw x). unfold pd_raw. rewrite trim_pad by assumption. reflexivity.
Qed.

Lemma gb_defc_line : forall x id sci defb seqb tax out, pd_ok x -> (length (spaces 12 ++ pd_raw x) <= 100)%nat ->
  gb_line true (mkgb 2 id sci defb seqb tax out) (spaces 12 ++ pd_raw x) = Some (mkgb 2 id sci (defb ++ 32 :: pd_t x) seqb tax out).
Proof.
  intros x id sci defb seqb tax out (Ha & Hb & Ht) Hlen. gbl. rewrite (ltb100 _ Hlen).
  change (has_prefix s_LOCUS (spaces 12 ++ pd_raw x)) with false.
  change (has_prefix s_DEFINITION (spaces 12 ++ pd_raw x)) with false. rewrite has_prefix_app. cbn [Nat.eqb].
  change (skipn 12 (spaces 12 ++ pd_raw x)) with (pd_raw x). unfold pd_raw. rewrite trim_pad by assumption. reflexivity.
Qed.

Lemma gb_hdr_ok_facts : forall l, gb_hdr_ok l = true ->
  has_prefix s_LOCUS l = false /\ has_prefix s_DEFINITION l = false /\ has_prefix s_SOURCE l = false /\
  has_prefix s_FEATURES l = false /\ has_prefix s_ORIGIN l = false /\ has_prefix s_CONTIG l = false /\
  list_eqb l s_end = false /\ Nat.ltb 100 (length l) = false.
Proof.
  intros l H. unfold gb_hdr_ok in H. apply andb_true_iff in H. destruct H as [H1 H2].
  apply negb_true_iff in H1. unfold gb_kw in H1.
  repeat (apply orb_false_elim in H1; let H := fresh "K" in destruct H1 as [H1 H]).
  apply Nat.leb_le in H2. repeat split; auto. apply ltb100. exact H2.
Qed.

(* a header line that is no keyword line: ignored in inEntry; in inDefinition too unless it is a continuation line *)
Lemma gb_hdr_line1 : forall l id sci defb seqb tax out, gb_hdr_ok l = true ->
  gb_line true (mkgb 1 id sci defb seqb tax out) l = Some (mkgb 1 id sci defb seqb tax out).
Proof.
  intros l id sci defb seqb tax out H. destruct (gb_hdr_ok_facts _ H) as (K1 & K2 & K3 & K4 & K5 & K6 & K7 & K8).
  gbl. rewrite K1, K2, K3, K4, K5, K6, K7, K8. reflexivity.
Qed.
Lemma gb_hdr_line2 : forall l id sci defb seqb tax out, gb_hdr1_ok l = true ->
  gb_line true (mkgb 2 id sci defb seqb tax out) l = Some (mkgb 1 id sci defb seqb tax out).
Proof.
  intros l id sci defb seqb tax out H. unfold gb_hdr1_ok in H. apply andb_true_iff in H. destruct H as [H H12].
  apply negb_true_iff in H12.
  destruct (gb_hdr_ok_facts _ H) as (K1 & K2 & K3 & K4 & K5 & K6 & K7 & K8).
  gbl. rewrite K1, K2, K3, K4, K5, K6, K7, K8, H12. reflexivity.
Qed.

Definition st12 (st : nat) : Prop := st = 1%nat \/ st = 2%nat.

Lemma gb_hdr1_lines : forall ls st id sci defb seqb tax out, st12 st -> Forall (fun l => gb_hdr1_ok l = true) ls ->
  exists st', st12 st' /\ gb_run true (mkgb st id sci defb seqb tax out) ls = Some (mkgb st' id sci defb seqb tax out).
Proof.
  induction ls as [|l ls IH]; intros st id sci defb seqb tax out Hst Hls.
  - exists st. split; [exact Hst|reflexivity].
  - inversion Hls as [|? ? Hl Hls']; subst. cbn [gb_run].
    assert (Hline : gb_line true (mkgb st id sci defb seqb tax out) l = Some (mkgb 1 id sci defb seqb tax out)).
    { destruct Hst; subst st; [apply gb_hdr_line1|apply gb_hdr_line2; exact Hl].
      unfold gb_hdr1_ok in Hl. apply andb_true_iff in Hl. tauto. }
    rewrite Hline. apply IH; [left; reflexivity|exact Hls'].
Qed.

Lemma gb_hdr_lines : forall ls id sci defb seqb tax out, Forall (fun l => gb_hdr_ok l = true) ls ->
  gb_run true (mkgb 1 id sci defb seqb tax out) ls = Some (mkgb 1 id sci defb seqb tax out).
Proof.
  induction ls as [|l ls IH]; intros id sci defb seqb tax out Hls; [reflexivity|].
  inversion Hls as [|? ? Hl Hls']; subst. cbn [gb_run]. rewrite gb_hdr_line1 by exact Hl. apply IH. exact Hls'.
Qed.

Lemma gb_source_line : forall st a x b id sci defb seqb tax out, st12 st -> pad a -> pad b -> trimmed x ->
  (length (s_SOURCE ++ a ++ x ++ b) <= 100)%nat ->
  gb_line true (mkgb st id sci defb seqb tax out) (s_SOURCE ++ a ++ x ++ b) = Some (mkgb 1 id x defb seqb tax out).
Proof.
  intros st a x b id sci defb seqb tax out Hst Ha Hb Hx Hlen. gbl. rewrite (ltb100 _ Hlen).
  change (has_prefix s_LOCUS (s_SOURCE ++ a ++ x ++ b)) with false.
  change (has_prefix s_DEFINITION (s_SOURCE ++ a ++ x ++ b)) with false.
  change (has_prefix (spaces 12) (s_SOURCE ++ a ++ x ++ b)) with false.
  rewrite has_prefix_app. change (skipn 12 (s_SOURCE ++ a ++ x ++ b)) with (a ++ x ++ b). rewrite trim_pad by assumption.
  destruct Hst; subst st; reflexivity.
Qed.

Lemma gb_features_line : forall st x id sci defb seqb tax out, st12 st -> (length (s_FEATURES ++ x) <= 100)%nat ->
  gb_line true (mkgb st id sci defb seqb tax out) (s_FEATURES ++ x) = Some (mkgb 3 id sci defb seqb tax out).
Proof.
  intros st x id sci defb seqb tax out Hst Hlen. gbl. rewrite (ltb100 _ Hlen).
  change (has_prefix s_LOCUS (s_FEATURES ++ x)) with false.
  change (has_prefix s_DEFINITION (s_FEATURES ++ x)) with false.
  change (has_prefix (spaces 12) (s_FEATURES ++ x)) with false.
  change (has_prefix s_SOURCE (s_FEATURES ++ x)) with false.
  rewrite has_prefix_app. destruct Hst; subst st; reflexivity.
Qed.

Lemma gb_ft_line : forall l id sci defb seqb tax out, gb_ft_ok l = true ->
  gb_line true (mkgb 3 id sci defb seqb tax out) l = Some (mkgb 3 id sci defb seqb tax out).
Proof.
  intros l id sci defb seqb tax out H. unfold gb_ft_ok in H. apply andb_true_iff in H. destruct H as [H Hx].
  apply negb_true_iff in Hx. destruct (gb_hdr_ok_facts _ H) as (K1 & K2 & K3 & K4 & K5 & K6 & K7 & K8).
  gbl. rewrite K1, K2, K3, K4, K5, K6, K7, K8, Hx. reflexivity.
Qed.
Lemma gb_ft_lines : forall ls id sci defb seqb tax out, Forall (fun l => gb_ft_ok l = true) ls ->
  gb_run true (mkgb 3 id sci defb seqb tax out) ls = Some (mkgb 3 id sci defb seqb tax out).
Proof.
  induction ls as [|l ls IH]; intros id sci defb seqb tax out Hls; [reflexivity|].
  inversion Hls as [|? ? Hl Hls']; subst. cbn [gb_run]. rewrite gb_ft_line by exact Hl. apply IH. exact Hls'.
Qed.

Lemma digit_not34 : forall ds, Forall (fun c => is_digit c = true) ds -> Forall (fun c => (c =? 34) = false) ds.
Proof.
  intros ds H. eapply Forall_impl; [|exact H]. intros c Hc. unfold is_digit in Hc. apply andb_true_iff in Hc.
  destruct Hc as [Hc _]. apply N.leb_le in Hc. apply N.eqb_neq. lia.
Qed.

Lemma gb_xref_line : forall ds rest id sci defb seqb tax out, ds <> [] -> Forall (fun c => is_digit c = true) ds ->
  (length (s_gb_xref ++ ds ++ 34%N :: rest) <= 100)%nat ->
  gb_line true (mkgb 3 id sci defb seqb tax out) (s_gb_xref ++ ds ++ 34%N :: rest) = Some (mkgb 3 id sci defb seqb (dec_val ds) out).
Proof.
  intros ds rest id sci defb seqb tax out Hne Hds Hlen. gbl. rewrite (ltb100 _ Hlen).
  change (has_prefix s_LOCUS (s_gb_xref ++ ds ++ 34%N :: rest)) with false.
  change (has_prefix s_DEFINITION (s_gb_xref ++ ds ++ 34%N :: rest)) with false.
  change (has_prefix s_SOURCE (s_gb_xref ++ ds ++ 34%N :: rest)) with false.
  change (has_prefix s_FEATURES (s_gb_xref ++ ds ++ 34%N :: rest)) with false.
  change (has_prefix s_ORIGIN (s_gb_xref ++ ds ++ 34%N :: rest)) with false.
  change (has_prefix s_CONTIG (s_gb_xref ++ ds ++ 34%N :: rest)) with false.
  change (list_eqb (s_gb_xref ++ ds ++ 34%N :: rest) s_end) with false.
  rewrite has_prefix_app. cbn [Nat.eqb orb].
  change (skipn 37 (s_gb_xref ++ ds ++ 34%N :: rest)) with (ds ++ 34%N :: rest). rewrite upto_app by (apply digit_not34; exact Hds).
  rewrite atoi_dec by assumption. reflexivity.
Qed.

Lemma gb_origin_line : forall x id sci defb seqb tax out, (length (s_ORIGIN ++ x) <= 100)%nat ->
  gb_line true (mkgb 3 id sci defb seqb tax out) (s_ORIGIN ++ x) = Some (mkgb 4 id sci defb seqb tax out).
Proof.
  intros x id sci defb seqb tax out Hlen. gbl. rewrite (ltb100 _ Hlen).
  change (has_prefix s_LOCUS (s_ORIGIN ++ x)) with false.
  change (has_prefix s_DEFINITION (s_ORIGIN ++ x)) with false.
  change (has_prefix s_SOURCE (s_ORIGIN ++ x)) with false.
  change (has_prefix s_FEATURES (s_ORIGIN ++ x)) with false.
  rewrite has_prefix_app. reflexivity.
Qed.

Lemma numch_prefix : forall p c rest, is_numch c = true -> match p with k :: _ => is_numch k = false | [] => False end ->
  has_prefix p (c :: rest) = false.
Proof.
  intros p c rest Hc Hp. destruct p as [|k p]; [contradiction|]. cbn [has_prefix].
  destruct (N.eqb_spec k c) as [E|E]; [subst k; congruence|reflexivity].
Qed.

Lemma gb_seq_line : forall sl id sci defb seqb tax out, seq_line_ok sl -> (length (seq_line sl) <= 100)%nat ->
  gb_line true (mkgb 4 id sci defb seqb tax out) (seq_line sl) = Some (mkgb 4 id sci defb (seqb ++ concat (snd sl)) tax out).
Proof.
  intros [pre gs] id sci defb seqb tax out (Hl & Hpre & Hne & Hn & Hgs) Hlen. cbn [fst snd] in *.
  unfold seq_line in *. cbn [fst snd] in *.
  destruct pre as [|c pre]; [discriminate|]. inversion Hpre as [|? ? Hc Hpre']; subst.
  gbl. rewrite (ltb100 _ Hlen). cbn [app].
  rewrite (numch_prefix s_LOCUS), (numch_prefix s_DEFINITION), (numch_prefix s_SOURCE), (numch_prefix s_FEATURES),
    (numch_prefix s_ORIGIN), (numch_prefix s_CONTIG) by (try exact Hc; reflexivity).
  assert (Hend : list_eqb (c :: pre ++ join32 gs) s_end = false).
  { cbn [list_eqb s_end]. destruct (N.eqb_spec c 47) as [E|E]; [subst c; discriminate|reflexivity]. }
  rewrite Hend. cbn [Nat.eqb orb].
  assert (H10 : Nat.ltb (length (c :: pre ++ join32 gs)) 10 = false).
  { apply Nat.ltb_ge. change (c :: pre ++ join32 gs) with ((c :: pre) ++ join32 gs). rewrite app_length. lia. }
  rewrite H10. change (c :: pre ++ join32 gs) with ((c :: pre) ++ join32 gs). rewrite <- Hl, skipn_app_exact.
  rewrite splitn_join by assumption. reflexivity.
Qed.

Lemma gb_seq_lines : forall sls id sci defb seqb tax out, Forall seq_line_ok sls ->
  Forall (fun l => (length l <= 100)%nat) (map seq_line sls) ->
  gb_run true (mkgb 4 id sci defb seqb tax out) (map seq_line sls) = Some (mkgb 4 id sci defb (seqb ++ seq_text sls) tax out).
Proof.
  induction sls as [|sl sls IH]; intros id sci defb seqb tax out Hok Hlen.
  - cbn. rewrite app_nil_r. reflexivity.
  - inversion Hok as [|? ? H1 H2]; subst. cbn [map] in *. inversion Hlen as [|? ? H3 H4]; subst.
    cbn [gb_run]. rewrite gb_seq_line by assumption. rewrite IH by assumption.
    unfold seq_text. cbn [map concat]. rewrite <- app_assoc. reflexivity.
Qed.

Lemma gb_end_line : forall id sci defb seqb tax out,
  gb_line true (mkgb 4 id sci defb seqb tax out) s_end = Some (mkgb 0 [] [] [] [] 1 (flat_rec id defb seqb sci tax :: out)).
Proof. reflexivity. Qed.

Lemma gb_defc_lines : forall ds id sci defb seqb tax out, Forall pd_ok ds ->
  Forall (fun l => (length l <= 100)%nat) (map (fun y => spaces 12 ++ pd_raw y) ds) ->
  gb_run true (mkgb 2 id sci defb seqb tax out) (map (fun y => spaces 12 ++ pd_raw y) ds) =
  Some (mkgb 2 id sci (defb ++ concat (map (fun y => 32 :: pd_t y) ds)) seqb tax out).
Proof.
  induction ds as [|d ds IH]; intros id sci defb seqb tax out Hok Hlen.
  - cbn. rewrite app_nil_r. reflexivity.
  - inversion Hok as [|? ? H1 H2]; subst. cbn [map] in *. inversion Hlen as [|? ? H3 H4]; subst.
    cbn [gb_run]. rewrite gb_defc_line by assumption. rewrite IH by assumption.
    cbn [concat]. rewrite <- app_assoc. reflexivity.
Qed.

Lemma gb_def_lines : forall d id sci seqb tax out, Forall pd_ok d -> Forall (fun l => (length l <= 100)%nat) (def_lines d) ->
  exists st, st12 st /\ gb_run true (mkgb 1 id sci [] seqb tax out) (def_lines d) = Some (mkgb st id sci (def_text d) seqb tax out).
Proof.
  intros [|x d] id sci seqb tax out Hok Hlen.
  - exists 1%nat. split; [left; reflexivity|reflexivity].
  - exists 2%nat. split; [right; reflexivity|]. inversion Hok as [|? ? H1 H2]; subst.
    cbn [def_lines] in *. inversion Hlen as [|? ? H3 H4]; subst. cbn [gb_run].
    rewrite gb_def_line by assumption. rewrite gb_defc_lines by assumption. reflexivity.
Qed.

Lemma gb_blank_lines0 : forall k out, gb_run true (mkgb 0 [] [] [] [] 1 out) (repeat [] k) = Some (mkgb 0 [] [] [] [] 1 out).
Proof. induction k; intros out; [reflexivity|]. cbn [repeat gb_run]. apply IHk. Qed.

(** ** one record, then a whole file *)
Lemma gb_record_run : forall lay r out, valid_gb (lay, r) ->
  gb_run true (mkgb 0 [] [] [] [] 1 out) (gb_rec_lines lay r) = Some (mkgb 0 [] [] [] [] 1 (r :: out)).
Proof.
  intros lay r out Hv. unfold valid_gb in Hv. cbn [fst snd] in Hv.
  destruct Hv as (_ & _ & _ & Hlen & Hid & Hloc & Hdef & Hrdef & Hh1 & Hsrc & Hf1 & Hf2 & Hx & Hsq & Hrseq & Hq).
  unfold gb_rec_lines, gb_body_lines in *.
  apply Forall_app in Hlen. destruct Hlen as [Hlen _].
  repeat (apply Forall_app in Hlen; let H := fresh "L" in destruct Hlen as [H Hlen]).
  (* LOCUS *)
  rewrite <- app_assoc. rewrite gb_run_app. cbn [gb_run]. pose proof (Forall_inv L) as L'; cbv beta in L'.
  rewrite gb_locus_line by assumption.
  (* DEFINITION *)
  rewrite <- app_assoc. rewrite gb_run_app.
  destruct (gb_def_lines (gl_def lay) (rid r) [] [] 1%Z out Hdef L0) as (st1 & Hst1 & Hr1). rewrite Hr1. clear Hr1.
  (* header lines *)
  rewrite <- app_assoc. rewrite gb_run_app.
  destruct (gb_hdr1_lines (gl_hdr1 lay) st1 (rid r) [] (def_text (gl_def lay)) [] 1%Z out Hst1 Hh1) as (st2 & Hst2 & Hr2). rewrite Hr2. clear Hr2.
  (* SOURCE *)
  rewrite <- app_assoc. rewrite gb_run_app.
  assert (Hr3 : exists st3, st12 st3 /\ gb_run true (mkgb st2 (rid r) [] (def_text (gl_def lay)) [] 1%Z out)
              match gl_src lay with None => [] | Some (a, b, h2) => (s_SOURCE ++ a ++ rsci r ++ b) :: h2 end
            = Some (mkgb st3 (rid r) (rsci r) (def_text (gl_def lay)) [] 1%Z out)).
  { destruct (gl_src lay) as [[[a b] h2]|].
    - destruct Hsrc as (Ha & Hb & Ht & Hh2). exists 1%nat. split; [left; reflexivity|]. cbn [gb_run].
      pose proof (Forall_inv L2) as L2a; cbv beta in L2a. rewrite gb_source_line by assumption. apply gb_hdr_lines. exact Hh2.
    - exists st2. split; [exact Hst2|]. rewrite Hsrc. reflexivity. }
  destruct Hr3 as (st3 & Hst3 & Hr3). rewrite Hr3. clear Hr3.
  (* FEATURES *)
  rewrite <- app_assoc. rewrite gb_run_app. cbn [gb_run]. pose proof (Forall_inv L3) as L3'; cbv beta in L3'.
  rewrite gb_features_line by assumption.
  rewrite <- app_assoc. rewrite gb_run_app, gb_ft_lines by exact Hf1.
  rewrite <- app_assoc. rewrite gb_run_app.
  assert (Hr4 : gb_run true (mkgb 3 (rid r) (rsci r) (def_text (gl_def lay)) [] 1%Z out)
              match gl_xref lay with None => [] | Some (ds, rest) => [s_gb_xref ++ ds ++ 34%N :: rest] end
            = Some (mkgb 3 (rid r) (rsci r) (def_text (gl_def lay)) [] (match rtax r with Some t => t | None => 0%Z end) out)).
  { destruct (gl_xref lay) as [[ds rest]|].
    - destruct Hx as (Hne & Hds & _ & Ht). cbn [gb_run]. pose proof (Forall_inv L5) as L5'; cbv beta in L5'.
      rewrite gb_xref_line by assumption. rewrite Ht. reflexivity.
    - rewrite Hx. reflexivity. }
  rewrite Hr4. clear Hr4.
  rewrite <- app_assoc. rewrite gb_run_app, gb_ft_lines by exact Hf2.
  (* ORIGIN, sequence, // *)
  rewrite <- app_assoc. rewrite gb_run_app. cbn [gb_run]. pose proof (Forall_inv L7) as L7'; cbv beta in L7'.
  rewrite gb_origin_line by assumption.
  rewrite gb_run_app, gb_seq_lines by assumption.
  cbn [gb_run app]. rewrite gb_end_line. unfold flat_rec. f_equal. f_equal. f_equal.
  destruct r as [id d sq q t sc]. cbn [rid rdef rseq rqual rtax rsci] in *. subst d sq q.
  f_equal. destruct (gl_xref lay) as [[ds rest]|]; [destruct Hx as (_ & _ & _ & Ht)|]; subst t; reflexivity.
Qed.

Lemma lines_blank : forall lc bl rest, Forall eol_ok bl ->
  lines_aux lc (concat bl ++ rest) [] = repeat [] (length bl) ++ lines_aux lc rest [].
Proof.
  intros lc bl rest H. induction H as [|e bl He Hbl IH]; [reflexivity|].
  cbn [concat length repeat app]. rewrite <- app_assoc.
  change (e ++ concat bl ++ rest) with ([] ++ e ++ concat bl ++ rest).
  rewrite (lines_one lc e [] (concat bl ++ rest) He (Forall_nil _)). f_equal. exact IH.
Qed.

Lemma gb_records_run : forall lrs out, Forall valid_gb lrs ->
  gb_run true (mkgb 0 [] [] [] [] 1 out) (lines_aux false (print_gb lrs) []) =
  Some (mkgb 0 [] [] [] [] 1 (rev (map snd lrs) ++ out)).
Proof.
  induction lrs as [|[lay r] lrs IH]; intros out Hv; [reflexivity|].
  inversion Hv as [|? ? Hv1 Hv2]; subst. unfold print_gb. cbn [map concat]. unfold print_gb1 at 1. cbn [fst snd].
  pose proof Hv1 as (He & Hbl & Hok & _). cbn [fst snd] in He, Hbl, Hok.
  rewrite <- app_assoc, lines_print by assumption. rewrite lines_blank by assumption.
  rewrite gb_run_app, (gb_record_run _ _ _ Hv1), gb_run_app, gb_blank_lines0.
  change (concat (map print_gb1 lrs)) with (print_gb lrs). rewrite IH by exact Hv2.
  cbn [rev]. rewrite <- app_assoc. reflexivity.
Qed.

Theorem genbank_print_parse : forall lrs, Forall valid_gb lrs -> genbank_parse (print_gb lrs) = Some (map snd lrs).
Proof.
  intros lrs Hv. unfold genbank_parse, genbank_parse_gen, lines_readline, genbank_parse_lines, gb_init.
  rewrite gb_records_run by exact Hv. cbn [gb_out]. rewrite app_nil_r, rev_involutive. reflexivity.
Qed.

Lemma print_lines_app : forall e a b, print_lines e (a ++ b) = print_lines e a ++ print_lines e b.
Proof. intros. unfold print_lines. rewrite map_app, concat_app. reflexivity. Qed.

Lemma eol_ok_term : forall e, eol_ok e -> exists cr, (cr = [] \/ cr = [13%N]) /\ s_end ++ e = flat_term cr.
Proof. intros e [He|He]; subst e; [exists []|exists [13%N]]; split; auto. Qed.

Lemma concat_eols : forall bl, Forall eol_ok bl -> Forall eolb (concat bl).
Proof.
  induction 1 as [|e bl He Hbl IH]; [constructor|]. cbn [concat]. apply Forall_app. split; [|exact IH].
  destruct He; subst e; repeat constructor.
Qed.

Lemma gb_print_inv : forall lrs, Forall valid_gb lrs -> flat_inv3 (print_gb lrs).
Proof.
  induction lrs as [|[lay r] lrs IH]; intros Hv; [left; constructor|].
  inversion Hv as [|? ? Hv1 Hv2]; subst. pose proof Hv1 as (He & Hbl & _). cbn [fst snd] in He, Hbl.
  unfold print_gb. cbn [map concat]. change (concat (map print_gb1 lrs)) with (print_gb lrs).
  destruct (IH Hv2) as [Hall|(p & cr & t & Hw & Hcr & Ht)].
  - right. unfold print_gb1. cbn [fst snd]. unfold gb_rec_lines. rewrite print_lines_app.
    destruct (eol_ok_term _ He) as (cr & Hcr & Hterm).
    exists (print_lines (gl_eol lay) (gb_body_lines lay r)), cr, (concat (gl_blank lay) ++ print_gb lrs).
    split; [|split; [exact Hcr|apply Forall_app; split; [apply concat_eols; exact Hbl|exact Hall]]].
    unfold print_lines at 2. cbn [map concat]. rewrite app_nil_r, Hterm. repeat rewrite <- app_assoc. reflexivity.
  - right. exists (print_gb1 (lay, r) ++ p), cr, t. split; [|auto]. rewrite Hw. repeat rewrite <- app_assoc. reflexivity.
Qed.

(** * EMBL printer *)




Definition em_seq_line_ok (sl : list (list N) * list N) : Prop :=
  Forall no32 (fst sl) /\ (length (fst sl) = 6%nat \/ ((length (fst sl) < 6)%nat /\ no32 (snd sl))).

Definition valid_embl (lr : em_layout * rec) : Prop :=
  let lay := fst lr in let r := snd lr in
  eol_ok (el_eol lay) /\ Forall eol_ok (el_blank lay) /\
  Forall line_ok (em_rec_lines lay r) /\ Forall (fun l => (length l <= 1000)%nat) (em_rec_lines lay r) /\
  Forall (fun c => (c =? 59) = false) (rid r) /\ (el_id lay = [] \/ exists x, el_id lay = 59 :: x) /\
  Forall (fun x => pd_ok x /\ pd_t x <> []) (el_def lay) /\ rdef r = def_text (el_def lay) /\
  Forall (fun l => em_ign_ok l = true) (el_hdr1 lay) /\ Forall (fun l => em_ign_ok l = true) (el_hdr2 lay) /\
  Forall (fun l => em_ign_ok l = true) (el_hdr3 lay) /\ Forall (fun l => em_ign_ok l = true) (el_hdr4 lay) /\
  match el_src lay with None => rsci r = [] | Some (a, b) => pad a /\ pad b /\ trimmed (rsci r) end /\
  match el_xref lay with
  | None => rtax r = Some 1%Z
  | Some (ds, _) => ds <> [] /\ Forall (fun c => is_digit c = true) ds /\ (length ds <= 18)%nat /\ rtax r = Some (dec_val ds)
  end /\
  Forall em_seq_line_ok (el_seq lay) /\ rseq r = map lower (em_seq_text (el_seq lay)) /\ rqual r = None.

Lemma em_ign_line : forall l s, em_ign_ok l = true -> em_line true s l = s.
Proof.
  intros l s H. unfold em_ign_ok in H. repeat (apply andb_true_iff in H; let K := fresh "K" in destruct H as [H K]).
  apply negb_true_iff in H, K0, K1. unfold em_line. rewrite H, K0, K1.
  destruct (has_prefix s_FT l).
  - apply negb_true_iff in K. rewrite K. reflexivity.
  - apply andb_true_iff in K. destruct K as [Ka Kb]. apply negb_true_iff in Ka, Kb. rewrite Ka, Kb. reflexivity.
Qed.
Lemma em_ign_lines : forall ls s, Forall (fun l => em_ign_ok l = true) ls -> fold_left (em_line true) ls s = s.
Proof.
  induction ls as [|l ls IH]; intros s H; [reflexivity|]. inversion H; subst. cbn [fold_left].
  rewrite em_ign_line by assumption. apply IH. assumption.
Qed.

Lemma em_id_line : forall id rest i0 sci defb seqb tax out, Forall (fun c => (c =? 59) = false) id ->
  (rest = [] \/ exists x, rest = 59 :: x) ->
  em_line true (mkem i0 sci defb seqb tax out) (s_ID ++ id ++ rest) = mkem id sci defb seqb tax out.
Proof.
  intros id rest i0 sci defb seqb tax out Hid Hrest. unfold em_line. rewrite has_prefix_app.
  cbn [em_id em_sci em_defb em_seqb em_tax em_out]. change (skipn 5 (s_ID ++ id ++ rest)) with (id ++ rest).
  destruct Hrest as [Hr|(x & Hr)]; subst rest.
  - rewrite app_nil_r, upto_all by exact Hid. reflexivity.
  - rewrite upto_app by exact Hid. reflexivity.
Qed.

Lemma em_os_line : forall a x b id sci defb seqb tax out, pad a -> pad b -> trimmed x ->
  em_line true (mkem id sci defb seqb tax out) (s_OS ++ a ++ x ++ b) = mkem id x defb seqb tax out.
Proof.
  intros a x b id sci defb seqb tax out Ha Hb Hx. unfold em_line.
  change (has_prefix s_ID (s_OS ++ a ++ x ++ b)) with false. rewrite has_prefix_app.
  cbn [em_id em_sci em_defb em_seqb em_tax em_out]. change (skipn 5 (s_OS ++ a ++ x ++ b)) with (a ++ x ++ b).
  rewrite trim_pad by assumption. reflexivity.
Qed.

Lemma em_de_line : forall x id sci defb seqb tax out, pd_ok x ->
  em_line true (mkem id sci defb seqb tax out) (s_DE ++ pd_raw x) =
  mkem id sci ((match defb with [] => [] | d => d ++ [32] end) ++ pd_t x) seqb tax out.
Proof.
  intros x id sci defb seqb tax out (Ha & Hb & Ht). unfold em_line.
  change (has_prefix s_ID (s_DE ++ pd_raw x)) with false. change (has_prefix s_OS (s_DE ++ pd_raw x)) with false.
  rewrite has_prefix_app. cbn [em_id em_sci em_defb em_seqb em_tax em_out].
  change (skipn 5 (s_DE ++ pd_raw x)) with (pd_raw x). unfold pd_raw. rewrite trim_pad by assumption. destruct defb; reflexivity.
Qed.

Lemma em_de_lines_run : forall d id sci defb seqb tax out, Forall (fun x => pd_ok x /\ pd_t x <> []) d -> defb <> [] ->
  fold_left (em_line true) (em_de_lines d) (mkem id sci defb seqb tax out) =
  mkem id sci (defb ++ concat (map (fun y => 32 :: pd_t y) d)) seqb tax out.
Proof.
  induction d as [|x d IH]; intros id sci defb seqb tax out Hd Hne.
  - cbn. rewrite app_nil_r. reflexivity.
  - inversion Hd as [|? ? [Hx Hxn] Hd']; subst. cbn [em_de_lines map fold_left]. rewrite em_de_line by exact Hx.
    destruct defb as [|c defb]; [contradiction|].
    change (map (fun x0 => s_DE ++ pd_raw x0) d) with (em_de_lines d). rewrite IH; [|exact Hd'|destruct defb; discriminate].
    cbn [concat]. repeat rewrite <- app_assoc. reflexivity.
Qed.

Lemma em_de_lines_run0 : forall d id sci seqb tax out, Forall (fun x => pd_ok x /\ pd_t x <> []) d ->
  fold_left (em_line true) (em_de_lines d) (mkem id sci [] seqb tax out) = mkem id sci (def_text d) seqb tax out.
Proof.
  intros [|x d] id sci seqb tax out Hd; [reflexivity|].
  inversion Hd as [|? ? [Hx Hxn] Hd']; subst. cbn [em_de_lines map fold_left]. rewrite em_de_line by exact Hx.
  change (map (fun x0 => s_DE ++ pd_raw x0) d) with (em_de_lines d). cbn [app].
  rewrite em_de_lines_run by assumption. reflexivity.
Qed.

Lemma em_xref_line : forall ds rest id sci defb seqb tax out, ds <> [] -> Forall (fun c => is_digit c = true) ds ->
  em_line true (mkem id sci defb seqb tax out) (s_embl_xref ++ ds ++ 34%N :: rest) = mkem id sci defb seqb (dec_val ds) out.
Proof.
  intros ds rest id sci defb seqb tax out Hne Hds. unfold em_line.
  change (has_prefix s_ID (s_embl_xref ++ ds ++ 34%N :: rest)) with false.
  change (has_prefix s_OS (s_embl_xref ++ ds ++ 34%N :: rest)) with false.
  change (has_prefix s_DE (s_embl_xref ++ ds ++ 34%N :: rest)) with false.
  change (has_prefix s_FT (s_embl_xref ++ ds ++ 34%N :: rest)) with true.
  rewrite has_prefix_app. cbn [em_id em_sci em_defb em_seqb em_tax em_out].
  change (skipn 37 (s_embl_xref ++ ds ++ 34%N :: rest)) with (ds ++ 34%N :: rest).
  rewrite upto_app by (apply digit_not34; exact Hds). rewrite atoi_dec by assumption. reflexivity.
Qed.

Lemma removelast_app1 : forall (A : Type) (l : list A) (x : A), removelast (l ++ [x]) = l.
Proof. intros. rewrite removelast_app by discriminate. cbn. apply app_nil_r. Qed.

Lemma em_seq_line_run : forall sl id sci defb seqb tax out, em_seq_line_ok sl ->
  em_line true (mkem id sci defb seqb tax out) (em_seq_line sl) = mkem id sci defb (seqb ++ concat (fst sl)) tax out.
Proof.
  intros [gs tail] id sci defb seqb tax out (Hgs & Hn). cbn [fst snd] in *. unfold em_line, em_seq_line. cbn [fst snd].
  change (has_prefix s_ID (spaces 5 ++ join32 (gs ++ [tail]))) with false.
  change (has_prefix s_OS (spaces 5 ++ join32 (gs ++ [tail]))) with false.
  change (has_prefix s_DE (spaces 5 ++ join32 (gs ++ [tail]))) with false.
  change (has_prefix s_FT (spaces 5 ++ join32 (gs ++ [tail]))) with false.
  rewrite has_prefix_app. cbn [em_id em_sci em_defb em_seqb em_tax em_out].
  change (skipn 5 (spaces 5 ++ join32 (gs ++ [tail]))) with (join32 (gs ++ [tail])).
  rewrite splitn_join_tail; [rewrite removelast_app1; reflexivity|exact Hgs|].
  destruct Hn as [Hn|[Hn Ht]]; [left; lia|right; split; [lia|exact Ht]].
Qed.

Lemma em_seq_lines_run : forall sls id sci defb seqb tax out, Forall em_seq_line_ok sls ->
  fold_left (em_line true) (map em_seq_line sls) (mkem id sci defb seqb tax out) = mkem id sci defb (seqb ++ em_seq_text sls) tax out.
Proof.
  induction sls as [|sl sls IH]; intros id sci defb seqb tax out H.
  - cbn. rewrite app_nil_r. reflexivity.
  - inversion H; subst. cbn [map fold_left]. rewrite em_seq_line_run by assumption. rewrite IH by assumption.
    unfold em_seq_text. cbn [map concat]. rewrite <- app_assoc. reflexivity.
Qed.

Lemma em_record_run : forall lay r out, valid_embl (lay, r) ->
  fold_left (em_line true) (em_rec_lines lay r) (mkem [] [] [] [] 1 out) = mkem [] [] [] [] 1 (r :: out).
Proof.
  intros lay r out Hv. unfold valid_embl in Hv. cbn [fst snd] in Hv.
  destruct Hv as (_ & _ & _ & _ & Hid & Hidr & Hdef & Hrdef & H1 & H2 & H3 & H4 & Hsrc & Hx & Hsq & Hrseq & Hq).
  unfold em_rec_lines, em_body_lines.
  repeat rewrite fold_left_app. cbn [fold_left].
  rewrite em_id_line by assumption. rewrite (em_ign_lines (el_hdr1 lay)) by exact H1. rewrite em_de_lines_run0 by exact Hdef.
  rewrite (em_ign_lines (el_hdr2 lay)) by exact H2.
  assert (Hr3 : fold_left (em_line true) match el_src lay with None => [] | Some (a, b) => [s_OS ++ a ++ rsci r ++ b] end
                  (mkem (rid r) [] (def_text (el_def lay)) [] 1 out) = mkem (rid r) (rsci r) (def_text (el_def lay)) [] 1 out).
  { destruct (el_src lay) as [[a b]|].
    - destruct Hsrc as (Ha & Hb & Ht). cbn [fold_left]. apply em_os_line; assumption.
    - rewrite Hsrc. reflexivity. }
  rewrite Hr3. clear Hr3. rewrite (em_ign_lines (el_hdr3 lay)) by exact H3.
  assert (Hr4 : fold_left (em_line true) match el_xref lay with None => [] | Some (ds, rest) => [s_embl_xref ++ ds ++ 34%N :: rest] end
                  (mkem (rid r) (rsci r) (def_text (el_def lay)) [] 1 out) =
                mkem (rid r) (rsci r) (def_text (el_def lay)) [] (match rtax r with Some t => t | None => 0%Z end) out).
  { destruct (el_xref lay) as [[ds rest]|].
    - destruct Hx as (Hne & Hds & _ & Ht). cbn [fold_left]. rewrite em_xref_line by assumption. rewrite Ht. reflexivity.
    - rewrite Hx. reflexivity. }
  rewrite Hr4. clear Hr4. rewrite (em_ign_lines (el_hdr4 lay)) by exact H4. rewrite em_seq_lines_run by exact Hsq.
  cbn [app]. change (em_line true ?s s_end) with (mkem [] [] [] [] 1 (flat_rec (em_id s) (em_defb s) (em_seqb s) (em_sci s) (em_tax s) :: em_out s)).
  cbn [em_id em_sci em_defb em_seqb em_tax em_out]. unfold flat_rec. f_equal. f_equal.
  destruct r as [id d sq q t sc]. cbn [rid rdef rseq rqual rtax rsci] in *. subst d sq q.
  f_equal. destruct (el_xref lay) as [[ds rest]|]; [destruct Hx as (_ & _ & _ & Ht)|]; subst t; reflexivity.
Qed.

Lemma em_records_run : forall lrs out, Forall valid_embl lrs ->
  fold_left (em_line true) (lines_aux true (print_embl lrs) []) (mkem [] [] [] [] 1 out) =
  mkem [] [] [] [] 1 (rev (map snd lrs) ++ out).
Proof.
  induction lrs as [|[lay r] lrs IH]; intros out Hv; [reflexivity|].
  inversion Hv as [|? ? Hv1 Hv2]; subst. unfold print_embl. cbn [map concat]. unfold print_embl1 at 1. cbn [fst snd].
  pose proof Hv1 as (He & Hbl & Hok & _). cbn [fst snd] in He, Hbl, Hok.
  rewrite <- app_assoc, lines_print by assumption. rewrite lines_blank by assumption.
  rewrite fold_left_app, (em_record_run _ _ _ Hv1), fold_left_app, em_blanks.
  change (concat (map print_embl1 lrs)) with (print_embl lrs). rewrite IH by exact Hv2.
  cbn [rev]. rewrite <- app_assoc. reflexivity.
Qed.

Theorem embl_print_parse : forall lrs, Forall valid_embl lrs -> embl_parse (print_embl lrs) = Some (map snd lrs).
Proof.
  intros lrs Hv. unfold embl_parse, embl_parse_gen, lines_scanner, embl_parse_lines, em_init.
  rewrite em_records_run by exact Hv. cbn [em_out]. rewrite app_nil_r, rev_involutive. reflexivity.
Qed.

Lemma embl_print_inv : forall lrs, Forall valid_embl lrs -> flat_inv3 (print_embl lrs).
Proof.
  induction lrs as [|[lay r] lrs IH]; intros Hv; [left; constructor|].
  inversion Hv as [|? ? Hv1 Hv2]; subst. pose proof Hv1 as (He & Hbl & _). cbn [fst snd] in He, Hbl.
  unfold print_embl. cbn [map concat]. change (concat (map print_embl1 lrs)) with (print_embl lrs).
  destruct (IH Hv2) as [Hall|(p & cr & t & Hw & Hcr & Ht)].
  - right. unfold print_embl1. cbn [fst snd]. unfold em_rec_lines. rewrite print_lines_app.
    destruct (eol_ok_term _ He) as (cr & Hcr & Hterm).
    exists (print_lines (el_eol lay) (em_body_lines lay r)), cr, (concat (el_blank lay) ++ print_embl lrs).
    split; [|split; [exact Hcr|apply Forall_app; split; [apply concat_eols; exact Hbl|exact Hall]]].
    unfold print_lines at 2. cbn [map concat]. rewrite app_nil_r, Hterm. repeat rewrite <- app_assoc. reflexivity.
  - right. exists (print_embl1 (lay, r) ++ p), cr, t. split; [|auto]. rewrite Hw. repeat rewrite <- app_assoc. reflexivity.
Qed.

(** * Whole reader on flat files: any buffer size, any arrival order of the parsed batches *)
Theorem read_genbank_any_order : forall B file recs, (1 <= B)%nat ->
  genbank_parse file = Some recs -> flat_inv3 file ->
  exists l bs, chunker flat_split B file = Some l /\
    Forall2 (fun c b => genbank_parse (snd c) = Some b) l bs /\ concat bs = recs /\
    forall arr, Permutation arr (combine (map fst l) bs) -> out (run arr) = bs /\ pend (run arr) = [].
Proof.
  intros B file recs HB Hp Hc.
  destruct (read_genbank_eols B file recs HB Hp Hc) as (l & Hl & Hn & Hpc).
  destruct (parse_chunks_batches _ _ _ Hpc) as (bs & Hf & Hcat).
  exists l, bs. repeat split; auto; eapply batches_any_order; eauto.
Qed.
Theorem read_embl_any_order : forall B file recs, (1 <= B)%nat ->
  embl_parse file = Some recs -> flat_inv3 file ->
  exists l bs, chunker flat_split B file = Some l /\
    Forall2 (fun c b => embl_parse (snd c) = Some b) l bs /\ concat bs = recs /\
    forall arr, Permutation arr (combine (map fst l) bs) -> out (run arr) = bs /\ pend (run arr) = [].
Proof.
  intros B file recs HB Hp Hc.
  destruct (read_embl_eols B file recs HB Hp Hc) as (l & Hl & Hn & Hpc).
  destruct (parse_chunks_batches _ _ _ Hpc) as (bs & Hf & Hcat).
  exists l, bs. repeat split; auto; eapply batches_any_order; eauto.
Qed.

Theorem read_genbank_printed : forall B lrs, (1 <= B)%nat -> Forall valid_gb lrs ->
  exists l bs, chunker flat_split B (print_gb lrs) = Some l /\
    Forall2 (fun c b => genbank_parse (snd c) = Some b) l bs /\ concat bs = map snd lrs /\
    forall arr, Permutation arr (combine (map fst l) bs) -> out (run arr) = bs /\ pend (run arr) = [].
Proof.
  intros B lrs HB Hv. exact (read_genbank_any_order B _ _ HB (genbank_print_parse lrs Hv) (gb_print_inv lrs Hv)).
Qed.
Theorem read_embl_printed : forall B lrs, (1 <= B)%nat -> Forall valid_embl lrs ->
  exists l bs, chunker flat_split B (print_embl lrs) = Some l /\
    Forall2 (fun c b => embl_parse (snd c) = Some b) l bs /\ concat bs = map snd lrs /\
    forall arr, Permutation arr (combine (map fst l) bs) -> out (run arr) = bs /\ pend (run arr) = [].
Proof.
  intros B lrs HB Hv. exact (read_embl_any_order B _ _ HB (embl_print_parse lrs Hv) (embl_print_inv lrs Hv)).
Qed.

Lemma flat_inv2_inv3 : forall w, flat_inv2 w -> flat_inv3 w.
Proof.
  intros w [(k & Hk)|(p & cr & k & Hw & Hcr)]; [left; subst w; apply lfs_eol|].
  right. exists p, cr, (lfs k). split; [exact Hw|split; [exact Hcr|apply lfs_eol]].
Qed.

Ltac chars := repeat (constructor; [reflexivity|]); try constructor.
Ltac trimmed_tac := split; intros c x' H; cbn in H; inversion H; reflexivity.

(* record 1: CR LF, three DEFINITION lines, SOURCE + ORGANISM, taxon cross-reference, two numbered ORIGIN lines in
   upper / mixed case, a CR LF blank line; record 2: LF, no DEFINITION / SOURCE / taxon, empty lines after the last "//" *)
Definition ex_gl1 : gb_layout := mkgbl [13;10] [32;55;48;32;98;112;32;32;32;32;68;78;65;32;32;32;32;32;108;105;110;101;97;114;32;32;32;80;76;78;32;48;49;45;74;65;78;45;50;48;48;48]
  [(mkpd [] [72;111;109;111;32;115;97;112;105;101;110;115;32;103;101;110;101;44] [32;32]); (mkpd [32;32] [101;120;111;110;32;49;59;32;112;97;114;116;105;97;108] []); (mkpd [] [99;100;115;46] [32])]
  [[65;67;67;69;83;83;73;79;78;32;32;32;65;66;48;48;48;48;48;49]; [86;69;82;83;73;79;78;32;32;32;32;32;65;66;48;48;48;48;48;49;46;49]; [75;69;89;87;79;82;68;83;32;32;32;32;46]]
  (Some ([], [32], [[32;32;79;82;71;65;78;73;83;77;32;32;72;111;109;111;32;115;97;112;105;101;110;115]; [32;32;32;32;32;32;32;32;32;32;32;32;69;117;107;97;114;121;111;116;97;59;32;77;101;116;97;122;111;97;46]]))
  [32;32;32;32;32;32;32;32;32;76;111;99;97;116;105;111;110;47;81;117;97;108;105;102;105;101;114;115] [[32;32;32;32;32;115;111;117;114;99;101;32;32;32;32;32;32;32;32;32;32;49;46;46;55;48]; [32;32;32;32;32;32;32;32;32;32;32;32;32;32;32;32;32;32;32;32;32;47;111;114;103;97;110;105;115;109;61;34;72;111;109;111;32;115;97;112;105;101;110;115;34]] (Some ([57;54;48;54], [])) [[32;32;32;32;32;32;32;32;32;32;32;32;32;32;32;32;32;32;32;32;32;47;109;111;108;95;116;121;112;101;61;34;103;101;110;111;109;105;99;32;68;78;65;34]] []
  [([32;32;32;32;32;32;32;32;49;32], [[65;67;71;84;65;67;71;84;65;67]; [103;116;97;99;103;116;97;99;103;116]; [97;99;103;116;78;78;78;78;97;99]; [103;116;97;99;103;116;97;99;103;116]; [97;99;103;116;97;99;103;116;97;99]; [103;116;97;99;103;116;97;99;103;116]]); ([32;32;32;32;32;32;32;54;49;32], [[65;99;71;116;97;99;103;116;97;99]])]
  [[13;10]].
Definition ex_gr1 : rec := mkrec [65;66;48;48;48;48;48;49] [72;111;109;111;32;115;97;112;105;101;110;115;32;103;101;110;101;44;32;101;120;111;110;32;49;59;32;112;97;114;116;105;97;108;32;99;100;115;46] [97;99;103;116;97;99;103;116;97;99;103;116;97;99;103;116;97;99;103;116;97;99;103;116;110;110;110;110;97;99;103;116;97;99;103;116;97;99;103;116;97;99;103;116;97;99;103;116;97;99;103;116;97;99;103;116;97;99;103;116;97;99;103;116;97;99;103;116;97;99] None (Some 9606%Z) [72;111;109;111;32;115;97;112;105;101;110;115].
Definition ex_gl2 : gb_layout := mkgbl [10] [] [] [] None [32;32;32;32;32;32;32;32;32;32;32;32;32;76;111;99;97;116;105;111;110;47;81;117;97;108;105;102;105;101;114;115] [] None [] [] [([32;32;32;32;32;32;32;32;49;32], [[116;116;116;116;116]])] [[10]; [13;10]; [10]].
Definition ex_gr2 : rec := mkrec [88;50] [] [116;116;116;116;116] None (Some 1%Z) [].

Ltac trim_tac := split; intros c x' H; cbn in H; inversion H; reflexivity.
Ltac frefl := repeat (constructor; [reflexivity|]); constructor.
Ltac pd_tac := repeat (constructor; [unfold pd_ok; cbn; split; [frefl|split; [frefl|trim_tac]]|]); constructor.
Ltac seq_tac := repeat (constructor; [unfold seq_line_ok; cbn; split; [reflexivity|split; [frefl|split; [discriminate|split; [lia|repeat (constructor; [frefl|]); constructor]]]]|]); constructor.
Ltac lines_tac := cbn; repeat (constructor; [frefl|]); constructor.
Ltac len_tac := cbn; repeat (constructor; [apply Nat.leb_le; reflexivity|]); constructor.
Ltac eols_tac := repeat (constructor; [first [left; reflexivity|right; reflexivity]|]); constructor.

Lemma ex_gb_valid1 : valid_gb (ex_gl1, ex_gr1).
Proof.
  unfold valid_gb. cbn [fst snd].
  split; [right; reflexivity|]. split; [eols_tac|]. split; [lines_tac|]. split; [len_tac|].
  split; [frefl|]. split; [right; eexists; reflexivity|]. split; [pd_tac|]. split; [reflexivity|].
  split; [frefl|]. split; [cbn; split; [frefl|split; [frefl|split; [trim_tac|frefl]]]|].
  split; [frefl|]. split; [frefl|]. split; [cbn; split; [discriminate|split; [frefl|split; [cbn; lia|reflexivity]]]|].
  split; [seq_tac|]. split; reflexivity.
Qed.
Lemma ex_gb_valid2 : valid_gb (ex_gl2, ex_gr2).
Proof.
  unfold valid_gb. cbn [fst snd].
  split; [left; reflexivity|]. split; [eols_tac|]. split; [lines_tac|]. split; [len_tac|].
  split; [frefl|]. split; [left; reflexivity|]. split; [pd_tac|]. split; [reflexivity|].
  split; [frefl|]. split; [reflexivity|].
  split; [frefl|]. split; [frefl|]. split; [reflexivity|].
  split; [seq_tac|]. split; reflexivity.
Qed.

Lemma ex_gb_print :
  genbank_parse (print_gb [(ex_gl1, ex_gr1); (ex_gl2, ex_gr2)]) = Some [ex_gr1; ex_gr2] /\
  option_map (@length _) (chunker flat_split 50 (print_gb [(ex_gl1, ex_gr1); (ex_gl2, ex_gr2)])) = Some 3%nat.
Proof. vm_compute. split; reflexivity. Qed.

(* EMBL. record 1: CR LF, two DE lines, OS, taxon cross-reference, a full sequence line and a padded last line in
   mixed case; record 2: LF, identifier without ';', nothing else; empty lines after the last "//" *)
Definition ex_el1 : em_layout := mkeml [13;10] [59;32;83;86;32;49;59;32;108;105;110;101;97;114;59;32;103;101;110;111;109;105;99;32;68;78;65;59;32;83;84;68;59;32;80;76;78;59;32;55;48;32;66;80;46] [[88;88]; [65;67;32;32;32;88;48;48;48;48;49;59]] [(mkpd [] [72;111;109;111;32;115;97;112;105;101;110;115;32;103;101;110;101;44] [32]); (mkpd [32] [101;120;111;110;32;49] [])] [[88;88]; [75;87;32;32;32;46]] (Some ([], [32;32])) [[79;67;32;32;32;69;117;107;97;114;121;111;116;97;59;32;77;101;116;97;122;111;97;46]; [88;88]; [70;72;32;32;32;75;101;121;32;32;32;32;32;32;32;32;32;32;32;32;32;76;111;99;97;116;105;111;110;47;81;117;97;108;105;102;105;101;114;115]; [70;72]; [70;84;32;32;32;115;111;117;114;99;101;32;32;32;32;32;32;32;32;32;32;49;46;46;55;48]; [70;84;32;32;32;32;32;32;32;32;32;32;32;32;32;32;32;32;32;32;32;47;111;114;103;97;110;105;115;109;61;34;72;111;109;111;32;115;97;112;105;101;110;115;34]] (Some ([57;54;48;54], [])) [[70;84;32;32;32;32;32;32;32;32;32;32;32;32;32;32;32;32;32;32;32;47;109;111;108;95;116;121;112;101;61;34;103;101;110;111;109;105;99;32;68;78;65;34]; [88;88]; [83;81;32;32;32;83;101;113;117;101;110;99;101;32;55;48;32;66;80;59]]
  [([[65;67;71;84;65;67;71;84;65;67]; [103;116;97;99;103;116;97;99;103;116]; [97;99;103;116;78;78;78;78;97;99]; [103;116;97;99;103;116;97;99;103;116]; [97;99;103;116;97;99;103;116;97;99]; [103;116;97;99;103;116;97;99;103;116]], [32;32;32;32;32;32;32;54;48]); ([[65;99;71;116;97;99;103;116;97;99]; []; []; []; []; []], [32;32;32;32;32;32;32;32;32;32;32;32;32;32;32;32;32;32;32;32;32;32;32;32;32;32;32;32;32;32;32;32;32;32;32;32;32;32;32;32;32;32;32;32;32;32;32;32;32;32;32;32;32;32;32;55;48])] [[13;10]].
Definition ex_er1 : rec := mkrec [88;48;48;48;48;49] [72;111;109;111;32;115;97;112;105;101;110;115;32;103;101;110;101;44;32;101;120;111;110;32;49] [97;99;103;116;97;99;103;116;97;99;103;116;97;99;103;116;97;99;103;116;97;99;103;116;110;110;110;110;97;99;103;116;97;99;103;116;97;99;103;116;97;99;103;116;97;99;103;116;97;99;103;116;97;99;103;116;97;99;103;116;97;99;103;116;97;99;103;116;97;99] None (Some 9606%Z) [72;111;109;111;32;115;97;112;105;101;110;115].
Definition ex_el2 : em_layout := mkeml [10] [] [] [] [] None [] None [[83;81;32;32;32;83;101;113;117;101;110;99;101;32;53;32;66;80;59]] [([[116;116;116;116;116]], [53])] [[10]; [13;10]; [10]].
Definition ex_er2 : rec := mkrec [88;50] [] [116;116;116;116;116] None (Some 1%Z) [].

Ltac pd2_tac := repeat (constructor; [split; [unfold pd_ok; cbn; split; [frefl|split; [frefl|trim_tac]]|discriminate]|]); constructor.
Ltac eseq_tac := repeat (constructor; [unfold em_seq_line_ok; cbn; split; [repeat (constructor; [frefl|]); constructor|first [left; reflexivity|right; split; [lia|frefl]]]|]); constructor.

Lemma ex_embl_valid1 : valid_embl (ex_el1, ex_er1).
Proof.
  unfold valid_embl. cbn [fst snd].
  split; [right; reflexivity|]. split; [eols_tac|]. split; [lines_tac|]. split; [len_tac|].
  split; [frefl|]. split; [right; eexists; reflexivity|]. split; [pd2_tac|]. split; [reflexivity|].
  split; [frefl|]. split; [frefl|]. split; [frefl|]. split; [frefl|].
  split; [cbn; split; [frefl|split; [frefl|trim_tac]]|].
  split; [cbn; split; [discriminate|split; [frefl|split; [cbn; lia|reflexivity]]]|].
  split; [eseq_tac|]. split; reflexivity.
Qed.
Lemma ex_embl_valid2 : valid_embl (ex_el2, ex_er2).
Proof.
  unfold valid_embl. cbn [fst snd].
  split; [left; reflexivity|]. split; [eols_tac|]. split; [lines_tac|]. split; [len_tac|].
  split; [frefl|]. split; [left; reflexivity|]. split; [pd2_tac|]. split; [reflexivity|].
  split; [frefl|]. split; [frefl|]. split; [frefl|]. split; [frefl|].
  split; [reflexivity|]. split; [reflexivity|].
  split; [eseq_tac|]. split; reflexivity.
Qed.

Lemma ex_embl_print :
  embl_parse (print_embl [(ex_el1, ex_er1); (ex_el2, ex_er2)]) = Some [ex_er1; ex_er2] /\
  option_map (@length _) (chunker flat_split 50 (print_embl [(ex_el1, ex_er1); (ex_el2, ex_er2)])) = Some 3%nat.
Proof. vm_compute. split; reflexivity. Qed.


(** * Decidable well-formedness: every generated flat file is checked, on every run, to be the image by the printer
    of a valid layout -- so the round-trip theorems apply to the very bytes the real parsers were run on *)
Lemma list_eqb_true : forall a b, list_eqb a b = true -> a = b.
Proof.
  induction a as [|x a IH]; intros [|y b] H; cbn in H; try discriminate; [reflexivity|].
  apply andb_true_iff in H. destruct H as [H1 H2]. apply N.eqb_eq in H1. subst y. f_equal. apply IH. exact H2.
Qed.
Lemma forallb_Forall : forall (A : Type) (f : A -> bool) l, forallb f l = true -> Forall (fun x => f x = true) l.
Proof. intros A f l H. apply Forall_forall. apply forallb_forall. exact H. Qed.
Lemma forallb_Forall_neg : forall (f : N -> bool) l, forallb (fun c => negb (f c)) l = true -> Forall (fun c => f c = false) l.
Proof. intros f l H. apply forallb_Forall in H. eapply Forall_impl; [|exact H]. intros c Hc. apply negb_true_iff. exact Hc. Qed.
Lemma forallb_Forall_P : forall (A : Type) (f : A -> bool) (P : A -> Prop) l, (forall x, f x = true -> P x) -> forallb f l = true -> Forall P l.
Proof. intros A f P l Hf H. apply forallb_Forall in H. eapply Forall_impl; [|exact H]. exact Hf. Qed.



Lemma eol_okb_ok : forall e, eol_okb e = true -> eol_ok e.
Proof. intros e H. apply orb_true_iff in H. destruct H as [H|H]; apply list_eqb_true in H; [left|right]; exact H. Qed.
Lemma line_okb_ok : forall l, line_okb l = true -> line_ok l.
Proof. intros l H. apply forallb_Forall_neg. exact H. Qed.
Lemma no32b_ok : forall g, no32b g = true -> no32 g.
Proof. intros g H. apply forallb_Forall_neg in H. exact H. Qed.
Lemma padb_ok : forall a, padb a = true -> pad a.
Proof. intros a H. apply forallb_Forall. exact H. Qed.
Lemma trimmedb_ok : forall x, trimmedb x = true -> trimmed x.
Proof.
  intros x H. apply andb_true_iff in H. destruct H as [H1 H2]. split; intros c x' E.
  - rewrite E in H1. apply negb_true_iff. exact H1.
  - rewrite E in H2. apply negb_true_iff. exact H2.
Qed.
Lemma pd_okb_ok : forall x, pd_okb x = true -> pd_ok x.
Proof.
  intros x H. unfold pd_okb in H. repeat (apply andb_true_iff in H; let K := fresh "K" in destruct H as [H K]).
  split; [apply padb_ok; exact H|split; [apply padb_ok; exact K0|apply trimmedb_ok; exact K]].
Qed.
Lemma nilb_ok : forall (A : Type) (l : list A), nilb l = true -> l = [].
Proof. intros A [|x l] H; [reflexivity|discriminate]. Qed.
Lemma seq_line_okb_ok : forall sl, seq_line_okb sl = true -> seq_line_ok sl.
Proof.
  intros sl H. unfold seq_line_okb in H. repeat (apply andb_true_iff in H; let K := fresh "K" in destruct H as [H K]).
  split; [apply Nat.eqb_eq; exact H|]. split; [apply forallb_Forall; exact K2|].
  split; [intros E; rewrite E in K1; discriminate|]. split; [apply Nat.leb_le; exact K0|].
  eapply forallb_Forall_P; [exact no32b_ok|exact K].
Qed.
Lemma locus_restb_ok : forall x, locus_restb x = true -> x = [] \/ exists y, x = 32 :: y.
Proof. intros [|c x] H; [left; reflexivity|right]. apply N.eqb_eq in H. subst c. eexists. reflexivity. Qed.
Lemma opt_eqb_Z : forall a v, opt_eqb Z.eqb a (Some v) = true -> a = Some v.
Proof. intros [a|] v H; [|discriminate]. cbn in H. apply Z.eqb_eq in H. subst. reflexivity. Qed.
Lemma taxb_ok : forall r x, taxb r x = true ->
  match x with
  | None => rtax r = Some 1%Z
  | Some (ds, _) => ds <> [] /\ Forall (fun c => is_digit c = true) ds /\ (length ds <= 18)%nat /\ rtax r = Some (dec_val ds)
  end.
Proof.
  intros r [[ds rest]|] H; unfold taxb in H; [|apply opt_eqb_Z; exact H].
  apply andb_true_iff in H. destruct H as [H Ht]. unfold digitsb in H.
  repeat (apply andb_true_iff in H; let K := fresh "K" in destruct H as [H K]).
  split; [intros E; rewrite E in H; discriminate|]. split; [apply forallb_Forall; exact K0|].
  split; [apply Nat.leb_le; exact K|apply opt_eqb_Z; exact Ht].
Qed.
Lemma qualb_ok : forall r, nilb (match rqual r with None => [] | Some _ => [tt] end) = true -> rqual r = None.
Proof. intros r H. destruct (rqual r); [discriminate|reflexivity]. Qed.

Theorem valid_gbb_ok : forall lr, valid_gbb lr = true -> valid_gb lr.
Proof.
  intros lr H. unfold valid_gbb in H. cbv zeta in H.
  repeat (apply andb_true_iff in H; let K := fresh "K" in destruct H as [H K]).
  unfold valid_gb. cbv zeta.
  split; [apply eol_okb_ok; exact H|]. split; [eapply forallb_Forall_P; [exact eol_okb_ok|exact K13]|].
  split; [eapply forallb_Forall_P; [exact line_okb_ok|exact K12]|].
  split; [eapply forallb_Forall_P; [|exact K11]; intros x Hx; apply Nat.leb_le; exact Hx|].
  split; [apply no32b_ok; exact K10|]. split; [apply locus_restb_ok; exact K9|].
  split; [eapply forallb_Forall_P; [exact pd_okb_ok|exact K8]|]. split; [apply list_eqb_true; exact K7|].
  split; [apply forallb_Forall; exact K6|].
  split.
  { destruct (gl_src (fst lr)) as [[[a b] h2]|]; [|apply nilb_ok; exact K5].
    repeat (apply andb_true_iff in K5; let J := fresh "J" in destruct K5 as [K5 J]).
    split; [apply padb_ok; exact K5|]. split; [apply padb_ok; exact J1|]. split; [apply trimmedb_ok; exact J0|apply forallb_Forall; exact J]. }
  split; [apply forallb_Forall; exact K4|]. split; [apply forallb_Forall; exact K3|].
  split; [apply taxb_ok; exact K2|].
  split; [eapply forallb_Forall_P; [exact seq_line_okb_ok|exact K1]|].
  split; [apply list_eqb_true; exact K0|apply qualb_ok; exact K].
Qed.



Lemma id_restb_ok : forall x, id_restb x = true -> x = [] \/ exists y, x = 59 :: y.
Proof. intros [|c x] H; [left; reflexivity|right]. apply N.eqb_eq in H. subst c. eexists. reflexivity. Qed.
Lemma em_seq_line_okb_ok : forall sl, em_seq_line_okb sl = true -> em_seq_line_ok sl.
Proof.
  intros sl H. unfold em_seq_line_okb in H. apply andb_true_iff in H. destruct H as [H1 H2].
  split; [eapply forallb_Forall_P; [exact no32b_ok|exact H1]|].
  apply orb_true_iff in H2. destruct H2 as [H2|H2]; [left; apply Nat.eqb_eq; exact H2|right].
  apply andb_true_iff in H2. destruct H2 as [Ha Hb]. split; [apply Nat.ltb_lt; exact Ha|apply no32b_ok; exact Hb].
Qed.

Theorem valid_emblb_ok : forall lr, valid_emblb lr = true -> valid_embl lr.
Proof.
  intros lr H. unfold valid_emblb in H. cbv zeta in H.
  repeat (apply andb_true_iff in H; let K := fresh "K" in destruct H as [H K]).
  unfold valid_embl. cbv zeta.
  split; [apply eol_okb_ok; exact H|]. split; [eapply forallb_Forall_P; [exact eol_okb_ok|exact K14]|].
  split; [eapply forallb_Forall_P; [exact line_okb_ok|exact K13]|].
  split; [eapply forallb_Forall_P; [|exact K12]; intros x Hx; apply Nat.leb_le; exact Hx|].
  split; [apply forallb_Forall_neg; exact K11|]. split; [apply id_restb_ok; exact K10|].
  split.
  { eapply forallb_Forall_P; [|exact K9]. intros x Hx. apply andb_true_iff in Hx. destruct Hx as [Ha Hb].
    split; [apply pd_okb_ok; exact Ha|]. intros E. rewrite E in Hb. discriminate. }
  split; [apply list_eqb_true; exact K8|].
  split; [apply forallb_Forall; exact K7|]. split; [apply forallb_Forall; exact K6|].
  split; [apply forallb_Forall; exact K5|]. split; [apply forallb_Forall; exact K4|].
  split.
  { destruct (el_src (fst lr)) as [[a b]|]; [|apply nilb_ok; exact K3].
    repeat (apply andb_true_iff in K3; let J := fresh "J" in destruct K3 as [K3 J]).
    split; [apply padb_ok; exact K3|]. split; [apply padb_ok; exact J0|apply trimmedb_ok; exact J]. }
  split; [apply taxb_ok; exact K2|].
  split; [eapply forallb_Forall_P; [exact em_seq_line_okb_ok|exact K1]|].
  split; [apply list_eqb_true; exact K0|apply qualb_ok; exact K].
Qed.

(** the per-run check on generated files: [bytes] is what the real parsers were run on *)

Theorem pcase_gb_sound : forall lrs b, pcase_ok (PGb lrs b) = true ->
  genbank_parse b = Some (map snd lrs) /\
  forall B, (1 <= B)%nat -> exists l bs, chunker flat_split B b = Some l /\
    Forall2 (fun c x => genbank_parse (snd c) = Some x) l bs /\ concat bs = map snd lrs /\
    forall arr, Permutation arr (combine (map fst l) bs) -> out (run arr) = bs /\ pend (run arr) = [].
Proof.
  intros lrs b H. cbn [pcase_ok] in H. apply andb_true_iff in H. destruct H as [Hv Hb].
  apply list_eqb_true in Hb. subst b.
  assert (Hv' : Forall valid_gb lrs) by (eapply forallb_Forall_P; [exact valid_gbb_ok|exact Hv]).
  split; [apply genbank_print_parse; exact Hv'|]. intros B HB. apply read_genbank_printed; assumption.
Qed.
Theorem pcase_embl_sound : forall lrs b, pcase_ok (PEm lrs b) = true ->
  embl_parse b = Some (map snd lrs) /\
  forall B, (1 <= B)%nat -> exists l bs, chunker flat_split B b = Some l /\
    Forall2 (fun c x => embl_parse (snd c) = Some x) l bs /\ concat bs = map snd lrs /\
    forall arr, Permutation arr (combine (map fst l) bs) -> out (run arr) = bs /\ pend (run arr) = [].
Proof.
  intros lrs b H. cbn [pcase_ok] in H. apply andb_true_iff in H. destruct H as [Hv Hb].
  apply list_eqb_true in Hb. subst b.
  assert (Hv' : Forall valid_embl lrs) by (eapply forallb_Forall_P; [exact valid_emblb_ok|exact Hv]).
  split; [apply embl_print_parse; exact Hv'|]. intros B HB. apply read_embl_printed; assumption.
Qed.

Example pcase_examples : pcase_ok (PGb [(ex_gl1, ex_gr1); (ex_gl2, ex_gr2)] (print_gb [(ex_gl1, ex_gr1); (ex_gl2, ex_gr2)])) = true /\
                         pcase_ok (PEm [(ex_el1, ex_er1); (ex_el2, ex_er2)] (print_embl [(ex_el1, ex_er1); (ex_el2, ex_er2)])) = true.
Proof. vm_compute. split; reflexivity. Qed.
