(** C01 (round 3) -- proofs about the glue model (GlueModel.v): a failing transport under the chunk
    reader, the peek-and-rebuild reader of OBIMimeTypeGuesser. *)
From Coq Require Import NArith ZArith List Bool Arith Lia.
Import ListNotations.
From OBI.C01 Require Import Model Proofs GlueModel.

Lemma xof_nil : forall fail e, xof fail e = XNil <-> e = ENil.
Proof. intros fail e; destruct e, fail; cbn; split; congruence. Qed.

Definition lift4 (fail : bool) (x : list N * list N * rerr * option nat) : list N * list N * xerr * option nat :=
  let '(b, r, e, c) := x in (b, r, xof fail e, c).

Lemma extend_e_sim : forall spl B fail fuel buff rest e,
  extend_e spl B fail fuel buff rest (xof fail e) = option_map (lift4 fail) (extend spl B fuel buff rest e).
Proof.
  intros spl B fail. induction fuel as [|f IH]; intros buff rest e.
  - cbn [extend_e extend]. destruct e, fail; cbn [xof]; destruct (spl buff); reflexivity.
  - cbn [extend_e extend]. destruct e.
    + cbn [xof]. destruct (spl buff) as [c|].
      * reflexivity.
      * unfold readfull_e. destruct (readfull B rest) as [[got rest'] e']. apply IH.
    + destruct fail; cbn [xof]; destruct (spl buff); reflexivity.
    + destruct fail; cbn [xof]; destruct (spl buff); reflexivity.
Qed.

(** a clean transport: the extended reader is the reader of Model.v and does not die *)
Lemma outer_e_clean : forall spl B fuel buff rest i l,
  outer spl B fuel buff rest i = Some l -> outer_e spl B false fuel buff rest i = Some (l, false).
Proof.
  intros spl B. induction fuel as [|f IH]; intros buff rest i l H; [discriminate|].
  cbn [outer outer_e] in *.
  change XNil with (xof false ENil). rewrite extend_e_sim.
  destruct (extend spl B (S (length rest)) buff rest ENil) as [[[[buff1 rest1] err1] e]|]; [|discriminate].
  cbn [option_map lift4].
  destruct (emit buff1 e i) as [[sent buff2] i2].
  destruct err1; cbn [xof].
  - destruct (outer spl B f buff2 rest1 i2) as [l'|] eqn:Ho; [|discriminate].
    rewrite (IH _ _ _ _ Ho). inversion H; reflexivity.
  - inversion H; reflexivity.
  - inversion H; reflexivity.
Qed.

(** a transport that fails: the reader dies, and what it sent before is an initial part of what the
    clean reader sends on the bytes received *)
Lemma outer_e_fail : forall spl B fuel buff rest i l,
  outer spl B fuel buff rest i = Some l ->
  exists l1 l2, l = l1 ++ l2 /\ outer_e spl B true fuel buff rest i = Some (l1, true).
Proof.
  intros spl B. induction fuel as [|f IH]; intros buff rest i l H; [discriminate|].
  cbn [outer outer_e] in *.
  change XNil with (xof true ENil). rewrite extend_e_sim.
  destruct (extend spl B (S (length rest)) buff rest ENil) as [[[[buff1 rest1] err1] e]|]; [|discriminate].
  cbn [option_map lift4].
  destruct (emit buff1 e i) as [[sent buff2] i2].
  destruct err1; cbn [xof].
  - destruct (outer spl B f buff2 rest1 i2) as [l'|] eqn:Ho; [|discriminate].
    destruct (IH _ _ _ _ Ho) as (l1 & l2 & El & He). rewrite He.
    exists (sent ++ l1), l2. split; [|reflexivity].
    inversion H; subst. now rewrite app_assoc.
  - inversion H; subst. eexists sent, _. split; reflexivity.
  - inversion H; subst. eexists sent, _. split; reflexivity.
Qed.

Lemma chunker_e_clean : forall spl B data l,
  chunker spl B data = Some l -> chunker_e spl B false data = Some (l, false).
Proof.
  intros spl B data l H. unfold chunker, chunker_gen, chunker_fuel in H. unfold chunker_e, readfull_e.
  destruct (readfull B data) as [[got rest] err]. destruct err; cbn [xof].
  - now apply outer_e_clean.
  - inversion H; reflexivity.
  - now apply outer_e_clean.
Qed.

Lemma chunker_e_fail : forall spl B data l,
  chunker spl B data = Some l ->
  exists l1 l2, l = l1 ++ l2 /\ chunker_e spl B true data = Some (l1, true).
Proof.
  intros spl B data l H. unfold chunker, chunker_gen, chunker_fuel in H. unfold chunker_e, readfull_e.
  destruct (readfull B data) as [[got rest] err]. destruct err; cbn [xof].
  - now apply outer_e_fail.
  - exists [], l. split; reflexivity.
  - exists [], l. split; reflexivity.
Qed.

(** the two statements for every splitter answering inside its buffer, every buffer size and every data *)
Theorem chunker_clean_transport : forall spl B,
  (1 <= B)%nat -> (forall b c, spl b = Some c -> (0 < c <= length b)%nat) ->
  forall data, exists l, chunker_e spl B false data = Some (l, false) /\ chunker spl B data = Some l /\ partition spl 0 data l.
Proof.
  intros spl B HB Hr data. destruct (chunker_partition spl B B HB Hr data) as (l & Hc & Hp).
  exists l. repeat split; try assumption. now apply chunker_e_clean.
Qed.

Theorem chunker_io_error_fatal : forall spl B,
  (1 <= B)%nat -> (forall b c, spl b = Some c -> (0 < c <= length b)%nat) ->
  forall data, exists l1 l2, chunker_e spl B true data = Some (l1, true) /\ partition spl 0 data (l1 ++ l2).
Proof.
  intros spl B HB Hr data. destruct (chunker_partition spl B B HB Hr data) as (l & Hc & Hp).
  destruct (chunker_e_fail spl B data l Hc) as (l1 & l2 & El & He).
  exists l1, l2. split; [exact He|]. now rewrite <- El.
Qed.

(** never a clean end over a failing transport, never a death over a clean one (whatever the splitter does) *)
Theorem chunker_e_dies_iff_fails : forall spl B fail data l d,
  chunker_e spl B fail data = Some (l, d) -> d = fail.
Proof.
  intros spl B fail data l d. unfold chunker_e, readfull_e.
  destruct (readfull B data) as [[got rest] err].
  assert (Ho : forall fuel buff rest i l d, outer_e spl B fail fuel buff rest i = Some (l, d) -> d = fail).
  { induction fuel as [|f IH]; intros buff rest0 i l0 d0 H; [discriminate|].
    cbn [outer_e] in H. change XNil with (xof fail ENil) in H. rewrite extend_e_sim in H.
    destruct (extend spl B (S (length rest0)) buff rest0 ENil) as [[[[buff1 rest1] err1] e]|]; [|discriminate].
    cbn [option_map lift4] in H. destruct (emit buff1 e i) as [[sent buff2] i2].
    destruct err1, fail; cbn [xof] in H;
      try (destruct (outer_e spl B _ f buff2 rest1 i2) as [[l' d']|] eqn:Ho; [|discriminate];
           inversion H; subst; exact (IH _ _ _ _ _ Ho));
      inversion H; reflexivity. }
  destruct err, fail; cbn [xof]; intro H; try (exact (Ho _ _ _ _ _ _ H)); inversion H; reflexivity.
Qed.

(** OBIMimeTypeGuesser *)
Lemma readfull_app : forall n data, fst (fst (readfull n data)) ++ snd (fst (readfull n data)) = data.
Proof.
  intros n data. unfold readfull.
  destruct (Nat.eqb (length (firstn n data)) n); [|destruct (firstn n data) eqn:E; rewrite <- ?E];
    cbn [fst snd]; apply firstn_skipn.
Qed.

Theorem guess_identity : forall G data, data <> [] -> guess G data false = Some (data, false).
Proof.
  intros G data Hne. unfold guess, readfull_e.
  destruct (readfull G data) as [[got rest] e] eqn:Hr.
  destruct (readfull_spec 1 (le_n 1) G data got rest e Hr) as (Happ & Hrest & Hlen & Heof).
  destruct e; cbn [xof].
  - now rewrite <- Happ.
  - exfalso. apply Hne. rewrite Happ, (Heof eq_refl), (Hrest ltac:(discriminate)). reflexivity.
  - rewrite (Hrest ltac:(discriminate)), app_nil_r in Happ. now rewrite <- Happ.
Qed.

Theorem guess_io_error_kept : forall G data,
  guess G data true = None \/ guess G data true = Some (data, true).
Proof.
  intros G data. unfold guess, readfull_e.
  destruct (readfull G data) as [[got rest] e] eqn:Hr.
  destruct (readfull_spec 1 (le_n 1) G data got rest e Hr) as (Happ & _).
  destruct e; cbn [xof]; [right; now rewrite <- Happ|left; reflexivity|left; reflexivity].
Qed.

(** xopen.Buf and the byte-order mark *)
Theorem open_plain : forall G d, d <> [] -> has_bom d = false -> open_guess true G d = OBytes d.
Proof.
  intros G d Hne Hb. unfold open_guess, buf_open. rewrite Hb.
  destruct d as [|c d']; [contradiction|]. now rewrite guess_identity.
Qed.

Theorem open_bom_transparent : forall G d, d <> [] -> open_guess true G (bom ++ d) = OBytes d.
Proof.
  intros G d Hne. unfold open_guess, buf_open, bom. cbn [app has_bom skipn].
  replace (N.eqb 239 239) with true by reflexivity.
  destruct d as [|c d']; [contradiction|]. now rewrite guess_identity.
Qed.

Theorem open_nothing : forall G, open_guess true G [] = ONoContent /\ open_guess true G bom = ONoContent.
Proof. intro G. split; reflexivity. Qed.

(* the unrepaired Buf: the empty input and the mark alone end differently *)
Theorem open_bom_only_orig : forall G, (1 <= G)%nat ->
  open_guess false G [] = ONoContent /\ open_guess false G bom = OError.
Proof.
  intros G HG. split; [reflexivity|]. destruct G as [|g]; [lia|]. reflexivity.
Qed.
