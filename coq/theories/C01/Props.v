(** C01 — property theorems (statements only; proofs in Proofs.v) *)
From Coq Require Import NArith ZArith List Bool Arith Lia.
Import ListNotations.
From Coq Require Import Permutation.
From OBI.C01 Require Import Model Proofs FlatModel Flat GlueModel Glue.
From OBI.Common Require Import Reseq.

(** ReadSeqFileChunk, for EVERY splitter that answers inside its buffer, every buffer size B, every
    extension size E >= 1 and every file: the loop terminates and the chunks are a [partition] of the
    file: numbered i, i+1, ...; each chunk is [rstrip_eol] of the next segment of the file (the last one
    may be the raw tail); skipped segments consist of CR/LF only; each cut is either the end of the
    file or the answer [Some (length seg)] of the splitter on a buffer [seg ++ x] that is itself a
    segment of the file starting at the previous cut. *)
Theorem C01_chunker_partition : forall spl B E,
  (1 <= E)%nat -> (forall b c, spl b = Some c -> (0 < c <= length b)%nat) ->
  forall file, exists l, chunker_gen spl B E file = Some l /\ partition spl 0 file l.
Proof. exact chunker_partition. Qed.

(** the repaired reader (E = B) for B >= 1, the original one (E = B-1) for B >= 2, for the three splitters *)
Theorem C01_chunker_partition_fasta : forall B file, (1 <= B)%nat ->
  exists l, chunker fasta_split B file = Some l /\ partition fasta_split 0 file l.
Proof. intros B file HB. apply chunker_partition; [exact HB|exact fasta_split_range]. Qed.
Theorem C01_chunker_partition_fastq : forall B file, (1 <= B)%nat ->
  exists l, chunker fastq_split B file = Some l /\ partition fastq_split 0 file l.
Proof. intros B file HB. apply chunker_partition; [exact HB|exact fastq_split_range]. Qed.
Theorem C01_chunker_partition_flat : forall B file, (1 <= B)%nat ->
  exists l, chunker flat_split B file = Some l /\ partition flat_split 0 file l.
Proof. intros B file HB. apply chunker_partition; [exact HB|exact flat_split_range]. Qed.
Theorem C01_chunker_orig_partition : forall spl B file, (2 <= B)%nat ->
  (forall b c, spl b = Some c -> (0 < c <= length b)%nat) ->
  exists l, chunker_orig spl B file = Some l /\ partition spl 0 file l.
Proof. intros spl B file HB Hr. apply chunker_partition; [lia|exact Hr]. Qed.

(** what a partition means for the observer *)
Theorem C01_partition_numbers : forall spl i w l, partition spl i w l -> map fst l = seq i (length l).
Proof. exact partition_numbers. Qed.
Theorem C01_partition_chunks_nonempty : forall spl i w l, partition spl i w l -> Forall (fun c => snd c <> []) l.
Proof. exact partition_nonempty. Qed.
(** the chunks, concatenated, are the file with some CR/LF bytes deleted: no other byte is lost, added or moved *)
Theorem C01_partition_bytes : forall spl i w l, partition spl i w l -> eol_sub (concat (map snd l)) w.
Proof. exact partition_bytes. Qed.

(** the three splitters answer inside the buffer, never 0 *)
Theorem C01_fasta_split_range : forall b c, fasta_split b = Some c -> (0 < c <= length b)%nat.
Proof. exact fasta_split_range. Qed.
Theorem C01_fastq_split_range : forall b c, fastq_split b = Some c -> (0 < c <= length b)%nat.
Proof. exact fastq_split_range. Qed.
Theorem C01_flat_split_range : forall b c, flat_split b = Some c -> (0 < c <= length b)%nat.
Proof. exact flat_split_range. Qed.

(** the unrepaired reader with a 1-byte buffer: no amount of fuel suffices (extension reads of 0 bytes) *)
Theorem C01_chunker_orig_buffer1_diverges : forall spl c file fuel,
  spl [c] = None -> chunker_fuel spl 1 (pred 1) fuel (c :: file) = None.
Proof. exact chunker_orig_B1_diverges. Qed.

(** Flat files: the records of (ls1 ++ ["//"] ++ ls2) are the records of (ls1 ++ ["//"]) followed by the
    records of ls2 -- for ALL line lists (a parser failure on either side is a failure of the whole):
    what a record contains depends only on its own lines.  Repaired parsers. *)
Theorem C01_genbank_record_independent : forall ls1 ls2,
  genbank_parse_lines true ((ls1 ++ [s_end]) ++ ls2) =
  opt_app (genbank_parse_lines true (ls1 ++ [s_end])) (genbank_parse_lines true ls2).
Proof. exact genbank_record_independent. Qed.
Theorem C01_embl_record_independent : forall ls1 ls2,
  embl_parse_lines true ((ls1 ++ [s_end]) ++ ls2) = embl_parse_lines true (ls1 ++ [s_end]) ++ embl_parse_lines true ls2.
Proof. exact embl_record_independent. Qed.
(** the parsers before the repair (taxid / organism / EMBL id survive "//"): two-record witnesses *)
Theorem C01_genbank_record_independent_orig_refuted :
  genbank_parse_lines false ((w_gb1 ++ [s_end]) ++ w_gb2) <>
  opt_app (genbank_parse_lines false (w_gb1 ++ [s_end])) (genbank_parse_lines false w_gb2)
  /\ genbank_parse_lines false w_gb2 <> None.
Proof. exact genbank_record_independent_orig_refuted. Qed.
Theorem C01_embl_record_independent_orig_refuted :
  embl_parse_lines false ((w_em1 ++ [s_end]) ++ w_em2) <>
  embl_parse_lines false (w_em1 ++ [s_end]) ++ embl_parse_lines false w_em2.
Proof. exact embl_record_independent_orig_refuted. Qed.

(** FASTQ read without qualities: no record carries qualities, wherever the chunk ends (repaired);
    before the repair a trailing newline decided whether the last record of a chunk had qualities *)
Theorem C01_fastq_noqual : forall shift text recs, fastq_parse shift false text = Some recs -> Forall noq recs.
Proof. exact fastq_noqual. Qed.
Theorem C01_fastq_noqual_orig_refuted :
  exists t, fastq_parse_orig 33 false t <> fastq_parse_orig 33 false (t ++ [10]%N)
            /\ fastq_parse_orig 33 false t <> None /\ fastq_parse_orig 33 false (t ++ [10]%N) <> None.
Proof. exact fastq_noqual_orig_refuted. Qed.

(** FASTA.  The splitter only ever answers the offset of a '>' that follows a CR/LF byte. *)
Theorem C01_fasta_split_sound : forall b c, fasta_split b = Some c ->
  exists pre e post, b = pre ++ e :: 62%N :: post /\ is_eol e = true /\ c = S (length pre).
Proof. exact fasta_split_sound. Qed.
(** A text accepted by the parser can be cut at ANY '>' that follows CR/LF: both parts are accepted on
    their own and the records of the whole are the records of the parts (a record's content depends only
    on its own text). *)
Theorem C01_fasta_parse_decompose : forall t1 e t2 recs,
  is_eol e = true -> t2 <> [] ->
  fasta_parse ((t1 ++ [e]) ++ 62%N :: t2) = Some recs ->
  exists r1 r2, fasta_parse (t1 ++ [e]) = Some r1 /\ fasta_parse (62%N :: t2) = Some r2 /\ recs = r1 ++ r2
                /\ fa_complete (t1 ++ [e])
                /\ (fa_complete ((t1 ++ [e]) ++ 62%N :: t2) -> fa_complete (62%N :: t2)).
Proof. exact fasta_parse_decompose. Qed.
(** trailing CR/LF bytes stripped by the chunk reader do not change the records *)
Theorem C01_fasta_parse_rstrip : forall t, fa_complete t ->
  fasta_parse (rstrip_eol t) = fasta_parse t /\ fa_complete (rstrip_eol t).
Proof. exact fasta_parse_rstrip. Qed.
(** Composition: for every text that FastaChunkParser accepts as one chunk and that ends inside the sequence
    of a record, and EVERY buffer size: ReadSeqFileChunk + EndOfLastFastaEntry + FastaChunkParser on each
    chunk deliver chunks numbered 0..n-1 whose records, taken in the order of the numbers, are exactly the
    records of the file.  (With Common/Reseq.v: in file order whatever the arrival order of the batches.) *)
Theorem C01_read_fasta : forall B file recs, (1 <= B)%nat ->
  fasta_parse file = Some recs -> fa_complete file ->
  exists l, chunker fasta_split B file = Some l /\ map fst l = seq 0 (length l) /\ parse_chunks fasta_parse l = Some recs.
Proof. exact read_fasta. Qed.

Example C01_read_fasta_nonvacuous :
  let file := [62;97;32;100;10;65;67;13;10;71;10;10;62;98;10;116;10]%N in
  fasta_parse file = Some [mkrec [97]%N [100]%N [97;99;103]%N None None []; mkrec [98]%N [] [116]%N None None []]
  /\ (exists s, fa_run fa_init file = Some s /\ fa_s s = 6%nat)
  /\ option_map (@length _) (chunker fasta_split 3 file) = Some 2%nat.
Proof. vm_compute. split; [reflexivity|]. split; [eexists; split; reflexivity|reflexivity]. Qed.

(** FASTQ.  A text accepted by the parser can be cut before any '@' that the parser reads in state 11
    (i.e. after a complete record): both parts are accepted on their own and the records of the whole are
    those of the parts.  Holds for the original and the repaired end-of-input handling, with or without qualities. *)
Theorem C01_fastq_parse_decompose : forall fixed shift withq t1 t2 s1 recs,
  fq_run shift withq fq_init t1 = Some s1 -> fq_s s1 = 11%nat ->
  fastq_parse_gen fixed shift withq (t1 ++ 64%N :: t2) = Some recs ->
  exists r2, fastq_parse_gen fixed shift withq t1 = Some (rev (fq_out s1)) /\
             fastq_parse_gen fixed shift withq (64%N :: t2) = Some r2 /\
             recs = rev (fq_out s1) ++ r2.
Proof. exact fastq_parse_decompose. Qed.

Example C01_fastq_parse_decompose_nonvacuous :
  exists s1, fq_run 33 true fq_init [64;97;10;97;99;10;43;10;64;43;10]%N = Some s1 /\ fq_s s1 = 11%nat /\
             fastq_parse 33 true ([64;97;10;97;99;10;43;10;64;43;10] ++ 64 :: [98;10;103;10;43;10;73])%N <> None.
Proof. eexists. vm_compute. repeat split; try reflexivity. discriminate. Qed.

(** The FASTQ splitter only answers the offset of an '@' that follows CR/LF and is followed by a line,
    at least one CR/LF and a byte of the sequence alphabet ... *)
Theorem C01_fastq_split_sound : forall b c, fastq_split b = Some c ->
  exists pre e t, b = pre ++ e :: t /\ is_eol e = true /\ c = S (length pre) /\ fq_fwd t.
Proof. exact fastq_split_sound. Qed.
(** ... and such a text is rejected by the parser from every state but the record boundary: a quality line
    (state 9), a sequence line (state 5) or a '+' line (state 7) that starts with '@' is never taken for a
    record start by both the splitter and the parser *)
Theorem C01_fastq_cut_is_record_start : forall shift withq t s, fq_fwd t ->
  (fq_s s = 5%nat \/ fq_s s = 7%nat \/ fq_s s = 9%nat) -> fq_run shift withq s t = None.
Proof. exact bad_start_fails. Qed.
Theorem C01_fastq_parse_rstrip : forall shift withq t, fq_complete shift withq t ->
  fastq_parse shift withq (rstrip_eol t) = fastq_parse shift withq t /\ fq_complete shift withq (rstrip_eol t).
Proof. exact fastq_parse_rstrip. Qed.
(** Composition: for every text that FastqChunkParser accepts as one chunk and that ends in or after the
    quality line of a record, every quality shift, with or without qualities, and EVERY buffer size:
    ReadSeqFileChunk + EndOfLastFastqEntry + FastqChunkParser on each chunk deliver chunks numbered 0..n-1
    whose records, in the order of the numbers, are exactly the records of the file. *)
Theorem C01_read_fastq : forall shift withq B file recs, (1 <= B)%nat ->
  fastq_parse shift withq file = Some recs -> fq_complete shift withq file ->
  exists l, chunker fastq_split B file = Some l /\ map fst l = seq 0 (length l) /\
            parse_chunks (fastq_parse shift withq) l = Some recs.
Proof. exact read_fastq. Qed.

Example C01_read_fastq_nonvacuous :
  let file := [64;97;32;120;10;97;99;10;43;10;64;43;10;64;98;10;103;10;43;98;10;64;10]%N in
  option_map (@length _) (fastq_parse 33 true file) = Some 2%nat
  /\ (exists s, fq_run 33 true fq_init file = Some s /\ (fq_s s = 10%nat \/ fq_s s = 11%nat))
  /\ option_map (@length _) (chunker fastq_split 5 file) = Some 2%nat.
Proof. vm_compute. split; [reflexivity|]. split; [eexists; split; [reflexivity|right; reflexivity]|reflexivity]. Qed.

(** Parser workers: the chunks are parsed by any number of goroutines racing on the chunk channel, so the
    batches (number, records) reach SortBatches in ANY order: for every permutation [arr] of the batches the
    resequencer (Common/Reseq.v) delivers them in file order, nothing left pending; concatenated they are
    the records of the file. *)
Theorem C01_read_fasta_any_order : forall B file recs, (1 <= B)%nat ->
  fasta_parse file = Some recs -> fa_complete file ->
  exists l bs, chunker fasta_split B file = Some l /\
    Forall2 (fun c b => fasta_parse (snd c) = Some b) l bs /\ concat bs = recs /\
    forall arr, Permutation arr (combine (map fst l) bs) -> out (run arr) = bs /\ pend (run arr) = [].
Proof. exact read_fasta_any_order. Qed.
Theorem C01_read_fastq_any_order : forall shift withq B file recs, (1 <= B)%nat ->
  fastq_parse shift withq file = Some recs -> fq_complete shift withq file ->
  exists l bs, chunker fastq_split B file = Some l /\
    Forall2 (fun c b => fastq_parse shift withq (snd c) = Some b) l bs /\ concat bs = recs /\
    forall arr, Permutation arr (combine (map fst l) bs) -> out (run arr) = bs /\ pend (run arr) = [].
Proof. exact read_fastq_any_order. Qed.

(** Flat files.  EndOfLastFlatFileEntry only answers the offset that follows  LF "//" CR? LF ... *)
Theorem C01_flat_split_sound : forall b c, flat_split b = Some c ->
  exists p0 cr post, b = (p0 ++ flat_end cr) ++ post /\ (cr = [] \/ cr = [13%N]) /\ c = length (p0 ++ flat_end cr).
Proof. exact flat_split_sound. Qed.
(** ... and cutting a text there, then stripping the trailing CR/LF of the first part, preserves the records,
    for every text (byte level, LF and CRLF): GenBank and EMBL, repaired parsers. *)
Theorem C01_genbank_text_cut : forall p0 cr post, cr = [] \/ cr = [13%N] ->
  genbank_parse ((p0 ++ flat_end cr) ++ post) = opt_app (genbank_parse (p0 ++ flat_end cr)) (genbank_parse post)
  /\ genbank_parse (rstrip_eol (p0 ++ flat_end cr)) = genbank_parse (p0 ++ flat_end cr).
Proof. exact genbank_text_cut. Qed.
Theorem C01_embl_text_cut : forall p0 cr post, cr = [] \/ cr = [13%N] ->
  embl_parse ((p0 ++ flat_end cr) ++ post) = opt_app (embl_parse (p0 ++ flat_end cr)) (embl_parse post)
  /\ embl_parse (rstrip_eol (p0 ++ flat_end cr)) = embl_parse (p0 ++ flat_end cr).
Proof. exact embl_text_cut. Qed.
(** Composition for the flat formats: for every text accepted by the (repaired) chunk parser that ends with its
    last "//" line (LF or CRLF) possibly followed by ANY CR / LF bytes (empty LF lines, empty CR LF lines, stray
    CR) -- or consists of CR / LF bytes only -- and EVERY buffer size: chunks numbered 0..n-1 whose records, in the
    order of the numbers, are the records of the file.  ([flat_inv3]; round 1 covered LF-only blank lines.) *)
Theorem C01_read_genbank : forall B file recs, (1 <= B)%nat ->
  genbank_parse file = Some recs -> flat_inv3 file ->
  exists l, chunker flat_split B file = Some l /\ map fst l = seq 0 (length l) /\ parse_chunks genbank_parse l = Some recs.
Proof. exact read_genbank_eols. Qed.
Theorem C01_read_embl : forall B file recs, (1 <= B)%nat ->
  embl_parse file = Some recs -> flat_inv3 file ->
  exists l, chunker flat_split B file = Some l /\ map fst l = seq 0 (length l) /\ parse_chunks embl_parse l = Some recs.
Proof. exact read_embl_eols. Qed.
(** ... delivered in file order whatever the order in which the parser workers hand the batches over *)
Theorem C01_read_genbank_any_order : forall B file recs, (1 <= B)%nat ->
  genbank_parse file = Some recs -> flat_inv3 file ->
  exists l bs, chunker flat_split B file = Some l /\
    Forall2 (fun c b => genbank_parse (snd c) = Some b) l bs /\ concat bs = recs /\
    forall arr, Permutation arr (combine (map fst l) bs) -> out (run arr) = bs /\ pend (run arr) = [].
Proof. exact read_genbank_any_order. Qed.
Theorem C01_read_embl_any_order : forall B file recs, (1 <= B)%nat ->
  embl_parse file = Some recs -> flat_inv3 file ->
  exists l bs, chunker flat_split B file = Some l /\
    Forall2 (fun c b => embl_parse (snd c) = Some b) l bs /\ concat bs = recs /\
    forall arr, Permutation arr (combine (map fst l) bs) -> out (run arr) = bs /\ pend (run arr) = [].
Proof. exact read_embl_any_order. Qed.

Definition ex_gb_body : list N := [76;79;67;85;83;32;32;32;32;32;32;32;65;32;50;32;98;112;10;70;69;65;84;85;82;69;83;32;32;32;32;32;32;32;32;32;32;32;32;32;76;111;99;97;116;105;111;110;47;81;117;97;108;105;102;105;101;114;115;10;79;82;73;71;73;78;10;32;32;32;32;32;32;32;32;49;32;97;99;10;47;47;10;76;79;67;85;83;32;32;32;32;32;32;32;66;32;49;32;98;112;10;70;69;65;84;85;82;69;83;32;32;32;32;32;32;32;32;32;32;32;32;32;76;111;99;97;116;105;111;110;47;81;117;97;108;105;102;105;101;114;115;10;79;82;73;71;73;78;10;32;32;32;32;32;32;32;32;49;32;116;10]%N.
Example C01_read_genbank_nonvacuous :
  flat_inv3 ((ex_gb_body ++ flat_term [13]) ++ [13;10;13;13;10;10])%N /\
  option_map (@length _) (genbank_parse ((ex_gb_body ++ flat_term [13]) ++ [13;10;13;13;10;10])%N) = Some 2%nat /\
  option_map (@length _) (chunker flat_split 7 ((ex_gb_body ++ flat_term [13]) ++ [13;10;13;13;10;10])%N) = Some 2%nat.
Proof.
  split; [right; exists ex_gb_body, [13]%N, [13;10;13;13;10;10]%N; split; [reflexivity|split; [auto|repeat constructor]]|].
  vm_compute. split; reflexivity.
Qed.

(** Transports.  io.ReadFull (the loop of io.ReadAtLeast) over ANY io.Reader that delivers the bytes of [data]
    -- any schedule of short reads (pipe, bufio, OneByteReader, a decompressor), io.EOF reported with the
    last bytes or on its own -- returns exactly what [readfull] returns on the whole data: the chunk reader,
    which reads only through io.ReadFull, sees the same thing whatever the way the bytes arrive. *)
Theorem C01_readfull_any_transport : forall sched n data,
  read_at_least (S (length data)) sched n [] data = Some (readfull n data).
Proof. exact readfull_any_transport. Qed.

(** Independent specification for FASTA: a printer.  For every list of records and every layout (LF or CRLF per
    record, any blank/tab separator, with or without definition, ANY folding of the sequence into non-empty
    lines, nucleotides written in upper, lower or mixed case -- the record carries them lower-cased --, blank
    lines after any record) the chunk parser returns exactly the printed records ... *)
Theorem C01_fasta_print_parse : forall lrs, lrs <> [] -> Forall valid_fa lrs ->
  fasta_parse (print_fasta lrs) = Some (map snd lrs) /\ fa_complete (print_fasta lrs).
Proof. exact fasta_print_parse. Qed.
(** ... hence the whole reader: every printed file, every buffer size, every arrival order of the batches. *)
Theorem C01_read_fasta_printed : forall B lrs, (1 <= B)%nat -> lrs <> [] -> Forall valid_fa lrs ->
  exists l bs, chunker fasta_split B (print_fasta lrs) = Some l /\
    Forall2 (fun c b => fasta_parse (snd c) = Some b) l bs /\ concat bs = map snd lrs /\
    forall arr, Permutation arr (combine (map fst l) bs) -> out (run arr) = bs /\ pend (run arr) = [].
Proof. exact read_fasta_printed. Qed.

Example C01_fasta_print_nonvacuous :
  let r1 := mkrec [97;62]%N [100;32;62]%N [97;99;103;116;110]%N None None [] in
  let r2 := mkrec [98]%N [] [116]%N None None [] in
  let l1 := mklay [13;10]%N [32;9]%N [[65;99];[71];[116;78]]%N [13;10;10]%N in
  let l2 := mklay [10]%N [32]%N [[116]]%N [] in
  valid_fa (l1, r1) /\ valid_fa (l2, r2) /\ fasta_parse (print_fasta [(l1, r1); (l2, r2)]) = Some [r1; r2].
Proof.
  cbv zeta. split; [|split; [|vm_compute; reflexivity]];
    (unfold valid_fa; cbn; repeat split; auto; try discriminate; repeat constructor; try discriminate;
     try (intros c d H; inversion H; reflexivity)).
Qed.

(** Independent specification for FASTQ: for every list of records and every layout (LF / CRLF, separator,
    definition or not, any text on the '+' line, ANY quality bytes without CR/LF -- in particular quality
    lines that start with '@' or '+' --, nucleotides written in upper, lower or mixed case ([q_seq], delivered
    lower-cased), blank lines after any record), every quality shift, qualities read
    or not: the chunk parser returns exactly the printed records, and so does the whole reader for every
    buffer size and every arrival order of the batches. *)
Theorem C01_fastq_print_parse : forall shift withq lrs, lrs <> [] -> Forall (valid_fq shift withq) lrs ->
  fastq_parse shift withq (print_fastq lrs) = Some (map snd lrs) /\ fq_complete shift withq (print_fastq lrs).
Proof. exact fastq_print_parse. Qed.
Theorem C01_read_fastq_printed : forall shift withq B lrs, (1 <= B)%nat -> lrs <> [] -> Forall (valid_fq shift withq) lrs ->
  exists l bs, chunker fastq_split B (print_fastq lrs) = Some l /\
    Forall2 (fun c b => fastq_parse shift withq (snd c) = Some b) l bs /\ concat bs = map snd lrs /\
    forall arr, Permutation arr (combine (map fst l) bs) -> out (run arr) = bs /\ pend (run arr) = [].
Proof. exact read_fastq_printed. Qed.

Example C01_fastq_print_nonvacuous :
  let r1 := mkrec [97;64]%N [100;32;43]%N [97;99;103]%N (Some (unshift 33 [64;43;73])%N) None [] in
  let r2 := mkrec [98]%N [] [116]%N (Some (unshift 33 [43]%N)) None [] in
  let l1 := mkql [13;10]%N [32;9]%N [97;64]%N [64;43;73]%N [13;10;10]%N [65;99;71]%N in
  let l2 := mkql [10]%N [32]%N [] [43]%N [] [116]%N in
  valid_fq 33 true (l1, r1) /\ valid_fq 33 true (l2, r2) /\
  fastq_parse 33 true (print_fastq [(l1, r1); (l2, r2)]) = Some [r1; r2] /\
  option_map (@length _) (chunker fastq_split 6 (print_fastq [(l1, r1); (l2, r2)])) = Some 2%nat.
Proof.
  cbv zeta. split; [|split; [|vm_compute; split; reflexivity]];
    (unfold valid_fq; cbn; repeat split; auto; try discriminate; repeat constructor; try discriminate;
     try (intros c d H; inversion H; reflexivity)).
Qed.

Example C01_chunker_partition_nonvacuous :
  chunker fasta_split 4 [62;97;10;97;99;10;62;98;10;103;10]%N = Some [(0%nat, [62;97;10;97;99]%N); (1%nat, [62;98;10;103]%N)]
  /\ fasta_split [62]%N = None.
Proof. vm_compute. split; reflexivity. Qed.

Example C01_flat_independent_nonvacuous :
  genbank_parse_lines true ((w_gb1 ++ [s_end]) ++ w_gb2) <> None /\
  length (embl_parse_lines true ((w_em1 ++ [s_end]) ++ w_em2)) = 2%nat /\
  fastq_parse 33 false [64;97;10;97;99;10;43;10;73;73]%N <> None.
Proof. vm_compute. repeat split; discriminate. Qed.

(** Independent specification for GenBank: a printer.  A record is laid out as: LOCUS line (identifier, then anything);
    optional DEFINITION line with continuation lines (each padded; the definition is their trimmed texts joined by one
    blank); header lines that are no keyword lines (ACCESSION, VERSION, KEYWORDS ...); optional SOURCE line (padded
    organism) followed by further header lines (ORGANISM, taxonomy, REFERENCE ...); FEATURES line; feature lines with or
    without one /db_xref="taxon:DIGITS" line (taxid 1 when absent); ORIGIN line; sequence lines made of a 10-byte
    numbering and 1..6 blank-separated groups in upper, lower or mixed case (delivered lower-cased); "//"; LF or CR LF
    for the whole record; empty (LF or CR LF) lines after the "//".  For EVERY list of such records the chunk parser
    returns exactly the printed records ... *)
Theorem C01_genbank_print_parse : forall lrs, Forall valid_gb lrs -> genbank_parse (print_gb lrs) = Some (map snd lrs).
Proof. exact genbank_print_parse. Qed.
(** ... and so does the whole reader, for every buffer size and every arrival order of the parsed batches. *)
Theorem C01_read_genbank_printed : forall B lrs, (1 <= B)%nat -> Forall valid_gb lrs ->
  exists l bs, chunker flat_split B (print_gb lrs) = Some l /\
    Forall2 (fun c b => genbank_parse (snd c) = Some b) l bs /\ concat bs = map snd lrs /\
    forall arr, Permutation arr (combine (map fst l) bs) -> out (run arr) = bs /\ pend (run arr) = [].
Proof. exact read_genbank_printed. Qed.

Example C01_genbank_print_nonvacuous :
  valid_gb (ex_gl1, ex_gr1) /\ valid_gb (ex_gl2, ex_gr2) /\
  genbank_parse (print_gb [(ex_gl1, ex_gr1); (ex_gl2, ex_gr2)]) = Some [ex_gr1; ex_gr2] /\
  option_map (@length _) (chunker flat_split 50 (print_gb [(ex_gl1, ex_gr1); (ex_gl2, ex_gr2)])) = Some 3%nat /\
  gl_eol ex_gl1 = [13;10]%N /\ length (gl_def ex_gl1) = 3%nat /\ length (gl_seq ex_gl1) = 2%nat /\
  gl_xref ex_gl2 = None /\ gl_blank ex_gl2 = [[10]; [13;10]; [10]]%N.
Proof.
  split; [exact ex_gb_valid1|]. split; [exact ex_gb_valid2|]. destruct ex_gb_print as [H1 H2].
  split; [exact H1|]. split; [exact H2|]. repeat split; reflexivity.
Qed.

(** Independent specification for EMBL: ID line (identifier up to ';'); lines that no rule of the parser reacts to (XX,
    AC, KW, OC, FH, FT without taxon, SQ ...) anywhere between; DE lines (padded, non-empty texts joined by one blank);
    optional OS line; optional FT /db_xref="taxon:DIGITS" line; sequence lines of up to 6 blank-separated groups in any
    case followed by the rest of the line (padding and position); "//"; LF or CR LF; empty lines after the "//". *)
Theorem C01_embl_print_parse : forall lrs, Forall valid_embl lrs -> embl_parse (print_embl lrs) = Some (map snd lrs).
Proof. exact embl_print_parse. Qed.
Theorem C01_read_embl_printed : forall B lrs, (1 <= B)%nat -> Forall valid_embl lrs ->
  exists l bs, chunker flat_split B (print_embl lrs) = Some l /\
    Forall2 (fun c b => embl_parse (snd c) = Some b) l bs /\ concat bs = map snd lrs /\
    forall arr, Permutation arr (combine (map fst l) bs) -> out (run arr) = bs /\ pend (run arr) = [].
Proof. exact read_embl_printed. Qed.

Example C01_embl_print_nonvacuous :
  valid_embl (ex_el1, ex_er1) /\ valid_embl (ex_el2, ex_er2) /\
  embl_parse (print_embl [(ex_el1, ex_er1); (ex_el2, ex_er2)]) = Some [ex_er1; ex_er2] /\
  option_map (@length _) (chunker flat_split 50 (print_embl [(ex_el1, ex_er1); (ex_el2, ex_er2)])) = Some 3%nat.
Proof.
  split; [exact ex_embl_valid1|]. split; [exact ex_embl_valid2|]. exact ex_embl_print.
Qed.

(** The per-run tie between these specifications and the code.  On every run the check writes flat files with the
    Python twin of the printers, runs the REAL parsers / readers on them, and hands (layouts, bytes) to Coq, which
    DECIDES by vm_compute that the layouts are valid ([valid_gbb] / [valid_emblb]) and that the bytes are exactly
    [print_gb] / [print_embl] of them ([pcase_ok]).  For every case that passes, the model parser returns the
    generator's records and the whole model reader delivers them for every buffer size and arrival order: *)
Theorem C01_printed_case_genbank : forall lrs b, pcase_ok (PGb lrs b) = true ->
  genbank_parse b = Some (map snd lrs) /\
  forall B, (1 <= B)%nat -> exists l bs, chunker flat_split B b = Some l /\
    Forall2 (fun c x => genbank_parse (snd c) = Some x) l bs /\ concat bs = map snd lrs /\
    forall arr, Permutation arr (combine (map fst l) bs) -> out (run arr) = bs /\ pend (run arr) = [].
Proof. exact pcase_gb_sound. Qed.
Theorem C01_printed_case_embl : forall lrs b, pcase_ok (PEm lrs b) = true ->
  embl_parse b = Some (map snd lrs) /\
  forall B, (1 <= B)%nat -> exists l bs, chunker flat_split B b = Some l /\
    Forall2 (fun c x => embl_parse (snd c) = Some x) l bs /\ concat bs = map snd lrs /\
    forall arr, Permutation arr (combine (map fst l) bs) -> out (run arr) = bs /\ pend (run arr) = [].
Proof. exact pcase_embl_sound. Qed.
Example C01_printed_case_nonvacuous :
  pcase_ok (PGb [(ex_gl1, ex_gr1); (ex_gl2, ex_gr2)] (print_gb [(ex_gl1, ex_gr1); (ex_gl2, ex_gr2)])) = true /\
  pcase_ok (PEm [(ex_el1, ex_er1); (ex_el2, ex_er2)] (print_embl [(ex_el1, ex_er1); (ex_el2, ex_er2)])) = true.
Proof. exact pcase_examples. Qed.

(** FastaChunkParser reads start[0] and start[1] of Peek(20) unchecked: a chunk of fewer than two bytes (a final
    chunk ">" ) is a run-time panic, modelled as a failure like log.Fatalf.  Such a chunk never comes from a
    printed (well-formed) file: C01_read_fasta_printed shows every chunk parses.  Any chunk the parser accepts has
    at least two bytes: *)
Theorem C01_fasta_chunk_two_bytes : forall t recs, fasta_parse t = Some recs -> (2 <= length t)%nat.
Proof. intros t recs H. destruct t as [|c0 [|c1 t]]; try discriminate. cbn. lia. Qed.

(** Round 3 -- the glue the commands go through (GlueModel.v).
    A transport that delivers [data] and then ends with a genuine I/O error ([fail = true]) instead of io.EOF,
    under ReadSeqFileChunk (extended reader [chunker_e]: the chunks sent and whether the reader died in log.Fatalf).
    Clean transport: the extended reader is the reader of the theorems above and does not die. *)
Theorem C01_chunker_clean_transport : forall spl B,
  (1 <= B)%nat -> (forall b c, spl b = Some c -> (0 < c <= length b)%nat) ->
  forall data, exists l, chunker_e spl B false data = Some (l, false) /\ chunker spl B data = Some l /\ partition spl 0 data l.
Proof. exact chunker_clean_transport. Qed.
(** Failing transport, every splitter answering inside its buffer, every buffer size, every data received before
    the failure: the reader terminates by dying (the error is never swallowed), and the chunks it sent before are
    an initial part of a partition of the bytes received -- numbered 0,1,..., segments of the data, cut only
    where the splitter answered. *)
Theorem C01_chunker_io_error_fatal : forall spl B,
  (1 <= B)%nat -> (forall b c, spl b = Some c -> (0 < c <= length b)%nat) ->
  forall data, exists l1 l2, chunker_e spl B true data = Some (l1, true) /\ partition spl 0 data (l1 ++ l2).
Proof. exact chunker_io_error_fatal. Qed.
(** ... and for ANY splitter: whenever the reader terminates, it died if and only if the transport failed *)
Theorem C01_chunker_dies_iff_transport_fails : forall spl B fail data l d,
  chunker_e spl B fail data = Some (l, d) -> d = fail.
Proof. exact chunker_e_dies_iff_fails. Qed.

(** OBIMimeTypeGuesser reads G bytes (1 MiB) with io.ReadFull, guesses, and rebuilds a reader: the bytes read
    followed by the rest of the stream when the buffer was filled, the bytes read alone otherwise.  For every
    buffer size and every non-empty data the rebuilt reader delivers exactly the data (so the format readers see
    the file as if nothing had been read); over a failing transport the error is returned at once or is still
    pending after the very same bytes: it is never turned into a clean end of file. *)
Theorem C01_guess_reader_identity : forall G data, data <> [] -> guess G data false = Some (data, false).
Proof. exact guess_identity. Qed.
Theorem C01_guess_io_error_kept : forall G data,
  guess G data true = None \/ guess G data true = Some (data, true).
Proof. exact guess_io_error_kept. Qed.

(** xopen.Buf (what Ropen and the standard-input entry points read through) drops ONE leading UTF-8 byte-order mark
    of the (decompressed) data; ReadSequencesFromFile then guesses the type and hands the bytes to the format
    reader ([open_guess]: ONoContent = no record, OError = the run fails, OBytes l = the format reader reads l).
    For every size of the guessing buffer: data without a mark reach the reader unchanged; a mark in front of
    non-empty data is transparent; no data at all and the mark alone both mean "no record" -- which was false
    before the repair of round 3 (the mark alone made the type guesser fail with EOF: defect exhibited by the
    check, see known_findings.d/C01.json). *)
Theorem C01_open_plain : forall G d, d <> [] -> has_bom d = false -> open_guess true G d = OBytes d.
Proof. exact open_plain. Qed.
Theorem C01_open_bom_transparent : forall G d, d <> [] -> open_guess true G (bom ++ d) = OBytes d.
Proof. exact open_bom_transparent. Qed.
Theorem C01_open_nothing_is_no_record : forall G, open_guess true G [] = ONoContent /\ open_guess true G bom = ONoContent.
Proof. exact open_nothing. Qed.
Theorem C01_open_bom_only_orig_refuted : forall G, (1 <= G)%nat ->
  open_guess false G [] = ONoContent /\ open_guess false G bom = OError.
Proof. exact open_bom_only_orig. Qed.

Example C01_glue_nonvacuous :
  let file := [62;97;10;97;99;10;62;98;10;99;10;62;99;10;103]%N in     (* >a LF ac LF >b LF c LF >c LF g *)
  chunker_e fasta_split 4 false file = Some ([(0%nat, [62;97;10;97;99]); (1%nat, [62;98;10;99]); (2%nat, [62;99;10;103])], false)
  /\ chunker_e fasta_split 4 true (firstn 11 file) = Some ([(0%nat, [62;97;10;97;99]); (1%nat, [62;98;10;99])], true)
  /\ chunker_e fasta_split 4 true (firstn 3 file) = Some ([], true)
  /\ guess 4 file false = Some (file, false) /\ guess 40 file false = Some (file, false)
  /\ guess 40 file true = None /\ guess 4 file true = Some (file, true).
Proof. vm_compute. repeat split; reflexivity. Qed.

Print Assumptions C01_chunker_partition.
Print Assumptions C01_chunker_partition_fasta.
Print Assumptions C01_chunker_partition_fastq.
Print Assumptions C01_chunker_partition_flat.
Print Assumptions C01_chunker_orig_partition.
Print Assumptions C01_partition_numbers.
Print Assumptions C01_partition_chunks_nonempty.
Print Assumptions C01_partition_bytes.
Print Assumptions C01_fasta_split_range.
Print Assumptions C01_fastq_split_range.
Print Assumptions C01_flat_split_range.
Print Assumptions C01_chunker_orig_buffer1_diverges.
Print Assumptions C01_genbank_record_independent.
Print Assumptions C01_embl_record_independent.
Print Assumptions C01_genbank_record_independent_orig_refuted.
Print Assumptions C01_embl_record_independent_orig_refuted.
Print Assumptions C01_fastq_noqual.
Print Assumptions C01_fastq_noqual_orig_refuted.
Print Assumptions C01_fasta_split_sound.
Print Assumptions C01_fasta_parse_decompose.
Print Assumptions C01_fasta_parse_rstrip.
Print Assumptions C01_read_fasta.
Print Assumptions C01_fastq_parse_decompose.
Print Assumptions C01_fastq_split_sound.
Print Assumptions C01_fastq_cut_is_record_start.
Print Assumptions C01_fastq_parse_rstrip.
Print Assumptions C01_read_fastq.
Print Assumptions C01_read_fasta_any_order.
Print Assumptions C01_read_fastq_any_order.
Print Assumptions C01_flat_split_sound.
Print Assumptions C01_genbank_text_cut.
Print Assumptions C01_embl_text_cut.
Print Assumptions C01_read_genbank.
Print Assumptions C01_read_embl.
Print Assumptions C01_readfull_any_transport.
Print Assumptions C01_fasta_print_parse.
Print Assumptions C01_read_fasta_printed.
Print Assumptions C01_fastq_print_parse.
Print Assumptions C01_read_fastq_printed.
Print Assumptions C01_read_genbank_any_order.
Print Assumptions C01_read_embl_any_order.
Print Assumptions C01_genbank_print_parse.
Print Assumptions C01_read_genbank_printed.
Print Assumptions C01_embl_print_parse.
Print Assumptions C01_read_embl_printed.
Print Assumptions C01_fasta_chunk_two_bytes.
Print Assumptions C01_printed_case_genbank.
Print Assumptions C01_printed_case_embl.
Print Assumptions C01_chunker_clean_transport.
Print Assumptions C01_chunker_io_error_fatal.
Print Assumptions C01_chunker_dies_iff_transport_fails.
Print Assumptions C01_guess_reader_identity.
Print Assumptions C01_guess_io_error_kept.
Print Assumptions C01_open_plain.
Print Assumptions C01_open_bom_transparent.
Print Assumptions C01_open_nothing_is_no_record.
Print Assumptions C01_open_bom_only_orig_refuted.
