(** C01 -- executable definitions of the flat-file printers (specifications [print_gb] / [print_embl]), of the decidable
    well-formedness of layouts and of the per-run check [print_mismatches].  Definitions only; proofs in Flat.v. *)
From Coq Require Import NArith ZArith List Bool Arith.
Import ListNotations.
From OBI.C01 Require Import Model.
Open Scope N_scope.

Definition print_lines (e : list N) (ls : list (list N)) : list N := concat (map (fun l => l ++ e) ls).

Fixpoint join32 (gs : list (list N)) : list N :=
  match gs with
  | [] => []
  | g :: gs' => match gs' with [] => g | _ => g ++ 32 :: join32 gs' end
  end.

Definition is_digit (c : N) : bool := (48 <=? c) && (c <=? 57).

Definition dec_val (ds : list N) : Z := fold_left (fun a c => (a * 10 + Z.of_N (c - 48))%Z) ds 0%Z.

Record padded := mkpd { pd_l : list N; pd_t : list N; pd_r : list N }.

Definition pd_raw (x : padded) : list N := pd_l x ++ pd_t x ++ pd_r x.

Record gb_layout := mkgbl {
  gl_eol : list N;                          (* line terminator of the record: LF or CR LF *)
  gl_locus : list N;                        (* rest of the LOCUS line after the identifier *)
  gl_def : list padded;                     (* DEFINITION line and its continuation lines *)
  gl_hdr1 : list (list N);                  (* ACCESSION, VERSION, KEYWORDS ... *)
  gl_src : option (list N * list N * list (list N));  (* SOURCE line (pads around the organism) and the lines after it *)
  gl_feat : list N;                         (* rest of the FEATURES line *)
  gl_ft1 : list (list N);                   (* feature lines before the taxon cross-reference *)
  gl_xref : option (list N * list N);       (* /db_xref="taxon:DIGITS" REST *)
  gl_ft2 : list (list N);                   (* feature lines after it *)
  gl_origin : list N;                       (* rest of the ORIGIN line *)
  gl_seq : list (list N * list (list N));   (* sequence lines: 10-byte numbering, 1..6 groups *)
  gl_blank : list (list N)                  (* empty lines after "//" (each LF or CR LF) *)
}.

Definition def_lines (d : list padded) : list (list N) :=
  match d with
  | [] => []
  | x :: d' => (s_DEFINITION ++ pd_raw x) :: map (fun y => spaces 12 ++ pd_raw y) d'
  end.

Definition def_text (d : list padded) : list N :=
  match d with [] => [] | x :: d' => pd_t x ++ concat (map (fun y => 32 :: pd_t y) d') end.

Definition seq_line (sl : list N * list (list N)) : list N := fst sl ++ join32 (snd sl).

Definition seq_text (sls : list (list N * list (list N))) : list N := concat (map (fun sl => concat (snd sl)) sls).

Definition gb_body_lines (lay : gb_layout) (r : rec) : list (list N) :=
  [s_LOCUS ++ rid r ++ gl_locus lay]
  ++ def_lines (gl_def lay)
  ++ gl_hdr1 lay
  ++ match gl_src lay with None => [] | Some (a, b, h2) => (s_SOURCE ++ a ++ rsci r ++ b) :: h2 end
  ++ [s_FEATURES ++ gl_feat lay]
  ++ gl_ft1 lay
  ++ match gl_xref lay with None => [] | Some (ds, rest) => [s_gb_xref ++ ds ++ 34%N :: rest] end
  ++ gl_ft2 lay
  ++ [s_ORIGIN ++ gl_origin lay]
  ++ map seq_line (gl_seq lay).

Definition gb_rec_lines (lay : gb_layout) (r : rec) : list (list N) := gb_body_lines lay r ++ [s_end].

Definition print_gb1 (lr : gb_layout * rec) : list N :=
  print_lines (gl_eol (fst lr)) (gb_rec_lines (fst lr) (snd lr)) ++ concat (gl_blank (fst lr)).

Definition print_gb (lrs : list (gb_layout * rec)) : list N := concat (map print_gb1 lrs).

Definition gb_kw (l : list N) : bool :=
  has_prefix s_LOCUS l || has_prefix s_DEFINITION l || has_prefix s_SOURCE l || has_prefix s_FEATURES l ||
  has_prefix s_ORIGIN l || has_prefix s_CONTIG l || list_eqb l s_end.

Definition gb_hdr_ok (l : list N) : bool := negb (gb_kw l) && (length l <=? 100)%nat.

Definition gb_hdr1_ok (l : list N) : bool := gb_hdr_ok l && negb (has_prefix (spaces 12) l).

Definition gb_ft_ok (l : list N) : bool := gb_hdr_ok l && negb (has_prefix s_gb_xref l).

Definition is_numch (c : N) : bool := (c =? 32) || is_digit c.

Record em_layout := mkeml {
  el_eol : list N;                          (* line terminator of the record: LF or CR LF *)
  el_id : list N;                           (* rest of the ID line after the identifier: empty or ';' ... *)
  el_hdr1 : list (list N);                  (* XX, AC, DT ... *)
  el_def : list padded;                     (* DE lines *)
  el_hdr2 : list (list N);                  (* KW ... *)
  el_src : option (list N * list N);        (* OS line: pads around the organism *)
  el_hdr3 : list (list N);                  (* OC, RN, FH, FT ... *)
  el_xref : option (list N * list N);       (* FT /db_xref="taxon:DIGITS" REST *)
  el_hdr4 : list (list N);                  (* FT ..., XX, SQ *)
  el_seq : list (list (list N) * list N);   (* sequence lines: up to 6 groups, then the rest of the line (padding, position) *)
  el_blank : list (list N)                  (* empty lines after "//" *)
}.

Definition em_de_lines (d : list padded) : list (list N) := map (fun x => s_DE ++ pd_raw x) d.

Definition em_seq_line (sl : list (list N) * list N) : list N := spaces 5 ++ join32 (fst sl ++ [snd sl]).

Definition em_seq_text (sls : list (list (list N) * list N)) : list N := concat (map (fun sl => concat (fst sl)) sls).

Definition em_body_lines (lay : em_layout) (r : rec) : list (list N) :=
  [s_ID ++ rid r ++ el_id lay]
  ++ el_hdr1 lay
  ++ em_de_lines (el_def lay)
  ++ el_hdr2 lay
  ++ match el_src lay with None => [] | Some (a, b) => [s_OS ++ a ++ rsci r ++ b] end
  ++ el_hdr3 lay
  ++ match el_xref lay with None => [] | Some (ds, rest) => [s_embl_xref ++ ds ++ 34%N :: rest] end
  ++ el_hdr4 lay
  ++ map em_seq_line (el_seq lay).

Definition em_rec_lines (lay : em_layout) (r : rec) : list (list N) := em_body_lines lay r ++ [s_end].

Definition print_embl1 (lr : em_layout * rec) : list N :=
  print_lines (el_eol (fst lr)) (em_rec_lines (fst lr) (snd lr)) ++ concat (el_blank (fst lr)).

Definition print_embl (lrs : list (em_layout * rec)) : list N := concat (map print_embl1 lrs).

Definition em_ign_ok (l : list N) : bool :=
  negb (has_prefix s_ID l) && negb (has_prefix s_OS l) && negb (has_prefix s_DE l) &&
  (if has_prefix s_FT l then negb (has_prefix s_embl_xref l)
   else negb (has_prefix (spaces 5) l) && negb (list_eqb l s_end)).

Definition eol_okb (e : list N) : bool := list_eqb e [10] || list_eqb e [13;10].

Definition line_okb (l : list N) : bool := forallb (fun c => negb (is_eol c)) l.

Definition no32b (g : list N) : bool := forallb (fun c => negb (c =? 32)) g.

Definition padb (a : list N) : bool := forallb is_tspace a.

Definition hd_ntsp (x : list N) : bool := match x with [] => true | c :: _ => negb (is_tspace c) end.

Definition trimmedb (x : list N) : bool := hd_ntsp x && hd_ntsp (rev x).

Definition pd_okb (x : padded) : bool := padb (pd_l x) && padb (pd_r x) && trimmedb (pd_t x).

Definition nilb {A} (l : list A) : bool := match l with [] => true | _ => false end.

Definition seq_line_okb (sl : list N * list (list N)) : bool :=
  Nat.eqb (length (fst sl)) 10 && forallb is_numch (fst sl) && negb (nilb (snd sl)) && (length (snd sl) <=? 6)%nat && forallb no32b (snd sl).

Definition locus_restb (x : list N) : bool := match x with [] => true | c :: _ => c =? 32 end.

Definition digitsb (ds : list N) : bool := negb (nilb ds) && forallb is_digit ds && (length ds <=? 18)%nat.

Definition taxb (r : rec) (x : option (list N * list N)) : bool :=
  match x with
  | None => opt_eqb Z.eqb (rtax r) (Some 1%Z)
  | Some (ds, _) => digitsb ds && opt_eqb Z.eqb (rtax r) (Some (dec_val ds))
  end.

Definition valid_gbb (lr : gb_layout * rec) : bool :=
  let lay := fst lr in let r := snd lr in
  eol_okb (gl_eol lay) && forallb eol_okb (gl_blank lay) &&
  forallb line_okb (gb_rec_lines lay r) && forallb (fun l => (length l <=? 100)%nat) (gb_rec_lines lay r) &&
  no32b (rid r) && locus_restb (gl_locus lay) &&
  forallb pd_okb (gl_def lay) && list_eqb (rdef r) (def_text (gl_def lay)) &&
  forallb gb_hdr1_ok (gl_hdr1 lay) &&
  match gl_src lay with
  | None => nilb (rsci r)
  | Some (a, b, h2) => padb a && padb b && trimmedb (rsci r) && forallb gb_hdr_ok h2
  end &&
  forallb gb_ft_ok (gl_ft1 lay) && forallb gb_ft_ok (gl_ft2 lay) && taxb r (gl_xref lay) &&
  forallb seq_line_okb (gl_seq lay) && list_eqb (rseq r) (map lower (seq_text (gl_seq lay))) && nilb (match rqual r with None => [] | Some _ => [tt] end).

Definition no59b (g : list N) : bool := forallb (fun c => negb (c =? 59)) g.

Definition id_restb (x : list N) : bool := match x with [] => true | c :: _ => c =? 59 end.

Definition em_seq_line_okb (sl : list (list N) * list N) : bool :=
  forallb no32b (fst sl) && (Nat.eqb (length (fst sl)) 6 || ((length (fst sl) <? 6)%nat && no32b (snd sl))).

Definition valid_emblb (lr : em_layout * rec) : bool :=
  let lay := fst lr in let r := snd lr in
  eol_okb (el_eol lay) && forallb eol_okb (el_blank lay) &&
  forallb line_okb (em_rec_lines lay r) && forallb (fun l => (length l <=? 1000)%nat) (em_rec_lines lay r) &&
  no59b (rid r) && id_restb (el_id lay) &&
  forallb (fun x => pd_okb x && negb (nilb (pd_t x))) (el_def lay) && list_eqb (rdef r) (def_text (el_def lay)) &&
  forallb em_ign_ok (el_hdr1 lay) && forallb em_ign_ok (el_hdr2 lay) && forallb em_ign_ok (el_hdr3 lay) && forallb em_ign_ok (el_hdr4 lay) &&
  match el_src lay with None => nilb (rsci r) | Some (a, b) => padb a && padb b && trimmedb (rsci r) end &&
  taxb r (el_xref lay) &&
  forallb em_seq_line_okb (el_seq lay) && list_eqb (rseq r) (map lower (em_seq_text (el_seq lay))) && nilb (match rqual r with None => [] | Some _ => [tt] end).

Inductive pcase :=
| PGb (lrs : list (gb_layout * rec)) (bytes : list N)
| PEm (lrs : list (em_layout * rec)) (bytes : list N).

Definition pcase_ok (c : pcase) : bool :=
  match c with
  | PGb lrs b => forallb valid_gbb lrs && list_eqb (print_gb lrs) b
  | PEm lrs b => forallb valid_emblb lrs && list_eqb (print_embl lrs) b
  end.

Fixpoint print_mismatches_from (i : nat) (l : list pcase) : list nat :=
  match l with
  | [] => []
  | c :: l' => let rest := print_mismatches_from (S i) l' in if pcase_ok c then rest else i :: rest
  end.

Definition print_mismatches := print_mismatches_from 0.
