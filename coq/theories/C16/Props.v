(** C16 — property theorems (statements only; every proof is [exact] of a lemma of Proofs.v).
    obigrep, obiannotate, obidistribute act on each record as their options say.
    External matchers (Go regexp, gval, apat, taxonomy predicates) are universally quantified. *)
From Coq Require Import ZArith List String Bool Permutation.
From OBI.C16 Require Import Model Proofs.
From OBI.Common Require Reseq.
Import ListNotations.
Open Scope string_scope.
Open Scope list_scope.
Open Scope Z_scope.

Section Statements.
  Variables RE EXPR APAT TAXQ : Type.
  Variable re_match : bool -> RE -> string -> bool.
  Variable eval_bool : EXPR -> arec -> bool.
  Variable approx_match : APAT -> Z -> bool -> string -> bool.
  Variable apat_rc : APAT -> APAT.
  Variable tax_pred : TAXQ -> arec -> bool.
  Notation gopts := (gopts RE EXPR APAT TAXQ).
  Notation impl_base := (impl_base RE EXPR APAT TAXQ re_match eval_bool approx_match apat_rc tax_pred).
  Notation impl_pred := (impl_pred RE EXPR APAT TAXQ re_match eval_bool approx_match apat_rc tax_pred).
  Notation impl_paired := (impl_paired RE EXPR APAT TAXQ re_match eval_bool approx_match apat_rc tax_pred).
  Notation spec_pred := (spec_pred RE EXPR APAT TAXQ re_match eval_bool approx_match apat_rc tax_pred).
  Notation spec_sel := (spec_sel RE EXPR APAT TAXQ re_match eval_bool approx_match apat_rc tax_pred).

  (** [core] the predicate built from ANY combination of options (guards, 2e9 sentinels, nil-propagation
      included) is the conjunction of the requested criteria. Guard: wf_rec r = record of length and count in
      [1, 2e9). *)
  Theorem C16_grep_exact : forall (o : gopts) r, wf_rec r ->
    holds (impl_base o) r = spec_pred o r.
  Proof. exact (grep_base_exact RE EXPR APAT TAXQ re_match eval_bool approx_match apat_rc tax_pred). Qed.

  (** [core] -v keeps exactly the others, for EVERY option set — formerly C16_grep_exact_invert_partial (guard
      "at least one effective criterion"): since fix eafa00e the negation of the nil predicate rejects every record *)
  Theorem C16_grep_exact_invert : forall (o : gopts) r, wf_rec r ->
    holds (impl_pred o) r = (if invert _ _ _ _ o then negb (spec_pred o r) else spec_pred o r).
  Proof. exact (grep_exact RE EXPR APAT TAXQ re_match eval_bool approx_match apat_rc tax_pred). Qed.

  Theorem C16_effective_iff : forall (o : gopts), impl_base o = None <-> effective RE EXPR APAT TAXQ o = false.
  Proof. exact (impl_base_none_iff RE EXPR APAT TAXQ re_match eval_bool approx_match apat_rc tax_pred). Qed.

  (** no effective criterion: every record is kept, and with -v none *)
  Theorem C16_grep_nil_all_or_none : forall (o : gopts) r, impl_base o = None -> holds (impl_pred o) r = negb (invert _ _ _ _ o).
  Proof. exact (grep_invert_nil RE EXPR APAT TAXQ re_match eval_bool approx_match apat_rc tax_pred). Qed.

  (** --save-discarded: the two streams of DivideOn are the records that satisfy the selection, and exactly
      the others, each in input order (no guard any more) *)
  Theorem C16_grep_discarded_complement : forall (o : gopts) l, Forall wf_rec l ->
    divide_on (holds (impl_pred o)) l = (filter (spec_sel o) l, filter (fun r => negb (spec_sel o r)) l).
  Proof. exact (grep_divide_exact RE EXPR APAT TAXQ re_match eval_bool approx_match apat_rc tax_pred). Qed.

  (** [core] the six paired modes are the six Boolean functions of (forward, reverse) their names say, for every option
      set (andnot / xor without an effective criterion keep nothing) *)
  Theorem C16_paired_modes : forall (o : gopts) r mate, wf_rec r -> wf_rec mate ->
    holds2 (impl_paired o) r (Some mate) = mode_fun (pairmode _ _ _ _ o) (spec_sel o r) (spec_sel o mate).
  Proof. exact (paired_modes RE EXPR APAT TAXQ re_match eval_bool approx_match apat_rc tax_pred). Qed.
  Theorem C16_paired_unpaired_record : forall (o : gopts) r, holds2 (impl_paired o) r None = holds (impl_pred o) r.
  Proof. exact (paired_unpaired RE EXPR APAT TAXQ re_match eval_bool approx_match apat_rc tax_pred). Qed.

  (** paired input, any mode, with or without --save-discarded: the pairs written to (_R1, _R2) are exactly the pairs whose
      (forward, reverse) selection values satisfy the mode, rank by rank; the discarded (_R1, _R2) are exactly the others *)
  Theorem C16_paired_divide_exact : forall (o : gopts) l,
    Forall (fun fr : arec * arec => wf_rec (fst fr) /\ wf_rec (snd fr)) l ->
    let sel := fun fr : arec * arec => mode_fun (pairmode _ _ _ _ o) (spec_sel o (fst fr)) (spec_sel o (snd fr)) in
    let out := grep_paired_divide (holds2 (impl_paired o)) l in
    combine (fst (fst out)) (snd (fst out)) = filter sel l /\
    combine (fst (snd out)) (snd (snd out)) = filter (fun fr => negb (sel fr)) l.
  Proof. exact (paired_divide_exact RE EXPR APAT TAXQ re_match eval_bool approx_match apat_rc tax_pred). Qed.
End Statements.

(** DivideOn in general: kept ++ discarded is a permutation of the input, kept = filter p, discarded = filter (not p) *)
Theorem C16_divide_partition : forall A (p : A -> bool) l,
  fst (divide_on p l) = filter p l /\ snd (divide_on p l) = filter (fun x => negb (p x)) l /\
  Permutation (fst (divide_on p l) ++ snd (divide_on p l)) l /\
  (forall x, In x (fst (divide_on p l)) -> p x = true) /\ (forall x, In x (snd (divide_on p l)) -> p x = false).
Proof. exact divide_complement. Qed.

(** obimultiplex -u FILE: `unidentified, out = newIter.DivideOn(HasAttribute("obimultiplex_error"))` — every read processed by
    the barcode worker reaches exactly one of the two outputs, chosen by the presence of that attribute on the read alone *)
Theorem C16_unidentified_route : forall (l : list arec),
  let err := fun r : arec => has_key "obimultiplex_error" (rattrs r) in
  divide_on err l = (filter err l, filter (fun r => negb (err r)) l) /\
  Permutation (fst (divide_on err l) ++ snd (divide_on err l)) l /\
  (forall r, In r (fst (divide_on err l)) -> err r = true) /\ (forall r, In r (snd (divide_on err l)) -> err r = false).
Proof. exact unidentified_route. Qed.

(** both mates are kept or dropped together and stay at the same rank of the two output files *)
Theorem C16_paired_mates_together : forall p l,
  combine (fst (grep_paired p l)) (snd (grep_paired p l)) = filter (fun fr => p (fst fr) (Some (snd fr))) l /\
  List.length (fst (grep_paired p l)) = List.length (snd (grep_paired p l)).
Proof. exact paired_mates_together. Qed.

Section AnnotStatements.
  Variable VEXPR : Type.
  Variable eval_val : VEXPR -> arec -> option aval.
  Variable at_rank : string -> arec -> arec.
  Variables set_path set_trank set_sciname : arec -> arec.
  Variable set_lca : string -> arec -> arec.
  Variable AHO : Type.
  Variable aho_edit : AHO -> arec -> arec.
  Variable APAT : Type.
  Variable apat_src : APAT -> string.
  Variable apat_rc : APAT -> APAT.
  Variable best_match : APAT -> Z -> bool -> string -> option (Z * Z * Z).
  Notation aopts := (aopts VEXPR AHO APAT).
  Notation impl_annot := (impl_annot VEXPR eval_val at_rank set_path set_trank set_sciname set_lca AHO aho_edit APAT apat_src apat_rc best_match).
  Notation impl_annot_sel := (impl_annot_sel VEXPR eval_val at_rank set_path set_trank set_sciname set_lca AHO aho_edit APAT apat_src apat_rc best_match).
  Notation spec_annot := (spec_annot VEXPR eval_val at_rank set_path set_trank set_sciname set_lca AHO aho_edit APAT apat_src apat_rc best_match).

  (** [core] the chain built by CLIAnnotationWorker (ChainWorkers with nil handling, SeqToSliceWorker that skips
      failing records) applies every requested edit once, in the documented order (clear, set-id, delete, keep, rename incl.
      the record fields id / sequence, taxon-at-rank, path, rank, scientific name, lca, length, -S, aho-corasick, cut,
      pattern with its error budget / strand / indel flags), for every subset and multiplicity of edits; a record is
      dropped exactly when an expression or the cut fails on it *)
  Theorem C16_annotate_all_edits : forall (o : aopts) r, impl_annot o r = olist (spec_annot o r).
  Proof. exact (annot_exact VEXPR eval_val at_rank set_path set_trank set_sciname set_lca AHO aho_edit APAT apat_src apat_rc best_match). Qed.

  (** selection options restrict WHICH records are edited: the selected ones get every edit, the others are written
      unchanged; a selection without any edit is the identity (after fixes 9700221, 6a224c7) *)
  Theorem C16_annotate_selection : forall (sel : option pred) (o : aopts) r,
    impl_annot_sel sel o r = (if holds sel r then olist (spec_annot o r) else [r]).
  Proof. exact (annot_sel_exact VEXPR eval_val at_rank set_path set_trank set_sciname set_lca AHO aho_edit APAT apat_src apat_rc best_match). Qed.

  (** ... and changes nothing else: attributes not named by an edit, the sequence and the identifier. Stated for the option
      sets without external edits (taxonomy, aho-corasick, --pattern write the slots their own components define). *)
  Theorem C16_annotate_untouched : forall (o : aopts) r r' k, no_ext VEXPR AHO APAT o ->
    spec_annot o r = Some r' ->
    aclear _ _ _ o = false -> (akeep _ _ _ o = [] \/ mem_str k (akeep _ _ _ o) = true) -> touched VEXPR AHO APAT o k = false ->
    lookup k (rattrs r') = lookup k (rattrs r).
  Proof. exact (annot_untouched VEXPR eval_val at_rank set_path set_trank set_sciname set_lca AHO aho_edit APAT apat_src apat_rc best_match). Qed.
  Theorem C16_annotate_seq_id_untouched : forall (o : aopts) r r', no_ext VEXPR AHO APAT o -> sets_special VEXPR AHO APAT o = false ->
    spec_annot o r = Some r' -> has_cut VEXPR AHO APAT o = None ->
    rseq r' = rseq r /\ (asetid _ _ _ o = None -> rid r' = rid r).
  Proof. exact (annot_seq_id_untouched VEXPR eval_val at_rank set_path set_trank set_sciname set_lca AHO aho_edit APAT apat_src apat_rc best_match). Qed.
  (** the same with the external edits requested too, their frame being a hypothesis: if the taxonomy edits and the
      Aho-Corasick counter write only slots of [ext_key] (and keep identifier and sequence), an attribute that no requested
      edit names, that is not such a slot and not one of the four --pattern slots is unchanged *)
  Theorem C16_annotate_untouched_ext : forall (ext_key : string -> bool),
    (forall rk, frame ext_key (at_rank rk)) -> frame ext_key set_path -> frame ext_key set_trank -> frame ext_key set_sciname ->
    (forall s, frame ext_key (set_lca s)) -> (forall h, frame ext_key (aho_edit h)) ->
    forall (o : aopts) r r' k,
    spec_annot o r = Some r' ->
    aclear _ _ _ o = false -> (akeep _ _ _ o = [] \/ mem_str k (akeep _ _ _ o) = true) ->
    touched VEXPR AHO APAT o k = false -> ext_key k = false ->
    (apattern _ _ _ o = None \/ pat_keys (ptname _ _ _ o) k = false) ->
    lookup k (rattrs r') = lookup k (rattrs r).
  Proof. exact (annot_untouched_ext VEXPR eval_val at_rank set_path set_trank set_sciname set_lca AHO aho_edit APAT apat_src apat_rc best_match). Qed.
End AnnotStatements.

(** --cut from:to (from > 0, to <> 0) keeps bases from..t of EACH record (t = min(to, length), or length + to + 1 for
    a negative `to`), whatever was processed before; the record is discarded exactly when that range is empty *)
Theorem C16_cut_exact : forall from to r, 0 < from -> to <> 0 -> e_cut from to r = cut_spec from to r.
Proof. exact cut_positive. Qed.

(** [core] Distribute: the slice of class k is exactly the records of code k, in input order; every record
    reaches exactly one output, chosen by [code] alone *)
Theorem C16_route_slices : forall (A K : Type) (keq : K -> K -> bool) (code : A -> K),
  (forall a b, keq a b = true <-> a = b) ->
  forall l k, slice_of A K keq k (distribute A K keq code l) = filter (fun s => keq k (code s)) l.
Proof. exact distribute_slices. Qed.
Theorem C16_route_exactly_one : forall (A K : Type) (keq : K -> K -> bool) (code : A -> K),
  (forall a b, keq a b = true <-> a = b) ->
  forall l s, In s l ->
    In s (slice_of A K keq (code s) (distribute A K keq code l)) /\
    (forall k, In s (slice_of A K keq k (distribute A K keq code l)) -> k = code s).
Proof. exact route_exactly_one. Qed.

(** [core] the same routing at the level of BATCHES (batch size n, any partition of the input into batches): what is pushed
    on the output of class k, batch after batch, is exactly the records of class k in input order — however many times the
    buffer of a class fills up inside a run of records of the same class (seed C16-A) *)
Theorem C16_distribute_batches : forall (A K : Type) (keq : K -> K -> bool) (code : A -> K) (n : nat),
  (forall a b, keq a b = true <-> a = b) ->
  forall bs k, List.concat (get_out A K keq k (distribute_batches A K keq code n bs)) = filter (fun s => keq k (code s)) (List.concat bs).
Proof. exact distribute_batches_flat. Qed.
(** DivideOn with batch size n: the pushed true / false batches flatten to the selection and exactly its complement *)
Theorem C16_divide_batches : forall (A : Type) (n : nat) (p : A -> bool) bs,
  List.concat (fst (divide_batches A n p bs)) = filter p (List.concat bs) /\
  List.concat (snd (divide_batches A n p bs)) = filter (fun x => negb (p x)) (List.concat bs).
Proof. exact divide_batches_flat. Qed.
(** FilterOn: workers filter whole batches (any assignment of batches to workers: each keeps its order number), Rebatch
    re-cuts the sorted stream: the records written are the selected ones in input order *)
Theorem C16_filteron_batches : forall (A : Type) (n : nat) (p : A -> bool) bs,
  List.concat (rebatch A n (filter_batches A p bs)) = filter p (List.concat bs).
Proof. exact filteron_records. Qed.

(** any schedule: the batches (input batches / batches filtered by the parallel FilterOn workers) reach SortBatches in ANY
    order; the re-sequencer (Common/Reseq.v, reseq_any_permutation) restores the order numbers, so what each output
    receives does not depend on the schedule *)
Theorem C16_filteron_any_schedule : forall (A : Type) (n : nat) (p : A -> bool) (bs : list (list A)) arr,
  Permutation arr (Reseq.numbered (filter_batches A p bs)) ->
  List.concat (rebatch A n (Reseq.out (Reseq.run arr))) = filter p (List.concat bs).
Proof. exact filteron_any_schedule. Qed.
Theorem C16_distribute_any_arrival : forall (A K : Type) (keq : K -> K -> bool) (code : A -> K) (n : nat),
  (forall a b, keq a b = true <-> a = b) ->
  forall (bs : list (list A)) arr, Permutation arr (Reseq.numbered bs) ->
  forall k, List.concat (get_out A K keq k (distribute_batches A K keq code n (Reseq.out (Reseq.run arr)))) =
            filter (fun s => keq k (code s)) (List.concat bs).
Proof. exact distribute_any_arrival. Qed.
Theorem C16_divide_any_arrival : forall (A : Type) (n : nat) (p : A -> bool) (bs : list (list A)) arr,
  Permutation arr (Reseq.numbered bs) ->
  List.concat (fst (divide_batches A n p (Reseq.out (Reseq.run arr)))) = filter p (List.concat bs) /\
  List.concat (snd (divide_batches A n p (Reseq.out (Reseq.run arr)))) = filter (fun x => negb (p x)) (List.concat bs).
Proof. exact divide_any_arrival. Qed.

(** hypotheses are satisfiable / the statements are not vacuous: an option set with several criteria keeps one
    record and drops another; an annotate chain with five edits changes a record *)
Example C16_grep_nonvacuous :
  let o := mkg 3 SENT 1 5 [mkp false [ALit "a"; ALit "c"] false true] [] [] [PHas "k"] [] [("k", mkp true [ALit "a"] false false)] None false MForward [] [] [] in
  let r1 := mkr "s1" [("count", VI 5); ("k", VS "abc")] "acgt" in
  let r2 := mkr "s2" [("count", VI 6); ("k", VS "abc")] "acgt" in
  wf_rec r1 /\ wf_rec r2 /\ holds (c_impl_pred o) r1 = true /\ holds (c_impl_pred o) r2 = false.
Proof. unfold wf_rec; vm_compute; intuition discriminate. Qed.
Example C16_annotate_nonvacuous :
  c_impl_annot (mka false None ["k"] [] [("m", "n")] true [("a", EInt 1); ("b", ELenPlus 2)] (Some (2, 3)))
               (mkr "s1" [("k", VS "abc"); ("n", VI 3)] "acgt")
  = [mkr "s1_sub[2..3]" [("m", VI 3); ("seq_length", VI 4); ("a", VI 1); ("b", VI 6)] "cg"].
Proof. vm_compute. reflexivity. Qed.

(** regression witnesses of the repaired defects, evaluated on the model: -C alone; three -S; --cut after a short record *)
Example C16_maxcount_alone_regression :
  holds (c_impl_pred (mkg 1 SENT 1 5 [] [] [] [] [] [] None false MForward [] [] [])) (mkr "w1" [("count", VI 6)] "acgtacgtac") = false.
Proof. vm_compute. reflexivity. Qed.
Example C16_three_settag_regression :
  c_impl_annot (mka false None [] [] [] false [("a", EInt 1); ("b", EInt 2); ("c", EInt 3)] None) (mkr "c1" [] "acgt")
  = [mkr "c1" [("a", VI 1); ("b", VI 2); ("c", VI 3)] "acgt"].
Proof. vm_compute. reflexivity. Qed.
Example C16_cut_history_free_regression :
  flat_map (c_impl_annot (mka false None [] [] [] false [] (Some (3, 100)))) [mkr "c2" [] "acgtac"; mkr "c1" [] "acgtacgtacgt"]
  = [mkr "c2_sub[3..6]" [] "gtac"; mkr "c1_sub[3..12]" [] "gtacgtacgt"].
Proof. vm_compute. reflexivity. Qed.
(** regression witnesses of the repaired nil predicate: -v alone keeps nothing; --paired-mode xor alone keeps no pair *)
Example C16_invert_nil_regression :
  let o := mkg 1 SENT 1 SENT [] [] [] [] [] [] None true MForward [] [] [] in
  let r := mkr "w1" [("count", VI 6)] "acgtacgtac" in
  (holds (c_impl_pred o) r, c_spec_sel o r,
   holds2 (c_impl_paired (mkg 1 SENT 1 SENT [] [] [] [] [] [] None false MXor [] [] [])) r (Some r),
   holds2 (c_impl_paired (mkg 1 SENT 1 SENT [] [] [] [] [] [] None false MOr [] [] [])) r (Some r)) = (false, false, false, true).
Proof. vm_compute. reflexivity. Qed.
(** obiannotate with a selection: the unselected record is written unchanged; rename to the id field; string-typed count *)
Example C16_selection_special_nonvacuous :
  let sel := c_impl_pred (mkg 8 SENT 1 SENT [] [] [] [] [] [] None false MForward [] [] []) in
  let o := mka false None [] [] [("id", "n")] true [] None in
  (flat_map (c_impl_annot_sel sel o) [mkr "c2" [("n", VI 3)] "acgtac"; mkr "c4" [("n", VI 3)] "acgtacgtacgt"],
   rcount (mkr "t1" [("count", VS "6")] "a")) =
  ([mkr "c2" [("n", VI 3)] "acgtac"; mkr "3" [("seq_length", VI 12)] "acgtacgtacgt"], 1).
Proof. vm_compute. reflexivity. Qed.
(** a frame hypothesis of C16_annotate_untouched_ext holds of the concrete --scientific-name edit *)
Example C16_frame_nonvacuous : frame (fun k => String.eqb k "scienctific_name") c_set_sciname.
Proof. exact c_sciname_frame. Qed.
(** --approx-pattern: error budget, strand and indel flags *)
Example C16_approx_nonvacuous :
  let g := fun apx e indel fwd => mkg2 1 SENT 1 SENT [] [] [] [] [] [] None false MForward [] [] [] apx e indel fwd in
  let r := mkr "s" [] "ttttacgtacgtacgtttt" in
  (holds (c_impl_pred (g ["acgaacgt"] 0 false false)) r, holds (c_impl_pred (g ["acgaacgt"] 1 false false)) r,
   holds (c_impl_pred (g ["aaaacgt"] 0 false false)) r, holds (c_impl_pred (g ["aaaacgt"] 0 false true)) r,
   holds (c_impl_pred (g ["acgacgtac"] 1 false false)) r, holds (c_impl_pred (g ["acgacgtac"] 1 true false)) r)
  = (false, true, true, false, false, true).
Proof. vm_compute. reflexivity. Qed.
(** a run of 5 records of the same class with batch size 2: the class buffer fills twice inside the run *)
Example C16_distribute_batches_nonvacuous :
  distribute_batches Z bool Bool.eqb (fun z => z <? 10) 2 [[1; 2; 3]; [4; 20; 5]] = [(true, [[1; 2]; [3; 4]; [5]]); (false, [[20]])].
Proof. vm_compute. reflexivity. Qed.
(** taxonomic restrictions on the small concrete taxonomy: -r 30 keeps a species of genus 30, drops one of genus 31;
    -i 30 does the opposite; --require-rank genus drops a species attached to a family *)
Example C16_taxonomy_nonvacuous :
  let r40 := mkr "a" [("taxid", VI 40)] "acgt" in let r42 := mkr "c" [("taxid", VI 42)] "acgt" in let r50 := mkr "d" [("taxid", VI 50)] "acgt" in
  let o1 := mkg 1 SENT 1 SENT [] [] [] [] [] [] None false MForward [] [TSub 30] [] in
  let o2 := mkg 1 SENT 1 SENT [] [] [] [] [] [] None false MForward [] [] [TSub 30] in
  let o3 := mkg 1 SENT 1 SENT [] [] [] [] [] [] None false MForward [TRank "genus"] [] [] in
  (holds (c_impl_pred o1) r40, holds (c_impl_pred o1) r42, holds (c_impl_pred o2) r40, holds (c_impl_pred o2) r42,
   holds (c_impl_pred o3) r40, holds (c_impl_pred o3) r50) = (true, false, false, true, true, false).
Proof. vm_compute. reflexivity. Qed.
Example C16_route_nonvacuous :
  let ds := [mkr "a" [("k", VS "x")] "ac"; mkr "b" [("k", VS "y")] "ac"; mkr "c" [("k", VS "x")] "ac"; mkr "d" [("n", VI 1)] "ac"] in
  map (fun ks => (fst ks, map rid (snd ks))) (distribute arec (string * string) pair_eqb (class_code "k" "" "NA") ds)
  = [(("x", ""), ["a"; "c"]); (("y", ""), ["b"]); (("NA", ""), ["d"])].
Proof. vm_compute. reflexivity. Qed.
Example C16_cut_nonvacuous :
  e_cut 3 100 (mkr "c2" [("k", VS "abc")] "acgtac") = Some (mkr "c2_sub[3..6]" [("k", VS "abc")] "gtac") /\
  e_cut 3 (-2) (mkr "c2" [] "acgtac") = Some (mkr "c2_sub[3..5]" [] "gta") /\ e_cut 7 100 (mkr "c2" [] "acgtac") = None.
Proof. vm_compute. repeat split; reflexivity. Qed.

(** * Round 3 *)
(** --cut from:to for every sign of the two bounds (from <> 0, to <> 0): the record keeps exactly the bases at the 1-based
    positions s..t with s = from (from > 0) or length + from + 1 (from < 0; -1 = the last base; never before base 1) and
    t = min(to, length) (to > 0) or length + to + 1 (to < 0); it is discarded exactly when that range is empty.
    False before the fix of the negative start (the start was one base too far: --cut=-1:-1 discarded every record). *)
Theorem C16_cut_exact_signed : forall from to r, from <> 0 -> to <> 0 -> e_cut from to r = cut_spec_signed from to r.
Proof. exact cut_signed. Qed.
(** a record that survives --cut keeps a non-empty range inside the sequence and all its attributes *)
Theorem C16_cut_range : forall from to r r', from <> 0 -> to <> 0 -> e_cut from to r = Some r' ->
  1 <= cut_start from (rlen r) <= cut_end to (rlen r) /\ cut_end to (rlen r) <= rlen r /\ rattrs r' = rattrs r.
Proof. exact cut_signed_range. Qed.
Example C16_cut_signed_nonvacuous :
  e_cut (-3) (-1) (mkr "c2" [("k", VS "abc")] "acgtac") = Some (mkr "c2_sub[4..6]" [("k", VS "abc")] "tac") /\
  e_cut (-1) (-1) (mkr "c2" [] "acgtac") = Some (mkr "c2_sub[6..6]" [] "c") /\
  e_cut (-100) 3 (mkr "c2" [] "acgtac") = Some (mkr "c2_sub[1..3]" [] "acg") /\ e_cut (-2) 3 (mkr "c2" [] "acgtac") = None.
Proof. vm_compute. repeat split; reflexivity. Qed.

(** obidistribute --append: runs that append to the same files (inputs bs1 then bs2, any batch sizes) leave in the file
    of class k exactly what ONE run on the concatenated input writes there (for a class chosen from the record alone) *)
Theorem C16_distribute_append : forall (A K : Type) (keq : K -> K -> bool) (code : A -> K) (n1 n2 n : nat),
  (forall a b, keq a b = true <-> a = b) ->
  forall bs1 bs2 k,
    List.concat (get_out A K keq k (distribute_batches A K keq code n1 bs1)) ++
    List.concat (get_out A K keq k (distribute_batches A K keq code n2 bs2)) =
    List.concat (get_out A K keq k (distribute_batches A K keq code n (bs1 ++ bs2))).
Proof. exact distribute_append. Qed.
(** obimultiplex WITHOUT -u (`FilterOn(HasAttribute("obimultiplex_error").Not())`, batch size n) writes on stdout exactly
    the reads the run WITH -u (`DivideOn(HasAttribute("obimultiplex_error"))`, batch size m) writes there, and these
    together with the unidentified stream of that run are a permutation of the reads processed *)
Theorem C16_mux_without_unidentified : forall (n m : nat) (bs : list (list arec)),
  let err := fun r : arec => has_key "obimultiplex_error" (rattrs r) in
  List.concat (rebatch arec n (filter_batches arec (holds (p_not (Some err))) bs)) = List.concat (snd (divide_batches arec m err bs)) /\
  Permutation (List.concat (fst (divide_batches arec m err bs)) ++ List.concat (rebatch arec n (filter_batches arec (holds (p_not (Some err))) bs))) (List.concat bs).
Proof. exact mux_without_unidentified. Qed.
(** several input files, --no-order: whatever the order in which the files are taken, obigrep keeps (and discards) the same
    multiset of records and obiannotate (a per-record edit [f], records possibly dropped) writes the same multiset *)
Theorem C16_files_any_order : forall A B (p : A -> bool) (f : A -> list B) (files files' : list (list A)),
  Permutation files files' ->
  Permutation (filter p (List.concat files')) (filter p (List.concat files)) /\
  Permutation (filter (fun x => negb (p x)) (List.concat files')) (filter (fun x => negb (p x)) (List.concat files)) /\
  Permutation (flat_map f (List.concat files')) (flat_map f (List.concat files)).
Proof. exact files_any_order. Qed.
(** an edit that cannot be computed on a record: `obiannotate -S a=annotations.k` (a plain attribute name a) writes, for
    a record that has attribute k, that record with a = its value of k (nothing else changed) and DISCARDS a record that
    has no attribute k (gval: unknown parameter; the worker chain logs and skips it) *)
Theorem C16_set_tag_from_attribute : forall (a k : string) (r : arec),
  String.eqb a "id" = false -> String.eqb a "sequence" = false -> String.eqb a "qualities" = false ->
  c_impl_annot (mka false None [] [] [] false [(a, EAttr k)] None) r =
  match lookup k (rattrs r) with
  | Some v => [set_attrs r (set_key a v (rattrs r))]
  | None => []
  end.
Proof. exact set_tag_from_attribute. Qed.
Example C16_round3_nonvacuous :
  let r1 := mkr "a" [("obimultiplex_error", VS "No barcode identified")] "ac" in
  let r2 := mkr "b" [("sample", VS "s1")] "acg" in let r3 := mkr "c" [("sample", VS "s2")] "acgt" in
  let err := fun r : arec => has_key "obimultiplex_error" (rattrs r) in
  List.concat (rebatch arec 2 (filter_batches arec (holds (p_not (Some err))) [[r1; r2]; [r3]])) = [r2; r3] /\
  List.concat (get_out arec (string * string) pair_eqb ("s1", "") (distribute_batches arec (string * string) pair_eqb (class_code "sample" "" "NA") 1 [[r2; r3]; [r2]])) = [r2; r2].
Proof. vm_compute. split; reflexivity. Qed.

Print Assumptions C16_grep_exact.
Print Assumptions C16_grep_exact_invert.
Print Assumptions C16_effective_iff.
Print Assumptions C16_grep_nil_all_or_none.
Print Assumptions C16_grep_discarded_complement.
Print Assumptions C16_paired_modes.
Print Assumptions C16_paired_unpaired_record.
Print Assumptions C16_paired_divide_exact.
Print Assumptions C16_divide_partition.
Print Assumptions C16_unidentified_route.
Print Assumptions C16_paired_mates_together.
Print Assumptions C16_annotate_all_edits.
Print Assumptions C16_annotate_selection.
(** --rename-tag K=K (an attribute renamed to its own name) leaves every record as it is, whatever the other pairs of the
    same kind are: no attribute is lost. *)
Theorem C16_rename_self_identity : forall (l : list (string * string)) (r : arec),
  forallb (fun no : string * string => String.eqb (fst no) (snd no)) l = true -> e_rename l r = r.
Proof. exact rename_self_identity. Qed.
Print Assumptions C16_annotate_untouched.
Print Assumptions C16_annotate_seq_id_untouched.
Print Assumptions C16_annotate_untouched_ext.
Print Assumptions C16_cut_exact.
Print Assumptions C16_route_slices.
Print Assumptions C16_route_exactly_one.
Print Assumptions C16_distribute_batches.
Print Assumptions C16_divide_batches.
Print Assumptions C16_filteron_batches.
Print Assumptions C16_filteron_any_schedule.
Print Assumptions C16_distribute_any_arrival.
Print Assumptions C16_divide_any_arrival.
Print Assumptions C16_rename_self_identity.
Print Assumptions C16_cut_exact_signed.
Print Assumptions C16_cut_range.
Print Assumptions C16_distribute_append.
Print Assumptions C16_mux_without_unidentified.
Print Assumptions C16_files_any_order.
Print Assumptions C16_set_tag_from_attribute.
