(** C16 — property theorems (statements only; every proof is [exact] of a lemma of Proofs.v).
    obigrep, obiannotate, obidistribute act on each record as their options say.
    External matchers (Go regexp, gval, apat, taxonomy predicates) are universally quantified. *)
From Coq Require Import ZArith List String Bool Permutation.
From OBI.C16 Require Import Model Proofs.
Import ListNotations.
Open Scope string_scope.
Open Scope list_scope.
Open Scope Z_scope.

Section Statements.
  Variables RE EXPR APAT TAXQ : Type.
  Variable re_match : bool -> RE -> string -> bool.
  Variable eval_bool : EXPR -> arec -> bool.
  Variable approx_match : APAT -> arec -> bool.
  Variable tax_pred : TAXQ -> arec -> bool.
  Notation gopts := (gopts RE EXPR APAT TAXQ).
  Notation impl_base := (impl_base RE EXPR APAT TAXQ re_match eval_bool approx_match tax_pred).
  Notation impl_pred := (impl_pred RE EXPR APAT TAXQ re_match eval_bool approx_match tax_pred).
  Notation impl_paired := (impl_paired RE EXPR APAT TAXQ re_match eval_bool approx_match tax_pred).
  Notation spec_pred := (spec_pred RE EXPR APAT TAXQ re_match eval_bool approx_match tax_pred).
  Notation spec_sel := (spec_sel RE EXPR APAT TAXQ re_match eval_bool approx_match tax_pred).

  (** [core] the predicate built from ANY combination of options (guards, 2e9 sentinels, nil-propagation
      included) is the conjunction of the requested criteria. Guard: wf_rec r = record of length and count in
      [1, 2e9). *)
  Theorem C16_grep_exact : forall (o : gopts) r, wf_rec r ->
    holds (impl_base o) r = spec_pred o r.
  Proof. exact (grep_base_exact RE EXPR APAT TAXQ re_match eval_bool approx_match tax_pred). Qed.

  (** -v keeps exactly the others — PARTIAL: needs at least one effective criterion (impl_base o <> None,
      characterised by C16_effective_iff). The full statement (no such hypothesis) is false of the code: see
      C16_grep_invert_nil_refuted, known finding C16/nil-predicate-shortcut. *)
  Theorem C16_grep_exact_invert_partial : forall (o : gopts) r, wf_rec r ->
    invert _ _ _ _ o = false \/ impl_base o <> None ->
    holds (impl_pred o) r = (if invert _ _ _ _ o then negb (spec_pred o r) else spec_pred o r).
  Proof. exact (grep_exact RE EXPR APAT TAXQ re_match eval_bool approx_match tax_pred). Qed.

  Theorem C16_effective_iff : forall (o : gopts), impl_base o = None <-> effective RE EXPR APAT TAXQ o = false.
  Proof. exact (impl_base_none_iff RE EXPR APAT TAXQ re_match eval_bool approx_match tax_pred). Qed.

  (** what the code does instead when no criterion is effective: every record is kept, -v or not *)
  Theorem C16_grep_nil_keeps_all : forall (o : gopts) r, impl_base o = None -> holds (impl_pred o) r = true.
  Proof. exact (grep_invert_nil RE EXPR APAT TAXQ re_match eval_bool approx_match tax_pred). Qed.

  (** --save-discarded: the two streams of DivideOn are the records that satisfy the selection, and exactly
      the others, each in input order *)
  Theorem C16_grep_discarded_complement : forall (o : gopts) l, Forall wf_rec l ->
    invert _ _ _ _ o = false \/ impl_base o <> None ->
    divide_on (holds (impl_pred o)) l = (filter (spec_sel o) l, filter (fun r => negb (spec_sel o r)) l).
  Proof. exact (grep_divide_exact RE EXPR APAT TAXQ re_match eval_bool approx_match tax_pred). Qed.

  (** [core] the six paired modes are the six Boolean functions of (forward, reverse) their names say *)
  Theorem C16_paired_modes : forall (o : gopts) r mate, wf_rec r -> wf_rec mate -> impl_base o <> None ->
    holds2 (impl_paired o) r (Some mate) = mode_fun (pairmode _ _ _ _ o) (spec_sel o r) (spec_sel o mate).
  Proof. exact (paired_modes RE EXPR APAT TAXQ re_match eval_bool approx_match tax_pred). Qed.
  Theorem C16_paired_unpaired_record : forall (o : gopts) r, holds2 (impl_paired o) r None = holds (impl_pred o) r.
  Proof. exact (paired_unpaired RE EXPR APAT TAXQ re_match eval_bool approx_match tax_pred). Qed.

  (** paired input, any mode, with or without --save-discarded: the pairs written to (_R1, _R2) are exactly the pairs whose
      (forward, reverse) selection values satisfy the mode, rank by rank; the discarded (_R1, _R2) are exactly the others *)
  Theorem C16_paired_divide_exact : forall (o : gopts) l,
    Forall (fun fr : arec * arec => wf_rec (fst fr) /\ wf_rec (snd fr)) l -> impl_base o <> None ->
    let sel := fun fr : arec * arec => mode_fun (pairmode _ _ _ _ o) (spec_sel o (fst fr)) (spec_sel o (snd fr)) in
    let out := grep_paired_divide (holds2 (impl_paired o)) l in
    combine (fst (fst out)) (snd (fst out)) = filter sel l /\
    combine (fst (snd out)) (snd (snd out)) = filter (fun fr => negb (sel fr)) l.
  Proof. exact (paired_divide_exact RE EXPR APAT TAXQ re_match eval_bool approx_match tax_pred). Qed.
End Statements.

(** the witness of the known finding: `obigrep -v` (no criterion) keeps a record that satisfies every
    (zero) requested criterion, where -v asks for the others *)
Theorem C16_grep_invert_nil_refuted :
  exists (o : cgopts) (r : arec), invert _ _ _ _ o = true /\ wf_rec r /\
    c_spec_sel o r = false /\ holds (c_impl_pred o) r = true.
Proof. exact grep_invert_nil_witness. Qed.

(** DivideOn in general: kept ++ discarded is a permutation of the input, kept = filter p, discarded = filter (not p) *)
Theorem C16_divide_partition : forall A (p : A -> bool) l,
  fst (divide_on p l) = filter p l /\ snd (divide_on p l) = filter (fun x => negb (p x)) l /\
  Permutation (fst (divide_on p l) ++ snd (divide_on p l)) l /\
  (forall x, In x (fst (divide_on p l)) -> p x = true) /\ (forall x, In x (snd (divide_on p l)) -> p x = false).
Proof. exact divide_complement. Qed.

(** both mates are kept or dropped together and stay at the same rank of the two output files *)
Theorem C16_paired_mates_together : forall p l,
  combine (fst (grep_paired p l)) (snd (grep_paired p l)) = filter (fun fr => p (fst fr) (Some (snd fr))) l /\
  List.length (fst (grep_paired p l)) = List.length (snd (grep_paired p l)).
Proof. exact paired_mates_together. Qed.

(** [core] the chain built by CLIAnnotationWorker (ChainWorkers with nil handling, SeqToSliceWorker that skips
    failing records) applies every requested edit once, in the documented order, for every subset and
    multiplicity of edits; a record is dropped exactly when an expression or the cut fails on it *)
Theorem C16_annotate_all_edits : forall VEXPR (eval_val : VEXPR -> arec -> option aval) (o : aopts VEXPR) r,
  impl_annot VEXPR eval_val o r = olist (spec_annot VEXPR eval_val o r).
Proof. exact annot_exact. Qed.

(** ... and changes nothing else: attributes not named by an edit, the sequence and the identifier *)
Theorem C16_annotate_untouched : forall VEXPR (eval_val : VEXPR -> arec -> option aval) (o : aopts VEXPR) r r' k,
  spec_annot VEXPR eval_val o r = Some r' ->
  aclear _ o = false -> (akeep _ o = [] \/ mem_str k (akeep _ o) = true) -> touched VEXPR o k = false ->
  lookup k (rattrs r') = lookup k (rattrs r).
Proof. exact annot_untouched. Qed.
Theorem C16_annotate_seq_id_untouched : forall VEXPR (eval_val : VEXPR -> arec -> option aval) (o : aopts VEXPR) r r',
  spec_annot VEXPR eval_val o r = Some r' -> has_cut VEXPR o = None ->
  rseq r' = rseq r /\ (asetid _ o = None -> rid r' = rid r).
Proof. exact annot_seq_id_untouched. Qed.

(** --cut from:to (from > 0, to <> 0) keeps bases from..t of EACH record (t = min(to, length), or length + to + 1 for
    a negative `to`), whatever was processed before; the record is discarded exactly when that range is empty *)
Theorem C16_cut_exact : forall from to r, 0 < from -> to <> 0 -> e_cut from to r = cut_spec from to r.
Proof. exact cut_positive. Qed.

(** [core] Distribute: the slice of class k is exactly the records of code k, in input order; every record
    reaches exactly one output, chosen by [code] alone *)
Theorem C16_route_slices : forall (A K : Type) (keq : K -> K -> bool) (code : A -> K),
  (forall a b, keq a b = true <-> a = b) ->
  forall l k, slice_of A K keq k (distribute A K keq code l) = filter (fun s => keq k (code s)) l.
Proof. exact distribute_slices. Qed.
Theorem C16_route_exactly_one : forall (A K : Type) (keq : K -> K -> bool) (code : A -> K),
  (forall a b, keq a b = true <-> a = b) ->
  forall l s, In s l ->
    In s (slice_of A K keq (code s) (distribute A K keq code l)) /\
    (forall k, In s (slice_of A K keq k (distribute A K keq code l)) -> k = code s).
Proof. exact route_exactly_one. Qed.

(** hypotheses are satisfiable / the statements are not vacuous: an option set with several criteria keeps one
    record and drops another; an annotate chain with five edits changes a record *)
Example C16_grep_nonvacuous :
  let o := mkg 3 SENT 1 5 [mkp false [ALit "a"; ALit "c"] false true] [] [] [PHas "k"] [] [("k", mkp true [ALit "a"] false false)] None false MForward [] [] [] in
  let r1 := mkr "s1" [("count", VI 5); ("k", VS "abc")] "acgt" in
  let r2 := mkr "s2" [("count", VI 6); ("k", VS "abc")] "acgt" in
  wf_rec r1 /\ wf_rec r2 /\ holds (c_impl_pred o) r1 = true /\ holds (c_impl_pred o) r2 = false.
Proof. unfold wf_rec; vm_compute; intuition discriminate. Qed.
Example C16_annotate_nonvacuous :
  c_impl_annot (mka false None ["k"] [] [("m", "n")] true [("a", EInt 1); ("b", ELenPlus 2)] (Some (2, 3)))
               (mkr "s1" [("k", VS "abc"); ("n", VI 3)] "acgt")
  = [mkr "s1_sub[2..3]" [("m", VI 3); ("seq_length", VI 4); ("a", VI 1); ("b", VI 6)] "cg"].
Proof. vm_compute. reflexivity. Qed.

(** regression witnesses of the repaired defects, evaluated on the model: -C alone; three -S; --cut after a short record *)
Example C16_maxcount_alone_regression :
  holds (c_impl_pred (mkg 1 SENT 1 5 [] [] [] [] [] [] None false MForward [] [] [])) (mkr "w1" [("count", VI 6)] "acgtacgtac") = false.
Proof. vm_compute. reflexivity. Qed.
Example C16_three_settag_regression :
  c_impl_annot (mka false None [] [] [] false [("a", EInt 1); ("b", EInt 2); ("c", EInt 3)] None) (mkr "c1" [] "acgt")
  = [mkr "c1" [("a", VI 1); ("b", VI 2); ("c", VI 3)] "acgt"].
Proof. vm_compute. reflexivity. Qed.
Example C16_cut_history_free_regression :
  flat_map (c_impl_annot (mka false None [] [] [] false [] (Some (3, 100)))) [mkr "c2" [] "acgtac"; mkr "c1" [] "acgtacgtacgt"]
  = [mkr "c2_sub[3..6]" [] "gtac"; mkr "c1_sub[3..12]" [] "gtacgtacgt"].
Proof. vm_compute. reflexivity. Qed.
(** taxonomic restrictions on the small concrete taxonomy: -r 30 keeps a species of genus 30, drops one of genus 31;
    -i 30 does the opposite; --require-rank genus drops a species attached to a family *)
Example C16_taxonomy_nonvacuous :
  let r40 := mkr "a" [("taxid", VI 40)] "acgt" in let r42 := mkr "c" [("taxid", VI 42)] "acgt" in let r50 := mkr "d" [("taxid", VI 50)] "acgt" in
  let o1 := mkg 1 SENT 1 SENT [] [] [] [] [] [] None false MForward [] [TSub 30] [] in
  let o2 := mkg 1 SENT 1 SENT [] [] [] [] [] [] None false MForward [] [] [TSub 30] in
  let o3 := mkg 1 SENT 1 SENT [] [] [] [] [] [] None false MForward [TRank "genus"] [] [] in
  (holds (c_impl_pred o1) r40, holds (c_impl_pred o1) r42, holds (c_impl_pred o2) r40, holds (c_impl_pred o2) r42,
   holds (c_impl_pred o3) r40, holds (c_impl_pred o3) r50) = (true, false, false, true, true, false).
Proof. vm_compute. reflexivity. Qed.
Example C16_route_nonvacuous :
  let ds := [mkr "a" [("k", VS "x")] "ac"; mkr "b" [("k", VS "y")] "ac"; mkr "c" [("k", VS "x")] "ac"; mkr "d" [("n", VI 1)] "ac"] in
  map (fun ks => (fst ks, map rid (snd ks))) (distribute arec (string * string) pair_eqb (class_code "k" "" "NA") ds)
  = [(("x", ""), ["a"; "c"]); (("y", ""), ["b"]); (("NA", ""), ["d"])].
Proof. vm_compute. reflexivity. Qed.
Example C16_cut_nonvacuous :
  e_cut 3 100 (mkr "c2" [("k", VS "abc")] "acgtac") = Some (mkr "c2_sub[3..6]" [("k", VS "abc")] "gtac") /\
  e_cut 3 (-2) (mkr "c2" [] "acgtac") = Some (mkr "c2_sub[3..5]" [] "gta") /\ e_cut 7 100 (mkr "c2" [] "acgtac") = None.
Proof. vm_compute. repeat split; reflexivity. Qed.

Print Assumptions C16_grep_exact.
Print Assumptions C16_grep_exact_invert_partial.
Print Assumptions C16_effective_iff.
Print Assumptions C16_grep_nil_keeps_all.
Print Assumptions C16_grep_discarded_complement.
Print Assumptions C16_paired_modes.
Print Assumptions C16_paired_unpaired_record.
Print Assumptions C16_paired_divide_exact.
Print Assumptions C16_grep_invert_nil_refuted.
Print Assumptions C16_divide_partition.
Print Assumptions C16_paired_mates_together.
Print Assumptions C16_annotate_all_edits.
Print Assumptions C16_annotate_untouched.
Print Assumptions C16_annotate_seq_id_untouched.
Print Assumptions C16_cut_exact.
Print Assumptions C16_route_slices.
Print Assumptions C16_route_exactly_one.
