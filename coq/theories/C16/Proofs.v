(** C16 — lemmas over Model.v *)
From Coq Require Import ZArith List String Ascii Bool Lia Permutation.
From OBI.C16 Require Import Model.
From OBI.Common Require Reseq.
Import ListNotations.
Open Scope string_scope.
Open Scope list_scope.
Open Scope Z_scope.

(** * predicate combinators *)
Lemma holds_p_and : forall a b r, holds (p_and a b) r = holds a r && holds b r.
Proof.
  intros [f|] [g|] r; simpl; try reflexivity.
  - destruct (f r); reflexivity.
  - rewrite andb_true_r; reflexivity.
Qed.
Lemma holds_p_or_some : forall f g r, holds (p_or (Some f) (Some g)) r = f r || g r.
Proof. intros f g r; simpl; destruct (f r); reflexivity. Qed.
Lemma holds_p_not_some : forall f r, holds (p_not (Some f)) r = negb (f r).
Proof. reflexivity. Qed.

Lemma fold_and_holds : forall A (mk : A -> pred) t p0 r,
  holds (fold_left (fun p y => p_and p (Some (mk y))) t p0) r = holds p0 r && forallb (fun x => mk x r) t.
Proof.
  intros A mk t; induction t as [|x t IH]; intros p0 r; simpl.
  - rewrite andb_true_r; reflexivity.
  - rewrite IH, holds_p_and; simpl. rewrite andb_assoc; reflexivity.
Qed.
Lemma holds_chain_and : forall A (mk : A -> pred) l r,
  holds (chain_and mk l) r = forallb (fun x => mk x r) l.
Proof. intros A mk [|x t] r; simpl; [reflexivity|]. rewrite fold_and_holds; reflexivity. Qed.

Lemma fold_or_some : forall A (mk : A -> pred) t f,
  exists g, fold_left (fun p y => p_or p (Some (mk y))) t (Some f) = Some g /\
            forall r, g r = f r || existsb (fun x => mk x r) t.
Proof.
  intros A mk t; induction t as [|x t IH]; intros f; simpl.
  - exists f; split; [reflexivity|]. intros r; rewrite orb_false_r; reflexivity.
  - destruct (IH (fun r => if f r then true else mk x r)) as [g [Hg Hs]].
    exists g; split; [exact Hg|]. intros r; rewrite Hs. destruct (f r); simpl; reflexivity.
Qed.
Lemma holds_chain_or : forall A (mk : A -> pred) l r,
  holds (chain_or mk l) r = match l with [] => true | _ => existsb (fun x => mk x r) l end.
Proof.
  intros A mk [|x t] r; simpl; [reflexivity|].
  destruct (fold_or_some A mk t (mk x)) as [g [Hg Hs]]. rewrite Hg; simpl. apply Hs.
Qed.
Lemma holds_not_chain_or : forall A (mk : A -> pred) l r,
  holds (match l with [] => None | _ => p_not (chain_or mk l) end) r = negb (existsb (fun x => mk x r) l).
Proof.
  intros A mk [|x t] r; [reflexivity|].
  unfold chain_or. destruct (fold_or_some A mk t (mk x)) as [g [Hg Hs]]. rewrite Hg; simpl. rewrite Hs; reflexivity.
Qed.

Lemma fold_and_none : forall A (mk : A -> pred) l r,
  holds (fold_left (fun p y => p_and p (Some (mk y))) l None) r = forallb (fun x => mk x r) l.
Proof. intros; rewrite fold_and_holds; reflexivity. Qed.

Definition nonempty {A} (l : list A) : bool := match l with [] => false | _ => true end.
Lemma forallb_ext' : forall A (f g : A -> bool) l, (forall x, f x = g x) -> forallb f l = forallb g l.
Proof. intros A f g l H; induction l as [|x t IH]; simpl; [reflexivity|]. rewrite H, IH; reflexivity. Qed.

Section GrepProofs.
  Variables RE EXPR APAT TAXQ : Type.
  Variable re_match : bool -> RE -> string -> bool.
  Variable eval_bool : EXPR -> arec -> bool.
  Variable approx_match : APAT -> Z -> bool -> string -> bool.
  Variable apat_rc : APAT -> APAT.
  Variable tax_pred : TAXQ -> arec -> bool.
  Notation gopts := (gopts RE EXPR APAT TAXQ).
  Notation impl_base := (impl_base RE EXPR APAT TAXQ re_match eval_bool approx_match apat_rc tax_pred).
  Notation impl_pred := (impl_pred RE EXPR APAT TAXQ re_match eval_bool approx_match apat_rc tax_pred).
  Notation impl_paired := (impl_paired RE EXPR APAT TAXQ re_match eval_bool approx_match apat_rc tax_pred).
  Notation spec_pred := (spec_pred RE EXPR APAT TAXQ re_match eval_bool approx_match apat_rc tax_pred).
  Notation spec_sel := (spec_sel RE EXPR APAT TAXQ re_match eval_bool approx_match apat_rc tax_pred).

  (** the guards of the builders: records are non-empty, counts positive, both below the 2e9 sentinel *)
  Definition wf_rec (r : arec) : Prop := 1 <= rlen r < SENT /\ 1 <= rcount r < SENT.

  Lemma holds_size : forall (o : gopts) r, 1 <= rlen r < SENT ->
    holds (size_pred RE EXPR APAT TAXQ o) r = (minlen _ _ _ _ o <=? rlen r) && (rlen r <=? maxlen _ _ _ _ o).
  Proof.
    intros o r Hl. unfold size_pred.
    destruct (1 <? minlen _ _ _ _ o) eqn:Hm; destruct (maxlen _ _ _ _ o =? SENT) eqn:Hx; simpl.
    - apply Z.eqb_eq in Hx. rewrite Hx. replace (rlen r <=? SENT) with true by (symmetry; apply Z.leb_le; lia).
      rewrite andb_true_r; reflexivity.
    - destruct (minlen _ _ _ _ o <=? rlen r); reflexivity.
    - apply Z.eqb_eq in Hx. apply Z.ltb_ge in Hm. rewrite Hx.
      replace (rlen r <=? SENT) with true by (symmetry; apply Z.leb_le; lia).
      replace (minlen _ _ _ _ o <=? rlen r) with true by (symmetry; apply Z.leb_le; lia). reflexivity.
    - apply Z.ltb_ge in Hm.
      replace (minlen _ _ _ _ o <=? rlen r) with true by (symmetry; apply Z.leb_le; lia). reflexivity.
  Qed.
  Lemma holds_count : forall (o : gopts) r, 1 <= rcount r < SENT ->
    holds (count_pred RE EXPR APAT TAXQ o) r = (mincount _ _ _ _ o <=? rcount r) && (rcount r <=? maxcount _ _ _ _ o).
  Proof.
    intros o r Hl. unfold count_pred.
    destruct (1 <? mincount _ _ _ _ o) eqn:Hm; destruct (maxcount _ _ _ _ o =? SENT) eqn:Hx; simpl.
    - apply Z.eqb_eq in Hx. rewrite Hx. replace (rcount r <=? SENT) with true by (symmetry; apply Z.leb_le; lia).
      rewrite andb_true_r; reflexivity.
    - destruct (mincount _ _ _ _ o <=? rcount r); reflexivity.
    - apply Z.eqb_eq in Hx. apply Z.ltb_ge in Hm. rewrite Hx.
      replace (rcount r <=? SENT) with true by (symmetry; apply Z.leb_le; lia).
      replace (mincount _ _ _ _ o <=? rcount r) with true by (symmetry; apply Z.leb_le; lia). reflexivity.
    - apply Z.ltb_ge in Hm.
      replace (mincount _ _ _ _ o <=? rcount r) with true by (symmetry; apply Z.leb_le; lia). reflexivity.
  Qed.
  Lemma holds_tax : forall (o : gopts) r,
    holds (tax_filter RE EXPR APAT TAXQ tax_pred o) r =
    forallb (fun q => tax_pred q r) (ranks _ _ _ _ o) &&
    (match belong _ _ _ _ o with [] => true | l => existsb (fun q => tax_pred q r) l end) &&
    negb (existsb (fun q => tax_pred q r) (avoid _ _ _ _ o)).
  Proof.
    intros o r. unfold tax_filter. rewrite !holds_p_and, holds_chain_and, holds_chain_or, holds_not_chain_or.
    destruct (belong _ _ _ _ o); reflexivity.
  Qed.
  Lemma holds_attrs : forall (o : gopts) r,
    holds (attrs_pred RE EXPR APAT TAXQ re_match o) r = forallb (fun kp => attr_match RE re_match kp r) (attrpats _ _ _ _ o).
  Proof.
    intros o r. unfold attrs_pred. destruct (attrpats _ _ _ _ o) as [|x t] eqn:E; [reflexivity|].
    rewrite fold_and_none; reflexivity.
  Qed.
  Lemma holds_idlist : forall (o : gopts) r,
    holds (idlist_pred RE EXPR APAT TAXQ o) r = match idlist _ _ _ _ o with None => true | Some ids => mem_str (rid r) ids end.
  Proof. intros o r. unfold idlist_pred. destruct (idlist _ _ _ _ o); reflexivity. Qed.

  Theorem grep_base_exact : forall (o : gopts) r, wf_rec r -> holds (impl_base o) r = spec_pred o r.
  Proof.
    intros o r [Hl Hc]. unfold Model.impl_base, Model.spec_pred.
    rewrite !holds_p_and, holds_size, holds_count, holds_tax, holds_attrs, holds_idlist, !holds_chain_and by assumption.
    rewrite !andb_assoc. reflexivity.    (* approx_pred is convertible to the || / && form of the statement *)
  Qed.

  (** -v: exactly the others, for EVERY option set (the negation of the nil predicate rejects every record) *)
  Theorem grep_exact : forall (o : gopts) r, wf_rec r -> holds (impl_pred o) r = spec_sel o r.
  Proof.
    intros o r Hw. unfold Model.impl_pred, Model.spec_sel. rewrite <- (grep_base_exact o r Hw).
    destruct (invert _ _ _ _ o); [|reflexivity]. destruct (impl_base o) as [f|]; reflexivity.
  Qed.

  (** which option sets give a non-nil predicate *)
  Definition effective (o : gopts) : bool :=
    (1 <? minlen _ _ _ _ o) || negb (maxlen _ _ _ _ o =? SENT) || (1 <? mincount _ _ _ _ o) || negb (maxcount _ _ _ _ o =? SENT) ||
    nonempty (ranks _ _ _ _ o) || nonempty (belong _ _ _ _ o) || nonempty (avoid _ _ _ _ o) ||
    nonempty (preds _ _ _ _ o) || nonempty (seqpats _ _ _ _ o) || nonempty (defpats _ _ _ _ o) ||
    nonempty (idpats _ _ _ _ o) || (match idlist _ _ _ _ o with None => false | Some _ => true end) ||
    nonempty (reqattrs _ _ _ _ o) || nonempty (attrpats _ _ _ _ o) || nonempty (approx _ _ _ _ o).

  (** -v with no effective criterion: the nil predicate is returned and every record is kept *)
  Theorem grep_invert_nil : forall (o : gopts) r, impl_base o = None -> holds (impl_pred o) r = negb (invert _ _ _ _ o).
  Proof. intros o r H. unfold Model.impl_pred. rewrite H. destruct (invert _ _ _ _ o); reflexivity. Qed.

  (** paired modes *)
  Theorem paired_modes : forall (o : gopts) r mate, wf_rec r -> wf_rec mate ->
    holds2 (impl_paired o) r (Some mate) = mode_fun (pairmode _ _ _ _ o) (spec_sel o r) (spec_sel o mate).
  Proof.
    intros o r mate Hr Hm. unfold Model.impl_paired.
    rewrite <- (grep_exact o r Hr), <- (grep_exact o mate Hm).
    destruct (impl_pred o) as [f|]; simpl.
    - unfold paired_some. destruct (pairmode _ _ _ _ o); simpl; try reflexivity.
      destruct (f r), (f mate); reflexivity.
    - destruct (pairmode _ _ _ _ o); reflexivity.
  Qed.
  Theorem paired_unpaired : forall (o : gopts) r, holds2 (impl_paired o) r None = holds (impl_pred o) r.
  Proof.
    intros o r. unfold Model.impl_paired. destruct (impl_pred o); [reflexivity|].
    destruct (pairmode _ _ _ _ o); reflexivity.
  Qed.
End GrepProofs.

(** * DivideOn / FilterOn *)
Lemma divide_loop_spec : forall A (p : A -> bool) l t f,
  divide_loop p l t f = (t ++ filter p l, f ++ filter (fun x => negb (p x)) l).
Proof.
  intros A p l; induction l as [|s l IH]; intros t f; simpl.
  - rewrite !app_nil_r; reflexivity.
  - destruct (p s); simpl; rewrite IH, <- app_assoc; reflexivity.
Qed.
Lemma divide_on_spec : forall A (p : A -> bool) l,
  divide_on p l = (filter p l, filter (fun x => negb (p x)) l).
Proof. intros; unfold divide_on; rewrite divide_loop_spec; reflexivity. Qed.
Lemma filter_partition_perm : forall A (p : A -> bool) l,
  Permutation (filter p l ++ filter (fun x => negb (p x)) l) l.
Proof.
  intros A p l; induction l as [|s l IH]; simpl; [constructor|].
  destruct (p s); simpl.
  - constructor; exact IH.
  - apply Permutation_sym, Permutation_cons_app, Permutation_sym, IH.
Qed.
Theorem divide_complement : forall A (p : A -> bool) l,
  fst (divide_on p l) = filter p l /\ snd (divide_on p l) = filter (fun x => negb (p x)) l /\
  Permutation (fst (divide_on p l) ++ snd (divide_on p l)) l /\
  (forall x, In x (fst (divide_on p l)) -> p x = true) /\ (forall x, In x (snd (divide_on p l)) -> p x = false).
Proof.
  intros A p l. rewrite divide_on_spec; simpl. repeat split.
  - apply filter_partition_perm.
  - intros x Hx; apply filter_In in Hx; tauto.
  - intros x Hx; apply filter_In in Hx. destruct Hx as [_ Hx]. destruct (p x); [discriminate|reflexivity].
Qed.

Lemma combine_fst_snd : forall A B (l : list (A * B)), combine (map fst l) (map snd l) = l.
Proof. intros A B l; induction l as [|[a b] l IH]; simpl; [reflexivity|]. rewrite IH; reflexivity. Qed.
Theorem paired_mates_together : forall p l,
  combine (fst (grep_paired p l)) (snd (grep_paired p l)) = filter (fun fr => p (fst fr) (Some (snd fr))) l /\
  List.length (fst (grep_paired p l)) = List.length (snd (grep_paired p l)).
Proof.
  intros p l. unfold grep_paired. rewrite divide_on_spec; simpl. split.
  - apply combine_fst_snd.
  - rewrite !map_length; reflexivity.
Qed.

Section GrepProofs2.
  Variables RE EXPR APAT TAXQ : Type.
  Variable re_match : bool -> RE -> string -> bool.
  Variable eval_bool : EXPR -> arec -> bool.
  Variable approx_match : APAT -> Z -> bool -> string -> bool.
  Variable apat_rc : APAT -> APAT.
  Variable tax_pred : TAXQ -> arec -> bool.
  Notation gopts := (gopts RE EXPR APAT TAXQ).
  Notation impl_base := (impl_base RE EXPR APAT TAXQ re_match eval_bool approx_match apat_rc tax_pred).
  Notation impl_pred := (impl_pred RE EXPR APAT TAXQ re_match eval_bool approx_match apat_rc tax_pred).
  Notation impl_paired := (impl_paired RE EXPR APAT TAXQ re_match eval_bool approx_match apat_rc tax_pred).
  Notation spec_pred := (spec_pred RE EXPR APAT TAXQ re_match eval_bool approx_match apat_rc tax_pred).
  Notation spec_sel := (spec_sel RE EXPR APAT TAXQ re_match eval_bool approx_match apat_rc tax_pred).


  Theorem grep_divide_exact : forall (o : gopts) l, Forall wf_rec l ->
    divide_on (holds (impl_pred o)) l = (filter (spec_sel o) l, filter (fun r => negb (spec_sel o r)) l).
  Proof.
    intros o l Hl. rewrite divide_on_spec. rewrite Forall_forall in Hl.
    f_equal; apply filter_ext_in; intros r Hr; rewrite (grep_exact RE EXPR APAT TAXQ re_match eval_bool approx_match apat_rc tax_pred o r (Hl r Hr)); reflexivity.
  Qed.

  Theorem paired_divide_exact : forall (o : gopts) l,
    Forall (fun fr : arec * arec => wf_rec (fst fr) /\ wf_rec (snd fr)) l ->
    let sel := fun fr : arec * arec => mode_fun (pairmode _ _ _ _ o) (spec_sel o (fst fr)) (spec_sel o (snd fr)) in
    let out := grep_paired_divide (holds2 (impl_paired o)) l in
    combine (fst (fst out)) (snd (fst out)) = filter sel l /\
    combine (fst (snd out)) (snd (snd out)) = filter (fun fr => negb (sel fr)) l.
  Proof.
    intros o l Hl sel out. unfold out, grep_paired_divide. rewrite divide_on_spec. simpl.
    rewrite !combine_fst_snd. rewrite Forall_forall in Hl.
    split; apply filter_ext_in; intros fr Hin; destruct (Hl fr Hin) as [H1 H2]; unfold sel;
      rewrite (paired_modes RE EXPR APAT TAXQ re_match eval_bool approx_match apat_rc tax_pred o (fst fr) (snd fr) H1 H2); reflexivity.
  Qed.
End GrepProofs2.

(** * Distribute *)
Section DistProofs.
  Variables A K : Type.
  Variable keq : K -> K -> bool.
  Variable code : A -> K.
  Hypothesis keq_eq : forall a b, keq a b = true <-> a = b.
  Lemma keq_refl : forall a, keq a a = true.
  Proof. intros a; apply keq_eq; reflexivity. Qed.
  Lemma slice_of_add : forall k k' s sl,
    slice_of A K keq k (slice_add A K keq k' s sl) =
    if keq k k' then slice_of A K keq k sl ++ [s] else slice_of A K keq k sl.
  Proof.
    intros k k' s sl; induction sl as [|[k2 l] t IH]; simpl.
    - destruct (keq k k'); reflexivity.
    - destruct (keq k' k2) eqn:E2; simpl.
      + apply keq_eq in E2; subst k2. destruct (keq k k'); reflexivity.
      + destruct (keq k k2) eqn:E3.
        * apply keq_eq in E3; subst k2. destruct (keq k k') eqn:E4; [|reflexivity].
          apply keq_eq in E4; subst k'. rewrite keq_refl in E2; discriminate.
        * exact IH.
  Qed.
  Lemma distribute_fold : forall l sl k,
    slice_of A K keq k (fold_left (fun sl s => slice_add A K keq (code s) s sl) l sl) =
    slice_of A K keq k sl ++ filter (fun s => keq k (code s)) l.
  Proof.
    intros l; induction l as [|s l IH]; intros sl k; simpl.
    - rewrite app_nil_r; reflexivity.
    - rewrite IH, slice_of_add. destruct (keq k (code s)); [rewrite <- app_assoc|]; reflexivity.
  Qed.
  Theorem distribute_slices : forall l k,
    slice_of A K keq k (distribute A K keq code l) = filter (fun s => keq k (code s)) l.
  Proof. intros; unfold distribute; rewrite distribute_fold; reflexivity. Qed.
  Theorem route_exactly_one : forall l s, In s l ->
    In s (slice_of A K keq (code s) (distribute A K keq code l)) /\
    (forall k, In s (slice_of A K keq k (distribute A K keq code l)) -> k = code s).
  Proof.
    intros l s Hs. split.
    - rewrite distribute_slices. apply filter_In; split; [exact Hs|apply keq_refl].
    - intros k Hk. rewrite distribute_slices in Hk. apply filter_In in Hk. apply keq_eq; tauto.
  Qed.
End DistProofs.

(** * obiannotate: the chain of workers *)
Definition out (w : option worker) (r : arec) : list arec :=
  match w with
  | None => [r]
  | Some f => match f r with Some l => l | None => [] end
  end.
Definition olist (x : option arec) : list arec := match x with Some r => [r] | None => [] end.

Lemma chain_out : forall a b (g g2 : arec -> option arec),
  (forall r, out a r = olist (g r)) -> (forall r, out b r = olist (g2 r)) ->
  forall r, out (chain a b) r = olist (obind (g r) g2).
Proof.
  intros a b g g2 Ha Hb r. destruct a as [fa|]; destruct b as [fb|]; simpl.
  - specialize (Ha r); simpl in Ha. destruct (fa r) as [l|].
    + destruct (g r) as [r'|]; simpl in Ha; subst l; simpl; [|reflexivity].
      specialize (Hb r'); simpl in Hb. rewrite app_nil_r. exact Hb.
    + destruct (g r); simpl in Ha; [discriminate|reflexivity].
  - specialize (Ha r); simpl in Ha. rewrite Ha. destruct (g r) as [r'|]; simpl; [|reflexivity].
    specialize (Hb r'); simpl in Hb. exact Hb.
  - specialize (Ha r); simpl in Ha. destruct (g r) as [r'|]; simpl in Ha; [|discriminate].
    injection Ha as Ha; subst r'. simpl. exact (Hb r).
  - specialize (Ha r); simpl in Ha. destruct (g r) as [r'|]; simpl in Ha; [|discriminate].
    injection Ha as Ha; subst r'. simpl. exact (Hb r).
Qed.
Lemma set_attrs_id : forall r, set_attrs r (rattrs r) = r.
Proof. intros [i a s]; reflexivity. Qed.
Lemma obind_some_r : forall x, obind x Some = x.
Proof. intros [r|]; reflexivity. Qed.

(** the chain of the steps: each step stands for a partial edit [g]; the whole chain is their Kleisli composition *)
Lemma fold_chain_out : forall (steps : list (option worker)) (gs : list (arec -> option arec)),
  Forall2 (fun w g => forall r, out w r = olist (g r)) steps gs ->
  forall a g0, (forall r, out a r = olist (g0 r)) ->
  forall r, out (fold_left chain steps a) r = olist (fold_left (fun f g => fun r => obind (f r) g) gs g0 r).
Proof.
  intros steps gs H; induction H as [|w g ws gs Hw _ IH]; intros a g0 Ha r; simpl.
  - apply Ha.
  - apply IH. intros r0. apply chain_out; assumption.
Qed.
Lemma out_none : forall r, out None r = olist (Some r).
Proof. reflexivity. Qed.

Section AnnotProofs.
  Variable VEXPR : Type.
  Variable eval_val : VEXPR -> arec -> option aval.
  Variable at_rank : string -> arec -> arec.
  Variables set_path set_trank set_sciname : arec -> arec.
  Variable set_lca : string -> arec -> arec.
  Variable AHO : Type.
  Variable aho_edit : AHO -> arec -> arec.
  Variable APAT : Type.
  Variable apat_src : APAT -> string.
  Variable apat_rc : APAT -> APAT.
  Variable best_match : APAT -> Z -> bool -> string -> option (Z * Z * Z).
  Notation aopts := (aopts VEXPR AHO APAT).
  Notation impl_worker := (impl_worker VEXPR eval_val at_rank set_path set_trank set_sciname set_lca AHO aho_edit APAT apat_src apat_rc best_match).
  Notation impl_annot := (impl_annot VEXPR eval_val at_rank set_path set_trank set_sciname set_lca AHO aho_edit APAT apat_src apat_rc best_match).
  Notation impl_annot_sel := (impl_annot_sel VEXPR eval_val at_rank set_path set_trank set_sciname set_lca AHO aho_edit APAT apat_src apat_rc best_match).
  Notation spec_annot := (spec_annot VEXPR eval_val at_rank set_path set_trank set_sciname set_lca AHO aho_edit APAT apat_src apat_rc best_match).
  Notation spec_annot_sel := (spec_annot_sel VEXPR eval_val at_rank set_path set_trank set_sciname set_lca AHO aho_edit APAT apat_src apat_rc best_match).
  Notation e_settag := (e_settag VEXPR eval_val).
  Notation e_setid := (e_setid VEXPR eval_val).
  Notation e_pattern := (e_pattern APAT apat_src apat_rc best_match).

  Lemma eval_attr_fold : forall l w g, (forall r, out w r = olist (g r)) ->
    forall r, out (fold_left (fun w ke => chain w (Some (partial (e_settag ke)))) l w) r =
              olist (fold_left (fun x ke => obind x (e_settag ke)) l (g r)).
  Proof.
    intros l; induction l as [|ke l IH]; intros w g Hw r; simpl.
    - apply Hw.
    - apply (IH _ (fun r => obind (g r) (e_settag ke))).
      intros r0. apply chain_out; [exact Hw|]. intros r1; unfold out, partial. destruct (e_settag ke r1); reflexivity.
  Qed.

  Definition annot_gs (o : aopts) : list (arec -> option arec) :=
    [ (fun x => Some (if aclear _ _ _ o then e_clear x else x));
      (fun x => match asetid _ _ _ o with Some e => e_setid e x | None => Some x end);
      (fun x => Some (e_delete (adelete _ _ _ o) x));
      (fun x => Some (match akeep _ _ _ o with [] => x | ks => e_keep ks x end));
      (fun x => Some (e_rename (arename _ _ _ o) x));
      (fun x => Some (e_taxranks at_rank (ataxrank _ _ _ o) x));
      (fun x => Some (if apath _ _ _ o then set_path x else x));
      (fun x => Some (if atrank _ _ _ o then set_trank x else x));
      (fun x => Some (if asciname _ _ _ o then set_sciname x else x));
      (fun x => Some (if negb (String.eqb (alca _ _ _ o) "") then set_lca (alca _ _ _ o) x else x));
      (fun x => Some (if alength _ _ _ o then e_length x else x));
      (fun x => fold_left (fun y ke => obind y (e_settag ke)) (asettag _ _ _ o) (Some x));
      (fun x => Some (match aaho _ _ _ o with Some h => aho_edit h x | None => x end));
      (fun x => match has_cut VEXPR AHO APAT o with Some (f, t) => e_cut f t x | None => Some x end);
      (fun x => Some (match apattern _ _ _ o with
                      | Some p => e_pattern p (ptname _ _ _ o) (pterr _ _ _ o) (negb (ptfwd _ _ _ o)) (ptindel _ _ _ o) x
                      | None => x end)) ].

  Lemma annot_steps_gs : forall (o : aopts),
    Forall2 (fun w g => forall r, out w r = olist (g r))
            (annot_steps VEXPR eval_val at_rank set_path set_trank set_sciname set_lca AHO aho_edit APAT apat_src apat_rc best_match o) (annot_gs o).
  Proof.
    intros o. unfold annot_steps, annot_gs, pure, partial.
    repeat apply Forall2_cons; try apply Forall2_nil; intros r.
    - destruct (aclear _ _ _ o); reflexivity.
    - destruct (asetid _ _ _ o) as [e|]; [|reflexivity]. unfold out. destruct (e_setid e r); reflexivity.
    - destruct (adelete _ _ _ o); [|reflexivity]. unfold e_delete; simpl. rewrite set_attrs_id; reflexivity.
    - destruct (akeep _ _ _ o); reflexivity.
    - destruct (arename _ _ _ o); reflexivity.
    - destruct (ataxrank _ _ _ o); reflexivity.
    - destruct (apath _ _ _ o); reflexivity.
    - destruct (atrank _ _ _ o); reflexivity.
    - destruct (asciname _ _ _ o); reflexivity.
    - destruct (negb (String.eqb (alca _ _ _ o) "")); reflexivity.
    - destruct (alength _ _ _ o); reflexivity.
    - destruct (asettag _ _ _ o) as [|k ks]; [reflexivity|]. unfold eval_attr_worker.
      apply (eval_attr_fold (k :: ks) None Some). intros; reflexivity.
    - destruct (aaho _ _ _ o); reflexivity.
    - destruct (has_cut VEXPR AHO APAT o) as [[f t]|]; [|reflexivity]. unfold out. destruct (e_cut f t r); reflexivity.
    - destruct (apattern _ _ _ o); reflexivity.
  Qed.

  Theorem annot_worker_exact : forall (o : aopts) r, out (impl_worker o) r = olist (spec_annot o r).
  Proof.
    intros o r. unfold Model.impl_worker.
    rewrite (fold_chain_out _ _ (annot_steps_gs o) None Some out_none r). f_equal.
    unfold annot_gs, Model.spec_annot. cbn [fold_left obind].
    destruct (asetid _ _ _ o) as [e|]; cbn [obind].
    - destruct (e_setid e (if aclear _ _ _ o then e_clear r else r)) as [r1|]; cbn [obind]; [|reflexivity].
      match goal with |- context [fold_left ?f ?l (Some ?x)] => destruct (fold_left f l (Some x)) as [r3|] end; cbn [obind]; [|reflexivity].
      destruct (has_cut VEXPR AHO APAT o) as [[f t]|]; cbn [obind]; [|reflexivity].
      match goal with |- context [e_cut f t ?x] => destruct (e_cut f t x) end; reflexivity.
    - match goal with |- context [fold_left ?f ?l (Some ?x)] => destruct (fold_left f l (Some x)) as [r3|] end; cbn [obind]; [|reflexivity].
      destruct (has_cut VEXPR AHO APAT o) as [[f t]|]; cbn [obind]; [|reflexivity].
      match goal with |- context [e_cut f t ?x] => destruct (e_cut f t x) end; reflexivity.
  Qed.

  Theorem annot_exact : forall (o : aopts) r, impl_annot o r = olist (spec_annot o r).
  Proof. intros o r. exact (annot_worker_exact o r). Qed.

  (** selection options: the selected records are edited, the others are written unchanged (and a selection without any
      edit is the identity) *)
  Theorem annot_sel_exact : forall (sel : option pred) (o : aopts) r,
    impl_annot_sel sel o r = spec_annot_sel (holds sel) o r.
  Proof.
    intros sel o r. unfold Model.impl_annot_sel, Model.spec_annot_sel.
    pose proof (annot_worker_exact o r) as H. unfold out, olist in H. unfold olist'.
    destruct sel as [c|]; simpl.
    - destruct (impl_worker o) as [w|].
      + destruct (c r); simpl; [|reflexivity]. rewrite H. destruct (spec_annot o r); reflexivity.
      + destruct (c r); [|reflexivity]. rewrite <- H. reflexivity.
    - unfold Model.impl_annot. rewrite H. destruct (spec_annot o r); reflexivity.
  Qed.
End AnnotProofs.
(** * which option sets give the nil predicate *)
Lemma p_and_none : forall a b, p_and a b = None <-> a = None /\ b = None.
Proof. intros [f|] [g|]; simpl; split; intros H; try discriminate; try tauto; destruct H; discriminate. Qed.
Lemma fold_and_some : forall A (mk : A -> pred) t f, fold_left (fun p y => p_and p (Some (mk y))) t (Some f) <> None.
Proof. intros A mk t; induction t as [|x t IH]; intros f; simpl; [discriminate|apply IH]. Qed.
Lemma fold_or_some' : forall A (mk : A -> pred) t f, fold_left (fun p y => p_or p (Some (mk y))) t (Some f) <> None.
Proof. intros A mk t; induction t as [|x t IH]; intros f; simpl; [discriminate|apply IH]. Qed.
Lemma chain_and_none : forall A (mk : A -> pred) l, chain_and mk l = None <-> nonempty l = false.
Proof.
  intros A mk [|x t]; simpl; split; intros H; try reflexivity; try discriminate.
  exfalso; exact (fold_and_some A mk t _ H).
Qed.
Lemma chain_or_none : forall A (mk : A -> pred) l, chain_or mk l = None <-> nonempty l = false.
Proof.
  intros A mk [|x t]; simpl; split; intros H; try reflexivity; try discriminate.
  exfalso; exact (fold_or_some' A mk t _ H).
Qed.

Section Eff.
  Variables RE EXPR APAT TAXQ : Type.
  Variable re_match : bool -> RE -> string -> bool.
  Variable eval_bool : EXPR -> arec -> bool.
  Variable approx_match : APAT -> Z -> bool -> string -> bool.
  Variable apat_rc : APAT -> APAT.
  Variable tax_pred : TAXQ -> arec -> bool.
  Notation gopts := (gopts RE EXPR APAT TAXQ).

  Lemma size_none : forall (o : gopts), size_pred RE EXPR APAT TAXQ o = None <->
    (1 <? minlen _ _ _ _ o) || negb (maxlen _ _ _ _ o =? SENT) = false.
  Proof.
    intros o; unfold size_pred. destruct (1 <? minlen _ _ _ _ o); destruct (maxlen _ _ _ _ o =? SENT); simpl; split; intros H; try discriminate; reflexivity.
  Qed.
  Lemma count_none : forall (o : gopts), count_pred RE EXPR APAT TAXQ o = None <->
    (1 <? mincount _ _ _ _ o) || negb (maxcount _ _ _ _ o =? SENT) = false.
  Proof.
    intros o; unfold count_pred. destruct (1 <? mincount _ _ _ _ o); destruct (maxcount _ _ _ _ o =? SENT); simpl; split; intros H; try discriminate; reflexivity.
  Qed.
  Lemma tax_none : forall (o : gopts), tax_filter RE EXPR APAT TAXQ tax_pred o = None <->
    nonempty (ranks _ _ _ _ o) || nonempty (belong _ _ _ _ o) || nonempty (avoid _ _ _ _ o) = false.
  Proof.
    intros o; unfold tax_filter. rewrite !p_and_none, chain_and_none, chain_or_none.
    destruct (avoid _ _ _ _ o) as [|x t] eqn:E.
    - simpl. rewrite orb_false_r, orb_false_iff. tauto.
    - split.
      + intros [_ H]. exfalso. destruct (chain_or tax_pred (x :: t)) eqn:E2; [discriminate|].
        apply chain_or_none in E2; discriminate.
      + intros H. rewrite !orb_false_iff in H. simpl in H. destruct H as [_ H]; discriminate.
  Qed.
  Lemma attrs_none : forall (o : gopts), attrs_pred RE EXPR APAT TAXQ re_match o = None <-> nonempty (attrpats _ _ _ _ o) = false.
  Proof.
    intros o; unfold attrs_pred. destruct (attrpats _ _ _ _ o) as [|x t]; simpl; split; intros H; try reflexivity; try discriminate.
    exfalso; exact (fold_and_some _ _ t _ H).
  Qed.
  Lemma idlist_none : forall (o : gopts), idlist_pred RE EXPR APAT TAXQ o = None <->
    (match idlist _ _ _ _ o with None => false | Some _ => true end) = false.
  Proof. intros o; unfold idlist_pred. destruct (idlist _ _ _ _ o); split; intros H; try discriminate; reflexivity. Qed.

  Theorem impl_base_none_iff : forall (o : gopts),
    impl_base RE EXPR APAT TAXQ re_match eval_bool approx_match apat_rc tax_pred o = None <-> effective RE EXPR APAT TAXQ o = false.
  Proof.
    intros o. unfold impl_base, effective.
    rewrite !p_and_none, size_none, count_none, tax_none, attrs_none, idlist_none, !chain_and_none.
    rewrite !orb_false_iff. tauto.
  Qed.
End Eff.

(** * edits leave the rest of the record unchanged *)
Lemma lookup_remove_ne : forall k k' a, String.eqb k k' = false -> lookup k (remove_key k' a) = lookup k a.
Proof.
  intros k k' a Hne; induction a as [|[k2 v] t IH]; simpl; [reflexivity|].
  destruct (String.eqb k' k2) eqn:E.
  - apply String.eqb_eq in E; subst k2. rewrite Hne. exact IH.
  - simpl. destruct (String.eqb k k2); [reflexivity|exact IH].
Qed.
Lemma lookup_set_ne : forall k k' v a, String.eqb k k' = false -> lookup k (set_key k' v a) = lookup k a.
Proof.
  intros k k' v a Hne; induction a as [|[k2 v2] t IH]; simpl.
  - rewrite Hne; reflexivity.
  - destruct (String.eqb k' k2) eqn:E.
    + apply String.eqb_eq in E; subst k2. simpl. rewrite Hne. reflexivity.
    + simpl. destruct (String.eqb k k2); [reflexivity|exact IH].
Qed.
Lemma mem_str_false_cons : forall k x t, mem_str k (x :: t) = false -> String.eqb k x = false /\ mem_str k t = false.
Proof. intros k x t H; unfold mem_str in *; simpl in H. apply orb_false_iff in H; exact H. Qed.
Lemma lookup_delete_fold : forall ks k a, mem_str k ks = false ->
  lookup k (fold_left (fun a k' => remove_key k' a) ks a) = lookup k a.
Proof.
  intros ks; induction ks as [|x t IH]; intros k a H; simpl; [reflexivity|].
  apply mem_str_false_cons in H; destruct H as [H1 H2]. rewrite IH by exact H2. apply lookup_remove_ne; exact H1.
Qed.
Lemma lookup_keep : forall ks k a, mem_str k ks = true ->
  lookup k (filter (fun kv : string * aval => mem_str (fst kv) ks) a) = lookup k a.
Proof.
  intros ks k a H; induction a as [|[k2 v] t IH]; simpl; [reflexivity|].
  destruct (mem_str k2 ks) eqn:E; simpl.
  - destruct (String.eqb k k2); [reflexivity|exact IH].
  - destruct (String.eqb k k2) eqn:E2; [|exact IH].
    apply String.eqb_eq in E2; subst k2. congruence.
Qed.
Definition is_special (k : string) : bool := String.eqb k "id" || String.eqb k "sequence" || String.eqb k "qualities".
Lemma set_attr_lookup_ne : forall r k k' v, String.eqb k k' = false -> lookup k (rattrs (set_attr r k' v)) = lookup k (rattrs r).
Proof.
  intros r k k' v H. unfold set_attr.
  destruct (String.eqb k' "id"); [reflexivity|]. destruct (String.eqb k' "sequence"); [reflexivity|].
  destruct (String.eqb k' "qualities"); [reflexivity|]. simpl. apply lookup_set_ne; exact H.
Qed.
Lemma set_attr_id_seq : forall r k v, is_special k = false -> rid (set_attr r k v) = rid r /\ rseq (set_attr r k v) = rseq r.
Proof.
  intros r k v H. unfold is_special in H. rewrite !orb_false_iff in H. destruct H as [[H1 H2] H3].
  unfold set_attr. rewrite H1, H2, H3. simpl; auto.
Qed.
Lemma lookup_rename1 : forall k no r, String.eqb k (fst no) = false -> String.eqb k (snd no) = false ->
  lookup k (rattrs (rename1 r no)) = lookup k (rattrs r).
Proof.
  intros k [n o] r H1 H2; unfold rename1; simpl in *. destruct (String.eqb n o); [reflexivity|].
  destruct (get_attr r o) as [v|]; [|reflexivity].
  simpl. rewrite lookup_remove_ne by exact H2. apply set_attr_lookup_ne; exact H1.
Qed.
Lemma rename1_id_seq : forall no r, is_special (fst no) = false -> rid (rename1 r no) = rid r /\ rseq (rename1 r no) = rseq r.
Proof.
  intros [n o] r H; unfold rename1; simpl in *. destruct (String.eqb n o); [auto|].
  destruct (get_attr r o) as [v|]; [|auto].
  simpl. apply set_attr_id_seq; exact H.
Qed.
(** renaming attributes to their own names is the identity on the whole record *)
Lemma rename_self_identity : forall l r, forallb (fun no : string * string => String.eqb (fst no) (snd no)) l = true ->
  fold_left rename1 l r = r.
Proof.
  intros l; induction l as [|x t IH]; intros r H; simpl; [reflexivity|].
  simpl in H. apply andb_true_iff in H; destruct H as [H1 H2].
  unfold rename1 at 2. rewrite H1. apply IH; exact H2.
Qed.
Lemma lookup_rename_fold : forall l k r,
  existsb (fun no : string * string => String.eqb k (fst no) || String.eqb k (snd no)) l = false ->
  lookup k (rattrs (fold_left rename1 l r)) = lookup k (rattrs r).
Proof.
  intros l; induction l as [|x t IH]; intros k r H; simpl; [reflexivity|].
  simpl in H. apply orb_false_iff in H; destruct H as [H1 H2]. apply orb_false_iff in H1; destruct H1 as [Ha Hb].
  rewrite IH by exact H2. apply lookup_rename1; assumption.
Qed.
Lemma rename_fold_id_seq : forall l r, existsb (fun no : string * string => is_special (fst no)) l = false ->
  rid (fold_left rename1 l r) = rid r /\ rseq (fold_left rename1 l r) = rseq r.
Proof.
  intros l; induction l as [|x t IH]; intros r H; simpl; [auto|].
  simpl in H. apply orb_false_iff in H; destruct H as [H1 H2].
  destruct (IH (rename1 r x) H2) as [A B]. destruct (rename1_id_seq x r H1) as [C D]. rewrite A, B, C, D; auto.
Qed.

Section Untouched.
  Variable VEXPR : Type.
  Variable eval_val : VEXPR -> arec -> option aval.
  Variable at_rank : string -> arec -> arec.
  Variables set_path set_trank set_sciname : arec -> arec.
  Variable set_lca : string -> arec -> arec.
  Variable AHO : Type.
  Variable aho_edit : AHO -> arec -> arec.
  Variable APAT : Type.
  Variable apat_src : APAT -> string.
  Variable apat_rc : APAT -> APAT.
  Variable best_match : APAT -> Z -> bool -> string -> option (Z * Z * Z).
  Notation aopts := (aopts VEXPR AHO APAT).
  Notation spec_annot := (spec_annot VEXPR eval_val at_rank set_path set_trank set_sciname set_lca AHO aho_edit APAT apat_src apat_rc best_match).
  Notation e_settag := (e_settag VEXPR eval_val).
  Notation e_setid := (e_setid VEXPR eval_val).

  (** no external edit (taxonomy, aho-corasick, --pattern) is requested: what those write is the business of their own components *)
  Definition no_ext (o : aopts) : Prop :=
    ataxrank _ _ _ o = [] /\ apath _ _ _ o = false /\ atrank _ _ _ o = false /\ asciname _ _ _ o = false /\
    alca _ _ _ o = "" /\ aaho _ _ _ o = None /\ apattern _ _ _ o = None.
  Definition touched (o : aopts) (k : string) : bool :=
    mem_str k (adelete _ _ _ o) ||
    existsb (fun no : string * string => String.eqb k (fst no) || String.eqb k (snd no)) (arename _ _ _ o) ||
    (alength _ _ _ o && String.eqb k "seq_length") ||
    existsb (fun ke : string * VEXPR => String.eqb k (fst ke)) (asettag _ _ _ o).
  (** a rename or -S edit aimed at the record fields id / sequence *)
  Definition sets_special (o : aopts) : bool :=
    existsb (fun no : string * string => is_special (fst no)) (arename _ _ _ o) ||
    existsb (fun ke : string * VEXPR => is_special (fst ke)) (asettag _ _ _ o).

  Lemma settag_fold_none : forall l, fold_left (fun x ke => obind x (e_settag ke)) l None = None.
  Proof. intros l; induction l as [|x t IH]; simpl; [reflexivity|exact IH]. Qed.
  Lemma settag_fold : forall l r r' k,
    fold_left (fun x ke => obind x (e_settag ke)) l (Some r) = Some r' ->
    (existsb (fun ke : string * VEXPR => String.eqb k (fst ke)) l = false -> lookup k (rattrs r') = lookup k (rattrs r)) /\
    (existsb (fun ke : string * VEXPR => is_special (fst ke)) l = false -> rseq r' = rseq r /\ rid r' = rid r).
  Proof.
    intros l; induction l as [|ke t IH]; intros r r' k H; simpl in H.
    - injection H as H; subst r'. auto.
    - unfold Model.e_settag in H at 2. destruct (eval_val (snd ke) r) as [v|]; simpl in H.
      + destruct (IH _ _ k H) as [Ha Hs]. split.
        * intros Hk. simpl in Hk. apply orb_false_iff in Hk; destruct Hk as [Hk1 Hk2]. rewrite (Ha Hk2).
          apply set_attr_lookup_ne; exact Hk1.
        * intros Hk. simpl in Hk. apply orb_false_iff in Hk; destruct Hk as [Hk1 Hk2]. destruct (Hs Hk2) as [S1 S2].
          destruct (set_attr_id_seq r (fst ke) v Hk1) as [I1 I2]. rewrite S1, S2, I1, I2; auto.
      + rewrite settag_fold_none in H; discriminate.
  Qed.
  Lemma e_cut_attrs : forall f t r r', e_cut f t r = Some r' -> rattrs r' = rattrs r.
  Proof.
    intros f t r r' H; unfold e_cut in H.
    repeat match type of H with context [if ?c then _ else _] => destruct c end; try discriminate;
    injection H as H; subst r'; reflexivity.
  Qed.
  Lemma e_setid_keeps : forall e r r', e_setid e r = Some r' -> rattrs r' = rattrs r /\ rseq r' = rseq r.
  Proof. intros e r r' H; unfold Model.e_setid in H. destruct (eval_val e r); [|discriminate]. injection H as H; subst r'; auto. Qed.

  (** the record after the edits that precede -S *)
  Lemma spec_annot_inv : forall (o : aopts) r r', no_ext o -> spec_annot o r = Some r' ->
    exists r1 r2 r3,
      (match asetid _ _ _ o with Some e => e_setid e (if aclear _ _ _ o then e_clear r else r) | None => Some (if aclear _ _ _ o then e_clear r else r) end) = Some r1 /\
      r2 = (let x := e_delete (adelete _ _ _ o) r1 in
            let x := match akeep _ _ _ o with [] => x | ks => e_keep ks x end in
            let x := e_rename (arename _ _ _ o) x in
            if alength _ _ _ o then e_length x else x) /\
      fold_left (fun x ke => obind x (e_settag ke)) (asettag _ _ _ o) (Some r2) = Some r3 /\
      (match has_cut VEXPR AHO APAT o with Some (f, t) => e_cut f t r3 | None => Some r3 end) = Some r'.
  Proof.
    intros o r r' [N1 [N2 [N3 [N4 [N5 [N6 N7]]]]]] H. unfold Model.spec_annot in H.
    rewrite N1, N2, N3, N4, N5, N6, N7 in H. cbn [e_taxranks fold_left String.eqb negb] in H.
    destruct (match asetid _ _ _ o with Some e => e_setid e (if aclear _ _ _ o then e_clear r else r) | None => Some (if aclear _ _ _ o then e_clear r else r) end) as [r1|] eqn:E1; simpl in H; [|discriminate].
    match type of H with obind ?x _ = _ => destruct x as [r3|] eqn:E3 end; simpl in H; [|discriminate].
    exists r1. eexists. exists r3. split; [reflexivity|]. split; [reflexivity|]. split; [exact E3|].
    destruct (has_cut VEXPR AHO APAT o) as [[f t]|]; simpl in H.
    - destruct (e_cut f t r3); simpl in H; [exact H|discriminate].
    - exact H.
  Qed.

  Theorem annot_untouched : forall (o : aopts) r r' k, no_ext o ->
    spec_annot o r = Some r' ->
    aclear _ _ _ o = false -> (akeep _ _ _ o = [] \/ mem_str k (akeep _ _ _ o) = true) -> touched o k = false ->
    lookup k (rattrs r') = lookup k (rattrs r).
  Proof.
    intros o r r' k Hn H Hc Hk Ht. destruct (spec_annot_inv o r r' Hn H) as [r1 [r2 [r3 [E1 [E2 [E3 E4]]]]]].
    unfold touched in Ht. rewrite !orb_false_iff in Ht. destruct Ht as [[[Td Tr] Tl] Ts].
    rewrite Hc in E1.
    assert (A1 : rattrs r1 = rattrs r).
    { destruct (asetid _ _ _ o) as [e|]; [apply (e_setid_keeps e r r1 E1)|injection E1 as E1; subst; reflexivity]. }
    assert (A3 : lookup k (rattrs r3) = lookup k (rattrs r2)) by (apply (settag_fold _ _ _ k E3); exact Ts).
    assert (A4 : rattrs r' = rattrs r3).
    { destruct (has_cut VEXPR AHO APAT o) as [[f t]|]; [apply (e_cut_attrs f t r3 r' E4)|injection E4 as E4; subst; reflexivity]. }
    rewrite A4, A3, <- A1. subst r2. cbv zeta.
    assert (B : forall x, lookup k (rattrs (if alength _ _ _ o then e_length x else x)) = lookup k (rattrs x)).
    { intros x. destruct (alength _ _ _ o); [|reflexivity]. simpl in Tl. unfold e_length; simpl. apply lookup_set_ne; exact Tl. }
    rewrite B. unfold e_rename. rewrite lookup_rename_fold by exact Tr.
    assert (C : forall x, lookup k (rattrs (match akeep _ _ _ o with [] => x | ks => e_keep ks x end)) = lookup k (rattrs x)).
    { intros x. destruct Hk as [Hk|Hk]; [rewrite Hk; reflexivity|].
      destruct (akeep _ _ _ o) as [|a b] eqn:E; [reflexivity|]. unfold e_keep, set_attrs; cbn [rattrs]. apply lookup_keep; exact Hk. }
    rewrite C. unfold e_delete; simpl. apply lookup_delete_fold; exact Td.
  Qed.

  Theorem annot_seq_id_untouched : forall (o : aopts) r r', no_ext o -> sets_special o = false ->
    spec_annot o r = Some r' -> has_cut VEXPR AHO APAT o = None ->
    rseq r' = rseq r /\ (asetid _ _ _ o = None -> rid r' = rid r).
  Proof.
    intros o r r' Hn Hsp H Hc. destruct (spec_annot_inv o r r' Hn H) as [r1 [r2 [r3 [E1 [E2 [E3 E4]]]]]].
    unfold sets_special in Hsp. apply orb_false_iff in Hsp. destruct Hsp as [Sr Ss].
    rewrite Hc in E4. injection E4 as E4; subst r3.
    destruct (proj2 (settag_fold _ _ _ "" E3) Ss) as [S3 I3].
    assert (S2 : rseq r2 = rseq r1 /\ rid r2 = rid r1).
    { subst r2. cbv zeta.
      assert (Q : forall x, rseq (if alength _ _ _ o then e_length x else x) = rseq x /\ rid (if alength _ _ _ o then e_length x else x) = rid x)
        by (intros x; destruct (alength _ _ _ o); simpl; auto).
      destruct (Q (e_rename (arename _ _ _ o) match akeep _ _ _ o with [] => e_delete (adelete _ _ _ o) r1 | ks => e_keep ks (e_delete (adelete _ _ _ o) r1) end)) as [Q1 Q2].
      rewrite Q1, Q2. unfold e_rename. destruct (rename_fold_id_seq (arename _ _ _ o) match akeep _ _ _ o with [] => e_delete (adelete _ _ _ o) r1 | ks => e_keep ks (e_delete (adelete _ _ _ o) r1) end Sr) as [R1 R2].
      rewrite R1, R2. destruct (akeep _ _ _ o); simpl; auto. }
    destruct S2 as [S2 I2]. rewrite S3, S2, I3, I2. split.
    - destruct (asetid _ _ _ o) as [e|].
      + destruct (e_setid_keeps e _ _ E1) as [_ Hs]. rewrite Hs. destruct (aclear _ _ _ o); reflexivity.
      + injection E1 as E1; subst r1. destruct (aclear _ _ _ o); reflexivity.
    - intros Hn'. rewrite Hn' in E1. injection E1 as E1; subst r1. destruct (aclear _ _ _ o); reflexivity.
  Qed.
End Untouched.

(** * --cut from:to (from > 0): bases from..t, 1-based inclusive, with t = min(to, length) for to > 0 and
    t = length + to + 1 for to < 0 (-1 = last base); a function of the record alone; None = record discarded *)
Definition cut_end (to L : Z) : Z := if 0 <? to then Z.min to L else L + to + 1.
Definition cut_spec (from to : Z) (r : arec) : option arec :=
  let t := cut_end to (rlen r) in
  if from <=? t then
    Some (mkr (append (rid r) (append "_sub[" (append (show_Z from) (append ".." (append (show_Z t) "]")))))
              (rattrs r)
              (String.substring (Z.to_nat (from - 1)) (Z.to_nat (t - from + 1)) (rseq r)))
  else None.
Theorem cut_positive : forall from to r, 0 < from -> to <> 0 -> e_cut from to r = cut_spec from to r.
Proof.
  intros from to r Hf Ht. unfold e_cut, cut_spec. cbv zeta.
  assert (HL : 0 <= rlen r) by (unfold rlen; lia).
  assert (H1 : (0 <? from) = true) by (apply Z.ltb_lt; lia). rewrite H1.
  set (f0 := from - 1).
  assert (E1 : (if f0 <? 0 then rlen r + f0 else if 0 <? f0 then f0 else 0) = f0).
  { destruct (f0 <? 0) eqn:E; [apply Z.ltb_lt in E; unfold f0 in E; lia|].
    destruct (0 <? f0) eqn:E2; [reflexivity|]. apply Z.ltb_ge in E2; apply Z.ltb_ge in E; lia. }
  rewrite E1.
  assert (E3 : (if f0 <? 0 then 0 else f0) = f0).
  { destruct (f0 <? 0) eqn:E; [apply Z.ltb_lt in E; unfold f0 in E; lia|reflexivity]. }
  rewrite E3.
  assert (E4 : (let t0 := if to <? 0 then rlen r + to + 1 else if 0 <? to then to else 0 in
                if rlen r <=? t0 then rlen r else t0) = cut_end to (rlen r)).
  { unfold cut_end. cbv zeta. destruct (to <? 0) eqn:E.
    - apply Z.ltb_lt in E. replace (0 <? to) with false by (symmetry; apply Z.ltb_ge; lia).
      destruct (rlen r <=? rlen r + to + 1) eqn:E5; [apply Z.leb_le in E5; lia|reflexivity].
    - apply Z.ltb_ge in E. replace (0 <? to) with true by (symmetry; apply Z.ltb_lt; lia).
      destruct (rlen r <=? to) eqn:E5; [apply Z.leb_le in E5; lia|apply Z.leb_gt in E5; lia]. }
  cbv zeta in E4. rewrite E4. set (t := cut_end to (rlen r)).
  assert (Ht' : t <= rlen r) by (unfold t, cut_end; destruct (0 <? to) eqn:E9; [lia|apply Z.ltb_ge in E9; lia]).
  destruct (from <=? t) eqn:E.
  - apply Z.leb_le in E.
    replace (t <=? f0) with false by (symmetry; apply Z.leb_gt; unfold f0; lia).
    replace (f0 <? 0) with false by (symmetry; apply Z.ltb_ge; unfold f0; lia).
    replace (rlen r <=? f0) with false by (symmetry; apply Z.leb_gt; unfold f0; lia).
    replace (rlen r <? t) with false by (symmetry; apply Z.ltb_ge; lia).
    replace (f0 + 1) with from by (unfold f0; lia).
    replace (t - f0) with (t - from + 1) by (unfold f0; lia). reflexivity.
  - apply Z.leb_gt in E.
    replace (t <=? f0) with true by (symmetry; apply Z.leb_le; unfold f0; lia). reflexivity.
Qed.

(** --cut from:to for EVERY sign of the bounds (after the fix of the negative start): the first base kept is `from` for
    from > 0 and length + from + 1 for from < 0 (-1 = the last base), never before base 1 *)
Definition cut_start (from L : Z) : Z := if 0 <? from then from else Z.max 1 (L + from + 1).
Definition cut_spec_signed (from to : Z) (r : arec) : option arec :=
  let s := cut_start from (rlen r) in
  let t := cut_end to (rlen r) in
  if s <=? t then
    Some (mkr (append (rid r) (append "_sub[" (append (show_Z s) (append ".." (append (show_Z t) "]")))))
              (rattrs r)
              (String.substring (Z.to_nat (s - 1)) (Z.to_nat (t - s + 1)) (rseq r)))
  else None.
Lemma cut_spec_signed_positive : forall from to r, 0 < from -> cut_spec_signed from to r = cut_spec from to r.
Proof.
  intros from to r Hf. unfold cut_spec_signed, cut_spec, cut_start.
  replace (0 <? from) with true by (symmetry; apply Z.ltb_lt; lia). reflexivity.
Qed.
Theorem cut_signed : forall from to r, from <> 0 -> to <> 0 -> e_cut from to r = cut_spec_signed from to r.
Proof.
  intros from to r Hf Ht.
  destruct (Z.ltb_spec 0 from) as [Hp|Hn].
  - rewrite cut_spec_signed_positive by exact Hp. apply cut_positive; assumption.
  - assert (Hneg : from < 0) by lia.
    unfold e_cut, cut_spec_signed, cut_start. cbv zeta.
    assert (HL : 0 <= rlen r) by (unfold rlen; lia).
    replace (0 <? from) with false by (symmetry; apply Z.ltb_ge; lia).
    replace (from <? 0) with true by (symmetry; apply Z.ltb_lt; lia).
    set (L := rlen r) in *.
    set (f0 := if L + from <? 0 then 0 else L + from).
    assert (Ef : f0 = Z.max 1 (L + from + 1) - 1).
    { unfold f0. destruct (Z.ltb_spec (L + from) 0); lia. }
    assert (E4 : (let t0 := if to <? 0 then L + to + 1 else if 0 <? to then to else 0 in
                  if L <=? t0 then L else t0) = cut_end to L).
    { unfold cut_end. cbv zeta. destruct (to <? 0) eqn:E.
      - apply Z.ltb_lt in E. replace (0 <? to) with false by (symmetry; apply Z.ltb_ge; lia).
        destruct (L <=? L + to + 1) eqn:E5; [apply Z.leb_le in E5; lia|reflexivity].
      - apply Z.ltb_ge in E. replace (0 <? to) with true by (symmetry; apply Z.ltb_lt; lia).
        destruct (L <=? to) eqn:E5; [apply Z.leb_le in E5; lia|apply Z.leb_gt in E5; lia]. }
    cbv zeta in E4. rewrite E4. set (t := cut_end to L).
    assert (Ht' : t <= L) by (unfold t, cut_end; destruct (0 <? to) eqn:E9; [lia|apply Z.ltb_ge in E9; lia]).
    set (s := Z.max 1 (L + from + 1)) in *.
    assert (Hs : 1 <= s) by (unfold s; lia).
    destruct (s <=? t) eqn:E.
    + apply Z.leb_le in E.
      replace (t <=? f0) with false by (symmetry; apply Z.leb_gt; lia).
      replace (f0 <? 0) with false by (symmetry; apply Z.ltb_ge; lia).
      replace (L <=? f0) with false by (symmetry; apply Z.leb_gt; lia).
      replace (L <? t) with false by (symmetry; apply Z.ltb_ge; lia).
      replace (f0 + 1) with s by lia. replace (t - f0) with (t - s + 1) by lia.
      replace (s - 1) with f0 by lia. reflexivity.
    + apply Z.leb_gt in E.
      replace (t <=? f0) with true by (symmetry; apply Z.leb_le; lia). reflexivity.
Qed.
(** the bases kept are those at the 1-based positions cut_start .. cut_end, inside the sequence *)
Lemma cut_signed_range : forall from to r r', from <> 0 -> to <> 0 -> e_cut from to r = Some r' ->
  1 <= cut_start from (rlen r) <= cut_end to (rlen r) /\ cut_end to (rlen r) <= rlen r /\
  rattrs r' = rattrs r.
Proof.
  intros from to r r' Hf Ht H. rewrite cut_signed in H by assumption. unfold cut_spec_signed in H. cbv zeta in H.
  assert (HL : 0 <= rlen r) by (unfold rlen; lia).
  destruct (cut_start from (rlen r) <=? cut_end to (rlen r)) eqn:E; [|discriminate].
  apply Z.leb_le in E. injection H as H; subst r'. cbn [rattrs].
  repeat split; try assumption.
  - unfold cut_start. destruct (Z.ltb_spec 0 from); lia.
  - unfold cut_end. destruct (Z.ltb_spec 0 to); lia.
Qed.

(** * the same loops at the level of batches: what is pushed, batch by batch, flattens to the record-level streams *)
Lemma concat_snoc : forall A (o : list (list A)) t, List.concat (o ++ [t]) = List.concat o ++ t.
Proof. intros; rewrite concat_app; simpl; rewrite app_nil_r; reflexivity. Qed.
Lemma filter_snoc : forall A (p : A -> bool) l s, filter p (l ++ [s]) = filter p l ++ (if p s then [s] else []).
Proof. intros; rewrite filter_app; simpl. destruct (p s); reflexivity. Qed.

Section BatchProofs.
  Variables A K : Type.
  Variable keq : K -> K -> bool.
  Variable code : A -> K.
  Variable n : nat.
  Hypothesis keq_eq : forall a b, keq a b = true <-> a = b.
  Variable p : A -> bool.

  (** DivideOn *)
  Definition div_inv (st : vstate A) (l : list A) : Prop :=
    List.concat (vto A st) ++ vt A st = filter p l /\ List.concat (vfo A st) ++ vf A st = filter (fun x => negb (p x)) l.
  Lemma div_step_inv : forall st l s, div_inv st l -> div_inv (div_step A n p st s) (l ++ [s]).
  Proof.
    intros [t f to fo] l s [Ht Hf]; simpl in *. unfold div_inv, div_step; simpl. rewrite !filter_snoc, <- Ht, <- Hf.
    destruct (p s); simpl;
      destruct (Nat.eqb (List.length _) n); destruct (Nat.eqb (List.length _) n); simpl;
      rewrite ?concat_snoc, ?app_nil_r, ?app_assoc; split; reflexivity.
  Qed.
  Lemma div_fold_inv : forall l st l0, div_inv st l0 -> div_inv (fold_left (div_step A n p) l st) (l0 ++ l).
  Proof.
    intros l; induction l as [|s l IH]; intros st l0 H; simpl.
    - rewrite app_nil_r; exact H.
    - replace (l0 ++ s :: l) with ((l0 ++ [s]) ++ l) by (rewrite <- app_assoc; reflexivity).
      apply IH, div_step_inv, H.
  Qed.
  Theorem divide_batches_flat : forall bs,
    List.concat (fst (divide_batches A n p bs)) = filter p (List.concat bs) /\
    List.concat (snd (divide_batches A n p bs)) = filter (fun x => negb (p x)) (List.concat bs).
  Proof.
    intros bs. unfold divide_batches.
    destruct (div_fold_inv (List.concat bs) (mkv A [] [] [] []) [] (conj eq_refl eq_refl)) as [Ht Hf].
    simpl in Ht, Hf. unfold div_flush; simpl. rewrite <- Ht, <- Hf.
    destruct (vt A _); destruct (vf A _); rewrite ?concat_snoc, ?app_nil_r; split; reflexivity.
  Qed.

  (** FilterOn workers + Rebatch *)
  Theorem filter_batches_flat : forall bs, List.concat (filter_batches A p bs) = filter p (List.concat bs).
  Proof.
    intros bs; unfold filter_batches; induction bs as [|b bs IH]; simpl; [reflexivity|].
    rewrite filter_app, IH; reflexivity.
  Qed.
  Lemma rebatch_fold_inv : forall l st, List.concat (rout A (fold_left (rebatch_step A n) l st)) ++ rbuf A (fold_left (rebatch_step A n) l st)
                                        = (List.concat (rout A st) ++ rbuf A st) ++ l.
  Proof.
    intros l; induction l as [|s l IH]; intros st; simpl; [rewrite app_nil_r; reflexivity|].
    rewrite IH. unfold rebatch_step. destruct (Nat.eqb (List.length (rbuf A st ++ [s])) n); simpl;
      rewrite ?concat_snoc, ?app_nil_r, <- ?app_assoc; reflexivity.
  Qed.
  Theorem rebatch_flat : forall bs, List.concat (rebatch A n bs) = List.concat bs.
  Proof.
    intros bs. unfold rebatch. pose proof (rebatch_fold_inv (List.concat bs) (mkrs A [] [])) as H. simpl in H.
    destruct (rbuf A _); [rewrite app_nil_r in H; exact H|rewrite concat_snoc; exact H].
  Qed.
  (** every batch pushed by Rebatch(n) but the last holds exactly n records (n >= 1), the last one between 1 and n *)
  Theorem filteron_records : forall bs,
    List.concat (rebatch A n (filter_batches A p bs)) = filter p (List.concat bs).
  Proof. intros; rewrite rebatch_flat; apply filter_batches_flat. Qed.

  (** Distribute *)
  Definition haskey (k : K) (sl : list (K * list A)) : bool := existsb (fun kl => keq k (fst kl)) sl.
  Fixpoint distinct (sl : list (K * list A)) : Prop :=
    match sl with [] => True | (k, _) :: t => haskey k t = false /\ distinct t end.
  Lemma keq_refl' : forall a, keq a a = true.
  Proof. intros a; apply keq_eq; reflexivity. Qed.
  Lemma keq_sym : forall a b, keq a b = keq b a.
  Proof.
    intros a b. destruct (keq a b) eqn:E1; destruct (keq b a) eqn:E2; try reflexivity.
    - apply keq_eq in E1; subst b. rewrite keq_refl' in E2; discriminate.
    - apply keq_eq in E2; subst b. rewrite keq_refl' in E1; discriminate.
  Qed.
  Lemma get_put : forall k k' l sl, get_slice A K keq k (put_slice A K keq k' l sl) = if keq k k' then l else get_slice A K keq k sl.
  Proof.
    intros k k' l sl; induction sl as [|[k2 l2] t IH]; simpl.
    - destruct (keq k k'); reflexivity.
    - destruct (keq k' k2) eqn:E2; simpl.
      + apply keq_eq in E2; subst k2. destruct (keq k k'); reflexivity.
      + destruct (keq k k2) eqn:E3.
        * apply keq_eq in E3; subst k2. destruct (keq k k') eqn:E4; [|reflexivity].
          apply keq_eq in E4; subst k'. rewrite keq_refl' in E2; discriminate.
        * exact IH.
  Qed.
  Lemma haskey_put : forall k k' l sl, haskey k (put_slice A K keq k' l sl) = haskey k sl || keq k k'.
  Proof.
    intros k k' l sl; unfold haskey; induction sl as [|[k2 l2] t IH]; simpl.
    - rewrite orb_false_r; reflexivity.
    - destruct (keq k' k2) eqn:E2; simpl.
      + apply keq_eq in E2; subst k2. destruct (keq k k'); simpl; [reflexivity|]. rewrite orb_false_r; reflexivity.
      + rewrite IH. rewrite orb_assoc; reflexivity.
  Qed.
  Lemma distinct_put : forall k l sl, distinct sl -> distinct (put_slice A K keq k l sl).
  Proof.
    intros k l sl; induction sl as [|[k2 l2] t IH]; simpl; intros H.
    - auto.
    - destruct H as [H1 H2]. destruct (keq k k2) eqn:E; simpl.
      + auto.
      + split; [|apply IH; exact H2]. rewrite haskey_put, H1. rewrite keq_sym, E. reflexivity.
  Qed.
  Lemma get_nokey : forall k sl, haskey k sl = false -> get_slice A K keq k sl = [].
  Proof.
    intros k sl; induction sl as [|[k2 l2] t IH]; simpl; intros H; [reflexivity|].
    apply orb_false_iff in H; destruct H as [H1 H2]. simpl in H1. rewrite H1. apply IH; exact H2.
  Qed.
  Lemma get_out_push : forall k k' b o, get_out A K keq k (push_out A K keq k' b o) =
    if keq k k' then get_out A K keq k o ++ [b] else get_out A K keq k o.
  Proof.
    intros k k' b o; induction o as [|[k2 l2] t IH]; simpl.
    - destruct (keq k k'); reflexivity.
    - destruct (keq k' k2) eqn:E2; simpl.
      + apply keq_eq in E2; subst k2. destruct (keq k k'); reflexivity.
      + destruct (keq k k2) eqn:E3.
        * apply keq_eq in E3; subst k2. destruct (keq k k') eqn:E4; [|reflexivity].
          apply keq_eq in E4; subst k'. rewrite keq_refl' in E2; discriminate.
        * exact IH.
  Qed.
  Definition dist_inv (st : dstate A K) (l : list A) : Prop :=
    distinct (dslices A K st) /\
    forall k, List.concat (get_out A K keq k (douts A K st)) ++ get_slice A K keq k (dslices A K st) = filter (fun s => keq k (code s)) l.
  Lemma dist_step_inv : forall st l s, dist_inv st l -> dist_inv (dist_step A K keq code n st s) (l ++ [s]).
  Proof.
    intros [sl o] l s [Hd H]; simpl in *. unfold dist_inv, dist_step; simpl.
    destruct (Nat.eqb (List.length (get_slice A K keq (code s) sl ++ [s])) n); simpl.
    - split; [apply distinct_put; exact Hd|]. intros k. rewrite filter_snoc, <- H, get_put, get_out_push.
      destruct (keq k (code s)) eqn:E.
      + apply keq_eq in E; subst k. rewrite concat_snoc, !app_nil_r, app_assoc. reflexivity.
      + rewrite app_nil_r; reflexivity.
    - split; [apply distinct_put; exact Hd|]. intros k. rewrite filter_snoc, <- H, get_put.
      destruct (keq k (code s)) eqn:E.
      + apply keq_eq in E; subst k. rewrite app_assoc. reflexivity.
      + rewrite app_nil_r; reflexivity.
  Qed.
  Lemma dist_fold_inv : forall l st l0, dist_inv st l0 -> dist_inv (fold_left (dist_step A K keq code n) l st) (l0 ++ l).
  Proof.
    intros l; induction l as [|s l IH]; intros st l0 H; simpl.
    - rewrite app_nil_r; exact H.
    - replace (l0 ++ s :: l) with ((l0 ++ [s]) ++ l) by (rewrite <- app_assoc; reflexivity).
      apply IH, dist_step_inv, H.
  Qed.
  Lemma flush_spec : forall sl o k, distinct sl ->
    List.concat (get_out A K keq k (fold_left (fun o ks => match snd ks with [] => o | x :: l' => push_out A K keq (fst ks) (x :: l') o end) sl o)) =
    List.concat (get_out A K keq k o) ++ get_slice A K keq k sl.
  Proof.
    intros sl; induction sl as [|[k2 l2] t IH]; intros o k Hd; simpl.
    - rewrite app_nil_r; reflexivity.
    - destruct Hd as [H1 H2]. rewrite IH by exact H2.
      destruct (keq k k2) eqn:E.
      + apply keq_eq in E; subst k2. rewrite (get_nokey k t H1), app_nil_r.
        destruct l2 as [|x l2]; [rewrite app_nil_r; reflexivity|].
        rewrite get_out_push, keq_refl', concat_snoc; reflexivity.
      + destruct l2 as [|x l2]; [reflexivity|]. rewrite get_out_push, E; reflexivity.
  Qed.
  (** [core] every output receives, batch after batch, exactly the records of its class in input order — whatever the batch
      size and however many times a class buffer fills up within a run of records of the same class *)
  Theorem distribute_batches_flat : forall bs k,
    List.concat (get_out A K keq k (distribute_batches A K keq code n bs)) = filter (fun s => keq k (code s)) (List.concat bs).
  Proof.
    intros bs k. unfold distribute_batches, dist_flush.
    destruct (dist_fold_inv (List.concat bs) (mkd A K [] []) []) as [Hd H].
    { split; [exact I|]. intros k0; reflexivity. }
    simpl in H. rewrite <- H.
    match goal with |- context [fold_left _ (dslices A K ?st) (douts A K ?st)] => apply (flush_spec (dslices A K st) (douts A K st) k Hd) end.
  Qed.
End BatchProofs.

(** * any schedule: the batches reach SortBatches in any order (parallel readers / FilterOn workers); the re-sequencer of
    Common/Reseq.v restores the order numbers, so the record-level results do not depend on the schedule *)
Theorem filteron_any_schedule : forall (A : Type) (n : nat) (p : A -> bool) (bs : list (list A)) arr,
  Permutation arr (Reseq.numbered (filter_batches A p bs)) ->
  List.concat (rebatch A n (Reseq.out (Reseq.run arr))) = filter p (List.concat bs).
Proof.
  intros A n p bs arr H. destruct (Reseq.reseq_any_permutation _ _ _ H) as [Ho _]. rewrite Ho. apply filteron_records.
Qed.
Theorem distribute_any_arrival : forall (A K : Type) (keq : K -> K -> bool) (code : A -> K) (n : nat),
  (forall a b, keq a b = true <-> a = b) ->
  forall (bs : list (list A)) arr, Permutation arr (Reseq.numbered bs) ->
  forall k, List.concat (get_out A K keq k (distribute_batches A K keq code n (Reseq.out (Reseq.run arr)))) =
            filter (fun s => keq k (code s)) (List.concat bs).
Proof.
  intros A K keq code n Hk bs arr H k. destruct (Reseq.reseq_any_permutation _ _ _ H) as [Ho _]. rewrite Ho.
  apply distribute_batches_flat; exact Hk.
Qed.
Theorem divide_any_arrival : forall (A : Type) (n : nat) (p : A -> bool) (bs : list (list A)) arr,
  Permutation arr (Reseq.numbered bs) ->
  List.concat (fst (divide_batches A n p (Reseq.out (Reseq.run arr)))) = filter p (List.concat bs) /\
  List.concat (snd (divide_batches A n p (Reseq.out (Reseq.run arr)))) = filter (fun x => negb (p x)) (List.concat bs).
Proof.
  intros A n p bs arr H. destruct (Reseq.reseq_any_permutation _ _ _ H) as [Ho _]. rewrite Ho. apply divide_batches_flat.
Qed.

(** obimultiplex -u: DivideOn on the presence of obimultiplex_error *)
Theorem unidentified_route : forall (l : list arec),
  let err := fun r : arec => has_key "obimultiplex_error" (rattrs r) in
  divide_on err l = (filter err l, filter (fun r => negb (err r)) l) /\
  Permutation (fst (divide_on err l) ++ snd (divide_on err l)) l /\
  (forall r, In r (fst (divide_on err l)) -> err r = true) /\ (forall r, In r (snd (divide_on err l)) -> err r = false).
Proof.
  intros l err. destruct (divide_complement arec err l) as [H1 [H2 [H3 [H4 H5]]]].
  split; [apply divide_on_spec|]. split; [exact H3|]. split; assumption.
Qed.

(** * "changes nothing else" with the external edits requested too: their frame is a hypothesis *)
Section UntouchedExt.
  Variable VEXPR : Type.
  Variable eval_val : VEXPR -> arec -> option aval.
  Variable at_rank : string -> arec -> arec.
  Variables set_path set_trank set_sciname : arec -> arec.
  Variable set_lca : string -> arec -> arec.
  Variable AHO : Type.
  Variable aho_edit : AHO -> arec -> arec.
  Variable APAT : Type.
  Variable apat_src : APAT -> string.
  Variable apat_rc : APAT -> APAT.
  Variable best_match : APAT -> Z -> bool -> string -> option (Z * Z * Z).
  Notation aopts := (aopts VEXPR AHO APAT).
  Notation spec_annot := (spec_annot VEXPR eval_val at_rank set_path set_trank set_sciname set_lca AHO aho_edit APAT apat_src apat_rc best_match).
  Notation e_settag := (e_settag VEXPR eval_val).
  Notation e_setid := (e_setid VEXPR eval_val).
  Notation e_pattern := (e_pattern APAT apat_src apat_rc best_match).

  (** the slots the external components may write *)
  Variable ext_key : string -> bool.
  Definition frame (f : arec -> arec) : Prop :=
    forall r, rid (f r) = rid r /\ rseq (f r) = rseq r /\
              forall k, ext_key k = false -> lookup k (rattrs (f r)) = lookup k (rattrs r).
  Hypothesis at_rank_frame : forall rk, frame (at_rank rk).
  Hypothesis path_frame : frame set_path.
  Hypothesis trank_frame : frame set_trank.
  Hypothesis sciname_frame : frame set_sciname.
  Hypothesis lca_frame : forall s, frame (set_lca s).
  Hypothesis aho_frame : forall h, frame (aho_edit h).

  Lemma frame_id : frame (fun r => r).
  Proof. intros r; auto. Qed.
  Lemma frame_comp : forall f g, frame f -> frame g -> frame (fun r => g (f r)).
  Proof.
    intros f g Hf Hg r. destruct (Hf r) as [F1 [F2 F3]]. destruct (Hg (f r)) as [G1 [G2 G3]].
    rewrite G1, G2, F1, F2. split; [reflexivity|]. split; [reflexivity|]. intros k Hk. rewrite (G3 k Hk). apply F3; exact Hk.
  Qed.
  Lemma frame_if : forall (c : bool) f, frame f -> frame (fun r => if c then f r else r).
  Proof. intros [|] f Hf; [exact Hf|apply frame_id]. Qed.
  Lemma taxranks_frame : forall rks, frame (e_taxranks at_rank rks).
  Proof.
    intros rks; induction rks as [|rk t IH]; [apply frame_id|].
    intros r. unfold e_taxranks; simpl. apply (frame_comp (at_rank rk) (e_taxranks at_rank t) (at_rank_frame rk) IH).
  Qed.

  (** the keys written by --pattern *)
  Definition pat_keys (name k : string) : bool :=
    String.eqb k (pat_slot name) || String.eqb k (append (pat_name name) "_match") ||
    String.eqb k (append (pat_name name) "_error") || String.eqb k (append (pat_name name) "_location").
  Lemma set_match_frame : forall r p name m loc n k, pat_keys name k = false ->
    rid (set_match APAT apat_src r p name m loc n) = rid r /\ rseq (set_match APAT apat_src r p name m loc n) = rseq r /\
    lookup k (rattrs (set_match APAT apat_src r p name m loc n)) = lookup k (rattrs r).
  Proof.
    intros r p name m loc n k H. unfold pat_keys in H. rewrite !orb_false_iff in H. destruct H as [[[H1 H2] H3] H4].
    unfold set_match; simpl. split; [reflexivity|]. split; [reflexivity|].
    rewrite lookup_set_ne by exact H4. rewrite lookup_set_ne by exact H3. rewrite lookup_set_ne by exact H2.
    apply lookup_set_ne; exact H1.
  Qed.
  Lemma e_pattern_frame : forall p name e both indel r k, pat_keys name k = false ->
    rid (e_pattern p name e both indel r) = rid r /\ rseq (e_pattern p name e both indel r) = rseq r /\
    lookup k (rattrs (e_pattern p name e both indel r)) = lookup k (rattrs r).
  Proof.
    intros p name e both indel r k H. unfold Model.e_pattern.
    destruct (best_match p e indel (rseq r)) as [[[st en] n]|]; [apply set_match_frame; exact H|].
    destruct both; [|auto]. destruct (best_match (apat_rc p) e indel (rseq r)) as [[[st en] n]|]; [apply set_match_frame; exact H|auto].
  Qed.

  (** the edits between set-id and -S, as one function *)
  Definition mid_edits (o : aopts) (r1 : arec) : arec :=
    let x := e_delete (adelete _ _ _ o) r1 in
    let x := match akeep _ _ _ o with [] => x | ks => e_keep ks x end in
    let x := e_rename (arename _ _ _ o) x in
    let x := e_taxranks at_rank (ataxrank _ _ _ o) x in
    let x := if apath _ _ _ o then set_path x else x in
    let x := if atrank _ _ _ o then set_trank x else x in
    let x := if asciname _ _ _ o then set_sciname x else x in
    let x := if negb (String.eqb (alca _ _ _ o) "") then set_lca (alca _ _ _ o) x else x in
    if alength _ _ _ o then e_length x else x.
  Lemma spec_annot_shape : forall (o : aopts) r,
    spec_annot o r =
    obind (match asetid _ _ _ o with Some e => e_setid e (if aclear _ _ _ o then e_clear r else r) | None => Some (if aclear _ _ _ o then e_clear r else r) end) (fun r1 =>
    obind (fold_left (fun x ke => obind x (e_settag ke)) (asettag _ _ _ o) (Some (mid_edits o r1))) (fun r3 =>
    obind (match has_cut VEXPR AHO APAT o with Some (f, t) => e_cut f t (match aaho _ _ _ o with Some h => aho_edit h r3 | None => r3 end)
           | None => Some (match aaho _ _ _ o with Some h => aho_edit h r3 | None => r3 end) end) (fun r5 =>
    Some (match apattern _ _ _ o with
          | Some p => e_pattern p (ptname _ _ _ o) (pterr _ _ _ o) (negb (ptfwd _ _ _ o)) (ptindel _ _ _ o) r5
          | None => r5 end)))).
  Proof. intros o r. reflexivity. Qed.

  Lemma ext_block_frame : forall (o : aopts), frame (fun x =>
    let x := e_taxranks at_rank (ataxrank _ _ _ o) x in
    let x := if apath _ _ _ o then set_path x else x in
    let x := if atrank _ _ _ o then set_trank x else x in
    let x := if asciname _ _ _ o then set_sciname x else x in
    if negb (String.eqb (alca _ _ _ o) "") then set_lca (alca _ _ _ o) x else x).
  Proof.
    intros o.
    apply (frame_comp _ (fun x => if negb (String.eqb (alca _ _ _ o) "") then set_lca (alca _ _ _ o) x else x)); [|apply frame_if, lca_frame].
    apply (frame_comp _ (fun x => if asciname _ _ _ o then set_sciname x else x)); [|apply frame_if, sciname_frame].
    apply (frame_comp _ (fun x => if atrank _ _ _ o then set_trank x else x)); [|apply frame_if, trank_frame].
    apply (frame_comp _ (fun x => if apath _ _ _ o then set_path x else x)); [|apply frame_if, path_frame].
    apply taxranks_frame.
  Qed.

  Theorem annot_untouched_ext : forall (o : aopts) r r' k,
    spec_annot o r = Some r' ->
    aclear _ _ _ o = false -> (akeep _ _ _ o = [] \/ mem_str k (akeep _ _ _ o) = true) ->
    touched VEXPR AHO APAT o k = false -> ext_key k = false ->
    (apattern _ _ _ o = None \/ pat_keys (ptname _ _ _ o) k = false) ->
    lookup k (rattrs r') = lookup k (rattrs r).
  Proof.
    intros o r r' k H Hc Hk Ht He Hp. rewrite spec_annot_shape in H. rewrite Hc in H.
    unfold touched in Ht. rewrite !orb_false_iff in Ht. destruct Ht as [[[Td Tr] Tl] Ts].
    destruct (match asetid _ _ _ o with Some e => e_setid e r | None => Some r end) as [r1|] eqn:E1; cbn [obind] in H; [|discriminate].
    destruct (fold_left (fun x ke => obind x (e_settag ke)) (asettag _ _ _ o) (Some (mid_edits o r1))) as [r3|] eqn:E3; cbn [obind] in H; [|discriminate].
    set (r4 := match aaho _ _ _ o with Some h => aho_edit h r3 | None => r3 end) in H.
    destruct (match has_cut VEXPR AHO APAT o with Some (f, t) => e_cut f t r4 | None => Some r4 end) as [r5|] eqn:E5; cbn [obind] in H; [|discriminate].
    injection H as H; subst r'.
    assert (A1 : rattrs r1 = rattrs r).
    { destruct (asetid _ _ _ o) as [e|]; [apply (e_setid_keeps VEXPR eval_val e r r1 E1)|injection E1 as E1; subst; reflexivity]. }
    assert (A2 : lookup k (rattrs (mid_edits o r1)) = lookup k (rattrs r1)).
    { unfold mid_edits. cbv zeta.
      assert (B : forall x, lookup k (rattrs (if alength _ _ _ o then e_length x else x)) = lookup k (rattrs x)).
      { intros x. destruct (alength _ _ _ o); [|reflexivity]. simpl in Tl. unfold e_length; simpl. apply lookup_set_ne; exact Tl. }
      rewrite B. destruct (ext_block_frame o (e_rename (arename _ _ _ o) match akeep _ _ _ o with [] => e_delete (adelete _ _ _ o) r1 | ks => e_keep ks (e_delete (adelete _ _ _ o) r1) end)) as [_ [_ F]].
      cbv zeta in F. rewrite (F k He). unfold e_rename. rewrite lookup_rename_fold by exact Tr.
      assert (C : forall x, lookup k (rattrs (match akeep _ _ _ o with [] => x | ks => e_keep ks x end)) = lookup k (rattrs x)).
      { intros x. destruct Hk as [Hk|Hk]; [rewrite Hk; reflexivity|].
        destruct (akeep _ _ _ o) as [|a b] eqn:E; [reflexivity|]. unfold e_keep, set_attrs; cbn [rattrs]. apply lookup_keep; exact Hk. }
      rewrite C. unfold e_delete; simpl. apply lookup_delete_fold; exact Td. }
    assert (A3 : lookup k (rattrs r3) = lookup k (rattrs (mid_edits o r1))) by (apply (proj1 (settag_fold VEXPR eval_val _ _ _ k E3)); exact Ts).
    assert (A4 : lookup k (rattrs r4) = lookup k (rattrs r3)).
    { unfold r4. destruct (aaho _ _ _ o) as [h|]; [|reflexivity]. destruct (aho_frame h r3) as [_ [_ F]]. apply F; exact He. }
    assert (A5 : rattrs r5 = rattrs r4).
    { destruct (has_cut VEXPR AHO APAT o) as [[f t]|]; [apply (e_cut_attrs f t r4 r5 E5)|injection E5 as E5; subst; reflexivity]. }
    assert (A6 : lookup k (rattrs (match apattern _ _ _ o with
                                   | Some p => e_pattern p (ptname _ _ _ o) (pterr _ _ _ o) (negb (ptfwd _ _ _ o)) (ptindel _ _ _ o) r5
                                   | None => r5 end)) = lookup k (rattrs r5)).
    { destruct (apattern _ _ _ o) as [p|]; [|reflexivity]. destruct Hp as [Hp|Hp]; [discriminate|].
      apply e_pattern_frame; exact Hp. }
    rewrite A6, A5, A4, A3, A2, A1. reflexivity.
  Qed.
End UntouchedExt.

(** the frame hypotheses are satisfiable by the concrete taxonomy edits of the correspondence *)
Lemma c_sciname_frame : frame (fun k => String.eqb k "scienctific_name") c_set_sciname.
Proof.
  intros r. unfold c_set_sciname; simpl. split; [reflexivity|]. split; [reflexivity|].
  intros k Hk. apply lookup_set_ne; exact Hk.
Qed.

(** * Round 3: command-level corollaries *)
(** obidistribute --append: two runs (inputs bs1 then bs2, possibly different batch sizes) append to the same files; the
    file of class k then holds what ONE run on the concatenated input would have written to it *)
Lemma distribute_append : forall (A K : Type) (keq : K -> K -> bool) (code : A -> K) (n1 n2 n : nat),
  (forall a b, keq a b = true <-> a = b) ->
  forall bs1 bs2 k,
    List.concat (get_out A K keq k (distribute_batches A K keq code n1 bs1)) ++
    List.concat (get_out A K keq k (distribute_batches A K keq code n2 bs2)) =
    List.concat (get_out A K keq k (distribute_batches A K keq code n (bs1 ++ bs2))).
Proof.
  intros A K keq code n1 n2 n Hk bs1 bs2 k.
  rewrite !(distribute_batches_flat A K keq code _ Hk). rewrite concat_app, filter_app. reflexivity.
Qed.
(** obimultiplex without -u: `out.FilterOn(HasAttribute("obimultiplex_error").Not())` writes exactly what the run with
    -u (`DivideOn(HasAttribute("obimultiplex_error"))`, second stream) writes on stdout, whatever the two batch sizes *)
Lemma filteron_not_is_divide_snd : forall (A : Type) (n m : nat) (err : A -> bool) bs,
  List.concat (rebatch A n (filter_batches A (fun x => negb (err x)) bs)) = List.concat (snd (divide_batches A m err bs)).
Proof.
  intros A n m err bs. rewrite filteron_records. destruct (divide_batches_flat A m err bs) as [_ H]. rewrite H. reflexivity.
Qed.
Lemma mux_without_unidentified : forall (n m : nat) (bs : list (list arec)),
  let err := fun r : arec => has_key "obimultiplex_error" (rattrs r) in
  List.concat (rebatch arec n (filter_batches arec (holds (p_not (Some err))) bs)) = List.concat (snd (divide_batches arec m err bs)) /\
  Permutation (List.concat (fst (divide_batches arec m err bs)) ++ List.concat (rebatch arec n (filter_batches arec (holds (p_not (Some err))) bs))) (List.concat bs).
Proof.
  intros n m bs err. split.
  - exact (filteron_not_is_divide_snd arec n m err bs).
  - change (holds (p_not (Some err))) with (fun r => negb (err r)).
    rewrite filteron_records. destruct (divide_batches_flat arec m err bs) as [H1 _]. rewrite H1.
    generalize (List.concat bs). intro l. induction l as [|x l IH]; [constructor|].
    simpl. destruct (err x); simpl.
    + constructor. exact IH.
    + apply Permutation_sym, Permutation_cons_app, Permutation_sym. exact IH.
Qed.

(** several input files read with --no-order: the files (each the list of its records) may be taken in any order; what a
    per-record selection keeps / a per-record edit writes is the same multiset of records *)
Lemma filter_perm : forall A (p : A -> bool) l l', Permutation l l' -> Permutation (filter p l) (filter p l').
Proof.
  intros A p l l' H. induction H as [|x l l' H IH|x y l|l l' l'' H1 IH1 H2 IH2]; simpl.
  - constructor.
  - destruct (p x); [constructor|]; exact IH.
  - destruct (p x), (p y); try apply Permutation_refl. apply perm_swap.
  - eapply Permutation_trans; eassumption.
Qed.
Lemma concat_perm : forall A (ls ls' : list (list A)), Permutation ls ls' -> Permutation (List.concat ls) (List.concat ls').
Proof.
  intros A ls ls' H. induction H as [|x l l' H IH|x y l|l l' l'' H1 IH1 H2 IH2]; simpl.
  - constructor.
  - apply Permutation_app_head. exact IH.
  - rewrite !app_assoc. apply Permutation_app_tail. apply Permutation_app_comm.
  - eapply Permutation_trans; eassumption.
Qed.
Lemma flat_map_perm : forall A B (f : A -> list B) l l', Permutation l l' -> Permutation (flat_map f l) (flat_map f l').
Proof.
  intros A B f l l' H. induction H as [|x l l' H IH|x y l|l l' l'' H1 IH1 H2 IH2]; simpl.
  - constructor.
  - apply Permutation_app_head. exact IH.
  - rewrite !app_assoc. apply Permutation_app_tail. apply Permutation_app_comm.
  - eapply Permutation_trans; eassumption.
Qed.
Lemma files_any_order : forall A B (p : A -> bool) (f : A -> list B) (files files' : list (list A)),
  Permutation files files' ->
  Permutation (filter p (List.concat files')) (filter p (List.concat files)) /\
  Permutation (filter (fun x => negb (p x)) (List.concat files')) (filter (fun x => negb (p x)) (List.concat files)) /\
  Permutation (flat_map f (List.concat files')) (flat_map f (List.concat files)).
Proof.
  intros A B p f files files' H. apply Permutation_sym in H. apply concat_perm in H.
  repeat split; [apply filter_perm|apply filter_perm|apply flat_map_perm]; exact H.
Qed.

(** an edit that cannot be computed: `-S a=annotations.k` alone (the concrete expression instance of the correspondence)
    discards exactly the records without attribute k and copies the value on the others *)
Lemma set_tag_from_attribute : forall (a k : string) (r : arec),
  String.eqb a "id" = false -> String.eqb a "sequence" = false -> String.eqb a "qualities" = false ->
  c_impl_annot (mka false None [] [] [] false [(a, EAttr k)] None) r =
  match lookup k (rattrs r) with
  | Some v => [set_attrs r (set_key a v (rattrs r))]
  | None => []
  end.
Proof.
  intros a k r H1 H2 H3.
  unfold c_impl_annot, impl_annot, impl_worker, mka, mka2, annot_steps, has_cut, eval_attr_worker.
  cbn [aclear asetid adelete akeep arename ataxrank apath atrank asciname alca alength asettag aaho acut apattern String.eqb Ascii.eqb negb fold_left chain].
  unfold partial, e_settag. cbn [snd fst vexpr_eval].
  destruct (lookup k (rattrs r)) as [v|]; [|reflexivity].
  unfold set_attr. rewrite H1, H2, H3. reflexivity.
Qed.
