(** C16 — lemmas over Model.v *)
From Coq Require Import ZArith List String Ascii Bool Lia Permutation.
From OBI.C16 Require Import Model.
Import ListNotations.
Open Scope string_scope.
Open Scope list_scope.
Open Scope Z_scope.

(** * predicate combinators *)
Lemma holds_p_and : forall a b r, holds (p_and a b) r = holds a r && holds b r.
Proof.
  intros [f|] [g|] r; simpl; try reflexivity.
  - destruct (f r); reflexivity.
  - rewrite andb_true_r; reflexivity.
Qed.
Lemma holds_p_or_some : forall f g r, holds (p_or (Some f) (Some g)) r = f r || g r.
Proof. intros f g r; simpl; destruct (f r); reflexivity. Qed.
Lemma holds_p_not_some : forall f r, holds (p_not (Some f)) r = negb (f r).
Proof. reflexivity. Qed.

Lemma fold_and_holds : forall A (mk : A -> pred) t p0 r,
  holds (fold_left (fun p y => p_and p (Some (mk y))) t p0) r = holds p0 r && forallb (fun x => mk x r) t.
Proof.
  intros A mk t; induction t as [|x t IH]; intros p0 r; simpl.
  - rewrite andb_true_r; reflexivity.
  - rewrite IH, holds_p_and; simpl. rewrite andb_assoc; reflexivity.
Qed.
Lemma holds_chain_and : forall A (mk : A -> pred) l r,
  holds (chain_and mk l) r = forallb (fun x => mk x r) l.
Proof. intros A mk [|x t] r; simpl; [reflexivity|]. rewrite fold_and_holds; reflexivity. Qed.

Lemma fold_or_some : forall A (mk : A -> pred) t f,
  exists g, fold_left (fun p y => p_or p (Some (mk y))) t (Some f) = Some g /\
            forall r, g r = f r || existsb (fun x => mk x r) t.
Proof.
  intros A mk t; induction t as [|x t IH]; intros f; simpl.
  - exists f; split; [reflexivity|]. intros r; rewrite orb_false_r; reflexivity.
  - destruct (IH (fun r => if f r then true else mk x r)) as [g [Hg Hs]].
    exists g; split; [exact Hg|]. intros r; rewrite Hs. destruct (f r); simpl; reflexivity.
Qed.
Lemma holds_chain_or : forall A (mk : A -> pred) l r,
  holds (chain_or mk l) r = match l with [] => true | _ => existsb (fun x => mk x r) l end.
Proof.
  intros A mk [|x t] r; simpl; [reflexivity|].
  destruct (fold_or_some A mk t (mk x)) as [g [Hg Hs]]. rewrite Hg; simpl. apply Hs.
Qed.
Lemma holds_not_chain_or : forall A (mk : A -> pred) l r,
  holds (match l with [] => None | _ => p_not (chain_or mk l) end) r = negb (existsb (fun x => mk x r) l).
Proof.
  intros A mk [|x t] r; [reflexivity|].
  unfold chain_or. destruct (fold_or_some A mk t (mk x)) as [g [Hg Hs]]. rewrite Hg; simpl. rewrite Hs; reflexivity.
Qed.

Lemma fold_and_none : forall A (mk : A -> pred) l r,
  holds (fold_left (fun p y => p_and p (Some (mk y))) l None) r = forallb (fun x => mk x r) l.
Proof. intros; rewrite fold_and_holds; reflexivity. Qed.

Definition nonempty {A} (l : list A) : bool := match l with [] => false | _ => true end.

Section GrepProofs.
  Variables RE EXPR APAT TAXQ : Type.
  Variable re_match : bool -> RE -> string -> bool.
  Variable eval_bool : EXPR -> arec -> bool.
  Variable approx_match : APAT -> arec -> bool.
  Variable tax_pred : TAXQ -> arec -> bool.
  Notation gopts := (gopts RE EXPR APAT TAXQ).
  Notation impl_base := (impl_base RE EXPR APAT TAXQ re_match eval_bool approx_match tax_pred).
  Notation impl_pred := (impl_pred RE EXPR APAT TAXQ re_match eval_bool approx_match tax_pred).
  Notation impl_paired := (impl_paired RE EXPR APAT TAXQ re_match eval_bool approx_match tax_pred).
  Notation spec_pred := (spec_pred RE EXPR APAT TAXQ re_match eval_bool approx_match tax_pred).
  Notation spec_sel := (spec_sel RE EXPR APAT TAXQ re_match eval_bool approx_match tax_pred).

  (** the guards of the builders: records are non-empty, counts positive, both below the 2e9 sentinel *)
  Definition wf_rec (r : arec) : Prop := 1 <= rlen r < SENT /\ 1 <= rcount r < SENT.

  Lemma holds_size : forall (o : gopts) r, 1 <= rlen r < SENT ->
    holds (size_pred RE EXPR APAT TAXQ o) r = (minlen _ _ _ _ o <=? rlen r) && (rlen r <=? maxlen _ _ _ _ o).
  Proof.
    intros o r Hl. unfold size_pred.
    destruct (1 <? minlen _ _ _ _ o) eqn:Hm; destruct (maxlen _ _ _ _ o =? SENT) eqn:Hx; simpl.
    - apply Z.eqb_eq in Hx. rewrite Hx. replace (rlen r <=? SENT) with true by (symmetry; apply Z.leb_le; lia).
      rewrite andb_true_r; reflexivity.
    - destruct (minlen _ _ _ _ o <=? rlen r); reflexivity.
    - apply Z.eqb_eq in Hx. apply Z.ltb_ge in Hm. rewrite Hx.
      replace (rlen r <=? SENT) with true by (symmetry; apply Z.leb_le; lia).
      replace (minlen _ _ _ _ o <=? rlen r) with true by (symmetry; apply Z.leb_le; lia). reflexivity.
    - apply Z.ltb_ge in Hm.
      replace (minlen _ _ _ _ o <=? rlen r) with true by (symmetry; apply Z.leb_le; lia). reflexivity.
  Qed.
  Lemma holds_count : forall (o : gopts) r, 1 <= rcount r < SENT ->
    holds (count_pred RE EXPR APAT TAXQ o) r = (mincount _ _ _ _ o <=? rcount r) && (rcount r <=? maxcount _ _ _ _ o).
  Proof.
    intros o r Hl. unfold count_pred.
    destruct (1 <? mincount _ _ _ _ o) eqn:Hm; destruct (maxcount _ _ _ _ o =? SENT) eqn:Hx; simpl.
    - apply Z.eqb_eq in Hx. rewrite Hx. replace (rcount r <=? SENT) with true by (symmetry; apply Z.leb_le; lia).
      rewrite andb_true_r; reflexivity.
    - destruct (mincount _ _ _ _ o <=? rcount r); reflexivity.
    - apply Z.eqb_eq in Hx. apply Z.ltb_ge in Hm. rewrite Hx.
      replace (rcount r <=? SENT) with true by (symmetry; apply Z.leb_le; lia).
      replace (mincount _ _ _ _ o <=? rcount r) with true by (symmetry; apply Z.leb_le; lia). reflexivity.
    - apply Z.ltb_ge in Hm.
      replace (mincount _ _ _ _ o <=? rcount r) with true by (symmetry; apply Z.leb_le; lia). reflexivity.
  Qed.
  Lemma holds_tax : forall (o : gopts) r,
    holds (tax_filter RE EXPR APAT TAXQ tax_pred o) r =
    forallb (fun q => tax_pred q r) (ranks _ _ _ _ o) &&
    (match belong _ _ _ _ o with [] => true | l => existsb (fun q => tax_pred q r) l end) &&
    negb (existsb (fun q => tax_pred q r) (avoid _ _ _ _ o)).
  Proof.
    intros o r. unfold tax_filter. rewrite !holds_p_and, holds_chain_and, holds_chain_or, holds_not_chain_or.
    destruct (belong _ _ _ _ o); reflexivity.
  Qed.
  Lemma holds_attrs : forall (o : gopts) r,
    holds (attrs_pred RE EXPR APAT TAXQ re_match o) r = forallb (fun kp => attr_match RE re_match kp r) (attrpats _ _ _ _ o).
  Proof.
    intros o r. unfold attrs_pred. destruct (attrpats _ _ _ _ o) as [|x t] eqn:E; [reflexivity|].
    rewrite fold_and_none; reflexivity.
  Qed.
  Lemma holds_idlist : forall (o : gopts) r,
    holds (idlist_pred RE EXPR APAT TAXQ o) r = match idlist _ _ _ _ o with None => true | Some ids => mem_str (rid r) ids end.
  Proof. intros o r. unfold idlist_pred. destruct (idlist _ _ _ _ o); reflexivity. Qed.

  Theorem grep_base_exact : forall (o : gopts) r, wf_rec r -> holds (impl_base o) r = spec_pred o r.
  Proof.
    intros o r [Hl Hc]. unfold Model.impl_base, Model.spec_pred.
    rewrite !holds_p_and, holds_size, holds_count, holds_tax, holds_attrs, holds_idlist, !holds_chain_and by assumption.
    rewrite !andb_assoc. reflexivity.
  Qed.

  Theorem grep_exact : forall (o : gopts) r, wf_rec r ->
    invert _ _ _ _ o = false \/ impl_base o <> None ->
    holds (impl_pred o) r = spec_sel o r.
  Proof.
    intros o r Hw Hg. unfold Model.impl_pred, Model.spec_sel.
    destruct (invert _ _ _ _ o) eqn:Hi.
    - destruct Hg as [Hg|Hg]; [discriminate|].
      rewrite <- (grep_base_exact o r Hw).
      destruct (impl_base o) as [f|]; [reflexivity|congruence].
    - apply grep_base_exact; assumption.
  Qed.

  (** which option sets give a non-nil predicate *)
  Definition effective (o : gopts) : bool :=
    (1 <? minlen _ _ _ _ o) || negb (maxlen _ _ _ _ o =? SENT) || (1 <? mincount _ _ _ _ o) || negb (maxcount _ _ _ _ o =? SENT) ||
    nonempty (ranks _ _ _ _ o) || nonempty (belong _ _ _ _ o) || nonempty (avoid _ _ _ _ o) ||
    nonempty (preds _ _ _ _ o) || nonempty (seqpats _ _ _ _ o) || nonempty (defpats _ _ _ _ o) ||
    nonempty (idpats _ _ _ _ o) || (match idlist _ _ _ _ o with None => false | Some _ => true end) ||
    nonempty (reqattrs _ _ _ _ o) || nonempty (attrpats _ _ _ _ o) || nonempty (approx _ _ _ _ o).

  (** -v with no effective criterion: the nil predicate is returned and every record is kept *)
  Theorem grep_invert_nil : forall (o : gopts) r, impl_base o = None -> holds (impl_pred o) r = true.
  Proof. intros o r H. unfold Model.impl_pred. rewrite H. destruct (invert _ _ _ _ o); reflexivity. Qed.

  (** paired modes *)
  Theorem paired_modes : forall (o : gopts) r mate, wf_rec r -> wf_rec mate -> impl_base o <> None ->
    holds2 (impl_paired o) r (Some mate) = mode_fun (pairmode _ _ _ _ o) (spec_sel o r) (spec_sel o mate).
  Proof.
    intros o r mate Hr Hm Hn. unfold Model.impl_paired.
    rewrite <- (grep_exact o r Hr (or_intror Hn)), <- (grep_exact o mate Hm (or_intror Hn)).
    assert (Hp : impl_pred o <> None).
    { unfold Model.impl_pred. destruct (invert _ _ _ _ o); destruct (impl_base o); simpl; congruence. }
    destruct (impl_pred o) as [f|]; [|congruence]. simpl.
    destruct (pairmode _ _ _ _ o); simpl; try reflexivity.
    destruct (f r), (f mate); reflexivity.
  Qed.
  Theorem paired_unpaired : forall (o : gopts) r, holds2 (impl_paired o) r None = holds (impl_pred o) r.
  Proof. intros o r. unfold Model.impl_paired. destruct (impl_pred o); reflexivity. Qed.
End GrepProofs.

(** * DivideOn / FilterOn *)
Lemma divide_loop_spec : forall A (p : A -> bool) l t f,
  divide_loop p l t f = (t ++ filter p l, f ++ filter (fun x => negb (p x)) l).
Proof.
  intros A p l; induction l as [|s l IH]; intros t f; simpl.
  - rewrite !app_nil_r; reflexivity.
  - destruct (p s); simpl; rewrite IH, <- app_assoc; reflexivity.
Qed.
Lemma divide_on_spec : forall A (p : A -> bool) l,
  divide_on p l = (filter p l, filter (fun x => negb (p x)) l).
Proof. intros; unfold divide_on; rewrite divide_loop_spec; reflexivity. Qed.
Lemma filter_partition_perm : forall A (p : A -> bool) l,
  Permutation (filter p l ++ filter (fun x => negb (p x)) l) l.
Proof.
  intros A p l; induction l as [|s l IH]; simpl; [constructor|].
  destruct (p s); simpl.
  - constructor; exact IH.
  - apply Permutation_sym, Permutation_cons_app, Permutation_sym, IH.
Qed.
Theorem divide_complement : forall A (p : A -> bool) l,
  fst (divide_on p l) = filter p l /\ snd (divide_on p l) = filter (fun x => negb (p x)) l /\
  Permutation (fst (divide_on p l) ++ snd (divide_on p l)) l /\
  (forall x, In x (fst (divide_on p l)) -> p x = true) /\ (forall x, In x (snd (divide_on p l)) -> p x = false).
Proof.
  intros A p l. rewrite divide_on_spec; simpl. repeat split.
  - apply filter_partition_perm.
  - intros x Hx; apply filter_In in Hx; tauto.
  - intros x Hx; apply filter_In in Hx. destruct Hx as [_ Hx]. destruct (p x); [discriminate|reflexivity].
Qed.

Lemma combine_fst_snd : forall A B (l : list (A * B)), combine (map fst l) (map snd l) = l.
Proof. intros A B l; induction l as [|[a b] l IH]; simpl; [reflexivity|]. rewrite IH; reflexivity. Qed.
Theorem paired_mates_together : forall p l,
  combine (fst (grep_paired p l)) (snd (grep_paired p l)) = filter (fun fr => p (fst fr) (Some (snd fr))) l /\
  List.length (fst (grep_paired p l)) = List.length (snd (grep_paired p l)).
Proof.
  intros p l. unfold grep_paired. rewrite divide_on_spec; simpl. split.
  - apply combine_fst_snd.
  - rewrite !map_length; reflexivity.
Qed.

Section GrepProofs2.
  Variables RE EXPR APAT TAXQ : Type.
  Variable re_match : bool -> RE -> string -> bool.
  Variable eval_bool : EXPR -> arec -> bool.
  Variable approx_match : APAT -> arec -> bool.
  Variable tax_pred : TAXQ -> arec -> bool.
  Notation gopts := (gopts RE EXPR APAT TAXQ).
  Notation impl_base := (impl_base RE EXPR APAT TAXQ re_match eval_bool approx_match tax_pred).
  Notation impl_pred := (impl_pred RE EXPR APAT TAXQ re_match eval_bool approx_match tax_pred).
  Notation impl_paired := (impl_paired RE EXPR APAT TAXQ re_match eval_bool approx_match tax_pred).
  Notation spec_pred := (spec_pred RE EXPR APAT TAXQ re_match eval_bool approx_match tax_pred).
  Notation spec_sel := (spec_sel RE EXPR APAT TAXQ re_match eval_bool approx_match tax_pred).


  Theorem grep_divide_exact : forall (o : gopts) l, Forall wf_rec l ->
    invert _ _ _ _ o = false \/ impl_base o <> None ->
    divide_on (holds (impl_pred o)) l = (filter (spec_sel o) l, filter (fun r => negb (spec_sel o r)) l).
  Proof.
    intros o l Hl Hg. rewrite divide_on_spec. rewrite Forall_forall in Hl.
    f_equal; apply filter_ext_in; intros r Hr; rewrite (grep_exact RE EXPR APAT TAXQ re_match eval_bool approx_match tax_pred o r (Hl r Hr) Hg); reflexivity.
  Qed.

  Theorem paired_divide_exact : forall (o : gopts) l,
    Forall (fun fr : arec * arec => wf_rec (fst fr) /\ wf_rec (snd fr)) l -> impl_base o <> None ->
    let sel := fun fr : arec * arec => mode_fun (pairmode _ _ _ _ o) (spec_sel o (fst fr)) (spec_sel o (snd fr)) in
    let out := grep_paired_divide (holds2 (impl_paired o)) l in
    combine (fst (fst out)) (snd (fst out)) = filter sel l /\
    combine (fst (snd out)) (snd (snd out)) = filter (fun fr => negb (sel fr)) l.
  Proof.
    intros o l Hl Hn sel out. unfold out, grep_paired_divide. rewrite divide_on_spec. simpl.
    rewrite !combine_fst_snd. rewrite Forall_forall in Hl.
    split; apply filter_ext_in; intros fr Hin; destruct (Hl fr Hin) as [H1 H2]; unfold sel;
      rewrite (paired_modes RE EXPR APAT TAXQ re_match eval_bool approx_match tax_pred o (fst fr) (snd fr) H1 H2 Hn); reflexivity.
  Qed.
End GrepProofs2.

(** * Distribute *)
Section DistProofs.
  Variables A K : Type.
  Variable keq : K -> K -> bool.
  Variable code : A -> K.
  Hypothesis keq_eq : forall a b, keq a b = true <-> a = b.
  Lemma keq_refl : forall a, keq a a = true.
  Proof. intros a; apply keq_eq; reflexivity. Qed.
  Lemma slice_of_add : forall k k' s sl,
    slice_of A K keq k (slice_add A K keq k' s sl) =
    if keq k k' then slice_of A K keq k sl ++ [s] else slice_of A K keq k sl.
  Proof.
    intros k k' s sl; induction sl as [|[k2 l] t IH]; simpl.
    - destruct (keq k k'); reflexivity.
    - destruct (keq k' k2) eqn:E2; simpl.
      + apply keq_eq in E2; subst k2. destruct (keq k k'); reflexivity.
      + destruct (keq k k2) eqn:E3.
        * apply keq_eq in E3; subst k2. destruct (keq k k') eqn:E4; [|reflexivity].
          apply keq_eq in E4; subst k'. rewrite keq_refl in E2; discriminate.
        * exact IH.
  Qed.
  Lemma distribute_fold : forall l sl k,
    slice_of A K keq k (fold_left (fun sl s => slice_add A K keq (code s) s sl) l sl) =
    slice_of A K keq k sl ++ filter (fun s => keq k (code s)) l.
  Proof.
    intros l; induction l as [|s l IH]; intros sl k; simpl.
    - rewrite app_nil_r; reflexivity.
    - rewrite IH, slice_of_add. destruct (keq k (code s)); [rewrite <- app_assoc|]; reflexivity.
  Qed.
  Theorem distribute_slices : forall l k,
    slice_of A K keq k (distribute A K keq code l) = filter (fun s => keq k (code s)) l.
  Proof. intros; unfold distribute; rewrite distribute_fold; reflexivity. Qed.
  Theorem route_exactly_one : forall l s, In s l ->
    In s (slice_of A K keq (code s) (distribute A K keq code l)) /\
    (forall k, In s (slice_of A K keq k (distribute A K keq code l)) -> k = code s).
  Proof.
    intros l s Hs. split.
    - rewrite distribute_slices. apply filter_In; split; [exact Hs|apply keq_refl].
    - intros k Hk. rewrite distribute_slices in Hk. apply filter_In in Hk. apply keq_eq; tauto.
  Qed.
End DistProofs.

(** * obiannotate: the chain of workers *)
Definition out (w : option worker) (r : arec) : list arec :=
  match w with
  | None => [r]
  | Some f => match f r with Some l => l | None => [] end
  end.
Definition olist (x : option arec) : list arec := match x with Some r => [r] | None => [] end.

Lemma chain_out : forall a b (g g2 : arec -> option arec),
  (forall r, out a r = olist (g r)) -> (forall r, out b r = olist (g2 r)) ->
  forall r, out (chain a b) r = olist (obind (g r) g2).
Proof.
  intros a b g g2 Ha Hb r. destruct a as [fa|]; destruct b as [fb|]; simpl.
  - specialize (Ha r); simpl in Ha. destruct (fa r) as [l|].
    + destruct (g r) as [r'|]; simpl in Ha; subst l; simpl; [|reflexivity].
      specialize (Hb r'); simpl in Hb. rewrite app_nil_r. exact Hb.
    + destruct (g r); simpl in Ha; [discriminate|reflexivity].
  - specialize (Ha r); simpl in Ha. rewrite Ha. destruct (g r) as [r'|]; simpl; [|reflexivity].
    specialize (Hb r'); simpl in Hb. exact Hb.
  - specialize (Ha r); simpl in Ha. destruct (g r) as [r'|]; simpl in Ha; [|discriminate].
    injection Ha as Ha; subst r'. simpl. exact (Hb r).
  - specialize (Ha r); simpl in Ha. destruct (g r) as [r'|]; simpl in Ha; [|discriminate].
    injection Ha as Ha; subst r'. simpl. exact (Hb r).
Qed.
Lemma out_none : forall r, out None r = olist (Some r).
Proof. reflexivity. Qed.
Lemma out_pure : forall f r, out (Some (fun r => Some [f r])) r = olist (Some (f r)).
Proof. reflexivity. Qed.

Lemma set_attrs_id : forall r, set_attrs r (rattrs r) = r.
Proof. intros [i a s]; reflexivity. Qed.

Section AnnotProofs.
  Variable VEXPR : Type.
  Variable eval_val : VEXPR -> arec -> option aval.
  Notation aopts := (aopts VEXPR).
  Notation impl_worker := (impl_worker VEXPR eval_val).
  Notation impl_annot := (impl_annot VEXPR eval_val).
  Notation spec_annot := (spec_annot VEXPR eval_val).
  Notation e_settag := (e_settag VEXPR eval_val).
  Notation e_setid := (e_setid VEXPR eval_val).

  Lemma out_partial : forall (f : arec -> option arec) r, out (Some (partial f)) r = olist (f r).
  Proof. intros f r; unfold out, partial. destruct (f r); reflexivity. Qed.
  Lemma out_pure' : forall f r, out (Some (pure f)) r = olist (Some (f r)).
  Proof. reflexivity. Qed.

  Lemma eval_attr_fold : forall l w g, (forall r, out w r = olist (g r)) ->
    forall r, out (fold_left (fun w ke => chain w (Some (partial (e_settag ke)))) l w) r =
              olist (fold_left (fun x ke => obind x (e_settag ke)) l (g r)).
  Proof.
    intros l; induction l as [|ke l IH]; intros w g Hw r; simpl.
    - apply Hw.
    - apply (IH _ (fun r => obind (g r) (e_settag ke))).
      intros r0. apply chain_out; [exact Hw|]. intros r1; apply out_partial.
  Qed.

  (** a step of CLIAnnotationWorker: `if requested { annotator = annotator.ChainWorkers(w) }` *)
  Definition step (c : bool) (g : arec -> option arec) (g2 : arec -> option arec) : arec -> option arec :=
    fun r => if c then obind (g r) g2 else g r.

  Theorem annot_exact : forall (o : aopts) r, impl_annot o r = olist (spec_annot o r).
  Proof.
    intros o r.
    assert (H : forall r, out (impl_worker o) r = olist (spec_annot o r)).
    { clear r. unfold Model.impl_worker, Model.spec_annot.
      set (g1 := fun r : arec => Some (if aclear _ o then e_clear r else r)).
      assert (H1 : forall r, out (if aclear _ o then chain None (Some (pure e_clear)) else None) r = olist (g1 r)).
      { intros r; unfold g1; destruct (aclear _ o); reflexivity. }
      revert H1. generalize (if aclear _ o then chain None (Some (pure e_clear)) else None) as a1. intros a1 H1.
      set (g2 := fun r => obind (g1 r) (fun r => match asetid _ o with Some e => e_setid e r | None => Some r end)).
      assert (H2 : forall r, out (match asetid _ o with Some e => chain a1 (Some (partial (e_setid e))) | None => a1 end) r = olist (g2 r)).
      { intros r; unfold g2. destruct (asetid _ o) as [e|].
        - apply chain_out; [exact H1|]. intros r0; apply out_partial.
        - rewrite H1. destruct (g1 r); reflexivity. }
      revert H2. generalize (match asetid _ o with Some e => chain a1 (Some (partial (e_setid e))) | None => a1 end) as a2. intros a2 H2.
      set (g3 := fun r => obind (g2 r) (fun r => Some (e_delete (adelete _ o) r))).
      assert (H3 : forall r, out (match adelete _ o with [] => a2 | ks => chain a2 (Some (pure (e_delete ks))) end) r = olist (g3 r)).
      { intros r; unfold g3. destruct (adelete _ o) as [|k ks] eqn:E.
        - rewrite H2. destruct (g2 r) as [x|]; simpl; [|reflexivity]. unfold e_delete; simpl. rewrite set_attrs_id; reflexivity.
        - apply chain_out; [exact H2|]. intros r0; reflexivity. }
      revert H3. generalize (match adelete _ o with [] => a2 | ks => chain a2 (Some (pure (e_delete ks))) end) as a3. intros a3 H3.
      set (g4 := fun r => obind (g3 r) (fun r => Some (match akeep _ o with [] => r | ks => e_keep ks r end))).
      assert (H4 : forall r, out (match akeep _ o with [] => a3 | ks => chain a3 (Some (pure (e_keep ks))) end) r = olist (g4 r)).
      { intros r; unfold g4. destruct (akeep _ o) as [|k ks] eqn:E.
        - rewrite H3. destruct (g3 r); reflexivity.
        - apply chain_out; [exact H3|]. intros r0; reflexivity. }
      revert H4. generalize (match akeep _ o with [] => a3 | ks => chain a3 (Some (pure (e_keep ks))) end) as a4. intros a4 H4.
      set (g5 := fun r => obind (g4 r) (fun r => Some (e_rename (arename _ o) r))).
      assert (H5 : forall r, out (match arename _ o with [] => a4 | l => chain a4 (Some (pure (e_rename l))) end) r = olist (g5 r)).
      { intros r; unfold g5. destruct (arename _ o) as [|k ks] eqn:E.
        - rewrite H4. destruct (g4 r) as [x|]; simpl; [|reflexivity]. unfold e_rename; simpl. rewrite set_attrs_id; reflexivity.
        - apply chain_out; [exact H4|]. intros r0; reflexivity. }
      revert H5. generalize (match arename _ o with [] => a4 | l => chain a4 (Some (pure (e_rename l))) end) as a5. intros a5 H5.
      set (g6 := fun r => obind (g5 r) (fun r => Some (if alength _ o then e_length r else r))).
      assert (H6 : forall r, out (if alength _ o then chain a5 (Some (pure e_length)) else a5) r = olist (g6 r)).
      { intros r; unfold g6. destruct (alength _ o).
        - apply chain_out; [exact H5|]. intros r0; reflexivity.
        - rewrite H5. destruct (g5 r); reflexivity. }
      revert H6. generalize (if alength _ o then chain a5 (Some (pure e_length)) else a5) as a6. intros a6 H6.
      set (g7 := fun r => obind (g6 r) (fun r => fold_left (fun x ke => obind x (e_settag ke)) (asettag _ o) (Some r))).
      assert (H7 : forall r, out (match asettag _ o with [] => a6 | l => chain a6 (eval_attr_worker VEXPR eval_val l) end) r = olist (g7 r)).
      { intros r; unfold g7. destruct (asettag _ o) as [|k ks] eqn:E.
        - rewrite H6. destruct (g6 r); reflexivity.
        - apply chain_out; [exact H6|]. intros r0. unfold eval_attr_worker.
          apply (eval_attr_fold (k :: ks) None Some). intros; reflexivity. }
      revert H7. generalize (match asettag _ o with [] => a6 | l => chain a6 (eval_attr_worker VEXPR eval_val l) end) as a7. intros a7 H7.
      intros r.
      assert (H8 : out (match has_cut VEXPR o with Some (f, t) => chain a7 (Some (partial (e_cut f t))) | None => a7 end) r =
                   olist (obind (g7 r) (fun r => match has_cut VEXPR o with Some (f, t) => e_cut f t r | None => Some r end))).
      { destruct (has_cut VEXPR o) as [[f t]|].
        - apply chain_out; [exact H7|]. intros r0; apply out_partial.
        - rewrite H7. destruct (g7 r); reflexivity. }
      rewrite H8. unfold g7, g6, g5, g4, g3, g2, g1. simpl.
      destruct (asetid _ o) as [e|]; simpl.
      - destruct (e_setid e (if aclear _ o then e_clear r else r)); reflexivity.
      - reflexivity. }
    unfold Model.impl_annot. specialize (H r). unfold out in H. exact H.
  Qed.
End AnnotProofs.

(** * which option sets give the nil predicate *)
Lemma p_and_none : forall a b, p_and a b = None <-> a = None /\ b = None.
Proof. intros [f|] [g|]; simpl; split; intros H; try discriminate; try tauto; destruct H; discriminate. Qed.
Lemma fold_and_some : forall A (mk : A -> pred) t f, fold_left (fun p y => p_and p (Some (mk y))) t (Some f) <> None.
Proof. intros A mk t; induction t as [|x t IH]; intros f; simpl; [discriminate|apply IH]. Qed.
Lemma fold_or_some' : forall A (mk : A -> pred) t f, fold_left (fun p y => p_or p (Some (mk y))) t (Some f) <> None.
Proof. intros A mk t; induction t as [|x t IH]; intros f; simpl; [discriminate|apply IH]. Qed.
Lemma chain_and_none : forall A (mk : A -> pred) l, chain_and mk l = None <-> nonempty l = false.
Proof.
  intros A mk [|x t]; simpl; split; intros H; try reflexivity; try discriminate.
  exfalso; exact (fold_and_some A mk t _ H).
Qed.
Lemma chain_or_none : forall A (mk : A -> pred) l, chain_or mk l = None <-> nonempty l = false.
Proof.
  intros A mk [|x t]; simpl; split; intros H; try reflexivity; try discriminate.
  exfalso; exact (fold_or_some' A mk t _ H).
Qed.

Section Eff.
  Variables RE EXPR APAT TAXQ : Type.
  Variable re_match : bool -> RE -> string -> bool.
  Variable eval_bool : EXPR -> arec -> bool.
  Variable approx_match : APAT -> arec -> bool.
  Variable tax_pred : TAXQ -> arec -> bool.
  Notation gopts := (gopts RE EXPR APAT TAXQ).

  Lemma size_none : forall (o : gopts), size_pred RE EXPR APAT TAXQ o = None <->
    (1 <? minlen _ _ _ _ o) || negb (maxlen _ _ _ _ o =? SENT) = false.
  Proof.
    intros o; unfold size_pred. destruct (1 <? minlen _ _ _ _ o); destruct (maxlen _ _ _ _ o =? SENT); simpl; split; intros H; try discriminate; reflexivity.
  Qed.
  Lemma count_none : forall (o : gopts), count_pred RE EXPR APAT TAXQ o = None <->
    (1 <? mincount _ _ _ _ o) || negb (maxcount _ _ _ _ o =? SENT) = false.
  Proof.
    intros o; unfold count_pred. destruct (1 <? mincount _ _ _ _ o); destruct (maxcount _ _ _ _ o =? SENT); simpl; split; intros H; try discriminate; reflexivity.
  Qed.
  Lemma tax_none : forall (o : gopts), tax_filter RE EXPR APAT TAXQ tax_pred o = None <->
    nonempty (ranks _ _ _ _ o) || nonempty (belong _ _ _ _ o) || nonempty (avoid _ _ _ _ o) = false.
  Proof.
    intros o; unfold tax_filter. rewrite !p_and_none, chain_and_none, chain_or_none.
    destruct (avoid _ _ _ _ o) as [|x t] eqn:E.
    - simpl. rewrite orb_false_r, orb_false_iff. tauto.
    - split.
      + intros [_ H]. exfalso. destruct (chain_or tax_pred (x :: t)) eqn:E2; [discriminate|].
        apply chain_or_none in E2; discriminate.
      + intros H. rewrite !orb_false_iff in H. simpl in H. destruct H as [_ H]; discriminate.
  Qed.
  Lemma attrs_none : forall (o : gopts), attrs_pred RE EXPR APAT TAXQ re_match o = None <-> nonempty (attrpats _ _ _ _ o) = false.
  Proof.
    intros o; unfold attrs_pred. destruct (attrpats _ _ _ _ o) as [|x t]; simpl; split; intros H; try reflexivity; try discriminate.
    exfalso; exact (fold_and_some _ _ t _ H).
  Qed.
  Lemma idlist_none : forall (o : gopts), idlist_pred RE EXPR APAT TAXQ o = None <->
    (match idlist _ _ _ _ o with None => false | Some _ => true end) = false.
  Proof. intros o; unfold idlist_pred. destruct (idlist _ _ _ _ o); split; intros H; try discriminate; reflexivity. Qed.

  Theorem impl_base_none_iff : forall (o : gopts),
    impl_base RE EXPR APAT TAXQ re_match eval_bool approx_match tax_pred o = None <-> effective RE EXPR APAT TAXQ o = false.
  Proof.
    intros o. unfold impl_base, effective.
    rewrite !p_and_none, size_none, count_none, tax_none, attrs_none, idlist_none, !chain_and_none.
    rewrite !orb_false_iff. tauto.
  Qed.
End Eff.

Theorem grep_invert_nil_witness :
  exists (o : cgopts) (r : arec), invert _ _ _ _ o = true /\ wf_rec r /\
    c_spec_sel o r = false /\ holds (c_impl_pred o) r = true.
Proof.
  exists (mkg 1 SENT 1 SENT [] [] [] [] [] [] None true MForward [] [] []), (mkr "w1" [("count", VI 6)] "acgtacgtac").
  unfold wf_rec. vm_compute. intuition discriminate.
Qed.

(** * edits leave the rest of the record unchanged *)
Lemma lookup_remove_ne : forall k k' a, String.eqb k k' = false -> lookup k (remove_key k' a) = lookup k a.
Proof.
  intros k k' a Hne; induction a as [|[k2 v] t IH]; simpl; [reflexivity|].
  destruct (String.eqb k' k2) eqn:E.
  - apply String.eqb_eq in E; subst k2. rewrite Hne. exact IH.
  - simpl. destruct (String.eqb k k2); [reflexivity|exact IH].
Qed.
Lemma lookup_set_ne : forall k k' v a, String.eqb k k' = false -> lookup k (set_key k' v a) = lookup k a.
Proof.
  intros k k' v a Hne; induction a as [|[k2 v2] t IH]; simpl.
  - rewrite Hne; reflexivity.
  - destruct (String.eqb k' k2) eqn:E.
    + apply String.eqb_eq in E; subst k2. simpl. rewrite Hne. reflexivity.
    + simpl. destruct (String.eqb k k2); [reflexivity|exact IH].
Qed.
Lemma mem_str_false_cons : forall k x t, mem_str k (x :: t) = false -> String.eqb k x = false /\ mem_str k t = false.
Proof. intros k x t H; unfold mem_str in *; simpl in H. apply orb_false_iff in H; exact H. Qed.
Lemma lookup_delete_fold : forall ks k a, mem_str k ks = false ->
  lookup k (fold_left (fun a k' => remove_key k' a) ks a) = lookup k a.
Proof.
  intros ks; induction ks as [|x t IH]; intros k a H; simpl; [reflexivity|].
  apply mem_str_false_cons in H; destruct H as [H1 H2]. rewrite IH by exact H2. apply lookup_remove_ne; exact H1.
Qed.
Lemma lookup_keep : forall ks k a, mem_str k ks = true ->
  lookup k (filter (fun kv : string * aval => mem_str (fst kv) ks) a) = lookup k a.
Proof.
  intros ks k a H; induction a as [|[k2 v] t IH]; simpl; [reflexivity|].
  destruct (mem_str k2 ks) eqn:E; simpl.
  - destruct (String.eqb k k2); [reflexivity|exact IH].
  - destruct (String.eqb k k2) eqn:E2; [|exact IH].
    apply String.eqb_eq in E2; subst k2. congruence.
Qed.
Lemma lookup_rename1 : forall k no a, String.eqb k (fst no) = false -> String.eqb k (snd no) = false ->
  lookup k (rename1 a no) = lookup k a.
Proof.
  intros k [n o] a H1 H2; unfold rename1; simpl in *. destruct (lookup o a); [|reflexivity].
  rewrite lookup_remove_ne by exact H2. apply lookup_set_ne; exact H1.
Qed.
Lemma lookup_rename_fold : forall l k a,
  existsb (fun no : string * string => String.eqb k (fst no) || String.eqb k (snd no)) l = false ->
  lookup k (fold_left rename1 l a) = lookup k a.
Proof.
  intros l; induction l as [|x t IH]; intros k a H; simpl; [reflexivity|].
  simpl in H. apply orb_false_iff in H; destruct H as [H1 H2]. apply orb_false_iff in H1; destruct H1 as [Ha Hb].
  rewrite IH by exact H2. apply lookup_rename1; assumption.
Qed.

Section Untouched.
  Variable VEXPR : Type.
  Variable eval_val : VEXPR -> arec -> option aval.
  Notation aopts := (aopts VEXPR).
  Notation e_settag := (e_settag VEXPR eval_val).
  Notation e_setid := (e_setid VEXPR eval_val).

  Definition touched (o : aopts) (k : string) : bool :=
    mem_str k (adelete _ o) ||
    existsb (fun no : string * string => String.eqb k (fst no) || String.eqb k (snd no)) (arename _ o) ||
    (alength _ o && String.eqb k "seq_length") ||
    existsb (fun ke : string * VEXPR => String.eqb k (fst ke)) (asettag _ o).

  Lemma settag_fold_none : forall l, fold_left (fun x ke => obind x (e_settag ke)) l None = None.
  Proof. intros l; induction l as [|x t IH]; simpl; [reflexivity|exact IH]. Qed.
  Lemma settag_fold : forall l r r' k,
    fold_left (fun x ke => obind x (e_settag ke)) l (Some r) = Some r' ->
    rseq r' = rseq r /\ rid r' = rid r /\
    (existsb (fun ke : string * VEXPR => String.eqb k (fst ke)) l = false -> lookup k (rattrs r') = lookup k (rattrs r)).
  Proof.
    intros l; induction l as [|ke t IH]; intros r r' k H; simpl in H.
    - injection H as H; subst r'. auto.
    - unfold Model.e_settag in H at 2. destruct (eval_val (snd ke) r) as [v|]; simpl in H.
      + destruct (IH _ _ k H) as [Hs [Hi Ha]]. simpl in *. repeat split; try assumption.
        intros Hk. apply orb_false_iff in Hk; destruct Hk as [Hk1 Hk2]. rewrite (Ha Hk2).
        apply lookup_set_ne; exact Hk1.
      + rewrite settag_fold_none in H; discriminate.
  Qed.
  Lemma e_cut_attrs : forall f t r r', e_cut f t r = Some r' -> rattrs r' = rattrs r.
  Proof.
    intros f t r r' H; unfold e_cut in H.
    repeat match type of H with context [if ?c then _ else _] => destruct c end; try discriminate;
    injection H as H; subst r'; reflexivity.
  Qed.
  Lemma e_setid_keeps : forall e r r', e_setid e r = Some r' -> rattrs r' = rattrs r /\ rseq r' = rseq r.
  Proof. intros e r r' H; unfold Model.e_setid in H. destruct (eval_val e r); [|discriminate]. injection H as H; subst r'; auto. Qed.

  (** the record after the edits that precede -S (clear excluded) *)
  Lemma spec_annot_inv : forall (o : aopts) r r', spec_annot VEXPR eval_val o r = Some r' ->
    exists r1 r2 r3,
      (match asetid _ o with Some e => e_setid e (if aclear _ o then e_clear r else r) | None => Some (if aclear _ o then e_clear r else r) end) = Some r1 /\
      r2 = (let x := e_delete (adelete _ o) r1 in
            let x := match akeep _ o with [] => x | ks => e_keep ks x end in
            let x := e_rename (arename _ o) x in
            if alength _ o then e_length x else x) /\
      fold_left (fun x ke => obind x (e_settag ke)) (asettag _ o) (Some r2) = Some r3 /\
      (match has_cut VEXPR o with Some (f, t) => e_cut f t r3 | None => Some r3 end) = Some r'.
  Proof.
    intros o r r' H. unfold Model.spec_annot in H.
    destruct (match asetid _ o with Some e => e_setid e (if aclear _ o then e_clear r else r) | None => Some (if aclear _ o then e_clear r else r) end) as [r1|] eqn:E1; simpl in H; [|discriminate].
    match type of H with obind ?x _ = _ => destruct x as [r3|] eqn:E3 end; simpl in H; [|discriminate].
    exists r1. eexists. exists r3. split; [reflexivity|]. split; [reflexivity|]. split; [exact E3|exact H].
  Qed.

  Theorem annot_untouched : forall (o : aopts) r r' k,
    spec_annot VEXPR eval_val o r = Some r' ->
    aclear _ o = false -> (akeep _ o = [] \/ mem_str k (akeep _ o) = true) -> touched o k = false ->
    lookup k (rattrs r') = lookup k (rattrs r).
  Proof.
    intros o r r' k H Hc Hk Ht. destruct (spec_annot_inv o r r' H) as [r1 [r2 [r3 [E1 [E2 [E3 E4]]]]]].
    unfold touched in Ht. rewrite !orb_false_iff in Ht. destruct Ht as [[[Td Tr] Tl] Ts].
    rewrite Hc in E1.
    assert (A1 : rattrs r1 = rattrs r).
    { destruct (asetid _ o) as [e|]; [apply (e_setid_keeps e r r1 E1)|injection E1 as E1; subst; reflexivity]. }
    assert (A3 : lookup k (rattrs r3) = lookup k (rattrs r2)) by (apply (settag_fold _ _ _ k E3); exact Ts).
    assert (A4 : rattrs r' = rattrs r3).
    { destruct (has_cut VEXPR o) as [[f t]|]; [apply (e_cut_attrs f t r3 r' E4)|injection E4 as E4; subst; reflexivity]. }
    rewrite A4, A3, <- A1. subst r2. cbv zeta.
    assert (B : forall x, lookup k (rattrs (if alength _ o then e_length x else x)) = lookup k (rattrs x)).
    { intros x. destruct (alength _ o); [|reflexivity]. simpl in Tl. unfold e_length; simpl. apply lookup_set_ne; exact Tl. }
    rewrite B. unfold e_rename; simpl. rewrite lookup_rename_fold by exact Tr.
    assert (C : forall x, lookup k (rattrs (match akeep _ o with [] => x | ks => e_keep ks x end)) = lookup k (rattrs x)).
    { intros x. destruct Hk as [Hk|Hk]; [rewrite Hk; reflexivity|].
      destruct (akeep _ o) as [|a b] eqn:E; [reflexivity|]. unfold e_keep, set_attrs; cbn [rattrs]. apply lookup_keep; exact Hk. }
    rewrite C. unfold e_delete; simpl. apply lookup_delete_fold; exact Td.
  Qed.

  Theorem annot_seq_id_untouched : forall (o : aopts) r r',
    spec_annot VEXPR eval_val o r = Some r' -> has_cut VEXPR o = None ->
    rseq r' = rseq r /\ (asetid _ o = None -> rid r' = rid r).
  Proof.
    intros o r r' H Hc. destruct (spec_annot_inv o r r' H) as [r1 [r2 [r3 [E1 [E2 [E3 E4]]]]]].
    rewrite Hc in E4. injection E4 as E4; subst r3.
    destruct (settag_fold _ _ _ "" E3) as [S3 [I3 _]].
    assert (S2 : rseq r2 = rseq r1 /\ rid r2 = rid r1).
    { subst r2. cbv zeta. destruct (alength _ o); destruct (akeep _ o); simpl; auto. }
    destruct S2 as [S2 I2]. rewrite S3, S2, I3, I2. split.
    - destruct (asetid _ o) as [e|].
      + destruct (e_setid_keeps e _ _ E1) as [_ Hs]. rewrite Hs. destruct (aclear _ o); reflexivity.
      + injection E1 as E1; subst r1. destruct (aclear _ o); reflexivity.
    - intros Hn. rewrite Hn in E1. injection E1 as E1; subst r1. destruct (aclear _ o); reflexivity.
  Qed.
End Untouched.

(** * --cut from:to (from > 0): bases from..t, 1-based inclusive, with t = min(to, length) for to > 0 and
    t = length + to + 1 for to < 0 (-1 = last base); a function of the record alone; None = record discarded *)
Definition cut_end (to L : Z) : Z := if 0 <? to then Z.min to L else L + to + 1.
Definition cut_spec (from to : Z) (r : arec) : option arec :=
  let t := cut_end to (rlen r) in
  if from <=? t then
    Some (mkr (append (rid r) (append "_sub[" (append (show_Z from) (append ".." (append (show_Z t) "]")))))
              (rattrs r)
              (String.substring (Z.to_nat (from - 1)) (Z.to_nat (t - from + 1)) (rseq r)))
  else None.
Theorem cut_positive : forall from to r, 0 < from -> to <> 0 -> e_cut from to r = cut_spec from to r.
Proof.
  intros from to r Hf Ht. unfold e_cut, cut_spec. cbv zeta.
  assert (HL : 0 <= rlen r) by (unfold rlen; lia).
  assert (H1 : (0 <? from) = true) by (apply Z.ltb_lt; lia). rewrite H1.
  set (f0 := from - 1).
  assert (E1 : (if f0 <? 0 then rlen r + f0 + 1 else if 0 <? f0 then f0 else 0) = f0).
  { destruct (f0 <? 0) eqn:E; [apply Z.ltb_lt in E; unfold f0 in E; lia|].
    destruct (0 <? f0) eqn:E2; [reflexivity|]. apply Z.ltb_ge in E2; apply Z.ltb_ge in E; lia. }
  rewrite E1.
  assert (E3 : (if f0 <? 0 then 0 else f0) = f0).
  { destruct (f0 <? 0) eqn:E; [apply Z.ltb_lt in E; unfold f0 in E; lia|reflexivity]. }
  rewrite E3.
  assert (E4 : (let t0 := if to <? 0 then rlen r + to + 1 else if 0 <? to then to else 0 in
                if rlen r <=? t0 then rlen r else t0) = cut_end to (rlen r)).
  { unfold cut_end. cbv zeta. destruct (to <? 0) eqn:E.
    - apply Z.ltb_lt in E. replace (0 <? to) with false by (symmetry; apply Z.ltb_ge; lia).
      destruct (rlen r <=? rlen r + to + 1) eqn:E5; [apply Z.leb_le in E5; lia|reflexivity].
    - apply Z.ltb_ge in E. replace (0 <? to) with true by (symmetry; apply Z.ltb_lt; lia).
      destruct (rlen r <=? to) eqn:E5; [apply Z.leb_le in E5; lia|apply Z.leb_gt in E5; lia]. }
  cbv zeta in E4. rewrite E4. set (t := cut_end to (rlen r)).
  assert (Ht' : t <= rlen r) by (unfold t, cut_end; destruct (0 <? to) eqn:E9; [lia|apply Z.ltb_ge in E9; lia]).
  destruct (from <=? t) eqn:E.
  - apply Z.leb_le in E.
    replace (t <=? f0) with false by (symmetry; apply Z.leb_gt; unfold f0; lia).
    replace (f0 <? 0) with false by (symmetry; apply Z.ltb_ge; unfold f0; lia).
    replace (rlen r <=? f0) with false by (symmetry; apply Z.leb_gt; unfold f0; lia).
    replace (rlen r <? t) with false by (symmetry; apply Z.ltb_ge; lia).
    replace (f0 + 1) with from by (unfold f0; lia).
    replace (t - f0) with (t - from + 1) by (unfold f0; lia). reflexivity.
  - apply Z.leb_gt in E.
    replace (t <=? f0) with true by (symmetry; apply Z.leb_le; unfold f0; lia). reflexivity.
Qed.
