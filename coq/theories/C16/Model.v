(** C16 — executable model of the option layer of obigrep / obiannotate / obidistribute.
    Definitions only (no proofs).  Transcribed from
      pkg/obitools/obigrep/options.go   (CLI*Predicate builders, CLISequenceSelectionPredicate)
      pkg/obiseq/predicate.go           (And / Or / Not / PairedPredicat, nil = "no constraint")
      pkg/obitools/obiannotate/obiannotate.go (CLIAnnotationWorker, the workers, CutSequenceWorker)
      pkg/obiseq/worker.go              (ChainWorkers, SeqToSliceWorker with breakOnError = false)
      pkg/obiiter/distribute.go, batchiterator.go (Distribute, DivideOn loops).
    External components (Go regexp, gval, apat, taxonomy) are Section variables. *)
From Coq Require Import ZArith List String Ascii Bool.
Import ListNotations.
Open Scope string_scope.
Open Scope list_scope.
Open Scope Z_scope.

(** * Records *)
Inductive aval := VS (s : string) | VI (z : Z).
Record arec := mkr { rid : string; rattrs : list (string * aval); rseq : string }.

Fixpoint lookup (k : string) (l : list (string * aval)) : option aval :=
  match l with
  | [] => None
  | (k', v) :: t => if String.eqb k k' then Some v else lookup k t
  end.
Fixpoint remove_key (k : string) (l : list (string * aval)) : list (string * aval) :=
  match l with
  | [] => []
  | (k', v) :: t => if String.eqb k k' then remove_key k t else (k', v) :: remove_key k t
  end.
(** annot[key] = value *)
Fixpoint set_key (k : string) (v : aval) (l : list (string * aval)) : list (string * aval) :=
  match l with
  | [] => [(k, v)]
  | (k', v') :: t => if String.eqb k k' then (k, v) :: t else (k', v') :: set_key k v t
  end.
Definition has_key (k : string) (l : list (string * aval)) : bool :=
  match lookup k l with Some _ => true | None => false end.
Definition mem_str (k : string) (l : list string) : bool := existsb (String.eqb k) l.

(** decimal rendering (fmt.Sprint of an int) *)
Fixpoint show_N_fuel (fuel : nat) (n : N) (acc : string) : string :=
  match fuel with
  | O => acc
  | S f =>
    let acc' := String (ascii_of_N (48 + N.modulo n 10)) acc in
    if N.eqb (N.div n 10) 0 then acc' else show_N_fuel f (N.div n 10) acc'
  end.
Definition show_N (n : N) : string := show_N_fuel (S (N.size_nat n)) n "".
Definition show_Z (z : Z) : string :=
  match z with
  | Z0 => "0"
  | Zpos p => show_N (Npos p)
  | Zneg p => append "-" (show_N (Npos p))
  end.
Definition show_val (v : aval) : string := match v with VS s => s | VI z => show_Z z end.

Definition rlen (r : arec) : Z := Z.of_nat (String.length (rseq r)).
(** BioSequence.Count(): the int attribute "count", 1 when absent *)
Definition rcount (r : arec) : Z := match lookup "count" (rattrs r) with Some (VI z) => z | _ => 1 end.
(** BioSequence.Definition(): attribute "definition" as a string, "" when absent *)
Definition rdef (r : arec) : string := match lookup "definition" (rattrs r) with Some v => show_val v | None => "" end.

(** * Predicates (pkg/obiseq/predicate.go): nil is [None] *)
Definition pred := arec -> bool.
Definition p_and (a b : option pred) : option pred :=
  match a, b with
  | None, _ => b
  | _, None => a
  | Some f, Some g => Some (fun r => if negb (f r) then false else g r)
  end.
Definition p_or (a b : option pred) : option pred :=
  match a, b with
  | None, _ => b
  | _, None => a
  | Some f, Some g => Some (fun r => if f r then true else g r)
  end.
Definition p_not (a : option pred) : option pred :=
  match a with None => None | Some f => Some (fun r => negb (f r)) end.
Definition holds (p : option pred) (r : arec) : bool := match p with None => true | Some f => f r end.

(** `if len(l) > 0 { p := mk(l[0]); for x in l[1:] { p = p.And(mk(x)) }; return p }; return nil` *)
Definition chain_and {A} (mk : A -> pred) (l : list A) : option pred :=
  match l with
  | [] => None
  | x :: t => fold_left (fun p y => p_and p (Some (mk y))) t (Some (mk x))
  end.
Definition chain_or {A} (mk : A -> pred) (l : list A) : option pred :=
  match l with
  | [] => None
  | x :: t => fold_left (fun p y => p_or p (Some (mk y))) t (Some (mk x))
  end.

Inductive pmode := MForward | MReverse | MAnd | MOr | MAndNot | MXor.
Definition pmode_eqb (a b : pmode) : bool :=
  match a, b with
  | MForward, MForward | MReverse, MReverse | MAnd, MAnd | MOr, MOr | MAndNot, MAndNot | MXor, MXor => true
  | _, _ => false
  end.
(** PairedPredicat: a record with its mate (None = not paired) *)
Definition paired_pred (mode : pmode) (p : option pred) : option (arec -> option arec -> bool) :=
  match p with
  | None => None
  | Some f => Some (fun r m =>
      let good := f r in
      match m with
      | Some mate =>
        if negb (pmode_eqb mode MForward) then
          let pgood := f mate in
          match mode with
          | MReverse => pgood
          | MAnd => good && pgood
          | MOr => good || pgood
          | MAndNot => good && negb pgood
          | MXor => (good || pgood) && negb (good && pgood)
          | MForward => good
          end
        else good
      | None => good
      end)
  end.
Definition holds2 (p : option (arec -> option arec -> bool)) (r : arec) (m : option arec) : bool :=
  match p with None => true | Some f => f r m end.

Definition SENT : Z := 2000000000.   (* int(2e9) *)

Section Grep.
  (** external matchers *)
  Variables RE EXPR APAT TAXQ : Type.
  Variable re_match : bool -> RE -> string -> bool.     (* Go regexp; true = "(?i)" prefixed *)
  Variable eval_bool : EXPR -> arec -> bool.             (* gval EvalBool on {annotations, sequence} *)
  Variable approx_match : APAT -> arec -> bool.          (* obiapat.IsPatternMatchSequence *)
  Variable tax_pred : TAXQ -> arec -> bool.              (* IsSubCladeOf / IsSubCladeOfSlot / HasRequiredRank *)

  Record gopts := MkG {
    minlen : Z; maxlen : Z; mincount : Z; maxcount : Z;
    seqpats : list RE; defpats : list RE; idpats : list RE;
    preds : list EXPR; reqattrs : list string; attrpats : list (string * RE);
    idlist : option (list string);            (* None: --id-list not given *)
    invert : bool; pairmode : pmode;
    approx : list APAT; ranks : list TAXQ; belong : list TAXQ; avoid : list TAXQ }.

  (** CLISequenceSizePredicate *)
  Definition size_pred (o : gopts) : option pred :=
    if 1 <? minlen o then
      let p : option pred := Some (fun r => minlen o <=? rlen r) in
      if negb (maxlen o =? SENT) then p_and p (Some (fun r => rlen r <=? maxlen o)) else p
    else if negb (maxlen o =? SENT) then Some (fun r => rlen r <=? maxlen o)
    else None.
  (** CLISequenceCountPredicate (after fix 30a16a9: the second guard tests _MaximumCount) *)
  Definition count_pred (o : gopts) : option pred :=
    if 1 <? mincount o then
      let p : option pred := Some (fun r => mincount o <=? rcount r) in
      if negb (maxcount o =? SENT) then p_and p (Some (fun r => rcount r <=? maxcount o)) else p
    else if negb (maxcount o =? SENT) then Some (fun r => rcount r <=? maxcount o)
    else None.
  (** CLITaxonomyFilterPredicate = HasRank.And(Restrict).And(Avoid) *)
  Definition tax_filter (o : gopts) : option pred :=
    p_and (p_and (chain_and tax_pred (ranks o)) (chain_or tax_pred (belong o)))
          (match avoid o with [] => None | _ => p_not (chain_or tax_pred (avoid o)) end).
  Definition attr_match (kp : string * RE) : pred :=
    fun r => match lookup (fst kp) (rattrs r) with
             | Some v => re_match false (snd kp) (show_val v)
             | None => false
             end.
  (** CLIIsAttibuteMatchPredicate: p := nil; for k, pat := range map { p = p.And(...) } *)
  Definition attrs_pred (o : gopts) : option pred :=
    match attrpats o with
    | [] => None
    | l => fold_left (fun p kp => p_and p (Some (attr_match kp))) l None
    end.
  Definition idlist_pred (o : gopts) : option pred :=
    match idlist o with
    | None => None
    | Some ids => Some (fun r => mem_str (rid r) ids)
    end.

  (** CLISequenceSelectionPredicate without the -v step *)
  Definition impl_base (o : gopts) : option pred :=
    let p := size_pred o in
    let p := p_and p (count_pred o) in
    let p := p_and p (tax_filter o) in
    let p := p_and p (chain_and eval_bool (preds o)) in
    let p := p_and p (chain_and (fun pt r => re_match true pt (rseq r)) (seqpats o)) in
    let p := p_and p (chain_and (fun pt r => re_match false pt (rdef r)) (defpats o)) in
    let p := p_and p (chain_and (fun pt r => re_match false pt (rid r)) (idpats o)) in
    let p := p_and p (idlist_pred o) in
    let p := p_and p (chain_and (fun k r => has_key k (rattrs r)) (reqattrs o)) in
    let p := p_and p (attrs_pred o) in
    p_and p (chain_and approx_match (approx o)).
  Definition impl_pred (o : gopts) : option pred :=
    if invert o then p_not (impl_base o) else impl_base o.
  (** CLIFilterSequence with a paired file: predicate.PairedPredicat(CLIPairedReadMode()) *)
  Definition impl_paired (o : gopts) : option (arec -> option arec -> bool) :=
    paired_pred (pairmode o) (impl_pred o).

  (** the statement: conjunction of the requested criteria *)
  Definition spec_pred (o : gopts) (r : arec) : bool :=
    (minlen o <=? rlen r) && (rlen r <=? maxlen o) &&
    (mincount o <=? rcount r) && (rcount r <=? maxcount o) &&
    forallb (fun q => tax_pred q r) (ranks o) &&
    (match belong o with [] => true | l => existsb (fun q => tax_pred q r) l end) &&
    negb (existsb (fun q => tax_pred q r) (avoid o)) &&
    forallb (fun e => eval_bool e r) (preds o) &&
    forallb (fun pt => re_match true pt (rseq r)) (seqpats o) &&
    forallb (fun pt => re_match false pt (rdef r)) (defpats o) &&
    forallb (fun pt => re_match false pt (rid r)) (idpats o) &&
    (match idlist o with None => true | Some ids => mem_str (rid r) ids end) &&
    forallb (fun k => has_key k (rattrs r)) (reqattrs o) &&
    forallb (fun kp => attr_match kp r) (attrpats o) &&
    forallb (fun a => approx_match a r) (approx o).
  Definition spec_sel (o : gopts) (r : arec) : bool :=
    if invert o then negb (spec_pred o r) else spec_pred o r.
  (** the six paired modes as Boolean functions of (forward, reverse) *)
  Definition mode_fun (m : pmode) (f p : bool) : bool :=
    match m with
    | MForward => f | MReverse => p | MAnd => f && p | MOr => f || p
    | MAndNot => f && negb p | MXor => xorb f p
    end.
End Grep.

(** * FilterOn / DivideOn (one goroutine, sorted stream): kept and discarded streams *)
Fixpoint divide_loop {A} (p : A -> bool) (l : list A) (t f : list A) : list A * list A :=
  match l with
  | [] => (t, f)
  | s :: l' => if p s then divide_loop p l' (t ++ [s]) f else divide_loop p l' t (f ++ [s])
  end.
Definition divide_on {A} (p : A -> bool) (l : list A) : list A * list A := divide_loop p l [] [].

(** paired run: batches of forward records carry their mates; the reverse file is PairedWith() of the kept batches *)
Definition grep_paired (p : arec -> option arec -> bool) (l : list (arec * arec)) : list arec * list arec :=
  let kept := fst (divide_on (fun fr => p (fst fr) (Some (snd fr))) l) in
  (map fst kept, map snd kept).

(** paired run with --save-discarded: DivideOn on the paired stream; each of the two streams is written as _R1 / _R2 *)
Definition grep_paired_divide (p : arec -> option arec -> bool) (l : list (arec * arec))
  : (list arec * list arec) * (list arec * list arec) :=
  let d := divide_on (fun fr => p (fst fr) (Some (snd fr))) l in
  ((map fst (fst d), map snd (fst d)), (map fst (snd d), map snd (snd d))).

(** * obiannotate *)
Definition worker := arec -> option (list arec).      (* None = the worker returned an error *)
(** SeqToSliceWorker(w, breakOnError=false): records on which w fails are logged and skipped *)
Definition slice_worker (w : worker) (l : list arec) : list arec :=
  flat_map (fun s => match w s with Some r => r | None => [] end) l.
(** SeqWorker.ChainWorkers *)
Definition chain (w next : option worker) : option worker :=
  match w, next with
  | None, _ => next
  | _, None => w
  | Some a, Some b => Some (fun s => match a s with Some l => Some (slice_worker b l) | None => None end)
  end.
Definition set_attrs (r : arec) (a : list (string * aval)) : arec := mkr (rid r) a (rseq r).
Definition set_id (r : arec) (i : string) : arec := mkr i (rattrs r) (rseq r).

Definition e_clear (r : arec) : arec := set_attrs r [].
Definition e_delete (ks : list string) (r : arec) : arec :=
  set_attrs r (fold_left (fun a k => remove_key k a) ks (rattrs r)).
Definition e_keep (ks : list string) (r : arec) : arec :=
  set_attrs r (filter (fun kv => mem_str (fst kv) ks) (rattrs r)).
(** RenameAttribute(new, old): if old is present { set new; delete old } *)
Definition rename1 (a : list (string * aval)) (no : string * string) : list (string * aval) :=
  match lookup (snd no) a with
  | Some v => remove_key (snd no) (set_key (fst no) v a)
  | None => a
  end.
Definition e_rename (l : list (string * string)) (r : arec) : arec := set_attrs r (fold_left rename1 l (rattrs r)).
Definition e_length (r : arec) : arec := set_attrs r (set_key "seq_length" (VI (rlen r)) (rattrs r)).

(** CutSequenceWorker (after fix 7ce2231), from/to as given on the command line; None = Subsequence error *)
Definition e_cut (from to : Z) (r : arec) : option arec :=
  let L := rlen r in
  let from' := if 0 <? from then from - 1 else from in       (* `from--` at construction *)
  let f := if from' <? 0 then L + from' + 1 else if 0 <? from' then from' else 0 in
  let t := if to <? 0 then L + to + 1 else if 0 <? to then to else 0 in
  let f := if f <? 0 then 0 else f in
  let t := if L <=? t then L else t in
  (* BioSequence.Subsequence(f, t, false) *)
  if t <=? f then None
  else if f <? 0 then None
  else if L <=? f then None
  else if L <? t then None
  else Some (mkr (append (rid r) (append "_sub[" (append (show_Z (f + 1)) (append ".." (append (show_Z t) "]"))))) (rattrs r)
                 (String.substring (Z.to_nat f) (Z.to_nat (t - f)) (rseq r))).

Section Annot.
  Variable VEXPR : Type.
  Variable eval_val : VEXPR -> arec -> option aval.     (* gval evaluation; None = evaluation error *)

  Record aopts := MkA {
    aclear : bool; asetid : option VEXPR; adelete : list string; akeep : list string;
    arename : list (string * string); alength : bool; asettag : list (string * VEXPR);
    acut : option (Z * Z) }.

  Definition pure (f : arec -> arec) : worker := fun r => Some [f r].
  (** EditIdWorker / EditAttributeWorker *)
  Definition e_setid (e : VEXPR) (r : arec) : option arec :=
    match eval_val e r with Some v => Some (set_id r (show_val v)) | None => None end.
  Definition e_settag (ke : string * VEXPR) (r : arec) : option arec :=
    match eval_val (snd ke) r with Some v => Some (set_attrs r (set_key (fst ke) v (rattrs r))) | None => None end.
  Definition partial (f : arec -> option arec) : worker :=
    fun r => match f r with Some r' => Some [r'] | None => None end.
  (** EvalAttributeWorker (after fix 96e4bc3): w = nil; for a, e := range map { w = first or w.ChainWorkers(...) } *)
  Definition eval_attr_worker (l : list (string * VEXPR)) : option worker :=
    fold_left (fun w ke => chain w (Some (partial (e_settag ke)))) l None.
  Definition has_cut (o : aopts) : option (Z * Z) :=
    match acut o with
    | Some (f, t) => if negb (f =? 0) && negb (t =? 0) then Some (f, t) else None
    | None => None
    end.

  (** CLIAnnotationWorker: fixed chain clear, set-id, delete, keep, rename, length, -S, cut *)
  Definition impl_worker (o : aopts) : option worker :=
    let a : option worker := None in
    let a := if aclear o then chain a (Some (pure e_clear)) else a in
    let a := match asetid o with Some e => chain a (Some (partial (e_setid e))) | None => a end in
    let a := match adelete o with [] => a | ks => chain a (Some (pure (e_delete ks))) end in
    let a := match akeep o with [] => a | ks => chain a (Some (pure (e_keep ks))) end in
    let a := match arename o with [] => a | l => chain a (Some (pure (e_rename l))) end in
    let a := if alength o then chain a (Some (pure e_length)) else a in
    let a := match asettag o with [] => a | l => chain a (eval_attr_worker l) end in
    match has_cut o with Some (f, t) => chain a (Some (partial (e_cut f t))) | None => a end.
  (** SeqToSliceWorker(worker, false) applied to one record (nil worker: identity) *)
  Definition impl_annot (o : aopts) (r : arec) : list arec :=
    match impl_worker o with
    | None => [r]
    | Some w => match w r with Some l => l | None => [] end
    end.

  (** the statement: every requested edit once, in the documented order; None = record discarded with a warning *)
  Definition obind (x : option arec) (f : arec -> option arec) : option arec :=
    match x with Some r => f r | None => None end.
  Definition spec_annot (o : aopts) (r : arec) : option arec :=
    let r := if aclear o then e_clear r else r in
    obind (match asetid o with Some e => e_setid e r | None => Some r end) (fun r =>
    let r := e_delete (adelete o) r in
    let r := match akeep o with [] => r | ks => e_keep ks r end in
    let r := e_rename (arename o) r in
    let r := if alength o then e_length r else r in
    obind (fold_left (fun x ke => obind x (e_settag ke)) (asettag o) (Some r)) (fun r =>
    match has_cut o with Some (f, t) => e_cut f t r | None => Some r end)).
End Annot.

(** * IBioSequence.Distribute: one goroutine appends every record to the slice of its class *)
Section Dist.
  Variables A K : Type.
  Variable keq : K -> K -> bool.
  Variable code : A -> K.
  Fixpoint slice_add (k : K) (s : A) (sl : list (K * list A)) : list (K * list A) :=
    match sl with
    | [] => [(k, [s])]
    | (k', l) :: t => if keq k k' then (k', l ++ [s]) :: t else (k', l) :: slice_add k s t
    end.
  Definition distribute (l : list A) : list (K * list A) :=
    fold_left (fun sl s => slice_add (code s) s sl) l [].
  Fixpoint slice_of (k : K) (sl : list (K * list A)) : list A :=
    match sl with
    | [] => []
    | (k', l) :: t => if keq k k' then l else slice_of k t
    end.
End Dist.

(** * Concrete instances used by the correspondence (literal / class matcher, tiny expression languages) *)
Inductive atom := ALit (c : string) | ACls (cs : string) | AAny.
Record pat := mkp { pstart : bool; patoms : list atom; pend : bool; pci : bool }.
Definition lower (c : ascii) : ascii :=
  let n := N_of_ascii c in if (N.leb 65 n && N.leb n 90)%bool then ascii_of_N (n + 32) else c.
Definition ceq (ci : bool) (a b : ascii) : bool :=
  if ci then Ascii.eqb (lower a) (lower b) else Ascii.eqb a b.
Fixpoint str_has (ci : bool) (c : ascii) (s : string) : bool :=
  match s with EmptyString => false | String x t => ceq ci x c || str_has ci c t end.
Definition atom_match (ci : bool) (a : atom) (c : ascii) : bool :=
  match a with
  | ALit (String x _) => ceq ci x c
  | ALit EmptyString => false
  | ACls cs => str_has ci c cs
  | AAny => negb (Ascii.eqb c "010"%char)
  end.
Fixpoint match_at (ci : bool) (atoms : list atom) (pe : bool) (s : string) : bool :=
  match atoms with
  | [] => if pe then match s with EmptyString => true | _ => false end else true
  | a :: t => match s with
              | EmptyString => false
              | String c s' => atom_match ci a c && match_at ci t pe s'
              end
  end.
Fixpoint search (ci : bool) (atoms : list atom) (pe : bool) (s : string) : bool :=
  match_at ci atoms pe s ||
  match s with EmptyString => false | String _ s' => search ci atoms pe s' end.
Definition pat_match (ci : bool) (p : pat) (s : string) : bool :=
  let ci := ci || pci p in
  if pstart p then match_at ci (patoms p) (pend p) s else search ci (patoms p) (pend p) s.

Inductive pexpr := PTrue | PFalse | PLenGe (n : Z) | PLenLe (n : Z) | PCountEq (n : Z) | PIdEq (s : string)
  | PHas (k : string) | PAnd (a b : pexpr) | POr (a b : pexpr) | PNot (a : pexpr).
Fixpoint pexpr_eval (e : pexpr) (r : arec) : bool :=
  match e with
  | PTrue => true | PFalse => false
  | PLenGe n => n <=? rlen r | PLenLe n => rlen r <=? n
  | PCountEq n => rcount r =? n
  | PIdEq s => String.eqb (rid r) s
  | PHas k => has_key k (rattrs r)
  | PAnd a b => pexpr_eval a r && pexpr_eval b r
  | POr a b => pexpr_eval a r || pexpr_eval b r
  | PNot a => negb (pexpr_eval a r)
  end.
Inductive vexpr := EInt (z : Z) | EStr (s : string) | ELenPlus (z : Z) | ECountTimes (z : Z) | EId | EIdSuffix (s : string).
Definition vexpr_eval (e : vexpr) (r : arec) : option aval :=
  Some match e with
       | EInt z => VI z | EStr s => VS s | ELenPlus z => VI (rlen r + z) | ECountTimes z => VI (rcount r * z)
       | EId => VS (rid r) | EIdSuffix s => VS (append (rid r) s)
       end.

(** a fixed small taxonomy (the taxdump written by tools/props/c16.py) for the taxonomic restrictions *)
Inductive tq := TSub (t : Z) | TRank (rk : string).
Definition tax_nodes : list (Z * (Z * string)) :=
  [(1, (1, "no rank")); (10, (1, "kingdom")); (11, (1, "kingdom")); (20, (10, "family")); (21, (11, "family"));
   (30, (20, "genus")); (31, (21, "genus")); (40, (30, "species")); (41, (30, "species")); (42, (31, "species"));
   (50, (20, "species"))].
Fixpoint tax_find (x : Z) (l : list (Z * (Z * string))) : option (Z * string) :=
  match l with [] => None | (k, v) :: t => if k =? x then Some v else tax_find x t end.
Fixpoint tpath (fuel : nat) (x : Z) : list (Z * string) :=
  match fuel with
  | O => []
  | S f => match tax_find x tax_nodes with
           | Some (p, rk) => (x, rk) :: (if p =? x then [] else tpath f p)
           | None => []
           end
  end.
(** BioSequence.Taxid(): the int attribute "taxid", 1 (root) when absent *)
Definition rtaxid (r : arec) : Z := match lookup "taxid" (rattrs r) with Some (VI z) => z | _ => 1 end.
Definition ctax (q : tq) (r : arec) : bool :=
  match q with
  | TSub t => existsb (fun n => fst n =? t) (tpath 32 (rtaxid r))
  | TRank rk => existsb (fun n => String.eqb (snd n) rk) (tpath 32 (rtaxid r))
  end.

Definition cgopts := gopts pat pexpr unit tq.
Definition mkg (minl maxl minc maxc : Z) (sp dp ip : list pat) (pr : list pexpr) (ra : list string)
           (ap : list (string * pat)) (il : option (list string)) (inv : bool) (m : pmode)
           (rks bel avo : list tq) : cgopts :=
  MkG pat pexpr unit tq minl maxl minc maxc sp dp ip pr ra ap il inv m [] rks bel avo.
Definition c_impl_paired (o : cgopts) := impl_paired pat pexpr unit tq pat_match pexpr_eval (fun _ _ => true) ctax o.
Definition c_impl_pred (o : cgopts) := impl_pred pat pexpr unit tq pat_match pexpr_eval (fun _ _ => true) ctax o.
Definition c_spec_sel (o : cgopts) := spec_sel pat pexpr unit tq pat_match pexpr_eval (fun _ _ => true) ctax o.
Definition caopts := aopts vexpr.
Definition mka := MkA vexpr.
Definition c_impl_annot (o : caopts) := impl_annot vexpr vexpr_eval o.

(** obidistribute classifiers (class.go): DualAnnotationClassifier, RotateClassifier (rank based), HashClassifier (not modelled: CRC32) *)
Inductive dopts := DClass (key dir na : string) | DRotate (n : Z) | DHash (n : Z).
Definition class_code (key dir na : string) (r : arec) : string * string :=
  match rattrs r with
  | [] => (na, "")
  | a => ((match lookup key a with Some v => show_val v | None => na end),
          (if String.eqb dir "" then "" else match lookup dir a with Some v => show_val v | None => na end))
  end.
Definition dist_code (d : dopts) (ir : Z * arec) : string * string :=
  match d with
  | DClass k dir na => class_code k dir na (snd ir)
  | DRotate n => (show_Z (fst ir mod n + 1), "")
  | DHash n => ("", "")
  end.
Definition pair_eqb (a b : string * string) : bool := String.eqb (fst a) (fst b) && String.eqb (snd a) (snd b).
Fixpoint number {A} (i : Z) (l : list A) : list (Z * A) :=
  match l with [] => [] | x :: t => (i, x) :: number (i + 1) t end.

(** * Correspondence cases *)
Definition aval_eqb (a b : aval) : bool :=
  match a, b with VS x, VS y => String.eqb x y | VI x, VI y => x =? y | _, _ => false end.
Definition attrs_eqb (a b : list (string * aval)) : bool :=
  Nat.eqb (List.length a) (List.length b) &&
  forallb (fun kv => match lookup (fst kv) b with Some v => aval_eqb (snd kv) v | None => false end) a.
Definition arec_eqb (a b : arec) : bool :=
  String.eqb (rid a) (rid b) && attrs_eqb (rattrs a) (rattrs b) && String.eqb (rseq a) (rseq b).
Fixpoint list_eqb {A} (eq : A -> A -> bool) (a b : list A) : bool :=
  match a, b with
  | [], [] => true
  | x :: a', y :: b' => eq x y && list_eqb eq a' b'
  | _, _ => false
  end.
Definition opt_mates (m : option (list arec)) (n : nat) : list (option arec) :=
  match m with
  | Some l => map Some l
  | None => repeat None n
  end.

Inductive ccase :=
| CGrep (o : cgopts) (ds : list arec) (mates : option (list arec)) (kept : list bool)
| CAnnot (o : caopts) (ds : list arec) (out : list arec)
| CDist (d : dopts) (ds : list arec) (dest : list (string * string)).

Definition case_ok (c : ccase) : bool :=
  match c with
  | CGrep o ds mates kept =>
    let p := match mates with
             | Some _ => c_impl_paired o
             | None => match c_impl_pred o with None => None | Some f => Some (fun r _ => f r) end
             end in
    list_eqb Bool.eqb (map (fun rm => holds2 p (fst rm) (snd rm)) (combine ds (opt_mates mates (List.length ds)))) kept
  | CAnnot o ds out => list_eqb arec_eqb (flat_map (c_impl_annot o) ds) out
  | CDist d ds dest =>
    let items := number 0 ds in
    let sl := distribute (Z * arec) (string * string) pair_eqb (dist_code d) items in
    (* every record is found in the slice of the destination observed for it, and nowhere else *)
    list_eqb pair_eqb (map (dist_code d) items) dest &&
    forallb (fun id => existsb (fun x => arec_eqb (snd x) (snd (fst id))) (slice_of _ _ pair_eqb (snd id) sl)) (combine items dest) &&
    Nat.eqb (List.length (flat_map snd sl)) (List.length ds)
  end.
Fixpoint mismatches_from (i : nat) (l : list ccase) : list nat :=
  match l with
  | [] => []
  | c :: l' => let rest := mismatches_from (S i) l' in if case_ok c then rest else i :: rest
  end.
Definition mismatches := mismatches_from 0.
