(** C16 — executable model of the option layer of obigrep / obiannotate / obidistribute.
    Definitions only (no proofs).  Transcribed from
      pkg/obitools/obigrep/options.go   (CLI*Predicate builders, CLISequenceSelectionPredicate)
      pkg/obiseq/predicate.go           (And / Or / Not / PairedPredicat, nil = "no constraint")
      pkg/obitools/obiannotate/obiannotate.go (CLIAnnotationWorker, the workers, CutSequenceWorker)
      pkg/obiseq/worker.go              (ChainWorkers, SeqToSliceWorker with breakOnError = false)
      pkg/obiiter/distribute.go, batchiterator.go (Distribute, DivideOn loops).
    External components (Go regexp, gval, apat, taxonomy) are Section variables. *)
From Coq Require Import ZArith List String Ascii Bool.
Import ListNotations.
Open Scope string_scope.
Open Scope list_scope.
Open Scope Z_scope.

(** * Records *)
Inductive aval := VS (s : string) | VI (z : Z) | VM (m : list (string * Z)).   (* VM: a summary slot such as merged_taxid *)
Record arec := mkr { rid : string; rattrs : list (string * aval); rseq : string }.

Fixpoint lookup (k : string) (l : list (string * aval)) : option aval :=
  match l with
  | [] => None
  | (k', v) :: t => if String.eqb k k' then Some v else lookup k t
  end.
Fixpoint remove_key (k : string) (l : list (string * aval)) : list (string * aval) :=
  match l with
  | [] => []
  | (k', v) :: t => if String.eqb k k' then remove_key k t else (k', v) :: remove_key k t
  end.
(** annot[key] = value *)
Fixpoint set_key (k : string) (v : aval) (l : list (string * aval)) : list (string * aval) :=
  match l with
  | [] => [(k, v)]
  | (k', v') :: t => if String.eqb k k' then (k, v) :: t else (k', v') :: set_key k v t
  end.
Definition has_key (k : string) (l : list (string * aval)) : bool :=
  match lookup k l with Some _ => true | None => false end.
Definition mem_str (k : string) (l : list string) : bool := existsb (String.eqb k) l.

(** decimal rendering (fmt.Sprint of an int) *)
Fixpoint show_N_fuel (fuel : nat) (n : N) (acc : string) : string :=
  match fuel with
  | O => acc
  | S f =>
    let acc' := String (ascii_of_N (48 + N.modulo n 10)) acc in
    if N.eqb (N.div n 10) 0 then acc' else show_N_fuel f (N.div n 10) acc'
  end.
Definition show_N (n : N) : string := show_N_fuel (S (N.size_nat n)) n "".
Definition show_Z (z : Z) : string :=
  match z with
  | Z0 => "0"
  | Zpos p => show_N (Npos p)
  | Zneg p => append "-" (show_N (Npos p))
  end.
Definition show_val (v : aval) : string := match v with VS s => s | VI z => show_Z z | VM _ => "" end.   (* map rendering is not modelled *)

Definition rlen (r : arec) : Z := Z.of_nat (String.length (rseq r)).
(** BioSequence.Count(): the int attribute "count", 1 when absent or not an integer (a string-typed count reads as 1) *)
Definition rcount (r : arec) : Z := match lookup "count" (rattrs r) with Some (VI z) => z | _ => 1 end.
(** BioSequence.Definition(): attribute "definition" as a string, "" when absent *)
Definition rdef (r : arec) : string := match lookup "definition" (rattrs r) with Some v => show_val v | None => "" end.

(** * Predicates (pkg/obiseq/predicate.go): nil is [None] *)
Definition pred := arec -> bool.
Definition p_and (a b : option pred) : option pred :=
  match a, b with
  | None, _ => b
  | _, None => a
  | Some f, Some g => Some (fun r => if negb (f r) then false else g r)
  end.
Definition p_or (a b : option pred) : option pred :=
  match a, b with
  | None, _ => b
  | _, None => a
  | Some f, Some g => Some (fun r => if f r then true else g r)
  end.
(** Not (after fix eafa00e): the nil predicate stands for "always true", its negation rejects every record *)
Definition p_not (a : option pred) : option pred :=
  match a with None => Some (fun _ => false) | Some f => Some (fun r => negb (f r)) end.
Definition holds (p : option pred) (r : arec) : bool := match p with None => true | Some f => f r end.

(** `if len(l) > 0 { p := mk(l[0]); for x in l[1:] { p = p.And(mk(x)) }; return p }; return nil` *)
Definition chain_and {A} (mk : A -> pred) (l : list A) : option pred :=
  match l with
  | [] => None
  | x :: t => fold_left (fun p y => p_and p (Some (mk y))) t (Some (mk x))
  end.
Definition chain_or {A} (mk : A -> pred) (l : list A) : option pred :=
  match l with
  | [] => None
  | x :: t => fold_left (fun p y => p_or p (Some (mk y))) t (Some (mk x))
  end.

Inductive pmode := MForward | MReverse | MAnd | MOr | MAndNot | MXor.
Definition pmode_eqb (a b : pmode) : bool :=
  match a, b with
  | MForward, MForward | MReverse, MReverse | MAnd, MAnd | MOr, MOr | MAndNot, MAndNot | MXor, MXor => true
  | _, _ => false
  end.
(** PairedPredicat: a record with its mate (None = not paired) *)
Definition paired_some (mode : pmode) (f : pred) : arec -> option arec -> bool :=
  fun r m =>
      let good := f r in
      match m with
      | Some mate =>
        if negb (pmode_eqb mode MForward) then
          let pgood := f mate in
          match mode with
          | MReverse => pgood
          | MAnd => good && pgood
          | MOr => good || pgood
          | MAndNot => good && negb pgood
          | MXor => (good || pgood) && negb (good && pgood)
          | MForward => good
          end
        else good
      | None => good
      end.
(** (after fix eafa00e) nil stays nil except for the modes that negate the mate, where it is the always-true predicate *)
Definition paired_pred (mode : pmode) (p : option pred) : option (arec -> option arec -> bool) :=
  match p with
  | None => match mode with
            | MAndNot | MXor => Some (paired_some mode (fun _ => true))
            | _ => None
            end
  | Some f => Some (paired_some mode f)
  end.
Definition holds2 (p : option (arec -> option arec -> bool)) (r : arec) (m : option arec) : bool :=
  match p with None => true | Some f => f r m end.

Definition SENT : Z := 2000000000.   (* int(2e9) *)

Section Grep.
  (** external matchers *)
  Variables RE EXPR APAT TAXQ : Type.
  Variable re_match : bool -> RE -> string -> bool.     (* Go regexp; true = "(?i)" prefixed *)
  Variable eval_bool : EXPR -> arec -> bool.             (* gval EvalBool on {annotations, sequence} *)
  Variable approx_match : APAT -> Z -> bool -> string -> bool.   (* ApatPattern.IsMatching of MakeApatPattern(pattern, errormax, allowsIndel) on a sequence *)
  Variable apat_rc : APAT -> APAT.                       (* ApatPattern.ReverseComplement *)
  Variable tax_pred : TAXQ -> arec -> bool.              (* IsSubCladeOf / IsSubCladeOfSlot / HasRequiredRank *)

  Record gopts := MkG {
    minlen : Z; maxlen : Z; mincount : Z; maxcount : Z;
    seqpats : list RE; defpats : list RE; idpats : list RE;
    preds : list EXPR; reqattrs : list string; attrpats : list (string * RE);
    idlist : option (list string);            (* None: --id-list not given *)
    invert : bool; pairmode : pmode;
    approx : list APAT; gperr : Z; gpindel : bool; gpfwd : bool;   (* --approx-pattern, --pattern-error, --allows-indels, --only-forward *)
    ranks : list TAXQ; belong : list TAXQ; avoid : list TAXQ }.

  (** obiapat.IsPatternMatchSequence(pattern, CLIPatternError(), CLIPatternBothStrand() = !only_forward, CLIPatternInDels()) *)
  Definition approx_pred (o : gopts) (p : APAT) : pred :=
    fun r => if approx_match p (gperr o) (gpindel o) (rseq r) then true
             else if negb (gpfwd o) then approx_match (apat_rc p) (gperr o) (gpindel o) (rseq r) else false.

  (** CLISequenceSizePredicate *)
  Definition size_pred (o : gopts) : option pred :=
    if 1 <? minlen o then
      let p : option pred := Some (fun r => minlen o <=? rlen r) in
      if negb (maxlen o =? SENT) then p_and p (Some (fun r => rlen r <=? maxlen o)) else p
    else if negb (maxlen o =? SENT) then Some (fun r => rlen r <=? maxlen o)
    else None.
  (** CLISequenceCountPredicate (after fix 30a16a9: the second guard tests _MaximumCount) *)
  Definition count_pred (o : gopts) : option pred :=
    if 1 <? mincount o then
      let p : option pred := Some (fun r => mincount o <=? rcount r) in
      if negb (maxcount o =? SENT) then p_and p (Some (fun r => rcount r <=? maxcount o)) else p
    else if negb (maxcount o =? SENT) then Some (fun r => rcount r <=? maxcount o)
    else None.
  (** CLITaxonomyFilterPredicate = HasRank.And(Restrict).And(Avoid) *)
  Definition tax_filter (o : gopts) : option pred :=
    p_and (p_and (chain_and tax_pred (ranks o)) (chain_or tax_pred (belong o)))
          (match avoid o with [] => None | _ => p_not (chain_or tax_pred (avoid o)) end).
  Definition attr_match (kp : string * RE) : pred :=
    fun r => match lookup (fst kp) (rattrs r) with
             | Some v => re_match false (snd kp) (show_val v)
             | None => false
             end.
  (** CLIIsAttibuteMatchPredicate: p := nil; for k, pat := range map { p = p.And(...) } *)
  Definition attrs_pred (o : gopts) : option pred :=
    match attrpats o with
    | [] => None
    | l => fold_left (fun p kp => p_and p (Some (attr_match kp))) l None
    end.
  Definition idlist_pred (o : gopts) : option pred :=
    match idlist o with
    | None => None
    | Some ids => Some (fun r => mem_str (rid r) ids)
    end.

  (** CLISequenceSelectionPredicate without the -v step *)
  Definition impl_base (o : gopts) : option pred :=
    let p := size_pred o in
    let p := p_and p (count_pred o) in
    let p := p_and p (tax_filter o) in
    let p := p_and p (chain_and eval_bool (preds o)) in
    let p := p_and p (chain_and (fun pt r => re_match true pt (rseq r)) (seqpats o)) in
    let p := p_and p (chain_and (fun pt r => re_match false pt (rdef r)) (defpats o)) in
    let p := p_and p (chain_and (fun pt r => re_match false pt (rid r)) (idpats o)) in
    let p := p_and p (idlist_pred o) in
    let p := p_and p (chain_and (fun k r => has_key k (rattrs r)) (reqattrs o)) in
    let p := p_and p (attrs_pred o) in
    p_and p (chain_and (approx_pred o) (approx o)).
  Definition impl_pred (o : gopts) : option pred :=
    if invert o then p_not (impl_base o) else impl_base o.
  (** CLIFilterSequence with a paired file: predicate.PairedPredicat(CLIPairedReadMode()) *)
  Definition impl_paired (o : gopts) : option (arec -> option arec -> bool) :=
    paired_pred (pairmode o) (impl_pred o).

  (** the statement: conjunction of the requested criteria *)
  Definition spec_pred (o : gopts) (r : arec) : bool :=
    (minlen o <=? rlen r) && (rlen r <=? maxlen o) &&
    (mincount o <=? rcount r) && (rcount r <=? maxcount o) &&
    forallb (fun q => tax_pred q r) (ranks o) &&
    (match belong o with [] => true | l => existsb (fun q => tax_pred q r) l end) &&
    negb (existsb (fun q => tax_pred q r) (avoid o)) &&
    forallb (fun e => eval_bool e r) (preds o) &&
    forallb (fun pt => re_match true pt (rseq r)) (seqpats o) &&
    forallb (fun pt => re_match false pt (rdef r)) (defpats o) &&
    forallb (fun pt => re_match false pt (rid r)) (idpats o) &&
    (match idlist o with None => true | Some ids => mem_str (rid r) ids end) &&
    forallb (fun k => has_key k (rattrs r)) (reqattrs o) &&
    forallb (fun kp => attr_match kp r) (attrpats o) &&
    forallb (fun a => approx_match a (gperr o) (gpindel o) (rseq r) ||
                      (negb (gpfwd o) && approx_match (apat_rc a) (gperr o) (gpindel o) (rseq r))) (approx o).
  Definition spec_sel (o : gopts) (r : arec) : bool :=
    if invert o then negb (spec_pred o r) else spec_pred o r.
  (** the six paired modes as Boolean functions of (forward, reverse) *)
  Definition mode_fun (m : pmode) (f p : bool) : bool :=
    match m with
    | MForward => f | MReverse => p | MAnd => f && p | MOr => f || p
    | MAndNot => f && negb p | MXor => xorb f p
    end.
End Grep.

(** * FilterOn / DivideOn (one goroutine, sorted stream): kept and discarded streams *)
Fixpoint divide_loop {A} (p : A -> bool) (l : list A) (t f : list A) : list A * list A :=
  match l with
  | [] => (t, f)
  | s :: l' => if p s then divide_loop p l' (t ++ [s]) f else divide_loop p l' t (f ++ [s])
  end.
Definition divide_on {A} (p : A -> bool) (l : list A) : list A * list A := divide_loop p l [] [].

(** paired run: batches of forward records carry their mates; the reverse file is PairedWith() of the kept batches *)
Definition grep_paired (p : arec -> option arec -> bool) (l : list (arec * arec)) : list arec * list arec :=
  let kept := fst (divide_on (fun fr => p (fst fr) (Some (snd fr))) l) in
  (map fst kept, map snd kept).

(** paired run with --save-discarded: DivideOn on the paired stream; each of the two streams is written as _R1 / _R2 *)
Definition grep_paired_divide (p : arec -> option arec -> bool) (l : list (arec * arec))
  : (list arec * list arec) * (list arec * list arec) :=
  let d := divide_on (fun fr => p (fst fr) (Some (snd fr))) l in
  ((map fst (fst d), map snd (fst d)), (map fst (snd d), map snd (snd d))).

(** * obiannotate *)
Definition worker := arec -> option (list arec).      (* None = the worker returned an error *)
(** SeqToSliceWorker(w, breakOnError=false): records on which w fails are logged and skipped *)
Definition slice_worker (w : worker) (l : list arec) : list arec :=
  flat_map (fun s => match w s with Some r => r | None => [] end) l.
(** SeqWorker.ChainWorkers *)
Definition chain (w next : option worker) : option worker :=
  match w, next with
  | None, _ => next
  | _, None => w
  | Some a, Some b => Some (fun s => match a s with Some l => Some (slice_worker b l) | None => None end)
  end.
Definition set_attrs (r : arec) (a : list (string * aval)) : arec := mkr (rid r) a (rseq r).
Definition set_id (r : arec) (i : string) : arec := mkr i (rattrs r) (rseq r).
Definition set_seq (r : arec) (s : string) : arec := mkr (rid r) (rattrs r) s.
Definition lower (c : ascii) : ascii :=
  let n := N_of_ascii c in if (N.leb 65 n && N.leb n 90)%bool then ascii_of_N (n + 32) else c.
Fixpoint lower_str (s : string) : string :=
  match s with EmptyString => EmptyString | String c t => String (lower c) (lower_str t) end.

(** BioSequence.GetAttribute / SetAttribute (after fix: values given for id / sequence are converted, not type-asserted):
    "id" and "sequence" are the fields of the record; "qualities": the model has no quality strings (FASTA records) *)
Definition get_attr (r : arec) (k : string) : option aval :=
  if String.eqb k "id" then Some (VS (rid r))
  else if String.eqb k "sequence" then (if String.eqb (rseq r) "" then None else Some (VS (rseq r)))
  else if String.eqb k "qualities" then None
  else lookup k (rattrs r).
Definition set_attr (r : arec) (k : string) (v : aval) : arec :=
  if String.eqb k "id" then set_id r (show_val v)
  else if String.eqb k "sequence" then set_seq r (lower_str (show_val v))      (* SetSequence lowers the symbols *)
  else if String.eqb k "qualities" then r                                     (* not modelled: never generated *)
  else set_attrs r (set_key k v (rattrs r)).

Definition e_clear (r : arec) : arec := set_attrs r [].
Definition e_delete (ks : list string) (r : arec) : arec :=
  set_attrs r (fold_left (fun a k => remove_key k a) ks (rattrs r)).
Definition e_keep (ks : list string) (r : arec) : arec :=
  set_attrs r (filter (fun kv => mem_str (fst kv) ks) (rattrs r)).
(** RenameAttribute(new, old): renaming an attribute to its own name changes nothing; otherwise,
    if GetAttribute(old) succeeds { SetAttribute(new, value); DeleteAttribute(old) } *)
Definition rename1 (r : arec) (no : string * string) : arec :=
  if String.eqb (fst no) (snd no) then r else
  match get_attr r (snd no) with
  | Some v => let r' := set_attr r (fst no) v in set_attrs r' (remove_key (snd no) (rattrs r'))
  | None => r
  end.
Definition e_rename (l : list (string * string)) (r : arec) : arec := fold_left rename1 l r.
Definition e_length (r : arec) : arec := set_attrs r (set_key "seq_length" (VI (rlen r)) (rattrs r)).

(** CutSequenceWorker (after fixes 7ce2231 and negative-from), from/to as given on the command line; None = Subsequence error *)
Definition e_cut (from to : Z) (r : arec) : option arec :=
  let L := rlen r in
  let from' := if 0 <? from then from - 1 else from in       (* `from--` at construction *)
  let f := if from' <? 0 then L + from' else if 0 <? from' then from' else 0 in       (* after the fix: -1 = the last base *)
  let t := if to <? 0 then L + to + 1 else if 0 <? to then to else 0 in
  let f := if f <? 0 then 0 else f in
  let t := if L <=? t then L else t in
  (* BioSequence.Subsequence(f, t, false) *)
  if t <=? f then None
  else if f <? 0 then None
  else if L <=? f then None
  else if L <? t then None
  else Some (mkr (append (rid r) (append "_sub[" (append (show_Z (f + 1)) (append ".." (append (show_Z t) "]"))))) (rattrs r)
                 (String.substring (Z.to_nat f) (Z.to_nat (t - f)) (rseq r))).

(** reverse complement of a nucleotide string (BioSequence.ReverseComplement on acgt) *)
Definition comp_nuc (c : ascii) : ascii :=
  if Ascii.eqb c "a" then "t" else if Ascii.eqb c "c" then "g" else if Ascii.eqb c "g" then "c" else if Ascii.eqb c "t" then "a" else c.
Fixpoint revcomp_acc (s acc : string) : string :=
  match s with EmptyString => acc | String c t => revcomp_acc t (String (comp_nuc c) acc) end.
Definition revcomp (s : string) : string := revcomp_acc s "".

Section Annot.
  Variable VEXPR : Type.
  Variable eval_val : VEXPR -> arec -> option aval.     (* gval evaluation; None = evaluation error *)
  (** taxonomy edits (pkg/obitax, property C14) and the Aho-Corasick counter are external *)
  Variable at_rank : string -> arec -> arec.            (* Taxonomy.SetTaxonAtRank *)
  Variables set_path set_trank set_sciname : arec -> arec.   (* SetPath / SetTaxonomicRank / SetScientificName *)
  Variable set_lca : string -> arec -> arec.            (* AddLCAWorker(taxo, slot, 1 - lca-error) *)
  Variable AHO : Type.
  Variable aho_edit : AHO -> arec -> arec.              (* AhoCorazickWorker("aho_corasick", patterns) *)
  (** the approximate matcher of --pattern *)
  Variable APAT : Type.
  Variable apat_src : APAT -> string.                   (* the pattern as given *)
  Variable apat_rc : APAT -> APAT.
  Variable best_match : APAT -> Z -> bool -> string -> option (Z * Z * Z).
     (* ApatPattern.BestMatch of MakeApatPattern(p, errormax, indel): (start, end, errors), already restricted to start >= 0, end <= length *)

  Record aopts := MkA {
    aclear : bool; asetid : option VEXPR; adelete : list string; akeep : list string;
    arename : list (string * string); alength : bool; asettag : list (string * VEXPR);
    acut : option (Z * Z);
    ataxrank : list string; apath : bool; atrank : bool; asciname : bool; alca : string;
    aaho : option AHO;
    apattern : option APAT; ptname : string; pterr : Z; ptfwd : bool; ptindel : bool }.

  Definition pure (f : arec -> arec) : worker := fun r => Some [f r].
  (** EditIdWorker / EditAttributeWorker *)
  Definition e_setid (e : VEXPR) (r : arec) : option arec :=
    match eval_val e r with Some v => Some (set_id r (show_val v)) | None => None end.
  Definition e_settag (ke : string * VEXPR) (r : arec) : option arec :=
    match eval_val (snd ke) r with Some v => Some (set_attr r (fst ke) v) | None => None end.
  Definition partial (f : arec -> option arec) : worker :=
    fun r => match f r with Some r' => Some [r'] | None => None end.
  (** EvalAttributeWorker (after fix 96e4bc3): w = nil; for a, e := range map { w = first or w.ChainWorkers(...) } *)
  Definition eval_attr_worker (l : list (string * VEXPR)) : option worker :=
    fold_left (fun w ke => chain w (Some (partial (e_settag ke)))) l None.
  Definition has_cut (o : aopts) : option (Z * Z) :=
    match acut o with
    | Some (f, t) => if negb (f =? 0) && negb (t =? 0) then Some (f, t) else None
    | None => None
    end.
  (** AddTaxonAtRankWorker(taxo, ranks...) *)
  Definition e_taxranks (rks : list string) (r : arec) : arec := fold_left (fun x rk => at_rank rk x) rks r.

  (** MatchPatternWorker(pattern, name, errormax, bothStrand, allowsIndel) (after the fix: the reverse strand is tried only
      when bothStrand) *)
  Definition pat_slot (name : string) : string :=
    if negb (String.eqb name "pattern") && negb (String.eqb name "") then append name "_pattern" else "pattern".
  Definition pat_name (name : string) : string :=
    if negb (String.eqb name "pattern") && negb (String.eqb name "") then name else "pattern".
  Definition loc_str (st en : Z) : string := append (show_Z (st + 1)) (append ".." (show_Z en)).
  Definition set_match (r : arec) (p : APAT) (name : string) (m loc : string) (nerr : Z) : arec :=
    let a := set_key (pat_slot name) (VS (apat_src p)) (rattrs r) in
    let a := set_key (append (pat_name name) "_match") (VS m) a in
    let a := set_key (append (pat_name name) "_error") (VI nerr) a in
    set_attrs r (set_key (append (pat_name name) "_location") (VS loc) a).
  Definition e_pattern (p : APAT) (name : string) (e : Z) (both indel : bool) (r : arec) : arec :=
    match best_match p e indel (rseq r) with
    | Some (st, en, n) =>
      set_match r p name (String.substring (Z.to_nat st) (Z.to_nat (en - st)) (rseq r)) (loc_str st en) n
    | None =>
      if both then
        match best_match (apat_rc p) e indel (rseq r) with
        | Some (st, en, n) =>
          set_match r p name (revcomp (String.substring (Z.to_nat st) (Z.to_nat (en - st)) (rseq r)))
                    (append "complement(" (append (loc_str st en) ")")) n
        | None => r
        end
      else r
    end.

  (** CLIAnnotationWorker: `annotator = nil; if requested { annotator = annotator.ChainWorkers(w) }` for the fixed sequence
      clear, set-id, delete, keep, rename, taxon-at-rank, path, rank, scientific name, lca, length, -S, aho-corasick, cut,
      pattern. A step that is not requested is written as chaining the nil worker (ChainWorkers returns its receiver when
      `next == nil`: clause `| _, None => w` of [chain]). *)
  Definition annot_steps (o : aopts) : list (option worker) :=
    [ (if aclear o then Some (pure e_clear) else None);
      (match asetid o with Some e => Some (partial (e_setid e)) | None => None end);
      (match adelete o with [] => None | ks => Some (pure (e_delete ks)) end);
      (match akeep o with [] => None | ks => Some (pure (e_keep ks)) end);
      (match arename o with [] => None | l => Some (pure (e_rename l)) end);
      (match ataxrank o with [] => None | rks => Some (pure (e_taxranks rks)) end);
      (if apath o then Some (pure set_path) else None);
      (if atrank o then Some (pure set_trank) else None);
      (if asciname o then Some (pure set_sciname) else None);
      (if negb (String.eqb (alca o) "") then Some (pure (set_lca (alca o))) else None);
      (if alength o then Some (pure e_length) else None);
      (match asettag o with [] => None | l => eval_attr_worker l end);
      (match aaho o with Some h => Some (pure (aho_edit h)) | None => None end);
      (match has_cut o with Some (f, t) => Some (partial (e_cut f t)) | None => None end);
      (match apattern o with
       | Some p => Some (pure (e_pattern p (ptname o) (pterr o) (negb (ptfwd o)) (ptindel o)))
       | None => None
       end) ].
  Definition impl_worker (o : aopts) : option worker := fold_left chain (annot_steps o) None.
  (** SeqToSliceWorker(worker, false) applied to one record (nil worker: identity) *)
  Definition impl_annot (o : aopts) (r : arec) : list arec :=
    match impl_worker o with
    | None => [r]
    | Some w => match w r with Some l => l | None => [] end
    end.
  (** SeqToSliceConditionalWorker(predicate, worker, false) (after fixes 9700221, 6a224c7): nil condition or nil worker =
      SeqToSliceWorker; otherwise the worker is applied to the records that satisfy the condition, the others pass through *)
  Definition impl_annot_sel (sel : option pred) (o : aopts) (r : arec) : list arec :=
    match sel, impl_worker o with
    | None, _ => impl_annot o r
    | Some _, None => [r]
    | Some c, Some w => if negb (c r) then [r] else match w r with Some l => l | None => [] end
    end.

  (** the statement: every requested edit once, in the documented order; None = record discarded with a warning *)
  Definition obind (x : option arec) (f : arec -> option arec) : option arec :=
    match x with Some r => f r | None => None end.
  Definition spec_annot (o : aopts) (r : arec) : option arec :=
    let r := if aclear o then e_clear r else r in
    obind (match asetid o with Some e => e_setid e r | None => Some r end) (fun r =>
    let r := e_delete (adelete o) r in
    let r := match akeep o with [] => r | ks => e_keep ks r end in
    let r := e_rename (arename o) r in
    let r := e_taxranks (ataxrank o) r in
    let r := if apath o then set_path r else r in
    let r := if atrank o then set_trank r else r in
    let r := if asciname o then set_sciname r else r in
    let r := if negb (String.eqb (alca o) "") then set_lca (alca o) r else r in
    let r := if alength o then e_length r else r in
    obind (fold_left (fun x ke => obind x (e_settag ke)) (asettag o) (Some r)) (fun r =>
    let r := match aaho o with Some h => aho_edit h r | None => r end in
    obind (match has_cut o with Some (f, t) => e_cut f t r | None => Some r end) (fun r =>
    Some (match apattern o with
          | Some p => e_pattern p (ptname o) (pterr o) (negb (ptfwd o)) (ptindel o) r
          | None => r
          end)))).
  (** with selection options: the selected records are edited, the others are written unchanged *)
  Definition olist' (x : option arec) : list arec := match x with Some r => [r] | None => [] end.
  Definition spec_annot_sel (sel : arec -> bool) (o : aopts) (r : arec) : list arec :=
    if sel r then olist' (spec_annot o r) else [r].
End Annot.

(** * IBioSequence.Distribute: one goroutine appends every record to the slice of its class *)
Section Dist.
  Variables A K : Type.
  Variable keq : K -> K -> bool.
  Variable code : A -> K.
  Fixpoint slice_add (k : K) (s : A) (sl : list (K * list A)) : list (K * list A) :=
    match sl with
    | [] => [(k, [s])]
    | (k', l) :: t => if keq k k' then (k', l ++ [s]) :: t else (k', l) :: slice_add k s t
    end.
  Definition distribute (l : list A) : list (K * list A) :=
    fold_left (fun sl s => slice_add (code s) s sl) l [].
  Fixpoint slice_of (k : K) (sl : list (K * list A)) : list A :=
    match sl with
    | [] => []
    | (k', l) :: t => if keq k k' then l else slice_of k t
    end.
End Dist.

(** * The same loops at the level of BATCHES (batch size n): what is pushed on each output iterator *)
Section Batches.
  Variables A K : Type.
  Variable keq : K -> K -> bool.
  Variable code : A -> K.
  Variable n : nat.                                  (* batch size *)
  (** Distribute: state = growing slice of each class + batches already pushed on each output (in push order) *)
  Record dstate := mkd { dslices : list (K * list A); douts : list (K * list (list A)) }.
  Fixpoint get_slice (k : K) (sl : list (K * list A)) : list A :=
    match sl with [] => [] | (k', l) :: t => if keq k k' then l else get_slice k t end.
  Fixpoint put_slice (k : K) (l : list A) (sl : list (K * list A)) : list (K * list A) :=
    match sl with
    | [] => [(k, l)]
    | (k', l') :: t => if keq k k' then (k', l) :: t else (k', l') :: put_slice k l t
    end.
  Fixpoint get_out (k : K) (o : list (K * list (list A))) : list (list A) :=
    match o with [] => [] | (k', l) :: t => if keq k k' then l else get_out k t end.
  Fixpoint push_out (k : K) (b : list A) (o : list (K * list (list A))) : list (K * list (list A)) :=
    match o with
    | [] => [(k, [b])]
    | (k', l) :: t => if keq k k' then (k', l ++ [b]) :: t else (k', l) :: push_out k b t
    end.
  (** the slice of the class grows by one record; when its length reaches batchsize it is pushed and a new slice starts *)
  Definition dist_step (st : dstate) (s : A) : dstate :=
    let k := code s in
    let sl := get_slice k (dslices st) ++ [s] in
    if Nat.eqb (List.length sl) n then mkd (put_slice k [] (dslices st)) (push_out k sl (douts st))
    else mkd (put_slice k sl (dslices st)) (douts st).
  (** at the end every non-empty slice is pushed *)
  Definition dist_flush (st : dstate) : list (K * list (list A)) :=
    fold_left (fun o ks => match snd ks with [] => o | l => push_out (fst ks) l o end) (dslices st) (douts st).
  (** the input arrives as batches (SortBatches: in order); the two nested loops run over their concatenation *)
  Definition distribute_batches (bs : list (list A)) : list (K * list (list A)) :=
    dist_flush (fold_left dist_step (List.concat bs) (mkd [] [])).

  (** DivideOn with batch size n: (pushed true batches, pushed false batches) *)
  Variable p : A -> bool.
  Record vstate := mkv { vt : list A; vf : list A; vto : list (list A); vfo : list (list A) }.
  Definition div_step (st : vstate) (s : A) : vstate :=
    let t := if p s then vt st ++ [s] else vt st in
    let f := if p s then vf st else vf st ++ [s] in
    let '(t, to) := if Nat.eqb (List.length t) n then ([], vto st ++ [t]) else (t, vto st) in
    let '(f, fo) := if Nat.eqb (List.length f) n then ([], vfo st ++ [f]) else (f, vfo st) in
    mkv t f to fo.
  Definition div_flush (st : vstate) : list (list A) * list (list A) :=
    ((match vt st with [] => vto st | l => vto st ++ [l] end), (match vf st with [] => vfo st | l => vfo st ++ [l] end)).
  Definition divide_batches (bs : list (list A)) : list (list A) * list (list A) :=
    div_flush (fold_left div_step (List.concat bs) (mkv [] [] [] [])).

  (** FilterOn: each worker filters the batches it receives in place (same order number); Rebatch(size) re-cuts the
      sorted stream: buffer of at most n records *)
  Definition filter_batches (bs : list (list A)) : list (list A) := map (filter p) bs.
  Record rstate := mkrs { rbuf : list A; rout : list (list A) }.
  Definition rebatch_step (st : rstate) (s : A) : rstate :=
    let b := rbuf st ++ [s] in
    if Nat.eqb (List.length b) n then mkrs [] (rout st ++ [b]) else mkrs b (rout st).
  Definition rebatch (bs : list (list A)) : list (list A) :=
    let st := fold_left rebatch_step (List.concat bs) (mkrs [] []) in
    match rbuf st with [] => rout st | l => rout st ++ [l] end.
End Batches.

(** * Concrete instances used by the correspondence (literal / class matcher, tiny expression languages) *)
Inductive atom := ALit (c : string) | ACls (cs : string) | AAny.
Record pat := mkp { pstart : bool; patoms : list atom; pend : bool; pci : bool }.
Definition ceq (ci : bool) (a b : ascii) : bool :=
  if ci then Ascii.eqb (lower a) (lower b) else Ascii.eqb a b.
Fixpoint str_has (ci : bool) (c : ascii) (s : string) : bool :=
  match s with EmptyString => false | String x t => ceq ci x c || str_has ci c t end.
Definition atom_match (ci : bool) (a : atom) (c : ascii) : bool :=
  match a with
  | ALit (String x _) => ceq ci x c
  | ALit EmptyString => false
  | ACls cs => str_has ci c cs
  | AAny => negb (Ascii.eqb c "010"%char)
  end.
Fixpoint match_at (ci : bool) (atoms : list atom) (pe : bool) (s : string) : bool :=
  match atoms with
  | [] => if pe then match s with EmptyString => true | _ => false end else true
  | a :: t => match s with
              | EmptyString => false
              | String c s' => atom_match ci a c && match_at ci t pe s'
              end
  end.
Fixpoint search (ci : bool) (atoms : list atom) (pe : bool) (s : string) : bool :=
  match_at ci atoms pe s ||
  match s with EmptyString => false | String _ s' => search ci atoms pe s' end.
Definition pat_match (ci : bool) (p : pat) (s : string) : bool :=
  let ci := ci || pci p in
  if pstart p then match_at ci (patoms p) (pend p) s else search ci (patoms p) (pend p) s.

Inductive pexpr := PTrue | PFalse | PLenGe (n : Z) | PLenLe (n : Z) | PCountEq (n : Z) | PIdEq (s : string)
  | PHas (k : string) | PAnd (a b : pexpr) | POr (a b : pexpr) | PNot (a : pexpr)
  (* functions of the embedded language (language.go): len(annotations) >= n; contains(annotations,k) && ismap(annotations.k);
     contains(annotations,k) && annotations.k > n; ifelse(sequence.Len() > n, true, false) *)
  | PNAttrGe (n : Z) | PIsMap (k : string) | PAttrGt (k : string) (n : Z) | PIfLen (n : Z).
Fixpoint pexpr_eval (e : pexpr) (r : arec) : bool :=
  match e with
  | PTrue => true | PFalse => false
  | PLenGe n => n <=? rlen r | PLenLe n => rlen r <=? n
  | PCountEq n => rcount r =? n
  | PIdEq s => String.eqb (rid r) s
  | PHas k => has_key k (rattrs r)
  | PAnd a b => pexpr_eval a r && pexpr_eval b r
  | POr a b => pexpr_eval a r || pexpr_eval b r
  | PNot a => negb (pexpr_eval a r)
  | PNAttrGe n => n <=? Z.of_nat (List.length (rattrs r))
  | PIsMap k => match lookup k (rattrs r) with Some (VM _) => true | _ => false end
  | PAttrGt k n => match lookup k (rattrs r) with Some (VI z) => n <? z | _ => false end
  | PIfLen n => if n <? rlen r then true else false
  end.
Inductive vexpr := EInt (z : Z) | EStr (s : string) | ELenPlus (z : Z) | ECountTimes (z : Z) | EId | EIdSuffix (s : string)
  (* annotations.k (an evaluation error when the record has no attribute k); ifelse(sequence.Len() > n, a, b);
     printf("%s_%d", sequence.Id(), sequence.Len()); int(sequence.Len()/2) *)
  | EAttr (k : string) | EIfLen (n : Z) (a b : string) | EPrintf | EHalfLen.
Definition vexpr_eval (e : vexpr) (r : arec) : option aval :=
  match e with
  | EInt z => Some (VI z) | EStr s => Some (VS s) | ELenPlus z => Some (VI (rlen r + z)) | ECountTimes z => Some (VI (rcount r * z))
  | EId => Some (VS (rid r)) | EIdSuffix s => Some (VS (append (rid r) s))
  | EAttr k => lookup k (rattrs r)
  | EIfLen n a b => Some (VS (if n <? rlen r then a else b))
  | EPrintf => Some (VS (append (rid r) (append "_" (show_Z (rlen r)))))
  | EHalfLen => Some (VI (rlen r / 2))
  end.

(** a fixed small taxonomy (the taxdump written by tools/props/c16.py) for the taxonomic restrictions *)
Inductive tq := TSub (t : Z) | TRank (rk : string) | TSlot (k : string).   (* TSlot: -r KEY, the clade named by the record's own attribute KEY *)
Definition tax_nodes : list (Z * (Z * string)) :=
  [(1, (1, "no rank")); (10, (1, "kingdom")); (11, (1, "kingdom")); (20, (10, "family")); (21, (11, "family"));
   (30, (20, "genus")); (31, (21, "genus")); (40, (30, "species")); (41, (30, "species")); (42, (31, "species"));
   (50, (20, "species"))].
Fixpoint tax_find (x : Z) (l : list (Z * (Z * string))) : option (Z * string) :=
  match l with [] => None | (k, v) :: t => if k =? x then Some v else tax_find x t end.
Fixpoint tpath (fuel : nat) (x : Z) : list (Z * string) :=
  match fuel with
  | O => []
  | S f => match tax_find x tax_nodes with
           | Some (p, rk) => (x, rk) :: (if p =? x then [] else tpath f p)
           | None => []
           end
  end.
(** BioSequence.Taxid(): the int attribute "taxid", 1 (root) when absent *)
Definition rtaxid (r : arec) : Z := match lookup "taxid" (rattrs r) with Some (VI z) => z | _ => 1 end.
Fixpoint all_digits (s : string) : bool :=
  match s with
  | EmptyString => true
  | String c t => let n := N_of_ascii c in (N.leb 48 n && N.leb n 57)%bool && all_digits t
  end.
Fixpoint parse_dec (s : string) (acc : Z) : Z :=
  match s with EmptyString => acc | String c t => parse_dec t (acc * 10 + (Z.of_N (N_of_ascii c) - 48)) end.
Definition ctax (q : tq) (r : arec) : bool :=
  match q with
  | TSub t => existsb (fun n => fst n =? t) (tpath 32 (rtaxid r))
  | TRank rk => existsb (fun n => String.eqb (snd n) rk) (tpath 32 (rtaxid r))
  | TSlot k =>
    (* Taxonomy.IsSubCladeOfSlot: fmt.Sprint of the attribute read as a decimal taxid of the taxonomy *)
    match lookup k (rattrs r) with
    | Some v =>
      let s := show_val v in
      if all_digits s && negb (String.eqb s "") then
        let t := parse_dec s 0 in
        match tax_find t tax_nodes with
        | Some _ => existsb (fun n => fst n =? t) (tpath 32 (rtaxid r))
        | None => false
        end
      else false
    | None => false
    end
  end.

(** ** approximate patterns of the correspondence: IUPAC strings; <= e substitutions (window) or <= e edit operations (Sellers) *)
Definition iupac_set (c : ascii) : string :=
  if Ascii.eqb c "a" then "a" else if Ascii.eqb c "c" then "c" else if Ascii.eqb c "g" then "g" else if Ascii.eqb c "t" then "t"
  else if Ascii.eqb c "r" then "ag" else if Ascii.eqb c "y" then "ct" else if Ascii.eqb c "m" then "ac" else if Ascii.eqb c "k" then "gt"
  else if Ascii.eqb c "s" then "cg" else if Ascii.eqb c "w" then "at" else if Ascii.eqb c "b" then "cgt" else if Ascii.eqb c "d" then "agt"
  else if Ascii.eqb c "h" then "act" else if Ascii.eqb c "v" then "acg" else if Ascii.eqb c "n" then "acgt" else "".
Definition pm (pc tc : ascii) : bool := str_has false tc (iupac_set pc).
Definition comp_iupac (c : ascii) : ascii :=
  if Ascii.eqb c "a" then "t" else if Ascii.eqb c "c" then "g" else if Ascii.eqb c "g" then "c" else if Ascii.eqb c "t" then "a"
  else if Ascii.eqb c "r" then "y" else if Ascii.eqb c "y" then "r" else if Ascii.eqb c "m" then "k" else if Ascii.eqb c "k" then "m"
  else if Ascii.eqb c "b" then "v" else if Ascii.eqb c "v" then "b" else if Ascii.eqb c "d" then "h" else if Ascii.eqb c "h" then "d" else c.
Fixpoint rc_acc (s acc : string) : string :=
  match s with EmptyString => acc | String c t => rc_acc t (String (comp_iupac c) acc) end.
Definition pat_rc (p : string) : string := rc_acc p "".
(** mismatches of p against the prefix of t; None when t is shorter than p *)
Fixpoint ham (p t : string) : option Z :=
  match p with
  | EmptyString => Some 0
  | String pc p' => match t with
                    | EmptyString => None
                    | String tc t' => match ham p' t' with Some d => Some (d + (if pm pc tc then 0 else 1)) | None => None end
                    end
  end.
(** all windows: (start, errors) with errors <= e, by increasing start *)
Fixpoint ham_hits (p : string) (e : Z) (i : Z) (t : string) : list (Z * Z) :=
  let here := match ham p t with Some d => if d <=? e then [(i, d)] else [] | None => [] end in
  match t with EmptyString => here | String _ t' => here ++ ham_hits p e (i + 1) t' end.
Fixpoint list_of_string (s : string) : list ascii := match s with EmptyString => [] | String c t => c :: list_of_string t end.
Fixpoint sel_step (p : list ascii) (c : ascii) (diag : Z) (col : list Z) (newprev : Z) : list Z :=
  match p, col with
  | pc :: p', ci :: rest =>
    let v := Z.min (Z.min (diag + (if pm pc c then 0 else 1)) (ci + 1)) (newprev + 1) in v :: sel_step p' c ci rest v
  | _, _ => []
  end.
Fixpoint iota (i : Z) (k : nat) : list Z := match k with O => [] | S k' => i :: iota (i + 1) k' end.
Fixpoint sellers_loop (p : list ascii) (e : Z) (col : list Z) (t : string) : bool :=
  (last col 0 <=? e) ||
  match t with EmptyString => false | String c t' => sellers_loop p e (sel_step p c 0 col 0) t' end.
Definition sellers (p : string) (e : Z) (t : string) : bool :=
  let pl := list_of_string p in sellers_loop pl e (iota 1 (List.length pl)) t.
Definition c_approx (p : string) (e : Z) (indel : bool) (t : string) : bool :=
  if indel then sellers p e t else match ham_hits p e 0 t with [] => false | _ => true end.
(** BestMatch, substitutions only: the leftmost window with the fewest mismatches (indels: not modelled, never evaluated) *)
Fixpoint best_of (l : list (Z * Z)) (b : option (Z * Z)) : option (Z * Z) :=
  match l with
  | [] => b
  | (i, d) :: t => best_of t (match b with Some (_, bd) => if d <? bd then Some (i, d) else b | None => Some (i, d) end)
  end.
Definition c_best (p : string) (e : Z) (indel : bool) (t : string) : option (Z * Z * Z) :=
  match best_of (ham_hits p e 0 t) None with
  | Some (i, d) => Some (i, i + Z.of_nat (String.length p), d)
  | None => None
  end.

Definition cgopts := gopts pat pexpr string tq.
Definition mkg2 (minl maxl minc maxc : Z) (sp dp ip : list pat) (pr : list pexpr) (ra : list string)
           (ap : list (string * pat)) (il : option (list string)) (inv : bool) (m : pmode)
           (rks bel avo : list tq) (apx : list string) (e : Z) (indel fwd : bool) : cgopts :=
  MkG pat pexpr string tq minl maxl minc maxc sp dp ip pr ra ap il inv m apx e indel fwd rks bel avo.
Definition mkg (minl maxl minc maxc : Z) (sp dp ip : list pat) (pr : list pexpr) (ra : list string)
           (ap : list (string * pat)) (il : option (list string)) (inv : bool) (m : pmode)
           (rks bel avo : list tq) : cgopts :=
  mkg2 minl maxl minc maxc sp dp ip pr ra ap il inv m rks bel avo [] 0 false false.
Definition c_impl_paired (o : cgopts) := impl_paired pat pexpr string tq pat_match pexpr_eval c_approx pat_rc ctax o.
Definition c_impl_pred (o : cgopts) := impl_pred pat pexpr string tq pat_match pexpr_eval c_approx pat_rc ctax o.
Definition c_spec_sel (o : cgopts) := spec_sel pat pexpr string tq pat_match pexpr_eval c_approx pat_rc ctax o.

(** ** taxonomy edits on the small taxonomy (names are "taxon<taxid>") *)
Definition taxname (t : Z) : string := append "taxon" (show_Z t).
Definition c_at_rank (rk : string) (r : arec) : arec :=
  match tpath 32 (rtaxid r) with
  | [] => r                                                (* unknown taxid: nothing happens *)
  | path => match filter (fun n => String.eqb (snd n) rk) path with
            | (t, _) :: _ => set_attrs r (set_key (append rk "_name") (VS (taxname t)) (set_key (append rk "_taxid") (VI t) (rattrs r)))
            | [] => set_attrs r (set_key (append rk "_name") (VS "NA") (set_key (append rk "_taxid") (VI (-1)) (rattrs r)))
            end
  end.
Fixpoint join_bar (l : list string) : string :=
  match l with [] => "" | [x] => x | x :: t => append x (append "|" (join_bar t)) end.
Definition c_set_path (r : arec) : arec :=
  set_attrs r (set_key "taxonomic_path"
    (VS (join_bar (map (fun n => append (show_Z (fst n)) (append "@" (append (taxname (fst n)) (append "@" (snd n))))) (rev (tpath 32 (rtaxid r))))))
    (rattrs r)).
Definition c_set_trank (r : arec) : arec :=
  set_attrs r (set_key "taxonomic_rank" (VS (match tpath 32 (rtaxid r) with n :: _ => snd n | [] => "" end)) (rattrs r)).
Definition c_set_sciname (r : arec) : arec := set_attrs r (set_key "scienctific_name" (VS (taxname (rtaxid r))) (rattrs r)).
(** decimal keys of merged_taxid *)
Fixpoint parse_nat (s : string) (acc : Z) : Z :=
  match s with EmptyString => acc | String c t => parse_nat t (acc * 10 + (Z.of_N (N_of_ascii c) - 48)) end.
Definition lca2 (a b : Z) : Z :=
  let pb := map fst (tpath 32 b) in
  match filter (fun x => existsb (Z.eqb x) pb) (map fst (tpath 32 a)) with x :: _ => x | [] => 1 end.
Definition lca_list (l : list Z) : Z := match l with [] => 1 | x :: t => fold_left lca2 t x end.
Fixpoint replace_first (pat rep s : string) : string :=
  if String.prefix pat s then append rep (String.substring (String.length pat) (String.length s - String.length pat) s)
  else match s with EmptyString => EmptyString | String c t => String c (replace_first pat rep t) end.
Definition ends_with (suf s : string) : bool :=
  String.eqb (String.substring (String.length s - String.length suf) (String.length suf) s) suf && Nat.leb (String.length suf) (String.length s).
(** AddLCAWorker at threshold 1.0: slot naming, the merged_taxid summary created when absent, LCA of its keys, error 0 *)
Definition c_set_lca (slot : string) (r : arec) : arec :=
  let slot := if ends_with "taxid" slot then slot else append slot "_taxid" in
  let serr := let x := replace_first "taxid" "error" slot in if String.eqb x "error" then "lca_error" else x in
  let sname := let x := replace_first "taxid" "name" slot in if String.eqb x "name" then "scientific_name" else x in
  let '(m, a) := match lookup "merged_taxid" (rattrs r) with
                 | Some (VM m) => (m, rattrs r)
                 | _ => let m := [(show_Z (rtaxid r), rcount r)] in (m, set_key "merged_taxid" (VM m) (rattrs r))
                 end in
  let l := lca_list (map (fun kv => parse_nat (fst kv) 0) m) in
  set_attrs r (set_key serr (VI 0) (set_key sname (VS (taxname l)) (set_key slot (VI l) a))).
(** --aho-corasick FILE: CLIAhoCorazick lowers the patterns and drops the empty lines; every (overlapping) occurrence counts *)
Fixpoint count_occ (p t : string) : Z :=
  (if String.prefix p t then 1 else 0) + match t with EmptyString => 0 | String _ t' => count_occ p t' end.
Definition aho_total (pats : list string) (t : string) : Z := fold_left (fun a p => a + count_occ p t) pats 0.
Definition c_aho_edit (lines : list string) (r : arec) : arec :=
  let pats := map lower_str (filter (fun l => negb (String.eqb l "")) lines) in
  let nf := aho_total pats (rseq r) in let nr := aho_total pats (revcomp (rseq r)) in
  if 0 <? nf + nr then
    set_attrs r (set_key "aho_corasick_Rev" (VI nr) (set_key "aho_corasick_Fwd" (VI nf) (set_key "aho_corasick" (VI (nf + nr)) (rattrs r))))
  else r.

Definition caopts := aopts vexpr (list string) string.
Definition mka2 := MkA vexpr (list string) string.
Definition mka (cl : bool) (sid : option vexpr) (del keep : list string) (ren : list (string * string)) (len : bool)
               (st : list (string * vexpr)) (cut : option (Z * Z)) : caopts :=
  mka2 cl sid del keep ren len st cut [] false false false "" None None "pattern" 0 false false.
Definition c_impl_annot (o : caopts) :=
  impl_annot vexpr vexpr_eval c_at_rank c_set_path c_set_trank c_set_sciname c_set_lca (list string) c_aho_edit string (fun p => p) pat_rc c_best o.
Definition c_impl_annot_sel (sel : option pred) (o : caopts) :=
  impl_annot_sel vexpr vexpr_eval c_at_rank c_set_path c_set_trank c_set_sciname c_set_lca (list string) c_aho_edit string (fun p => p) pat_rc c_best sel o.

(** obidistribute classifiers (class.go): DualAnnotationClassifier, RotateClassifier (rank based), HashClassifier (not modelled: CRC32) *)
Inductive dopts := DClass (key dir na : string) | DRotate (n : Z) | DHash (n : Z).
Definition class_code (key dir na : string) (r : arec) : string * string :=
  match rattrs r with
  | [] => (na, "")
  | a => ((match lookup key a with Some v => show_val v | None => na end),
          (if String.eqb dir "" then "" else match lookup dir a with Some v => show_val v | None => na end))
  end.
Definition dist_code (d : dopts) (ir : Z * arec) : string * string :=
  match d with
  | DClass k dir na => class_code k dir na (snd ir)
  | DRotate n => (show_Z (fst ir mod n + 1), "")
  | DHash n => ("", "")
  end.
Definition pair_eqb (a b : string * string) : bool := String.eqb (fst a) (fst b) && String.eqb (snd a) (snd b).
Fixpoint number {A} (i : Z) (l : list A) : list (Z * A) :=
  match l with [] => [] | x :: t => (i, x) :: number (i + 1) t end.

(** * Correspondence cases *)
Fixpoint list_eqb0 {A} (eq : A -> A -> bool) (a b : list A) : bool :=
  match a, b with
  | [], [] => true
  | x :: a', y :: b' => eq x y && list_eqb0 eq a' b'
  | _, _ => false
  end.
Definition aval_eqb (a b : aval) : bool :=
  match a, b with
  | VS x, VS y => String.eqb x y | VI x, VI y => x =? y
  | VM x, VM y => list_eqb0 (fun p q => String.eqb (fst p) (fst q) && (snd p =? snd q)) x y
  | _, _ => false
  end.
Definition attrs_eqb (a b : list (string * aval)) : bool :=
  Nat.eqb (List.length a) (List.length b) &&
  forallb (fun kv => match lookup (fst kv) b with Some v => aval_eqb (snd kv) v | None => false end) a.
Definition arec_eqb (a b : arec) : bool :=
  String.eqb (rid a) (rid b) && attrs_eqb (rattrs a) (rattrs b) && String.eqb (rseq a) (rseq b).
Fixpoint list_eqb {A} (eq : A -> A -> bool) (a b : list A) : bool :=
  match a, b with
  | [], [] => true
  | x :: a', y :: b' => eq x y && list_eqb eq a' b'
  | _, _ => false
  end.
Definition opt_mates (m : option (list arec)) (n : nat) : list (option arec) :=
  match m with
  | Some l => map Some l
  | None => repeat None n
  end.

Inductive ccase :=
| CGrep (o : cgopts) (ds : list arec) (mates : option (list arec)) (kept : list bool)
| CAnnot (o : caopts) (sel : option cgopts) (ds : list arec) (out : list arec)
| CDist (d : dopts) (n : Z) (ds : list arec) (dest : list (string * string)) (files : list ((string * string) * list string))
(* obimultiplex: the reads as they leave the barcode worker (input order; attributes projected on obimultiplex_error), the
   batch size, -u given or not, --keep-errors, and the identifiers read from the unidentified file / stdout, in file order *)
| CMux (n : Z) (with_u keep : bool) (reads : list arec) (unid out : list string).

Definition case_ok (c : ccase) : bool :=
  match c with
  | CGrep o ds mates kept =>
    let p := match mates with
             | Some _ => c_impl_paired o
             | None => match c_impl_pred o with None => None | Some f => Some (fun r _ => f r) end
             end in
    list_eqb Bool.eqb (map (fun rm => holds2 p (fst rm) (snd rm)) (combine ds (opt_mates mates (List.length ds)))) kept
  | CAnnot o sel ds out =>
    (* obiannotate: predicate := CLISequenceSelectionPredicate() (nil when no selection option is effective) *)
    let p := match sel with Some g => c_impl_pred g | None => None end in
    list_eqb arec_eqb (flat_map (c_impl_annot_sel p o) ds) out
  | CDist d n ds dest files =>
    let items := number 0 ds in
    (* batch level (--batch-size n, the input cut in two batches): every file holds, in this order, what Distribute pushed on its output *)
    let h := Nat.div (List.length items) 2 in
    let outs := distribute_batches (Z * arec) (string * string) pair_eqb (dist_code d) (Z.to_nat n) [firstn h items; skipn h items] in
    forallb (fun kf => list_eqb String.eqb (map (fun x : Z * arec => rid (snd x)) (List.concat (get_out _ _ pair_eqb (fst kf) outs))) (snd kf)) files &&
    Nat.eqb (List.length outs) (List.length files) &&
    let sl := distribute (Z * arec) (string * string) pair_eqb (dist_code d) items in
    (* every record is found in the slice of the destination observed for it, and nowhere else *)
    list_eqb pair_eqb (map (dist_code d) items) dest &&
    forallb (fun id => existsb (fun x => arec_eqb (snd x) (snd (fst id))) (slice_of _ _ pair_eqb (snd id) sl)) (combine items dest) &&
    Nat.eqb (List.length (flat_map snd sl)) (List.length ds)
  | CMux n with_u keep reads unid out =>
    let err := fun r : arec => has_key "obimultiplex_error" (rattrs r) in
    let h := Nat.div (List.length reads) 2 in
    let bs := [firstn h reads; skipn h reads] in
    if with_u then
      (* IExtractBarcode: unidentified, out = newIter.DivideOn(HasAttribute("obimultiplex_error"), batch size) *)
      let d := divide_batches arec (Z.to_nat n) err bs in
      list_eqb String.eqb (map rid (List.concat (fst d))) unid && list_eqb String.eqb (map rid (List.concat (snd d))) out
    else
      (* without -u: out.FilterOn(HasAttribute("obimultiplex_error").Not()) unless --keep-errors *)
      let o := if keep then List.concat bs
               else List.concat (rebatch arec (Z.to_nat n) (filter_batches arec (holds (p_not (Some err))) bs)) in
      list_eqb String.eqb (map rid o) out && match unid with [] => true | _ => false end
  end.
Fixpoint mismatches_from (i : nat) (l : list ccase) : list nat :=
  match l with
  | [] => []
  | c :: l' => let rest := mismatches_from (S i) l' in if case_ok c then rest else i :: rest
  end.
Definition mismatches := mismatches_from 0.
