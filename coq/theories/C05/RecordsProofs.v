(** C05 — proofs about the record-level transforms and the monoid fold. *)
From Coq Require Import String Ascii.
From Coq Require Import List Arith NArith ZArith Bool Lia Permutation.
From OBI.Common Require Import Reseq.
From OBI.C05 Require Import Model Proofs Records.
Import ListNotations.

Section FoldProofs.
Variables (A M : Type) (op : M -> M -> M) (e : M) (g : A -> M).
Hypothesis op_assoc : forall a b c, op a (op b c) = op (op a b) c.
Hypothesis op_comm : forall a b, op a b = op b a.
Hypothesis op_neutral : forall a, op a e = a.

Definition msum (l : list M) : M := fold_right op e l.

Lemma msum_app l1 l2 : msum (l1 ++ l2) = op (msum l1) (msum l2).
Proof.
  induction l1 as [|x l1 IH]; simpl.
  - rewrite op_comm. symmetry. apply op_neutral.
  - rewrite IH. apply op_assoc.
Qed.

Lemma msum_perm l1 l2 : Permutation l1 l2 -> msum l1 = msum l2.
Proof.
  induction 1 as [|x l1 l2 _ IH|x y l|l1 l2 l3 _ IH1 _ IH2]; simpl.
  - reflexivity.
  - now rewrite IH.
  - rewrite !op_assoc. f_equal. apply op_comm.
  - now rewrite IH1.
Qed.

Lemma fold_recs_msum b : forall acc, fold_recs A M op g acc b = op acc (msum (map g b)).
Proof.
  unfold fold_recs. induction b as [|x b IH]; intros acc; simpl.
  - symmetry. apply op_neutral.
  - rewrite IH. symmetry. apply op_assoc.
Qed.

Lemma fold_batches_from arr : forall acc,
  fold_left (fold_recs A M op g) arr acc = op acc (msum (map g (concat arr))).
Proof.
  induction arr as [|b arr IH]; intros acc; simpl.
  - symmetry. apply op_neutral.
  - rewrite IH, fold_recs_msum, map_app, msum_app. symmetry. apply op_assoc.
Qed.

Lemma fold_batches_msum arr : fold_batches A M op e g arr = msum (map g (concat arr)).
Proof.
  unfold fold_batches. rewrite fold_batches_from. rewrite op_comm. apply op_neutral.
Qed.

Lemma fold_spec_msum l : fold_spec A M op e g l = msum (map g l).
Proof. unfold fold_spec. rewrite fold_recs_msum. rewrite op_comm. apply op_neutral. Qed.

Lemma perm_concat {X} (l1 l2 : list (list X)) : Permutation l1 l2 -> Permutation (concat l1) (concat l2).
Proof.
  induction 1 as [|x l1 l2 _ IH|x y l|l1 l2 l3 _ IH1 _ IH2]; simpl.
  - constructor.
  - now apply Permutation_app_head.
  - rewrite !app_assoc. apply Permutation_app_tail. apply Permutation_app_comm.
  - now transitivity (concat l2).
Qed.

(* arrival order of the batches is irrelevant, and so is the partition into batches *)
Lemma fold_any_config (l : list A) (P arr : list (list A)) :
  concat P = l -> Permutation arr P -> fold_batches A M op e g arr = fold_spec A M op e g l.
Proof.
  intros HP Harr. rewrite fold_batches_msum, fold_spec_msum. apply msum_perm.
  apply Permutation_map. rewrite <- HP. now apply perm_concat.
Qed.

Lemma fold_workers_from W : forall acc,
  fold_left (fun a w => op a (fold_batches A M op e g w)) W acc = op acc (msum (map g (concat (concat W)))).
Proof.
  induction W as [|w W IH]; intros acc; simpl.
  - symmetry. apply op_neutral.
  - rewrite IH, fold_batches_msum, concat_app, map_app, msum_app. symmetry. apply op_assoc.
Qed.

(* each worker folds the batches it happened to take, the partial results are merged afterwards *)
Lemma fold_workers_any_config (l : list A) (P : list (list A)) (W : list (list (list A))) :
  concat P = l -> Permutation (concat W) P -> fold_workers A M op e g W = fold_spec A M op e g l.
Proof.
  intros HP HW. unfold fold_workers. rewrite fold_workers_from, fold_spec_msum.
  rewrite op_comm, op_neutral. apply msum_perm, Permutation_map. rewrite <- HP. now apply perm_concat.
Qed.
End FoldProofs.

Lemma cnt_add_assoc a b c : cnt_add a (cnt_add b c) = cnt_add (cnt_add a b) c.
Proof. destruct a as [[? ?] ?], b as [[? ?] ?], c as [[? ?] ?]. unfold cnt_add. f_equal; [f_equal|]; lia. Qed.
Lemma cnt_add_comm a b : cnt_add a b = cnt_add b a.
Proof. destruct a as [[? ?] ?], b as [[? ?] ?]. unfold cnt_add. f_equal; [f_equal|]; lia. Qed.
Lemma cnt_add_zero a : cnt_add a cnt_zero = a.
Proof. destruct a as [[? ?] ?]. unfold cnt_add, cnt_zero. f_equal; [f_equal|]; lia. Qed.

Lemma count_any_config (l : list rec) (P arr : list (list rec)) :
  concat P = l -> Permutation arr P -> count_out arr = fold_spec rec cnt cnt_add cnt_zero cnt_of l.
Proof.
  unfold count_out. apply fold_any_config; [apply cnt_add_assoc|apply cnt_add_comm|apply cnt_add_zero].
Qed.

(* what the three numbers are *)
Lemma count_spec_values (l : list rec) :
  fold_spec rec cnt cnt_add cnt_zero cnt_of l =
  (Z.of_nat (length l), fold_right Z.add 0%Z (map rec_count l), fold_right Z.add 0%Z (map rec_len l)).
Proof.
  rewrite (fold_spec_msum rec cnt cnt_add cnt_zero cnt_of cnt_add_assoc cnt_add_comm cnt_add_zero).
  induction l as [|r l IH]; [reflexivity|].
  cbn [map msum fold_right length] in *. unfold msum in IH. rewrite IH. unfold cnt_of, cnt_add.
  rewrite Nat2Z.inj_succ. repeat f_equal. lia.
Qed.

(** the in-place loops of ReverseComplement = rev (map complement) / rev *)
Lemma upd_nth_length l : forall k v, length (upd_nth l k v) = length l.
Proof. induction l as [|x l IH]; intros [|k] v; simpl; auto. Qed.
Lemma upd_nth_same l : forall k v d, k < length l -> nth k (upd_nth l k v) d = v.
Proof. induction l as [|x l IH]; intros [|k] v d H; simpl in *; try lia; auto. apply IH. lia. Qed.
Lemma upd_nth_other l : forall k x v d, x <> k -> nth x (upd_nth l k v) d = nth x l d.
Proof.
  induction l as [|y l IH]; intros [|k] [|x] v d H; simpl; try reflexivity; try lia.
  apply IH. lia.
Qed.

Section RC.
Variable f : N -> N.
Variable s : list N.
Let n := length s.

Definition rc_inv (j : nat) (cur : list N) : Prop :=
  length cur = n /\
  forall x, x < n ->
    ((x < j \/ n <= x + j) -> nth x cur 0%N = f (nth (n - 1 - x) s 0%N)) /\
    ((j <= x /\ x + j < n) -> nth x cur 0%N = nth x s 0%N).

Lemma rc_inv_step j cur : rc_inv j cur -> 2 * j + 1 <= n ->
  rc_inv (S j) (upd_nth (upd_nth cur j (f (nth (n - 1 - j) cur 0%N))) (n - 1 - j) (f (nth j cur 0%N))).
Proof.
  intros [Hl Hx] Hj. split; [now rewrite !upd_nth_length|].
  assert (Hi : nth (n - 1 - j) cur 0%N = nth (n - 1 - j) s 0%N) by (apply (Hx (n - 1 - j)); lia).
  assert (Hjj : nth j cur 0%N = nth j s 0%N) by (apply (Hx j); lia).
  intros x Hxn. destruct (Nat.eq_dec x (n - 1 - j)) as [->|Ni].
  - rewrite upd_nth_same by (rewrite upd_nth_length; lia). split; intros H.
    + rewrite Hjj. f_equal. f_equal. lia.
    + lia.
  - rewrite upd_nth_other by assumption. destruct (Nat.eq_dec x j) as [->|Nj].
    + rewrite upd_nth_same by lia. split; intros H; [|lia]. now rewrite Hi.
    + rewrite upd_nth_other by assumption. destruct (Hx x Hxn) as [H1 H2]. split; intros H.
      * apply H1. lia.
      * apply H2. lia.
Qed.

Lemma rc_loop_inv : forall fuel j cur, rc_inv j cur -> n <= 2 * j + 2 * fuel ->
  rc_inv (S n) (rc_loop f fuel j cur) \/ exists j', n <= 2 * j' /\ rc_inv j' (rc_loop f fuel j cur).
Proof.
  induction fuel as [|fuel IH]; intros j cur Inv Hf; simpl.
  - right. exists j. split; [lia|assumption].
  - destruct Inv as [Hl Hx]. rewrite Hl. fold n.
    destruct (Nat.leb_spec (j + (j + 0) + 1) n) as [Hle|Hgt].
    + apply IH; [|lia]. apply rc_inv_step; [split; assumption|lia].
    + right. exists j. split; [lia|split; assumption].
Qed.

Lemma rc_inv_done j cur : n <= 2 * j -> rc_inv j cur -> cur = rev (map f s).
Proof.
  intros Hj [Hl Hx].
  assert (Lm : length (map f s) = n) by apply map_length.
  apply (nth_ext _ _ 0%N 0%N).
  - rewrite rev_length. congruence.
  - intros x Hlt. rewrite Hl in Hlt. destruct (Hx x Hlt) as [H1 _]. rewrite H1 by lia.
    rewrite rev_nth by lia. rewrite Lm.
    replace (n - S x) with (n - 1 - x) by lia.
    rewrite (nth_indep (map f s) 0%N (f 0%N)) by lia.
    now rewrite map_nth.
Qed.

Theorem rc_loop_spec : rc_loop f (length s) 0 s = rev (map f s).
Proof.
  fold n.
  assert (I0 : rc_inv 0 s).
  { split; [reflexivity|]. intros x Hx. split; intros H; [lia|reflexivity]. }
  destruct (rc_loop_inv n 0 s I0 ltac:(lia)) as [H|[j' [Hj' H]]].
  - eapply (rc_inv_done (S n)); [lia|exact H].
  - eapply rc_inv_done; eassumption.
Qed.
End RC.

Lemma revcomp_loop_spec r : revcomp_rec r = revcomp_spec r.
Proof.
  unfold revcomp_rec, revcomp_spec, revcomp_inplace, reverse_inplace. f_equal.
  - apply rc_loop_spec.
  - destruct (rqual r) as [q|]; [|reflexivity]. cbn [option_map]. f_equal.
    rewrite rc_loop_spec. now rewrite map_id.
Qed.

(* reverse complement: involutive on lower-case IUPAC DNA *)
Definition iupac_lower : list N := map (fun a => N_of_ascii a) (list_ascii_of_string "acgtnrykmswbdhv.-").
Definition is_iupac_lower (c : N) : bool := existsb (N.eqb c) iupac_lower.
Lemma comp_involutive_iupac c : is_iupac_lower c = true -> nuc_complement (nuc_complement c) = c.
Proof.
  unfold is_iupac_lower. rewrite existsb_exists. intros [x [Hin Hx]]. apply N.eqb_eq in Hx. subst x.
  vm_compute in Hin. repeat (destruct Hin as [<-|Hin]; [vm_compute; reflexivity|]). destruct Hin.
Qed.
Lemma revcomp_involutive r :
  forallb is_iupac_lower (rseq r) = true -> revcomp_rec (revcomp_rec r) = r.
Proof.
  intros H. rewrite !revcomp_loop_spec. destruct r as [i s q a]. unfold revcomp_spec. cbn [rid rseq rqual rann] in *. f_equal.
  - rewrite map_rev, rev_involutive, map_map.
    rewrite forallb_forall in H. rewrite <- (map_id s) at 2. apply map_ext_in.
    intros c Hc. now apply comp_involutive_iupac, H.
  - destruct q as [q|]; [|reflexivity]. cbn. now rewrite rev_involutive.
Qed.
Lemma revcomp_length r : length (rseq (revcomp_rec r)) = length (rseq r).
Proof. rewrite revcomp_loop_spec. unfold revcomp_spec. cbn. now rewrite rev_length, map_length. Qed.

(** the statements of Props.v *)
Lemma cmd_any_config (c : cmd) (l : list rec) (P : list (list rec)) (arr : list (nat * list rec)) :
  concat P = l -> Permutation arr (numbered (map (on_batch rec rec (cmd_f c)) P)) ->
  pipeline_out rec arr = flat_map (cmd_f c) l.
Proof. exact (pipeline_any_config rec rec (cmd_f c) l P arr). Qed.

Lemma csv_any_config (keys : list (list N)) (l : list rec) (P : list (list rec)) (arr : list (nat * list (list aval))) :
  concat P = l -> Permutation arr (numbered (map (on_batch rec (list aval) (csv_f keys)) P)) ->
  pipeline_out (list aval) arr = flat_map (csv_f keys) l.
Proof. exact (pipeline_any_config rec (list aval) (csv_f keys) l P arr). Qed.

Lemma count_any_config_values (l : list rec) (P arr : list (list rec)) :
  concat P = l -> Permutation arr P ->
  count_out arr = (Z.of_nat (length l), fold_right Z.add 0%Z (map rec_count l), fold_right Z.add 0%Z (map rec_len l)).
Proof. intros HP Ha. rewrite (count_any_config l P arr HP Ha). apply count_spec_values. Qed.
