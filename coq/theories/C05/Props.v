(** C05 — property theorems: command output is a function of input and options, not of parallelism. *)
From Coq Require Import List Arith NArith Bool Permutation.
From OBI.Common Require Import Reseq.
From OBI.C05 Require Import Model Proofs Records RecordsProofs.
From Coq Require Import ZArith NArith.
From Coq Require Import String.
From Coq Require Import List.
Import ListNotations.

(** Whatever the partition of the input into batches (batch size, reader chunking: [P], empty batches
    included) and whatever the order in which the transformed batches reach the writer (worker
    count, GOMAXPROCS, scheduling: [arr], ANY permutation), the records written are [flat_map f] of
    the input records, in input order. *)
Theorem C05_pipeline_any_config : forall (A B : Type) (f : A -> list B) (l : list A) (P : list (list A)) (arr : list (nat * list B)),
  concat P = l -> Permutation arr (numbered (map (on_batch A B f) P)) ->
  pipeline_out B arr = flat_map f l.
Proof. exact pipeline_any_config. Qed.

Theorem C05_config_independent : forall (A B : Type) (f : A -> list B) (l : list A) P1 P2 arr1 arr2,
  concat P1 = l -> concat P2 = l ->
  Permutation arr1 (numbered (map (on_batch A B f) P1)) ->
  Permutation arr2 (numbered (map (on_batch A B f) P2)) ->
  pipeline_out B arr1 = pipeline_out B arr2.
Proof. exact config_independent. Qed.

(** Ownership model of the buffer pool: in EVERY interleaving of the operations of any number of
    agents that respects the ownership discipline (only the owner writes/reads/releases a buffer,
    only free buffers are handed out), what an agent believes its buffers contain — computed from
    its own operations alone — is what the memory holds: recycling by others never alters it. *)
Theorem C05_no_use_after_recycle : forall t h', hrun empty_heap t = Some h' ->
  forall a d x, view a t no_view d = Some x -> owner h' d = Some a /\ mem h' d = x.
Proof. exact no_interference. Qed.

Theorem C05_read_own_write : forall t1 t2 a d x h',
  hrun empty_heap (t1 ++ [HWrite a d x] ++ t2 ++ [HRead a d]) = Some h' ->
  (forall o, In o t2 -> match o with HWrite a' d' _ | HRecycle a' d' | HGet a' d' => a' <> a \/ d' <> d | HRead _ _ => True end) ->
  mem h' d = x.
Proof. exact read_own_write. Qed.

(** The validator of real pool traces only accepts traces in which no buffer is ever in the pool twice
    (a buffer released twice would be handed to two owners). *)
Theorem C05_pool_trace_no_duplicate : forall t p, NoDup (map snd p) ->
  Forall (fun q => NoDup (map snd q)) (pool_states p t).
Proof. exact pool_no_duplicate. Qed.

(** the validator rejects the two ownership violations (non-vacuity of the rejection verdicts) *)
Theorem C05_validator_rejects_double_recycle :
  pool_check [PR 10 100; PR 11 100]%N = Some (1, DoubleRecycle).
Proof. vm_compute. reflexivity. Qed.
Theorem C05_validator_rejects_live_handout :
  pool_check [PR 10 100; PG 10 200]%N = Some (1, LiveBufferHandedOut).
Proof. vm_compute. reflexivity. Qed.

Theorem C05_validator_rejects_shared_header :
  pool_check [PR 10 100; PG 10 0]%N = Some (1, HeaderModifiedInPool).
Proof. vm_compute. reflexivity. Qed.
Theorem C05_validator_accepts_private_header :
  pool_check [PG 7 70; PR 10 100; PG 10 100; PR 11 100; PG 11 100]%N = None.
Proof. vm_compute. reflexivity. Qed.

(** ---- the per-record function of the commands (Records.v), tied to the real commands by correspondence ---- *)

(** obiconvert / obicomplement / obigrep (length, count, -v) / obiannotate --length: for every batch
    partition and every arrival permutation the records written are [flat_map (cmd_f c)] of the input. *)
Theorem C05_cmd_any_config : forall (c : cmd) (l : list rec) (P : list (list rec)) (arr : list (nat * list rec)),
  concat P = l -> Permutation arr (numbered (map (on_batch rec rec (cmd_f c)) P)) ->
  pipeline_out rec arr = flat_map (cmd_f c) l.
Proof. exact cmd_any_config. Qed.

(** Folding commands (obicount; obisummary's merge of per-worker partial results): in ANY commutative
    monoid, the result of consuming the batches in arrival order — no order restoration — is the
    sequential fold of the input, for every batch partition and every arrival permutation. *)
Theorem C05_fold_any_config : forall (A M : Type) (op : M -> M -> M) (e : M) (g : A -> M),
  (forall a b c, op a (op b c) = op (op a b) c) -> (forall a b, op a b = op b a) -> (forall a, op a e = a) ->
  forall (l : list A) (P arr : list (list A)),
  concat P = l -> Permutation arr P -> fold_batches A M op e g arr = fold_spec A M op e g l.
Proof. exact fold_any_config. Qed.

Theorem C05_fold_workers_any_config : forall (A M : Type) (op : M -> M -> M) (e : M) (g : A -> M),
  (forall a b c, op a (op b c) = op (op a b) c) -> (forall a b, op a b = op b a) -> (forall a, op a e = a) ->
  forall (l : list A) (P : list (list A)) (W : list (list (list A))),
  concat P = l -> Permutation (concat W) P -> fold_workers A M op e g W = fold_spec A M op e g l.
Proof. exact fold_workers_any_config. Qed.

(** obicount: (variants, reads, symbols) whatever the batches and their arrival order, and what they are. *)
Theorem C05_count_any_config : forall (l : list rec) (P arr : list (list rec)),
  concat P = l -> Permutation arr P ->
  count_out arr = (Z.of_nat (length l), fold_right Z.add 0%Z (map rec_count l), fold_right Z.add 0%Z (map rec_len l)).
Proof. exact count_any_config_values. Qed.

(** sanity of the modelled reverse complement: an involution on lower-case IUPAC DNA, length preserving *)
Theorem C05_revcomp_involutive : forall r,
  forallb is_iupac_lower (rseq r) = true -> revcomp_rec (revcomp_rec r) = r.
Proof. exact revcomp_involutive. Qed.

(** obicomplement's per-record function is the transcription of the two in-place loops of
    BioSequence.ReverseComplement (sequence: swap and complement, qualities: swap); they compute the reverse
    complement / the reverse, for every length (the middle base of an odd length is complemented once). *)
Theorem C05_revcomp_loop_spec : forall r,
  revcomp_rec r = mkrec (rid r) (rev (map nuc_complement (rseq r))) (option_map (@rev N) (rqual r)) (rann r).
Proof. exact revcomp_loop_spec. Qed.

(** obicsv (--ids --count -s -k ...): one row per record, same theorem with rows as output type. *)
Theorem C05_csv_any_config : forall (keys : list (list N)) (l : list rec) (P : list (list rec)) (arr : list (nat * list (list aval))),
  concat P = l -> Permutation arr (numbered (map (on_batch rec (list aval) (csv_f keys)) P)) ->
  pipeline_out (list aval) arr = flat_map (csv_f keys) l.
Proof. exact csv_any_config. Qed.

Example C05_nonvacuous :
  (* a 3-batch configuration with an empty batch, arrival order 2,0,1, f duplicating records *)
  pipeline_out nat [(2, [5;5]); (0, [1;1;2;2]); (1, [])] = flat_map (fun x => [x;x]) [1;2;5]
  /\ revcomp_inplace (s2b "aacgn") = s2b "ncgtt"
  /\ exists h', hrun empty_heap [HGet 1 7; HWrite 1 7 [3%N]; HGet 2 8; HWrite 2 8 [4%N]; HRecycle 2 8; HGet 3 8; HWrite 3 8 [9%N]; HRead 1 7] = Some h'
                /\ mem h' 7 = [3%N].
Proof. split; [vm_compute; reflexivity|split; [vm_compute; reflexivity|eexists; split; vm_compute; reflexivity]]. Qed.

Print Assumptions C05_pipeline_any_config.
Print Assumptions C05_config_independent.
Print Assumptions C05_no_use_after_recycle.
Print Assumptions C05_read_own_write.
Print Assumptions C05_pool_trace_no_duplicate.
Print Assumptions C05_validator_rejects_double_recycle.
Print Assumptions C05_validator_rejects_live_handout.
Print Assumptions C05_validator_rejects_shared_header.
Print Assumptions C05_validator_accepts_private_header.
Print Assumptions C05_cmd_any_config.
Print Assumptions C05_fold_any_config.
Print Assumptions C05_fold_workers_any_config.
Print Assumptions C05_count_any_config.
Print Assumptions C05_revcomp_involutive.
Print Assumptions C05_revcomp_loop_spec.
Print Assumptions C05_csv_any_config.
