(** C05 — property theorems: command output is a function of input and options, not of parallelism. *)
From Coq Require Import List Arith NArith Bool Permutation.
From OBI.Common Require Import Reseq.
From OBI.C05 Require Import Model Proofs Records RecordsProofs Stages StagesProofs Summary SummaryProofs.
From Coq Require Import ZArith NArith.
From Coq Require Import String.
From Coq Require Import List.
Import ListNotations.

(** Whatever the partition of the input into batches (batch size, reader chunking: [P], empty batches
    included) and whatever the order in which the transformed batches reach the writer (worker
    count, GOMAXPROCS, scheduling: [arr], ANY permutation), the records written are [flat_map f] of
    the input records, in input order. *)
Theorem C05_pipeline_any_config : forall (A B : Type) (f : A -> list B) (l : list A) (P : list (list A)) (arr : list (nat * list B)),
  concat P = l -> Permutation arr (numbered (map (on_batch A B f) P)) ->
  pipeline_out B arr = flat_map f l.
Proof. exact pipeline_any_config. Qed.

Theorem C05_config_independent : forall (A B : Type) (f : A -> list B) (l : list A) P1 P2 arr1 arr2,
  concat P1 = l -> concat P2 = l ->
  Permutation arr1 (numbered (map (on_batch A B f) P1)) ->
  Permutation arr2 (numbered (map (on_batch A B f) P2)) ->
  pipeline_out B arr1 = pipeline_out B arr2.
Proof. exact config_independent. Qed.

(** Ownership model of the buffer pool: in EVERY interleaving of the operations of any number of
    agents that respects the ownership discipline (only the owner writes/reads/releases a buffer,
    only free buffers are handed out), what an agent believes its buffers contain — computed from
    its own operations alone — is what the memory holds: recycling by others never alters it. *)
Theorem C05_no_use_after_recycle : forall t h', hrun empty_heap t = Some h' ->
  forall a d x, view a t no_view d = Some x -> owner h' d = Some a /\ mem h' d = x.
Proof. exact no_interference. Qed.

Theorem C05_read_own_write : forall t1 t2 a d x h',
  hrun empty_heap (t1 ++ [HWrite a d x] ++ t2 ++ [HRead a d]) = Some h' ->
  (forall o, In o t2 -> match o with HWrite a' d' _ | HRecycle a' d' | HGet a' d' => a' <> a \/ d' <> d | HRead _ _ => True end) ->
  mem h' d = x.
Proof. exact read_own_write. Qed.

(** The validator of real pool traces only accepts traces in which no buffer is ever in the pool twice
    (a buffer released twice would be handed to two owners). *)
Theorem C05_pool_trace_no_duplicate : forall t p, NoDup (map snd p) ->
  Forall (fun q => NoDup (map snd q)) (pool_states p t).
Proof. exact pool_no_duplicate. Qed.

(** the validator rejects the two ownership violations (non-vacuity of the rejection verdicts) *)
Theorem C05_validator_rejects_double_recycle :
  pool_check [PR 10 100; PR 11 100]%N = Some (1, DoubleRecycle).
Proof. vm_compute. reflexivity. Qed.
Theorem C05_validator_rejects_live_handout :
  pool_check [PR 10 100; PG 10 200]%N = Some (1, LiveBufferHandedOut).
Proof. vm_compute. reflexivity. Qed.

Theorem C05_validator_rejects_shared_header :
  pool_check [PR 10 100; PG 10 0]%N = Some (1, HeaderModifiedInPool).
Proof. vm_compute. reflexivity. Qed.
Theorem C05_validator_accepts_private_header :
  pool_check [PG 7 70; PR 10 100; PG 10 100; PR 11 100; PG 11 100]%N = None.
Proof. vm_compute. reflexivity. Qed.

(** ---- the per-record function of the commands (Records.v), tied to the real commands by correspondence ---- *)

(** obiconvert / obicomplement / obigrep (length, count, -v) / obiannotate --length: for every batch
    partition and every arrival permutation the records written are [flat_map (cmd_f c)] of the input. *)
Theorem C05_cmd_any_config : forall (c : cmd) (l : list rec) (P : list (list rec)) (arr : list (nat * list rec)),
  concat P = l -> Permutation arr (numbered (map (on_batch rec rec (cmd_f c)) P)) ->
  pipeline_out rec arr = flat_map (cmd_f c) l.
Proof. exact cmd_any_config. Qed.

(** Folding commands (obicount; obisummary's merge of per-worker partial results): in ANY commutative
    monoid, the result of consuming the batches in arrival order — no order restoration — is the
    sequential fold of the input, for every batch partition and every arrival permutation. *)
Theorem C05_fold_any_config : forall (A M : Type) (op : M -> M -> M) (e : M) (g : A -> M),
  (forall a b c, op a (op b c) = op (op a b) c) -> (forall a b, op a b = op b a) -> (forall a, op a e = a) ->
  forall (l : list A) (P arr : list (list A)),
  concat P = l -> Permutation arr P -> fold_batches A M op e g arr = fold_spec A M op e g l.
Proof. exact fold_any_config. Qed.

Theorem C05_fold_workers_any_config : forall (A M : Type) (op : M -> M -> M) (e : M) (g : A -> M),
  (forall a b c, op a (op b c) = op (op a b) c) -> (forall a b, op a b = op b a) -> (forall a, op a e = a) ->
  forall (l : list A) (P : list (list A)) (W : list (list (list A))),
  concat P = l -> Permutation (concat W) P -> fold_workers A M op e g W = fold_spec A M op e g l.
Proof. exact fold_workers_any_config. Qed.

(** obicount: (variants, reads, symbols) whatever the batches and their arrival order, and what they are. *)
Theorem C05_count_any_config : forall (l : list rec) (P arr : list (list rec)),
  concat P = l -> Permutation arr P ->
  count_out arr = (Z.of_nat (length l), fold_right Z.add 0%Z (map rec_count l), fold_right Z.add 0%Z (map rec_len l)).
Proof. exact count_any_config_values. Qed.

(** sanity of the modelled reverse complement: an involution on lower-case IUPAC DNA, length preserving *)
Theorem C05_revcomp_involutive : forall r,
  forallb is_iupac_lower (rseq r) = true -> revcomp_rec (revcomp_rec r) = r.
Proof. exact revcomp_involutive. Qed.

(** obicomplement's per-record function is the transcription of the two in-place loops of
    BioSequence.ReverseComplement (sequence: swap and complement, qualities: swap); they compute the reverse
    complement / the reverse, for every length (the middle base of an odd length is complemented once). *)
Theorem C05_revcomp_loop_spec : forall r,
  revcomp_rec r = mkrec (rid r) (rev (map nuc_complement (rseq r))) (option_map (@rev N) (rqual r)) (rann r).
Proof. exact revcomp_loop_spec. Qed.

(** obicsv (--ids --count -s -k ...): one row per record, same theorem with rows as output type. *)
Theorem C05_csv_any_config : forall (keys : list (list N)) (l : list rec) (P : list (list rec)) (arr : list (nat * list (list aval))),
  concat P = l -> Permutation arr (numbered (map (on_batch rec (list aval) (csv_f keys)) P)) ->
  pipeline_out (list aval) arr = flat_map (csv_f keys) l.
Proof. exact csv_any_config. Qed.

(** ---- round 3: stages that merge or split streams, and the merge of obisummary's partial summaries ---- *)

(** IBioSequence.Concat (transcribed renumbering: order + previous_max, previous_max = largest number pushed + 1):
    whatever the arrival order inside each of the iterators (each one any permutation of its numbered batches), the
    batches pushed downstream are, up to order, the numbered batches of the streams put one after the other ... *)
Theorem C05_concat_any_arrival : forall (X : Type) (bss : list (list X)) (its : list (list (nat * X))),
  Forall2 (fun it bs => Permutation it (numbered bs)) its bss ->
  Permutation (concat_stage X its) (numbered (concat bss)).
Proof. exact concat_numbering. Qed.

(** ... so the order-restoring consumer delivers the first stream, then the second, and so on. *)
Theorem C05_concat_output : forall (X : Type) (bss : list (list X)) (its : list (list (nat * X))),
  Forall2 (fun it bs => Permutation it (numbered bs)) its bss ->
  out (run (concat_stage X its)) = concat bss.
Proof. exact concat_stage_output. Qed.

(** IBioSequence.DivideOn (transcribed loop with its two buffers and two counters), every batch size: both output
    streams are numbered 0, 1, 2, ... without hole, and carry in input order the selected / the rejected records. *)
Theorem C05_divide_spec : forall (A : Type) (size : nat) (p : A -> bool) (l : list A),
  let T := fst (divide A size p l) in let F := snd (divide A size p l) in
  map fst T = seq 0 (length T) /\ concat (map snd T) = filter p l /\
  map fst F = seq 0 (length F) /\ concat (map snd F) = filter (fun x => negb (p x)) l.
Proof. exact divide_spec. Qed.

Theorem C05_divide_output : forall (A : Type) (size : nat) (p : A -> bool) (l : list A),
  concat (out (run (fst (divide A size p l)))) = filter p l /\
  concat (out (run (snd (divide A size p l)))) = filter (fun x => negb (p x)) l.
Proof. exact divide_output. Qed.

(** IBioSequence.Rebatch(size), size >= 1 (transcribed loop: space, to_push, remains, buffer): the batches pushed are numbered
    0, 1, 2, ... without hole, carry the records of the incoming (sorted) batches in order, and all hold [size] records
    except the last one, which is neither empty nor larger. *)
Theorem C05_rebatch_spec : forall (A : Type) (size : nat), 0 < size -> forall (batches : list (list A)),
  let R := rebatch A size batches in
  map fst R = seq 0 (length R) /\ concat (map snd R) = concat batches /\
  Forall (fun b => 0 < length (snd b) <= size) R /\
  Forall (fun b => length (snd b) = size) (removelast R).
Proof. exact rebatch_spec. Qed.

(** obisummary (DataSummary.Update / Add / ISummary transcribed over one table of counters): whatever the partition of
    the input into batches [P], whatever the batches each worker happened to take [W] and hence the order of the merge,
    EVERY counter of the merged summary (the six integers and every entry of the seven maps, absent entries included)
    reads as in the summary computed by one worker in one pass ... *)
Theorem C05_summary_any_config : forall (c : ctr) (l : list srec) (P : list (list srec)) (W : list (list (list srec))),
  concat P = l -> Permutation (concat W) P -> Summary.get c (summ_workers W) = Summary.get c (summ_seq l).
Proof. exact summary_any_config. Qed.

(** ... and every map has the same number of keys (what is printed as scalar_attributes, sample_count, ...). *)
Theorem C05_summary_keys_any_config : forall (l : list srec) (P : list (list srec)) (W : list (list (list srec))) (n : N),
  concat P = l -> Permutation (concat W) P -> nkeys n (summ_workers W) = nkeys n (summ_seq l).
Proof. exact nkeys_any_config. Qed.

(** DataSummary.Add is the counter-wise sum (an entry absent on both sides stays absent). *)
Theorem C05_summary_add_is_sum : forall (c : ctr) (s1 s2 : summary), Summary.get c (add s1 s2) = oadd (Summary.get c s1) (Summary.get c s2).
Proof. exact add_is_sum. Qed.

Example C05_round3_nonvacuous :
  (* Concat of two iterators whose batches arrive as 1,0 and 2,0,1: renumbered 1,0,4,2,3 *)
  concat_stage nat [[(1, 11); (0, 10)]; [(2, 22); (0, 20); (1, 21)]] = [(1, 11); (0, 10); (4, 22); (2, 20); (3, 21)]
  /\ out (run (concat_stage nat [[(1, 11); (0, 10)]; [(2, 22); (0, 20); (1, 21)]])) = [10; 11; 20; 21; 22]
  (* Rebatch(3) of batches of 2, 4, 0 and 1 records *)
  /\ rebatch nat 3 [[1; 2]; [3; 4; 5; 6]; []; [7]] = [(0, [1; 2; 3]); (1, [4; 5; 6]); (2, [7])]
  (* DivideOn with batches of 2 on 1..7, even numbers selected *)
  /\ divide nat 2 Nat.even [1; 2; 3; 4; 5; 6; 7] = ([(0, [2; 4]); (1, [6])], [(0, [1; 3]); (1, [5; 7])])
  (* two workers sharing three batches of records carrying a sample: the merged table has another layout than the
     one-pass table but reads the same *)
  /\ (let r := fun (k : N) (n : Z) => mksrec n 10 None None (Some [k]) false false [([115%N], TScalar)] in
      let l := [r 65%N 1%Z; r 66%N 2%Z; r 65%N 3%Z; r 67%N 1%Z] in
      let W := [[[r 67%N 1%Z]]; [[r 65%N 3%Z]; [r 65%N 1%Z; r 66%N 2%Z]]] in
      summ_workers W <> summ_seq l /\ Summary.get (K 9 [65%N]) (summ_workers W) = Some 4%Z /\ Summary.get (K 9 [65%N]) (summ_seq l) = Some 4%Z
      /\ Summary.get (K 11 [67%N]) (summ_workers W) = Some 1%Z /\ Summary.get (K 11 [66%N]) (summ_workers W) = None /\ nkeys 9 (summ_workers W) = 3%nat).
Proof.
  repeat split; try (vm_compute; reflexivity). vm_compute. discriminate.
Qed.

Example C05_nonvacuous :
  (* a 3-batch configuration with an empty batch, arrival order 2,0,1, f duplicating records *)
  pipeline_out nat [(2, [5;5]); (0, [1;1;2;2]); (1, [])] = flat_map (fun x => [x;x]) [1;2;5]
  /\ revcomp_inplace (s2b "aacgn") = s2b "ncgtt"
  /\ exists h', hrun empty_heap [HGet 1 7; HWrite 1 7 [3%N]; HGet 2 8; HWrite 2 8 [4%N]; HRecycle 2 8; HGet 3 8; HWrite 3 8 [9%N]; HRead 1 7] = Some h'
                /\ mem h' 7 = [3%N].
Proof. split; [vm_compute; reflexivity|split; [vm_compute; reflexivity|eexists; split; vm_compute; reflexivity]]. Qed.

Print Assumptions C05_pipeline_any_config.
Print Assumptions C05_config_independent.
Print Assumptions C05_no_use_after_recycle.
Print Assumptions C05_read_own_write.
Print Assumptions C05_pool_trace_no_duplicate.
Print Assumptions C05_validator_rejects_double_recycle.
Print Assumptions C05_validator_rejects_live_handout.
Print Assumptions C05_validator_rejects_shared_header.
Print Assumptions C05_validator_accepts_private_header.
Print Assumptions C05_cmd_any_config.
Print Assumptions C05_fold_any_config.
Print Assumptions C05_fold_workers_any_config.
Print Assumptions C05_count_any_config.
Print Assumptions C05_revcomp_involutive.
Print Assumptions C05_revcomp_loop_spec.
Print Assumptions C05_csv_any_config.
Print Assumptions C05_concat_any_arrival.
Print Assumptions C05_concat_output.
Print Assumptions C05_divide_spec.
Print Assumptions C05_divide_output.
Print Assumptions C05_rebatch_spec.
Print Assumptions C05_summary_any_config.
Print Assumptions C05_summary_keys_any_config.
Print Assumptions C05_summary_add_is_sum.
