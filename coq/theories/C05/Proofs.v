(** C05 — proofs. *)
From Coq Require Import List Arith NArith Bool Lia Permutation.
From OBI.Common Require Import Reseq.
From OBI.C05 Require Import Model.
Import ListNotations.

Section Pipe.
Variables (A B : Type) (f : A -> list B).

Lemma concat_map_flat_map (P : list (list A)) : concat (map (on_batch A B f) P) = flat_map f (concat P).
Proof.
  induction P as [|b P IH]; simpl; [reflexivity|]. rewrite IH. unfold on_batch.
  rewrite flat_map_app. reflexivity.
Qed.

Lemma pipeline_any_config (l : list A) (P : list (list A)) (arr : list (nat * list B)) :
  concat P = l -> Permutation arr (numbered (map (on_batch A B f) P)) ->
  pipeline_out B arr = flat_map f l.
Proof.
  intros HP Harr. unfold pipeline_out, flatten.
  destruct (reseq_any_permutation (list B) _ _ Harr) as [Ho _]. rewrite Ho.
  rewrite concat_map_flat_map, HP. reflexivity.
Qed.

Lemma config_independent (l : list A) P1 P2 arr1 arr2 :
  concat P1 = l -> concat P2 = l ->
  Permutation arr1 (numbered (map (on_batch A B f) P1)) ->
  Permutation arr2 (numbered (map (on_batch A B f) P2)) ->
  pipeline_out B arr1 = pipeline_out B arr2.
Proof. intros. rewrite (pipeline_any_config l P1 arr1), (pipeline_any_config l P2 arr2); auto. Qed.
End Pipe.

(** heap non-interference *)
Lemma upd_same {X} (m : nat -> X) k v : upd m k v k = v.
Proof. unfold upd. now rewrite Nat.eqb_refl. Qed.
Lemma upd_other {X} (m : nat -> X) k k' v : k' <> k -> upd m k v k' = m k'.
Proof. unfold upd. intros H. destruct (Nat.eqb_spec k' k); congruence. Qed.

Definition agrees (a : nat) (h : heap) (v : nat -> option bytes) : Prop :=
  forall d x, v d = Some x -> owner h d = Some a /\ mem h d = x.

Lemma step_agrees a h o v : enabled h o = true -> agrees a h v ->
  agrees a (hstep h o)
    match o with
    | HGet a' d => if Nat.eqb a a' then upd v d (Some []) else v
    | HWrite a' d x => if Nat.eqb a a' then upd v d (Some x) else v
    | HRecycle a' d => if Nat.eqb a a' then upd v d None else v
    | HRead _ _ => v
    end.
Proof.
  intros En Ag. destruct o as [a' d'|a' d' x'|a' d'|a' d']; simpl in *.
  - destruct (owner h d') eqn:Eo; [discriminate|].
    destruct (Nat.eqb_spec a a') as [->|Na]; intros d x Hv.
    + destruct (Nat.eq_dec d d') as [->|Nd].
      * rewrite upd_same in Hv. injection Hv as <-. simpl. now rewrite !upd_same.
      * rewrite upd_other in Hv by assumption. simpl. rewrite !upd_other by assumption. now apply Ag.
    + destruct (Ag d x Hv) as [O M]. assert (d <> d') by congruence.
      simpl. rewrite !upd_other by assumption. tauto.
  - destruct (owner h d') as [o'|] eqn:Eo; [|discriminate]. apply Nat.eqb_eq in En. subst o'.
    destruct (Nat.eqb_spec a a') as [->|Na]; intros d x Hv.
    + destruct (Nat.eq_dec d d') as [->|Nd].
      * rewrite upd_same in Hv. injection Hv as <-. simpl. now rewrite upd_same.
      * rewrite upd_other in Hv by assumption. simpl. rewrite upd_other by assumption. now apply Ag.
    + destruct (Ag d x Hv) as [O M]. assert (d <> d') by congruence.
      simpl. rewrite upd_other by assumption. tauto.
  - destruct (owner h d') as [o'|] eqn:Eo; [|discriminate]. apply Nat.eqb_eq in En. subst o'.
    destruct (Nat.eqb_spec a a') as [->|Na]; intros d x Hv.
    + destruct (Nat.eq_dec d d') as [->|Nd].
      * rewrite upd_same in Hv. discriminate.
      * rewrite upd_other in Hv by assumption. simpl. rewrite !upd_other by assumption. now apply Ag.
    + destruct (Ag d x Hv) as [O M]. assert (d <> d') by congruence.
      simpl. rewrite !upd_other by assumption. tauto.
  - exact Ag.
Qed.

Lemma run_agrees a t : forall h v h', agrees a h v -> hrun h t = Some h' -> agrees a h' (view a t v).
Proof.
  induction t as [|o t IH]; intros h v h' Ag R; simpl in *.
  - injection R as <-. exact Ag.
  - destruct (enabled h o) eqn:En; [|discriminate].
    eapply IH; [|exact R]. apply step_agrees; assumption.
Qed.

Theorem no_interference t h' : hrun empty_heap t = Some h' ->
  forall a d x, view a t no_view d = Some x -> owner h' d = Some a /\ mem h' d = x.
Proof.
  intros R a d x Hv. eapply (run_agrees a t empty_heap no_view h'); [|exact R|exact Hv].
  intros d0 x0 H0. discriminate.
Qed.

(** a read therefore returns the reader's own last write, whatever the interleaving *)
Corollary read_own_write t1 t2 a d x h' :
  hrun empty_heap (t1 ++ [HWrite a d x] ++ t2 ++ [HRead a d]) = Some h' ->
  (forall o, In o t2 -> match o with HWrite a' d' _ | HRecycle a' d' | HGet a' d' => a' <> a \/ d' <> d | HRead _ _ => True end) ->
  mem h' d = x.
Proof.
  intros R Hno.
  assert (V : view a (t1 ++ [HWrite a d x] ++ t2 ++ [HRead a d]) no_view d = Some x).
  { assert (G : forall t v, (forall o, In o t -> match o with HWrite a' d' _ | HRecycle a' d' | HGet a' d' => a' <> a \/ d' <> d | HRead _ _ => True end) ->
                 view a t v d = v d).
    { induction t as [|o t IH]; intros v Ht; simpl; [reflexivity|].
      rewrite IH by (intros o' Ho'; apply Ht; now right).
      specialize (Ht o (or_introl eq_refl)).
      destruct o as [a' d'|a' d' x'|a' d'|a' d']; try reflexivity;
        (destruct (Nat.eqb_spec a a') as [->|]; [|reflexivity]);
        (destruct Ht as [Ht|Ht]; [congruence|]); now rewrite upd_other by congruence. }
    assert (Vapp : forall t t' v, view a (t ++ t') v = view a t' (view a t v)).
    { induction t as [|o t IH]; intros t' v; simpl; [reflexivity|apply IH]. }
    rewrite Vapp. simpl app. cbn [view]. rewrite Nat.eqb_refl. rewrite Vapp. cbn [view].
    rewrite G by assumption. apply upd_same. }
  exact (proj2 (no_interference _ _ R a d x V)).
Qed.

(** pool traces: an accepted step keeps "no buffer twice in the pool" *)
Lemma has_data_In d p : has_data d p = true <-> In d (map snd p).
Proof.
  induction p as [|[h' d'] p IH]; simpl; [split; [discriminate|tauto]|].
  rewrite orb_true_iff, IH, N.eqb_eq. intuition.
Qed.
Lemma remove_entry_incl h d p x : In x (map snd (remove_entry h d p)) -> In x (map snd p).
Proof.
  induction p as [|[h' d'] p IH]; simpl; [tauto|]. destruct (N.eqb h h' && N.eqb d d'); simpl; intuition.
Qed.
Lemma remove_holder_incl h p x : In x (map snd (remove_holder h p)) -> In x (map snd p).
Proof.
  induction p as [|[h' d'] p IH]; simpl; [tauto|]. destruct (N.eqb h h'); simpl; intuition.
Qed.
Lemma remove_entry_nodup h d p : NoDup (map snd p) -> NoDup (map snd (remove_entry h d p)).
Proof.
  induction p as [|[h' d'] p IH]; simpl; intros N; [constructor|]. inversion N as [|? ? N1 N2]; subst.
  destruct (N.eqb h h' && N.eqb d d'); [assumption|]. simpl. constructor; [|auto].
  intros X. apply N1. eapply remove_entry_incl; eassumption.
Qed.
Lemma remove_holder_nodup h p : NoDup (map snd p) -> NoDup (map snd (remove_holder h p)).
Proof.
  induction p as [|[h' d'] p IH]; simpl; intros N; [constructor|]. inversion N as [|? ? N1 N2]; subst.
  destruct (N.eqb h h'); [assumption|]. simpl. constructor; [|auto].
  intros X. apply N1. eapply remove_holder_incl; eassumption.
Qed.

Lemma pool_step_nodup p e p' : NoDup (map snd p) -> pool_step p e = Accept p' -> NoDup (map snd p').
Proof.
  intros N. destruct e as [h d|h d]; simpl.
  - destruct (has_data d p) eqn:E; [discriminate|]. intros X; injection X as <-. simpl. constructor; [|assumption].
    intros I. apply has_data_In in I. congruence.
  - destruct (has_entry h d p); [intros X; injection X as <-; now apply remove_entry_nodup|].
    destruct (has_holder h p); [destruct (N.eqb d 0); discriminate|]. intros X; injection X as <-. assumption.
Qed.

(* every state reached along an accepted trace has no duplicate buffer *)
Fixpoint pool_states (p : pool) (t : list pev) : list pool :=
  match t with
  | [] => [p]
  | e :: t' => p :: match pool_step p e with Accept p' => pool_states p' t' | _ => [] end
  end.
Theorem pool_no_duplicate t : forall p, NoDup (map snd p) -> Forall (fun q => NoDup (map snd q)) (pool_states p t).
Proof.
  induction t as [|e t IH]; intros p N; simpl; [repeat constructor; assumption|].
  constructor; [assumption|]. destruct (pool_step p e) eqn:E; try constructor.
  apply IH. eapply pool_step_nodup; eassumption.
Qed.
