(** C05 — command output is a function of input and options, not of parallelism.
    (1) the record-wise pipeline: reader batches -> worker pool (any schedule) -> order-restoring
        writer, as a function of an arbitrary configuration (batch partition + arrival order);
    (2) the byte-slice pool of pkg/obiseq/pool.go as an ownership machine, with
        - [pool_check]: the validator of REAL get/recycle event traces (hook pool_verif.go),
        - [hstep]: an abstract heap with owners, used for the non-interference theorem. *)
From Coq Require Import List Arith NArith Bool Lia Permutation.
From OBI.Common Require Import Reseq.
Import ListNotations.

(** ---------- (1) pipeline ---------- *)
Section Pipeline.
Variables (A B : Type) (f : A -> list B).       (* the per-record transformation: 0, 1 or more records *)

(* what a worker does to a batch *)
Definition on_batch (b : list A) : list B := flat_map f b.

(* a configuration = a partition of the input into batches (empty batches allowed) + the order in
   which the transformed batches reach the writer (decided by worker count / scheduling) *)
Definition flatten {X} (bs : list (list X)) : list X := concat bs.

(* output of the command: the writer's resequencing buffer fed with the arrival history *)
Definition pipeline_out (arr : list (nat * list B)) : list B := flatten (out (run arr)).
End Pipeline.

(** ---------- (2a) validator of real pool traces ---------- *)
(* events of pkg/obiseq/pool_verif.go: holder = address of the slice header given to RecycleSlice,
   data = address of the buffer (0 = nil header) *)
Inductive pev := PR (holder data : N) | PG (holder data : N).

(* pool content: list of (holder, data) *)
Definition pool := list (N * N).

Fixpoint has_data (d : N) (p : pool) : bool :=
  match p with [] => false | (_, d') :: p' => N.eqb d d' || has_data d p' end.
Fixpoint has_entry (h d : N) (p : pool) : bool :=
  match p with [] => false | (h', d') :: p' => (N.eqb h h' && N.eqb d d') || has_entry h d p' end.
Fixpoint has_holder (h : N) (p : pool) : bool :=
  match p with [] => false | (h', _) :: p' => N.eqb h h' || has_holder h p' end.
Fixpoint remove_entry (h d : N) (p : pool) : pool :=
  match p with
  | [] => []
  | (h', d') :: p' => if N.eqb h h' && N.eqb d d' then p' else (h', d') :: remove_entry h d p'
  end.
Fixpoint remove_holder (h : N) (p : pool) : pool :=
  match p with
  | [] => []
  | (h', d') :: p' => if N.eqb h h' then p' else (h', d') :: remove_holder h p'
  end.

Inductive verdict := Accept (p : pool) | DoubleRecycle | LiveBufferHandedOut | HeaderModifiedInPool.

Definition pool_step (p : pool) (e : pev) : verdict :=
  match e with
  | PR h d => if has_data d p then DoubleRecycle else Accept ((h, d) :: p)
  | PG h d =>
      (* a header that sits in the pool belongs to the pool: when it comes out it must still hold the
         buffer it was recycled with; nil (the former owner cleared it) or another buffer (the former
         owner re-assigned it) mean that the pool shares the header with a live record *)
      if has_entry h d p then Accept (remove_entry h d p)
      else if has_holder h p then (if N.eqb d 0 then HeaderModifiedInPool else LiveBufferHandedOut)
      else Accept p                                            (* fresh header made by sync.Pool.New *)
  end.

(* index of the first rejected event, with its verdict; None = whole trace accepted *)
Fixpoint pool_check_from (i : nat) (p : pool) (t : list pev) : option (nat * verdict) :=
  match t with
  | [] => None
  | e :: t' =>
    match pool_step p e with
    | Accept p' => pool_check_from (S i) p' t'
    | v => Some (i, v)
    end
  end.
Definition pool_check (t : list pev) : option (nat * verdict) := pool_check_from 0 [] t.
Definition rejected (t : list pev) : list nat :=
  match pool_check t with None => [] | Some (i, _) => [i] end.
(* correspondence entry point: list of traces -> indices of rejected traces *)
Fixpoint mismatches_from (i : nat) (ts : list (list pev)) : list nat :=
  match ts with
  | [] => []
  | t :: ts' => match pool_check t with None => mismatches_from (S i) ts' | Some _ => i :: mismatches_from (S i) ts' end
  end.
Definition mismatches := mismatches_from 0.

(** ---------- (2b) abstract heap with owners ---------- *)
(* buffers and agents (records / goroutines) are numbers; contents are lists of bytes *)
Definition bytes := list N.
Definition poison : bytes := [219%N].

Record heap := mkheap {
  owner : nat -> option nat;        (* who owns buffer d (None = in the pool / never allocated) *)
  mem : nat -> bytes                (* physical contents *)
}.
Definition upd {X} (m : nat -> X) (k : nat) (v : X) : nat -> X := fun k' => if Nat.eqb k' k then v else m k'.

Inductive hop :=
| HGet (a d : nat)            (* agent a obtains buffer d from the pool (or fresh) *)
| HWrite (a d : nat) (v : bytes)
| HRecycle (a d : nat)        (* a releases d: poisoned, back to the pool *)
| HRead (a d : nat).

(* enabled = the ownership discipline: only the owner touches or releases a buffer, only free buffers are handed out *)
Definition enabled (h : heap) (o : hop) : bool :=
  match o with
  | HGet a d => match owner h d with None => true | Some _ => false end
  | HWrite a d _ | HRecycle a d | HRead a d =>
      match owner h d with Some a' => Nat.eqb a a' | None => false end
  end.
Definition hstep (h : heap) (o : hop) : heap :=
  match o with
  | HGet a d => mkheap (upd (owner h) d (Some a)) (upd (mem h) d [])
  | HWrite a d v => mkheap (owner h) (upd (mem h) d v)
  | HRecycle a d => mkheap (upd (owner h) d None) (upd (mem h) d poison)
  | HRead _ _ => h
  end.
(* run a trace; None as soon as an operation is not enabled *)
Fixpoint hrun (h : heap) (t : list hop) : option heap :=
  match t with
  | [] => Some h
  | o :: t' => if enabled h o then hrun (hstep h o) t' else None
  end.

(* value semantics of ONE agent: what it believes its buffers contain, computed from ITS operations alone *)
Fixpoint view (a : nat) (t : list hop) (v : nat -> option bytes) : nat -> option bytes :=
  match t with
  | [] => v
  | o :: t' =>
    view a t'
      match o with
      | HGet a' d => if Nat.eqb a a' then upd v d (Some []) else v
      | HWrite a' d x => if Nat.eqb a a' then upd v d (Some x) else v
      | HRecycle a' d => if Nat.eqb a a' then upd v d None else v
      | HRead _ _ => v
      end
  end.
Definition empty_heap : heap := mkheap (fun _ => None) (fun _ => []).
Definition no_view : nat -> option bytes := fun _ => None.
