(** C05 — (5) obisummary: the per-worker partial summaries and their merge (pkg/obitools/obisummary/obisummary.go:
    DataSummary.Update, DataSummary.Add, ISummary). Executable definitions only; proofs in SummaryProofs.v.
    A DataSummary is six integers and seven maps string -> int: here ONE association list from counter
    identifiers (kind, key) to integers; a map entry that was never touched is absent (presence is printed:
    number of keys, list of samples). *)
From Coq Require Import List Arith NArith ZArith Bool.
From OBI.C05 Require Import Records.
Import ListNotations.
Local Open Scope N_scope.

(* kinds: 0 read_count, 1 variant_count, 2 symbole_count, 3 has_merged_sample, 4 has_obiclean_status, 5 has_obiclean_weight
   (key = []), 6 tags, 7 map_tags, 8 vector_tags, 9 samples, 10 sample_variants, 11 sample_singletons, 12 sample_obiclean_bad *)
Definition ctr := (N * list N)%type.
Definition K (n : N) (k : list N) : ctr := (n, k).
Definition ctr_eqb (a b : ctr) : bool := N.eqb (fst a) (fst b) && bytes_eqb (snd a) (snd b).
Definition summary := list (ctr * Z).

(* plusUpdateIntMap / a scalar += : add to the entry, create it when absent *)
Fixpoint bump (c : ctr) (v : Z) (s : summary) : summary :=
  match s with
  | [] => [(c, v)]
  | (c', v') :: s' => if ctr_eqb c c' then (c', (v' + v)%Z) :: s' else (c', v') :: bump c v s'
  end.
Definition bumps (l : list (ctr * Z)) (s : summary) : summary := fold_left (fun s cv => bump (fst cv) (snd cv) s) l s.

(* reading a counter: None = absent *)
Definition oadd (a b : option Z) : option Z :=
  match a, b with None, x => x | x, None => x | Some x, Some y => Some (x + y)%Z end.
Fixpoint get (c : ctr) (s : list (ctr * Z)) : option Z :=
  match s with
  | [] => None
  | (c', v) :: s' => if ctr_eqb c c' then oadd (Some v) (get c s') else get c s'
  end.
Definition zget (c : ctr) (s : list (ctr * Z)) : Z := match get c s with Some v => v | None => 0%Z end.

(* what Update looks at in a record *)
Inductive tkind := TScalar | TMap | TVector.
Record srec := mksrec {
  s_count : Z;                                      (* Count() *)
  s_len : Z;                                        (* Len() *)
  s_merged : option (list (list N * Z));            (* merged_sample, when present *)
  s_status : option (list (list N * list N));       (* obiclean_status as a map of strings, when it is one *)
  s_sample : option (list N);                       (* sample *)
  s_has_status : bool;
  s_has_weight : bool;
  s_tags : list (list N * tkind)                    (* every annotation key with the shape of its value *)
}.
Fixpoint slookup (k : list N) (m : list (list N * list N)) : option (list N) :=
  match m with [] => None | (k', v) :: m' => if bytes_eqb k k' then Some v else slookup k m' end.
Definition letter_i : list N := [105].

(* DataSummary.Update as the list of increments it performs *)
Definition contrib (r : srec) : list (ctr * Z) :=
  [(K 0 [], s_count r); (K 1 [], 1%Z); (K 2 [], s_len r)] ++
  match s_merged r with
  | Some m =>
      (K 3 [], 1%Z) ::
      flat_map (fun kv =>
        let k := fst kv in let v := snd kv in
        [(K 9 k, v); (K 10 k, 1%Z)] ++
        (if Z.eqb v 1 then [(K 11 k, 1%Z)] else []) ++
        (if Z.ltb 1 v && match s_status r with
                         | Some st => match slookup k st with Some x => bytes_eqb x letter_i | None => false end
                         | None => false
                         end
         then [(K 12 k, 1%Z)] else [])) m
  | None =>
      match s_sample r with
      | Some smp => [(K 9 smp, s_count r); (K 10 smp, 1%Z)] ++ (if Z.eqb (s_count r) 1 then [(K 11 smp, 1%Z)] else [])
      | None => []
      end
  end ++
  (if s_has_status r then [(K 4 [], 1%Z)] else []) ++
  (if s_has_weight r then [(K 5 [], 1%Z)] else []) ++
  map (fun kt => (K (match snd kt with TScalar => 6 | TMap => 7 | TVector => 8 end) (fst kt), 1%Z)) (s_tags r).

Definition upd (s : summary) (r : srec) : summary := bumps (contrib r) s.
(* DataSummary.Add: the six integers are added, the maps merged by sumUpdateIntMap *)
Definition add (s1 s2 : summary) : summary := bumps s2 s1.

(* ISummary: every worker updates its own summary with the batches it happens to take ... *)
Definition summ_batches (w : list (list srec)) : summary := fold_left (fun s b => fold_left upd b s) w [].
(* ... and the partial summaries are added to the first one *)
Definition summ_workers (W : list (list (list srec))) : summary :=
  match W with
  | [] => []
  | w0 :: W' => fold_left (fun acc w => add acc (summ_batches w)) W' (summ_batches w0)
  end.
(* the reference: one worker, one pass *)
Definition summ_seq (l : list srec) : summary := fold_left upd l [].

(* correspondence with the REAL output: every printed number (kinds 0-2 and 6-12; the integers and the per-sample
   statistics print 0 for an absent entry, the key lists print what is present), the number of keys of each printed map,
   and whether the obiclean_bad statistics are printed (variant_count = has_obiclean_status) *)
Definition nkeys (n : N) (s : list (ctr * Z)) : nat := List.length (filter (fun cv => N.eqb (fst (fst cv)) n) s).
Definition entry_ok (s : summary) (e : ctr * Z) : bool :=
  if N.leb (fst (fst e)) 2 || N.leb 10 (fst (fst e)) then Z.eqb (zget (fst e) s) (snd e)
  else match get (fst e) s with Some v => Z.eqb v (snd e) | None => false end.
Definition summary_ok (inp : list srec) (bad_printed : bool) (E : list (ctr * Z)) : bool :=
  let s := summ_seq inp in
  forallb (entry_ok s) E &&
  forallb (fun n => Nat.eqb (nkeys n s) (nkeys n E)) [6; 7; 8; 9] &&
  Bool.eqb bad_printed (Z.eqb (zget (K 1 []) s) (zget (K 4 []) s) && negb (Nat.eqb (nkeys 9 s) 0)).
Inductive scase := SCase (bad_printed : bool) (E : list (ctr * Z)).
Fixpoint summary_mismatches_from (i : nat) (inp : list srec) (cs : list scase) : list nat :=
  match cs with
  | [] => []
  | SCase b E :: cs' => if summary_ok inp b E then summary_mismatches_from (S i) inp cs' else i :: summary_mismatches_from (S i) inp cs'
  end.
Definition summary_mismatches (inp : list srec) := summary_mismatches_from 0 inp.
