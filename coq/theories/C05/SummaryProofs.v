(** C05 — proofs about the obisummary model (Summary.v): the merged per-worker summaries read, counter by
    counter, as the one-pass summary, whatever the batches, the workers that took them and the arrival order. *)
From Coq Require Import List Arith NArith ZArith Bool Lia Permutation.
From OBI.C05 Require Import Records RecordsProofs Summary.
Import ListNotations.

Lemma bytes_eqb_eq a : forall b, bytes_eqb a b = true <-> a = b.
Proof.
  induction a as [|x a IH]; intros [|y b]; cbn [bytes_eqb]; split; intros H; try reflexivity; try discriminate.
  - apply andb_true_iff in H. destruct H as [H1 H2]. apply N.eqb_eq in H1. apply IH in H2. now subst.
  - injection H as -> ->. rewrite N.eqb_refl. cbn. now apply IH.
Qed.
Lemma ctr_eqb_eq a b : ctr_eqb a b = true <-> a = b.
Proof.
  destruct a as [n k], b as [n' k']. unfold ctr_eqb. cbn [fst snd]. rewrite andb_true_iff, N.eqb_eq, bytes_eqb_eq.
  split; [intros [-> ->]; reflexivity|intros H; injection H as -> ->; split; reflexivity].
Qed.
Lemma ctr_eqb_refl a : ctr_eqb a a = true.
Proof. now apply ctr_eqb_eq. Qed.

Lemma oadd_assoc a b c : oadd a (oadd b c) = oadd (oadd a b) c.
Proof. destruct a, b, c; cbn; try reflexivity. f_equal. lia. Qed.
Lemma oadd_comm a b : oadd a b = oadd b a.
Proof. destruct a, b; cbn; try reflexivity. f_equal. lia. Qed.
Lemma oadd_none a : oadd a None = a.
Proof. destruct a; reflexivity. Qed.

(* reading a counter after an increment *)
Lemma get_bump c c' v s : get c (bump c' v s) = if ctr_eqb c c' then oadd (get c s) (Some v) else get c s.
Proof.
  induction s as [|[c2 v2] s IH]; cbn [bump get].
  - destruct (ctr_eqb c c'); reflexivity.
  - destruct (ctr_eqb c' c2) eqn:E2.
    + apply ctr_eqb_eq in E2. subst c2. cbn [get]. destruct (ctr_eqb c c') eqn:E1; [|reflexivity].
      rewrite <- oadd_assoc, (oadd_comm (get c s)), oadd_assoc. cbn [oadd]. reflexivity.
    + cbn [get]. rewrite IH. destruct (ctr_eqb c c2) eqn:E3; [|reflexivity].
      destruct (ctr_eqb c c') eqn:E1; [|reflexivity]. now rewrite oadd_assoc.
Qed.

Lemma get_bumps c l : forall s, get c (bumps l s) = oadd (get c s) (get c l).
Proof.
  unfold bumps. induction l as [|[c' v] l IH]; intros s; cbn [fold_left get fst snd].
  - now rewrite oadd_none.
  - rewrite IH, get_bump. destruct (ctr_eqb c c'); [|reflexivity]. now rewrite oadd_assoc.
Qed.

Lemma get_upd c s r : get c (upd s r) = oadd (get c s) (get c (contrib r)).
Proof. apply get_bumps. Qed.
Lemma get_add c s1 s2 : get c (add s1 s2) = oadd (get c s1) (get c s2).
Proof. apply get_bumps. Qed.

Section Counter.
Variable c : ctr.
Definition g (r : srec) : option Z := get c (contrib r).

Lemma get_fold_upd b : forall s, get c (fold_left upd b s) = fold_recs srec (option Z) oadd g (get c s) b.
Proof.
  unfold fold_recs. induction b as [|r b IH]; intros s; cbn [fold_left]; [reflexivity|].
  rewrite IH, get_upd. reflexivity.
Qed.

Lemma get_batches_from w : forall s,
  get c (fold_left (fun s b => fold_left upd b s) w s) = fold_left (fold_recs srec (option Z) oadd g) w (get c s).
Proof.
  induction w as [|b w IH]; intros s; cbn [fold_left]; [reflexivity|]. rewrite IH, get_fold_upd. reflexivity.
Qed.

Lemma get_summ_batches w : get c (summ_batches w) = fold_batches srec (option Z) oadd None g w.
Proof. unfold summ_batches, fold_batches. now rewrite get_batches_from. Qed.

Lemma get_workers_from W : forall acc,
  get c (fold_left (fun a w => add a (summ_batches w)) W acc) =
  fold_left (fun a w => oadd a (fold_batches srec (option Z) oadd None g w)) W (get c acc).
Proof.
  induction W as [|w W IH]; intros acc; cbn [fold_left]; [reflexivity|].
  rewrite IH, get_add, get_summ_batches. reflexivity.
Qed.

Lemma get_summ_workers W : get c (summ_workers W) = fold_workers srec (option Z) oadd None g W.
Proof.
  unfold summ_workers, fold_workers. destruct W as [|w0 W]; [reflexivity|].
  cbn [fold_left oadd]. now rewrite get_workers_from, get_summ_batches.
Qed.

Lemma get_summ_seq l : get c (summ_seq l) = fold_spec srec (option Z) oadd None g l.
Proof. unfold summ_seq, fold_spec. now rewrite get_fold_upd. Qed.

(* ISummary: whatever the partition of the input into batches, the way the workers shared the batches and
   the order of the merge, every counter of the merged summary reads as in the one-pass summary *)
Lemma summary_any_config (l : list srec) (P : list (list srec)) (W : list (list (list srec))) :
  concat P = l -> Permutation (concat W) P -> get c (summ_workers W) = get c (summ_seq l).
Proof.
  intros HP HW. rewrite get_summ_workers, get_summ_seq.
  apply (fold_workers_any_config srec (option Z) oadd None g oadd_assoc oadd_comm oadd_none l P W HP HW).
Qed.
End Counter.

(* the merge itself: counter by counter the sum, absent entries staying absent *)
Lemma add_is_sum c s1 s2 : get c (add s1 s2) = oadd (get c s1) (get c s2).
Proof. apply get_add. Qed.

(** the keys of the maps: no duplicate entry is ever created, an entry exists iff the counter was incremented *)
Lemma get_some_in c s : get c s <> None <-> In c (map fst s).
Proof.
  induction s as [|[c2 v2] s IH]; cbn [get map fst In].
  - split; [congruence|tauto].
  - destruct (ctr_eqb c c2) eqn:E.
    + apply ctr_eqb_eq in E. subst c2. split; [intros _; now left|intros _]. destruct (get c s); cbn; discriminate.
    + rewrite IH. split; [tauto|intros [H|H]; [|exact H]]. subst c2. rewrite ctr_eqb_refl in E. discriminate.
Qed.

Lemma bump_keys c v s : map fst (bump c v s) = if existsb (ctr_eqb c) (map fst s) then map fst s else map fst s ++ [c].
Proof.
  induction s as [|[c2 v2] s IH]; cbn [bump map fst existsb app]; [reflexivity|].
  destruct (ctr_eqb c c2) eqn:E; cbn [orb map fst]; [reflexivity|]. rewrite IH.
  destruct (existsb (ctr_eqb c) (map fst s)); reflexivity.
Qed.

Lemma nodup_snoc {T} (l : list T) (c : T) : NoDup l -> ~ In c l -> NoDup (l ++ [c]).
Proof.
  induction l as [|x l IH]; intros H Hn; cbn [app].
  - constructor; [intros []|constructor].
  - inversion H as [|? ? Hx Hl]; subst. constructor.
    + rewrite in_app_iff. intros [K|[K|[]]]; [now apply Hx|]. subst. apply Hn. now left.
    + apply IH; [exact Hl|]. intros K. apply Hn. now right.
Qed.

Lemma bump_nodup c v s : NoDup (map fst s) -> NoDup (map fst (bump c v s)).
Proof.
  intros H. rewrite bump_keys. destruct (existsb (ctr_eqb c) (map fst s)) eqn:E; [exact H|].
  apply nodup_snoc; [exact H|]. intros Hin.
  assert (K : existsb (ctr_eqb c) (map fst s) = true).
  { apply existsb_exists. exists c. split; [exact Hin|apply ctr_eqb_refl]. }
  congruence.
Qed.

Lemma bumps_nodup l : forall s, NoDup (map fst s) -> NoDup (map fst (bumps l s)).
Proof.
  unfold bumps. induction l as [|[c v] l IH]; intros s H; cbn [fold_left fst snd]; [exact H|].
  apply IH. now apply bump_nodup.
Qed.

Lemma fold_upd_nodup b : forall s, NoDup (map fst s) -> NoDup (map fst (fold_left upd b s)).
Proof. induction b as [|r b IH]; intros s H; cbn [fold_left]; [exact H|]. apply IH. now apply bumps_nodup. Qed.
Lemma summ_seq_nodup l : NoDup (map fst (summ_seq l)).
Proof. apply fold_upd_nodup. constructor. Qed.
Lemma summ_batches_nodup w : NoDup (map fst (summ_batches w)).
Proof.
  unfold summ_batches. assert (K : forall s, NoDup (map fst s) -> NoDup (map fst (fold_left (fun s b => fold_left upd b s) w s))).
  { induction w as [|b w IH]; intros s H; cbn [fold_left]; [exact H|]. apply IH. now apply fold_upd_nodup. }
  apply K. constructor.
Qed.
Lemma summ_workers_nodup W : NoDup (map fst (summ_workers W)).
Proof.
  unfold summ_workers. destruct W as [|w0 W]; [constructor|].
  assert (K : forall acc, NoDup (map fst acc) -> NoDup (map fst (fold_left (fun a w => add a (summ_batches w)) W acc))).
  { induction W as [|w W IH]; intros acc H; cbn [fold_left]; [exact H|]. apply IH. now apply bumps_nodup. }
  apply K. apply summ_batches_nodup.
Qed.

(* the number of keys of each map (what obisummary prints as scalar_attributes, sample_count, ...) *)
Lemma nkeys_any_config (l : list srec) (P : list (list srec)) (W : list (list (list srec))) (n : N) :
  concat P = l -> Permutation (concat W) P -> nkeys n (summ_workers W) = nkeys n (summ_seq l).
Proof.
  intros HP HW. unfold nkeys.
  set (sel := fun cv : ctr * Z => N.eqb (fst (fst cv)) n).
  assert (KP : Permutation (map fst (summ_workers W)) (map fst (summ_seq l))).
  { apply NoDup_Permutation; [apply summ_workers_nodup|apply summ_seq_nodup|].
    intros c. rewrite <- !get_some_in. now rewrite (summary_any_config c l P W HP HW). }
  assert (KF : forall s : summary, length (filter sel s) = length (filter (fun c : ctr => N.eqb (fst c) n) (map fst s))).
  { induction s as [|[c v] s IH]; [reflexivity|]. cbn [filter map fst]. unfold sel at 1. cbn [fst].
    destruct (N.eqb (fst c) n); cbn [length]; now rewrite IH. }
  rewrite !KF. apply Permutation_length. clear KF.
  induction KP as [|x l1 l2 _ IH|x y l0|l1 l2 l3 _ IH1 _ IH2]; cbn [filter].
  - constructor.
  - destruct (N.eqb (fst x) n); [now constructor|exact IH].
  - destruct (N.eqb (fst y) n), (N.eqb (fst x) n); try apply Permutation_refl. apply perm_swap.
  - now transitivity (filter (fun c : ctr => N.eqb (fst c) n) l2).
Qed.

(* so what the command prints (summary_ok looks at the summary only through get and nkeys) is the same *)
Lemma summary_ok_workers (l : list srec) (P : list (list srec)) (W : list (list (list srec))) :
  concat P = l -> Permutation (concat W) P ->
  forall c n, get c (summ_workers W) = get c (summ_seq l) /\ zget c (summ_workers W) = zget c (summ_seq l) /\
              nkeys n (summ_workers W) = nkeys n (summ_seq l).
Proof.
  intros HP HW c n. pose proof (summary_any_config c l P W HP HW) as G. unfold zget. rewrite G.
  repeat split. now apply nkeys_any_config with (P := P).
Qed.
