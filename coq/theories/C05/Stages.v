(** C05 — (4) the numbering logic of the library stages that merge or split streams of batches
    (pkg/obiiter/batchiterator.go: Concat, DivideOn). Executable definitions only; proofs in StagesProofs.v.
    A batch is (order number, payload); an iterator is seen through its ARRIVAL history: the list of its
    batches in the order they come out (any permutation of the numbered batches when a worker pool is upstream). *)
From Coq Require Import List Arith Bool Lia Permutation.
From OBI.Common Require Import Reseq.
Import ListNotations.

Section Concat.
Variable X : Type.   (* payload of a batch *)

(* IBioSequence.Concat. Transcription of
     previous_max := 0; max_order := -1
     for each iterator: for each batch s in arrival order:
         if s.order + previous_max > max_order { max_order = s.order + previous_max }
         push s.Reorder(s.order + previous_max)
       previous_max = max_order + 1
   with next = max_order + 1 (so that the -1 needs no integer): an empty iterator leaves it unchanged. *)
Definition renum_step (prev : nat) (acc : list (nat * X) * nat) (b : nat * X) : list (nat * X) * nat :=
  let o := fst b + prev in (fst acc ++ [(o, snd b)], Nat.max (snd acc) (S o)).
Fixpoint concat_its (prev : nat) (its : list (list (nat * X))) : list (nat * X) :=
  match its with
  | [] => []
  | it :: rest => let r := fold_left (renum_step prev) it ([], prev) in fst r ++ concat_its (snd r) rest
  end.
(* what Concat pushes downstream, in push order *)
Definition concat_stage (its : list (list (nat * X))) : list (nat * X) := concat_its 0 its.
End Concat.

Section Divide.
Variable A : Type.   (* a record *)

(* IBioSequence.DivideOn(predicate, size), the loop over the records of the (sorted) input:
     append s to trueSlice or falseSlice;
     if len(trueSlice) == size  { push (trueOrder, trueSlice);  trueOrder++;  trueSlice = empty }
     if len(falseSlice) == size { push (falseOrder, falseSlice); falseOrder++; falseSlice = empty }
   and after the loop the non-empty remainders are pushed. trueOrder = number of batches pushed so far. *)
Record dst := mkdst { tsl : list A; fsl : list A; tout : list (nat * list A); fout : list (nat * list A) }.
Definition flush (size : nat) (sl : list A) (o : list (nat * list A)) : list A * list (nat * list A) :=
  if Nat.eqb (length sl) size then ([], o ++ [(length o, sl)]) else (sl, o).
Definition div_step (size : nat) (p : A -> bool) (s : dst) (x : A) : dst :=
  let t1 := if p x then tsl s ++ [x] else tsl s in
  let f1 := if p x then fsl s else fsl s ++ [x] in
  let t2 := flush size t1 (tout s) in
  let f2 := flush size f1 (fout s) in
  mkdst (fst t2) (fst f2) (snd t2) (snd f2).
Definition last_push (sl : list A) (o : list (nat * list A)) : list (nat * list A) :=
  match sl with [] => o | _ => o ++ [(length o, sl)] end.
Definition divide (size : nat) (p : A -> bool) (l : list A) : list (nat * list A) * list (nat * list A) :=
  let s := fold_left (div_step size p) l (mkdst [] [] [] []) in
  (last_push (tsl s) (tout s), last_push (fsl s) (fout s)).
End Divide.

Section Rebatch.
Variable A : Type.

(* IBioSequence.Rebatch(size), the inner loop over one incoming batch (the input is sorted first):
     i := 0; remains := lc
     for remains > 0 {
        space := size - len(buffer); to_push := min(lc-i, space); remains = lc - to_push - i
        buffer = append(buffer, seqs[i:i+to_push]...)
        if len(buffer) == size { push (order, buffer); order++; buffer = empty }
        i += to_push }
   [seqs] below is what remains of the incoming batch (seqs[i:]); order = number of batches pushed so far.
   The Go loop does not terminate for size 0 (to_push = 0 for ever): fuel = number of records left, enough when size >= 1. *)
Fixpoint rebatch_inner (fuel size : nat) (seqs buffer : list A) (o : list (nat * list A)) : list A * list (nat * list A) :=
  match fuel with
  | O => (buffer, o)
  | S fuel' =>
      match seqs with
      | [] => (buffer, o)
      | _ =>
          let space := size - length buffer in
          let to_push := Nat.min (length seqs) space in
          let buffer1 := buffer ++ firstn to_push seqs in
          if Nat.eqb (length buffer1) size
          then rebatch_inner fuel' size (skipn to_push seqs) [] (o ++ [(length o, buffer1)])
          else rebatch_inner fuel' size (skipn to_push seqs) buffer1 o
      end
  end.
Definition rebatch_step (size : nat) (st : list A * list (nat * list A)) (seqs : list A) : list A * list (nat * list A) :=
  rebatch_inner (length seqs) size seqs (fst st) (snd st).
Definition rebatch (size : nat) (batches : list (list A)) : list (nat * list A) :=
  let st := fold_left (rebatch_step size) batches ([], []) in
  match fst st with [] => snd st | _ => snd st ++ [(length (snd st), fst st)] end.
End Rebatch.
