(** C05 — compact rendering of the generated correspondence cases (executable definitions only).
    Elaborating a literal costs coqc about 10 us per constructor: a byte string written as a [string] or a
    [list N] literal costs 60 us per byte, a trace event 400 us. Here the data are written as lists of
    primitive 63-bit integers (7 bytes per integer, 3 integers per event) and decoded inside vm_compute.
    Nothing in Props.v depends on this file. *)
From Coq Require Import List Bool NArith ZArith Uint63.
From OBI.C05 Require Import Model.
Import ListNotations.

Definition n_of_int (i : int) : N := Z.to_N (Uint63.to_Z i).

(* k bytes of a word, least significant first *)
Fixpoint unpack_word (k : nat) (w : int) : list N :=
  match k with
  | O => []
  | S k' => n_of_int (Uint63.land w 255) :: unpack_word k' (Uint63.lsr w 8)
  end.
Fixpoint unpack (n : nat) (ws : list int) : list N :=
  match ws with
  | [] => []
  | w :: ws' => unpack_word (Nat.min n 7) w ++ unpack (n - 7) ws'
  end.
(* pk n ws = the n bytes packed in ws *)
Definition pk (n : int) (ws : list int) : list N := unpack (Z.to_nat (Uint63.to_Z n)) ws.

(* pool trace: kind (0 = recycle, 1 = get), holder, data *)
Fixpoint decode_trace (l : list int) : list pev :=
  match l with
  | k :: h :: d :: l' =>
      (if Uint63.eqb k 0 then PR (n_of_int h) (n_of_int d) else PG (n_of_int h) (n_of_int d)) :: decode_trace l'
  | _ => []
  end.
(* a trace given in chunks; a chunk whose length is not a multiple of 3 makes the trace malformed = rejected *)
Definition well_formed_chunks (cs : list (list int)) : bool :=
  forallb (fun c => Nat.eqb (Nat.modulo (length c) 3) 0) cs.
Definition trace_of_chunks (cs : list (list int)) : list pev := concat (map decode_trace cs).
Fixpoint trace_mismatches_from (i : nat) (ts : list (list (list int))) : list nat :=
  match ts with
  | [] => []
  | cs :: ts' =>
      if well_formed_chunks cs && match pool_check (trace_of_chunks cs) with None => true | Some _ => false end
      then trace_mismatches_from (S i) ts' else i :: trace_mismatches_from (S i) ts'
  end.
Definition trace_mismatches := trace_mismatches_from 0.
