(** C05 — proofs about the merging / splitting stages (Stages.v). *)
From Coq Require Import List Arith Bool Lia Permutation.
From OBI.Common Require Import Reseq.
From OBI.C05 Require Import Stages.
Import ListNotations.

Section ConcatProofs.
Variable X : Type.

Definition shift (prev : nat) (b : nat * X) : nat * X := (fst b + prev, snd b).
Definition mx (prev : nat) (it : list (nat * X)) (nx : nat) : nat :=
  fold_left (fun m b => Nat.max m (S (fst b + prev))) it nx.

Lemma renum_fold prev it : forall acc nx,
  fold_left (renum_step X prev) it (acc, nx) = (acc ++ map (shift prev) it, mx prev it nx).
Proof.
  induction it as [|b it IH]; intros acc nx.
  - cbn. now rewrite app_nil_r.
  - cbn [fold_left map]. unfold renum_step at 2. cbn [fst snd]. rewrite IH.
    unfold mx. cbn [fold_left]. rewrite <- app_assoc. reflexivity.
Qed.

Lemma mx_perm prev it1 it2 : Permutation it1 it2 -> forall nx, mx prev it1 nx = mx prev it2 nx.
Proof.
  unfold mx. induction 1 as [|b l1 l2 _ IH|a b l|l1 l2 l3 _ IH1 _ IH2]; intros nx; cbn [fold_left].
  - reflexivity.
  - apply IH.
  - f_equal. lia.
  - now rewrite IH1.
Qed.

Lemma mx_numbered prev : forall (bs : list X) s nx, nx <= s + prev ->
  mx prev (combine (seq s (length bs)) bs) nx = match bs with [] => nx | _ => s + prev + length bs end.
Proof.
  unfold mx. induction bs as [|b bs IH]; intros s nx Hn; [reflexivity|].
  cbn [length seq combine fold_left fst].
  replace (Nat.max nx (S (s + prev))) with (S s + prev) by lia.
  rewrite IH by lia. destruct bs; cbn [length]; lia.
Qed.

Lemma shift_numbered prev : forall (bs : list X) s,
  map (shift prev) (combine (seq s (length bs)) bs) = combine (seq (s + prev) (length bs)) bs.
Proof.
  induction bs as [|b bs IH]; intros s; [reflexivity|].
  cbn [length seq combine map]. unfold shift at 1. cbn [fst snd]. f_equal. apply (IH (S s)).
Qed.

Lemma combine_seq_app : forall (a b : list X) p,
  combine (seq p (length (a ++ b))) (a ++ b) = combine (seq p (length a)) a ++ combine (seq (p + length a) (length b)) b.
Proof.
  induction a as [|x a IH]; intros b p.
  - cbn. now rewrite Nat.add_0_r.
  - cbn [app length seq combine]. f_equal. rewrite IH. f_equal. f_equal. f_equal. lia.
Qed.

Lemma concat_its_numbering : forall (its : list (list (nat * X))) (bss : list (list X)),
  Forall2 (fun it bs => Permutation it (numbered bs)) its bss ->
  forall prev, Permutation (concat_its X prev its) (combine (seq prev (length (concat bss))) (concat bss)).
Proof.
  induction 1 as [|it bs its bss Hp _ IH]; intros prev; [constructor|].
  cbn [concat_its concat]. rewrite renum_fold. cbn [fst snd app].
  rewrite (mx_perm prev _ _ Hp). unfold numbered.
  rewrite (mx_numbered prev bs 0 prev) by lia.
  rewrite combine_seq_app. apply Permutation_app.
  - pose proof (shift_numbered prev bs 0) as Hs. cbn [Nat.add] in Hs. rewrite <- Hs.
    apply Permutation_map. exact Hp.
  - destruct bs as [|b bs'].
    + cbn [length]. rewrite Nat.add_0_r. apply IH.
    + replace (0 + prev + length (b :: bs')) with (prev + length (b :: bs')) by lia. apply IH.
Qed.

(* Concat: whatever the arrival order inside each iterator, the batches pushed downstream are the numbered
   batches of the concatenated streams *)
Lemma concat_numbering : forall (bss : list (list X)) (its : list (list (nat * X))),
  Forall2 (fun it bs => Permutation it (numbered bs)) its bss ->
  Permutation (concat_stage X its) (numbered (concat bss)).
Proof. intros bss its H. apply (concat_its_numbering its bss H 0). Qed.

(* hence the order-restoring consumer (writer, Rebatch, SortBatches) sees the streams one after the other *)
Lemma concat_stage_output : forall (bss : list (list X)) (its : list (list (nat * X))),
  Forall2 (fun it bs => Permutation it (numbered bs)) its bss ->
  out (run (concat_stage X its)) = concat bss.
Proof.
  intros bss its H. destruct (reseq_any_permutation X _ _ (concat_numbering bss its H)) as [Ho _]. exact Ho.
Qed.
End ConcatProofs.

Section DivideProofs.
Variable A : Type.
Variable size : nat.

Definition okq (q : A -> bool) (sl : list A) (o : list (nat * list A)) (l1 : list A) : Prop :=
  map fst o = seq 0 (length o) /\ concat (map snd o) ++ sl = filter q l1.

Lemma push_ok q sl o l1 : okq q sl o l1 -> okq q [] (o ++ [(length o, sl)]) l1.
Proof.
  intros [H1 H2]. split.
  - rewrite map_app, app_length. cbn [map fst length]. rewrite Nat.add_1_r, seq_S, H1. reflexivity.
  - rewrite map_app, concat_app. cbn [map snd concat]. rewrite !app_nil_r. exact H2.
Qed.

Lemma flush_ok q sl o l1 : okq q sl o l1 -> okq q (fst (flush A size sl o)) (snd (flush A size sl o)) l1.
Proof.
  intros H. unfold flush. destruct (Nat.eqb (length sl) size); cbn [fst snd]; [now apply push_ok|exact H].
Qed.

Lemma okq_take q sl o l1 x : q x = true -> okq q sl o l1 -> okq q (sl ++ [x]) o (l1 ++ [x]).
Proof.
  intros Hq [H1 H2]. split; [exact H1|]. rewrite filter_app. cbn [filter]. rewrite Hq.
  rewrite app_assoc, H2. reflexivity.
Qed.
Lemma okq_skip q sl o l1 x : q x = false -> okq q sl o l1 -> okq q sl o (l1 ++ [x]).
Proof.
  intros Hq [H1 H2]. split; [exact H1|]. rewrite filter_app. cbn [filter]. rewrite Hq.
  now rewrite app_nil_r.
Qed.

Variable p : A -> bool.
Definition np (x : A) : bool := negb (p x).
Definition dinv (s : dst A) (l1 : list A) : Prop :=
  okq p (tsl A s) (tout A s) l1 /\ okq np (fsl A s) (fout A s) l1.

Lemma div_step_inv s l1 x : dinv s l1 -> dinv (div_step A size p s x) (l1 ++ [x]).
Proof.
  intros [HT HF]. unfold div_step, dinv. cbn [tsl fsl tout fout]. destruct (p x) eqn:Px.
  - split; apply flush_ok.
    + now apply okq_take.
    + apply okq_skip; [unfold np; now rewrite Px|exact HF].
  - split; apply flush_ok.
    + now apply okq_skip.
    + apply okq_take; [unfold np; now rewrite Px|exact HF].
Qed.

Lemma div_fold_inv l : forall s l1, dinv s l1 -> dinv (fold_left (div_step A size p) l s) (l1 ++ l).
Proof.
  induction l as [|x l IH]; intros s l1 H; cbn [fold_left].
  - now rewrite app_nil_r.
  - replace (l1 ++ x :: l) with ((l1 ++ [x]) ++ l) by (rewrite <- app_assoc; reflexivity).
    apply IH. now apply div_step_inv.
Qed.

Lemma last_push_ok q sl o l : okq q sl o l ->
  map fst (last_push A sl o) = seq 0 (length (last_push A sl o)) /\ concat (map snd (last_push A sl o)) = filter q l.
Proof.
  intros H. destruct sl as [|x sl]; cbn [last_push].
  - destruct H as [H1 H2]. rewrite app_nil_r in H2. split; assumption.
  - destruct (push_ok _ _ _ _ H) as [H1 H2]. rewrite app_nil_r in H2. split; assumption.
Qed.

(* DivideOn: both streams are numbered 0, 1, 2, ... without hole and carry, in input order, the selected
   and the rejected records (every batch size, 0 included) *)
Lemma divide_spec (l : list A) :
  let T := fst (divide A size p l) in let F := snd (divide A size p l) in
  map fst T = seq 0 (length T) /\ concat (map snd T) = filter p l /\
  map fst F = seq 0 (length F) /\ concat (map snd F) = filter (fun x => negb (p x)) l.
Proof.
  cbn zeta. unfold divide. cbn [fst snd].
  assert (I0 : dinv (mkdst A [] [] [] []) []) by (repeat split).
  destruct (div_fold_inv l _ _ I0) as [HT HF]. cbn [app] in HT, HF.
  destruct (last_push_ok _ _ _ _ HT) as [T1 T2]. destruct (last_push_ok _ _ _ _ HF) as [F1 F2].
  repeat split; assumption.
Qed.

(* numbered without hole = what the order-restoring consumer needs: it delivers the records in order *)
Lemma divide_output (l : list A) :
  concat (out (run (fst (divide A size p l)))) = filter p l /\
  concat (out (run (snd (divide A size p l)))) = filter (fun x => negb (p x)) l.
Proof.
  destruct (divide_spec l) as [T1 [T2 [F1 F2]]].
  assert (K : forall (T : list (nat * list A)), map fst T = seq 0 (length T) -> T = numbered (map snd T)).
  { intros T HT. unfold numbered. rewrite map_length, <- HT. clear HT.
    induction T as [|[k b] T IH]; [reflexivity|]. cbn [map fst snd combine]. now rewrite <- IH. }
  split.
  - destruct (reseq_any_permutation (list A) (map snd (fst (divide A size p l))) (fst (divide A size p l))) as [Ho _].
    { rewrite <- (K _ T1). apply Permutation_refl. }
    rewrite Ho. exact T2.
  - destruct (reseq_any_permutation (list A) (map snd (snd (divide A size p l))) (snd (divide A size p l))) as [Ho _].
    { rewrite <- (K _ F1). apply Permutation_refl. }
    rewrite Ho. exact F2.
Qed.
End DivideProofs.

Lemma forall_removelast {T} (P : T -> Prop) (l : list T) : Forall P l -> Forall P (removelast l).
Proof.
  induction 1 as [|a l Ha Hl IH]; [constructor|]. destruct l as [|b l]; [constructor|].
  change (removelast (a :: b :: l)) with (a :: removelast (b :: l)). constructor; assumption.
Qed.

Section RebatchProofs.
Variable A : Type.
Variable size : nat.
Hypothesis size_pos : 0 < size.

(* invariant of the loop: the batches pushed are numbered 0.., all full; the pending buffer is not full *)
Definition rinv (buffer : list A) (o : list (nat * list A)) : Prop :=
  map fst o = seq 0 (length o) /\ Forall (fun b => length (snd b) = size) o /\ length buffer < size.

Lemma rebatch_inner_spec : forall fuel seqs buffer o, length seqs <= fuel -> rinv buffer o ->
  let r := rebatch_inner A fuel size seqs buffer o in
  rinv (fst r) (snd r) /\ concat (map snd (snd r)) ++ fst r = (concat (map snd o) ++ buffer) ++ seqs.
Proof.
  induction fuel as [|fuel IH]; intros seqs buffer o Hf Hinv; cbn zeta.
  - destruct seqs; [|cbn in Hf; lia]. cbn [rebatch_inner fst snd]. split; [exact Hinv|now rewrite app_nil_r].
  - cbn [rebatch_inner]. destruct seqs as [|x seqs'] eqn:Es.
    + cbn [fst snd]. split; [exact Hinv|now rewrite app_nil_r].
    + rewrite <- Es in *. destruct Hinv as [H1 [H2 H3]].
      set (tp := Nat.min (length seqs) (size - length buffer)).
      assert (Htp : 1 <= tp) by (unfold tp; subst seqs; cbn [length]; lia).
      assert (Htl : tp <= length seqs) by (unfold tp; lia).
      assert (Hb1 : length (buffer ++ firstn tp seqs) = length buffer + tp) by (rewrite app_length, firstn_length; lia).
      assert (Hsk : length (skipn tp seqs) <= fuel) by (rewrite skipn_length; lia).
      assert (Hsplit : firstn tp seqs ++ skipn tp seqs = seqs) by apply firstn_skipn.
      destruct (Nat.eqb_spec (length (buffer ++ firstn tp seqs)) size) as [Heq|Hne].
      * assert (I2 : rinv [] (o ++ [(length o, buffer ++ firstn tp seqs)])).
        { split; [|split].
          - rewrite map_app, app_length. cbn [map fst length]. rewrite Nat.add_1_r, seq_S, H1. reflexivity.
          - apply Forall_app. split; [exact H2|]. constructor; [exact Heq|constructor].
          - cbn [length]. exact size_pos. }
        destruct (IH (skipn tp seqs) [] _ Hsk I2) as [J1 J2]. cbn zeta in J1, J2. split; [exact J1|].
        rewrite J2. rewrite map_app, concat_app. cbn [map snd concat]. rewrite !app_nil_r.
        rewrite <- !app_assoc. rewrite Hsplit. reflexivity.
      * assert (I2 : rinv (buffer ++ firstn tp seqs) o).
        { split; [exact H1|split; [exact H2|]]. rewrite Hb1. unfold tp in *. lia. }
        destruct (IH (skipn tp seqs) _ o Hsk I2) as [J1 J2]. cbn zeta in J1, J2. split; [exact J1|].
        rewrite J2. rewrite <- !app_assoc. rewrite Hsplit. reflexivity.
Qed.

Lemma rebatch_fold_spec : forall batches st, rinv (fst st) (snd st) ->
  let r := fold_left (rebatch_step A size) batches st in
  rinv (fst r) (snd r) /\ concat (map snd (snd r)) ++ fst r = (concat (map snd (snd st)) ++ fst st) ++ concat batches.
Proof.
  induction batches as [|b batches IH]; intros st Hinv; cbn zeta; cbn [fold_left concat].
  - split; [exact Hinv|now rewrite app_nil_r].
  - destruct (rebatch_inner_spec (length b) b (fst st) (snd st) (le_n _) Hinv) as [K1 K2]. cbn zeta in K1, K2.
    destruct (IH (rebatch_step A size st b) K1) as [J1 J2]. cbn zeta in J1, J2. split; [exact J1|].
    rewrite J2. unfold rebatch_step at 1 2. rewrite K2. now rewrite <- !app_assoc.
Qed.

(* Rebatch: batches numbered 0, 1, 2, ... without hole, carrying the records in order, all of [size] records
   except the last one (non-empty, not larger) *)
Lemma rebatch_spec (batches : list (list A)) :
  let R := rebatch A size batches in
  map fst R = seq 0 (length R) /\ concat (map snd R) = concat batches /\
  Forall (fun b => 0 < length (snd b) <= size) R /\
  Forall (fun b => length (snd b) = size) (removelast R).
Proof.
  cbn zeta. unfold rebatch.
  assert (I0 : rinv (fst (@nil A, @nil (nat * list A))) (snd (@nil A, @nil (nat * list A)))).
  { cbn. repeat split; [constructor|exact size_pos]. }
  destruct (rebatch_fold_spec batches _ I0) as [[H1 [H2 H3]] K]. cbn zeta in H1, H2, H3, K. cbn [fst snd map concat app] in K.
  set (st := fold_left (rebatch_step A size) batches ([], [])) in *.
  destruct (fst st) as [|x buf] eqn:Eb.
  - rewrite app_nil_r in K. repeat split; try assumption.
    + eapply Forall_impl; [|exact H2]. cbn. intros b Hb. lia.
    + apply forall_removelast. exact H2.
  - repeat split.
    + rewrite map_app, app_length. cbn [map fst length]. rewrite Nat.add_1_r, seq_S, H1. reflexivity.
    + rewrite map_app, concat_app. cbn [map snd concat]. rewrite app_nil_r. exact K.
    + apply Forall_app. split.
      * eapply Forall_impl; [|exact H2]. cbn. intros b Hb. lia.
      * constructor; [cbn [snd length] in *; lia|constructor].
    + rewrite removelast_last. exact H2.
Qed.
End RebatchProofs.
