From Coq Require Import String Ascii.
From Coq Require Import List Arith NArith ZArith Bool Lia Permutation.
Import ListNotations.
Local Open Scope N_scope.

(** C05 — (3) record-level transforms of the commands (executable definitions only).
    obiconvert, obicomplement, obigrep -l/-L/-c/-C/-v, obiannotate --length as maps [cmd_f];
    obicount as a fold in a commutative monoid. Tied to the REAL commands on every run:
    [cmd_mismatches] compares flat_map (cmd_f c) / the fold of the parsed input records with the parsed
    output of the command (tools/props/c05.py). *)
(* an abstract record: identifier, sequence bytes, quality bytes (None = no qualities), annotations
   (association list; a value is an integer, a string or any other JSON value kept as canonical text) *)
Definition bytes_ := list N.
Inductive aval := VInt (z : Z) | VStr (s : list N) | VRaw (json : list N).
Record rec := mkrec { rid : list N; rseq : list N; rqual : option (list N); rann : list (list N * aval) }.

(* rendering helper of the generated cases: a Coq string literal -> bytes *)
Fixpoint s2b (s : string) : list N :=
  match s with EmptyString => [] | String a s' => N_of_ascii a :: s2b s' end.

Fixpoint bytes_eqb (a b : list N) : bool :=
  match a, b with
  | [], [] => true
  | x :: a', y :: b' => N.eqb x y && bytes_eqb a' b'
  | _, _ => false
  end.
Definition aval_eqb (a b : aval) : bool :=
  match a, b with
  | VInt x, VInt y => Z.eqb x y
  | VStr x, VStr y => bytes_eqb x y
  | VRaw x, VRaw y => bytes_eqb x y
  | _, _ => false
  end.
Fixpoint lookup_ann (k : list N) (l : list (list N * aval)) : option aval :=
  match l with [] => None | (k', v) :: l' => if bytes_eqb k k' then Some v else lookup_ann k l' end.
(* SetAttribute on a map: replace or add *)
Fixpoint set_ann (k : list N) (v : aval) (l : list (list N * aval)) : list (list N * aval) :=
  match l with
  | [] => [(k, v)]
  | (k', v') :: l' => if bytes_eqb k k' then (k, v) :: l' else (k', v') :: set_ann k v l'
  end.
Fixpoint nodup_keys (l : list (list N * aval)) : bool :=
  match l with [] => true | (k, _) :: l' => match lookup_ann k l' with None => nodup_keys l' | Some _ => false end end.
(* annotations are maps: equality up to order *)
Definition ann_eqb (a b : list (list N * aval)) : bool :=
  Nat.eqb (List.length a) (List.length b) && nodup_keys a && nodup_keys b &&
  forallb (fun kv => match lookup_ann (fst kv) b with Some v => aval_eqb (snd kv) v | None => false end) a.
Definition oqual_eqb (a b : option (list N)) : bool :=
  match a, b with None, None => true | Some x, Some y => bytes_eqb x y | _, _ => false end.
Definition rec_eqb (a b : rec) : bool :=
  bytes_eqb (rid a) (rid b) && bytes_eqb (rseq a) (rseq b) && oqual_eqb (rqual a) (rqual b) && ann_eqb (rann a) (rann b).
Fixpoint recs_eqb (a b : list rec) : bool :=
  match a, b with
  | [], [] => true
  | x :: a', y :: b' => rec_eqb x y && recs_eqb a' b'
  | _, _ => false
  end.

(* pkg/obiseq/revcomp.go: _revcmpDNA = ".TVGHNNCDNNMNKNNNNYSAABWNRN]N[NNN" indexed by (code & 31) *)
Definition revcmp_tab : list N :=
  [46;84;86;71;72;78;78;67;68;78;78;77;78;75;78;78;78;78;89;83;65;65;66;87;78;82;78;93;78;91;78;78;78].
Definition nuc_complement (n : N) : N :=
  if N.eqb n 46 || N.eqb n 45 then n
  else if N.eqb n 91 then 93
  else if N.eqb n 93 then 91
  else if N.leb 65 n && N.leb n 122 then N.lor (nth (N.to_nat (N.land n 31)) revcmp_tab 78) 32
  else 110.

Definition key_count := s2b "count".
Definition key_seq_length := s2b "seq_length".
Definition key_pairing_mismatches := s2b "pairing_mismatches".

(* BioSequence.Count(): the integer attribute "count", 1 when absent *)
Definition rec_count (r : rec) : Z :=
  match lookup_ann key_count (rann r) with Some (VInt z) => z | _ => 1%Z end.
Definition rec_len (r : rec) : Z := Z.of_nat (List.length (rseq r)).

(* the commands whose per-record function is modelled here *)
Inductive cmd :=
| CConvert                                         (* obiconvert: identity *)
| CComplement                                      (* obicomplement: ReverseComplement(inplace) *)
| CGrep (invert : bool) (lmin lmax cmin cmax : Z)  (* obigrep [-v] -l -L -c -C (defaults 1, 2e9, 1, 2e9) *)
| CAnnotLength                                     (* obiannotate --length *)
| CCondComplement (invert : bool) (lmin lmax cmin cmax : Z).
                                                   (* MakeIConditionalWorker(predicate, ReverseComplement): selected records transformed, others unchanged *)

Definition unset_max : Z := 2000000000%Z.
(* obigrep/options.go CLISequenceSizePredicate / CLISequenceCountPredicate: a minimum is only applied when > 1,
   a maximum when different from 2e9 *)
Definition grep_pred (lmin lmax cmin cmax : Z) (r : rec) : bool :=
  (if Z.ltb 1 lmin then Z.leb lmin (rec_len r) else true) &&
  (if Z.eqb lmax unset_max then true else Z.leb (rec_len r) lmax) &&
  (if Z.ltb 1 cmin then Z.leb cmin (rec_count r) else true) &&
  (if Z.eqb cmax unset_max then true else Z.leb (rec_count r) cmax).

(* ReverseComplement(inplace), transcription of the loop of pkg/obiseq/revcomp.go:
     for i, j := Len-1, 0; i >= j; i-- { s[j], s[i] = comp(s[i]), comp(s[j]); j++ }
   (both right-hand sides are read before the two stores; i >= j with i = Len-1-j is 2j+1 <= Len) *)
Fixpoint upd_nth (l : list N) (k : nat) (v : N) : list N :=
  match l, k with
  | [], _ => []
  | _ :: l', O => v :: l'
  | x :: l', S k' => x :: upd_nth l' k' v
  end.
Fixpoint rc_loop (g : N -> N) (fuel j : nat) (s : list N) : list N :=
  match fuel with
  | O => s
  | S fuel' =>
      if Nat.leb (2 * j + 1) (List.length s) then
        let i := (List.length s - 1 - j)%nat in
        let a := g (nth i s 0) in
        let b := g (nth j s 0) in
        rc_loop g fuel' (S j) (upd_nth (upd_nth s j a) i b)
      else s
  end.
(* the sequence loop complements, the quality loop (same shape) only swaps *)
Definition revcomp_inplace (s : list N) : list N := rc_loop nuc_complement (List.length s) 0 s.
Definition reverse_inplace (s : list N) : list N := rc_loop (fun x => x) (List.length s) 0 s.

(* the specification of the loop (RecordsProofs.revcomp_loop_spec: the two are equal) *)
Definition revcomp_spec (r : rec) : rec :=
  mkrec (rid r) (rev (map nuc_complement (rseq r))) (option_map (@rev N) (rqual r)) (rann r).
Definition revcomp_rec (r : rec) : rec :=
  mkrec (rid r) (revcomp_inplace (rseq r)) (option_map reverse_inplace (rqual r)) (rann r).

Definition cmd_f (c : cmd) (r : rec) : list rec :=
  match c with
  | CConvert => [r]
  | CComplement => [revcomp_rec r]
  | CGrep inv lmin lmax cmin cmax => if xorb inv (grep_pred lmin lmax cmin cmax r) then [r] else []
  | CAnnotLength => [mkrec (rid r) (rseq r) (rqual r) (set_ann key_seq_length (VInt (rec_len r)) (rann r))]
  | CCondComplement inv lmin lmax cmin cmax => if xorb inv (grep_pred lmin lmax cmin cmax r) then [revcomp_rec r] else [r]
  end.
(* inputs on which cmd_f is the whole story (otherwise the record is outside the model):
   ReverseComplement also rewrites a "pairing_mismatches" map; Count() of a non-integer "count" is not modelled *)
Definition cmd_pre (c : cmd) (r : rec) : bool :=
  nodup_keys (rann r) &&
  match lookup_ann key_count (rann r) with None | Some (VInt _) => true | _ => false end &&
  match c with
  | CComplement | CCondComplement _ _ _ _ _ => match lookup_ann key_pairing_mismatches (rann r) with None => true | Some _ => false end
  | _ => true
  end.


(* obicsv --ids --count -s -k k1 -k k2 ...: one row per record: id, count, the value of each key (NA when absent), sequence *)
Definition key_NA := s2b "NA".
Definition csv_row (keys : list (list N)) (r : rec) : list aval :=
  VStr (rid r) :: VInt (rec_count r) ::
  map (fun k => match lookup_ann k (rann r) with Some v => v | None => VStr key_NA end) keys ++ [VStr (rseq r)].
Definition csv_f (keys : list (list N)) (r : rec) : list (list aval) := [csv_row keys r].
(* the values printed must be strings or integers (other values go through Go's %v formatting: not modelled) *)
Definition csv_pre (keys : list (list N)) (r : rec) : bool :=
  forallb (fun k => match lookup_ann k (rann r) with Some (VRaw _) => false | _ => true end) keys.
Fixpoint row_eqb (a b : list aval) : bool :=
  match a, b with
  | [], [] => true
  | x :: a', y :: b' => aval_eqb x y && row_eqb a' b'
  | _, _ => false
  end.
Fixpoint rows_eqb (a b : list (list aval)) : bool :=
  match a, b with
  | [], [] => true
  | x :: a', y :: b' => row_eqb x y && rows_eqb a' b'
  | _, _ => false
  end.

(* obicount is a fold, not a map: (variants, reads, symbols) in the commutative monoid (Z^3, +) *)
Definition cnt := (Z * Z * Z)%type.
Definition cnt_zero : cnt := (0, 0, 0)%Z.
Definition cnt_add (a b : cnt) : cnt :=
  match a, b with (v1, r1, s1), (v2, r2, s2) => (v1 + v2, r1 + r2, s1 + s2)%Z end.
Definition cnt_of (r : rec) : cnt := (1%Z, rec_count r, rec_len r).

Section Fold.
Variables (A M : Type) (op : M -> M -> M) (e : M) (g : A -> M).
(* the consumer's loop (IBioSequence.Count): batches in ARRIVAL order, records of a batch in order *)
Definition fold_recs (acc : M) (b : list A) : M := fold_left (fun a x => op a (g x)) b acc.
Definition fold_batches (arr : list (list A)) : M := fold_left fold_recs arr e.
(* per-worker partial results merged afterwards (obisummary): W = the batches each worker happened to take *)
Definition fold_workers (W : list (list (list A))) : M :=
  fold_left (fun a w => op a (fold_batches w)) W e.
(* the reference: one sequential pass over the input *)
Definition fold_spec (l : list A) : M := fold_recs e l.
End Fold.

Definition count_out (arr : list (list rec)) : cnt := fold_batches rec cnt cnt_add cnt_zero cnt_of arr.

(* correspondence: observed output of the REAL command on [inp] *)
(* MapNQ: the same input records given WITHOUT qualities (FASTA file) *)
Inductive ccase := Map (c : cmd) (o : list rec) | Count (v r s : Z) | Csv (keys : list (list N)) (rows : list (list aval))
                 | MapNQ (c : cmd) (o : list rec).
Definition strip_qual (r : rec) : rec := mkrec (rid r) (rseq r) None (rann r).
Definition cnt_eqb (a b : cnt) : bool :=
  match a, b with (v1, r1, s1), (v2, r2, s2) => Z.eqb v1 v2 && Z.eqb r1 r2 && Z.eqb s1 s2 end.
Definition case_ok (inp : list rec) (c : ccase) : bool :=
  match c with
  | Map c o => forallb (cmd_pre c) inp && recs_eqb (flat_map (cmd_f c) inp) o
  | Count v r s => forallb (cmd_pre CConvert) inp && cnt_eqb (fold_spec rec cnt cnt_add cnt_zero cnt_of inp) (v, r, s)
  | Csv keys rows => forallb (cmd_pre CConvert) inp && forallb (csv_pre keys) inp && rows_eqb (flat_map (csv_f keys) inp) rows
  | MapNQ c o => forallb (cmd_pre c) inp && recs_eqb (flat_map (cmd_f c) (map strip_qual inp)) o
  end.
Fixpoint cmd_mismatches_from (i : nat) (inp : list rec) (cs : list ccase) : list nat :=
  match cs with
  | [] => []
  | c :: cs' => if case_ok inp c then cmd_mismatches_from (S i) inp cs' else i :: cmd_mismatches_from (S i) inp cs'
  end.
Definition cmd_mismatches (inp : list rec) := cmd_mismatches_from 0 inp.
