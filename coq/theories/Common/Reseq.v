(** Common — the re-sequencing buffer shared by SortBatches (obiiter), WriteSeqFileChunk, WriteJSON and
    WriteCSV (obiformats): items tagged with an order number arrive in any order; an item is emitted
    when its number is the next expected one, then every directly following buffered item is drained.
    [pend] models the Go map (an arrival overwrites a previous entry with the same number: the most
    recent entry is found first, deletion removes every entry with that number). *)
From Coq Require Import List Arith Lia Permutation Bool.
Import ListNotations.

Section Reseq.
Variable A : Type.

Record st := mkst { next : nat; pend : list (nat * A); out : list A }.

Definition init : st := mkst 0 [] [].

Fixpoint lookup (k : nat) (p : list (nat * A)) : option A :=
  match p with
  | [] => None
  | (i, a) :: p' => if Nat.eqb i k then Some a else lookup k p'
  end.
Definition remove (k : nat) (p : list (nat * A)) : list (nat * A) :=
  filter (fun ia => negb (Nat.eqb (fst ia) k)) p.

(* the "for ok { ... }" loop; fuel = number of buffered entries *)
Fixpoint drain (fuel : nat) (s : st) : st :=
  match fuel with
  | O => s
  | S f =>
    match lookup (next s) (pend s) with
    | Some a => drain f (mkst (S (next s)) (remove (next s) (pend s)) (out s ++ [a]))
    | None => s
    end
  end.

Definition step (s : st) (oa : nat * A) : st :=
  let '(o, a) := oa in
  if Nat.eqb o (next s)
  then drain (length (pend s)) (mkst (S (next s)) (pend s) (out s ++ [a]))
  else mkst (next s) ((o, a) :: pend s) (out s).

Definition run (arr : list (nat * A)) : st := fold_left step arr init.

(** numbered l = [(0,l0); (1,l1); ...] *)
Definition numbered (l : list A) : list (nat * A) := combine (seq 0 (length l)) l.

(** ---------------------------------------------------------------- proofs *)

Lemma lookup_In k p a : lookup k p = Some a -> In (k, a) p.
Proof.
  induction p as [|[i b] p IH]; simpl; [discriminate|].
  destruct (Nat.eqb_spec i k) as [->|N]; intros H; [injection H as ->; now left|right; auto].
Qed.
Lemma lookup_None k p : lookup k p = None -> forall a, ~ In (k, a) p.
Proof.
  induction p as [|[i b] p IH]; simpl; intros H a; [tauto|].
  destruct (Nat.eqb_spec i k) as [->|N]; [discriminate|].
  intros [E|E]; [injection E as -> ->; congruence|exact (IH H a E)].
Qed.
Lemma remove_In k p i a : In (i, a) (remove k p) <-> In (i, a) p /\ i <> k.
Proof.
  unfold remove. rewrite filter_In. simpl. destruct (Nat.eqb_spec i k); simpl; intuition congruence.
Qed.
Lemma filter_len_le (f : nat * A -> bool) p : length (filter f p) <= length p.
Proof. induction p as [|x p IH]; simpl; [lia|destruct (f x); simpl; lia]. Qed.
Lemma remove_length_lt k p a : In (k, a) p -> length (remove k p) < length p.
Proof.
  induction p as [|[i b] p IH]; simpl; [tauto|]. intros [E|E].
  - injection E as -> ->. rewrite Nat.eqb_refl. simpl.
    pose proof (filter_len_le (fun ia => negb (Nat.eqb (fst ia) k)) p). unfold remove in *. lia.
  - specialize (IH E). destruct (Nat.eqb i k); simpl; unfold remove in *; lia.
Qed.

(** what has arrived so far is a set [done] of correctly numbered items of [l], each number at most once *)
Section Inv.
Variable l : list A.

Definition good (ia : nat * A) : Prop := nth_error l (fst ia) = Some (snd ia).

(* weak invariant: before draining — entries with number >= next are exactly the arrived ones *)
Definition PreInv (done : list (nat * A)) (s : st) : Prop :=
  out s = firstn (next s) l /\ next s <= length l /\
  (forall i a, In (i, a) (pend s) <-> In (i, a) done /\ next s <= i) /\
  (forall i, i < next s -> exists a, In (i, a) done).
Definition Inv (done : list (nat * A)) (s : st) : Prop :=
  PreInv done s /\ (forall a, ~ In (next s, a) done).

Lemma firstn_snoc n a : nth_error l n = Some a -> firstn n l ++ [a] = firstn (S n) l.
Proof.
  revert n. induction l as [|x l' IH]; intros [|n]; simpl; try discriminate.
  - intros H; injection H as ->; reflexivity.
  - intros H. f_equal. apply IH. exact H.
Qed.
Lemma nth_error_lt n a : nth_error l n = Some a -> n < length l.
Proof. intros H. apply nth_error_Some. congruence. Qed.

Lemma drain_inv done : Forall good done -> forall fuel s,
  length (pend s) <= fuel -> PreInv done s -> Inv done (drain fuel s).
Proof.
  intros Hg. induction fuel as [|f IH]; intros s Hf (Ho & Hn & Hp & Hd).
  - simpl. split; [exact (conj Ho (conj Hn (conj Hp Hd)))|]. intros a Ha.
    assert (In (next s, a) (pend s)) as X by (apply Hp; split; [exact Ha|lia]).
    destruct (pend s); [exact X|simpl in Hf; lia].
  - simpl. destruct (lookup (next s) (pend s)) as [a|] eqn:L.
    + pose proof (lookup_In _ _ _ L) as I. pose proof I as I'. apply Hp in I'. destruct I' as [Id _].
      assert (G : nth_error l (next s) = Some a) by (rewrite Forall_forall in Hg; exact (Hg _ Id)).
      apply IH.
      * simpl. pose proof (remove_length_lt _ _ _ I). lia.
      * unfold PreInv; simpl. split; [rewrite Ho; apply firstn_snoc; exact G|].
        split; [apply nth_error_lt in G; lia|]. split.
        -- intros i b. rewrite remove_In, Hp. intuition lia.
        -- intros i Hi. destruct (Nat.eq_dec i (next s)) as [->|N]; [exists a; exact Id|apply Hd; lia].
    + split; [exact (conj Ho (conj Hn (conj Hp Hd)))|]. intros a Ha.
      apply (lookup_None _ _ L a). apply Hp. split; [exact Ha|lia].
Qed.

Lemma step_inv done o a s : Forall good done -> good (o, a) -> ~ In o (map fst done) ->
  Inv done s -> Inv ((o, a) :: done) (step s (o, a)).
Proof.
  intros Hg Ga Hnew ((Ho & Hn & Hp & Hd) & Hx). unfold step.
  destruct (Nat.eqb_spec o (next s)) as [->|N].
  - apply drain_inv; [constructor; assumption|simpl; lia|].
    unfold PreInv; simpl. unfold good in Ga; simpl in Ga.
    split; [rewrite Ho; apply firstn_snoc; exact Ga|]. split; [apply nth_error_lt in Ga; lia|]. split.
    + intros i b. rewrite Hp. split.
      * intros [H1 H2]. split; [now right|]. destruct (Nat.eq_dec i (next s)) as [->|]; [exfalso; exact (Hx _ H1)|lia].
      * intros [[E|H1] H2]; [injection E as E1 E2; subst; lia|split; [exact H1|lia]].
    + intros i Hi. destruct (Nat.eq_dec i (next s)) as [->|Ne]; [exists a; now left|].
      destruct (Hd i ltac:(lia)) as [b Hb]. exists b. now right.
  - assert (Hlt : next s < o).
    { destruct (Nat.lt_ge_cases (next s) o) as [|Hge]; [assumption|]. exfalso.
      destruct (Hd o ltac:(lia)) as [b Hb]. apply Hnew. apply (in_map fst) in Hb. exact Hb. }
    split; [unfold PreInv; simpl; split; [exact Ho|]; split; [exact Hn|]; split|].
    + intros i b. simpl. rewrite Hp. split.
      * intros [E|[H1 H2]]; [injection E as -> ->; split; [now left|lia]|split; [now right|exact H2]].
      * intros [[E|H1] H2]; [now left|right; split; assumption].
    + intros i Hi. destruct (Hd i Hi) as [b Hb]. exists b. now right.
    + simpl. intros b [E|Hb]; [injection E as E _; lia|exact (Hx _ Hb)].
Qed.

Lemma run_inv arr : Forall good arr -> NoDup (map fst arr) -> forall done s,
  Forall good done -> (forall o, In o (map fst arr) -> ~ In o (map fst done)) ->
  Inv done s -> Inv (rev arr ++ done) (fold_left step arr s).
Proof.
  induction arr as [|[o a] arr IH]; intros Hg Hnd done s Hgd Hdis HI; [exact HI|].
  simpl. rewrite <- app_assoc. simpl. inversion Hg as [|? ? G1 G2]; subst. inversion Hnd as [|? ? N1 N2]; subst.
  apply IH; try assumption.
  - constructor; assumption.
  - intros o' Ho' [E|E]; [simpl in E; subst o'; exact (N1 Ho')|exact (Hdis o' (or_intror Ho') E)].
  - apply step_inv; try assumption. apply Hdis. now left.
Qed.

End Inv.

Lemma numbered_good l : Forall (good l) (numbered l).
Proof.
  unfold numbered. rewrite Forall_forall. intros [i a] H. unfold good; simpl.
  assert (G : forall k, In (i, a) (combine (seq k (length l)) l) -> nth_error l (i - k) = Some a /\ k <= i).
  { clear H. induction l as [|x l' IH]; simpl; intros k H; [tauto|]. destruct H as [E|H].
    - injection E as -> ->. rewrite Nat.sub_diag. split; [reflexivity|lia].
    - destruct (IH _ H) as [H1 H2]. replace (i - k) with (S (i - S k)) by lia. split; [exact H1|lia]. }
  destruct (G 0 H) as [G' _]. now rewrite Nat.sub_0_r in G'.
Qed.
Lemma fst_combine (X Y : Type) (x : list X) (y : list Y) : length x = length y -> map fst (combine x y) = x.
Proof. revert y. induction x as [|a x IH]; intros [|b y]; simpl; try discriminate; try reflexivity. intros H. f_equal. apply IH. lia. Qed.
Lemma numbered_keys l : map fst (numbered l) = seq 0 (length l).
Proof. unfold numbered. apply fst_combine. now rewrite seq_length. Qed.

(** MAIN THEOREM: whatever the arrival order of the numbered items, the output is the list in order
    and nothing stays buffered. *)
Theorem reseq_any_permutation (l : list A) (arr : list (nat * A)) :
  Permutation arr (numbered l) ->
  out (run arr) = l /\ pend (run arr) = [] /\ next (run arr) = length l.
Proof.
  intros P.
  assert (Hg : Forall (good l) arr).
  { rewrite Forall_forall. intros x Hx. pose proof (numbered_good l) as G. rewrite Forall_forall in G.
    apply G. eapply Permutation_in; eassumption. }
  assert (Hk : Permutation (map fst arr) (seq 0 (length l))).
  { rewrite <- numbered_keys. apply Permutation_map. exact P. }
  assert (Hnd : NoDup (map fst arr)).
  { eapply Permutation_NoDup; [apply Permutation_sym; exact Hk|apply seq_NoDup]. }
  assert (I0 : Inv l [] init).
  { unfold Inv, PreInv, init; simpl. split; [split; [reflexivity|split; [lia|split; [intros i a; split; [tauto|intros [[] _]]|intros i Hi; lia]]]|intros a []]. }
  pose proof (run_inv l arr Hg Hnd [] init (Forall_nil _) (fun _ _ H => H) I0) as ((Ho & Hn & Hp & Hd) & Hx).
  rewrite app_nil_r in *. unfold run. set (S := fold_left step arr init) in *.
  assert (Hall : forall i, i < length l -> exists a, In (i, a) (rev arr)).
  { intros i Hi. assert (In i (map fst arr)) as X.
    { eapply Permutation_in; [apply Permutation_sym; exact Hk|apply in_seq; lia]. }
    apply in_map_iff in X. destruct X as [[i' a] [E X]]. simpl in E. subst i'. exists a. now apply -> in_rev. }
  assert (Hnext : next S = length l).
  { destruct (Nat.eq_dec (next S) (length l)) as [|Ne]; [assumption|].
    destruct (Hall (next S) ltac:(lia)) as [a Ha]. exfalso. exact (Hx a Ha). }
  split; [rewrite Ho, Hnext; apply firstn_all|]. split; [|exact Hnext].
  destruct (pend S) as [|[i a] p] eqn:E; [reflexivity|]. exfalso.
  assert (In (i, a) ((i, a) :: p)) as X by (now left).
  apply Hp in X. destruct X as [X1 X2].
  apply in_rev in X1. apply (in_map fst) in X1. simpl in X1.
  eapply Permutation_in in X1; [|exact Hk]. apply in_seq in X1. lia.
Qed.

End Reseq.

Arguments mkst {A}. Arguments next {A}. Arguments pend {A}. Arguments out {A}.
Arguments init {A}. Arguments step {A}. Arguments run {A}. Arguments numbered {A}. Arguments drain {A}.
Arguments lookup {A}. Arguments remove {A}.
