(** C09 — the kernel never indexes a slice out of range (no Go panic), for all inputs.
    [lcs_core_c] is the kernel of Model.v written with CHECKED slice accesses: every read of previous / current / bA / bB and
    every write the Go code performs goes through [getc] / [setc] / [splice_c], which answer None (the run-time panic
    "index out of range") when the index is outside the slice; the values flow from the checked reads. The theorem says the
    checked kernel always answers Some of what the unchecked model answers: the silent default 0 of [get] in Model.v is never
    used, and FastLCSEGFScoreByte cannot panic whatever the sequences, the bound, the mode and the scratch buffer. *)
From Coq Require Import NArith ZArith List Bool Lia.
Import ListNotations.
From OBI.C09 Require Import Model BandM.
Open Scope Z_scope.
Ltac Zify.zify_post_hook ::= Z.div_mod_to_equations.

Definition inb (l : list N) (k : Z) : bool := (0 <=? k) && (k <? zlen l).
(** l[k] *)
Definition getc (l : list N) (k : Z) : option N := if inb l k then Some (get l k) else None.
(** l[k] = v *)
Definition setc (k : Z) (v : N) (l : list N) : option (list N) := if inb l k then Some (set k v l) else None.
(** the writes l[k], l[k+1], .. of one inner loop (none when the loop is empty) *)
Definition splice_c (k : Z) (cells l : list N) : option (list N) :=
  match cells with
  | [] => Some l
  | _ => if (0 <=? k) && (k + Z.of_nat (length cells) <=? zlen l) then Some (splice k cells l) else None
  end.

Notation "'do' x <- e ; f" := (match e with Some x => f | None => None end)
  (at level 200, x pattern, e at level 100, f at level 200, right associativity).

Fixpoint fold_c {A B : Type} (f : A -> B -> option A) (l : list B) (a : A) : option A :=
  match l with
  | [] => Some a
  | x :: l' => do a' <- f a x; fold_c f l' a'
  end.

Section KernelC.
  Variables (egf : bool) (bA bB : list N) (lA lB extra even : Z).

  Definition even_cell_c (previous : list N) (y : Z) (acc : list N * (Z * Z)) (x : Z) : option (list N * (Z * Z)) :=
    let '(cells, pe) := acc in
    let i := (y - x + extra)%Z in
    let j := (y + x - extra)%Z in
    do t <- (if (i =? 0)%Z then Some (c_notavail, c_notavail, first_row_left egf j)
             else if (j =? 0)%Z then Some (c_notavail, enc 0 (Z.to_N i) false, c_notavail)
             else
               do p <- getc previous x;
               do a <- getc bA (j - 1);
               do b <- getc bB (i - 1);
               let d0 := incpath p in
               let d := if samenuc a b then incscore d0 else d0 in
               do u <- (if (x <? even - 1)%Z then (do v <- getc previous (x + even); Some (incpath v)) else Some c_out);
               do l <- (if (0 <? x)%Z then
                          (do l0 <- getc previous (x + even - 1);
                           Some (if ((0 <? i)%Z && (i <? lB)%Z) || negb egf then incpath l0 else l0))
                        else Some c_out);
               Some (d, u, l));
    let '(Sdiag, Sup, Sleft) := t in
    let '(score, pe') := choose egf i lB j Sdiag Sup Sleft pe in
    let score := if (x =? 0)%Z || (x =? even - 1)%Z then setout score else score in
    Some (score :: cells, pe').

  Definition odd_cell_c (previous current : list N) (y : Z) (acc : list N * (Z * Z)) (x : Z) : option (list N * (Z * Z)) :=
    let '(cells, pe) := acc in
    let i := (y - x + extra + even)%Z in
    let j := (y + x - extra - even + 1)%Z in
    do t <- (if (i =? 0)%Z then Some (c_notavail, c_notavail, first_row_left egf j)
             else if (j =? 0)%Z then Some (c_notavail, enc 0 (Z.to_N i) false, c_notavail)
             else
               do p <- getc previous x;
               do a <- getc bA (j - 1);
               do b <- getc bB (i - 1);
               let d0 := incpath p in
               let d := if samenuc a b then incscore d0 else d0 in
               do l0 <- getc current (x - even);
               let l := if ((0 <? i)%Z && (i <? lB)%Z) || negb egf then incpath l0 else l0 in
               do v <- getc current (x - even + 1);
               Some (d, incpath v, l));
    let '(Sdiag, Sup, Sleft) := t in
    let '(score, pe') := choose egf i lB j Sdiag Sup Sleft pe in
    Some (score :: cells, pe').

  Definition row_step_c (y : Z) (st : list N * list N * (Z * Z)) : option (list N * list N * (Z * Z)) :=
    let '(previous, current, pe) := st in
    let width := (2 * even - 1)%Z in
    let xs := Z.max (Z.max (y - lB + extra) (extra - y)) 0 in
    let xf := (Z.min (Z.min (y + extra) (lA + extra - y)) (even - 1) + 1)%Z in
    do r <- fold_c (even_cell_c previous y) (zrange xs xf) ([], pe);
    do current <- splice_c xs (rev (fst r)) current;
    let xs := Z.max (Z.max (y - lB + extra + even) (extra - y + even - 1)) even in
    let xf := (Z.min (Z.min (y + extra + even) (lA + extra - y + even - 1)) (width - 1) + 1)%Z in
    do r2 <- fold_c (odd_cell_c previous current y) (zrange xs xf) ([], snd r);
    do current <- splice_c xs (rev (fst r2)) current;
    Some (current, previous, snd r2).

  Fixpoint rows_c (n : nat) (y : Z) (st : list N * list N * (Z * Z)) : option (list N * list N * (Z * Z)) :=
    match n with
    | O => Some st
    | S n' => do st' <- row_step_c y st; rows_c n' (y + 1)%Z st'
    end.
End KernelC.

(** buffer[lo:hi] (hi within the capacity) *)
Definition slice_c (l : list N) (lo hi : Z) : option (list N) :=
  if (0 <=? lo) && (lo <=? hi) && (hi <=? zlen l) then Some (firstn (Z.to_nat (hi - lo)) (skipn (Z.to_nat lo) l)) else None.

Definition lcs_core_c (bA bB : list N) (maxerr : Z) (egf : bool) (init : list N) : option (Z * Z * Z) :=
  let lA := zlen bA in
  let lB := zlen bB in
  let maxe := if (maxerr =? -1)%Z then (lA * 2)%Z else maxerr in
  let delta := (lA - lB)%Z in
  let maxe := if egf then (maxe + delta)%Z else maxe in
  if (maxe <? delta)%Z then Some (-1, -1, -1)%Z else
  let extra := (maxe - delta + 1)%Z in
  let even := (1 + delta + 2 * extra)%Z in
  let width := (2 * even - 1)%Z in
  let buf := if (zlen init <? 2 * width)%Z then repeat 0%N (Z.to_nat (3 * width)) else init in
  do previous <- slice_c buf 0 width;
  do current <- slice_c buf width (2 * width);
  do previous <- setc extra c_empty previous;
  do previous <- setc (extra + even) (if egf then enc 0 0 false else enc 0 1 false) previous;
  do previous <- setc (extra + even - 1) (enc 0 1 false) previous;
  let ny := (lB + delta / 2)%Z in
  do st <- rows_c egf bA bB lA lB extra even (Z.to_nat ny) 1%Z (previous, current, (0, 0)%Z);
  let '(previous, _, pe) := st in
  do w <- getc previous ((delta mod 2) * even + extra + delta / 2)%Z;
  let '(s, l, o) := dec w in
  Some (if o then (-1, -1, -1)%Z else (Z.of_N s, Z.of_N l, snd pe)).

Definition lcs_band_c (a b : list N) (maxerr : Z) (egf : bool) (init : list N) : option (Z * Z * Z) :=
  if (zlen a <? zlen b)%Z then lcs_core_c b a maxerr egf init else lcs_core_c a b maxerr egf init.

(* ------------------------------------------------------------------ proofs *)
Lemma getc_in : forall l k, 0 <= k < zlen l -> getc l k = Some (get l k).
Proof.
  intros l k H. unfold getc, inb. destruct (Z.leb_spec 0 k); [| lia]. destruct (Z.ltb_spec k (zlen l)); [| lia]. reflexivity.
Qed.
Lemma setc_in : forall k v l, 0 <= k < zlen l -> setc k v l = Some (set k v l).
Proof.
  intros k v l H. unfold setc, inb. destruct (Z.leb_spec 0 k); [| lia]. destruct (Z.ltb_spec k (zlen l)); [| lia]. reflexivity.
Qed.
Lemma splice_c_in : forall k cells l, 0 <= k -> k + Z.of_nat (length cells) <= zlen l ->
  splice_c k cells l = Some (splice k cells l).
Proof.
  intros k cells l H1 H2. unfold splice_c. destruct cells as [| c cells].
  - unfold splice. cbn [app length]. rewrite Nat.add_0_r, firstn_skipn. reflexivity.
  - destruct (Z.leb_spec 0 k); [| lia]. destruct (Z.leb_spec (k + Z.of_nat (length (c :: cells))) (zlen l)); [| lia]. reflexivity.
Qed.
Lemma splice_c_empty : forall k cells l, cells = [] -> splice_c k cells l = Some (splice k cells l).
Proof. intros k cells l ->. unfold splice_c, splice. cbn [app length]. rewrite Nat.add_0_r, firstn_skipn. reflexivity. Qed.

Lemma fold_c_ok : forall (A B : Type) (fc : A -> B -> option A) (f : A -> B -> A) (l : list B),
  (forall a x, In x l -> fc a x = Some (f a x)) -> forall a, fold_c fc l a = Some (fold_left f l a).
Proof.
  intros A B fc f l. induction l as [| x l IH]; intros H a; [reflexivity |].
  cbn [fold_c fold_left]. rewrite H by (left; reflexivity). apply IH. intros a' x' Hx. apply H. right. exact Hx.
Qed.

(** each inner loop conses exactly one cell per index *)
Lemma fold_len : forall (step : list N * (Z * Z) -> Z -> list N * (Z * Z)) (l : list Z),
  (forall cells pe x, exists v pe', step (cells, pe) x = (v :: cells, pe')) ->
  forall cells pe, length (fst (fold_left step l (cells, pe))) = (length l + length cells)%nat.
Proof.
  intros step l H. induction l as [| x l IH]; intros cells pe; [reflexivity |].
  cbn [fold_left]. destruct (H cells pe x) as (v & pe' & E). rewrite E, IH. cbn [length]. lia.
Qed.

Ltac fin_choose :=
  cbv beta iota;
  try match goal with |- context [choose ?a ?b ?c ?d ?e ?f ?g ?h] => destruct (choose a b c d e f g h) end;
  reflexivity.

Section SafeProofs.
  Variables (egf : bool) (bA bB : list N) (extra even : Z).
  Local Notation lA := (zlen bA).
  Local Notation lB := (zlen bB).
  Hypothesis Hle : lB <= lA.
  Hypothesis Hextra : 1 <= extra.
  Hypothesis Heven : even = 1 + (lA - lB) + 2 * extra.
  Local Notation width := (2 * even - 1).

  Lemma even_cell_cons : forall previous y cells pe x, exists v pe',
    even_cell egf bA bB lB extra even previous y (cells, pe) x = (v :: cells, pe').
  Proof.
    intros. unfold even_cell. cbv zeta.
    destruct (y - x + extra =? 0); [| destruct (y + x - extra =? 0)]; cbv beta iota;
      match goal with |- context [choose ?a ?b ?c ?d ?e ?f ?g ?h] => destruct (choose a b c d e f g h) as [sc pe'] end;
      eexists; eexists; reflexivity.
  Qed.
  Lemma odd_cell_cons : forall previous current y cells pe x, exists v pe',
    odd_cell egf bA bB lB extra even previous current y (cells, pe) x = (v :: cells, pe').
  Proof.
    intros. unfold odd_cell. cbv zeta.
    destruct (y - x + extra + even =? 0); [| destruct (y + x - extra - even + 1 =? 0)]; cbv beta iota;
      match goal with |- context [choose ?a ?b ?c ?d ?e ?f ?g ?h] => destruct (choose a b c d e f g h) as [sc pe'] end;
      eexists; eexists; reflexivity.
  Qed.

  Lemma even_cell_c_ok : forall previous y acc x, zlen previous = width ->
    0 <= y - x + extra <= lB -> 0 <= y + x - extra <= lA -> 0 <= x <= even - 1 ->
    even_cell_c egf bA bB lB extra even previous y acc x = Some (even_cell egf bA bB lB extra even previous y acc x).
  Proof.
    intros previous y [cells pe] x Hp Hi Hj Hx. unfold even_cell_c, even_cell. cbv zeta.
    destruct (Z.eqb_spec (y - x + extra) 0) as [Ei | Ei]; [fin_choose |].
    destruct (Z.eqb_spec (y + x - extra) 0) as [Ej | Ej]; [fin_choose |].
    rewrite (getc_in previous x) by lia. rewrite (getc_in bA) by lia. rewrite (getc_in bB) by lia.
    destruct (Z.ltb_spec x (even - 1)) as [X1 | X1]; [rewrite (getc_in previous (x + even)) by lia |];
      (destruct (Z.ltb_spec 0 x) as [X0 | X0]; [rewrite (getc_in previous (x + even - 1)) by lia |]); fin_choose.
  Qed.

  Lemma odd_cell_c_ok : forall previous current y acc x, zlen previous = width -> zlen current = width ->
    0 <= y - x + extra + even <= lB -> 0 <= y + x - extra - even + 1 <= lA -> even <= x <= width - 1 ->
    odd_cell_c egf bA bB lB extra even previous current y acc x =
    Some (odd_cell egf bA bB lB extra even previous current y acc x).
  Proof.
    intros previous current y [cells pe] x Hp Hc Hi Hj Hx. unfold odd_cell_c, odd_cell. cbv zeta.
    destruct (Z.eqb_spec (y - x + extra + even) 0) as [Ei | Ei]; [fin_choose |].
    destruct (Z.eqb_spec (y + x - extra - even + 1) 0) as [Ej | Ej]; [fin_choose |].
    rewrite (getc_in previous x) by lia. rewrite (getc_in bA) by lia. rewrite (getc_in bB) by lia.
    rewrite (getc_in current (x - even)) by lia. rewrite (getc_in current (x - even + 1)) by lia. fin_choose.
  Qed.

  Lemma row_step_c_ok : forall y previous current pe, zlen previous = width -> zlen current = width ->
    row_step_c egf bA bB lA lB extra even y (previous, current, pe) =
      Some (row_step egf bA bB lA lB extra even y (previous, current, pe)) /\
    (let '(p', c', _) := row_step egf bA bB lA lB extra even y (previous, current, pe) in
     zlen p' = width /\ zlen c' = width).
  Proof.
    intros y previous current pe Hp Hc. unfold row_step_c, row_step. cbv zeta.
    set (xs := Z.max (Z.max (y - lB + extra) (extra - y)) 0).
    set (xf := Z.min (Z.min (y + extra) (lA + extra - y)) (even - 1) + 1).
    rewrite (fold_c_ok _ _ _ (even_cell egf bA bB lB extra even previous y)).
    2:{ intros a x Hx. apply in_zrange in Hx. apply even_cell_c_ok; [exact Hp | lia | lia | lia]. }
    pose proof (fold_len (even_cell egf bA bB lB extra even previous y) (zrange xs xf) (even_cell_cons previous y) [] pe) as L1.
    destruct (fold_left (even_cell egf bA bB lB extra even previous y) (zrange xs xf) ([], pe)) as [cells1 pe1].
    cbn [fst snd] in *. rewrite zrange_length in L1. cbn [length] in L1.
    assert (S1 : splice_c xs (rev cells1) current = Some (splice xs (rev cells1) current)).
    { destruct (Z_lt_le_dec xs xf) as [Lt | Ge].
      - apply splice_c_in; [lia | rewrite rev_length; lia].
      - apply splice_c_empty. destruct cells1; [reflexivity | cbn [length] in L1; lia]. }
    rewrite S1.
    assert (C1 : zlen (splice xs (rev cells1) current) = width).
    { unfold zlen. destruct (Z_lt_le_dec xs xf) as [Lt | Ge].
      - rewrite splice_length; [exact Hc | lia | rewrite rev_length; unfold zlen in Hc; lia].
      - assert (cells1 = []) as -> by (destruct cells1; [reflexivity | cbn [length] in L1; lia]).
        unfold splice. cbn [rev app length]. rewrite Nat.add_0_r, firstn_skipn. exact Hc. }
    set (current1 := splice xs (rev cells1) current) in *.
    set (xs2 := Z.max (Z.max (y - lB + extra + even) (extra - y + even - 1)) even).
    set (xf2 := Z.min (Z.min (y + extra + even) (lA + extra - y + even - 1)) (width - 1) + 1).
    rewrite (fold_c_ok _ _ _ (odd_cell egf bA bB lB extra even previous current1 y)).
    2:{ intros a x Hx. apply in_zrange in Hx. apply odd_cell_c_ok; [exact Hp | exact C1 | lia | lia | lia]. }
    pose proof (fold_len (odd_cell egf bA bB lB extra even previous current1 y) (zrange xs2 xf2)
                  (odd_cell_cons previous current1 y) [] pe1) as L2.
    destruct (fold_left (odd_cell egf bA bB lB extra even previous current1 y) (zrange xs2 xf2) ([], pe1)) as [cells2 pe2].
    cbn [fst snd] in *. rewrite zrange_length in L2. cbn [length] in L2.
    assert (S2 : splice_c xs2 (rev cells2) current1 = Some (splice xs2 (rev cells2) current1)).
    { destruct (Z_lt_le_dec xs2 xf2) as [Lt | Ge].
      - apply splice_c_in; [lia | rewrite rev_length; lia].
      - apply splice_c_empty. destruct cells2; [reflexivity | cbn [length] in L2; lia]. }
    rewrite S2. split; [reflexivity |]. split; [| exact Hp].
    unfold zlen. destruct (Z_lt_le_dec xs2 xf2) as [Lt | Ge].
    - rewrite splice_length; [exact C1 | lia | rewrite rev_length; unfold zlen in C1; lia].
    - assert (cells2 = []) as -> by (destruct cells2; [reflexivity | cbn [length] in L2; lia]).
      unfold splice. cbn [rev app length]. rewrite Nat.add_0_r, firstn_skipn. exact C1.
  Qed.

  Lemma rows_c_ok : forall n y previous current pe, zlen previous = width -> zlen current = width ->
    rows_c egf bA bB lA lB extra even n y (previous, current, pe) =
      Some (rows egf bA bB lA lB extra even n y (previous, current, pe)) /\
    (let '(p', c', _) := rows egf bA bB lA lB extra even n y (previous, current, pe) in
     zlen p' = width /\ zlen c' = width).
  Proof.
    induction n as [| n IH]; intros y previous current pe Hp Hc.
    - cbn [rows_c rows]. split; [reflexivity | split; assumption].
    - cbn [rows_c rows]. destruct (row_step_c_ok y previous current pe Hp Hc) as [E L]. rewrite E.
      destruct (row_step egf bA bB lA lB extra even y (previous, current, pe)) as [[p' c'] pe']. destruct L as [Lp Lc].
      apply IH; assumption.
  Qed.
End SafeProofs.

Lemma slice_c_in : forall l lo hi, 0 <= lo <= hi -> hi <= zlen l ->
  slice_c l lo hi = Some (firstn (Z.to_nat (hi - lo)) (skipn (Z.to_nat lo) l)) /\
  zlen (firstn (Z.to_nat (hi - lo)) (skipn (Z.to_nat lo) l)) = hi - lo.
Proof.
  intros l lo hi H1 H2. unfold slice_c. destruct (Z.leb_spec 0 lo); [| lia]. destruct (Z.leb_spec lo hi); [| lia].
  destruct (Z.leb_spec hi (zlen l)); [| lia]. split; [reflexivity |].
  unfold zlen in *. rewrite firstn_length, skipn_length. lia.
Qed.

Theorem lcs_core_c_ok : forall bA bB maxerr egf init, zlen bB <= zlen bA ->
  lcs_core_c bA bB maxerr egf init = Some (lcs_core bA bB maxerr egf init).
Proof.
  intros bA bB maxerr egf init Hle. unfold lcs_core_c, lcs_core. cbv zeta.
  set (maxe := if egf then (if maxerr =? -1 then zlen bA * 2 else maxerr) + (zlen bA - zlen bB)
               else (if maxerr =? -1 then zlen bA * 2 else maxerr)).
  destruct (Z.ltb_spec maxe (zlen bA - zlen bB)) as [Lt | Ge]; [reflexivity |].
  set (extra := maxe - (zlen bA - zlen bB) + 1).
  set (even := 1 + (zlen bA - zlen bB) + 2 * extra).
  assert (Hextra : 1 <= extra) by (unfold extra; lia).
  assert (Hlb : 0 <= zlen bB) by (unfold zlen; lia).
  set (buf := if zlen init <? 2 * (2 * even - 1) then repeat 0%N (Z.to_nat (3 * (2 * even - 1))) else init).
  assert (Hbuf : 2 * (2 * even - 1) <= zlen buf).
  { unfold buf. destruct (Z.ltb_spec (zlen init) (2 * (2 * even - 1))) as [B | B]; [| exact B].
    unfold zlen. rewrite repeat_length. unfold even. lia. }
  destruct (slice_c_in buf 0 (2 * even - 1) ltac:(unfold even; lia) ltac:(lia)) as [E1 L1]. rewrite E1.
  destruct (slice_c_in buf (2 * even - 1) (2 * (2 * even - 1)) ltac:(unfold even; lia) ltac:(lia)) as [E2 L2]. rewrite E2.
  replace (Z.to_nat (2 * even - 1 - 0)) with (Z.to_nat (2 * even - 1)) in * by lia.
  replace (Z.to_nat (2 * (2 * even - 1) - (2 * even - 1))) with (Z.to_nat (2 * even - 1)) in * by lia.
  change (skipn (Z.to_nat 0) buf) with buf in *.
  set (p0 := firstn (Z.to_nat (2 * even - 1)) buf) in *.
  set (c0 := firstn (Z.to_nat (2 * even - 1)) (skipn (Z.to_nat (2 * even - 1)) buf)) in *.
  assert (W : zlen p0 = 2 * even - 1) by lia. assert (Wc : zlen c0 = 2 * even - 1) by lia.
  rewrite (setc_in extra) by (unfold even in *; lia).
  assert (W1 : zlen (set extra c_empty p0) = 2 * even - 1).
  { unfold zlen. rewrite set_length by (unfold even in *; lia). exact W. }
  rewrite (setc_in (extra + even)) by (unfold even in *; lia).
  set (p1 := set extra c_empty p0) in *.
  set (v1 := if egf then enc 0 0 false else enc 0 1 false).
  assert (W2 : zlen (set (extra + even) v1 p1) = 2 * even - 1).
  { unfold zlen. rewrite set_length by (unfold even in *; lia). exact W1. }
  rewrite (setc_in (extra + even - 1)) by (unfold even in *; lia).
  set (p2 := set (extra + even) v1 p1) in *.
  assert (W3 : zlen (set (extra + even - 1) (enc 0 1 false) p2) = 2 * even - 1).
  { unfold zlen. rewrite set_length by (unfold even in *; lia). exact W2. }
  set (p3 := set (extra + even - 1) (enc 0 1 false) p2) in *.
  destruct (rows_c_ok egf bA bB extra even Hle Hextra eq_refl
              (Z.to_nat (zlen bB + (zlen bA - zlen bB) / 2)) 1 p3 c0 (0, 0) W3 Wc) as [ER LR].
  fold even in ER, LR. rewrite ER.
  destruct (rows egf bA bB (zlen bA) (zlen bB) extra even (Z.to_nat (zlen bB + (zlen bA - zlen bB) / 2)) 1 (p3, c0, (0, 0)))
    as [[pf cf] pef]. destruct LR as [Lp Lc].
  assert (Hm : (zlen bA - zlen bB) mod 2 = 0 \/ (zlen bA - zlen bB) mod 2 = 1) by lia.
  rewrite getc_in by (destruct Hm as [-> | ->]; unfold even in *; lia).
  destruct (dec _) as [[s l] o]. destruct o; reflexivity.
Qed.

(** FastLCSEGFScoreByte performs no out-of-range slice access: the checked kernel answers what the model answers, for
    all sequences, all bounds, both modes and any content and capacity of the scratch buffer *)
Theorem lcs_band_no_panic : forall a b maxerr egf init,
  lcs_band_c a b maxerr egf init = Some (lcs_band a b maxerr egf init).
Proof.
  intros a b maxerr egf init. unfold lcs_band_c, lcs_band.
  destruct (Z.ltb_spec (zlen a) (zlen b)) as [L | L]; apply lcs_core_c_ok; lia.
Qed.
