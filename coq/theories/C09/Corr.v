(** C09 — correspondence on the observables the property speaks about: (score, length) of the two LCS entry
    points and the four results of D1Or0. Beyond the bound the property accepts 'not found' and any pair that is
    itself beyond the bound alike, so answers are compared after the projection [proj]: a within-bound pair must
    be the same pair, anything else is the single class "beyond". The third result of FastLCSEGFScore (an end
    position whose value depends on how ties between equally good cells are broken) is modelled by lcs_band but
    not compared. CR cases tie the two Coq references (lcs_ref, lcs_ref_egf) to the full-matrix Python oracle that judges
    the long sequences. *)
From Coq Require Import NArith ZArith List Bool.
Import ListNotations.
From OBI.C09 Require Import Model.

(** a scratch buffer of n words (its whole capacity) filled with the words of [pat] repeated, as the harness builds it *)
Fixpoint fill_from (n : nat) (pat cur : list N) : list N :=
  match n with
  | O => []
  | S n' => match cur with
            | w :: cur' => w :: fill_from n' pat cur'
            | [] => match pat with
                    | w :: cur' => w :: fill_from n' pat cur'
                    | [] => 0%N :: fill_from n' pat []
                    end
            end
  end.
Definition fillbuf (n : N) (pat : list N) : list N := fill_from (N.to_nat n) pat pat.

(** None = not found, malformed, or a pair with more differences than the bound m (m = -1: no bound) *)
Definition proj (m s l : Z) : option (Z * Z) :=
  if (s <? 0)%Z || (l <? 0)%Z then None
  else if (m =? -1)%Z || (l - s <=? m)%Z then Some (s, l) else None.
Definition opt_eqb (x y : option (Z * Z)) : bool :=
  match x, y with
  | None, None => true
  | Some (s, l), Some (s', l') => (s =? s')%Z && (l =? l')%Z
  | _, _ => false
  end.

Definition case_ok_sl (c : ccase) : bool :=
  match c with
  | CL a b m egf init s l _ =>
    let '(s', l', _) := lcs_band a b m egf init in opt_eqb (proj m s' l') (proj m s l)
  | CD a b d pos a1 a2 =>
    let '(d', pos', a1', a2') := d1or0 a b in
    (d' =? d)%Z && (pos' =? pos)%Z && (a1' =? a1)%N && (a2' =? a2)%N
  | CR a b egf rs rl => ref_ok a b egf rs rl
  | CW w s l o io lp => word_ok w s l o io lp
  end.

Fixpoint mismatches_sl_from (i : nat) (l : list ccase) : list nat :=
  match l with
  | [] => []
  | c :: l' => let rest := mismatches_sl_from (S i) l' in if case_ok_sl c then rest else i :: rest
  end.
Definition mismatches_sl := mismatches_sl_from 0.
