(** C09 — the LCS clause as a Prop and as a boolean, soundness of the boolean check and completeness of the
    enumerations used by the bounded (evaluated) theorems. *)
From Coq Require Import NArith ZArith List Bool Lia.
Import ListNotations.
From OBI.C09 Require Import Model.
Open Scope Z_scope.

(** the LCS clause of the property for one pair and one bound *)
Definition band_spec (a b : list N) (m : Z) : Prop :=
  let rs := Z.of_nat (fst (lcs_ref a b)) in
  let rl := Z.of_nat (snd (lcs_ref a b)) in
  let s := fst (fast_lcs_score a b m []) in
  let l := snd (fast_lcs_score a b m []) in
  ((m = -1 \/ rl - rs <= m) -> s = rs /\ l = rl) /\
  ((m <> -1 /\ m < rl - rs) -> (s = -1 /\ l = -1) \/ (0 <= s /\ m < l - s)).

Lemma band_spec_ok_sound : forall a b m, band_spec_ok a b m = true -> band_spec a b m.
Proof.
  intros a b m H. unfold band_spec_ok, band_spec_ok_r in H. unfold band_spec. cbv zeta.
  set (rs := Z.of_nat (fst (lcs_ref a b))) in *. set (rl := Z.of_nat (snd (lcs_ref a b))) in *.
  set (s := fst (fast_lcs_score a b m [])) in *. set (l := snd (fast_lcs_score a b m [])) in *.
  destruct ((m =? -1) || (rl - rs <=? m)) eqn:E.
  - apply andb_true_iff in H. destruct H as [H1 H2]. apply Z.eqb_eq in H1, H2.
    split; [intros _; split; assumption |].
    intros [Hm Hlt]. apply orb_true_iff in E. destruct E as [E | E]; [apply Z.eqb_eq in E | apply Z.leb_le in E]; lia.
  - apply orb_false_iff in E. destruct E as [E1 E2]. apply Z.eqb_neq in E1. apply Z.leb_gt in E2.
    split; [intros [Hm | Hle]; lia |].
    intros _. apply orb_true_iff in H. destruct H as [H | H]; apply andb_true_iff in H; destruct H as [H1 H2].
    + left. apply Z.eqb_eq in H1, H2. split; assumption.
    + right. apply Z.leb_le in H1. apply Z.ltb_lt in H2. split; assumption.
Qed.

Definition over (alpha : list N) (a : list N) : Prop := forall c, In c a -> In c alpha.

Lemma seqs_len_complete : forall alpha n a, over alpha a -> length a = n -> In a (seqs_len alpha n).
Proof.
  induction n as [| n IH]; intros a Ha Hn.
  - destruct a; [left; reflexivity | discriminate].
  - destruct a as [| c a']; [discriminate |]. cbn [seqs_len]. apply in_flat_map.
    exists a'. split.
    + apply IH; [intros d Hd; apply Ha; right; exact Hd | cbn in Hn; lia].
    + apply in_map_iff. exists c. split; [reflexivity | apply Ha; left; reflexivity].
Qed.

Lemma seqs_upto_complete : forall alpha n a, over alpha a -> (length a <= n)%nat -> In a (seqs_upto alpha n).
Proof.
  induction n as [| n IH]; intros a Ha Hn.
  - destruct a; [left; reflexivity | cbn in Hn; lia].
  - cbn [seqs_upto]. apply in_or_app.
    destruct (Nat.eq_dec (length a) (S n)) as [E | E].
    + right. apply seqs_len_complete; assumption.
    + left. apply IH; [assumption | lia].
Qed.

Lemma zrange_complete : forall lo hi m, lo <= m < hi -> In m (zrange lo hi).
Proof.
  intros lo hi m H. unfold zrange. apply in_map_iff. exists (Z.to_nat (m - lo)). split; [rewrite Z2Nat.id by lia; lia |].
  apply in_seq. split; [lia |]. cbn [plus]. apply Z2Nat.inj_lt; lia.
Qed.

Lemma band_ok_on_sound : forall alpha n, band_ok_on alpha n = true ->
  forall a b m, over alpha a -> over alpha b -> (length a <= n)%nat -> (length b <= n)%nat ->
  -1 <= m <= Z.of_nat n + 1 -> band_spec a b m.
Proof.
  intros alpha n H a b m Ha Hb Hla Hlb Hm. unfold band_ok_on in H.
  rewrite forallb_forall in H. specialize (H a (seqs_upto_complete alpha n a Ha Hla)).
  rewrite forallb_forall in H. specialize (H b (seqs_upto_complete alpha n b Hb Hlb)). cbv zeta in H.
  rewrite forallb_forall in H. specialize (H m (zrange_complete (-1) (Z.of_nat n + 2) m ltac:(lia))).
  apply band_spec_ok_sound. exact H.
Qed.
