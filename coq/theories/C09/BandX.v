(** C09 — further exhaustive facts about the banded kernel (pairs over {a,c} up to length 4): the answer does not depend on the
    content of a reused scratch buffer (two poisoned buffers: every word 2^64-1, every word the best possible
    in-band cell) and is symmetric in its two arguments; for sequences of different lengths the symmetry holds for
    all inputs (the kernel swaps them). *)
From Coq Require Import NArith ZArith List Bool Lia.
Import ListNotations.
From OBI.C09 Require Import Model.
Open Scope Z_scope.

Definition poison1 : list N := repeat 18446744073709551615%N 130.
Definition poison2 : list N := repeat (enc 65535 0 false) 130.

Definition zz_eqb (x y : Z * Z) : bool := (fst x =? fst y) && (snd x =? snd y).

Definition band_extra_ok (a b : list N) (m : Z) : bool :=
  let r := fast_lcs_score a b m [] in
  zz_eqb (fast_lcs_score a b m poison1) r && zz_eqb (fast_lcs_score a b m poison2) r
  && zz_eqb (fast_lcs_score b a m []) r.

Definition band_extra_all (alpha : list N) (n : nat) : bool :=
  forallb (fun a => forallb (fun b => forallb (band_extra_ok a b) (zrange (-1) (Z.of_nat n + 2))) (seqs_upto alpha n))
    (seqs_upto alpha n).

Lemma band_extra_binary_4 : band_extra_all binary 4 = true.
Proof. vm_cast_no_check (eq_refl true). Qed.

(** the buffers are long enough to be used, not replaced by zeros: 2*width <= 74 for lengths <= 4 *)
Lemma poison_len : length poison1 = 130%nat /\ length poison2 = 130%nat.
Proof. split; apply repeat_length. Qed.

Lemma lcs_band_swap : forall a b m egf init, length a <> length b ->
  lcs_band a b m egf init = lcs_band b a m egf init.
Proof.
  intros a b m egf init H. unfold lcs_band, zlen.
  destruct (Z.ltb_spec (Z.of_nat (length a)) (Z.of_nat (length b))) as [L | L];
    destruct (Z.ltb_spec (Z.of_nat (length b)) (Z.of_nat (length a))) as [L' | L']; try reflexivity; exfalso; lia.
Qed.

From OBI.C09 Require Import Band.

Lemma zz_eqb_eq : forall x y, zz_eqb x y = true -> x = y.
Proof.
  intros [a b] [c d] H. unfold zz_eqb in H. cbn [fst snd] in H. apply andb_true_iff in H.
  destruct H as [H1 H2]. apply Z.eqb_eq in H1, H2. subst. reflexivity.
Qed.

Lemma band_extra_sound : forall alpha n, band_extra_all alpha n = true ->
  forall a b m, over alpha a -> over alpha b -> (length a <= n)%nat -> (length b <= n)%nat ->
  -1 <= m <= Z.of_nat n + 1 ->
  fast_lcs_score a b m poison1 = fast_lcs_score a b m [] /\
  fast_lcs_score a b m poison2 = fast_lcs_score a b m [] /\
  fast_lcs_score b a m [] = fast_lcs_score a b m [].
Proof.
  intros alpha n H a b m Ha Hb La Lb Hm. unfold band_extra_all in H.
  rewrite forallb_forall in H. specialize (H a (seqs_upto_complete alpha n a Ha La)).
  rewrite forallb_forall in H. specialize (H b (seqs_upto_complete alpha n b Hb Lb)).
  rewrite forallb_forall in H. specialize (H m (zrange_complete (-1) (Z.of_nat n + 2) m ltac:(lia))).
  unfold band_extra_ok in H. cbv zeta in H. apply andb_true_iff in H. destruct H as [H H3].
  apply andb_true_iff in H. destruct H as [H1 H2].
  split; [apply zz_eqb_eq; exact H1 |]. split; apply zz_eqb_eq; assumption.
Qed.

Lemma band_extra_binary_upto_4 : forall a b m, over binary a -> over binary b ->
  (length a <= 4)%nat -> (length b <= 4)%nat -> -1 <= m <= 5 ->
  fast_lcs_score a b m poison1 = fast_lcs_score a b m [] /\
  fast_lcs_score a b m poison2 = fast_lcs_score a b m [] /\
  fast_lcs_score b a m [] = fast_lcs_score a b m [].
Proof. intros a b m Ha Hb La Lb Hm. apply (band_extra_sound binary 4 band_extra_binary_4); assumption. Qed.
