(** C09 — the kernel swaps sequences of different lengths (all inputs, both modes, any buffer). *)
From Coq Require Import NArith ZArith List Bool Lia.
Import ListNotations.
From OBI.C09 Require Import Model.
Open Scope Z_scope.

Lemma lcs_band_swap : forall a b m egf init, length a <> length b ->
  lcs_band a b m egf init = lcs_band b a m egf init.
Proof.
  intros a b m egf init H. unfold lcs_band, zlen.
  destruct (Z.ltb_spec (Z.of_nat (length a)) (Z.of_nat (length b))) as [L | L];
    destruct (Z.ltb_spec (Z.of_nat (length b)) (Z.of_nat (length a))) as [L' | L']; try reflexivity; exfalso; lia.
Qed.
