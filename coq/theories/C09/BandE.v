(** C09 — layers (ii)-(iv) of the band theorem (mode FastLCSScore, endgapfree = false): every in-band cell of the banded
    matrix is a sound packed value, it equals the unbanded lexicographic DP on every cell whose optimum has few enough
    differences for its optimal paths to stay inside the band, and the conclusion for the corner cell. *)
From Coq Require Import NArith ZArith List Bool Lia.
Import ListNotations.
From OBI.C09 Require Import Model Pack Ref RefSym BandM.
Open Scope Z_scope.
Ltac Zify.zify_post_hook ::= Z.div_mod_to_equations.

(* ------------------------------------------------------------------ reference: reversal, numeric invariants *)
Lemma ali_app : forall a b s l, ali a b s l -> forall a' b' s' l', ali a' b' s' l' ->
  ali (a ++ a') (b ++ b') (s + s') (l + l').
Proof.
  intros a b s l H. induction H as [| x y a b s l M H IH | x y a b s l H IH | x a b s l H IH | y a b s l H IH];
    intros a' b' s' l' H'; cbn [app plus].
  - exact H'.
  - apply A_match; [exact M | apply IH; exact H'].
  - apply A_mism. apply IH. exact H'.
  - apply A_gap_b. apply IH. exact H'.
  - apply A_gap_a. apply IH. exact H'.
Qed.

Lemma ali_rev : forall a b s l, ali a b s l -> ali (rev a) (rev b) s l.
Proof.
  intros a b s l H. induction H as [| x y a b s l M H IH | x y a b s l H IH | x a b s l H IH | y a b s l H IH]; cbn [rev].
  - apply A_nil.
  - replace (S s) with (s + 1)%nat by lia. replace (S l) with (l + 1)%nat by lia.
    apply ali_app; [exact IH | apply A_match; [exact M | apply A_nil]].
  - replace s with (s + 0)%nat by lia. replace (S l) with (l + 1)%nat by lia.
    apply ali_app; [exact IH | apply A_mism; apply A_nil].
  - replace s with (s + 0)%nat by lia. replace (S l) with (l + 1)%nat by lia. rewrite (app_nil_end (rev b)).
    apply ali_app; [exact IH | apply A_gap_b; apply A_nil].
  - replace s with (s + 0)%nat by lia. replace (S l) with (l + 1)%nat by lia. rewrite (app_nil_end (rev a)).
    apply ali_app; [exact IH | apply A_gap_a; apply A_nil].
Qed.

Lemma lcs_ref_rev : forall a b, lcs_ref (rev a) (rev b) = lcs_ref a b.
Proof.
  intros a b. apply le2_antisym.
  - pose proof (ali_rev _ _ _ _ (lcs_ref_achieved (rev a) (rev b))) as H0. rewrite !rev_involutive in H0.
    pose proof (lcs_ref_optimal a b _ _ H0) as H. destruct (lcs_ref (rev a) (rev b)). exact H.
  - pose proof (lcs_ref_optimal (rev a) (rev b) _ _ (ali_rev _ _ _ _ (lcs_ref_achieved a b))) as H.
    destruct (lcs_ref a b). exact H.
Qed.

Lemma ali_bounds : forall a b s l, ali a b s l ->
  (s + l <= length a + length b /\ length a <= l /\ length b <= l)%nat.
Proof.
  intros a b s l H. induction H; cbn [length]; lia.
Qed.

Lemma lcs_ref_bounds : forall a b,
  (fst (lcs_ref a b) + snd (lcs_ref a b) <= length a + length b /\ length a <= snd (lcs_ref a b) /\
   length b <= snd (lcs_ref a b))%nat.
Proof. intros a b. apply (ali_bounds a b). apply lcs_ref_achieved. Qed.

Lemma firstn_snoc : forall (l : list N) n, (n < length l)%nat -> firstn (S n) l = firstn n l ++ [nth n l 0%N].
Proof.
  induction l as [| a l IH]; intros n H; [cbn in H; lia |].
  destruct n as [| n]; [reflexivity |]. cbn [firstn nth app]. f_equal. apply IH. cbn in H. lia.
Qed.

(* ------------------------------------------------------------------ words *)
Lemma incpath_pos : forall w, (w <> 0 -> incpath w = w - 1)%N.
Proof. intros w H. unfold incpath. destruct (N.eqb_spec w 0); [contradiction | reflexivity]. Qed.
Lemma incscore_small : forall w, (w + 65536 < W64 -> incscore w = w + 65536)%N.
Proof. intros w H. unfold incscore. apply N.mod_small. exact H. Qed.
Lemma setout_small : forall w, (w < 4294967296 -> setout w = w)%N.
Proof.
  intros w Hw. unfold setout, W64, outbit.
  change (18446744073709551616 - 1 - 4294967296)%N with (4294967294 * 2 ^ 32 + 4294967295)%N.
  assert (EC : (4294967294 * 2 ^ 32 + 4294967295 = N.lor (4294967294 * 2 ^ 32) (N.ones 32))%N).
  { rewrite lor_add; reflexivity. }
  rewrite EC, N.land_lor_distr_r. rewrite (N.land_comm w (4294967294 * 2 ^ 32)), land_hi_lo by exact Hw.
  rewrite N.lor_0_l, N.land_ones. apply N.mod_small. exact Hw.
Qed.
Lemma dec_small_out : forall w, (w < 4294967296)%N -> snd (dec w) = true.
Proof.
  intros w Hw. unfold dec, outbit. cbn [snd]. change 4294967296%N with (2 ^ 32)%N. rewrite land_pow2.
  rewrite (testbit_small w 32 32); [reflexivity | exact Hw | lia].
Qed.

Lemma notavail_le : forall l, (l <= 30000 -> N.max c_notavail (enc 0 l false) = enc 0 l false)%N.
Proof.
  intros l H. apply N.max_r. unfold c_notavail. rewrite !enc_val by lia. unfold val. lia.
Qed.

Definition stepw_diag (m : bool) (w : N) : N := let d0 := incpath w in if m then incscore d0 else d0.

Lemma enc_step1 : forall s l : nat, Z.of_nat s <= 30000 -> Z.of_nat l <= 60000 ->
  incpath (enc (N.of_nat s) (N.of_nat l) false) = enc (N.of_nat (fst (step1 (s, l)))) (N.of_nat (snd (step1 (s, l)))) false.
Proof.
  intros s l Hs Hl. unfold step1. cbn [fst snd]. rewrite incpath_enc by lia.
  replace (N.of_nat (S l)) with (N.of_nat l + 1)%N by lia. reflexivity.
Qed.
Lemma enc_stepm : forall m (s l : nat), Z.of_nat s <= 30000 -> Z.of_nat l <= 60000 ->
  stepw_diag m (enc (N.of_nat s) (N.of_nat l) false) =
  enc (N.of_nat (fst (stepm m (s, l)))) (N.of_nat (snd (stepm m (s, l)))) false.
Proof.
  intros m s l Hs Hl. unfold stepw_diag, stepm. cbn [fst snd]. rewrite incpath_enc by lia.
  replace (N.of_nat (S l)) with (N.of_nat l + 1)%N by lia.
  destruct m; [| reflexivity]. rewrite incscore_enc by lia.
  replace (N.of_nat (S s)) with (N.of_nat s + 1)%N by lia. reflexivity.
Qed.

Section Layer2.
  Variables (bA bB : list N) (extra : Z).
  Hypothesis Hle : zlen bB <= zlen bA.
  Hypothesis Hextra : 1 <= extra.
  Hypothesis Hsmall : zlen bA + zlen bB <= 30000.
  Let lA := zlen bA.
  Let lB := zlen bB.
  Let even := 1 + (lA - lB) + 2 * extra.
  Let M := bmat false bA bB lB extra even.

  (** the unbanded lexicographic DP: cell (i, j) = reference of the prefixes (reversed: the reference recursion
      peels heads, the matrix peels the last symbols) *)
  Definition F (i j : Z) : nat * nat :=
    lcs_ref (rev (firstn (Z.to_nat j) bA)) (rev (firstn (Z.to_nat i) bB)).

  Definition rect (i j : Z) : Prop := 0 <= i <= lB /\ 0 <= j <= lA.
  Definition inband (i j : Z) : Prop := 0 <= j - i + 2 * extra <= 2 * (even - 1).

  Lemma len_pre : forall (l : list N) k, 0 <= k <= zlen l -> length (rev (firstn (Z.to_nat k) l)) = Z.to_nat k.
  Proof. intros l k H. unfold zlen in H. rewrite rev_length, firstn_length. lia. Qed.

  Lemma F_row0 : forall j, 0 <= j <= lA -> F 0 j = (0%nat, Z.to_nat j).
  Proof. intros j H. unfold F. cbn [Z.to_nat firstn rev]. rewrite lcs_ref_nil_r, len_pre by exact H. reflexivity. Qed.
  Lemma F_col0 : forall i, 0 <= i <= lB -> F i 0 = (0%nat, Z.to_nat i).
  Proof. intros i H. unfold F. cbn [Z.to_nat firstn rev]. rewrite lcs_ref_nil_l, len_pre by exact H. reflexivity. Qed.

  Lemma pre_cons : forall (l : list N) k, 1 <= k <= zlen l ->
    rev (firstn (Z.to_nat k) l) = get l (k - 1) :: rev (firstn (Z.to_nat (k - 1)) l).
  Proof.
    intros l k H. unfold zlen in H. replace (Z.to_nat k) with (S (Z.to_nat (k - 1))) by lia.
    rewrite firstn_snoc by lia. rewrite rev_unit. unfold get.
    destruct (Z.ltb_spec (k - 1) 0); [lia | reflexivity].
  Qed.

  Lemma F_rec : forall i j, 1 <= i <= lB -> 1 <= j <= lA ->
    F i j = best (stepm (samenuc (get bA (j - 1)) (get bB (i - 1))) (F (i - 1) (j - 1)))
                 (best (step1 (F i (j - 1))) (step1 (F (i - 1) j))).
  Proof.
    intros i j Hi Hj. unfold F at 1. rewrite (pre_cons bA j Hj), (pre_cons bB i Hi), lcs_ref_cons.
    unfold F. rewrite <- (pre_cons bA j Hj), <- (pre_cons bB i Hi). reflexivity.
  Qed.

  Lemma F_bounds : forall i j, rect i j ->
    Z.of_nat (fst (F i j)) + Z.of_nat (snd (F i j)) <= i + j /\ i <= Z.of_nat (snd (F i j)) /\ j <= Z.of_nat (snd (F i j)).
  Proof.
    intros i j [Hi Hj]. unfold F.
    pose proof (lcs_ref_bounds (rev (firstn (Z.to_nat j) bA)) (rev (firstn (Z.to_nat i) bB))) as H.
    rewrite !len_pre in H by assumption. lia.
  Qed.

  (** a sound in-band word: a pair not better than the unbanded optimum, within the numeric envelope of alignments *)
  Definition inb (w : N) (i j : Z) : Prop :=
    exists s l : nat, w = enc (N.of_nat s) (N.of_nat l) false /\
      Z.of_nat s + Z.of_nat l <= i + j /\ i <= Z.of_nat l /\ j <= Z.of_nat l /\ le2 (s, l) (F i j).
  (** an out word: below every in-band word, far enough from 0 and from bit 32 for the field updates not to wrap *)
  Definition outb (w : N) (i j : Z) : Prop := 35534 - (i + j) <= Z.of_N w < 65536 * (Z.min i j + 1).
  Definition good (w : N) (i j : Z) : Prop := inb w i j \/ outb w i j.

  (** the optimum of cell (i, j) has so few differences that all its optimal paths stay strictly inside the band *)
  Definition cond (i j : Z) : Prop :=
    let e := Z.of_nat (snd (F i j)) - Z.of_nat (fst (F i j)) in
    e - (j - i) < 4 * extra /\ e + (j - i) < 4 * (lA - lB) + 4 * extra.

  Definition encF (i j : Z) : N := enc (N.of_nat (fst (F i j))) (N.of_nat (snd (F i j))) false.

  Lemma cond_interior : forall i j, rect i j -> cond i j -> 0 < j - i + 2 * extra < 2 * (even - 1).
  Proof. intros i j R [C1 C2]. pose proof (F_bounds i j R). unfold rect in R. unfold even. lia. Qed.

  Lemma good_diag : forall i j w, 1 <= i <= lB -> 1 <= j <= lA -> good w (i - 1) (j - 1) ->
    good (stepw_diag (samenuc (get bA (j - 1)) (get bB (i - 1))) w) i j.
  Proof.
    intros i j w Hi Hj [[s [l [E [B1 [B2 [B3 L]]]]]] | [O1 O2]].
    - left. subst w. rewrite enc_stepm by lia.
      exists (fst (stepm (samenuc (get bA (j - 1)) (get bB (i - 1))) (s, l))), (snd (stepm (samenuc (get bA (j - 1)) (get bB (i - 1))) (s, l))).
      split; [reflexivity |]. rewrite <- surjective_pairing.
      split; [| split; [| split]].
      4:{ rewrite F_rec by assumption. eapply le2_trans; [apply stepm_mono; exact L | apply best_l]. }
      all: unfold stepm; destruct (samenuc _ _); cbn [fst snd]; lia.
    - right. unfold outb, stepw_diag. rewrite incpath_pos by lia.
      destruct (samenuc _ _).
      + rewrite incscore_small by (unfold W64; lia). lia.
      + lia.
  Qed.

  Lemma good_up : forall i j w, 1 <= i <= lB -> 1 <= j <= lA -> good w (i - 1) j -> good (incpath w) i j.
  Proof.
    intros i j w Hi Hj [[s [l [E [B1 [B2 [B3 L]]]]]] | [O1 O2]].
    - left. subst w. rewrite enc_step1 by lia. exists (fst (step1 (s, l))), (snd (step1 (s, l))).
      split; [reflexivity |]. rewrite <- surjective_pairing. unfold step1 at 1 2 3 4. cbn [fst snd].
      split; [lia |]. split; [lia |]. split; [lia |].
      rewrite F_rec by assumption. eapply le2_trans; [apply step1_mono; exact L |].
      eapply le2_trans; [apply best_r | apply best_r].
    - right. unfold outb. rewrite incpath_pos by lia. lia.
  Qed.

  Lemma good_left : forall i j w, 1 <= i <= lB -> 1 <= j <= lA -> good w i (j - 1) -> good (incpath w) i j.
  Proof.
    intros i j w Hi Hj [[s [l [E [B1 [B2 [B3 L]]]]]] | [O1 O2]].
    - left. subst w. rewrite enc_step1 by lia. exists (fst (step1 (s, l))), (snd (step1 (s, l))).
      split; [reflexivity |]. rewrite <- surjective_pairing. unfold step1 at 1 2 3 4. cbn [fst snd].
      split; [lia |]. split; [lia |]. split; [lia |].
      rewrite F_rec by assumption. eapply le2_trans; [apply step1_mono; exact L |].
      eapply le2_trans; [apply best_l | apply best_r].
    - right. unfold outb. rewrite incpath_pos by lia. lia.
  Qed.

  Lemma good_cout : forall i j, 0 <= i -> 0 <= j -> good c_out i j.
  Proof. intros i j Hi Hj. right. unfold outb. change (Z.of_N c_out) with 35534. lia. Qed.

  Lemma good_max : forall a b i j, good a i j -> good b i j -> good (N.max a b) i j.
  Proof. intros a b i j Ha Hb. destruct (N.max_spec a b) as [[_ ->] | [_ ->]]; assumption. Qed.

  Lemma good_setout : forall w i j, rect i j -> good w i j -> good (setout w) i j.
  Proof.
    intros w i j [Ri Rj] [[s [l [E [B1 [B2 [B3 L]]]]]] | [O1 O2]]; right; unfold outb.
    - subst w. rewrite setout_enc by lia. rewrite enc_val by lia. unfold val. lia.
    - rewrite setout_small by lia. lia.
  Qed.

  Lemma inb_lt_2_33 : forall w i j, rect i j -> inb w i j -> (4294967296 <= w)%N.
  Proof. intros w i j [Ri Rj] [s [l [E [B1 [B2 [B3 L]]]]]]. subst w. rewrite enc_val by lia. unfold val. lia. Qed.

  (** a sound word that is at least the packed optimum is the packed optimum *)
  Lemma good_ge_F : forall w i j, rect i j -> good w i j -> (encF i j <= w)%N -> w = encF i j.
  Proof.
    intros w i j R G H. pose proof (F_bounds i j R) as FB. unfold rect in R. unfold encF in *.
    destruct G as [[s [l [E [B1 [B2 [B3 L]]]]]] | [O1 O2]].
    - subst w. destruct (F i j) as [fs fl] eqn:EF. cbn [fst snd] in *.
      unfold le2 in L. cbn [fst snd] in L.
      assert (s = fs /\ l = fl) as [-> ->]; [| reflexivity].
      destruct (Nat.eq_dec s fs) as [Es | Es]; [destruct (Nat.eq_dec l fl) as [El | El]; [auto |] |]; exfalso.
      + assert (X : (enc (N.of_nat s) (N.of_nat l) false < enc (N.of_nat fs) (N.of_nat fl) false)%N).
        { apply enc_lt; [lia | lia | lia | lia |]. right. split; [reflexivity | lia]. }
        lia.
      + assert (X : (enc (N.of_nat s) (N.of_nat l) false < enc (N.of_nat fs) (N.of_nat fl) false)%N).
        { apply enc_lt; [lia | lia | lia | lia |]. right. split; [reflexivity | lia]. }
        lia.
    - exfalso. rewrite enc_val in H by lia. unfold val in H. lia.
  Qed.

  Definition Pcell (i j : Z) : Prop := good (M i j) i j /\ (cond i j -> M i j = encF i j).

  Lemma cell_step : forall i j, rect i j -> inband i j ->
    (forall i' j', rect i' j' -> inband i' j' -> i' + j' < i + j -> Pcell i' j') -> Pcell i j.
  Proof.
    intros i j R B IH. pose proof R as [Ri Rj]. unfold inband in B.
    set (x2 := j - i + 2 * extra) in *.
    (* the value before the edge marking *)
    assert (HU : exists U, M i j = (if (x2 =? 0) || (x2 =? 2 * (even - 1)) then setout U else U) /\
                           good U i j /\ (cond i j -> U = encF i j)).
    { unfold M. rewrite M_rec by lia. fold M. unfold mcell, mtriple. fold x2.
      destruct (Z.eqb_spec i 0) as [Ei | Ei]; [| destruct (Z.eqb_spec j 0) as [Ej | Ej]].
      - (* first row *)
        exists (enc 0 (Z.to_N j) false). rewrite !notavail_le by lia. split; [reflexivity |].
        assert (EF : encF i j = enc 0 (Z.to_N j) false).
        { unfold encF. subst i. rewrite F_row0 by lia. cbn [fst snd]. f_equal. lia. }
        split; [| intros _; symmetry; exact EF].
        left. exists 0%nat, (Z.to_nat j). subst i. rewrite F_row0 by lia.
        split; [f_equal; lia |]. split; [lia |]. split; [lia |]. split; [lia | apply le2_refl].
      - (* first column *)
        exists (enc 0 (Z.to_N i) false).
        replace (N.max c_notavail (N.max (enc 0 (Z.to_N i) false) c_notavail)) with (enc 0 (Z.to_N i) false)
          by (rewrite (N.max_comm (enc 0 (Z.to_N i) false)), !notavail_le by lia; reflexivity).
        split; [reflexivity |].
        assert (EF : encF i j = enc 0 (Z.to_N i) false).
        { unfold encF. subst j. rewrite F_col0 by lia. cbn [fst snd]. f_equal. lia. }
        split; [| intros _; symmetry; exact EF].
        left. exists 0%nat, (Z.to_nat i). subst j. rewrite F_col0 by lia.
        split; [f_equal; lia |]. split; [lia |]. split; [lia |]. split; [lia | apply le2_refl].
      - (* inside *)
        assert (Hi : 1 <= i <= lB) by lia. assert (Hj : 1 <= j <= lA) by lia.
        rewrite orb_true_r.
        set (m := samenuc (get bA (j - 1)) (get bB (i - 1))).
        change (if m then incscore (incpath (M (i - 1) (j - 1))) else incpath (M (i - 1) (j - 1)))
          with (stepw_diag m (M (i - 1) (j - 1))).
        set (Sd := stepw_diag m (M (i - 1) (j - 1))).
        set (Su := if x2 <? 2 * (even - 1) then incpath (M (i - 1) j) else c_out).
        set (Sl := if 0 <? x2 then incpath (M i (j - 1)) else c_out).
        exists (N.max Sd (N.max Su Sl)). split; [reflexivity |].
        destruct (IH (i - 1) (j - 1)) as [Gd Cd]; [unfold rect; lia | unfold inband; lia | lia |].
        assert (GSd : good Sd i j) by (apply good_diag; assumption).
        assert (GSu : good Su i j).
        { unfold Su. destruct (Z.ltb_spec x2 (2 * (even - 1))); [| apply good_cout; lia].
          apply good_up; try assumption. apply IH; [unfold rect; lia | unfold inband; lia | lia]. }
        assert (GSl : good Sl i j).
        { unfold Sl. destruct (Z.ltb_spec 0 x2); [| apply good_cout; lia].
          apply good_left; try assumption. apply IH; [unfold rect; lia | unfold inband; lia | lia]. }
        assert (GU : good (N.max Sd (N.max Su Sl)) i j) by (apply good_max; [| apply good_max]; assumption).
        split; [exact GU |].
        intro C. apply good_ge_F; [exact R | exact GU |].
        pose proof (cond_interior i j R C) as CI. fold x2 in CI.
        pose proof (F_rec i j Hi Hj) as FR. fold m in FR.
        pose proof (F_bounds (i - 1) (j - 1) ltac:(unfold rect; lia)) as FBd.
        pose proof (F_bounds (i - 1) j ltac:(unfold rect; lia)) as FBu.
        pose proof (F_bounds i (j - 1) ltac:(unfold rect; lia)) as FBl.
        unfold cond in C. cbv zeta in C.
        destruct (best_cases (stepm m (F (i - 1) (j - 1))) (best (step1 (F i (j - 1))) (step1 (F (i - 1) j)))) as [E | E];
          rewrite E in FR; [| destruct (best_cases (step1 (F i (j - 1))) (step1 (F (i - 1) j))) as [E' | E']; rewrite E' in FR].
        + (* the optimum comes from the diagonal neighbour *)
          assert (Cd' : cond (i - 1) (j - 1)).
          { unfold cond. cbv zeta. rewrite FR in C. unfold stepm in C. destruct m; cbn [fst snd] in C; lia. }
          assert (ESd : Sd = encF i j).
          { unfold Sd. rewrite (Cd Cd'). unfold encF at 1. rewrite enc_stepm by lia.
            rewrite <- surjective_pairing, <- FR. reflexivity. }
          rewrite <- ESd. lia.
        + (* from the left neighbour *)
          assert (Cl' : cond i (j - 1)).
          { unfold cond. cbv zeta. rewrite FR in C. unfold step1 in C. cbn [fst snd] in C. lia. }
          destruct (IH i (j - 1)) as [_ Cl]; [unfold rect; lia | unfold inband; lia | lia |].
          assert (ESl : Sl = encF i j).
          { unfold Sl. destruct (Z.ltb_spec 0 x2); [| lia]. rewrite (Cl Cl'). unfold encF at 1. rewrite enc_step1 by lia.
            rewrite <- surjective_pairing, <- FR. reflexivity. }
          rewrite <- ESl. lia.
        + (* from the upper neighbour *)
          assert (Cu' : cond (i - 1) j).
          { unfold cond. cbv zeta. rewrite FR in C. unfold step1 in C. cbn [fst snd] in C. lia. }
          destruct (IH (i - 1) j) as [_ Cu]; [unfold rect; lia | unfold inband; lia | lia |].
          assert (ESu : Su = encF i j).
          { unfold Su. destruct (Z.ltb_spec x2 (2 * (even - 1))); [| lia]. rewrite (Cu Cu'). unfold encF at 1. rewrite enc_step1 by lia.
            rewrite <- surjective_pairing, <- FR. reflexivity. }
          rewrite <- ESu. lia. }
    destruct HU as [U [EM [GU CU]]]. unfold Pcell. rewrite EM.
    destruct ((x2 =? 0) || (x2 =? 2 * (even - 1))) eqn:Edge.
    - split; [apply good_setout; assumption |]. intro C. exfalso.
      pose proof (cond_interior i j R C) as CI. fold x2 in CI.
      apply orb_true_iff in Edge. destruct Edge as [Edge | Edge]; apply Z.eqb_eq in Edge; lia.
    - split; assumption.
  Qed.

  Lemma cells_ok : forall (n : nat) i j, i + j <= Z.of_nat n -> rect i j -> inband i j -> Pcell i j.
  Proof.
    induction n as [| n IHn]; intros i j Hn R B; apply cell_step; try assumption.
    - intros i' j' [R1 R2] _ Hlt. unfold rect in R. lia.
    - intros i' j' R' B' Hlt. apply IHn; [lia | assumption | assumption].
  Qed.
End Layer2.

(* ------------------------------------------------------------------ conclusion *)
(** the LCS clause of the property for one pair, one bound and one scratch buffer content *)
Definition band_spec_buf (a b : list N) (m : Z) (init : list N) : Prop :=
  let rs := Z.of_nat (fst (lcs_ref a b)) in
  let rl := Z.of_nat (snd (lcs_ref a b)) in
  let s := fst (fast_lcs_score a b m init) in
  let l := snd (fast_lcs_score a b m init) in
  ((m = -1 \/ rl - rs <= m) -> s = rs /\ l = rl) /\
  ((m <> -1 /\ m < rl - rs) -> (s = -1 /\ l = -1) \/ (0 <= s /\ m < l - s)).

Lemma F_corner : forall bA bB, F bA bB (zlen bB) (zlen bA) = lcs_ref bA bB.
Proof.
  intros bA bB. unfold F, zlen. rewrite !Nat2Z.id, !firstn_all. apply lcs_ref_rev.
Qed.

Lemma core_exact : forall bA bB m, zlen bB <= zlen bA -> zlen bA + zlen bB <= 30000 ->
  let rs := Z.of_nat (fst (lcs_ref bA bB)) in
  let rl := Z.of_nat (snd (lcs_ref bA bB)) in
  let s := fst (fst (core_spec bA bB m false)) in
  let l := snd (fst (core_spec bA bB m false)) in
  ((m = -1 \/ rl - rs <= m) -> s = rs /\ l = rl) /\
  ((m <> -1 /\ m < rl - rs) -> (s = -1 /\ l = -1) \/ (0 <= s /\ m < l - s)).
Proof.
  intros bA bB m Hle Hsmall. cbv zeta.
  pose proof (lcs_ref_bounds bA bB) as RB. fold (zlen bA) in *.
  assert (RB' : Z.of_nat (fst (lcs_ref bA bB)) + Z.of_nat (snd (lcs_ref bA bB)) <= zlen bA + zlen bB /\
                zlen bA <= Z.of_nat (snd (lcs_ref bA bB)) /\ zlen bB <= Z.of_nat (snd (lcs_ref bA bB))) by (unfold zlen; lia).
  clear RB.
  assert (HlB : 0 <= zlen bB) by (unfold zlen; lia).
  unfold core_spec. cbv zeta.
  set (lA := zlen bA) in *. set (lB := zlen bB) in *.
  set (maxe := if m =? -1 then lA * 2 else m).
  assert (Hmaxe : (m = -1 /\ maxe = lA * 2) \/ (m <> -1 /\ maxe = m)).
  { unfold maxe. destruct (Z.eqb_spec m (-1)); [left | right]; split; auto. }
  destruct (Z.ltb_spec maxe (lA - lB)) as [Hm | Hm].
  { cbn [fst snd]. split; [intros [H | H]; exfalso; lia | intros _; left; split; reflexivity]. }
  set (extra := maxe - (lA - lB) + 1). set (even := 1 + (lA - lB) + 2 * extra).
  assert (Hex : 1 <= extra) by (unfold extra; lia).
  destruct (cells_ok bA bB extra Hle Hsmall (Z.to_nat (lB + lA)) lB lA) as [G C].
  { lia. } { unfold rect. fold lA lB. lia. } { unfold inband. fold lA lB. lia. }
  fold lA lB even in G, C. unfold encF in C. rewrite F_corner in C.
  set (w := bmat false bA bB lB extra even lB lA) in *.
  set (rs := fst (lcs_ref bA bB)) in *. set (rl := snd (lcs_ref bA bB)) in *.
  assert (Dcond : cond bA bB extra lB lA \/ ~ cond bA bB extra lB lA).
  { unfold cond. cbv zeta. rewrite F_corner. fold rs rl lA lB.
    destruct (Z_lt_dec (Z.of_nat rl - Z.of_nat rs - (lA - lB)) (4 * extra));
      destruct (Z_lt_dec (Z.of_nat rl - Z.of_nat rs + (lA - lB)) (4 * (lA - lB) + 4 * extra)); tauto. }
  destruct Dcond as [HC | HC].
  - (* the optimum stays inside the band: the corner holds the reference pair *)
    rewrite (C HC). rewrite dec_enc by lia. cbn [fst snd]. split; [intros _; split; lia |].
    intros [H1 H2]. right. lia.
  - assert (Hbig : 4 * extra + (lA - lB) <= Z.of_nat rl - Z.of_nat rs).
    { unfold cond in HC. cbv zeta in HC. rewrite F_corner in HC. fold rs rl lA lB in HC. lia. }
    split; [intros [H | H]; exfalso; unfold extra in *; lia |].
    intros [H1 H2]. destruct G as [[s [l [E [B1 [B2 [B3 L]]]]]] | [O1 O2]].
    + rewrite E. rewrite dec_enc by lia. cbn [fst snd]. right.
      rewrite F_corner in L. unfold le2 in L. cbn [fst snd] in L. fold rs rl in L. unfold extra in *. lia.
    + left. pose proof (dec_small_out w ltac:(lia)) as D. destruct (dec w) as [[s l] o]. cbn [snd] in D. subst o.
      cbn [fst snd]. split; reflexivity.
Qed.

(** C09_band_exact, for ALL pairs of sequences with |a| + |b| <= 30000, all bounds and any scratch buffer *)
Theorem band_exact : forall a b m init, Z.of_nat (length a) + Z.of_nat (length b) <= 30000 ->
  band_spec_buf a b m init.
Proof.
  intros a b m init Hs. unfold band_spec_buf, fast_lcs_score. rewrite lcs_band_matrix.
  destruct (Z.ltb_spec (zlen a) (zlen b)) as [L | L].
  - rewrite (lcs_ref_sym a b).
    pose proof (core_exact b a m ltac:(lia) ltac:(unfold zlen; lia)) as H. cbv zeta in H.
    destruct (core_spec b a m false) as [[s l] e]. exact H.
  - pose proof (core_exact a b m ltac:(lia) ltac:(unfold zlen; lia)) as H. cbv zeta in H.
    destruct (core_spec a b m false) as [[s l] e]. exact H.
Qed.

(* ------------------------------------------------------------------ layer (iii) stated on its own: geometry *)
(** [cond] is inherited by the neighbour an optimal path comes from, and it puts the cell strictly inside the band:
    following optimal predecessors from a cell satisfying [cond] never reaches an extreme diagonal, i.e. an optimal
    alignment with few enough differences never leaves the band. *)
Lemma cond_hereditary : forall bA bB extra i j, 1 <= i <= zlen bB -> 1 <= j <= zlen bA -> cond bA bB extra i j ->
  (F bA bB i j = stepm (samenuc (get bA (j - 1)) (get bB (i - 1))) (F bA bB (i - 1) (j - 1)) -> cond bA bB extra (i - 1) (j - 1)) /\
  (F bA bB i j = step1 (F bA bB i (j - 1)) -> cond bA bB extra i (j - 1)) /\
  (F bA bB i j = step1 (F bA bB (i - 1) j) -> cond bA bB extra (i - 1) j).
Proof.
  intros bA bB extra i j Hi Hj C. unfold cond in *. cbv zeta in *.
  split; [| split]; intro E; rewrite E in C.
  - unfold stepm in C. destruct (samenuc _ _); cbn [fst snd] in C; lia.
  - unfold step1 in C. cbn [fst snd] in C. lia.
  - unfold step1 in C. cbn [fst snd] in C. lia.
Qed.

(** within the bound (or without bound) the corner cell satisfies [cond] for the band the kernel chooses *)
Lemma cond_corner : forall bA bB m, zlen bB <= zlen bA ->
  let lA := zlen bA in let lB := zlen bB in
  let maxe := if m =? -1 then lA * 2 else m in
  let rs := Z.of_nat (fst (lcs_ref bA bB)) in
  let rl := Z.of_nat (snd (lcs_ref bA bB)) in
  (m = -1 \/ rl - rs <= m) -> cond bA bB (maxe - (lA - lB) + 1) lB lA.
Proof.
  intros bA bB m Hle. cbv zeta. intro H.
  pose proof (lcs_ref_bounds bA bB) as RB. unfold cond. cbv zeta. rewrite F_corner.
  destruct (Z.eqb_spec m (-1)); unfold zlen in *; lia.
Qed.

(** within the bound the answer is symmetric in the two sequences (any two buffers) *)
Lemma band_sym_within : forall a b m init init', Z.of_nat (length a) + Z.of_nat (length b) <= 30000 ->
  (m = -1 \/ Z.of_nat (snd (lcs_ref a b)) - Z.of_nat (fst (lcs_ref a b)) <= m) ->
  fast_lcs_score a b m init = fast_lcs_score b a m init'.
Proof.
  intros a b m init init' Hs H.
  destruct (band_exact a b m init Hs) as [H1 _]. destruct (band_exact b a m init' ltac:(lia)) as [H2 _].
  rewrite (lcs_ref_sym b a) in H2. specialize (H1 H). specialize (H2 H).
  destruct (fast_lcs_score a b m init), (fast_lcs_score b a m init'). cbn [fst snd] in *. f_equal; lia.
Qed.

(** layer (ii) for every cell of the band (no fuel) *)
Lemma cells_all : forall bA bB extra, zlen bB <= zlen bA -> zlen bA + zlen bB <= 30000 ->
  forall i j, rect bA bB i j -> inband bA bB extra i j ->
  good bA bB (bmat false bA bB (zlen bB) extra (1 + (zlen bA - zlen bB) + 2 * extra) i j) i j /\
  (cond bA bB extra i j ->
   bmat false bA bB (zlen bB) extra (1 + (zlen bA - zlen bB) + 2 * extra) i j = encF bA bB i j).
Proof.
  intros bA bB extra Hle Hs i j R B. apply (cells_ok bA bB extra Hle Hs (Z.to_nat (i + j))); try assumption.
  unfold rect in R. lia.
Qed.
