(** C09 — D1Or0 against the Levenshtein distance (recursive definition, unit costs): verdict 0 iff distance 0,
    1 iff distance 1, -1 iff distance >= 2. *)
From Coq Require Import NArith ZArith List Bool Lia.
Import ListNotations.
From OBI.C09 Require Import Model D1.
Open Scope nat_scope.

(** Levenshtein distance: substitutions, insertions and deletions cost 1 *)
Fixpoint lev (a b : list N) {struct a} : nat :=
  match a with
  | [] => length b
  | x :: a' =>
    (fix inner (b : list N) : nat :=
       match b with
       | [] => length a
       | y :: b' => Nat.min (lev a' b' + (if (x =? y)%N then 0 else 1)) (Nat.min (lev a' b + 1) (inner b' + 1))
       end) b
  end.

Lemma lev_nil_l : forall b, lev [] b = length b.
Proof. reflexivity. Qed.
Lemma lev_nil_r : forall a, lev a [] = length a.
Proof. destruct a; reflexivity. Qed.
Lemma lev_cons : forall x a y b,
  lev (x :: a) (y :: b) = Nat.min (lev a b + (if (x =? y)%N then 0 else 1)) (Nat.min (lev a (y :: b) + 1) (lev (x :: a) b + 1)).
Proof. reflexivity. Qed.

Lemma lev_zero : forall a b, lev a b = 0 <-> a = b.
Proof.
  induction a as [| x a IH]; intro b.
  - rewrite lev_nil_l. destruct b; cbn [length]; split; intro H; try reflexivity; try discriminate.
  - destruct b as [| y b].
    + rewrite lev_nil_r. cbn [length]. split; intro H; discriminate.
    + rewrite lev_cons. destruct (N.eqb_spec x y) as [E | E].
      * split; intro H.
        -- assert (H0 : lev a b = 0) by lia. apply IH in H0. subst. reflexivity.
        -- inversion H. subst. assert (H0 : lev b b = 0) by (apply IH; reflexivity). lia.
      * split; intro H; [lia | inversion H; contradiction].
Qed.

Lemma lev_refl : forall a, lev a a = 0.
Proof. intro a. apply lev_zero. reflexivity. Qed.

Lemma edit1_cons : forall x a b, edit1 a b -> edit1 (x :: a) (x :: b).
Proof.
  intros x a b H. destruct H as [p u v q Huv | p u q | p v q].
  - exact (E_sub (x :: p) u v q Huv).
  - exact (E_del (x :: p) u q).
  - exact (E_ins (x :: p) v q).
Qed.

Lemma lev_one_edit1 : forall a b, lev a b = 1 -> edit1 a b.
Proof.
  induction a as [| x a IH]; intros b H.
  - rewrite lev_nil_l in H. destruct b as [| y [| z b]]; try discriminate. exact (E_ins [] y []).
  - destruct b as [| y b].
    + rewrite lev_nil_r in H. destruct a; try discriminate. exact (E_del [] x []).
    + rewrite lev_cons in H.
      destruct (Nat.eq_dec (lev a (y :: b)) 0) as [H2 | H2].
      { apply lev_zero in H2. subst a. exact (E_del [] x (y :: b)). }
      destruct (Nat.eq_dec (lev (x :: a) b) 0) as [H3 | H3].
      { apply lev_zero in H3. subst b. exact (E_ins [] y (x :: a)). }
      destruct (N.eqb_spec x y) as [E | E].
      * subst y. apply edit1_cons. apply IH. lia.
      * assert (H0 : lev a b = 0) by lia. apply lev_zero in H0. subst b. exact (E_sub [] x y a E).
Qed.

Lemma lev_prefix : forall p s t, lev (p ++ s) (p ++ t) <= lev s t.
Proof.
  induction p as [| x p IH]; intros s t; [apply Nat.le_refl |].
  cbn [app]. rewrite lev_cons, N.eqb_refl. specialize (IH s t). lia.
Qed.

Lemma edit1_lev_le : forall a b, edit1 a b -> lev a b <= 1.
Proof.
  intros a b H. destruct H as [p x y q Hxy | p x q | p y q]; (eapply Nat.le_trans; [apply lev_prefix |]).
  - rewrite lev_cons. pose proof (lev_refl q). destruct (x =? y)%N; lia.
  - destruct q as [| z q]; [reflexivity |]. rewrite lev_cons. pose proof (lev_refl (z :: q)). lia.
  - destruct q as [| z q]; [reflexivity |]. rewrite lev_cons. pose proof (lev_refl (z :: q)). lia.
Qed.

Lemma edit1_neq : forall a b, edit1 a b -> a <> b.
Proof.
  intros a b H E. destruct H as [p x y q Hxy | p x q | p y q].
  - apply app_inv_head in E. inversion E. contradiction.
  - apply (f_equal (@length N)) in E. rewrite !app_length in E. cbn [length] in E. lia.
  - apply (f_equal (@length N)) in E. rewrite !app_length in E. cbn [length] in E. lia.
Qed.

Lemma lev_one : forall a b, lev a b = 1 <-> edit1 a b.
Proof.
  intros a b. split; [apply lev_one_edit1 |]. intro H.
  pose proof (edit1_lev_le a b H) as L. pose proof (edit1_neq a b H) as Ne.
  destruct (Nat.eq_dec (lev a b) 0) as [Z | Z]; [apply lev_zero in Z; contradiction | lia].
Qed.

Open Scope Z_scope.
Lemma d1or0_lev : forall s1 s2,
  (verdict (d1or0 s1 s2) = 0 <-> lev s1 s2 = 0%nat) /\
  (verdict (d1or0 s1 s2) = 1 <-> lev s1 s2 = 1%nat) /\
  (verdict (d1or0 s1 s2) = -1 <-> (2 <= lev s1 s2)%nat).
Proof.
  intros s1 s2.
  assert (H0 : verdict (d1or0 s1 s2) = 0 <-> lev s1 s2 = 0%nat).
  { rewrite lev_zero. apply d1or0_zero. }
  assert (H1 : verdict (d1or0 s1 s2) = 1 <-> lev s1 s2 = 1%nat).
  { rewrite lev_one. split; [intro H; apply d1or0_one_sound; exact H | apply d1or0_one_complete]. }
  split; [exact H0 |]. split; [exact H1 |].
  destruct (d1or0_verdicts s1 s2) as [V | [V | V]]; split; intro H.
  - rewrite V in H. discriminate.
  - apply H0 in V. lia.
  - rewrite V in H. discriminate.
  - apply H1 in V. lia.
  - destruct (Nat.eq_dec (lev s1 s2) 0) as [Z | Z]; [apply H0 in Z; rewrite Z in V; discriminate |].
    destruct (Nat.eq_dec (lev s1 s2) 1) as [O | O]; [apply H1 in O; rewrite O in V; discriminate | lia].
  - exact V.
Qed.
