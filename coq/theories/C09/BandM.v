(** C09 — layer (i) of the band theorem: the two-row anti-diagonal program of FastLCSEGFScoreByte computes, cell by
    cell, the packed words of the full matrix [bmat] restricted to the band, for ALL inputs, both modes and ANY
    content of the reused scratch buffer (no stale word is read before it is written). *)
From Coq Require Import NArith ZArith List Bool Lia.
Import ListNotations.
From OBI.C09 Require Import Model.
Open Scope Z_scope.
Ltac Zify.zify_post_hook ::= Z.div_mod_to_equations.

(* ------------------------------------------------------------------ lists *)
Lemma nth_firstn_lt : forall (l : list N) k q d, (q < k)%nat -> nth q (firstn k l) d = nth q l d.
Proof.
  induction l as [| a l IH]; intros k q d H.
  - rewrite firstn_nil. reflexivity.
  - destruct k as [| k]; [lia |]. destruct q as [| q]; [reflexivity |]. cbn. apply IH. lia.
Qed.

Lemma nth_skipn : forall (l : list N) k q d, nth q (skipn k l) d = nth (k + q) l d.
Proof.
  induction l as [| a l IH]; intros k q d.
  - rewrite skipn_nil. destruct q, k; reflexivity.
  - destruct k as [| k]; [reflexivity |]. cbn. apply IH.
Qed.

Lemma splice_length : forall k cells (l : list N), 0 <= k ->
  (Z.to_nat k + length cells <= length l)%nat -> length (splice k cells l) = length l.
Proof.
  intros k cells l Hk H. unfold splice. rewrite !app_length, firstn_length, skipn_length. lia.
Qed.

Lemma get_splice : forall k cells (l : list N) q, 0 <= k ->
  (Z.to_nat k + length cells <= length l)%nat ->
  get (splice k cells l) q =
  if (k <=? q) && (q <? k + Z.of_nat (length cells)) then nth (Z.to_nat (q - k)) cells 0%N else get l q.
Proof.
  intros k cells l q Hk H. unfold get, splice.
  destruct (Z.ltb_spec q 0) as [Q | Q].
  - destruct (Z.leb_spec k q); [lia | reflexivity].
  - assert (L1 : length (firstn (Z.to_nat k) l) = Z.to_nat k) by (rewrite firstn_length; lia).
    destruct (Z.leb_spec k q) as [K | K]; cbn [andb].
    + rewrite app_nth2 by lia. rewrite L1.
      destruct (Z.ltb_spec q (k + Z.of_nat (length cells))) as [K2 | K2].
      * rewrite app_nth1 by lia. f_equal. lia.
      * rewrite app_nth2 by lia. rewrite nth_skipn. f_equal. lia.
    + rewrite app_nth1 by lia. apply nth_firstn_lt. lia.
Qed.

Lemma set_splice : forall k v (l : list N), set k v l = splice k [v] l.
Proof. intros. unfold set, splice. cbn [length app]. rewrite Nat.add_1_r. reflexivity. Qed.

Lemma set_length : forall k v (l : list N), 0 <= k < zlen l -> length (set k v l) = length l.
Proof. intros k v l H. unfold zlen in H. rewrite set_splice. apply splice_length; cbn [length]; lia. Qed.

Lemma get_set : forall k v (l : list N) q, 0 <= k < zlen l ->
  get (set k v l) q = if q =? k then v else get l q.
Proof.
  intros k v l q H. unfold zlen in H. rewrite set_splice, get_splice by (cbn [length]; lia). cbn [length].
  destruct (Z.leb_spec k q); destruct (Z.ltb_spec q (k + Z.of_nat 1)); destruct (Z.eqb_spec q k); cbn [andb]; try lia; try reflexivity.
  subst. rewrite Z.sub_diag. reflexivity.
Qed.

Lemma zrange_length : forall xs xf, length (zrange xs xf) = Z.to_nat (xf - xs).
Proof. intros. unfold zrange. rewrite map_length, seq_length. reflexivity. Qed.

Lemma in_zrange : forall xs xf x, In x (zrange xs xf) -> xs <= x < xf.
Proof.
  intros xs xf x H. unfold zrange in H. apply in_map_iff in H. destruct H as [k [E H]]. apply in_seq in H. lia.
Qed.

Lemma nth_map_zrange : forall (g : Z -> N) xs xf q d, xs <= q < xf ->
  nth (Z.to_nat (q - xs)) (map g (zrange xs xf)) d = g q.
Proof.
  intros g xs xf q d H. unfold zrange. rewrite map_map.
  rewrite (nth_indep _ d (g (xs + Z.of_nat 0))) by (rewrite map_length, seq_length; lia).
  rewrite (map_nth (fun k => g (xs + Z.of_nat k)) (seq 0 (Z.to_nat (xf - xs))) 0%nat).
  rewrite seq_nth by lia. f_equal. lia.
Qed.

(** the inner loops cons the new cells in front of an accumulator *)
Lemma fold_cells : forall (g : Z -> N) (h : Z -> Z * Z -> Z * Z)
    (step : list N * (Z * Z) -> Z -> list N * (Z * Z)) (xs : list Z),
  (forall x cells pe, In x xs -> step (cells, pe) x = (g x :: cells, h x pe)) ->
  forall cells pe, fold_left step xs (cells, pe) = (rev (map g xs) ++ cells, fold_left (fun pe x => h x pe) xs pe).
Proof.
  intros g h step xs. induction xs as [| x xs IH]; intros H cells pe; [reflexivity |].
  cbn [fold_left map rev]. rewrite H by (left; reflexivity).
  rewrite IH by (intros; apply H; right; assumption). rewrite <- app_assoc. reflexivity.
Qed.

Lemma choose_fst : forall egf i lB j Sd Su Sl pe, fst (choose egf i lB j Sd Su Sl pe) = N.max Sd (N.max Su Sl).
Proof.
  intros. unfold choose.
  destruct (N.leb_spec Su Sd); destruct (N.leb_spec Sl Sd); cbn [andb fst]; try lia;
    destruct (N.leb_spec Sl Su); cbn [fst]; lia.
Qed.

(* ------------------------------------------------------------------ the matrix recurrence *)
Section Layer1.
  Variables (egf : bool) (bA bB : list N) (lA lB extra even : Z).
  Hypothesis HlB : 0 <= lB.
  Hypothesis Hle : lB <= lA.
  Hypothesis Hextra : 1 <= extra.
  Hypothesis Heven : even = 1 + (lA - lB) + 2 * extra.

  Let M := bmat egf bA bB lB extra even.
  Let width := 2 * even - 1.

  Lemma mtriple_border : forall i j a b c a' b' c', i = 0 \/ j = 0 ->
    mtriple egf bA bB lB extra even i j a b c = mtriple egf bA bB lB extra even i j a' b' c'.
  Proof.
    intros i j a b c a' b' c' H. unfold mtriple.
    destruct (Z.eqb_spec i 0); [reflexivity |]. destruct (Z.eqb_spec j 0); [reflexivity | lia].
  Qed.

  Lemma M_rec : forall i j, 0 <= i -> 0 <= j ->
    M i j = mcell egf bA bB lB extra even i j (M (i - 1) (j - 1)) (M (i - 1) j) (M i (j - 1)).
  Proof.
    intros i j Hi Hj. unfold M, bmat.
    destruct (Z.to_nat (i + j)) as [| n1] eqn:E.
    - assert (i = 0 /\ j = 0) as [-> ->] by lia. cbn [cw]. unfold mcell, mpe.
      rewrite (mtriple_border 0 (0 - 0) 0%N 0%N 0%N (cw egf bA bB lB extra even (Z.to_nat (0 - 1 + (0 - 1))) (0 - 1))
                 (cw egf bA bB lB extra even (Z.to_nat (0 - 1 + 0)) (0 - 1))
                 (cw egf bA bB lB extra even (Z.to_nat (0 + (0 - 1))) 0)) by (left; reflexivity).
      reflexivity.
    - assert (Ej : Z.of_nat (S n1) - i = j) by lia.
      destruct n1 as [| n2].
      + cbn [cw]. rewrite Ej. unfold mcell.
        rewrite (mtriple_border i j 0%N _ _ (cw egf bA bB lB extra even (Z.to_nat (i - 1 + (j - 1))) (i - 1))
                   (cw egf bA bB lB extra even (Z.to_nat (i - 1 + j)) (i - 1))
                   (cw egf bA bB lB extra even (Z.to_nat (i + (j - 1))) i)) by lia.
        reflexivity.
      + change (cw egf bA bB lB extra even (S (S n2)) i) with
          (mcell egf bA bB lB extra even i (Z.of_nat (S (S n2)) - i)
             (cw egf bA bB lB extra even n2 (i - 1)) (cw egf bA bB lB extra even (S n2) (i - 1))
             (cw egf bA bB lB extra even (S n2) i)).
        rewrite Ej.
        replace (Z.to_nat (i - 1 + (j - 1))) with n2 by lia.
        replace (Z.to_nat (i - 1 + j)) with (S n2) by lia.
        replace (Z.to_nat (i + (j - 1))) with (S n2) by lia. reflexivity.
  Qed.

  (** spec-level (pend, end) bookkeeping of one cell, from the matrix only *)
  Definition pe_cell (i j : Z) (pe : Z * Z) : Z * Z :=
    mpe egf bA bB lB extra even i j (M (i - 1) (j - 1)) (M (i - 1) j) (M i (j - 1)) pe.

  (* ---------------------------------------------------------------- rows *)
  Definition inrect (i j : Z) : Prop := 0 <= i <= lB /\ 0 <= j <= lA.

  (** row holds the anti-diagonals 2y (indices 0..even-1) and 2y+1 (indices even..width-1) *)
  Definition agree (y : Z) (row : list N) : Prop :=
    (forall x, 0 <= x <= even - 1 -> inrect (y - x + extra) (y + x - extra) ->
               get row x = M (y - x + extra) (y + x - extra)) /\
    (forall x, 0 <= x <= even - 2 -> inrect (y - x + extra) (y + x - extra + 1) ->
               get row (x + even) = M (y - x + extra) (y + x - extra + 1)).

  Definition exs (y : Z) := Z.max (Z.max (y - lB + extra) (extra - y)) 0.
  Definition exf (y : Z) := Z.min (Z.min (y + extra) (lA + extra - y)) (even - 1) + 1.
  Definition oxs (y : Z) := Z.max (Z.max (y - lB + extra + even) (extra - y + even - 1)) even.
  Definition oxf (y : Z) := Z.min (Z.min (y + extra + even) (lA + extra - y + even - 1)) (width - 1) + 1.

  Definition pe_row (y : Z) (pe : Z * Z) : Z * Z :=
    fold_left (fun pe x => pe_cell (y - x + extra + even) (y + x - extra - even + 1) pe) (zrange (oxs y) (oxf y))
      (fold_left (fun pe x => pe_cell (y - x + extra) (y + x - extra) pe) (zrange (exs y) (exf y)) pe).

  Fixpoint pe_rows (n : nat) (y : Z) (pe : Z * Z) : Z * Z :=
    match n with O => pe | S n' => pe_rows n' (y + 1) (pe_row y pe) end.

  Lemma even_cell_eq : forall previous y cells pe x,
    even_cell egf bA bB lB extra even previous y (cells, pe) x =
    (mcell egf bA bB lB extra even (y - x + extra) (y + x - extra)
       (get previous x) (get previous (x + even)) (get previous (x + even - 1)) :: cells,
     mpe egf bA bB lB extra even (y - x + extra) (y + x - extra)
       (get previous x) (get previous (x + even)) (get previous (x + even - 1)) pe).
  Proof.
    intros previous y cells pe x. unfold even_cell, mcell, mpe, mtriple, first_row_left.
    replace (y + x - extra - (y - x + extra) + 2 * extra) with (2 * x) by lia.
    replace (2 * x <? 2 * (even - 1)) with (x <? even - 1)
      by (destruct (Z.ltb_spec x (even - 1)); destruct (Z.ltb_spec (2 * x) (2 * (even - 1))); lia || reflexivity).
    replace (0 <? 2 * x) with (0 <? x)
      by (destruct (Z.ltb_spec 0 x); destruct (Z.ltb_spec 0 (2 * x)); lia || reflexivity).
    replace (2 * x =? 0) with (x =? 0)
      by (destruct (Z.eqb_spec x 0); destruct (Z.eqb_spec (2 * x) 0); lia || reflexivity).
    replace (2 * x =? 2 * (even - 1)) with (x =? even - 1)
      by (destruct (Z.eqb_spec x (even - 1)); destruct (Z.eqb_spec (2 * x) (2 * (even - 1))); lia || reflexivity).
    destruct (y - x + extra =? 0); [| destruct (y + x - extra =? 0)].
    all: match goal with |- context [choose ?e ?i ?l ?j ?a ?b ?c ?p] =>
           pose proof (choose_fst e i l j a b c p) as HF; destruct (choose e i l j a b c p) as [sc pe'] eqn:EC end;
         cbn [fst snd] in *; subst sc; reflexivity.
  Qed.

  Lemma odd_cell_eq : forall previous current y cells pe x, even <= x <= width - 1 ->
    odd_cell egf bA bB lB extra even previous current y (cells, pe) x =
    (mcell egf bA bB lB extra even (y - x + extra + even) (y + x - extra - even + 1)
       (get previous x) (get current (x - even + 1)) (get current (x - even)) :: cells,
     mpe egf bA bB lB extra even (y - x + extra + even) (y + x - extra - even + 1)
       (get previous x) (get current (x - even + 1)) (get current (x - even)) pe).
  Proof.
    intros previous current y cells pe x Hx. unfold width in Hx. unfold odd_cell, mcell, mpe, mtriple, first_row_left.
    set (x2 := y + x - extra - even + 1 - (y - x + extra + even) + 2 * extra).
    assert (E1 : (x2 <? 2 * (even - 1)) = true) by (apply Z.ltb_lt; unfold x2; lia).
    assert (E2 : (0 <? x2) = true) by (apply Z.ltb_lt; unfold x2; lia).
    assert (E3 : (x2 =? 0) = false) by (apply Z.eqb_neq; unfold x2; lia).
    assert (E4 : (x2 =? 2 * (even - 1)) = false) by (apply Z.eqb_neq; unfold x2; lia).
    rewrite E1, E2, E3, E4. cbn [orb].
    destruct (y - x + extra + even =? 0); [| destruct (y + x - extra - even + 1 =? 0)].
    all: match goal with |- context [choose ?e ?i ?l ?j ?a ?b ?c ?p] =>
           pose proof (choose_fst e i l j a b c p) as HF; destruct (choose e i l j a b c p) as [sc pe'] eqn:EC end;
         cbn [fst snd] in *; subst sc; reflexivity.
  Qed.

  (** the triple only looks at the neighbours that exist inside the band *)
  Lemma mtriple_ext : forall i j a b c a' b' c',
    (1 <= i -> 1 <= j -> a = a') ->
    (1 <= i -> 1 <= j -> j - i + 2 * extra < 2 * (even - 1) -> b = b') ->
    (1 <= i -> 1 <= j -> 0 < j - i + 2 * extra -> c = c') ->
    0 <= i -> 0 <= j ->
    mtriple egf bA bB lB extra even i j a b c = mtriple egf bA bB lB extra even i j a' b' c'.
  Proof.
    intros i j a b c a' b' c' Ha Hb Hc Hi Hj. unfold mtriple.
    destruct (Z.eqb_spec i 0); [reflexivity |]. destruct (Z.eqb_spec j 0); [reflexivity |].
    rewrite Ha by lia.
    destruct (Z.ltb_spec (j - i + 2 * extra) (2 * (even - 1))); [rewrite Hb by lia |];
      (destruct (Z.ltb_spec 0 (j - i + 2 * extra)); [rewrite Hc by lia |]); reflexivity.
  Qed.

  Lemma row_step_ok : forall y previous current pe, 1 <= y -> y <= lA ->
    zlen previous = width -> zlen current = width -> agree (y - 1) previous ->
    exists current', row_step egf bA bB lA lB extra even y (previous, current, pe) = (current', previous, pe_row y pe) /\
                     zlen current' = width /\ agree y current'.
  Proof.
    intros y previous current pe Hy HyA Lp Lc [Ae Ao]. unfold row_step. fold width.
    fold (exs y) (exf y) (oxs y) (oxf y).
    (* even anti-diagonal *)
    rewrite (fold_cells (fun x => M (y - x + extra) (y + x - extra))
               (fun x pe => pe_cell (y - x + extra) (y + x - extra) pe)).
    2:{ intros x cells pe0 Hin. apply in_zrange in Hin. unfold exs, exf in Hin.
        rewrite even_cell_eq. rewrite M_rec by lia. unfold pe_cell, mcell, mpe.
        rewrite (mtriple_ext (y - x + extra) (y + x - extra) (get previous x) (get previous (x + even)) (get previous (x + even - 1))
                   (M (y - x + extra - 1) (y + x - extra - 1)) (M (y - x + extra - 1) (y + x - extra)) (M (y - x + extra) (y + x - extra - 1))); try lia.
        - reflexivity.
        - intros H1 H2. rewrite (Ae x) by (unfold inrect; lia). f_equal; lia.
        - intros H1 H2 H3. rewrite (Ao x) by (unfold inrect; lia). f_equal; lia.
        - intros H1 H2 H3. replace (x + even - 1) with (x - 1 + even) by lia.
          rewrite (Ao (x - 1)) by (unfold inrect; lia). f_equal; lia. }
    rewrite app_nil_r, rev_involutive.
    set (ge := fun x => M (y - x + extra) (y + x - extra)).
    set (cur1 := splice (exs y) (map ge (zrange (exs y) (exf y))) current).
    assert (Hexs : 0 <= exs y) by (unfold exs; lia).
    assert (Hfit1 : (Z.to_nat (exs y) + length (map ge (zrange (exs y) (exf y))) <= length current)%nat).
    { rewrite map_length, zrange_length. unfold zlen in Lc. unfold exs, exf, width in *. lia. }
    assert (L1 : zlen cur1 = width).
    { unfold zlen, cur1. rewrite splice_length by assumption. exact Lc. }
    assert (G1 : forall q, exs y <= q < exf y -> get cur1 q = ge q).
    { intros q Hq. unfold cur1. rewrite get_splice by assumption. rewrite map_length, zrange_length.
      destruct (Z.leb_spec (exs y) q); [| lia].
      destruct (Z.ltb_spec q (exs y + Z.of_nat (Z.to_nat (exf y - exs y)))); [| lia]. cbn [andb].
      apply nth_map_zrange. exact Hq. }
    (* odd anti-diagonal *)
    rewrite (fold_cells (fun x => M (y - x + extra + even) (y + x - extra - even + 1))
               (fun x pe => pe_cell (y - x + extra + even) (y + x - extra - even + 1) pe)).
    2:{ intros x cells pe0 Hin. apply in_zrange in Hin. unfold oxs, oxf, width in Hin.
        rewrite odd_cell_eq by (unfold width; lia). rewrite M_rec by lia. unfold pe_cell, mcell, mpe.
        rewrite (mtriple_ext (y - x + extra + even) (y + x - extra - even + 1)
                   (get previous x) (get cur1 (x - even + 1)) (get cur1 (x - even))
                   (M (y - x + extra + even - 1) (y + x - extra - even + 1 - 1))
                   (M (y - x + extra + even - 1) (y + x - extra - even + 1))
                   (M (y - x + extra + even) (y + x - extra - even + 1 - 1))); try lia.
        - reflexivity.
        - intros H1 H2. replace x with (x - even + even) at 1 by lia.
          rewrite (Ao (x - even)) by (unfold inrect; lia). f_equal; lia.
        - intros H1 H2 H3. rewrite G1 by (unfold exs, exf; lia). unfold ge. f_equal; lia.
        - intros H1 H2 H3. rewrite G1 by (unfold exs, exf; lia). unfold ge. f_equal; lia. }
    rewrite app_nil_r, rev_involutive.
    set (go := fun x => M (y - x + extra + even) (y + x - extra - even + 1)).
    set (cur2 := splice (oxs y) (map go (zrange (oxs y) (oxf y))) cur1).
    assert (Hoxs : 0 <= oxs y) by (unfold oxs; lia).
    assert (Hfit2 : (Z.to_nat (oxs y) + length (map go (zrange (oxs y) (oxf y))) <= length cur1)%nat).
    { rewrite map_length, zrange_length. unfold zlen in L1. unfold oxs, oxf, width in *. lia. }
    exists cur2. split; [reflexivity |]. split.
    { unfold zlen, cur2. rewrite splice_length by assumption. exact L1. }
    split.
    - intros x Hx Hr. unfold inrect in Hr. unfold cur2. rewrite get_splice by assumption.
      destruct (Z.leb_spec (oxs y) x) as [K | K]; [unfold oxs in K; lia |]. cbn [andb].
      apply G1. unfold exs, exf. lia.
    - intros x Hx Hr. unfold inrect in Hr. unfold cur2. rewrite get_splice by assumption.
      rewrite map_length, zrange_length.
      destruct (Z.leb_spec (oxs y) (x + even)) as [K | K]; [| unfold oxs in K; lia].
      destruct (Z.ltb_spec (x + even) (oxs y + Z.of_nat (Z.to_nat (oxf y - oxs y)))) as [K2 | K2];
        [| unfold oxs, oxf, width in *; lia]. cbn [andb].
      rewrite (nth_map_zrange go) by (unfold oxs, oxf, width in *; lia). unfold go. f_equal; lia.
  Qed.

  Lemma rows_ok : forall n y previous current pe, 1 <= y -> y - 1 + Z.of_nat n <= lA ->
    zlen previous = width -> zlen current = width -> agree (y - 1) previous ->
    exists p' c', rows egf bA bB lA lB extra even n y (previous, current, pe) = (p', c', pe_rows n y pe) /\
                  agree (y - 1 + Z.of_nat n) p'.
  Proof.
    induction n as [| n IH]; intros y previous current pe Hy HyA Lp Lc A.
    - exists previous, current. split; [reflexivity |]. replace (y - 1 + Z.of_nat 0) with (y - 1) by lia. exact A.
    - cbn [rows pe_rows].
      destruct (row_step_ok y previous current pe Hy ltac:(lia) Lp Lc A) as [c1 [E [L1 A1]]]. rewrite E.
      destruct (IH (y + 1) c1 previous (pe_row y pe)) as [p' [c' [E' A']]]; try assumption; try lia.
      { replace (y + 1 - 1) with y by lia. exact A1. }
      exists p', c'. split; [exact E' |]. replace (y - 1 + Z.of_nat (S n)) with (y + 1 - 1 + Z.of_nat n) by lia. exact A'.
  Qed.
End Layer1.

(* ------------------------------------------------------------------ the whole kernel *)
(** what FastLCSEGFScoreByte returns, in terms of the banded matrix only (bA the longer sequence) *)
Definition core_spec (bA bB : list N) (maxerr : Z) (egf : bool) : Z * Z * Z :=
  let lA := zlen bA in
  let lB := zlen bB in
  let maxe := if (maxerr =? -1)%Z then (lA * 2)%Z else maxerr in
  let delta := (lA - lB)%Z in
  let maxe := if egf then (maxe + delta)%Z else maxe in
  if (maxe <? delta)%Z then (-1, -1, -1)%Z else
  let extra := (maxe - delta + 1)%Z in
  let even := (1 + delta + 2 * extra)%Z in
  let '(s, l, o) := dec (bmat egf bA bB lB extra even lB lA) in
  if o then (-1, -1, -1)%Z
  else (Z.of_N s, Z.of_N l, snd (pe_rows egf bA bB lA lB extra even (Z.to_nat (lB + delta / 2)) 1 (0, 0))).

Lemma lcs_core_matrix : forall bA bB maxerr egf init, zlen bB <= zlen bA ->
  lcs_core bA bB maxerr egf init = core_spec bA bB maxerr egf.
Proof.
  intros bA bB maxerr egf init Hle. unfold lcs_core, core_spec. cbv zeta.
  set (lA := zlen bA) in *. set (lB := zlen bB) in *.
  set (maxe := if egf then _ else _).
  destruct (Z.ltb_spec maxe (lA - lB)) as [Hm | Hm]; [reflexivity |].
  set (extra := maxe - (lA - lB) + 1). set (even := 1 + (lA - lB) + 2 * extra).
  set (width := 2 * even - 1).
  set (buf := if zlen init <? 2 * width then _ else init).
  assert (HlB : 0 <= lB) by (unfold lB, zlen; lia).
  assert (Hex : 1 <= extra) by (unfold extra; lia).
  assert (Lbuf : 2 * width <= zlen buf).
  { unfold buf. destruct (Z.ltb_spec (zlen init) (2 * width)); [| assumption].
    unfold zlen. rewrite repeat_length. unfold width, even. lia. }
  set (p0 := firstn (Z.to_nat width) buf). set (c0 := firstn (Z.to_nat width) (skipn (Z.to_nat width) buf)).
  assert (Lp0 : zlen p0 = width).
  { unfold zlen, p0 in *. rewrite firstn_length. unfold width, even in *. lia. }
  assert (Lc0 : zlen c0 = width).
  { unfold zlen, c0 in *. rewrite firstn_length, skipn_length. unfold width, even in *. lia. }
  set (v01 := if egf then enc 0 0 false else enc 0 1 false).
  set (p1 := set extra c_empty p0). set (p2 := set (extra + even) v01 p1). set (p3 := set (extra + even - 1) (enc 0 1 false) p2).
  assert (Lp1 : zlen p1 = width).
  { unfold zlen, p1. rewrite set_length by (unfold width, even in *; lia). exact Lp0. }
  assert (Lp2 : zlen p2 = width).
  { unfold zlen, p2. rewrite set_length by (unfold width, even in *; lia). exact Lp1. }
  assert (Lp3 : zlen p3 = width).
  { unfold zlen, p3. rewrite set_length by (unfold width, even in *; lia). exact Lp2. }
  assert (G3 : forall q, get p3 q = if q =? extra + even - 1 then enc 0 1 false else if q =? extra + even then v01
                                     else if q =? extra then c_empty else get p0 q).
  { intro q. unfold p3, p2, p1. rewrite !get_set; [reflexivity | | |]; unfold width, even in *; try lia.
    - fold p1. lia. - fold p1. fold p2. lia. }
  assert (HM00 : bmat egf bA bB lB extra even 0 0 = c_empty).
  { unfold bmat. cbn [Z.add Z.to_nat cw]. unfold mcell, mtriple.
    repeat match goal with |- context [Z.eqb ?a ?b] => destruct (Z.eqb_spec a b); try (unfold even in *; lia) end.
    cbn [orb]. destruct egf; reflexivity. }
  assert (HM01 : bmat egf bA bB lB extra even 0 1 = v01).
  { unfold bmat. change (Z.to_nat (0 + 1)) with 1%nat. cbn [cw]. change (Z.of_nat 1 - 0) with 1. unfold mcell, mtriple.
    repeat match goal with |- context [Z.eqb ?a ?b] => destruct (Z.eqb_spec a b); try (unfold even in *; lia) end.
    cbn [orb]. unfold v01. destruct egf; reflexivity. }
  assert (HM10 : bmat egf bA bB lB extra even 1 0 = enc 0 1 false).
  { unfold bmat. change (Z.to_nat (1 + 0)) with 1%nat. cbn [cw]. change (Z.of_nat 1 - 1) with 0. unfold mcell, mtriple.
    repeat match goal with |- context [Z.eqb ?a ?b] => destruct (Z.eqb_spec a b); try (unfold even in *; lia) end.
    cbn [orb]. reflexivity. }
  assert (A0 : agree egf bA bB lA lB extra even (1 - 1) p3).
  { split; intros x Hx [Hi Hj]; rewrite G3.
    - assert (x = extra) by lia. subst x.
      destruct (Z.eqb_spec extra (extra + even - 1)); [unfold even in *; lia |].
      destruct (Z.eqb_spec extra (extra + even)); [unfold even in *; lia |].
      rewrite Z.eqb_refl. replace (1 - 1 - extra + extra) with 0 by lia. replace (1 - 1 + extra - extra) with 0 by lia.
      symmetry. exact HM00.
    - assert (x = extra \/ x = extra - 1) as [-> | ->] by lia.
      + destruct (Z.eqb_spec (extra + even) (extra + even - 1)); [lia |]. rewrite Z.eqb_refl.
        replace (1 - 1 - extra + extra) with 0 by lia. replace (1 - 1 + extra - extra + 1) with 1 by lia.
        symmetry. exact HM01.
      + replace (extra - 1 + even) with (extra + even - 1) by lia. rewrite Z.eqb_refl.
        replace (1 - 1 - (extra - 1) + extra) with 1 by lia. replace (1 - 1 + (extra - 1) - extra + 1) with 0 by lia.
        symmetry. exact HM10. }
  destruct (rows_ok egf bA bB lA lB extra even HlB Hle Hex eq_refl (Z.to_nat (lB + (lA - lB) / 2)) 1 p3 c0 (0, 0))
    as [p' [c' [E [Ae Ao]]]]; try assumption; try lia.
  rewrite E.
  assert (HG : get p' ((lA - lB) mod 2 * even + extra + (lA - lB) / 2) = bmat egf bA bB lB extra even lB lA).
  { destruct (Z.eq_dec ((lA - lB) mod 2) 0) as [P | P].
    - rewrite P. rewrite Z.mul_0_l, Z.add_0_l. rewrite Ae; [f_equal; lia | unfold even; lia | unfold inrect; lia].
    - assert (P1 : (lA - lB) mod 2 = 1) by lia. rewrite P1, Z.mul_1_l.
      replace (even + extra + (lA - lB) / 2) with (extra + (lA - lB) / 2 + even) by lia.
      rewrite Ao; [f_equal; lia | unfold even; lia | unfold inrect; lia]. }
  rewrite HG. reflexivity.
Qed.

(** Layer (i) for the entry point: FastLCSEGFScoreByte = a function of the banded matrix of the (swapped) pair. *)
Theorem lcs_band_matrix : forall a b maxerr egf init,
  lcs_band a b maxerr egf init =
  if zlen a <? zlen b then core_spec b a maxerr egf else core_spec a b maxerr egf.
Proof.
  intros a b maxerr egf init. unfold lcs_band.
  destruct (Z.ltb_spec (zlen a) (zlen b)); apply lcs_core_matrix; lia.
Qed.

(** no stale word of a reused buffer is read before it is written: the three results do not depend on the buffer *)
Theorem lcs_band_buffer_independent : forall a b maxerr egf init init',
  lcs_band a b maxerr egf init = lcs_band a b maxerr egf init'.
Proof. intros. rewrite !lcs_band_matrix. reflexivity. Qed.
