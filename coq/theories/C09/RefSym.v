(** C09 — the reference pair is symmetric in its arguments. *)
From Coq Require Import NArith ZArith List Bool Lia.
Import ListNotations.
From OBI.C09 Require Import Model Ref.
Open Scope nat_scope.

Lemma samenuc_sym : forall x y, samenuc x y = samenuc y x.
Proof.
  intros x y. unfold samenuc. rewrite (andb_comm (is_lc (lower x))), (N.land_comm (nth _ iupac 0%N)), (N.eqb_sym (lower x)).
  reflexivity.
Qed.

Lemma ali_sym : forall a b s l, ali a b s l -> ali b a s l.
Proof.
  intros a b s l H. induction H as [| x y a b s l M H IH | x y a b s l H IH | x a b s l H IH | y a b s l H IH].
  - apply A_nil.
  - apply A_match; [rewrite samenuc_sym; exact M | exact IH].
  - apply A_mism. exact IH.
  - apply A_gap_a. exact IH.
  - apply A_gap_b. exact IH.
Qed.

Lemma le2_antisym : forall p q, le2 p q -> le2 q p -> p = q.
Proof. intros [a b] [c d]. unfold le2. cbn. intros H1 H2. f_equal; lia. Qed.

Lemma lcs_ref_sym : forall a b, lcs_ref a b = lcs_ref b a.
Proof.
  intros a b. apply le2_antisym.
  - pose proof (lcs_ref_optimal b a _ _ (ali_sym _ _ _ _ (lcs_ref_achieved a b))) as H.
    destruct (lcs_ref a b). exact H.
  - pose proof (lcs_ref_optimal a b _ _ (ali_sym _ _ _ _ (lcs_ref_achieved b a))) as H.
    destruct (lcs_ref b a). exact H.
Qed.
