(** C09 — D1Or0 never indexes out of range, and its two index loops are the prefix / suffix scans of the model.
    [d1or0_c] is D1Or0 written as the Go code is: two loops over indices (b1 = b2 from the start; e1, e2 from the ends) whose
    every read s1[..], s2[..] is CHECKED (None = Go's index out of range; the loops carry fuel and answer None when it runs
    out). The theorem says it always answers Some of what the model [d1or0] (written with lcp / sfx on lists) answers. *)
From Coq Require Import NArith ZArith List Bool Lia.
Import ListNotations.
From OBI.C09 Require Import Model D1 Safe.
Open Scope Z_scope.

Fixpoint scan_fwd (fuel : nat) (s1 s2 : list N) (b : Z) : option Z :=
  match fuel with
  | O => None
  | S f =>
    if (b <? zlen s1) && (b <? zlen s2) then
      do x <- getc s1 b;
      do y <- getc s2 b;
      if (x =? y)%N then scan_fwd f s1 s2 (b + 1) else Some b
    else Some b
  end.

Fixpoint scan_bwd (fuel : nat) (s1 s2 : list N) (b e1 e2 : Z) : option (Z * Z) :=
  match fuel with
  | O => None
  | S f =>
    if (b <? e1) || (b <? e2) then
      do x <- getc s1 e1;
      do y <- getc s2 e2;
      if (x =? y)%N then scan_bwd f s1 s2 b (e1 - 1) (e2 - 1) else Some (e1, e2)
    else Some (e1, e2)
  end.

Definition d1or0_c (s1 s2 : list N) : option (Z * Z * N * N) :=
  let l1 := zlen s1 in
  let l2 := zlen s2 in
  if (1 <? Z.abs (l1 - l2))%Z then Some ((-1)%Z, (-1)%Z, 0%N, 0%N) else
  do b <- scan_fwd (S (length s1)) s1 s2 0;
  if (b =? l1)%Z && (b =? l2)%Z then Some (0%Z, (-1)%Z, 0%N, 0%N) else
  do e <- scan_bwd (S (length s1)) s1 s2 b (l1 - 1) (l2 - 1);
  let '(e1, e2) := e in
  if ((l1 =? l2)%Z && ((b <? e1)%Z || (b <? e2)%Z))
     || ((l2 <? l1)%Z && (b <? e1)%Z)
     || ((l1 <? l2)%Z && (b <? e2)%Z)
  then Some ((-1)%Z, (-1)%Z, 0%N, 0%N) else
  let pos := if (e1 <=? b)%Z then (if (e2 <? e1)%Z then e1 else e2) else (-1)%Z in
  do a2 <- (if (e1 <=? e2)%Z then getc s2 e2 else Some dash);
  do a1 <- (if (e2 <=? e1)%Z then getc s1 e1 else Some dash);
  Some (1%Z, pos, a1, a2).

Lemma zlen_app : forall (a b : list N), zlen (a ++ b) = zlen a + zlen b.
Proof. intros. unfold zlen. rewrite app_length. lia. Qed.

Lemma getc_mid : forall (p : list N) x q, getc (p ++ x :: q) (zlen p) = Some x.
Proof.
  intros p x q. rewrite getc_in; [f_equal; apply get_app_mid |].
  rewrite zlen_app. unfold zlen. cbn [length]. lia.
Qed.

Lemma scan_fwd_spec : forall t1 t2 p1 p2 fuel, length p1 = length p2 -> (length t1 < fuel)%nat ->
  scan_fwd fuel (p1 ++ t1) (p2 ++ t2) (zlen p1) = Some (zlen p1 + Z.of_nat (lcp t1 t2)).
Proof.
  induction t1 as [| x t1 IH]; intros t2 p1 p2 fuel Hp Hf; (destruct fuel as [| f]; [lia |]); cbn [scan_fwd].
  - rewrite app_nil_r. destruct (Z.ltb_spec (zlen p1) (zlen p1)); [lia |]. cbn [andb lcp]. f_equal. lia.
  - destruct t2 as [| y t2].
    + rewrite app_nil_r. assert (E : zlen p2 = zlen p1) by (unfold zlen; lia).
      destruct (Z.ltb_spec (zlen p1) (zlen p2)); [lia |]. rewrite andb_false_r. cbn [lcp]. f_equal. lia.
    + rewrite !zlen_app. assert (E : zlen p2 = zlen p1) by (unfold zlen; lia).
      destruct (Z.ltb_spec (zlen p1) (zlen p1 + zlen (x :: t1))) as [A | A]; [| unfold zlen in A; cbn [length] in A; lia].
      destruct (Z.ltb_spec (zlen p1) (zlen p2 + zlen (y :: t2))) as [B | B]; [| unfold zlen in B; cbn [length] in B; lia].
      cbn [andb]. rewrite getc_mid. rewrite <- E at 1. rewrite getc_mid. cbn [lcp].
      destruct (N.eqb_spec x y) as [-> | Hne]; [| f_equal; lia].
      replace (p1 ++ y :: t1) with ((p1 ++ [y]) ++ t1) by (rewrite <- app_assoc; reflexivity).
      replace (p2 ++ y :: t2) with ((p2 ++ [y]) ++ t2) by (rewrite <- app_assoc; reflexivity).
      replace (zlen p1 + 1) with (zlen (p1 ++ [y])) by (rewrite zlen_app; reflexivity).
      rewrite IH; [| rewrite !app_length; cbn [length]; lia | cbn [length] in Hf; lia].
      f_equal. rewrite zlen_app. unfold zlen. cbn [length]. lia.
Qed.

Lemma getc_mid2 : forall (p m : list N) x z, getc (p ++ (m ++ [x]) ++ z) (zlen p + zlen m) = Some x.
Proof.
  intros p m x z. replace (p ++ (m ++ [x]) ++ z) with ((p ++ m) ++ x :: z) by (rewrite <- !app_assoc; reflexivity).
  rewrite <- zlen_app. apply getc_mid.
Qed.

Lemma scan_bwd_spec : forall r1 r2 p1 p2 z1 z2 fuel, length p1 = length p2 ->
  (length r1 <= S (length r2))%nat -> (length r2 <= S (length r1))%nat -> (length r1 < fuel)%nat ->
  scan_bwd fuel (p1 ++ rev r1 ++ z1) (p2 ++ rev r2 ++ z2) (zlen p1) (zlen p1 + zlen r1 - 1) (zlen p1 + zlen r2 - 1) =
  Some (zlen p1 + zlen r1 - 1 - Z.of_nat (sfx r1 r2), zlen p1 + zlen r2 - 1 - Z.of_nat (sfx r1 r2)).
Proof.
  induction r1 as [| x r1 IH]; intros r2 p1 p2 z1 z2 fuel Hp H1 H2 Hf; (destruct fuel as [| f]; [lia |]); cbn [scan_bwd].
  - assert (Hr2 : zlen r2 <= 1) by (unfold zlen; cbn [length] in *; lia).
    change (zlen (@nil N)) with 0.
    destruct (Z.ltb_spec (zlen p1) (zlen p1 + 0 - 1)); [lia |].
    destruct (Z.ltb_spec (zlen p1) (zlen p1 + zlen r2 - 1)); [lia |]. cbn [orb sfx]. f_equal. f_equal; lia.
  - destruct r2 as [| y r2].
    + assert (r1 = []) as -> by (destruct r1; [reflexivity | cbn [length] in *; lia]).
      change (zlen (@nil N)) with 0. change (zlen [x]) with 1.
      destruct (Z.ltb_spec (zlen p1) (zlen p1 + 1 - 1)); [lia |].
      destruct (Z.ltb_spec (zlen p1) (zlen p1 + 0 - 1)); [lia |]. cbn [orb sfx]. f_equal. f_equal; lia.
    + assert (E : zlen p2 = zlen p1) by (unfold zlen; lia).
      assert (L1 : zlen (x :: r1) = zlen r1 + 1) by (unfold zlen; cbn [length]; lia).
      assert (L2 : zlen (y :: r2) = zlen r2 + 1) by (unfold zlen; cbn [length]; lia).
      assert (P1 : 0 <= zlen r1) by (unfold zlen; lia). assert (P2 : 0 <= zlen r2) by (unfold zlen; lia).
      cbn [sfx]. rewrite L1, L2.
      assert (C : ((zlen p1 <? zlen p1 + (zlen r1 + 1) - 1) || (zlen p1 <? zlen p1 + (zlen r2 + 1) - 1)) =
                  ((1 <? length (x :: r1))%nat || (1 <? length (y :: r2))%nat)).
      { cbn [length]. destruct (Z.ltb_spec (zlen p1) (zlen p1 + (zlen r1 + 1) - 1));
          destruct (Z.ltb_spec (zlen p1) (zlen p1 + (zlen r2 + 1) - 1));
          destruct (Nat.ltb_spec 1 (S (length r1))); destruct (Nat.ltb_spec 1 (S (length r2)));
          cbn [orb]; try reflexivity; unfold zlen in *; lia. }
      rewrite C. destruct ((1 <? length (x :: r1))%nat || (1 <? length (y :: r2))%nat) eqn:Cd; cbn [andb].
      * cbn [rev]. replace (zlen p1 + (zlen r1 + 1) - 1) with (zlen p1 + zlen (rev r1))
          by (unfold zlen; rewrite rev_length; lia).
        rewrite getc_mid2.
        replace (zlen p1 + (zlen r2 + 1) - 1) with (zlen p2 + zlen (rev r2))
          by (unfold zlen in *; rewrite rev_length; lia).
        rewrite getc_mid2.
        destruct (N.eqb_spec x y) as [-> | Hne].
        -- rewrite <- !app_assoc. cbn [app].
           replace (zlen p1 + zlen (rev r1) - 1) with (zlen p1 + zlen r1 - 1) by (unfold zlen; rewrite rev_length; lia).
           replace (zlen p2 + zlen (rev r2) - 1) with (zlen p1 + zlen r2 - 1) by (unfold zlen in *; rewrite rev_length; lia).
           rewrite IH; [| exact Hp | cbn [length] in *; lia | cbn [length] in *; lia | cbn [length] in Hf; lia].
           cbv beta iota. f_equal. f_equal; unfold zlen in *; rewrite ?rev_length; lia.
        -- cbv beta iota. f_equal. f_equal; unfold zlen in *; rewrite rev_length; lia.
      * f_equal. f_equal; lia.
Qed.

(** the suffix scan leaves at least one symbol of the longer remainder *)
Lemma sfx_bound : forall r1 r2, (1 <= length r1 \/ 1 <= length r2)%nat ->
  (sfx r1 r2 + 1 <= Nat.max (length r1) (length r2))%nat.
Proof.
  induction r1 as [| x r1 IH]; intros r2 H.
  - cbn [sfx length] in *. lia.
  - destruct r2 as [| y r2]; [cbn [sfx length] in *; lia |]. cbn [sfx].
    destruct (((1 <? length (x :: r1))%nat || (1 <? length (y :: r2))%nat) && (x =? y)%N) eqn:C; [| cbn [length]; lia].
    apply andb_true_iff in C. destruct C as [C _]. apply orb_true_iff in C.
    cbn [length] in *. assert (1 <= length r1 \/ 1 <= length r2)%nat by (destruct C as [C | C]; apply Nat.ltb_lt in C; lia).
    specialize (IH r2 H0). lia.
Qed.

Theorem d1or0_no_panic : forall s1 s2, d1or0_c s1 s2 = Some (d1or0 s1 s2).
Proof.
  intros s1 s2. unfold d1or0_c, d1or0. cbv zeta.
  destruct (Z.ltb_spec 1 (Z.abs (zlen s1 - zlen s2))) as [Ha | Ha]; [reflexivity |].
  pose proof (scan_fwd_spec s1 s2 [] [] (S (length s1)) eq_refl ltac:(lia)) as F.
  cbn [app] in F. change (zlen (@nil N)) with 0 in F. rewrite F. rewrite Z.add_0_l.
  set (b := lcp s1 s2) in *.
  destruct ((Z.of_nat b =? zlen s1) && (Z.of_nat b =? zlen s2)) eqn:Eb; [reflexivity |].
  assert (Hb1 : (b <= length s1)%nat) by (unfold b; rewrite lcp_sym; apply lcp_le_r).
  assert (Hb2 : (b <= length s2)%nat) by (unfold b; apply lcp_le_r).
  set (r1 := rev (skipn b s1)). set (r2 := rev (skipn b s2)).
  assert (Lr1 : zlen r1 = zlen s1 - Z.of_nat b) by (unfold r1, zlen; rewrite rev_length, skipn_length; lia).
  assert (Lr2 : zlen r2 = zlen s2 - Z.of_nat b) by (unfold r2, zlen; rewrite rev_length, skipn_length; lia).
  assert (S1 : s1 = firstn b s1 ++ rev r1 ++ []) by (unfold r1; rewrite rev_involutive, app_nil_r, firstn_skipn; reflexivity).
  assert (S2 : s2 = firstn b s2 ++ rev r2 ++ []) by (unfold r2; rewrite rev_involutive, app_nil_r, firstn_skipn; reflexivity).
  assert (P1 : zlen (firstn b s1) = Z.of_nat b) by (unfold zlen; rewrite firstn_length; lia).
  assert (P2 : length (firstn b s1) = length (firstn b s2)) by (rewrite !firstn_length; lia).
  pose proof (scan_bwd_spec r1 r2 (firstn b s1) (firstn b s2) [] [] (S (length s1)) P2
                ltac:(unfold zlen in *; lia) ltac:(unfold zlen in *; lia) ltac:(unfold zlen in *; lia)) as B.
  rewrite <- S1, <- S2, P1, Lr1, Lr2 in B.
  replace (Z.of_nat b + (zlen s1 - Z.of_nat b) - 1) with (zlen s1 - 1) in B by lia.
  replace (Z.of_nat b + (zlen s2 - Z.of_nat b) - 1) with (zlen s2 - 1) in B by lia.
  rewrite B. set (k := sfx r1 r2) in *.
  assert (K : (k + 1 <= Nat.max (length r1) (length r2))%nat).
  { apply sfx_bound. apply andb_false_iff in Eb. unfold zlen in *.
    destruct Eb as [E | E]; apply Z.eqb_neq in E; lia. }
  match goal with |- context [if ?c then Some (-1, -1, 0%N, 0%N) else _] => destruct c eqn:Ec end; [reflexivity |].
  assert (G2 : (zlen s1 - 1 - Z.of_nat k <=? zlen s2 - 1 - Z.of_nat k) = true ->
               getc s2 (zlen s2 - 1 - Z.of_nat k) = Some (get s2 (zlen s2 - 1 - Z.of_nat k))).
  { intro H. apply Z.leb_le in H. apply getc_in. unfold zlen in *. lia. }
  assert (G1 : (zlen s2 - 1 - Z.of_nat k <=? zlen s1 - 1 - Z.of_nat k) = true ->
               getc s1 (zlen s1 - 1 - Z.of_nat k) = Some (get s1 (zlen s1 - 1 - Z.of_nat k))).
  { intro H. apply Z.leb_le in H. apply getc_in. unfold zlen in *. lia. }
  destruct (zlen s1 - 1 - Z.of_nat k <=? zlen s2 - 1 - Z.of_nat k) eqn:E12;
    [rewrite (G2 eq_refl) |];
    (destruct (zlen s2 - 1 - Z.of_nat k <=? zlen s1 - 1 - Z.of_nat k) eqn:E21; [rewrite (G1 eq_refl) |]); reflexivity.
Qed.
