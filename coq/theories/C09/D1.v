(** C09 — D1Or0 answers 0 / 1 / -1 exactly (single edits defined inductively), symmetric. *)
From Coq Require Import NArith ZArith List Bool Lia.
Import ListNotations.
From OBI.C09 Require Import Model.
Open Scope Z_scope.

(* ------------------------------------------------------------------ D1Or0 *)
(** one edit operation turns s1 into s2 (independent definition) *)
Inductive edit1 : list N -> list N -> Prop :=
| E_sub : forall p x y q, x <> y -> edit1 (p ++ x :: q) (p ++ y :: q)
| E_del : forall p x q, edit1 (p ++ x :: q) (p ++ q)
| E_ins : forall p y q, edit1 (p ++ q) (p ++ y :: q).

(** (pos, a1, a2) describe an edit that turns s1 into s2: substitution of a1 by a2, deletion of a1 (a2 = '-'),
    insertion of a2 (a1 = '-'), at 0-based position pos; the kind follows from the lengths *)
Definition reproduces (s1 s2 : list N) (pos : Z) (a1 a2 : N) : Prop :=
  exists p q, Z.of_nat (length p) = pos /\
    ((length s1 = length s2 /\ a1 <> a2 /\ s1 = p ++ a1 :: q /\ s2 = p ++ a2 :: q) \/
     (length s1 = S (length s2) /\ a2 = dash /\ s1 = p ++ a1 :: q /\ s2 = p ++ q) \/
     (S (length s1) = length s2 /\ a1 = dash /\ s1 = p ++ q /\ s2 = p ++ a2 :: q)).

Definition verdict (r : Z * Z * N * N) : Z := fst (fst (fst r)).

Definition d1_core (l1 l2 b k : Z) (s1 s2 : list N) : Z * Z * N * N :=
  if (1 <? Z.abs (l1 - l2))%Z then ((-1)%Z, (-1)%Z, 0, 0)%N else
  if (b =? l1)%Z && (b =? l2)%Z then (0%Z, (-1)%Z, 0, 0)%N else
  let e1 := (l1 - 1 - k)%Z in
  let e2 := (l2 - 1 - k)%Z in
  if ((l1 =? l2)%Z && ((b <? e1)%Z || (b <? e2)%Z))
     || ((l2 <? l1)%Z && (b <? e1)%Z)
     || ((l1 <? l2)%Z && (b <? e2)%Z)
  then ((-1)%Z, (-1)%Z, 0, 0)%N else
  let pos := if (e1 <=? b)%Z then (if (e2 <? e1)%Z then e1 else e2) else (-1)%Z in
  let a2 := if (e1 <=? e2)%Z then get s2 e2 else dash in
  let a1 := if (e2 <=? e1)%Z then get s1 e1 else dash in
  (1%Z, pos, a1, a2).

Lemma d1or0_core : forall s1 s2,
  d1or0 s1 s2 = d1_core (zlen s1) (zlen s2) (Z.of_nat (lcp s1 s2))
                  (Z.of_nat (sfx (rev (skipn (lcp s1 s2) s1)) (rev (skipn (lcp s1 s2) s2)))) s1 s2.
Proof. reflexivity. Qed.

Definition one_cond (l1 l2 b k : Z) : Prop :=
  Z.abs (l1 - l2) <= 1 /\ ~ (b = l1 /\ b = l2) /\
  (l1 = l2 -> l1 - 1 - k <= b) /\ (l2 < l1 -> l1 - 1 - k <= b) /\ (l1 < l2 -> l2 - 1 - k <= b).

Lemma core_verdict : forall l1 l2 b k s1 s2,
  (verdict (d1_core l1 l2 b k s1 s2) = 0 <-> (Z.abs (l1 - l2) <= 1 /\ b = l1 /\ b = l2)) /\
  (verdict (d1_core l1 l2 b k s1 s2) = 1 <-> one_cond l1 l2 b k) /\
  (verdict (d1_core l1 l2 b k s1 s2) = 0 \/ verdict (d1_core l1 l2 b k s1 s2) = 1 \/
   verdict (d1_core l1 l2 b k s1 s2) = -1).
Proof.
  intros l1 l2 b k s1 s2. unfold d1_core, one_cond.
  destruct (Z.ltb_spec 1 (Z.abs (l1 - l2))) as [Ha | Ha]; [cbn; lia |].
  destruct (Z.eqb_spec b l1) as [E1 | E1]; destruct (Z.eqb_spec b l2) as [E2 | E2]; cbn [andb];
    try (cbn; lia).
  all: cbv zeta;
    destruct (Z.eqb_spec l1 l2) as [E | E]; destruct (Z.ltb_spec b (l1 - 1 - k)) as [B1 | B1];
    destruct (Z.ltb_spec b (l2 - 1 - k)) as [B2 | B2]; destruct (Z.ltb_spec l2 l1) as [L1 | L1];
    destruct (Z.ltb_spec l1 l2) as [L2 | L2]; cbn [andb orb verdict fst]; lia.
Qed.

Definition heads_differ (t1 t2 : list N) : Prop :=
  match t1, t2 with x :: _, y :: _ => x <> y | _, _ => True end.

Lemma lcp_spec : forall s1 s2, exists p t1 t2,
  s1 = p ++ t1 /\ s2 = p ++ t2 /\ length p = lcp s1 s2 /\ heads_differ t1 t2.
Proof.
  induction s1 as [| x s1 IH]; intros s2.
  - exists [], [], s2. cbn. repeat split; trivial.
  - destruct s2 as [| y s2].
    + exists [], (x :: s1), []. cbn. repeat split; trivial.
    + cbn [lcp]. destruct (N.eqb_spec x y) as [-> | Hne].
      * destruct (IH s2) as (p & t1 & t2 & E1 & E2 & Hl & Hd).
        exists (y :: p), t1, t2. cbn. rewrite <- E1, <- E2, Hl. repeat split; trivial.
      * exists [], (x :: s1), (y :: s2). cbn. repeat split; trivial.
Qed.

Lemma lcp_refl : forall s, lcp s s = length s.
Proof. induction s as [| x s IH]; [reflexivity |]. cbn. rewrite N.eqb_refl, IH. reflexivity. Qed.

Lemma lcp_sym : forall s1 s2, lcp s1 s2 = lcp s2 s1.
Proof.
  induction s1 as [| x s1 IH]; intros [| y s2]; try reflexivity.
  cbn. rewrite (N.eqb_sym x y). destruct (y =? x)%N; [rewrite IH |]; reflexivity.
Qed.

Lemma sfx_sym : forall r1 r2, sfx r1 r2 = sfx r2 r1.
Proof.
  induction r1 as [| x r1 IH]; intros [| y r2]; try reflexivity.
  cbn [sfx]. rewrite (N.eqb_sym x y), (orb_comm (1 <? length (x :: r1))%nat).
  destruct (((1 <? length (y :: r2))%nat || (1 <? length (x :: r1))%nat) && (y =? x)%N); [rewrite IH |]; reflexivity.
Qed.

(** weak specification of the suffix scan: it strips a common prefix of the reversed remainders *)
Lemma sfx_spec : forall r1 r2, exists q v1 v2,
  r1 = q ++ v1 /\ r2 = q ++ v2 /\ length q = sfx r1 r2.
Proof.
  induction r1 as [| x r1 IH]; intros r2.
  - exists [], [], r2. repeat split; reflexivity.
  - destruct r2 as [| y r2].
    + exists [], (x :: r1), []. repeat split; reflexivity.
    + cbn [sfx].
      destruct (((1 <? length (x :: r1))%nat || (1 <? length (y :: r2))%nat) && (x =? y)%N) eqn:E.
      * apply andb_true_iff in E. destruct E as [_ E]. apply N.eqb_eq in E. subst y.
        destruct (IH r2) as (q & v1 & v2 & E1 & E2 & Hl).
        exists (x :: q), v1, v2. cbn. rewrite <- E1, <- E2, Hl. repeat split; reflexivity.
      * exists [], (x :: r1), (y :: r2). repeat split; reflexivity.
Qed.

Lemma skipn_app_len : forall (p t : list N), skipn (length p) (p ++ t) = t.
Proof. induction p as [| x p IH]; intro t; [reflexivity | exact (IH t)]. Qed.

Lemma get_app_mid : forall (p : list N) x q, get (p ++ x :: q) (Z.of_nat (length p)) = x.
Proof.
  intros p x q. unfold get. destruct (Z.ltb_spec (Z.of_nat (length p)) 0) as [H | H]; [lia |].
  rewrite Nat2Z.id. rewrite app_nth2 by lia. rewrite Nat.sub_diag. reflexivity.
Qed.

(** decomposition used by D1Or0: s1 = p ++ u1 ++ q, s2 = p ++ u2 ++ q with |p| = b, |q| = k *)
Lemma d1_decomp : forall s1 s2, exists p u1 u2 q,
  s1 = p ++ u1 ++ q /\ s2 = p ++ u2 ++ q /\ length p = lcp s1 s2 /\
  length q = sfx (rev (skipn (lcp s1 s2) s1)) (rev (skipn (lcp s1 s2) s2)) /\
  heads_differ (u1 ++ q) (u2 ++ q).
Proof.
  intros s1 s2. destruct (lcp_spec s1 s2) as (p & t1 & t2 & E1 & E2 & Hl & Hd).
  assert (K1 : skipn (lcp s1 s2) s1 = t1) by (rewrite <- Hl, E1; apply skipn_app_len).
  assert (K2 : skipn (lcp s1 s2) s2 = t2) by (rewrite <- Hl, E2; apply skipn_app_len).
  rewrite K1, K2.
  destruct (sfx_spec (rev t1) (rev t2)) as (q & v1 & v2 & F1 & F2 & Hq).
  exists p, (rev v1), (rev v2), (rev q).
  assert (G1 : t1 = rev v1 ++ rev q) by (rewrite <- rev_app_distr, <- F1, rev_involutive; reflexivity).
  assert (G2 : t2 = rev v2 ++ rev q) by (rewrite <- rev_app_distr, <- F2, rev_involutive; reflexivity).
  rewrite <- G1, <- G2. rewrite rev_length. repeat split; assumption.
Qed.

Lemma d1or0_zero : forall s1 s2, verdict (d1or0 s1 s2) = 0 <-> s1 = s2.
Proof.
  intros s1 s2. rewrite d1or0_core.
  destruct (core_verdict (zlen s1) (zlen s2) (Z.of_nat (lcp s1 s2))
              (Z.of_nat (sfx (rev (skipn (lcp s1 s2) s1)) (rev (skipn (lcp s1 s2) s2)))) s1 s2) as [H0 _].
  rewrite H0. unfold zlen. split.
  - intros (_ & B1 & B2). destruct (lcp_spec s1 s2) as (p & t1 & t2 & E1 & E2 & Hl & _).
    assert (L1 : length s1 = length p) by lia. assert (L2 : length s2 = length p) by lia.
    rewrite E1 in L1. rewrite E2 in L2. rewrite app_length in L1, L2.
    destruct t1; [| cbn in L1; lia]. destruct t2; [| cbn in L2; lia]. congruence.
  - intros <-. rewrite lcp_refl. lia.
Qed.

Lemma core_one_value : forall l1 l2 b k s1 s2, one_cond l1 l2 b k ->
  d1_core l1 l2 b k s1 s2 =
    if (l1 =? l2) then (1, l1 - 1 - k, get s1 (l1 - 1 - k), get s2 (l2 - 1 - k))
    else if (l2 <? l1) then (1, l1 - 1 - k, get s1 (l1 - 1 - k), dash)
    else (1, l2 - 1 - k, dash, get s2 (l2 - 1 - k)).
Proof.
  intros l1 l2 b k s1 s2 (Ha & Hne & C1 & C2 & C3). unfold d1_core.
  destruct (Z.ltb_spec 1 (Z.abs (l1 - l2))) as [Hx | _]; [lia |].
  assert (B : (b =? l1) && (b =? l2) = false).
  { destruct (Z.eqb_spec b l1); destruct (Z.eqb_spec b l2); cbn; try reflexivity. exfalso. apply Hne. split; assumption. }
  rewrite B. cbv zeta.
  destruct (Z.eqb_spec l1 l2) as [E | E]; destruct (Z.ltb_spec b (l1 - 1 - k)) as [B1 | B1];
    destruct (Z.ltb_spec b (l2 - 1 - k)) as [B2 | B2]; destruct (Z.ltb_spec l2 l1) as [L1 | L1];
    destruct (Z.ltb_spec l1 l2) as [L2 | L2]; cbn [andb orb]; try (exfalso; lia).
  all: destruct (Z.leb_spec (l1 - 1 - k) b); try (exfalso; lia);
       destruct (Z.ltb_spec (l2 - 1 - k) (l1 - 1 - k)); try (exfalso; lia);
       destruct (Z.leb_spec (l1 - 1 - k) (l2 - 1 - k)); try (exfalso; lia);
       destruct (Z.leb_spec (l2 - 1 - k) (l1 - 1 - k)); try (exfalso; lia);
       try reflexivity.
  all: try (subst l2; reflexivity).
Qed.

Lemma d1or0_one_sound : forall s1 s2, verdict (d1or0 s1 s2) = 1 ->
  edit1 s1 s2 /\ exists pos a1 a2, d1or0 s1 s2 = (1, pos, a1, a2) /\ reproduces s1 s2 pos a1 a2.
Proof.
  intros s1 s2. rewrite d1or0_core.
  destruct (d1_decomp s1 s2) as (p & u1 & u2 & q & E1 & E2 & Hp & Hq & Hd).
  set (b := Z.of_nat (lcp s1 s2)). set (k := Z.of_nat (sfx _ _)).
  destruct (core_verdict (zlen s1) (zlen s2) b k s1 s2) as (_ & H1 & _).
  rewrite H1. clear H1. intros Hc. rewrite (core_one_value _ _ _ _ s1 s2 Hc).
  destruct Hc as (Ha & Hne & C1 & C2 & C3).
  assert (L1 : zlen s1 = b + Z.of_nat (length u1) + k).
  { unfold zlen, b, k. rewrite E1 at 1. rewrite !app_length. lia. }
  assert (L2 : zlen s2 = b + Z.of_nat (length u2) + k).
  { unfold zlen, b, k. rewrite E2 at 1. rewrite !app_length. lia. }
  assert (Hb : b = Z.of_nat (length p)) by (unfold b; lia).
  assert (Hnn : 0 <= k) by (unfold k; lia).
  destruct (Z.eqb_spec (zlen s1) (zlen s2)) as [Heq | Hneq].
  - (* substitution *)
    assert (U1 : length u1 = length u2) by lia.
    assert (U1' : (length u1 <= 1)%nat) by lia.
    destruct u1 as [| x [| ? ?]]; [| | cbn in U1'; lia].
    + destruct u2; [| discriminate]. exfalso. apply Hne. cbn [app] in *.
      assert (Hs : s1 = s2) by congruence. split; unfold b, zlen; rewrite <- Hs, lcp_refl; reflexivity.
    + destruct u2 as [| y [| ? ?]]; try discriminate. cbn [app] in *.
      assert (X1 : zlen s1 - 1 - k = b) by (cbn in L1; lia).
      assert (X2 : zlen s2 - 1 - k = b) by (cbn in L2; lia).
      rewrite X1, X2. split; [rewrite E1, E2; apply E_sub; exact Hd |].
      exists b, x, y. split.
      * rewrite E1 at 1. rewrite E2 at 1. rewrite Hb, !get_app_mid. reflexivity.
      * exists p, q. split; [lia |]. left. unfold zlen in Heq. repeat split; try assumption; lia.
  - destruct (Z.ltb_spec (zlen s2) (zlen s1)) as [Hgt | Hle].
    + (* deletion *)
      assert (U1 : length u1 = 1%nat) by lia. assert (U2 : length u2 = 0%nat) by lia.
      destruct u2; [| discriminate]. destruct u1 as [| x [| ? ?]]; try discriminate. cbn [app] in *.
      assert (X1 : zlen s1 - 1 - k = b) by (cbn in L1; lia).
      rewrite X1. split; [rewrite E1, E2; apply E_del |].
      exists b, x, dash. split.
      * rewrite E1 at 1. rewrite Hb, get_app_mid. reflexivity.
      * exists p, q. split; [lia |]. right. left. unfold zlen in *. repeat split; try assumption; lia.
    + (* insertion *)
      assert (U1 : length u1 = 0%nat) by lia. assert (U2 : length u2 = 1%nat) by lia.
      destruct u1; [| discriminate]. destruct u2 as [| y [| ? ?]]; try discriminate. cbn [app] in *.
      assert (X2 : zlen s2 - 1 - k = b) by (cbn in L2; lia).
      rewrite X2. split; [rewrite E1, E2; apply E_ins |].
      exists b, dash, y. split.
      * rewrite E2 at 1. rewrite Hb, get_app_mid. reflexivity.
      * exists p, q. split; [lia |]. right. right. unfold zlen in *. repeat split; try assumption; lia.
Qed.

Lemma lcp_app : forall P t1 t2, lcp (P ++ t1) (P ++ t2) = (length P + lcp t1 t2)%nat.
Proof. induction P as [| c P IH]; intros; [reflexivity |]. cbn. rewrite N.eqb_refl, IH. reflexivity. Qed.

Lemma skipn_app_len_plus : forall (P t : list N) n, skipn (length P + n) (P ++ t) = skipn n t.
Proof. induction P as [| c P IH]; intros; [reflexivity | exact (IH t n)]. Qed.

Lemma lcp_le_r : forall s1 s2, (lcp s1 s2 <= length s2)%nat.
Proof.
  induction s1 as [| x s1 IH]; intros [| y s2]; cbn; try lia.
  destruct (x =? y)%N; [specialize (IH s2) |]; lia.
Qed.

Lemma sfx_snoc2 : forall R x y, sfx (R ++ [x]) (R ++ [y]) = length R.
Proof.
  induction R as [| c R IH]; intros x y.
  - reflexivity.
  - cbn [app sfx]. rewrite N.eqb_refl.
    assert (E : (1 <? length (c :: R ++ [x]))%nat = true).
    { apply Nat.ltb_lt. cbn. rewrite app_length. cbn. lia. }
    rewrite E. cbn [orb andb]. rewrite IH. reflexivity.
Qed.

Lemma sfx_snoc1 : forall R c, sfx (R ++ [c]) R = length R.
Proof.
  induction R as [| d R IH]; intros c.
  - reflexivity.
  - cbn [app sfx]. rewrite N.eqb_refl.
    assert (E : (1 <? length (d :: R ++ [c]))%nat = true).
    { apply Nat.ltb_lt. cbn. rewrite app_length. cbn. lia. }
    rewrite E. cbn [orb andb]. rewrite IH. reflexivity.
Qed.

Lemma lcp_del : forall Q x, exists c, skipn (lcp (x :: Q) Q) (x :: Q) = c :: skipn (lcp (x :: Q) Q) Q.
Proof.
  induction Q as [| y Q IH]; intros x.
  - exists x. reflexivity.
  - cbn [lcp]. destruct (N.eqb_spec x y) as [-> | Hne].
    + destruct (IH y) as [c Hc]. exists c. cbn [skipn]. exact Hc.
    + exists x. reflexivity.
Qed.

Lemma one_cond_sub : forall P x y Q, x <> y ->
  verdict (d1or0 (P ++ x :: Q) (P ++ y :: Q)) = 1.
Proof.
  intros P x y Q Hne. rewrite d1or0_core.
  set (k := Z.of_nat (sfx _ _)). set (b := Z.of_nat (lcp _ _)).
  apply (core_verdict _ _ b k). 
  assert (Eb : lcp (P ++ x :: Q) (P ++ y :: Q) = length P).
  { rewrite lcp_app. cbn [lcp]. destruct (N.eqb_spec x y); [contradiction | lia]. }
  assert (Ek : k = Z.of_nat (length Q)).
  { unfold k. rewrite Eb, !skipn_app_len. cbn [rev]. rewrite sfx_snoc2, rev_length. reflexivity. }
  assert (Eb' : b = Z.of_nat (length P)) by (unfold b; rewrite Eb; reflexivity).
  unfold one_cond, zlen. rewrite !app_length. cbn [length]. lia.
Qed.

Lemma one_cond_del : forall P x Q, verdict (d1or0 (P ++ x :: Q) (P ++ Q)) = 1.
Proof.
  intros P x Q. rewrite d1or0_core.
  set (k := Z.of_nat (sfx _ _)). set (b := Z.of_nat (lcp _ _)).
  apply (core_verdict _ _ b k).
  set (j := lcp (x :: Q) Q).
  assert (Eb : lcp (P ++ x :: Q) (P ++ Q) = (length P + j)%nat) by (apply lcp_app).
  pose proof (lcp_le_r (x :: Q) Q) as Hj. fold j in Hj.
  assert (Ek : k = Z.of_nat (length Q - j)).
  { unfold k. rewrite Eb, !skipn_app_len_plus. destruct (lcp_del Q x) as [c Hc]. fold j in Hc.
    rewrite Hc. cbn [rev]. rewrite sfx_snoc1, rev_length, skipn_length. reflexivity. }
  assert (Eb' : b = Z.of_nat (length P + j)) by (unfold b; rewrite Eb; reflexivity).
  unfold one_cond, zlen. rewrite !app_length. cbn [length]. lia.
Qed.

Lemma core_other_value : forall l1 l2 b k s1 s2, verdict (d1_core l1 l2 b k s1 s2) <> 1 ->
  d1_core l1 l2 b k s1 s2 = (verdict (d1_core l1 l2 b k s1 s2), -1, 0%N, 0%N).
Proof.
  intros l1 l2 b k s1 s2. unfold d1_core.
  destruct (1 <? Z.abs (l1 - l2)); [reflexivity |].
  destruct ((b =? l1) && (b =? l2)); [reflexivity |]. cbv zeta.
  destruct ((l1 =? l2) && ((b <? l1 - 1 - k) || (b <? l2 - 1 - k)) || (l2 <? l1) && (b <? l1 - 1 - k)
            || (l1 <? l2) && (b <? l2 - 1 - k)); [reflexivity |].
  cbn. intro H. exfalso. apply H. reflexivity.
Qed.

Definition swap4 (r : Z * Z * N * N) : Z * Z * N * N :=
  let '(v, p, a1, a2) := r in (v, p, a2, a1).

Lemma one_cond_sym : forall l1 l2 b k, one_cond l2 l1 b k <-> one_cond l1 l2 b k.
Proof. intros. unfold one_cond. lia. Qed.
Lemma zero_cond_sym : forall l1 l2 b : Z,
  (Z.abs (l2 - l1) <= 1 /\ b = l2 /\ b = l1) <-> (Z.abs (l1 - l2) <= 1 /\ b = l1 /\ b = l2).
Proof. intros. lia. Qed.

Lemma core_sym : forall l1 l2 b k s1 s2,
  d1_core l2 l1 b k s2 s1 = swap4 (d1_core l1 l2 b k s1 s2).
Proof.
  intros l1 l2 b k s1 s2.
  pose proof (one_cond_sym l1 l2 b k) as OS. pose proof (zero_cond_sym l1 l2 b) as ZS.
  destruct (core_verdict l1 l2 b k s1 s2) as (Z1 & O1 & T1).
  destruct (core_verdict l2 l1 b k s2 s1) as (Z2 & O2 & T2).
  destruct (Z.eq_dec (verdict (d1_core l1 l2 b k s1 s2)) 1) as [V | V].
  - assert (C1 : one_cond l1 l2 b k) by (apply O1; exact V).
    assert (C2 : one_cond l2 l1 b k) by (apply OS; exact C1).
    rewrite (core_one_value _ _ _ _ s1 s2 C1), (core_one_value _ _ _ _ s2 s1 C2).
    destruct C1 as (Ha & _). clear - Ha.
    destruct (Z.eqb_spec l1 l2) as [E | E].
    + subst l2. rewrite Z.eqb_refl. reflexivity.
    + destruct (Z.eqb_spec l2 l1) as [E' | _]; [congruence |].
      destruct (Z.ltb_spec l2 l1); destruct (Z.ltb_spec l1 l2); try (exfalso; lia); reflexivity.
  - assert (V2 : verdict (d1_core l2 l1 b k s2 s1) <> 1).
    { intro H. apply V. apply O1. apply OS. apply O2. exact H. }
    rewrite (core_other_value _ _ _ _ _ _ V), (core_other_value _ _ _ _ _ _ V2). cbn [swap4].
    assert (EV : verdict (d1_core l2 l1 b k s2 s1) = verdict (d1_core l1 l2 b k s1 s2)).
    { destruct T1 as [A | [A | A]]; [| contradiction |]; destruct T2 as [B | [B | B]]; try contradiction; try congruence.
      - exfalso. assert (B0 : verdict (d1_core l2 l1 b k s2 s1) = 0) by (apply Z2; apply ZS; apply Z1; exact A).
        rewrite B0 in B. discriminate.
      - exfalso. assert (A0 : verdict (d1_core l1 l2 b k s1 s2) = 0) by (apply Z1; apply ZS; apply Z2; exact B).
        rewrite A0 in A. discriminate. }
    rewrite EV. reflexivity.
Qed.

Lemma d1or0_sym : forall s1 s2, d1or0 s2 s1 = swap4 (d1or0 s1 s2).
Proof.
  intros s1 s2. rewrite !d1or0_core. rewrite (lcp_sym s2 s1).
  rewrite (sfx_sym (rev (skipn (lcp s1 s2) s2))). apply core_sym.
Qed.

Lemma edit1_sym : forall s1 s2, edit1 s1 s2 -> edit1 s2 s1.
Proof.
  intros s1 s2 H. destruct H as [p x y q Hne | p x q | p y q].
  - apply E_sub. congruence.
  - apply E_ins.
  - apply E_del.
Qed.

Lemma verdict_swap4 : forall r, verdict (swap4 r) = verdict r.
Proof. intros [[[v p] a1] a2]. reflexivity. Qed.

Lemma d1or0_one_complete : forall s1 s2, edit1 s1 s2 -> verdict (d1or0 s1 s2) = 1.
Proof.
  intros s1 s2 H. destruct H as [p x y q Hne | p x q | p y q].
  - apply one_cond_sub. exact Hne.
  - apply one_cond_del.
  - rewrite d1or0_sym, verdict_swap4. apply one_cond_del.
Qed.

Lemma d1or0_verdicts : forall s1 s2,
  verdict (d1or0 s1 s2) = 0 \/ verdict (d1or0 s1 s2) = 1 \/ verdict (d1or0 s1 s2) = -1.
Proof. intros s1 s2. rewrite d1or0_core. apply core_verdict. Qed.
