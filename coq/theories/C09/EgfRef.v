(** C09 — the end-gap-free reference recursion egf_ref is optimal for an independent inductive definition of
    alignments whose columns facing the two ends of the second sequence are free. *)
From Coq Require Import NArith ZArith List Bool Lia.
Import ListNotations.
From OBI.C09 Require Import Model Ref RefSym BandE.
Open Scope nat_scope.

(** aliE started a b s l: an alignment of a and b with s matching columns (compatible symbols) and l COUNTED columns;
    a column consuming a symbol of a only is not counted before the first symbol of b is consumed (started = false)
    nor after the last one (b = []) *)
Inductive aliE : bool -> list N -> list N -> nat -> nat -> Prop :=
| E_end : forall st a, aliE st a [] 0 0
| E_match : forall st x y a b s l, samenuc x y = true -> aliE true a b s l -> aliE st (x :: a) (y :: b) (S s) (S l)
| E_mism : forall st x y a b s l, aliE true a b s l -> aliE st (x :: a) (y :: b) s (S l)
| E_gap_a : forall st y a b s l, aliE true a b s l -> aliE st a (y :: b) s (S l)
| E_free : forall x a y b s l, aliE false a (y :: b) s l -> aliE false (x :: a) (y :: b) s l
| E_gap_b : forall x a y b s l, aliE true a (y :: b) s l -> aliE true (x :: a) (y :: b) s (S l).

Lemma egf_ref_nil_l : forall b st, egf_ref [] b st = (0, length b).
Proof. reflexivity. Qed.
Lemma egf_ref_nil_r : forall a st, egf_ref a [] st = (0, 0).
Proof. destruct a; reflexivity. Qed.
Lemma egf_ref_cons : forall x a y b st,
  egf_ref (x :: a) (y :: b) st =
  best (stepm (samenuc x y) (egf_ref a b true))
       (best (step1 (egf_ref (x :: a) b true))
             (if st then step1 (egf_ref a (y :: b) st) else egf_ref a (y :: b) st)).
Proof. reflexivity. Qed.

Lemma aliE_nil_l : forall st b, aliE st [] b 0 (length b).
Proof. intros st b. revert st. induction b as [| y b IH]; intro st; [apply E_end | cbn [length]; apply E_gap_a; apply IH]. Qed.

Lemma egf_ref_achieved : forall a b st, aliE st a b (fst (egf_ref a b st)) (snd (egf_ref a b st)).
Proof.
  induction a as [| x a IHa]; intros b st.
  - rewrite egf_ref_nil_l. apply aliE_nil_l.
  - revert st. induction b as [| y b IHb]; intro st.
    + rewrite egf_ref_nil_r. apply E_end.
    + rewrite egf_ref_cons.
      match goal with |- context [best ?p ?q] => destruct (best_cases p q) as [E | E]; rewrite E end.
      * unfold stepm. cbn [fst snd]. destruct (samenuc x y) eqn:M.
        -- apply E_match; [exact M | apply IHa].
        -- apply E_mism. apply IHa.
      * match goal with |- context [best ?p ?q] => destruct (best_cases p q) as [F | F]; rewrite F end.
        -- unfold step1. cbn [fst snd]. apply E_gap_a. apply IHb.
        -- destruct st.
           ++ unfold step1. cbn [fst snd]. apply E_gap_b. apply IHa.
           ++ apply E_free. apply IHa.
Qed.

Lemma egf_ref_optimal : forall st a b s l, aliE st a b s l -> le2 (s, l) (egf_ref a b st).
Proof.
  intros st a b s l H.
  induction H as [st a | st x y a b s l M H IH | st x y a b s l H IH | st y a b s l H IH | x a y b s l H IH | x a y b s l H IH].
  - rewrite egf_ref_nil_r. apply le2_refl.
  - rewrite egf_ref_cons. eapply le2_trans; [| apply best_l]. rewrite M.
    change (S s, S l) with (stepm true (s, l)). apply stepm_mono. exact IH.
  - rewrite egf_ref_cons. eapply le2_trans; [| apply best_l].
    eapply le2_trans; [| apply stepm_mono; exact IH]. apply (step1_le_stepm (samenuc x y) (s, l)).
  - destruct a as [| x a].
    + rewrite egf_ref_nil_l in *. unfold le2 in *. cbn [fst snd length] in *. lia.
    + rewrite egf_ref_cons. eapply le2_trans; [| apply best_r]. eapply le2_trans; [| apply best_l].
      change (s, S l) with (step1 (s, l)). apply step1_mono. exact IH.
  - rewrite egf_ref_cons. eapply le2_trans; [| apply best_r]. eapply le2_trans; [| apply best_r]. exact IH.
  - rewrite egf_ref_cons. eapply le2_trans; [| apply best_r]. eapply le2_trans; [| apply best_r].
    change (s, S l) with (step1 (s, l)). apply step1_mono. exact IH.
Qed.

(* ------------------------------------------------------------------ numeric envelope *)
Lemma aliE_bounds : forall st a b s l, aliE st a b s l ->
  s + l <= length a + length b /\ length b <= l /\ s <= length b /\ s <= length a.
Proof. intros st a b s l H. induction H; cbn [length] in *; lia. Qed.

Lemma egf_ref_bounds : forall a b st,
  fst (egf_ref a b st) + snd (egf_ref a b st) <= length a + length b /\ length b <= snd (egf_ref a b st) /\
  fst (egf_ref a b st) <= length b /\ fst (egf_ref a b st) <= length a.
Proof. intros a b st. apply (aliE_bounds st a b). apply egf_ref_achieved. Qed.

(* ------------------------------------------------------------------ reversal: free columns at both ends *)
(** an end-gap-free alignment is a plain alignment (Ref.v) of a factor of a with b *)
Lemma aliE_split : forall st a b s l, aliE st a b s l ->
  exists pre mid post, a = pre ++ mid ++ post /\ ali mid b s l /\ (st = true -> pre = []).
Proof.
  intros st a b s l H.
  induction H as [st a | st x y a b s l M H IH | st x y a b s l H IH | st y a b s l H IH | x a y b s l H IH | x a y b s l H IH].
  - exists [], [], a. split; [reflexivity |]. split; [apply A_nil | reflexivity].
  - destruct IH as (pre & mid & post & E & A & P). rewrite (P eq_refl) in E. cbn [app] in E. subst a.
    exists [], (x :: mid), post. split; [reflexivity |]. split; [apply A_match; assumption | reflexivity].
  - destruct IH as (pre & mid & post & E & A & P). rewrite (P eq_refl) in E. cbn [app] in E. subst a.
    exists [], (x :: mid), post. split; [reflexivity |]. split; [apply A_mism; assumption | reflexivity].
  - destruct IH as (pre & mid & post & E & A & P). rewrite (P eq_refl) in E. cbn [app] in E. subst a.
    exists [], mid, post. split; [reflexivity |]. split; [apply A_gap_a; assumption | reflexivity].
  - destruct IH as (pre & mid & post & E & A & P). subst a.
    exists (x :: pre), mid, post. split; [reflexivity |]. split; [assumption | discriminate].
  - destruct IH as (pre & mid & post & E & A & P). rewrite (P eq_refl) in E. cbn [app] in E. subst a.
    exists [], (x :: mid), post. split; [reflexivity |]. split; [apply A_gap_b; assumption | reflexivity].
Qed.

Lemma aliE_nil_inv : forall st a s l, aliE st a [] s l -> s = 0 /\ l = 0.
Proof. intros st a s l H. inversion H; subst; split; reflexivity. Qed.

Lemma ali_aliE : forall mid b s l, ali mid b s l -> forall st post, exists l', l' <= l /\ aliE st (mid ++ post) b s l'.
Proof.
  intros mid b s l H.
  induction H as [| x y a b s l M H IH | x y a b s l H IH | x a b s l H IH | y a b s l H IH]; intros st post.
  - exists 0. split; [lia | apply E_end].
  - destruct (IH true post) as [l' [L A]]. exists (S l'). split; [lia |]. cbn [app]. apply E_match; assumption.
  - destruct (IH true post) as [l' [L A]]. exists (S l'). split; [lia |]. cbn [app]. apply E_mism; assumption.
  - destruct b as [| y b].
    + destruct (IH st post) as [l' [L A]]. destruct (aliE_nil_inv _ _ _ _ A) as [-> ->].
      exists 0. split; [lia | apply E_end].
    + destruct st.
      * destruct (IH true post) as [l' [L A]]. exists (S l'). split; [lia |]. cbn [app]. apply E_gap_b. exact A.
      * destruct (IH false post) as [l' [L A]]. exists l'. split; [lia |]. cbn [app]. apply E_free. exact A.
  - destruct (IH true post) as [l' [L A]]. exists (S l'). split; [lia |]. apply E_gap_a. exact A.
Qed.

Lemma aliE_prefix : forall pre a b s l, aliE false a b s l -> aliE false (pre ++ a) b s l.
Proof.
  induction pre as [| x pre IH]; intros a b s l H; [exact H |].
  cbn [app]. destruct b as [| y b].
  - destruct (aliE_nil_inv _ _ _ _ H) as [-> ->]. apply E_end.
  - apply E_free. apply IH. exact H.
Qed.

Lemma egf_ref_rev_le : forall a b, le2 (egf_ref a b false) (egf_ref (rev a) (rev b) false).
Proof.
  intros a b. pose proof (egf_ref_achieved a b false) as H.
  destruct (aliE_split _ _ _ _ _ H) as (pre & mid & post & E & A & _).
  apply ali_rev in A.
  destruct (ali_aliE _ _ _ _ A false (rev pre)) as [l' [L A']].
  apply (aliE_prefix (rev post)) in A'.
  assert (ER : rev a = rev post ++ rev mid ++ rev pre) by (rewrite E, !rev_app_distr, app_assoc; reflexivity).
  rewrite <- ER in A'. apply egf_ref_optimal in A'.
  eapply le2_trans; [| exact A']. destruct (egf_ref a b false) as [s l]. unfold le2. cbn [fst snd] in *. lia.
Qed.

Lemma egf_ref_rev : forall a b, egf_ref (rev a) (rev b) false = egf_ref a b false.
Proof.
  intros a b. apply le2_antisym.
  - pose proof (egf_ref_rev_le (rev a) (rev b)) as H. rewrite !rev_involutive in H. exact H.
  - apply egf_ref_rev_le.
Qed.

(** what the reference of the mode means: with A the longer of the two sequences, an achieved and optimal aliE *)
Lemma lcs_ref_egf_spec : forall a b,
  let A := if length a <? length b then b else a in
  let B := if length a <? length b then a else b in
  aliE false A B (fst (lcs_ref_egf a b)) (snd (lcs_ref_egf a b)) /\
  (forall s l, aliE false A B s l ->
     s < fst (lcs_ref_egf a b) \/ (s = fst (lcs_ref_egf a b) /\ snd (lcs_ref_egf a b) <= l)).
Proof.
  intros a b. cbv zeta. unfold lcs_ref_egf. destruct (length a <? length b).
  - split; [apply egf_ref_achieved |]. intros s l H. exact (egf_ref_optimal false b a s l H).
  - split; [apply egf_ref_achieved |]. intros s l H. exact (egf_ref_optimal false a b s l H).
Qed.
