(** C09 — the LCS kernel does not see the case of its symbols: _samenuc folds ASCII upper case to lower case, so the
    banded kernel (both modes, any bound, any scratch buffer) and the reference give the same answer on any two
    spellings of the same sequences (BioSequence stores lower case; FastLCSEGFScoreByte takes raw bytes). *)
From Coq Require Import NArith ZArith List Bool Lia.
Import ListNotations.
From OBI.C09 Require Import Model Ref BandM.
Open Scope N_scope.

Lemma lower_idem : forall x, lower (lower x) = lower x.
Proof.
  assert (H : forall n : nat, (n < 26)%nat -> lower (lower (65 + N.of_nat n)) = lower (65 + N.of_nat n)).
  { intros n Hn. do 26 (destruct n as [| n]; [vm_compute; reflexivity |]). lia. }
  intro x. destruct (N.leb_spec 65 x) as [A | A]; [destruct (N.leb_spec x 90) as [B | B] |].
  - specialize (H (N.to_nat (x - 65)) ltac:(lia)). rewrite N2Nat.id in H.
    replace (65 + (x - 65)) with x in H by lia. exact H.
  - assert (E : lower x = x).
    { unfold lower. destruct (N.leb_spec x 90) as [B' | B']; [lia |]. rewrite andb_false_r. reflexivity. }
    rewrite E. exact E.
  - assert (E : lower x = x).
    { unfold lower. destruct (N.leb_spec 65 x) as [A' | A']; [lia |]. reflexivity. }
    rewrite E. exact E.
Qed.

Lemma samenuc_lower : forall x y, samenuc (lower x) (lower y) = samenuc x y.
Proof. intros x y. unfold samenuc. rewrite !lower_idem. reflexivity. Qed.

Lemma get_map_lower : forall l k, get (map lower l) k = lower (get l k).
Proof.
  intros l k. unfold get. destruct (k <? 0)%Z; [reflexivity |].
  change 0 with (lower 0) at 1. apply map_nth.
Qed.

Lemma zlen_map_lower : forall l, zlen (map lower l) = zlen l.
Proof. intro l. unfold zlen. rewrite map_length. reflexivity. Qed.

Lemma fold_left_ext : forall (A B : Type) (f g : A -> B -> A), (forall a x, f a x = g a x) ->
  forall l a, fold_left f l a = fold_left g l a.
Proof. intros A B f g H l. induction l as [| x l IH]; intro a; cbn [fold_left]; [reflexivity |]. rewrite H. apply IH. Qed.

Lemma even_cell_lower : forall egf bA bB lB extra even previous y acc x,
  even_cell egf (map lower bA) (map lower bB) lB extra even previous y acc x =
  even_cell egf bA bB lB extra even previous y acc x.
Proof.
  intros. unfold even_cell. destruct acc as [cells pe]. cbv zeta.
  rewrite !get_map_lower, samenuc_lower. reflexivity.
Qed.

Lemma odd_cell_lower : forall egf bA bB lB extra even previous current y acc x,
  odd_cell egf (map lower bA) (map lower bB) lB extra even previous current y acc x =
  odd_cell egf bA bB lB extra even previous current y acc x.
Proof.
  intros. unfold odd_cell. destruct acc as [cells pe]. cbv zeta.
  rewrite !get_map_lower, samenuc_lower. reflexivity.
Qed.

Lemma row_step_lower : forall egf bA bB lA lB extra even y st,
  row_step egf (map lower bA) (map lower bB) lA lB extra even y st = row_step egf bA bB lA lB extra even y st.
Proof.
  intros. unfold row_step. destruct st as [[previous current] pe]. cbv zeta.
  rewrite (fold_left_ext _ _ _ _ (even_cell_lower egf bA bB lB extra even previous y)).
  destruct (fold_left (even_cell egf bA bB lB extra even previous y) _ _) as [cells pe'].
  rewrite (fold_left_ext _ _ _ _ (odd_cell_lower egf bA bB lB extra even previous _ y)).
  reflexivity.
Qed.

Lemma rows_lower : forall egf bA bB lA lB extra even n y st,
  rows egf (map lower bA) (map lower bB) lA lB extra even n y st = rows egf bA bB lA lB extra even n y st.
Proof.
  intros egf bA bB lA lB extra even n. induction n as [| n IH]; intros y st; cbn [rows]; [reflexivity |].
  rewrite row_step_lower. apply IH.
Qed.

Lemma lcs_core_lower : forall bA bB m egf init,
  lcs_core (map lower bA) (map lower bB) m egf init = lcs_core bA bB m egf init.
Proof.
  intros. unfold lcs_core. rewrite !zlen_map_lower. cbv zeta. rewrite rows_lower. reflexivity.
Qed.

(** the kernel on the lower-cased sequences is the kernel on the sequences *)
Lemma lcs_band_lower : forall a b m egf init,
  lcs_band (map lower a) (map lower b) m egf init = lcs_band a b m egf init.
Proof. intros. unfold lcs_band. rewrite !zlen_map_lower, !lcs_core_lower. reflexivity. Qed.

Lemma lcs_ref_lower : forall a b, lcs_ref (map lower a) (map lower b) = lcs_ref a b.
Proof.
  induction a as [| x a IHa]; intro b.
  - cbn [map]. rewrite !lcs_ref_nil_l, map_length. reflexivity.
  - induction b as [| y b IHb].
    + cbn [map]. rewrite (lcs_ref_nil_r (x :: a)), (lcs_ref_nil_r (lower x :: map lower a)).
      cbn [length]. rewrite map_length. reflexivity.
    + pose proof (IHa (y :: b)) as I1. cbn [map] in I1, IHb |- *.
      rewrite !lcs_ref_cons, samenuc_lower, IHa, I1, IHb. reflexivity.
Qed.

(** any two spellings (upper / lower / mixed case) of the same two sequences: same three results of FastLCSEGFScoreByte in
    both modes for every bound and any two scratch buffers, and the same reference pair *)
Lemma case_insensitive : forall a a' b b', map lower a = map lower a' -> map lower b = map lower b' ->
  (forall m egf init init', lcs_band a b m egf init = lcs_band a' b' m egf init') /\
  lcs_ref a b = lcs_ref a' b'.
Proof.
  intros a a' b b' Ea Eb. split.
  - intros m egf init init'. rewrite <- (lcs_band_lower a b), <- (lcs_band_lower a' b'), Ea, Eb.
    apply lcs_band_buffer_independent.
  - rewrite <- (lcs_ref_lower a b), <- (lcs_ref_lower a' b'), Ea, Eb. reflexivity.
Qed.
