(** C09 — lemmas about the model of pkg/obialign's LCS / one-difference kernels.
    Pack.v: packed words; D1.v: D1Or0; Ref.v: reference recursion = LCS; Band.v: the LCS clause; BandM.v: two-row program = banded matrix (layer i); BandE.v: banded matrix = reference within the bound (layers ii-iv); BandS.v: symmetry; BandX.v: swap; EgfRef.v: end-gap-free reference = optimal free-end alignment; BandG.v: layers ii-iv for the end-gap-free mode;
    RefSym.v: symmetry of the reference; Short.v: D1Or0 against the LCS kernel (the callers' shortcut); Case.v: case folding; Bound.v: the bounds 0, 1 and below -1; Safe.v / D1Safe.v: no slice access out of range (LCS kernel / D1Or0). Here: the IUPAC compatibility table. *)
From Coq Require Import NArith ZArith List Bool Lia.
Import ListNotations.
From OBI.C09 Require Export Model Corr Pack D1 Lev Ref RefSym Band BandX BandM BandE BandS EgfRef BandG Short Case Bound Safe D1Safe.
Open Scope N_scope.

(** IUPAC nucleotide codes as sets of bases (NC-IUB 1984), written independently of the table of the code *)
Definition iupac_set (c : N) : list N :=
  match lower c with
  | 97 => [97] | 99 => [99] | 103 => [103] | 116 => [116] | 117 => [116]       (* a c g t u *)
  | 114 => [97; 103] | 121 => [99; 116] | 115 => [99; 103] | 119 => [97; 116]  (* r y s w *)
  | 107 => [103; 116] | 109 => [97; 99]                                        (* k m *)
  | 98 => [99; 103; 116] | 100 => [97; 103; 116] | 104 => [97; 99; 116] | 118 => [97; 99; 103]   (* b d h v *)
  | 110 => [97; 99; 103; 116]                                                  (* n *)
  | _ => []
  end.
Definition compatible (x y : N) : bool :=
  existsb (fun b => existsb (N.eqb b) (iupac_set y)) (iupac_set x).
(** the 16 codes, lower and upper case *)
Definition iupac_codes : list N :=
  [97; 99; 103; 116; 117; 114; 121; 115; 119; 107; 109; 98; 100; 104; 118; 110;
   65; 67; 71; 84; 85; 82; 89; 83; 87; 75; 77; 66; 68; 72; 86; 78].

Lemma samenuc_compatible : forall x y, In x iupac_codes -> In y iupac_codes -> samenuc x y = compatible x y.
Proof.
  assert (H : forallb (fun x => forallb (fun y => Bool.eqb (samenuc x y) (compatible x y)) iupac_codes) iupac_codes = true)
    by (vm_compute; reflexivity).
  intros x y Hx Hy. rewrite forallb_forall in H. specialize (H x Hx).
  rewrite forallb_forall in H. specialize (H y Hy). apply Bool.eqb_prop in H. exact H.
Qed.

(** the table before the repair ('v' = 13, the value of 'd') *)
Definition iupac_orig : list N :=
  [1; 14; 2; 13; 0; 0;  4; 11; 0; 0; 12; 0;  3; 15; 0; 0; 0; 5;  6; 8; 8; 13; 9; 0;  10; 0].
Definition samenuc_orig (a b : N) : bool :=
  let a := lower a in let b := lower b in
  if is_lc a && is_lc b
  then 0 <? N.land (nth (N.to_nat (a - 97)) iupac_orig 0) (nth (N.to_nat (b - 97)) iupac_orig 0)
  else a =? b.
Lemma samenuc_orig_refuted : exists x y, In x iupac_codes /\ In y iupac_codes /\ samenuc_orig x y <> compatible x y.
Proof. exists 118, 99. split; [| split]; [cbn; tauto | cbn; tauto | vm_compute; discriminate]. Qed.

Lemma d1or0_minus_one : forall s1 s2, verdict (d1or0 s1 s2) = (-1)%Z <-> (s1 <> s2 /\ ~ edit1 s1 s2).
Proof.
  intros s1 s2. split.
  - intro H. split.
    + intro E. apply d1or0_zero in E. rewrite E in H. discriminate.
    + intro E. apply d1or0_one_complete in E. rewrite E in H. discriminate.
  - intros [H0 H1]. destruct (d1or0_verdicts s1 s2) as [V | [V | V]].
    + exfalso. apply H0. apply d1or0_zero. exact V.
    + exfalso. apply H1. apply d1or0_one_sound. exact V.
    + exact V.
Qed.

(** _samenuc on EVERY pair of byte values (in fact every pair of numbers), not only on the 32 codes: two letters (either
    case) match iff their IUPAC sets intersect - a letter that is no nucleotide code has the empty set and matches nothing,
    not even itself; as soon as one symbol is no letter the two symbols match iff they are equal after folding the ASCII
    upper case. *)
Definition is_letter (x : N) : bool := ((65 <=? x) && (x <=? 90)) || ((97 <=? x) && (x <=? 122)).

Lemma is_lc_lower : forall x, is_lc (lower x) = is_letter x.
Proof.
  assert (H : forall n : nat, (n < 26)%nat -> is_lc (lower (65 + N.of_nat n)) = is_letter (65 + N.of_nat n)).
  { intros n Hn. do 26 (destruct n as [| n]; [vm_compute; reflexivity |]). lia. }
  intro x. destruct (N.leb_spec 65 x) as [A | A]; [destruct (N.leb_spec x 90) as [B | B] |].
  - specialize (H (N.to_nat (x - 65)) ltac:(lia)). rewrite N2Nat.id in H.
    replace (65 + (x - 65)) with x in H by lia. exact H.
  - unfold lower, is_letter, is_lc. destruct (N.leb_spec x 90) as [B' | B']; [lia |].
    rewrite !andb_false_r. reflexivity.
  - unfold lower, is_letter, is_lc. destruct (N.leb_spec 65 x) as [A' | A']; [lia |].
    cbn [andb orb]. reflexivity.
Qed.

Definition letters52 : list N :=
  map (fun n => 65 + N.of_nat n) (seq 0 26) ++ map (fun n => 97 + N.of_nat n) (seq 0 26).

Lemma is_letter_in : forall x, is_letter x = true -> In x letters52.
Proof.
  intros x H. unfold is_letter in H. apply orb_true_iff in H. unfold letters52. apply in_or_app.
  destruct H as [H | H]; apply andb_true_iff in H; destruct H as [H1 H2]; apply N.leb_le in H1, H2; [left | right];
    apply in_map_iff.
  - exists (N.to_nat (x - 65)). split; [rewrite N2Nat.id; lia | apply in_seq; lia].
  - exists (N.to_nat (x - 97)). split; [rewrite N2Nat.id; lia | apply in_seq; lia].
Qed.

Lemma samenuc_all : forall x y,
  samenuc x y = if is_letter x && is_letter y then compatible x y else (lower x =? lower y).
Proof.
  assert (H : forallb (fun x => forallb (fun y => Bool.eqb (samenuc x y) (compatible x y)) letters52) letters52 = true)
    by (vm_compute; reflexivity).
  intros x y. destruct (is_letter x) eqn:Lx; [destruct (is_letter y) eqn:Ly |]; cbn [andb].
  - rewrite forallb_forall in H. specialize (H x (is_letter_in x Lx)).
    rewrite forallb_forall in H. specialize (H y (is_letter_in y Ly)). apply Bool.eqb_prop in H. exact H.
  - unfold samenuc. rewrite !is_lc_lower, Lx, Ly. reflexivity.
  - unfold samenuc. rewrite !is_lc_lower, Lx. reflexivity.
Qed.

(** sequences of IUPAC codes (either case) are made of self-compatible symbols *)
Lemma iupac_selfc : forall a, over iupac_codes a -> selfc a.
Proof.
  assert (H : forallb (fun x => samenuc x x) iupac_codes = true) by (vm_compute; reflexivity).
  intros a Ha x Hx. rewrite forallb_forall in H. apply H. apply Ha. exact Hx.
Qed.
