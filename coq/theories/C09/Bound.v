(** C09 — the bounds the doc comment of FastLCSScore gets wrong: 0 is a real bound (exact IUPAC identity), every bound
    below -1 answers 'not found'; only -1 means no bound. Also the bound 1 characterised without the DP (one edit under
    IUPAC compatibility). *)
From Coq Require Import NArith ZArith List Bool Lia.
Import ListNotations.
From OBI.C09 Require Import Model Ref Band BandE Short.
Open Scope nat_scope.

(** the two sequences have the same length and match symbol by symbol (IUPAC compatibility) *)
Definition allmatch (a b : list N) : Prop := Forall2 (fun x y => samenuc x y = true) a b.

Lemma ali_all_match : forall a b s l, ali a b s l -> l = s -> allmatch a b.
Proof.
  intros a b s l H. induction H as [| x y a b s l M H IH | x y a b s l H IH | x a b s l H IH | y a b s l H IH]; intro E.
  - constructor.
  - constructor; [exact M | apply IH; lia].
  - apply ali_bounds in H. lia.
  - apply ali_bounds in H. lia.
  - apply ali_bounds in H. lia.
Qed.

Lemma allmatch_ali : forall a b, allmatch a b -> ali a b (length a) (length a) /\ length a = length b.
Proof.
  intros a b H. induction H as [| x y a b M H [IH1 IH2]]; [split; [apply A_nil | reflexivity] |].
  cbn [length]. split; [apply A_match; assumption | lia].
Qed.

Lemma allmatch_rdiff : forall a b, allmatch a b <-> rdiff a b = 0%Z.
Proof.
  intros a b. pose proof (lcs_ref_achieved a b) as A. pose proof (ali_bounds _ _ _ _ A) as B. unfold rdiff. split.
  - intro H. destruct (allmatch_ali a b H) as [H1 H2]. pose proof (lcs_ref_optimal a b _ _ H1) as O.
    destruct (lcs_ref a b) as [s l]. unfold le2 in O. cbn [fst snd] in *. lia.
  - intro E. eapply ali_all_match; [exact A | lia].
Qed.

(** bound 0: FastLCSScore answers (n, n) exactly for two sequences of the same length n that match symbol by symbol, and
    'not found' or a pair with at least one difference otherwise (|a| + |b| <= 30000, any scratch buffer) *)
Lemma bound0_spec : forall a b init, (Z.of_nat (length a) + Z.of_nat (length b) <= 30000)%Z ->
  (allmatch a b -> fast_lcs_score a b 0 init = (Z.of_nat (length a), Z.of_nat (length a))) /\
  (~ allmatch a b ->
     fast_lcs_score a b 0 init = (-1, -1)%Z \/
     (0 <= fst (fast_lcs_score a b 0 init) /\ 0 < snd (fast_lcs_score a b 0 init) - fst (fast_lcs_score a b 0 init))%Z).
Proof.
  intros a b init Hs. pose proof (band_exact a b 0 init Hs) as [W B]. fold (rdiff a b) in W, B.
  pose proof (ali_bounds _ _ _ _ (lcs_ref_achieved a b)) as Bd.
  assert (P : (0 <= rdiff a b)%Z) by (unfold rdiff; lia).
  destruct (fast_lcs_score a b 0 init) as [s l]. cbn [fst snd] in *. split.
  - intro H. pose proof (allmatch_ali a b H) as [H1 H2]. pose proof (lcs_ref_optimal a b _ _ H1) as O.
    apply allmatch_rdiff in H. destruct W as [Es El]; [right; lia |].
    unfold rdiff in H. destruct (lcs_ref a b) as [rs rl]. unfold le2 in O. cbn [fst snd] in *. f_equal; lia.
  - intro H. assert (N0 : rdiff a b <> 0%Z) by (intro E; apply H; apply allmatch_rdiff; exact E).
    destruct B as [[Es El] | Bb]; [split; [discriminate | lia] | left; f_equal; lia | right; exact Bb].
Qed.

(** one edit under IUPAC compatibility: the two sequences match symbol by symbol but for one substituted, deleted or
    inserted symbol (independent definition; D1Or0 decides the same relation with byte equality instead of compatibility) *)
Inductive edit1c : list N -> list N -> Prop :=
| Ec_sub : forall p p' x y q q', allmatch p p' -> allmatch q q' -> edit1c (p ++ x :: q) (p' ++ y :: q')
| Ec_del : forall p p' x q q', allmatch p p' -> allmatch q q' -> edit1c (p ++ x :: q) (p' ++ q')
| Ec_ins : forall p p' y q q', allmatch p p' -> allmatch q q' -> edit1c (p ++ q) (p' ++ y :: q').

Lemma edit1c_cons : forall x y a b, samenuc x y = true -> edit1c a b -> edit1c (x :: a) (y :: b).
Proof.
  intros x y a b M H. destruct H as [p p' u v q q' Hp Hq | p p' u q q' Hp Hq | p p' v q q' Hp Hq].
  - apply (Ec_sub (x :: p) (y :: p') u v q q'); [constructor; assumption | exact Hq].
  - apply (Ec_del (x :: p) (y :: p') u q q'); [constructor; assumption | exact Hq].
  - apply (Ec_ins (x :: p) (y :: p') v q q'); [constructor; assumption | exact Hq].
Qed.

Lemma ali_one_off : forall a b s l, ali a b s l -> l = S s -> allmatch a b \/ edit1c a b.
Proof.
  intros a b s l H. induction H as [| x y a b s l M H IH | x y a b s l H IH | x a b s l H IH | y a b s l H IH]; intro E.
  - discriminate.
  - destruct (IH ltac:(lia)) as [Hm | He]; [left; constructor; assumption | right; apply edit1c_cons; assumption].
  - right. apply (Ec_sub [] [] x y a b); [constructor | eapply ali_all_match; [exact H | lia]].
  - right. apply (Ec_del [] [] x a b); [constructor | eapply ali_all_match; [exact H | lia]].
  - right. apply (Ec_ins [] [] y a b); [constructor | eapply ali_all_match; [exact H | lia]].
Qed.

Lemma edit1c_ali : forall a b, edit1c a b -> exists s, ali a b s (S s) /\ S s = Nat.max (length a) (length b).
Proof.
  intros a b H. destruct H as [p p' u v q q' Hp Hq | p p' u q q' Hp Hq | p p' v q q' Hp Hq];
    destruct (allmatch_ali _ _ Hp) as [Ap Lp]; destruct (allmatch_ali _ _ Hq) as [Aq Lq];
    exists (length p + length q); (split; [replace (S (length p + length q)) with (length p + S (length q)) by lia;
      apply ali_app; [exact Ap |] | rewrite !app_length; cbn [length]; lia]).
  - apply A_mism. exact Aq.
  - apply A_gap_b. exact Aq.
  - apply A_gap_a. exact Aq.
Qed.

(** at most one difference in the reference pair = identical up to compatibility, or one such edit apart *)
Lemma rdiff_le1 : forall a b, (rdiff a b <= 1)%Z <-> (allmatch a b \/ edit1c a b).
Proof.
  intros a b. pose proof (lcs_ref_achieved a b) as A. pose proof (ali_bounds _ _ _ _ A) as B. split.
  - intro H. unfold rdiff in H.
    destruct (Z.eq_dec (rdiff a b) 0) as [E | E]; [left; apply allmatch_rdiff; exact E |].
    unfold rdiff in E. eapply ali_one_off; [exact A | lia].
  - intros [H | H]; [apply allmatch_rdiff in H; lia |].
    destruct (edit1c_ali a b H) as (s0 & A0 & E0). pose proof (lcs_ref_optimal a b _ _ A0) as O.
    unfold rdiff. destruct (lcs_ref a b) as [s l]. unfold le2 in O. cbn [fst snd] in *. lia.
Qed.

(** bound 1: FastLCSScore answers (L, L) for sequences that match symbol by symbol, (L - 1, L) for sequences one
    compatible edit apart (L the length of the longer one), and otherwise 'not found' or a pair with at least two
    differences (|a| + |b| <= 30000, any scratch buffer) *)
Lemma bound1_spec : forall a b init, (Z.of_nat (length a) + Z.of_nat (length b) <= 30000)%Z ->
  let L := Z.of_nat (Nat.max (length a) (length b)) in
  (allmatch a b -> fast_lcs_score a b 1 init = (L, L)) /\
  (~ allmatch a b -> edit1c a b -> fast_lcs_score a b 1 init = (L - 1, L)%Z) /\
  (~ allmatch a b -> ~ edit1c a b ->
     fast_lcs_score a b 1 init = (-1, -1)%Z \/
     (0 <= fst (fast_lcs_score a b 1 init) /\ 1 < snd (fast_lcs_score a b 1 init) - fst (fast_lcs_score a b 1 init))%Z).
Proof.
  intros a b init Hs. cbv zeta. pose proof (band_exact a b 1 init Hs) as [W B]. fold (rdiff a b) in W, B.
  pose proof (ali_bounds _ _ _ _ (lcs_ref_achieved a b)) as Bd.
  pose proof (rdiff_le1 a b) as R1. pose proof (allmatch_rdiff a b) as R0.
  assert (P : (0 <= rdiff a b)%Z) by (unfold rdiff; lia).
  destruct (fast_lcs_score a b 1 init) as [s l]. cbn [fst snd] in *. split; [| split].
  - intro H. apply R0 in H. destruct W as [Es El]; [right; lia |].
    unfold rdiff in H. destruct (lcs_ref a b) as [rs rl]. cbn [fst snd] in *. f_equal; lia.
  - intros Hn He. assert (E1 : rdiff a b = 1%Z).
    { assert (rdiff a b <= 1)%Z by (apply R1; right; exact He).
      assert (rdiff a b <> 0)%Z by (intro E; apply Hn; apply R0; exact E). lia. }
    destruct W as [Es El]; [right; lia |].
    unfold rdiff in E1. destruct (lcs_ref a b) as [rs rl]. cbn [fst snd] in *. f_equal; lia.
  - intros Hn He. assert (E2 : (1 < rdiff a b)%Z).
    { destruct (Z_le_gt_dec (rdiff a b) 1) as [Hle | Hgt]; [| lia]. exfalso. apply R1 in Hle. tauto. }
    destruct B as [[Es El] | Bb]; [split; [discriminate | exact E2] | left; f_equal; lia | right; exact Bb].
Qed.

(** every bound below -1: both entry points answer (-1, -1, -1) whatever the sequences and the buffer *)
Lemma negative_bound : forall a b m egf init, (m < -1)%Z -> lcs_band a b m egf init = (-1, -1, -1)%Z.
Proof.
  assert (C : forall bA bB m egf init, (zlen bB <= zlen bA)%Z -> (m < -1)%Z -> lcs_core bA bB m egf init = (-1, -1, -1)%Z).
  { intros bA bB m egf init L Hm. unfold lcs_core. destruct (Z.eqb_spec m (-1)) as [E | E]; [lia |].
    cbv zeta. destruct egf.
    - destruct (Z.ltb_spec (m + (zlen bA - zlen bB)) (zlen bA - zlen bB)) as [H | H]; [reflexivity | lia].
    - destruct (Z.ltb_spec m (zlen bA - zlen bB)) as [H | H]; [reflexivity | lia]. }
  intros a b m egf init Hm. unfold lcs_band.
  destruct (Z.ltb_spec (zlen a) (zlen b)) as [L | L]; apply C; lia.
Qed.
