(** C09 — the one-difference test against the LCS kernel: what the callers (obitag, obirefidx, obiclean, obiconsensus)
    rely on when they replace FastLCSScore by D1Or0 for the bounds 0 and 1. D1Or0 compares bytes, the LCS kernel
    compares IUPAC sets. *)
From Coq Require Import NArith ZArith List Bool Lia.
Import ListNotations.
From OBI.C09 Require Import Model D1 Lev Ref Band BandE.
Open Scope nat_scope.

(** every symbol matches itself (true of the 16 IUPAC codes, false of the letters that are no code) *)
Definition selfc (a : list N) : Prop := forall x, In x a -> samenuc x x = true.
(** matching symbols of a and b are equal (true of sequences over a, c, g, t; false as soon as an ambiguity code
    faces a base it contains) *)
Definition exact2 (a b : list N) : Prop := forall x y, In x a -> In y b -> samenuc x y = true -> x = y.

Lemma ali_bounds : forall a b s l, ali a b s l ->
  s <= length a /\ s <= length b /\ length a <= l /\ length b <= l /\ l + s <= length a + length b.
Proof. intros a b s l H. induction H; cbn [length]; lia. Qed.

Lemma selfc_cons : forall x a, selfc (x :: a) -> samenuc x x = true /\ selfc a.
Proof. intros x a H. split; [apply H; left; reflexivity | intros y Hy; apply H; right; exact Hy]. Qed.
Lemma selfc_app : forall a b, selfc (a ++ b) -> selfc a /\ selfc b.
Proof. intros a b H. split; intros x Hx; apply H; apply in_or_app; [left | right]; exact Hx. Qed.

Lemma ali_same : forall a, selfc a -> ali a a (length a) (length a).
Proof.
  induction a as [| x a IH]; intro H; [apply A_nil |]. apply selfc_cons in H. destruct H as [Hx Ha].
  cbn [length]. apply A_match; [exact Hx | apply IH; exact Ha].
Qed.

Lemma ali_app : forall a b s l, ali a b s l -> forall a' b' s' l', ali a' b' s' l' ->
  ali (a ++ a') (b ++ b') (s + s') (l + l').
Proof.
  intros a b s l H. induction H; intros a' b' s' l' H'; cbn [app Nat.add].
  - exact H'.
  - apply A_match; [assumption | apply IHali; exact H'].
  - apply A_mism. apply IHali. exact H'.
  - apply A_gap_b. apply IHali. exact H'.
  - apply A_gap_a. apply IHali. exact H'.
Qed.

(** a single edit between sequences of self-compatible symbols: an alignment with all columns matching but one *)
Lemma edit1_ali : forall a b, selfc a -> selfc b -> edit1 a b ->
  exists s, ali a b s (S s) /\ S s = Nat.max (length a) (length b).
Proof.
  intros a b Ha Hb H. destruct H as [p x y q Hne | p x q | p y q].
  - apply selfc_app in Ha. destruct Ha as [Hp Hq]. apply selfc_cons in Hq. destruct Hq as [_ Hq].
    exists (length p + length q). split.
    + replace (S (length p + length q)) with (length p + S (length q)) by lia.
      apply ali_app; [apply ali_same; exact Hp | apply A_mism; apply ali_same; exact Hq].
    + rewrite !app_length. cbn [length]. lia.
  - apply selfc_app in Hb. destruct Hb as [Hp Hq].
    exists (length p + length q). split.
    + replace (S (length p + length q)) with (length p + S (length q)) by lia.
      apply ali_app; [apply ali_same; exact Hp | apply A_gap_b; apply ali_same; exact Hq].
    + rewrite !app_length. cbn [length]. lia.
  - apply selfc_app in Ha. destruct Ha as [Hp Hq].
    exists (length p + length q). split.
    + replace (S (length p + length q)) with (length p + S (length q)) by lia.
      apply ali_app; [apply ali_same; exact Hp | apply A_gap_a; apply ali_same; exact Hq].
    + rewrite !app_length. cbn [length]. lia.
Qed.

Lemma exact2_cons : forall x a y b, exact2 (x :: a) (y :: b) -> exact2 a b.
Proof. intros x a y b H u v Hu Hv. apply H; right; assumption. Qed.
Lemma exact2_cons_l : forall x a b, exact2 (x :: a) b -> exact2 a b.
Proof. intros x a b H u v Hu Hv. apply H; [right |]; assumption. Qed.
Lemma exact2_cons_r : forall a y b, exact2 a (y :: b) -> exact2 a b.
Proof. intros a y b H u v Hu Hv. apply H; [| right]; assumption. Qed.

(** an alignment whose columns all match, between sequences whose matching symbols are equal: the sequences are equal *)
Lemma ali_diff0 : forall a b s l, ali a b s l -> exact2 a b -> l = s -> a = b.
Proof.
  intros a b s l H. induction H as [| x y a b s l M H IH | x y a b s l H IH | x a b s l H IH | y a b s l H IH];
    intros Hex E.
  - reflexivity.
  - f_equal; [apply Hex; [left; reflexivity | left; reflexivity | exact M] |].
    apply IH; [eapply exact2_cons; exact Hex | lia].
  - apply ali_bounds in H. lia.
  - apply ali_bounds in H. lia.
  - apply ali_bounds in H. lia.
Qed.

(** ... and with exactly one column that does not match: equal, or one edit apart *)
Lemma ali_diff1 : forall a b s l, ali a b s l -> exact2 a b -> l = S s -> a = b \/ edit1 a b.
Proof.
  intros a b s l H. induction H as [| x y a b s l M H IH | x y a b s l H IH | x a b s l H IH | y a b s l H IH];
    intros Hex E.
  - discriminate.
  - assert (x = y) as -> by (apply Hex; [left; reflexivity | left; reflexivity | exact M]).
    destruct (IH (exact2_cons _ _ _ _ Hex) ltac:(lia)) as [-> | He]; [left; reflexivity | right; apply edit1_cons; exact He].
  - assert (a = b) as -> by (eapply ali_diff0; [exact H | eapply exact2_cons; exact Hex | lia]).
    destruct (N.eq_dec x y) as [-> | Hne]; [left; reflexivity | right; exact (E_sub [] x y b Hne)].
  - assert (a = b) as -> by (eapply ali_diff0; [exact H | eapply exact2_cons_l; exact Hex | lia]).
    right. exact (E_del [] x b).
  - assert (a = b) as -> by (eapply ali_diff0; [exact H | eapply exact2_cons_r; exact Hex | lia]).
    right. exact (E_ins [] y b).
Qed.

(** differences of the reference pair: shortest length - matches *)
Definition rdiff (a b : list N) : Z := (Z.of_nat (snd (lcs_ref a b)) - Z.of_nat (fst (lcs_ref a b)))%Z.

(** D1Or0 never under-estimates: when it answers d = 0 or 1 on sequences of self-compatible symbols (any IUPAC codes),
    the reference pair has the length L of the longer sequence and at least L - d matches. *)
Lemma shortcut_sound : forall a b, selfc a -> selfc b ->
  (verdict (d1or0 a b) = 0%Z -> lcs_ref a b = (length a, length a) /\ length a = length b) /\
  (verdict (d1or0 a b) = 1%Z ->
     let L := Nat.max (length a) (length b) in 1 <= L /\ (lcs_ref a b = (L, L) \/ lcs_ref a b = (L - 1, L))).
Proof.
  intros a b Ha Hb. split.
  - intro V. apply d1or0_zero in V. subst b. split; [| reflexivity].
    pose proof (lcs_ref_optimal a a _ _ (ali_same a Ha)) as O.
    pose proof (ali_bounds _ _ _ _ (lcs_ref_achieved a a)) as B.
    destruct (lcs_ref a a) as [s l]. unfold le2 in O. cbn [fst snd] in *. f_equal; lia.
  - intro V. apply d1or0_one_sound in V. destruct V as [He _].
    destruct (edit1_ali a b Ha Hb He) as (s0 & A0 & E0).
    pose proof (lcs_ref_optimal a b _ _ A0) as O.
    pose proof (ali_bounds _ _ _ _ (lcs_ref_achieved a b)) as B.
    pose proof (ali_bounds _ _ _ _ A0) as B0.
    cbv zeta. destruct (lcs_ref a b) as [s l]. unfold le2 in O. cbn [fst snd] in *.
    split; [lia |]. destruct (Nat.eq_dec s (S s0)) as [Es | Es]; [left | right]; f_equal; lia.
Qed.

(** On sequences whose matching symbols are equal (plain a, c, g, t) the two kernels agree on the classes 0, 1, more:
    D1Or0 answers d in {0, 1} exactly when the reference pair is (L - d, L), and -1 exactly when it has at least two
    differences. *)
Lemma shortcut_exact : forall a b, selfc a -> selfc b -> exact2 a b ->
  let L := Nat.max (length a) (length b) in
  (verdict (d1or0 a b) = 0%Z <-> rdiff a b = 0%Z) /\
  (verdict (d1or0 a b) = 1%Z <-> rdiff a b = 1%Z) /\
  (verdict (d1or0 a b) = (-1)%Z <-> (2 <= rdiff a b)%Z) /\
  (verdict (d1or0 a b) = 0%Z -> lcs_ref a b = (L, L)) /\
  (verdict (d1or0 a b) = 1%Z -> lcs_ref a b = (L - 1, L)).
Proof.
  intros a b Ha Hb Hex. cbv zeta.
  destruct (shortcut_sound a b Ha Hb) as [S0 S1]. cbv zeta in S1.
  pose proof (lcs_ref_achieved a b) as A. pose proof (ali_bounds _ _ _ _ A) as B.
  assert (D0 : rdiff a b = 0%Z -> a = b).
  { unfold rdiff. intro E. eapply ali_diff0; [exact A | exact Hex | lia]. }
  assert (D1 : rdiff a b = 1%Z -> a = b \/ edit1 a b).
  { unfold rdiff. intro E. eapply ali_diff1; [exact A | exact Hex | lia]. }
  assert (Z0 : verdict (d1or0 a b) = 0%Z <-> rdiff a b = 0%Z).
  { split.
    - intro V. destruct (S0 V) as [E _]. unfold rdiff. rewrite E. cbn [fst snd]. lia.
    - intro E. apply d1or0_zero. apply D0. exact E. }
  assert (Z1 : verdict (d1or0 a b) = 1%Z <-> rdiff a b = 1%Z).
  { split.
    - intro V. destruct (S1 V) as [HL [E | E]].
      + exfalso. assert (V0 : verdict (d1or0 a b) = 0%Z) by (apply Z0; unfold rdiff; rewrite E; cbn [fst snd]; lia).
        rewrite V in V0. discriminate.
      + unfold rdiff. rewrite E. cbn [fst snd]. rewrite E in B. cbn [fst snd] in B. lia.
    - intro E. destruct (D1 E) as [Eq | He].
      + exfalso. apply d1or0_zero in Eq. apply Z0 in Eq. lia.
      + apply d1or0_one_complete. exact He. }
  split; [exact Z0 |]. split; [exact Z1 |]. split; [| split].
  - assert (P : (0 <= rdiff a b)%Z) by (unfold rdiff; lia).
    destruct (d1or0_verdicts a b) as [V | [V | V]]; rewrite V; split; intro H; try discriminate; try reflexivity.
    + apply Z0 in V. lia.
    + apply Z1 in V. lia.
    + destruct (Z.eq_dec (rdiff a b) 0) as [E0 | N0]; [apply Z0 in E0; rewrite V in E0; discriminate |].
      destruct (Z.eq_dec (rdiff a b) 1) as [E1 | N1]; [apply Z1 in E1; rewrite V in E1; discriminate |]. lia.
  - intro V. destruct (S0 V) as [E El]. rewrite E. f_equal; lia.
  - intro V. destruct (S1 V) as [HL [E | E]]; [| exact E].
    exfalso. assert (V0 : verdict (d1or0 a b) = 0%Z) by (apply Z0; unfold rdiff; rewrite E; cbn [fst snd]; lia).
    rewrite V in V0. discriminate.
Qed.

(** The callers' shortcut for the bounds 0 and 1 gives what FastLCSScore gives (plain sequences, |a| + |b| <= 30000, any
    scratch buffer): with d = D1Or0's verdict, FastLCSScore(a, b, m) is (L - d, L) when 0 <= d <= m, and otherwise
    'not found' or a pair beyond the bound. *)
Lemma shortcut_kernel : forall a b m init, selfc a -> selfc b -> exact2 a b ->
  (Z.of_nat (length a) + Z.of_nat (length b) <= 30000)%Z -> (m = 0 \/ m = 1)%Z ->
  let L := Z.of_nat (Nat.max (length a) (length b)) in
  let d := verdict (d1or0 a b) in
  ((0 <= d <= m)%Z -> fast_lcs_score a b m init = (L - d, L)%Z) /\
  ((d = -1 \/ m < d)%Z ->
     fast_lcs_score a b m init = (-1, -1)%Z \/
     (0 <= fst (fast_lcs_score a b m init) /\ m < snd (fast_lcs_score a b m init) - fst (fast_lcs_score a b m init))%Z).
Proof.
  intros a b m init Ha Hb Hex Hs Hm. cbv zeta.
  destruct (shortcut_exact a b Ha Hb Hex) as (Z0 & Z1 & Zm & V0 & V1). cbv zeta in V0, V1.
  pose proof (band_exact a b m init Hs) as [W B]. fold (rdiff a b) in W, B.
  pose proof (ali_bounds _ _ _ _ (lcs_ref_achieved a b)) as Bd.
  destruct (fast_lcs_score a b m init) as [s l]. cbn [fst snd] in *. split.
  - intros Hd. destruct (d1or0_verdicts a b) as [V | [V | V]].
    + pose proof (proj1 Z0 V) as R. destruct W as [Es El]; [right; lia |].
      rewrite (V0 V) in Es, El. cbn [fst snd] in Es, El. rewrite V. f_equal; lia.
    + pose proof (proj1 Z1 V) as R. rewrite V in Hd. destruct W as [Es El]; [right; lia |].
      unfold rdiff in R. rewrite (V1 V) in Es, El, R. cbn [fst snd] in Es, El, R. rewrite V. f_equal; lia.
    + rewrite V in Hd. lia.
  - intros Hd. destruct B as [[Es El] | Bb].
    + split; [lia |]. destruct (d1or0_verdicts a b) as [V | [V | V]].
      * rewrite V in Hd. lia.
      * pose proof (proj1 Z1 V) as R. rewrite V in Hd. lia.
      * pose proof (proj1 Zm V) as R. lia.
    + left. f_equal; lia.
    + right. exact Bb.
Qed.

(** ... and it does NOT on ambiguous symbols: a base facing an ambiguity code that contains it is a difference for D1Or0
    and a match for the LCS kernel (obitag and obirefidx reach this when a reference carries an ambiguity code and the
    bound has shrunk to 0 or 1: the distance they record is 1, FastLCSScore would have given 0). *)
Lemma shortcut_ambiguity_witness : exists a b, selfc a /\ selfc b /\
  verdict (d1or0 a b) = 1%Z /\ lcs_ref a b = (length a, length a) /\
  fast_lcs_score a b 1 [] = (Z.of_nat (length a), Z.of_nat (length a)) /\
  fast_lcs_score a b 0 [] = (Z.of_nat (length a), Z.of_nat (length a)).
Proof.
  exists [97; 99; 103; 116; 97]%N, [97; 99; 110; 116; 97]%N.
  split; [intros x Hx; cbn in Hx; repeat (destruct Hx as [<- | Hx]; [vm_compute; reflexivity |]); contradiction |].
  split; [intros x Hx; cbn in Hx; repeat (destruct Hx as [<- | Hx]; [vm_compute; reflexivity |]); contradiction |].
  repeat split; vm_compute; reflexivity.
Qed.

(** plain bases: lower-case a, c, g, t *)
Lemma nucs_selfc : forall a, over nucs a -> selfc a.
Proof.
  intros a H x Hx. apply H in Hx. cbn in Hx.
  repeat (destruct Hx as [<- | Hx]; [vm_compute; reflexivity |]). contradiction.
Qed.
Lemma nucs_exact2 : forall a b, over nucs a -> over nucs b -> exact2 a b.
Proof.
  intros a b Ha Hb x y Hx Hy. apply Ha in Hx. apply Hb in Hy. cbn in Hx, Hy.
  repeat (destruct Hx as [<- | Hx]; [repeat (destruct Hy as [<- | Hy]; [vm_compute; intro M; first [reflexivity | discriminate M] |]); contradiction |]).
  contradiction.
Qed.
