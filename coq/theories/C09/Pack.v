(** C09 — packed cells of fastlcs.go: arithmetic meaning of enc/dec/incpath/incscore/setout and the word order. *)
From Coq Require Import NArith ZArith List Bool Lia.
Import ListNotations.
From OBI.C09 Require Import Model.
Open Scope N_scope.
Ltac Zify.zify_post_hook ::= Z.div_mod_to_equations.


Lemma testbit_small : forall lo n k, lo < 2 ^ n -> n <= k -> N.testbit lo k = false.
Proof.
  intros lo n k Hlo Hk. rewrite <- (N.mod_small lo (2 ^ n)) by exact Hlo.
  apply N.mod_pow2_bits_high. exact Hk.
Qed.

Lemma land_hi_lo : forall hi lo n, lo < 2 ^ n -> N.land (hi * 2 ^ n) lo = 0.
Proof.
  intros hi lo n Hlo. apply N.bits_inj. intro k. rewrite N.land_spec, N.bits_0.
  destruct (N.lt_ge_cases k n) as [Hk | Hk].
  - rewrite N.mul_pow2_bits_low by exact Hk. reflexivity.
  - rewrite (testbit_small lo n k Hlo Hk). apply andb_false_r.
Qed.

Lemma lor_add : forall hi lo n, lo < 2 ^ n -> N.lor (hi * 2 ^ n) lo = hi * 2 ^ n + lo.
Proof.
  intros hi lo n Hlo. pose proof (land_hi_lo hi lo n Hlo) as H0.
  rewrite (N.add_nocarry_lxor _ _ H0). symmetry. apply N.lxor_lor. exact H0.
Qed.

Lemma land_lxor_mask : forall V m, N.land (N.lxor V m) m = N.land (N.lxor (N.land V m) m) m.
Proof.
  intros V m. apply N.bits_inj. intro k.
  rewrite !N.land_spec, !N.lxor_spec, N.land_spec.
  destruct (N.testbit V k), (N.testbit m k); reflexivity.
Qed.

Lemma lxor_ones16 : forall V, N.land (N.lxor V 65535) 65535 = 65535 - V mod 65536.
Proof.
  intro V. rewrite land_lxor_mask.
  assert (E : N.land V 65535 = V mod 65536).
  { change 65535 with (N.ones 16). rewrite N.land_ones. reflexivity. }
  rewrite E.
  assert (Hlt : V mod 65536 < 65536) by (apply N.mod_lt; discriminate).
  set (x := V mod 65536) in *.
  assert (Hlog : N.log2 x < 16).
  { destruct (N.eq_dec x 0) as [-> | Hx]; [reflexivity |].
    apply N.log2_lt_pow2; [lia | exact Hlt]. }
  pose proof (N.lnot_sub_low x 16 Hlog) as Hn. unfold N.lnot in Hn.
  change (N.ones 16) with 65535 in Hn. rewrite Hn.
  change 65535 with (N.ones 16) at 2. rewrite N.land_ones.
  change (2 ^ 16) with 65536. apply N.mod_small. lia.
Qed.

Lemma land_pow2 : forall a n, N.land a (2 ^ n) = if N.testbit a n then 2 ^ n else 0.
Proof.
  intros a n. apply N.bits_inj. intro k. rewrite N.land_spec, N.pow2_bits_eqb.
  destruct (N.eqb_spec n k) as [-> | Hne].
  - destruct (N.testbit a k); [rewrite N.pow2_bits_true | rewrite N.bits_0]; rewrite ?andb_true_r; reflexivity.
  - rewrite andb_false_r. destruct (N.testbit a n); [rewrite N.pow2_bits_false by exact Hne | rewrite N.bits_0]; reflexivity.
Qed.

(** arithmetic value of a packed word *)
Definition val (s l : N) (o : bool) : N := (if o then 0 else 4294967296) + s * 65536 + (65534 - l).

Lemma enc_val : forall s l o, s < 65536 -> l <= 65534 -> enc s l o = val s l o.
Proof.
  intros s l o Hs Hl. unfold enc, val, mask16, outbit, W64.
  change 65535 with (N.ones 16). rewrite N.land_ones. change (2 ^ 16) with 65536.
  assert (E1 : (s * 65536) mod 18446744073709551616 = s * 65536) by (apply N.mod_small; lia).
  assert (E2 : (18446744073709551616 - 2 - l) mod 65536 = 65534 - l).
  { replace (18446744073709551616 - 2 - l) with ((65534 - l) + 281474976710655 * 65536) by lia.
    rewrite N.mod_add by discriminate. apply N.mod_small. lia. }
  rewrite E1, E2.
  assert (E3 : N.lor (s * 65536) (65534 - l) = s * 65536 + (65534 - l)).
  { change 65536 with (2 ^ 16). apply lor_add. change (2 ^ 16) with 65536. lia. }
  rewrite E3. destruct o; [lia |].
  rewrite N.lor_comm. change 4294967296 with (1 * 2 ^ 32). rewrite lor_add; [lia |].
  change (2 ^ 32) with 4294967296. lia.
Qed.

Lemma divmod_hi_lo : forall hi lo n, lo < n -> (hi * n + lo) / n = hi /\ (hi * n + lo) mod n = lo.
Proof.
  intros hi lo n H. assert (n <> 0) by lia. split.
  - rewrite N.add_comm, N.div_add by assumption. rewrite N.div_small by assumption. reflexivity.
  - rewrite N.add_comm, N.mod_add by assumption. apply N.mod_small. assumption.
Qed.

Lemma dec_val : forall s l o, s < 65536 -> l <= 65534 -> dec (val s l o) = (s, l, o).
Proof.
  intros s l o Hs Hl. unfold dec, mask16, outbit, W64.
  rewrite lxor_ones16. rewrite N.shiftr_div_pow2. change 65535 with (N.ones 16) at 1.
  rewrite N.land_ones. change (2 ^ 16) with 65536.
  change 4294967296 with (2 ^ 32) at 1. rewrite land_pow2, N.testbit_eqb. change (2 ^ 32) with 4294967296.
  set (f := if o then 0 else 1).
  assert (Hf : f < 2) by (unfold f; destruct o; lia).
  assert (Ev : val s l o = (f * 65536 + s) * 65536 + (65534 - l)) by (unfold val, f; destruct o; lia).
  assert (Ev1 : val s l o + 1 = (f * 65536 + s) * 65536 + (65535 - l)) by lia.
  assert (Ev2 : val s l o = f * 4294967296 + (s * 65536 + (65534 - l))) by lia.
  assert (E1 : val s l o / 65536 mod 65536 = s).
  { rewrite Ev. destruct (divmod_hi_lo (f * 65536 + s) (65534 - l) 65536) as [-> _]; [lia |].
    destruct (divmod_hi_lo f s 65536 Hs) as [_ ->]. reflexivity. }
  assert (E2 : 65535 - ((val s l o + 1) mod 18446744073709551616) mod 65536 = l).
  { rewrite (N.mod_small (val s l o + 1)) by (rewrite Ev1; lia). rewrite Ev1.
    destruct (divmod_hi_lo (f * 65536 + s) (65535 - l) 65536) as [_ ->]; lia. }
  assert (E3 : (val s l o / 4294967296) mod 2 = f).
  { rewrite Ev2. destruct (divmod_hi_lo f (s * 65536 + (65534 - l)) 4294967296) as [-> _]; [lia |].
    apply N.mod_small. exact Hf. }
  rewrite E1, E2, E3. unfold f. destruct o; reflexivity.
Qed.

Lemma dec_enc : forall s l o, s < 65536 -> l <= 65534 -> dec (enc s l o) = (s, l, o).
Proof. intros s l o Hs Hl. rewrite enc_val by assumption. apply dec_val; assumption. Qed.

Lemma incpath_enc : forall s l o, s < 65536 -> l < 65534 -> incpath (enc s l o) = enc s (l + 1) o.
Proof.
  intros s l o Hs Hl. rewrite !enc_val by lia. unfold incpath, val.
  destruct (N.eqb_spec ((if o then 0 else 4294967296) + s * 65536 + (65534 - l)) 0) as [E | E]; destruct o; lia.
Qed.

Lemma incscore_enc : forall s l o, s < 65535 -> l <= 65534 -> incscore (enc s l o) = enc (s + 1) l o.
Proof.
  intros s l o Hs Hl. rewrite !enc_val by lia. unfold incscore, val, W64.
  rewrite N.mod_small; destruct o; lia.
Qed.

Lemma setout_enc : forall s l o, s < 65536 -> l <= 65534 -> setout (enc s l o) = enc s l true.
Proof.
  intros s l o Hs Hl. rewrite !enc_val by lia. unfold setout, val, W64, outbit.
  set (w := s * 65536 + (65534 - l)).
  assert (Hw : w < 2 ^ 32) by (change (2 ^ 32) with 4294967296; unfold w; lia).
  change (18446744073709551616 - 1 - 4294967296) with (4294967294 * 2 ^ 32 + 4294967295).
  assert (EC : 4294967294 * 2 ^ 32 + 4294967295 = N.lor (4294967294 * 2 ^ 32) (N.ones 32)).
  { rewrite lor_add; [reflexivity | reflexivity]. }
  assert (Ew : N.land w (4294967294 * 2 ^ 32 + 4294967295) = w).
  { rewrite EC, N.land_lor_distr_r. rewrite (N.land_comm w (4294967294 * 2 ^ 32)), land_hi_lo by exact Hw.
    rewrite N.lor_0_l, N.land_ones. apply N.mod_small. exact Hw. }
  destruct o.
  - replace (0 + s * 65536 + (65534 - l)) with w by (unfold w; lia). exact Ew.
  - replace (4294967296 + s * 65536 + (65534 - l)) with (1 * 2 ^ 32 + w) by (unfold w; change (2 ^ 32) with 4294967296; lia).
    rewrite <- lor_add by exact Hw. rewrite N.land_lor_distr_l, Ew.
    replace (0 + s * 65536 + (65534 - l)) with w by (unfold w; lia).
    assert (E0 : N.land (1 * 2 ^ 32) (4294967294 * 2 ^ 32 + 4294967295) = 0) by reflexivity.
    rewrite E0. apply N.lor_0_l.
Qed.

(** word order = lexicographic order on (in band, score, shorter path) *)
Lemma enc_lt : forall s l o s' l' o', s < 65536 -> l <= 65534 -> s' < 65536 -> l' <= 65534 ->
  (enc s l o < enc s' l' o' <->
   (o = true /\ o' = false) \/ (o = o' /\ (s < s' \/ (s = s' /\ l' < l)))).
Proof.
  intros s l o s' l' o' Hs Hl Hs' Hl'. rewrite !enc_val by assumption. unfold val.
  destruct o, o'; split; intro H;
    try (destruct H as [[H1 H2] | [H1 H2]]; try discriminate; lia);
    try (left; split; reflexivity);
    try (right; split; [reflexivity | lia]).
  all: exfalso; lia.
Qed.

Lemma enc_inj : forall s l o s' l' o', s < 65536 -> l <= 65534 -> s' < 65536 -> l' <= 65534 ->
  enc s l o = enc s' l' o' -> s = s' /\ l = l' /\ o = o'.
Proof.
  intros s l o s' l' o' Hs Hl Hs' Hl' H.
  pose proof (dec_enc s l o Hs Hl) as D1. pose proof (dec_enc s' l' o' Hs' Hl') as D2.
  rewrite H in D1. rewrite D1 in D2. inversion D2. auto.
Qed.

(** the literals of the model are the constants of the build under test (Gen/Tables.v, regenerated on every run):
    wsize, dwsize, the masks derived from them, the three constant cells, and encodeValues / decodeValues on the
    dumped sample points *)
From OBI.C09.Gen Require Import Tables.
Definition enc_sample_ok (e : N * N * bool * N) : bool := let '(s, l, o, w) := e in enc s l o =? w.
Definition dec_sample_ok (e : N * (N * N * bool)) : bool :=
  let '(w, (s, l, o)) := e in let '(s', l', o') := dec w in (s' =? s) && (l' =? l) && Bool.eqb o' o.
Lemma pack_consts :
  wsize_gen = 16 /\ dwsize_gen = 32 /\ mask16 = 2 ^ wsize_gen - 1 /\ outbit = 2 ^ dwsize_gen /\
  65536 = 2 ^ wsize_gen /\ W64 - 1 - outbit = N.lxor (W64 - 1) (2 ^ dwsize_gen) /\
  c_empty = empty_gen /\ c_out = out_gen /\ c_notavail = notavail_gen /\
  forallb enc_sample_ok enc_samples = true /\ forallb dec_sample_ok dec_samples = true.
Proof. vm_compute. repeat split; reflexivity. Qed.

(** the two accessors without a caller, _isout and _lpath: they are the third and the second component of decodeValues
    for every word, hence invert encodeValues on in-range fields; and the model's transcriptions agree with the build
    under test on the dumped sample words (Gen/Tables.v) *)
Definition acc_sample_ok (e : N * bool * N) : bool :=
  let '(w, io, lp) := e in Bool.eqb (isout w) io && (lpath w =? lp).
Lemma pack_accessors :
  (forall v, dec v = (N.land (N.shiftr v 16) mask16, lpath v, isout v)) /\
  (forall s l o, s < 65536 -> l <= 65534 -> isout (enc s l o) = o /\ lpath (enc s l o) = l) /\
  forallb acc_sample_ok acc_samples = true.
Proof.
  split; [reflexivity |]. split; [| vm_compute; reflexivity].
  intros s l o Hs Hl. pose proof (dec_enc s l o Hs Hl) as H.
  change (dec (enc s l o)) with (N.land (N.shiftr (enc s l o) 16) mask16, lpath (enc s l o), isout (enc s l o)) in H.
  injection H as _ H2 H3. split; assumption.
Qed.

(** the side condition of incscore_enc is necessary: the 65536th match carries out of the score field into the
    in-band flag - the cell becomes an "out" cell with score 0 (the mechanism of the known finding lcs-16bit-fields) *)
Lemma score_field_overflow : exists s l, s = 65535 /\ l <= 65534 /\
  incscore (enc s l false) <> enc (s + 1) l false /\ dec (incscore (enc s l false)) = (0, l, true).
Proof. exists 65535, 10. split; [reflexivity |]. split; [discriminate |]. split; [vm_compute; discriminate | vm_compute; reflexivity]. Qed.
