(** C09 — the band theorem for the end-gap-free mode (FastLCSEGFScore, endgapfree = true), layers (ii)-(iv): the banded
    matrix of the mode against the prefix form of the reference egf_ref. Completeness condition on a cell: the number
    of symbols of B its optimum leaves unmatched, plus the excess of its diagonal over the final diagonal, is below
    2*extra (free horizontal moves cost nothing, so the differences of the optimum are the wrong measure here). *)
From Coq Require Import NArith ZArith List Bool Lia.
Import ListNotations.
From OBI.C09 Require Import Model Pack Ref RefSym BandM BandE EgfRef.
Open Scope Z_scope.
Ltac Zify.zify_post_hook ::= Z.div_mod_to_equations.

Section LayerE.
  Variables (bA bB : list N) (extra : Z).
  Hypothesis Hle : zlen bB <= zlen bA.
  Hypothesis Hsmall : zlen bA + zlen bB <= 30000.
  Local Notation lA := (zlen bA).
  Local Notation lB := (zlen bB).
  Let even := 1 + (lA - lB) + 2 * extra.
  Let M := bmat true bA bB lB extra even.

  (** the unbanded end-gap-free DP on prefixes: horizontal moves are free in row 0 and in row |B| *)
  Definition Fe (i j : Z) : nat * nat :=
    egf_ref (rev (firstn (Z.to_nat j) bA)) (rev (firstn (Z.to_nat i) bB)) (negb (i =? lB)).

  Lemma Fe_row0 : forall j, 0 <= j <= lA -> Fe 0 j = (0%nat, 0%nat).
  Proof. intros j H. unfold Fe. cbn [Z.to_nat firstn rev]. apply egf_ref_nil_r. Qed.
  Lemma Fe_col0 : forall i, 0 <= i <= lB -> Fe i 0 = (0%nat, Z.to_nat i).
  Proof. intros i H. unfold Fe. cbn [Z.to_nat firstn rev]. rewrite egf_ref_nil_l, (len_pre bA bB extra bB i H). reflexivity. Qed.

  Lemma Fe_rec : forall i j, 1 <= i <= lB -> 1 <= j <= lA ->
    Fe i j = best (stepm (samenuc (get bA (j - 1)) (get bB (i - 1))) (Fe (i - 1) (j - 1)))
                  (best (step1 (Fe (i - 1) j)) (if i <? lB then step1 (Fe i (j - 1)) else Fe i (j - 1))).
  Proof.
    intros i j Hi Hj. unfold Fe at 1. rewrite (pre_cons bA bB extra bA j Hj), (pre_cons bA bB extra bB i Hi), egf_ref_cons.
    unfold Fe. rewrite <- (pre_cons bA bB extra bA j Hj), <- (pre_cons bA bB extra bB i Hi).
    replace (negb (i - 1 =? lB)) with true by (symmetry; apply negb_true_iff; apply Z.eqb_neq; lia).
    destruct (Z.ltb_spec i lB) as [L | L].
    - replace (negb (i =? lB)) with true by (symmetry; apply negb_true_iff; apply Z.eqb_neq; lia). reflexivity.
    - replace (negb (i =? lB)) with false by (symmetry; apply negb_false_iff; apply Z.eqb_eq; lia). reflexivity.
  Qed.

  Lemma Fe_bounds : forall i j, rect bA bB i j ->
    Z.of_nat (fst (Fe i j)) + Z.of_nat (snd (Fe i j)) <= i + j /\ i <= Z.of_nat (snd (Fe i j)) /\
    Z.of_nat (fst (Fe i j)) <= i /\ Z.of_nat (fst (Fe i j)) <= j.
  Proof.
    intros i j [Hi Hj]. unfold Fe.
    pose proof (egf_ref_bounds (rev (firstn (Z.to_nat j) bA)) (rev (firstn (Z.to_nat i) bB)) (negb (i =? lB))) as H.
    rewrite !(len_pre bA bB extra) in H by assumption. lia.
  Qed.

  Definition inbE (w : N) (i j : Z) : Prop :=
    exists s l : nat, w = enc (N.of_nat s) (N.of_nat l) false /\
      Z.of_nat s + Z.of_nat l <= i + j /\ i <= Z.of_nat l /\ Z.of_nat s <= i /\ le2 (s, l) (Fe i j).
  Definition goodE (w : N) (i j : Z) : Prop := inbE w i j \/ outb w i j.

  (** completeness condition of a cell *)
  Definition condE (i j : Z) : Prop :=
    (i - Z.of_nat (fst (Fe i j))) + Z.max 0 ((j - i) - (lA - lB)) < 2 * extra.

  Definition encFe (i j : Z) : N := enc (N.of_nat (fst (Fe i j))) (N.of_nat (snd (Fe i j))) false.

  Lemma condE_interior : forall i j, rect bA bB i j -> condE i j -> 0 < j - i + 2 * extra < 2 * (even - 1).
  Proof. intros i j R C. pose proof (Fe_bounds i j R). unfold rect in R. unfold condE in C. unfold even. lia. Qed.

  Lemma goodE_diag : forall i j w, 1 <= i <= lB -> 1 <= j <= lA -> goodE w (i - 1) (j - 1) ->
    goodE (stepw_diag (samenuc (get bA (j - 1)) (get bB (i - 1))) w) i j.
  Proof.
    intros i j w Hi Hj [[s [l [E [B1 [B2 [B3 L]]]]]] | [O1 O2]].
    - left. subst w. rewrite enc_stepm by lia.
      exists (fst (stepm (samenuc (get bA (j - 1)) (get bB (i - 1))) (s, l))), (snd (stepm (samenuc (get bA (j - 1)) (get bB (i - 1))) (s, l))).
      split; [reflexivity |]. rewrite <- surjective_pairing.
      split; [| split; [| split]].
      4:{ rewrite Fe_rec by assumption. eapply le2_trans; [apply stepm_mono; exact L | apply best_l]. }
      all: unfold stepm; destruct (samenuc _ _); cbn [fst snd]; lia.
    - right. unfold outb, stepw_diag in *. rewrite incpath_pos by lia.
      destruct (samenuc _ _).
      + rewrite incscore_small by (unfold W64; lia). lia.
      + lia.
  Qed.

  Lemma goodE_up : forall i j w, 1 <= i <= lB -> 1 <= j <= lA -> goodE w (i - 1) j -> goodE (incpath w) i j.
  Proof.
    intros i j w Hi Hj [[s [l [E [B1 [B2 [B3 L]]]]]] | [O1 O2]].
    - left. subst w. rewrite enc_step1 by lia. exists (fst (step1 (s, l))), (snd (step1 (s, l))).
      split; [reflexivity |]. rewrite <- surjective_pairing. unfold step1 at 1 2 3 4. cbn [fst snd].
      split; [lia |]. split; [lia |]. split; [lia |].
      rewrite Fe_rec by assumption. eapply le2_trans; [apply step1_mono; exact L |].
      eapply le2_trans; [apply best_l | apply best_r].
    - right. unfold outb in *. rewrite incpath_pos by lia. lia.
  Qed.

  Lemma goodE_left : forall i j w, 1 <= i <= lB -> 1 <= j <= lA -> goodE w i (j - 1) ->
    goodE (if i <? lB then incpath w else w) i j.
  Proof.
    intros i j w Hi Hj G. pose proof (Fe_rec i j Hi Hj) as FR.
    destruct (Z.ltb_spec i lB) as [Lt | Lt]; destruct G as [[s [l [E [B1 [B2 [B3 L]]]]]] | [O1 O2]].
    - left. subst w. rewrite enc_step1 by lia. exists (fst (step1 (s, l))), (snd (step1 (s, l))).
      split; [reflexivity |]. rewrite <- surjective_pairing. unfold step1 at 1 2 3 4. cbn [fst snd].
      split; [lia |]. split; [lia |]. split; [lia |].
      rewrite FR. eapply le2_trans; [apply step1_mono; exact L |].
      eapply le2_trans; [apply best_r | apply best_r].
    - right. unfold outb in *. rewrite incpath_pos by lia. lia.
    - left. exists s, l. split; [exact E |]. split; [lia |]. split; [lia |]. split; [lia |].
      rewrite FR. eapply le2_trans; [exact L |]. eapply le2_trans; [apply best_r | apply best_r].
    - right. unfold outb in *. lia.
  Qed.

  Lemma goodE_cout : forall i j, 0 <= i -> 0 <= j -> goodE c_out i j.
  Proof. intros i j Hi Hj. right. unfold outb. change (Z.of_N c_out) with 35534. lia. Qed.

  Lemma goodE_max : forall a b i j, goodE a i j -> goodE b i j -> goodE (N.max a b) i j.
  Proof. intros a b i j Ha Hb. destruct (N.max_spec a b) as [[_ ->] | [_ ->]]; assumption. Qed.

  Lemma goodE_setout : forall w i j, rect bA bB i j -> goodE w i j -> goodE (setout w) i j.
  Proof.
    intros w i j [Ri Rj] [[s [l [E [B1 [B2 [B3 L]]]]]] | [O1 O2]]; right; unfold outb in *.
    - subst w. rewrite setout_enc by lia. rewrite enc_val by lia. unfold val. lia.
    - rewrite setout_small by lia. lia.
  Qed.

  Lemma goodE_ge_F : forall w i j, rect bA bB i j -> goodE w i j -> (encFe i j <= w)%N -> w = encFe i j.
  Proof.
    intros w i j R G H. pose proof (Fe_bounds i j R) as FB. unfold rect in R. unfold encFe in *.
    destruct G as [[s [l [E [B1 [B2 [B3 L]]]]]] | [O1 O2]].
    - subst w. destruct (Fe i j) as [fs fl] eqn:EF. cbn [fst snd] in *.
      unfold le2 in L. cbn [fst snd] in L.
      assert (s = fs /\ l = fl) as [-> ->]; [| reflexivity].
      destruct (Nat.eq_dec s fs) as [Es | Es]; [destruct (Nat.eq_dec l fl) as [El | El]; [auto |] |]; exfalso.
      + assert (X : (enc (N.of_nat s) (N.of_nat l) false < enc (N.of_nat fs) (N.of_nat fl) false)%N).
        { apply enc_lt; [lia | lia | lia | lia |]. right. split; [reflexivity | lia]. }
        lia.
      + assert (X : (enc (N.of_nat s) (N.of_nat l) false < enc (N.of_nat fs) (N.of_nat fl) false)%N).
        { apply enc_lt; [lia | lia | lia | lia |]. right. split; [reflexivity | lia]. }
        lia.
    - exfalso. unfold outb in *. rewrite enc_val in H by lia. unfold val in H. lia.
  Qed.

  Definition PcellE (i j : Z) : Prop := goodE (M i j) i j /\ (condE i j -> M i j = encFe i j).

  Lemma cellE_step : forall i j, rect bA bB i j -> inband bA bB extra i j ->
    (forall i' j', rect bA bB i' j' -> inband bA bB extra i' j' -> i' + j' < i + j -> PcellE i' j') -> PcellE i j.
  Proof.
    intros i j R B IH. pose proof R as [Ri Rj]. unfold inband in B. fold even in B.
    set (x2 := j - i + 2 * extra) in *.
    assert (HU : exists U, M i j = (if (x2 =? 0) || (x2 =? 2 * (even - 1)) then setout U else U) /\
                           goodE U i j /\ (condE i j -> U = encFe i j)).
    { unfold M. rewrite M_rec by lia. fold M. unfold mcell, mtriple. fold x2.
      destruct (Z.eqb_spec i 0) as [Ei | Ei]; [| destruct (Z.eqb_spec j 0) as [Ej | Ej]].
      - exists (enc 0 0 false). rewrite !notavail_le by lia. split; [reflexivity |].
        assert (EF : encFe i j = enc 0 0 false).
        { unfold encFe. subst i. rewrite Fe_row0 by lia. reflexivity. }
        split; [| intros _; symmetry; exact EF].
        left. exists 0%nat, 0%nat. subst i. rewrite Fe_row0 by lia.
        split; [reflexivity |]. split; [lia |]. split; [lia |]. split; [lia | apply le2_refl].
      - exists (enc 0 (Z.to_N i) false).
        replace (N.max c_notavail (N.max (enc 0 (Z.to_N i) false) c_notavail)) with (enc 0 (Z.to_N i) false)
          by (rewrite (N.max_comm (enc 0 (Z.to_N i) false)), !notavail_le by lia; reflexivity).
        split; [reflexivity |].
        assert (EF : encFe i j = enc 0 (Z.to_N i) false).
        { unfold encFe. subst j. rewrite Fe_col0 by lia. cbn [fst snd]. f_equal. lia. }
        split; [| intros _; symmetry; exact EF].
        left. exists 0%nat, (Z.to_nat i). subst j. rewrite Fe_col0 by lia.
        split; [f_equal; lia |]. split; [lia |]. split; [lia |]. split; [lia | apply le2_refl].
      - assert (Hi : 1 <= i <= lB) by lia. assert (Hj : 1 <= j <= lA) by lia.
        cbn [negb]. rewrite orb_false_r.
        replace (0 <? i) with true by (symmetry; apply Z.ltb_lt; lia). cbn [andb].
        set (m := samenuc (get bA (j - 1)) (get bB (i - 1))).
        change (if m then incscore (incpath (M (i - 1) (j - 1))) else incpath (M (i - 1) (j - 1)))
          with (stepw_diag m (M (i - 1) (j - 1))).
        set (Sd := stepw_diag m (M (i - 1) (j - 1))).
        set (Su := if x2 <? 2 * (even - 1) then incpath (M (i - 1) j) else c_out).
        set (Sl := if 0 <? x2 then (if i <? lB then incpath (M i (j - 1)) else M i (j - 1)) else c_out).
        exists (N.max Sd (N.max Su Sl)). split; [reflexivity |].
        destruct (IH (i - 1) (j - 1)) as [Gd Cd]; [unfold rect; lia | unfold inband; fold even; lia | lia |].
        assert (GSd : goodE Sd i j) by (apply goodE_diag; assumption).
        assert (GSu : goodE Su i j).
        { unfold Su. destruct (Z.ltb_spec x2 (2 * (even - 1))); [| apply goodE_cout; lia].
          apply goodE_up; try assumption. apply IH; [unfold rect; lia | unfold inband; fold even; lia | lia]. }
        assert (GSl : goodE Sl i j).
        { unfold Sl. destruct (Z.ltb_spec 0 x2); [| apply goodE_cout; lia].
          apply goodE_left; try assumption. apply IH; [unfold rect; lia | unfold inband; fold even; lia | lia]. }
        assert (GU : goodE (N.max Sd (N.max Su Sl)) i j) by (apply goodE_max; [| apply goodE_max]; assumption).
        split; [exact GU |].
        intro C. apply goodE_ge_F; [exact R | exact GU |].
        pose proof (condE_interior i j R C) as CI. fold x2 in CI.
        pose proof (Fe_rec i j Hi Hj) as FR. fold m in FR.
        pose proof (Fe_bounds (i - 1) (j - 1) ltac:(unfold rect; lia)) as FBd.
        pose proof (Fe_bounds (i - 1) j ltac:(unfold rect; lia)) as FBu.
        pose proof (Fe_bounds i (j - 1) ltac:(unfold rect; lia)) as FBl.
        unfold condE in C.
        match type of FR with _ = best ?D (best ?U ?L) =>
          destruct (best_cases D (best U L)) as [E | E]; rewrite E in FR;
            [| destruct (best_cases U L) as [E' | E']; rewrite E' in FR] end.
        + assert (Cd' : condE (i - 1) (j - 1)).
          { unfold condE. rewrite FR in C. unfold stepm in C. destruct m; cbn [fst snd] in C; lia. }
          assert (ESd : Sd = encFe i j).
          { unfold Sd. rewrite (Cd Cd'). unfold encFe at 1. rewrite enc_stepm by lia.
            rewrite <- surjective_pairing, <- FR. reflexivity. }
          rewrite <- ESd. lia.
        + assert (Cu' : condE (i - 1) j).
          { unfold condE. rewrite FR in C. unfold step1 in C. cbn [fst snd] in C. lia. }
          destruct (IH (i - 1) j) as [_ Cu]; [unfold rect; lia | unfold inband; fold even; lia | lia |].
          assert (ESu : Su = encFe i j).
          { unfold Su. destruct (Z.ltb_spec x2 (2 * (even - 1))); [| lia]. rewrite (Cu Cu'). unfold encFe at 1. rewrite enc_step1 by lia.
            rewrite <- surjective_pairing, <- FR. reflexivity. }
          rewrite <- ESu. lia.
        + assert (Cl' : condE i (j - 1)).
          { unfold condE. destruct (Z.ltb_spec i lB); rewrite FR in C; unfold step1 in C; cbn [fst snd] in C; lia. }
          destruct (IH i (j - 1)) as [_ Cl]; [unfold rect; lia | unfold inband; fold even; lia | lia |].
          assert (ESl : Sl = encFe i j).
          { unfold Sl. destruct (Z.ltb_spec 0 x2); [| lia]. rewrite (Cl Cl').
            destruct (Z.ltb_spec i lB).
            - unfold encFe at 1. rewrite enc_step1 by lia. rewrite <- surjective_pairing, <- FR. reflexivity.
            - unfold encFe. rewrite <- FR. reflexivity. }
          rewrite <- ESl. lia. }
    destruct HU as [U [EM [GU CU]]]. unfold PcellE. rewrite EM.
    destruct ((x2 =? 0) || (x2 =? 2 * (even - 1))) eqn:Edge.
    - split; [apply goodE_setout; assumption |]. intro C. exfalso.
      pose proof (condE_interior i j R C) as CI. fold x2 in CI.
      apply orb_true_iff in Edge. destruct Edge as [Edge | Edge]; apply Z.eqb_eq in Edge; lia.
    - split; assumption.
  Qed.

  Lemma cellsE_ok : forall (n : nat) i j, i + j <= Z.of_nat n -> rect bA bB i j -> inband bA bB extra i j -> PcellE i j.
  Proof.
    induction n as [| n IHn]; intros i j Hn R B; apply cellE_step; try assumption.
    - intros i' j' [R1 R2] _ Hlt. unfold rect in R. lia.
    - intros i' j' R' B' Hlt. apply IHn; [lia | assumption | assumption].
  Qed.
End LayerE.

(* ------------------------------------------------------------------ conclusion for the end-gap-free mode *)
Lemma Fe_corner : forall bA bB, Fe bA bB (zlen bB) (zlen bA) = egf_ref bA bB false.
Proof.
  intros bA bB. unfold Fe. rewrite Z.eqb_refl. cbn [negb]. unfold zlen. rewrite !Nat2Z.id, !firstn_all. apply egf_ref_rev.
Qed.

Lemma core_exact_egf : forall bA bB m, zlen bB <= zlen bA -> zlen bA + zlen bB <= 30000 ->
  let rs := Z.of_nat (fst (egf_ref bA bB false)) in
  let rl := Z.of_nat (snd (egf_ref bA bB false)) in
  let s := fst (fst (core_spec bA bB m true)) in
  let l := snd (fst (core_spec bA bB m true)) in
  ((m = -1 \/ rl - rs <= m) -> s = rs /\ l = rl) /\
  ((m <> -1 /\ m < rl - rs) -> (s = -1 /\ l = -1) \/ (0 <= s /\ m < l - s)).
Proof.
  intros bA bB m Hle Hsmall. cbv zeta.
  pose proof (egf_ref_bounds bA bB false) as RB. fold (zlen bA) in *.
  assert (RB' : Z.of_nat (fst (egf_ref bA bB false)) + Z.of_nat (snd (egf_ref bA bB false)) <= zlen bA + zlen bB /\
                zlen bB <= Z.of_nat (snd (egf_ref bA bB false)) /\ Z.of_nat (fst (egf_ref bA bB false)) <= zlen bB) by (unfold zlen; lia).
  clear RB.
  assert (HlB : 0 <= zlen bB) by (unfold zlen; lia).
  unfold core_spec. cbv zeta.
  set (lA := zlen bA) in *. set (lB := zlen bB) in *.
  set (maxe := (if m =? -1 then lA * 2 else m) + (lA - lB)).
  assert (Hmaxe : (m = -1 /\ maxe = lA * 2 + (lA - lB)) \/ (m <> -1 /\ maxe = m + (lA - lB))).
  { unfold maxe. destruct (Z.eqb_spec m (-1)); [left | right]; split; auto. }
  destruct (Z.ltb_spec maxe (lA - lB)) as [Hm | Hm].
  { cbn [fst snd]. split; [intros [H | H]; exfalso; lia | intros _; left; split; reflexivity]. }
  set (extra := maxe - (lA - lB) + 1). set (even := 1 + (lA - lB) + 2 * extra).
  destruct (cellsE_ok bA bB extra Hle Hsmall (Z.to_nat (lB + lA)) lB lA) as [G C].
  { lia. } { unfold rect. fold lA lB. lia. } { unfold inband. fold lA lB. lia. }
  fold lA lB even in G, C. unfold encFe in C. rewrite Fe_corner in C.
  set (w := bmat true bA bB lB extra even lB lA) in *.
  set (rs := fst (egf_ref bA bB false)) in *. set (rl := snd (egf_ref bA bB false)) in *.
  assert (HCiff : condE bA bB extra lB lA <-> lB - Z.of_nat rs < 2 * extra).
  { unfold condE. rewrite Fe_corner. fold rs lA lB. lia. }
  split.
  - intro H. assert (HC : condE bA bB extra lB lA) by (apply HCiff; unfold extra; lia).
    rewrite (C HC). rewrite dec_enc by lia. cbn [fst snd]. split; lia.
  - intros [H1 H2]. destruct G as [[s [l [E [B1 [B2 [B3 L]]]]]] | [O1 O2]].
    + rewrite E. rewrite dec_enc by lia. cbn [fst snd]. right. split; [lia |].
      rewrite Fe_corner in L. unfold le2 in L. cbn [fst snd] in L. fold rs rl in L.
      destruct (Z_le_gt_dec (Z.of_nat l - Z.of_nat s) m) as [Hle' | Hgt]; [exfalso | lia].
      assert (HC : condE bA bB extra lB lA) by (apply HCiff; unfold extra; lia).
      specialize (C HC). rewrite C in E.
      apply enc_inj in E; [| lia | lia | lia | lia]. lia.
    + left. unfold outb in *. pose proof (dec_small_out w ltac:(lia)) as D. destruct (dec w) as [[s l] o]. cbn [snd] in D. subst o.
      cbn [fst snd]. split; reflexivity.
Qed.

Definition egf_spec (a b : list N) (m : Z) (init : list N) : Prop :=
  let rs := Z.of_nat (fst (lcs_ref_egf a b)) in
  let rl := Z.of_nat (snd (lcs_ref_egf a b)) in
  let s := fst (fast_lcs_egf_sl a b m init) in
  let l := snd (fast_lcs_egf_sl a b m init) in
  ((m = -1 \/ rl - rs <= m) -> s = rs /\ l = rl) /\
  ((m <> -1 /\ m < rl - rs) -> (s = -1 /\ l = -1) \/ (0 <= s /\ m < l - s)).

(** the end-gap-free mode is exact within the bound, for ALL pairs with |a| + |b| <= 30000, all bounds, any buffer *)
Theorem egf_exact : forall a b m init, Z.of_nat (length a) + Z.of_nat (length b) <= 30000 ->
  egf_spec a b m init.
Proof.
  intros a b m init Hs. unfold egf_spec, fast_lcs_egf_sl, lcs_ref_egf. rewrite lcs_band_matrix.
  destruct (Z.ltb_spec (zlen a) (zlen b)) as [L | L]; destruct (Nat.ltb_spec (length a) (length b)) as [L' | L'];
    try (unfold zlen in L; lia).
  - pose proof (core_exact_egf b a m ltac:(lia) ltac:(unfold zlen; lia)) as H. cbv zeta in H.
    destruct (core_spec b a m true) as [[s l] e]. exact H.
  - pose proof (core_exact_egf a b m ltac:(lia) ltac:(unfold zlen; lia)) as H. cbv zeta in H.
    destruct (core_spec a b m true) as [[s l] e]. exact H.
Qed.

(** layer (ii) of the end-gap-free mode for every cell of the band (no fuel) *)
Lemma cellsE_all : forall bA bB extra, zlen bB <= zlen bA -> zlen bA + zlen bB <= 30000 ->
  forall i j, rect bA bB i j -> inband bA bB extra i j ->
  goodE bA bB (bmat true bA bB (zlen bB) extra (1 + (zlen bA - zlen bB) + 2 * extra) i j) i j /\
  (condE bA bB extra i j ->
   bmat true bA bB (zlen bB) extra (1 + (zlen bA - zlen bB) + 2 * extra) i j = encFe bA bB i j).
Proof.
  intros bA bB extra Hle Hs i j R B. apply (cellsE_ok bA bB extra Hle Hs (Z.to_nat (i + j))); try assumption.
  unfold rect in R. lia.
Qed.
