(** C09 — FastLCSScore is symmetric in its two sequences, for ALL inputs and any scratch buffers: sequences of
    different lengths are swapped by the kernel; for equal lengths the banded matrix of (b, a) is the transpose of
    the banded matrix of (a, b). *)
From Coq Require Import NArith ZArith List Bool Lia.
Import ListNotations.
From OBI.C09 Require Import Model RefSym BandM.
Open Scope Z_scope.

Section Transpose.
  Variables (a b : list N) (L extra : Z).
  Let even := 1 + 2 * extra.

  Lemma mcell_transpose : forall i j vd vu vl,
    mcell false a b L extra even i j vd vu vl = mcell false b a L extra even j i vd vl vu.
  Proof.
    intros i j vd vu vl. unfold mcell, mtriple.
    replace (i - j + 2 * extra) with (2 * (even - 1) - (j - i + 2 * extra)) by (unfold even; lia).
    set (x2 := j - i + 2 * extra). set (E := 2 * (even - 1)).
    rewrite !orb_true_r. rewrite (samenuc_sym (get b (i - 1)) (get a (j - 1))).
    replace (E - x2 =? 0) with (x2 =? E) by (destruct (Z.eqb_spec x2 E); destruct (Z.eqb_spec (E - x2) 0); lia || reflexivity).
    replace (E - x2 =? E) with (x2 =? 0) by (destruct (Z.eqb_spec x2 0); destruct (Z.eqb_spec (E - x2) E); lia || reflexivity).
    replace (E - x2 <? E) with (0 <? x2) by (destruct (Z.ltb_spec 0 x2); destruct (Z.ltb_spec (E - x2) E); lia || reflexivity).
    replace (0 <? E - x2) with (x2 <? E) by (destruct (Z.ltb_spec x2 E); destruct (Z.ltb_spec 0 (E - x2)); lia || reflexivity).
    rewrite (orb_comm (x2 =? E) (x2 =? 0)).
    destruct (Z.eqb_spec i 0) as [Ei | Ei]; destruct (Z.eqb_spec j 0) as [Ej | Ej].
    - subst. reflexivity.
    - rewrite (N.max_comm (enc 0 (Z.to_N j) false) c_notavail). reflexivity.
    - rewrite (N.max_comm (enc 0 (Z.to_N i) false) c_notavail). reflexivity.
    - rewrite (N.max_comm (if x2 <? E then incpath vu else c_out)). reflexivity.
  Qed.

  Lemma cw_transpose : forall n,
    (forall i, cw false a b L extra even n i = cw false b a L extra even n (Z.of_nat n - i)) /\
    (forall i, cw false a b L extra even (S n) i = cw false b a L extra even (S n) (Z.of_nat (S n) - i)).
  Proof.
    induction n as [| n [IH0 IH1]].
    - assert (H0 : forall i, cw false a b L extra even 0 i = cw false b a L extra even 0 (Z.of_nat 0 - i)).
      { intro i. cbn [cw]. rewrite mcell_transpose. f_equal; lia. }
      split; [exact H0 |]. intro i.
      change (cw false a b L extra even 1 i) with
        (mcell false a b L extra even i (Z.of_nat 1 - i) 0%N (cw false a b L extra even 0 (i - 1)) (cw false a b L extra even 0 i)).
      change (cw false b a L extra even 1 (Z.of_nat 1 - i)) with
        (mcell false b a L extra even (Z.of_nat 1 - i) (Z.of_nat 1 - (Z.of_nat 1 - i)) 0%N
           (cw false b a L extra even 0 (Z.of_nat 1 - i - 1)) (cw false b a L extra even 0 (Z.of_nat 1 - i))).
      rewrite mcell_transpose, (H0 (i - 1)), (H0 i). f_equal; try lia; f_equal; lia.
    - split; [exact IH1 |]. intro i.
      change (cw false a b L extra even (S (S n)) i) with
        (mcell false a b L extra even i (Z.of_nat (S (S n)) - i) (cw false a b L extra even n (i - 1))
           (cw false a b L extra even (S n) (i - 1)) (cw false a b L extra even (S n) i)).
      change (cw false b a L extra even (S (S n)) (Z.of_nat (S (S n)) - i)) with
        (mcell false b a L extra even (Z.of_nat (S (S n)) - i) (Z.of_nat (S (S n)) - (Z.of_nat (S (S n)) - i))
           (cw false b a L extra even n (Z.of_nat (S (S n)) - i - 1))
           (cw false b a L extra even (S n) (Z.of_nat (S (S n)) - i - 1)) (cw false b a L extra even (S n) (Z.of_nat (S (S n)) - i))).
      rewrite mcell_transpose, (IH0 (i - 1)), (IH1 (i - 1)), (IH1 i). f_equal; try lia; f_equal; lia.
  Qed.
End Transpose.

Lemma core_spec_sym : forall a b m, zlen a = zlen b ->
  fst (core_spec a b m false) = fst (core_spec b a m false).
Proof.
  intros a b m H. unfold core_spec. cbv zeta. rewrite <- H.
  set (L := zlen a). replace (L - L) with 0 by lia.
  destruct ((if m =? -1 then L * 2 else m) <? 0); [reflexivity |].
  set (extra := (if m =? -1 then L * 2 else m) - 0 + 1).
  assert (E : bmat false a b L extra (1 + 0 + 2 * extra) L L = bmat false b a L extra (1 + 0 + 2 * extra) L L).
  { unfold bmat. replace (1 + 0 + 2 * extra) with (1 + 2 * extra) by lia.
    destruct (cw_transpose a b L extra (Z.to_nat (L + L))) as [T _]. rewrite T. f_equal. unfold L, zlen. lia. }
  rewrite E. destruct (dec _) as [[s l] o]. destruct o; reflexivity.
Qed.

Theorem fast_lcs_score_sym : forall a b m init init', fast_lcs_score a b m init = fast_lcs_score b a m init'.
Proof.
  intros a b m init init'. unfold fast_lcs_score. rewrite !lcs_band_matrix.
  destruct (Z.ltb_spec (zlen a) (zlen b)) as [L1 | L1]; destruct (Z.ltb_spec (zlen b) (zlen a)) as [L2 | L2]; try lia; try reflexivity.
  assert (E : zlen a = zlen b) by lia. pose proof (core_spec_sym a b m E) as H.
  destruct (core_spec a b m false) as [[s l] e], (core_spec b a m false) as [[s' l'] e']. cbn [fst] in H. exact H.
Qed.
