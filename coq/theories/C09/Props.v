(** C09 — LCS and one-difference kernels are exact within their error bound: theorems. *)
From Coq Require Import NArith ZArith List Bool.
Import ListNotations.
From OBI.C09 Require Import Model Proofs.

(** Packed cells (fastlcs.go). For fields below 2^16 (path length at most 65534): decoding inverts encoding; the
    order of the words is the lexicographic order on (in band, score, shorter path) - so the integer maximum taken
    by the kernel selects an in-band cell, then the highest score, then the shortest path; _incpath, _incscore and
    _setout act on one field only as long as that field does not overflow. *)
Theorem C09_pack_order :
  (forall s l o, s < 65536 -> l <= 65534 -> dec (enc s l o) = (s, l, o))%N /\
  (forall s l o s' l' o', s < 65536 -> l <= 65534 -> s' < 65536 -> l' <= 65534 ->
     (enc s l o < enc s' l' o' <->
      (o = true /\ o' = false) \/ (o = o' /\ (s < s' \/ (s = s' /\ l' < l)))))%N /\
  (forall s l o, s < 65536 -> l < 65534 -> incpath (enc s l o) = enc s (l + 1) o)%N /\
  (forall s l o, s < 65535 -> l <= 65534 -> incscore (enc s l o) = enc (s + 1) l o)%N /\
  (forall s l o, s < 65536 -> l <= 65534 -> setout (enc s l o) = enc s l true)%N.
Proof. exact (conj dec_enc (conj enc_lt (conj incpath_enc (conj incscore_enc setout_enc)))). Qed.

(** _samenuc is IUPAC compatibility: two codes (either case) match iff their sets of bases intersect. *)
Theorem C09_iupac_compat : forall x y, In x iupac_codes -> In y iupac_codes -> samenuc x y = compatible x y.
Proof. exact samenuc_compatible. Qed.

(** the table of the code before the repair violates it (v against c) *)
Theorem C09_iupac_orig_refuted :
  exists x y, In x iupac_codes /\ In y iupac_codes /\ samenuc_orig x y <> compatible x y.
Proof. exact samenuc_orig_refuted. Qed.

(** D1Or0: 0 exactly for identical sequences; 1 exactly when one edit (substitution, deletion, insertion -
    inductive definition edit1) turns s1 into s2, and then position and symbols reproduce that edit; -1 exactly
    otherwise; swapping the arguments gives the same verdict and position with the two symbols exchanged. *)
Theorem C09_d1or0_exact : forall s1 s2,
  (verdict (d1or0 s1 s2) = 0 <-> s1 = s2)%Z /\
  (verdict (d1or0 s1 s2) = 1 <-> edit1 s1 s2)%Z /\
  (verdict (d1or0 s1 s2) = 1 ->
     exists pos a1 a2, d1or0 s1 s2 = (1, pos, a1, a2) /\ reproduces s1 s2 pos a1 a2)%Z /\
  (verdict (d1or0 s1 s2) = -1 <-> (s1 <> s2 /\ ~ edit1 s1 s2))%Z /\
  d1or0 s2 s1 = swap4 (d1or0 s1 s2).
Proof.
  intros s1 s2. split; [apply d1or0_zero |]. split.
  - split; [intro H; apply d1or0_one_sound; exact H | apply d1or0_one_complete].
  - split; [intro H; apply d1or0_one_sound; exact H |]. split; [apply d1or0_minus_one | apply d1or0_sym].
Qed.

(** The reference recursion (full matrix, no band): its first component is the length of a longest common
    subsequence under IUPAC compatibility (inductive definition csub), and the pair is an alignment (inductive
    definition ali) with that many matches that is shortest among the alignments with that many matches. *)
Theorem C09_ref_is_lcs : forall a b,
  (csub a b (fst (lcs_ref a b)) /\ (forall n, csub a b n -> n <= fst (lcs_ref a b)) /\
   ali a b (fst (lcs_ref a b)) (snd (lcs_ref a b)) /\
   (forall s l, ali a b s l ->
      s < fst (lcs_ref a b) \/ (s = fst (lcs_ref a b) /\ snd (lcs_ref a b) <= l)))%nat.
Proof.
  intros a b. destruct (lcs_ref_is_lcs a b) as [H1 H2]. split; [exact H1 |]. split; [exact H2 |].
  split; [apply lcs_ref_achieved |]. intros s l H. exact (lcs_ref_optimal a b s l H).
Qed.

(** FULL STATEMENT (not proved for all lengths): forall a b m, the symbols being arbitrary and
    |a| + |b| < 2^15: band_spec a b m, i.e. FastLCSScore (fresh buffer) returns the reference pair whenever the
    bound is -1 or the differences (length - matches) of the reference do not exceed it, and otherwise (-1,-1)
    or a pair with more differences than the bound.
    PROVED: the same for ALL pairs of sequences over {a,c,g,t} of length <= 3 with all bounds -1..4, and for ALL
    pairs over {a,c} of length <= 5 with all bounds -1..6, by evaluation of the model inside the kernel; the bounds
    are in the names. Beyond them, exactness of the band rests on the comparison of the real code with the
    full-matrix oracle on every run (all pairs over {a,c,g,t} up to length 4, thorough: 6; random pairs up to 400). *)
Theorem C09_band_exact_upto_3 : forall a b m,
  over nucs a -> over nucs b -> (length a <= 3)%nat -> (length b <= 3)%nat -> (-1 <= m <= 4)%Z ->
  band_spec a b m.
Proof. exact band_exact_upto_3. Qed.
Theorem C09_band_exact_binary_upto_5 : forall a b m,
  over binary a -> over binary b -> (length a <= 5)%nat -> (length b <= 5)%nat -> (-1 <= m <= 6)%Z ->
  band_spec a b m.
Proof. exact band_exact_binary_upto_5. Qed.

(** Reused scratch buffers and symmetry of the banded kernel, for ALL pairs over {a,c} of length <= 4 and all
    bounds -1..5 (evaluation inside the kernel, BandX.v; the bound is in the name): starting from a buffer whose
    every word is 2^64-1, or whose every word is the best possible in-band cell, gives the answer of a fresh
    buffer; exchanging the two sequences gives the same answer. *)
Theorem C09_band_buffer_sym_binary_upto_4 : forall a b m,
  over binary a -> over binary b -> (length a <= 4)%nat -> (length b <= 4)%nat -> (-1 <= m <= 5)%Z ->
  fast_lcs_score a b m poison1 = fast_lcs_score a b m [] /\
  fast_lcs_score a b m poison2 = fast_lcs_score a b m [] /\
  fast_lcs_score b a m [] = fast_lcs_score a b m [].
Proof. exact band_extra_binary_upto_4. Qed.

(** Symmetry for all inputs: the kernel (both modes, any buffer) is symmetric for sequences of different lengths
    (it swaps them), and the reference pair is symmetric. *)
Theorem C09_band_swap : forall a b m egf init, length a <> length b ->
  lcs_band a b m egf init = lcs_band b a m egf init.
Proof. exact lcs_band_swap. Qed.
Theorem C09_ref_symmetric : forall a b, lcs_ref a b = lcs_ref b a.
Proof. exact lcs_ref_sym. Qed.

(** non-vacuity: the hypotheses are met by non-trivial values and the conclusions are not trivial there *)
Example C09_nonvacuous :
  (7 < 65536 /\ 12 <= 65534 /\ dec (enc 7 12 false) = (7, 12, false))%N /\
  edit1 [97; 99; 103; 116]%N [97; 103; 116]%N /\
  over nucs [97; 99; 103]%N /\
  fast_lcs_score [97; 99; 103; 116]%N [97; 103; 116]%N 1 [] = (3, 4)%Z /\
  fast_lcs_score [97; 97; 97; 97]%N [97; 97]%N 1 [] = (-1, -1)%Z /\
  lcs_ref [97; 99; 103; 116]%N [116; 103; 99; 97]%N = (1, 5)%nat.
Proof.
  split; [vm_compute; repeat split; congruence |]. split; [exact (E_del [97]%N 99%N [103; 116]%N) |].
  split; [intros c Hc; cbn in Hc |- *; tauto |]. repeat split; vm_compute; reflexivity.
Qed.

Print Assumptions C09_pack_order.
Print Assumptions C09_iupac_compat.
Print Assumptions C09_iupac_orig_refuted.
Print Assumptions C09_d1or0_exact.
Print Assumptions C09_ref_is_lcs.
Print Assumptions C09_band_exact_upto_3.
Print Assumptions C09_band_exact_binary_upto_5.
Print Assumptions C09_band_buffer_sym_binary_upto_4.
Print Assumptions C09_band_swap.
Print Assumptions C09_ref_symmetric.
