(** C09 — LCS and one-difference kernels are exact within their error bound: theorems. *)
From Coq Require Import NArith ZArith List Bool.
Import ListNotations.
From OBI.C09.Gen Require Import Tables.
From OBI.C09 Require Import Model Proofs.

(** Packed cells (fastlcs.go). For fields below 2^16 (path length at most 65534): decoding inverts encoding; the
    order of the words is the lexicographic order on (in band, score, shorter path) - so the integer maximum taken
    by the kernel selects an in-band cell, then the highest score, then the shortest path; _incpath, _incscore and
    _setout act on one field only as long as that field does not overflow. *)
Theorem C09_pack_order :
  (forall s l o, s < 65536 -> l <= 65534 -> dec (enc s l o) = (s, l, o))%N /\
  (forall s l o s' l' o', s < 65536 -> l <= 65534 -> s' < 65536 -> l' <= 65534 ->
     (enc s l o < enc s' l' o' <->
      (o = true /\ o' = false) \/ (o = o' /\ (s < s' \/ (s = s' /\ l' < l)))))%N /\
  (forall s l o, s < 65536 -> l < 65534 -> incpath (enc s l o) = enc s (l + 1) o)%N /\
  (forall s l o, s < 65535 -> l <= 65534 -> incscore (enc s l o) = enc (s + 1) l o)%N /\
  (forall s l o, s < 65536 -> l <= 65534 -> setout (enc s l o) = enc s l true)%N.
Proof. exact (conj dec_enc (conj enc_lt (conj incpath_enc (conj incscore_enc setout_enc)))). Qed.

(** The side condition "score < 65535" is necessary: one more match carries out of the 16-bit score field into the
    in-band flag and the cell becomes an "out" cell with score 0. This is the mechanism of the recorded finding
    lcs-16bit-fields (two identical sequences of 65540 symbols are answered "not found" by the real code, replayed on
    every run); C09_band_exact / C09_egf_exact therefore carry the side condition |a| + |b| <= 30000. *)
Theorem C09_score_field_overflow_refuted : exists s l, (s = 65535 /\ l <= 65534 /\
  incscore (enc s l false) <> enc (s + 1) l false /\ dec (incscore (enc s l false)) = (0, l, true))%N.
Proof. exact score_field_overflow. Qed.

(** The literals of the model are the constants of the build under test: wsize, dwsize, the masks derived from them,
    the cells _empty, _out, _notavail, and encodeValues / decodeValues on sample points, all dumped from the current
    build into Gen/Tables.v before every run (re-proved on every run). *)
Theorem C09_pack_consts :
  (wsize_gen = 16 /\ dwsize_gen = 32 /\ mask16 = 2 ^ wsize_gen - 1 /\ outbit = 2 ^ dwsize_gen /\
   65536 = 2 ^ wsize_gen /\ W64 - 1 - outbit = N.lxor (W64 - 1) (2 ^ dwsize_gen) /\
   c_empty = empty_gen /\ c_out = out_gen /\ c_notavail = notavail_gen /\
   forallb enc_sample_ok enc_samples = true /\ forallb dec_sample_ok dec_samples = true)%N.
Proof. exact pack_consts. Qed.

(** _samenuc is IUPAC compatibility (the table _iupac is the one of the build under test, Gen/Tables.v): two codes (either case) match iff their sets of bases intersect. *)
Theorem C09_iupac_compat : forall x y, In x iupac_codes -> In y iupac_codes -> samenuc x y = compatible x y.
Proof. exact samenuc_compatible. Qed.

(** the table of the code before the repair violates it (v against c) *)
Theorem C09_iupac_orig_refuted :
  exists x y, In x iupac_codes /\ In y iupac_codes /\ samenuc_orig x y <> compatible x y.
Proof. exact samenuc_orig_refuted. Qed.

(** D1Or0: 0 exactly for identical sequences; 1 exactly when one edit (substitution, deletion, insertion -
    inductive definition edit1) turns s1 into s2, and then position and symbols reproduce that edit; -1 exactly
    otherwise; swapping the arguments gives the same verdict and position with the two symbols exchanged. *)
Theorem C09_d1or0_exact : forall s1 s2,
  (verdict (d1or0 s1 s2) = 0 <-> s1 = s2)%Z /\
  (verdict (d1or0 s1 s2) = 1 <-> edit1 s1 s2)%Z /\
  (verdict (d1or0 s1 s2) = 1 ->
     exists pos a1 a2, d1or0 s1 s2 = (1, pos, a1, a2) /\ reproduces s1 s2 pos a1 a2)%Z /\
  (verdict (d1or0 s1 s2) = -1 <-> (s1 <> s2 /\ ~ edit1 s1 s2))%Z /\
  d1or0 s2 s1 = swap4 (d1or0 s1 s2).
Proof.
  intros s1 s2. split; [apply d1or0_zero |]. split.
  - split; [intro H; apply d1or0_one_sound; exact H | apply d1or0_one_complete].
  - split; [intro H; apply d1or0_one_sound; exact H |]. split; [apply d1or0_minus_one | apply d1or0_sym].
Qed.

(** D1Or0 against the Levenshtein distance (recursive definition [lev], unit costs for substitution, insertion,
    deletion): 0 iff the distance is 0, 1 iff it is 1, -1 iff it is at least 2. *)
Theorem C09_d1or0_lev : forall s1 s2,
  (verdict (d1or0 s1 s2) = 0 <-> lev s1 s2 = 0%nat)%Z /\
  (verdict (d1or0 s1 s2) = 1 <-> lev s1 s2 = 1%nat)%Z /\
  (verdict (d1or0 s1 s2) = -1 <-> (2 <= lev s1 s2)%nat)%Z.
Proof. exact d1or0_lev. Qed.

(** The reference recursion (full matrix, no band): its first component is the length of a longest common
    subsequence under IUPAC compatibility (inductive definition csub), and the pair is an alignment (inductive
    definition ali) with that many matches that is shortest among the alignments with that many matches. *)
Theorem C09_ref_is_lcs : forall a b,
  (csub a b (fst (lcs_ref a b)) /\ (forall n, csub a b n -> n <= fst (lcs_ref a b)) /\
   ali a b (fst (lcs_ref a b)) (snd (lcs_ref a b)) /\
   (forall s l, ali a b s l ->
      s < fst (lcs_ref a b) \/ (s = fst (lcs_ref a b) /\ snd (lcs_ref a b) <= l)))%nat.
Proof.
  intros a b. destruct (lcs_ref_is_lcs a b) as [H1 H2]. split; [exact H1 |]. split; [exact H2 |].
  split; [apply lcs_ref_achieved |]. intros s l H. exact (lcs_ref_optimal a b s l H).
Qed.

(** ---- The banded kernel, as a refinement in four layers, each for ALL inputs. ----

    Layer (i). The two-row anti-diagonal program (both modes, ANY content of the reused scratch buffer) returns what
    the full (|B|+1) x (|A|+1) matrix [bmat] restricted to the band holds in its corner cell (A the longer
    sequence): every word the program reads was written by the same call with the matrix value of that cell
    (invariant [agree] of BandM.v over rows of two anti-diagonals). [core_spec] mentions no buffer. *)
Theorem C09_band_matrix : forall a b maxerr egf init,
  lcs_band a b maxerr egf init =
  if (zlen a <? zlen b)%Z then core_spec b a maxerr egf else core_spec a b maxerr egf.
Proof. exact lcs_band_matrix. Qed.

(** Stale buffer contents are never read before they are written: the three results of FastLCSEGFScoreByte do not
    depend on the scratch buffer, for all sequences, bounds, both modes and all buffer contents (replaces the
    bounded C09_band_buffer_sym_binary_upto_4 of round 1). *)
Theorem C09_buffer_independent : forall a b maxerr egf init init',
  lcs_band a b maxerr egf init = lcs_band a b maxerr egf init'.
Proof. exact lcs_band_buffer_independent. Qed.

(** Layer (ii). Mode FastLCSScore, |A| + |B| <= 30000 (no field of a packed word wraps), any band parameter
    [extra]. Every cell (i, j) of the band holds a sound word [good]: either an in-band pair (s, l) that is not
    better than the unbanded lexicographic DP [F i j] (the reference recursion on the prefixes) and lies in the
    numeric envelope of alignments, or an "out" word below every in-band word; and the cell EQUALS the packed
    unbanded optimum whenever [cond i j] holds: the optimum of the cell has so few differences e that
    e - (j-i) < 4*extra and e + (j-i) < 4*(|A|-|B|) + 4*extra. *)
Theorem C09_band_cells : forall bA bB extra, (zlen bB <= zlen bA)%Z -> (zlen bA + zlen bB <= 30000)%Z ->
  forall i j, rect bA bB i j -> inband bA bB extra i j ->
  good bA bB (bmat false bA bB (zlen bB) extra (1 + (zlen bA - zlen bB) + 2 * extra) i j) i j /\
  (cond bA bB extra i j ->
   bmat false bA bB (zlen bB) extra (1 + (zlen bA - zlen bB) + 2 * extra) i j = encF bA bB i j).
Proof. exact cells_all. Qed.

(** Layer (iii), geometry. A cell satisfying [cond] lies strictly inside the band; [cond] is inherited by whichever
    neighbour the optimum of the cell comes from (so following optimal predecessors never reaches an extreme
    diagonal: an optimal alignment with few enough differences never leaves the band - an alignment with e
    differences has at most e gaps and stays within (e -/+ (j-i))/2 diagonals of the corner diagonals, and the band
    is about four times wider than that); and for the band the kernel chooses (extra = maxError - (|A|-|B|) + 1)
    the corner cell satisfies [cond] whenever the reference is within the bound or no bound is given. *)
Theorem C09_band_geometry :
  (forall bA bB extra i j, rect bA bB i j -> cond bA bB extra i j ->
     0 < j - i + 2 * extra < 2 * (1 + (zlen bA - zlen bB) + 2 * extra - 1))%Z /\
  (forall bA bB extra i j, (1 <= i <= zlen bB)%Z -> (1 <= j <= zlen bA)%Z -> cond bA bB extra i j ->
     (F bA bB i j = stepm (samenuc (get bA (j - 1)) (get bB (i - 1))) (F bA bB (i - 1) (j - 1)) ->
        cond bA bB extra (i - 1) (j - 1)) /\
  (F bA bB i j = step1 (F bA bB i (j - 1)) -> cond bA bB extra i (j - 1)) /\
  (F bA bB i j = step1 (F bA bB (i - 1) j) -> cond bA bB extra (i - 1) j))%Z /\
  (forall bA bB m, (zlen bB <= zlen bA)%Z ->
     (m = -1 \/ Z.of_nat (snd (lcs_ref bA bB)) - Z.of_nat (fst (lcs_ref bA bB)) <= m)%Z ->
     cond bA bB ((if m =? -1 then zlen bA * 2 else m) - (zlen bA - zlen bB) + 1)%Z (zlen bB) (zlen bA)).
Proof. exact (conj cond_interior (conj cond_hereditary cond_corner)). Qed.

(** Layer (iv) = C09_band_exact, for ALL pairs of sequences with |a| + |b| <= 30000 (any symbols), ALL bounds m
    (any integer) and ANY content of the scratch buffer: whenever the bound is -1 or the differences (length -
    matches) of the reference do not exceed it, FastLCSScore returns the reference pair; otherwise it returns
    (-1,-1) or a pair with more differences than the bound - never a spurious within-bound answer. *)
Theorem C09_band_exact : forall a b m init, (Z.of_nat (length a) + Z.of_nat (length b) <= 30000)%Z ->
  band_spec_buf a b m init.
Proof. exact band_exact. Qed.

(** FastLCSScore is symmetric in its two sequences: all inputs, all bounds, any two scratch buffers (for equal
    lengths the banded matrix of (b, a) is the transpose of that of (a, b); replaces the bounded symmetry clause). *)
Theorem C09_band_symmetric : forall a b m init init', fast_lcs_score a b m init = fast_lcs_score b a m init'.
Proof. exact fast_lcs_score_sym. Qed.

(** ---- End-gap-free mode (FastLCSEGFScore). ----
    The reference [lcs_ref_egf] (recursion [egf_ref] on the suffixes of the longer sequence A and the shorter B, no band)
    is achieved by, and optimal among, the alignments [aliE] (inductive definition) in which the columns consuming a
    symbol of A only are not counted before the first and after the last symbol of B: maximum number of matching
    columns, then the fewest counted columns. *)
Theorem C09_egf_ref_optimal : forall a b,
  let A := if (length a <? length b)%nat then b else a in
  let B := if (length a <? length b)%nat then a else b in
  (aliE false A B (fst (lcs_ref_egf a b)) (snd (lcs_ref_egf a b)) /\
   (forall s l, aliE false A B s l ->
      s < fst (lcs_ref_egf a b) \/ (s = fst (lcs_ref_egf a b) /\ snd (lcs_ref_egf a b) <= l)))%nat.
Proof. exact lcs_ref_egf_spec. Qed.

(** Layer (ii) of the mode: every cell of the banded matrix (endgapfree = true) is a sound word - an in-band pair not
    better than the unbanded end-gap-free DP [Fe] of the prefixes, or an out word - and equals the packed optimum
    wherever [condE] holds: the number of symbols of B the optimum of the cell leaves unmatched plus the excess of the
    cell's diagonal over the final diagonal is below 2*extra (this keeps optimal paths inside the band although free
    horizontal moves cost nothing). |A| + |B| <= 30000. *)
Theorem C09_egf_cells : forall bA bB extra, (zlen bB <= zlen bA)%Z -> (zlen bA + zlen bB <= 30000)%Z ->
  forall i j, rect bA bB i j -> inband bA bB extra i j ->
  goodE bA bB (bmat true bA bB (zlen bB) extra (1 + (zlen bA - zlen bB) + 2 * extra) i j) i j /\
  (condE bA bB extra i j ->
   bmat true bA bB (zlen bB) extra (1 + (zlen bA - zlen bB) + 2 * extra) i j = encFe bA bB i j).
Proof. exact cellsE_all. Qed.

(** C09_band_exact for the end-gap-free mode, for ALL pairs with |a| + |b| <= 30000, ALL bounds and ANY scratch buffer:
    whenever the bound is -1 or the differences (counted length - matches) of [lcs_ref_egf] do not exceed it,
    FastLCSEGFScore returns that pair as its first two results; otherwise (-1,-1) or a pair with more differences than
    the bound (replaces the bounded C09_egf_exact_upto_3 / _binary_upto_5 of the first version of this round). The third
    result (end position) is not specified by the property. *)
Theorem C09_egf_exact : forall a b m init, (Z.of_nat (length a) + Z.of_nat (length b) <= 30000)%Z ->
  egf_spec a b m init.
Proof. exact egf_exact. Qed.

(** Symmetry for all inputs: the kernel (both modes, any buffer) is symmetric for sequences of different lengths
    (it swaps them), and the reference pair is symmetric. *)
Theorem C09_band_swap : forall a b m egf init, length a <> length b ->
  lcs_band a b m egf init = lcs_band b a m egf init.
Proof. exact lcs_band_swap. Qed.
Theorem C09_ref_symmetric : forall a b, lcs_ref a b = lcs_ref b a.
Proof. exact lcs_ref_sym. Qed.

(** ---- Round 3. ----
    The two accessors of the packed word that have no caller, _isout and _lpath: for EVERY word they are the third and the
    second result of decodeValues, hence they invert encodeValues on in-range fields; the transcriptions agree with the
    build under test on the dumped sample words. *)
Theorem C09_pack_accessors :
  (forall v, dec v = (N.land (N.shiftr v 16) mask16, lpath v, isout v)) /\
  (forall s l o, s < 65536 -> l <= 65534 -> isout (enc s l o) = o /\ lpath (enc s l o) = l)%N /\
  forallb acc_sample_ok acc_samples = true.
Proof. exact pack_accessors. Qed.

(** _samenuc on every pair of byte values (every pair of numbers), not only on the 32 codes of C09_iupac_compat: two letters
    of either case match iff their IUPAC sets intersect (a letter that is no code has the empty set: it matches nothing,
    not even itself); if one symbol is no letter they match iff they are equal after folding ASCII upper case. *)
Theorem C09_samenuc_all_bytes : forall x y,
  samenuc x y = if is_letter x && is_letter y then compatible x y else (lower x =? lower y)%N.
Proof. exact samenuc_all. Qed.

(** The kernel does not see the case of its symbols: any two spellings (upper, lower, mixed case) of the same two
    sequences give the same three results of FastLCSEGFScoreByte - both modes, every bound, any two scratch buffers - and the
    same reference pair. (BioSequence stores lower case; the byte entry point takes raw bytes.) *)
Theorem C09_case_insensitive : forall a a' b b', map lower a = map lower a' -> map lower b = map lower b' ->
  (forall m egf init init', lcs_band a b m egf init = lcs_band a' b' m egf init') /\
  lcs_ref a b = lcs_ref a' b'.
Proof. exact case_insensitive. Qed.

(** D1Or0 against the LCS kernel - what obitag, obirefidx, obiclean and obiconsensus rely on when they call D1Or0 instead of
    FastLCSScore for the bounds 0 and 1. D1Or0 compares bytes, the kernel compares IUPAC sets.
    (a) On sequences of self-compatible symbols (any IUPAC codes) D1Or0 never under-estimates: verdict 0 implies the
    reference pair (L, L), verdict 1 implies (L, L) or (L - 1, L), L the length of the longer sequence. *)
Theorem C09_shortcut_sound : forall a b, selfc a -> selfc b ->
  (verdict (d1or0 a b) = 0%Z -> lcs_ref a b = (length a, length a) /\ length a = length b) /\
  (verdict (d1or0 a b) = 1%Z ->
     let L := Nat.max (length a) (length b) in
     (1 <= L)%nat /\ (lcs_ref a b = (L, L) \/ lcs_ref a b = (L - 1, L)%nat)).
Proof. exact shortcut_sound. Qed.

(** (b) When matching symbols are equal (sequences over a, c, g, t) the two kernels agree on the classes 0 / 1 / more:
    verdict d in {0, 1} iff the reference has exactly d differences, and then it is (L - d, L); verdict -1 iff it has at
    least two. *)
Theorem C09_shortcut_exact : forall a b, selfc a -> selfc b -> exact2 a b ->
  let L := Nat.max (length a) (length b) in
  (verdict (d1or0 a b) = 0%Z <-> rdiff a b = 0%Z) /\
  (verdict (d1or0 a b) = 1%Z <-> rdiff a b = 1%Z) /\
  (verdict (d1or0 a b) = (-1)%Z <-> (2 <= rdiff a b)%Z) /\
  (verdict (d1or0 a b) = 0%Z -> lcs_ref a b = (L, L)) /\
  (verdict (d1or0 a b) = 1%Z -> lcs_ref a b = (L - 1, L)%nat).
Proof. exact shortcut_exact. Qed.

(** (c) Hence, for sequences over a, c, g, t with |a| + |b| <= 30000, the bounds 0 and 1 and any scratch buffer, the
    callers' shortcut (max length - d, max length) is exactly what FastLCSScore returns when 0 <= d <= bound, and when D1Or0
    says -1 or more than the bound FastLCSScore says 'not found' or returns a pair beyond the bound. *)
Theorem C09_shortcut_kernel_plain : forall a b m init, over nucs a -> over nucs b ->
  (Z.of_nat (length a) + Z.of_nat (length b) <= 30000)%Z -> (m = 0 \/ m = 1)%Z ->
  let L := Z.of_nat (Nat.max (length a) (length b)) in
  let d := verdict (d1or0 a b) in
  ((0 <= d <= m)%Z -> fast_lcs_score a b m init = (L - d, L)%Z) /\
  ((d = -1 \/ m < d)%Z ->
     fast_lcs_score a b m init = (-1, -1)%Z \/
     (0 <= fst (fast_lcs_score a b m init) /\ m < snd (fast_lcs_score a b m init) - fst (fast_lcs_score a b m init))%Z).
Proof.
  intros a b m init Ha Hb. apply shortcut_kernel; [apply nucs_selfc; exact Ha | apply nucs_selfc; exact Hb | apply nucs_exact2; assumption].
Qed.

(** (d) The agreement (b), (c) fails on ambiguity codes: a base facing a code that contains it is one difference for D1Or0
    and none for FastLCSScore (acgta / acnta). Callers that switch to D1Or0 once their bound has shrunk to 0 or 1 record the
    distance 1 for such a reference where FastLCSScore gives 0 (outside this property's statement: both kernels do what the
    property says of each; see META note). *)
Theorem C09_shortcut_ambiguity_witness : exists a b, selfc a /\ selfc b /\
  verdict (d1or0 a b) = 1%Z /\ lcs_ref a b = (length a, length a) /\
  fast_lcs_score a b 1 [] = (Z.of_nat (length a), Z.of_nat (length a)) /\
  fast_lcs_score a b 0 [] = (Z.of_nat (length a), Z.of_nat (length a)).
Proof. exact shortcut_ambiguity_witness. Qed.

(** The bounds the doc comment of FastLCSScore misdescribes ("if maxError > 0 ... otherwise no error checking"): only -1 means
    no bound. Bound 0 is a real bound: the answer is (n, n) exactly for two sequences of the same length n that match symbol
    by symbol under IUPAC compatibility, and 'not found' or a pair with at least one difference otherwise. *)
Theorem C09_bound0_spec : forall a b init, (Z.of_nat (length a) + Z.of_nat (length b) <= 30000)%Z ->
  (allmatch a b -> fast_lcs_score a b 0 init = (Z.of_nat (length a), Z.of_nat (length a))) /\
  (~ allmatch a b ->
     fast_lcs_score a b 0 init = (-1, -1)%Z \/
     (0 <= fst (fast_lcs_score a b 0 init) /\ 0 < snd (fast_lcs_score a b 0 init) - fst (fast_lcs_score a b 0 init))%Z).
Proof. exact bound0_spec. Qed.

(** Bound 1 characterised without the DP: (L, L) for sequences that match symbol by symbol, (L - 1, L) for sequences one edit
    apart under IUPAC compatibility (inductive definition edit1c: one substituted, deleted or inserted symbol, everything else
    matching), L the length of the longer sequence; otherwise 'not found' or a pair with at least two differences. With
    C09_bound0_spec this is the specification of what a correct shortcut for the bounds 0 and 1 has to decide (D1Or0 decides it
    with byte equality: C09_shortcut_exact / C09_shortcut_ambiguity_witness). *)
Theorem C09_bound1_spec : forall a b init, (Z.of_nat (length a) + Z.of_nat (length b) <= 30000)%Z ->
  let L := Z.of_nat (Nat.max (length a) (length b)) in
  (allmatch a b -> fast_lcs_score a b 1 init = (L, L)) /\
  (~ allmatch a b -> edit1c a b -> fast_lcs_score a b 1 init = (L - 1, L)%Z) /\
  (~ allmatch a b -> ~ edit1c a b ->
     fast_lcs_score a b 1 init = (-1, -1)%Z \/
     (0 <= fst (fast_lcs_score a b 1 init) /\ 1 < snd (fast_lcs_score a b 1 init) - fst (fast_lcs_score a b 1 init))%Z).
Proof. exact bound1_spec. Qed.

(** the reference pair has at most one difference iff the sequences match symbol by symbol or are one compatible edit apart *)
Theorem C09_ref_one_difference : forall a b, (rdiff a b <= 1)%Z <-> (allmatch a b \/ edit1c a b).
Proof. exact rdiff_le1. Qed.

(** Every bound below -1 answers (-1, -1, -1) in both modes, whatever the sequences and the scratch buffer. *)
Theorem C09_negative_bound : forall a b m egf init, (m < -1)%Z -> lcs_band a b m egf init = (-1, -1, -1)%Z.
Proof. exact negative_bound. Qed.

(** No run-time panic: [lcs_band_c] is the kernel written with CHECKED slice accesses (every read of previous / current / bA / bB,
    every write, the two sub-slices of the scratch buffer and the final read answer None - Go's "index out of range" - outside
    the slice, and the cell values flow from the checked reads). It always answers Some of what the model answers: for all
    sequences, all bounds, both modes and any content and capacity of the scratch buffer FastLCSEGFScoreByte indexes in range,
    and the default value 0 that Model.v gives to an out-of-range read is never used. *)
Theorem C09_no_panic : forall a b maxerr egf init,
  lcs_band_c a b maxerr egf init = Some (lcs_band a b maxerr egf init).
Proof. exact lcs_band_no_panic. Qed.

(** The same for D1Or0: [d1or0_c] is D1Or0 written as the Go code is - the two index loops (from the start; from the ends) with
    every read of s1 / s2 checked, and fuel - and it always answers Some of what the list-level model [d1or0] (lcp / sfx, the
    subject of C09_d1or0_exact) answers: D1Or0 never indexes out of range, whatever the two sequences (e.g. e1 = -1 when the
    first sequence is a proper prefix of the second one is never read), and its loops compute lcp / sfx. *)
Theorem C09_d1or0_no_panic : forall s1 s2, d1or0_c s1 s2 = Some (d1or0 s1 s2).
Proof. exact d1or0_no_panic. Qed.

(** non-vacuity of the round-3 hypotheses: plain and IUPAC sequences meet selfc / exact2 / over; the conclusions are not trivial *)
Example C09_round3_nonvacuous :
  over nucs [97; 99; 103; 116]%N /\ selfc [97; 99; 110; 114; 78]%N /\ exact2 [97; 99; 103]%N [116; 103; 97]%N /\
  (forall a, over iupac_codes a -> selfc a) /\
  verdict (d1or0 [97; 99; 103; 116]%N [97; 103; 116]%N) = 1%Z /\ rdiff [97; 99; 103; 116]%N [97; 103; 116]%N = 1%Z /\
  fast_lcs_score [97; 99; 103; 116]%N [97; 103; 116]%N 1 [] = (3, 4)%Z /\
  map lower [65; 67; 71; 84]%N = map lower [97; 67; 103; 116]%N /\
  lcs_band [65; 67; 71; 84]%N [97; 103; 116]%N 1 false [] = (3, 4, 0)%Z /\
  samenuc 90 90 = false /\ samenuc 64 64 = true /\ samenuc 64 96 = false /\ samenuc 82 103 = true /\
  isout (enc 7 12 true) = true /\ lpath (enc 7 12 true) = 12%N /\
  allmatch [97; 99; 110]%N [97; 121; 103]%N /\ ~ allmatch [97; 99]%N [97; 103]%N /\
  fast_lcs_score [97; 99; 110]%N [97; 121; 103]%N 0 [] = (3, 3)%Z /\ fast_lcs_score [97; 99]%N [97; 103]%N 0 [] = (1, 2)%Z /\
  edit1c [97; 99; 110; 116]%N [97; 121; 116]%N /\ fast_lcs_score [97; 99; 110; 116]%N [97; 121; 116]%N 1 [] = (3, 4)%Z.
Proof.
  split; [intros c Hc; cbn in Hc |- *; tauto |].
  split; [apply iupac_selfc; intros c Hc; cbn in Hc |- *; tauto |].
  split; [apply nucs_exact2; intros c Hc; cbn in Hc |- *; tauto |].
  split; [exact iupac_selfc |].
  do 11 (split; [vm_compute; reflexivity |]).
  split; [repeat constructor |].
  split; [intro H; inversion H as [| ? ? ? ? _ H2]; inversion H2 as [| ? ? ? ? M _]; vm_compute in M; discriminate M |].
  split; [vm_compute; reflexivity |]. split; [vm_compute; reflexivity |].
  split; [| vm_compute; reflexivity].
  apply (Ec_del [97; 99]%N [97; 121]%N 110%N [116]%N [116]%N); repeat constructor.
Qed.

(** non-vacuity: the hypotheses are met by non-trivial values and the conclusions are not trivial there *)
Example C09_nonvacuous :
  (7 < 65536 /\ 12 <= 65534 /\ dec (enc 7 12 false) = (7, 12, false))%N /\
  edit1 [97; 99; 103; 116]%N [97; 103; 116]%N /\
  over nucs [97; 99; 103]%N /\
  fast_lcs_score [97; 99; 103; 116]%N [97; 103; 116]%N 1 [] = (3, 4)%Z /\
  fast_lcs_score [97; 97; 97; 97]%N [97; 97]%N 1 [] = (-1, -1)%Z /\
  fast_lcs_score [97; 99; 103; 116]%N [116; 103; 99; 97]%N 1 [] = (1, 5)%Z /\
  fast_lcs_score [97; 99; 103; 116]%N [97; 103; 116]%N 1 (repeat 7%N 40) = (3, 4)%Z /\
  (Z.of_nat (length [97; 99; 103; 116]%N) + Z.of_nat (length [116; 103; 99; 97]%N) <= 30000)%Z /\
  lcs_ref [97; 99; 103; 116]%N [116; 103; 99; 97]%N = (1, 5)%nat /\
  lev [97; 99; 103; 116]%N [99; 103; 116; 116]%N = 2%nat /\
  lcs_ref_egf [116; 116; 97; 99; 103; 116]%N [97; 99; 103]%N = (3, 3)%nat /\
  fast_lcs_egf_sl [116; 116; 97; 99; 103; 116]%N [97; 99; 103]%N 0 [] = (3, 3)%Z.
Proof.
  split; [vm_compute; repeat split; congruence |]. split; [exact (E_del [97]%N 99%N [103; 116]%N) |].
  split; [intros c Hc; cbn in Hc |- *; tauto |].
  split; [vm_compute; reflexivity |]. split; [vm_compute; reflexivity |]. split; [vm_compute; reflexivity |].
  split; [vm_compute; reflexivity |]. split; [vm_compute; discriminate |]. split; [vm_compute; reflexivity |]. split; [vm_compute; reflexivity |]. split; vm_compute; reflexivity.
Qed.

Print Assumptions C09_pack_order.
Print Assumptions C09_score_field_overflow_refuted.
Print Assumptions C09_pack_consts.
Print Assumptions C09_iupac_compat.
Print Assumptions C09_iupac_orig_refuted.
Print Assumptions C09_d1or0_exact.
Print Assumptions C09_d1or0_lev.
Print Assumptions C09_ref_is_lcs.
Print Assumptions C09_band_matrix.
Print Assumptions C09_buffer_independent.
Print Assumptions C09_band_cells.
Print Assumptions C09_band_geometry.
Print Assumptions C09_band_exact.
Print Assumptions C09_band_symmetric.
Print Assumptions C09_egf_ref_optimal.
Print Assumptions C09_egf_cells.
Print Assumptions C09_egf_exact.
Print Assumptions C09_band_swap.
Print Assumptions C09_ref_symmetric.
Print Assumptions C09_pack_accessors.
Print Assumptions C09_samenuc_all_bytes.
Print Assumptions C09_case_insensitive.
Print Assumptions C09_shortcut_sound.
Print Assumptions C09_shortcut_exact.
Print Assumptions C09_shortcut_kernel_plain.
Print Assumptions C09_shortcut_ambiguity_witness.
Print Assumptions C09_bound0_spec.
Print Assumptions C09_negative_bound.
Print Assumptions C09_bound1_spec.
Print Assumptions C09_ref_one_difference.
Print Assumptions C09_no_panic.
Print Assumptions C09_d1or0_no_panic.
