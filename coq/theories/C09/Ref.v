(** C09 — the reference recursion lcs_ref is the longest common subsequence with the shortest alignment. *)
From Coq Require Import NArith ZArith List Bool Lia.
Import ListNotations.
From OBI.C09 Require Import Model.
Open Scope nat_scope.

(* ------------------------------------------------------------------ reference = LCS + shortest alignment *)
(** alignments of a and b as sequences of columns; s = number of columns counted as matches (their two
    symbols must be compatible), l = number of columns (independent definition) *)
Inductive ali : list N -> list N -> nat -> nat -> Prop :=
| A_nil : ali [] [] 0 0
| A_match : forall x y a b s l, samenuc x y = true -> ali a b s l -> ali (x :: a) (y :: b) (S s) (S l)
| A_mism : forall x y a b s l, ali a b s l -> ali (x :: a) (y :: b) s (S l)
| A_gap_b : forall x a b s l, ali a b s l -> ali (x :: a) b s (S l)
| A_gap_a : forall y a b s l, ali a b s l -> ali a (y :: b) s (S l).

(** common subsequences under compatibility, n = their length (independent definition) *)
Inductive csub : list N -> list N -> nat -> Prop :=
| C_nil : csub [] [] 0
| C_match : forall x y a b n, samenuc x y = true -> csub a b n -> csub (x :: a) (y :: b) (S n)
| C_skip_a : forall x a b n, csub a b n -> csub (x :: a) b n
| C_skip_b : forall y a b n, csub a b n -> csub a (y :: b) n.

(** q is at least as good as p: more matches, or as many with an alignment at most as long *)
Definition le2 (p q : nat * nat) : Prop := fst p < fst q \/ (fst p = fst q /\ snd q <= snd p).

Lemma better_spec : forall p q, better p q = true <-> le2 q p.
Proof.
  intros [ps pl] [qs ql]. unfold better, le2. cbn [fst snd].
  rewrite orb_true_iff, andb_true_iff, Nat.ltb_lt, Nat.eqb_eq, Nat.leb_le. lia.
Qed.

Lemma le2_refl : forall p, le2 p p.
Proof. intros [s l]. unfold le2. cbn. lia. Qed.
Lemma le2_trans : forall p q r, le2 p q -> le2 q r -> le2 p r.
Proof. intros [a b] [c d] [e f]. unfold le2. cbn. lia. Qed.
Lemma le2_total : forall p q, le2 p q \/ le2 q p.
Proof. intros [a b] [c d]. unfold le2. cbn. lia. Qed.

Lemma best_l : forall p q, le2 p (best p q).
Proof.
  intros p q. unfold best. destruct (better p q) eqn:E; [apply le2_refl |].
  destruct (le2_total p q) as [H | H]; [exact H |]. apply better_spec in H. congruence.
Qed.
Lemma best_r : forall p q, le2 q (best p q).
Proof.
  intros p q. unfold best. destruct (better p q) eqn:E; [apply better_spec; exact E | apply le2_refl].
Qed.
Lemma best_cases : forall p q, best p q = p \/ best p q = q.
Proof. intros p q. unfold best. destruct (better p q); auto. Qed.

Lemma step1_mono : forall p q, le2 p q -> le2 (step1 p) (step1 q).
Proof. intros [a b] [c d]. unfold le2, step1. cbn. lia. Qed.
Lemma stepm_mono : forall m p q, le2 p q -> le2 (stepm m p) (stepm m q).
Proof. intros m [a b] [c d]. unfold le2, stepm. destruct m; cbn; lia. Qed.
Lemma step1_le_stepm : forall m p, le2 (step1 p) (stepm m p).
Proof. intros m [a b]. unfold le2, step1, stepm. destruct m; cbn; lia. Qed.

Lemma lcs_ref_nil_l : forall b, lcs_ref [] b = (0, length b).
Proof. reflexivity. Qed.
Lemma lcs_ref_nil_r : forall a, lcs_ref a [] = (0, length a).
Proof. destruct a; reflexivity. Qed.
Lemma lcs_ref_cons : forall x a y b,
  lcs_ref (x :: a) (y :: b) =
  best (stepm (samenuc x y) (lcs_ref a b)) (best (step1 (lcs_ref a (y :: b))) (step1 (lcs_ref (x :: a) b))).
Proof. reflexivity. Qed.

Lemma ali_nil_l : forall b, ali [] b 0 (length b).
Proof. induction b as [| y b IH]; [apply A_nil | cbn; apply A_gap_a; exact IH]. Qed.
Lemma ali_nil_r : forall a, ali a [] 0 (length a).
Proof. induction a as [| x a IH]; [apply A_nil | cbn; apply A_gap_b; exact IH]. Qed.

Lemma lcs_ref_achieved : forall a b, ali a b (fst (lcs_ref a b)) (snd (lcs_ref a b)).
Proof.
  induction a as [| x a IHa]; intro b.
  - rewrite lcs_ref_nil_l. apply ali_nil_l.
  - induction b as [| y b IHb].
    + rewrite lcs_ref_nil_r. apply ali_nil_r.
    + rewrite lcs_ref_cons.
      destruct (best_cases (stepm (samenuc x y) (lcs_ref a b))
                  (best (step1 (lcs_ref a (y :: b))) (step1 (lcs_ref (x :: a) b)))) as [E | E]; rewrite E.
      * unfold stepm. cbn [fst snd]. destruct (samenuc x y) eqn:M.
        -- apply A_match; [exact M | apply IHa].
        -- apply A_mism. apply IHa.
      * destruct (best_cases (step1 (lcs_ref a (y :: b))) (step1 (lcs_ref (x :: a) b))) as [F | F]; rewrite F;
          unfold step1; cbn [fst snd].
        -- apply A_gap_b. apply IHa.
        -- apply A_gap_a. exact IHb.
Qed.

Lemma lcs_ref_optimal : forall a b s l, ali a b s l -> le2 (s, l) (lcs_ref a b).
Proof.
  intros a b s l H. induction H as [| x y a b s l M H IH | x y a b s l H IH | x a b s l H IH | y a b s l H IH].
  - cbn. apply le2_refl.
  - rewrite lcs_ref_cons. eapply le2_trans; [| apply best_l]. rewrite M.
    change (S s, S l) with (stepm true (s, l)). apply stepm_mono. exact IH.
  - rewrite lcs_ref_cons. eapply le2_trans; [| apply best_l].
    eapply le2_trans; [| apply stepm_mono; exact IH]. apply (step1_le_stepm (samenuc x y) (s, l)).
  - destruct b as [| y b].
    + rewrite lcs_ref_nil_r in *. unfold le2 in *. cbn [fst snd length] in *. lia.
    + rewrite lcs_ref_cons. eapply le2_trans; [| apply best_r]. eapply le2_trans; [| apply best_l].
      change (s, S l) with (step1 (s, l)). apply step1_mono. exact IH.
  - destruct a as [| x a].
    + rewrite lcs_ref_nil_l in *. unfold le2 in *. cbn [fst snd length] in *. lia.
    + rewrite lcs_ref_cons. eapply le2_trans; [| apply best_r]. eapply le2_trans; [| apply best_r].
      change (s, S l) with (step1 (s, l)). apply step1_mono. exact IH.
Qed.

Lemma csub_ali : forall a b n, csub a b n -> exists l, ali a b n l.
Proof.
  intros a b n H. induction H as [| x y a b n M H [l IH] | x a b n H [l IH] | y a b n H [l IH]].
  - exists 0. apply A_nil.
  - exists (S l). apply A_match; assumption.
  - exists (S l). apply A_gap_b; assumption.
  - exists (S l). apply A_gap_a; assumption.
Qed.
Lemma ali_csub : forall a b s l, ali a b s l -> csub a b s.
Proof.
  intros a b s l H. induction H as [| x y a b s l M H IH | x y a b s l H IH | x a b s l H IH | y a b s l H IH].
  - apply C_nil.
  - apply C_match; assumption.
  - apply C_skip_a. apply C_skip_b. exact IH.
  - apply C_skip_a. exact IH.
  - apply C_skip_b. exact IH.
Qed.

Lemma lcs_ref_is_lcs : forall a b,
  csub a b (fst (lcs_ref a b)) /\ (forall n, csub a b n -> n <= fst (lcs_ref a b)).
Proof.
  intros a b. split.
  - eapply ali_csub. apply lcs_ref_achieved.
  - intros n H. destruct (csub_ali a b n H) as [l Hl]. apply lcs_ref_optimal in Hl.
    unfold le2 in Hl. cbn [fst snd] in Hl. lia.
Qed.
