(** C09 — executable model of pkg/obialign: packed cells (fastlcs.go), _samenuc/_iupac (table from Gen/Tables.v) and the banded
    two-row anti-diagonal LCS kernel FastLCSEGFScoreByte (fastlcsegf.go), D1Or0 (is_d0_or_d1.go),
    plus the reference full-matrix recursion lcs_ref. Definitions only. Bytes and uint64 words are [N]
    (wraps written out), Go ints are [Z]. *)
From Coq Require Import NArith ZArith List Bool.
Import ListNotations.
From OBI.C09.Gen Require Import Tables.
Open Scope N_scope.

(* ---------------------------------------------------------------- fastlcs.go: packed words *)
Definition W64 : N := 18446744073709551616.       (* 2^64 *)
Definition mask16 : N := 65535.                   (* uint64(1<<wsize) - 1, wsize = 16 *)
Definition outbit : N := 4294967296.              (* uint64(1) << dwsize, dwsize = 32 *)

(** encodeValues(score, length, out): (us << 16) | (uint64(^length - 1) & mask) [| 1<<32 if in band] *)
Definition enc (score len : N) (out : bool) : N :=
  let fo := N.lor ((score * 65536) mod W64) (N.land (W64 - 2 - len) mask16) in
  if out then fo else N.lor fo outbit.

(** decodeValues *)
Definition dec (v : N) : N * N * bool :=
  (N.land (N.shiftr v 16) mask16,
   N.land (N.lxor ((v + 1) mod W64) mask16) mask16,
   N.land v outbit =? 0).

(** _isout, _lpath: the two accessors without a caller (same expressions as in decodeValues) *)
Definition isout (v : N) : bool := N.land v outbit =? 0.
Definition lpath (v : N) : N := N.land (N.lxor ((v + 1) mod W64) mask16) mask16.

Definition incpath (v : N) : N := if v =? 0 then W64 - 1 else v - 1.      (* value - 1 on uint64 *)
Definition incscore (v : N) : N := (v + 65536) mod W64.                   (* value + 1<<16 *)
Definition setout (v : N) : N := N.land v (W64 - 1 - outbit).             (* value & ^(1<<32) *)

Definition c_empty : N := enc 0 0 false.
Definition c_out : N := enc 0 30000 true.
Definition c_notavail : N := enc 0 30000 false.

(* ---------------------------------------------------------------- _iupac / _samenuc *)
(** the table _iupac of the build under test, regenerated into Gen/Tables.v on every run *)
Definition iupac : list N := iupac_tab.

Definition lower (a : N) : N := if (65 <=? a) && (a <=? 90) then N.lor a 32 else a.
Definition is_lc (a : N) : bool := (97 <=? a) && (a <=? 122).

Definition samenuc (a b : N) : bool :=
  let a := lower a in let b := lower b in
  if is_lc a && is_lc b
  then 0 <? N.land (nth (N.to_nat (a - 97)) iupac 0) (nth (N.to_nat (b - 97)) iupac 0)
  else a =? b.

(* ---------------------------------------------------------------- FastLCSEGFScoreByte *)
Definition zlen {A} (l : list A) : Z := Z.of_nat (length l).
(** slice reads; every read of the kernel is guarded by the same tests as in the code, an index outside
    the slice (a Go panic) cannot occur and is given the value 0 *)
Definition get (l : list N) (k : Z) : N := if (k <? 0)%Z then 0 else nth (Z.to_nat k) l 0.
Definition set (k : Z) (v : N) (l : list N) : list N :=
  firstn (Z.to_nat k) l ++ v :: skipn (S (Z.to_nat k)) l.
(** overwrite l[k .. k+|cells|) *)
Definition splice (k : Z) (cells l : list N) : list N :=
  firstn (Z.to_nat k) l ++ cells ++ skipn (Z.to_nat k + length cells) l.
(** xs, xs+1, .., xf-1 *)
Definition zrange (xs xf : Z) : list Z :=
  map (fun k => (xs + Z.of_nat k)%Z) (seq 0 (Z.to_nat (xf - xs))).

(** the switch choosing the cell value, with the end-gap-free bookkeeping of (pend, end) *)
Definition choose (egf : bool) (i lB j : Z) (Sdiag Sup Sleft : N) (pe : Z * Z) : N * (Z * Z) :=
  if (Sup <=? Sdiag) && (Sleft <=? Sdiag) then (Sdiag, pe)
  else if Sleft <=? Sup then (Sup, pe)
  else (Sleft,
        if egf && (i =? lB)%Z then
          let '(_, l, o) := dec Sleft in
          if (fst pe <? Z.of_N l)%Z && negb o then (Z.of_N l, j) else pe
        else pe).

Section Kernel.
  Variables (egf : bool) (bA bB : list N) (lA lB extra even : Z).

  Definition first_row_left (j : Z) : N := if egf then enc 0 0 false else enc 0 (Z.to_N j) false.

  (** one cell of the even anti-diagonal i + j = 2y (first inner loop) *)
  Definition even_cell (previous : list N) (y : Z) (acc : list N * (Z * Z)) (x : Z) : list N * (Z * Z) :=
    let '(cells, pe) := acc in
    let i := (y - x + extra)%Z in
    let j := (y + x - extra)%Z in
    let '(Sdiag, Sup, Sleft) :=
      if (i =? 0)%Z then (c_notavail, c_notavail, first_row_left j)
      else if (j =? 0)%Z then (c_notavail, enc 0 (Z.to_N i) false, c_notavail)
      else
        let d0 := incpath (get previous x) in
        let d := if samenuc (get bA (j - 1)) (get bB (i - 1)) then incscore d0 else d0 in
        let u := if (x <? even - 1)%Z then incpath (get previous (x + even)) else c_out in
        let l := if (0 <? x)%Z then
                   let l0 := get previous (x + even - 1) in
                   if ((0 <? i)%Z && (i <? lB)%Z) || negb egf then incpath l0 else l0
                 else c_out in
        (d, u, l) in
    let '(score, pe') := choose egf i lB j Sdiag Sup Sleft pe in
    let score := if (x =? 0)%Z || (x =? even - 1)%Z then setout score else score in
    (score :: cells, pe').

  (** one cell of the odd anti-diagonal i + j = 2y+1 (second inner loop) *)
  Definition odd_cell (previous current : list N) (y : Z) (acc : list N * (Z * Z)) (x : Z) : list N * (Z * Z) :=
    let '(cells, pe) := acc in
    let i := (y - x + extra + even)%Z in
    let j := (y + x - extra - even + 1)%Z in
    let '(Sdiag, Sup, Sleft) :=
      if (i =? 0)%Z then (c_notavail, c_notavail, first_row_left j)
      else if (j =? 0)%Z then (c_notavail, enc 0 (Z.to_N i) false, c_notavail)
      else
        let d0 := incpath (get previous x) in
        let d := if samenuc (get bA (j - 1)) (get bB (i - 1)) then incscore d0 else d0 in
        let l0 := get current (x - even) in
        let l := if ((0 <? i)%Z && (i <? lB)%Z) || negb egf then incpath l0 else l0 in
        let u := incpath (get current (x - even + 1)) in
        (d, u, l) in
    let '(score, pe') := choose egf i lB j Sdiag Sup Sleft pe in
    (score :: cells, pe').

  (** body of the loop over y; returns the rows already swapped *)
  Definition row_step (y : Z) (st : list N * list N * (Z * Z)) : list N * list N * (Z * Z) :=
    let '(previous, current, pe) := st in
    let width := (2 * even - 1)%Z in
    let xs := Z.max (Z.max (y - lB + extra) (extra - y)) 0 in
    let xf := (Z.min (Z.min (y + extra) (lA + extra - y)) (even - 1) + 1)%Z in
    let '(cells, pe) := fold_left (even_cell previous y) (zrange xs xf) ([], pe) in
    let current := splice xs (rev cells) current in
    let xs := Z.max (Z.max (y - lB + extra + even) (extra - y + even - 1)) even in
    let xf := (Z.min (Z.min (y + extra + even) (lA + extra - y + even - 1)) (width - 1) + 1)%Z in
    let '(cells, pe) := fold_left (odd_cell previous current y) (zrange xs xf) ([], pe) in
    let current := splice xs (rev cells) current in
    (current, previous, pe).

  Fixpoint rows (n : nat) (y : Z) (st : list N * list N * (Z * Z)) : list N * list N * (Z * Z) :=
    match n with
    | O => st
    | S n' => rows n' (y + 1)%Z (row_step y st)
    end.
End Kernel.

(* ---------------------------------------------------------------- the same cells as a full matrix restricted to the band *)
(** Specification-level twin of the kernel's cell computation: the value of cell (i, j) (i along B, j along A) of
    the (|B|+1) x (|A|+1) matrix from the values of its diagonal, upper and left neighbours. The band is the set of
    diagonals 0 <= j - i + 2*extra <= 2*(even-1); the two extreme diagonals are forced "out", and the neighbour
    that would lie outside the band is replaced by c_out. No buffers, no anti-diagonal indexing. *)
Section Matrix.
  Variables (egf : bool) (bA bB : list N) (lB extra even : Z).

  Definition mtriple (i j : Z) (vd vu vl : N) : N * N * N :=
    let x2 := (j - i + 2 * extra)%Z in
    if (i =? 0)%Z then (c_notavail, c_notavail, if egf then enc 0 0 false else enc 0 (Z.to_N j) false)
    else if (j =? 0)%Z then (c_notavail, enc 0 (Z.to_N i) false, c_notavail)
    else
      let d0 := incpath vd in
      let d := if samenuc (get bA (j - 1)) (get bB (i - 1)) then incscore d0 else d0 in
      let u := if (x2 <? 2 * (even - 1))%Z then incpath vu else c_out in
      let l := if (0 <? x2)%Z then
                 (if ((0 <? i)%Z && (i <? lB)%Z) || negb egf then incpath vl else vl)
               else c_out in
      (d, u, l).

  Definition mcell (i j : Z) (vd vu vl : N) : N :=
    let x2 := (j - i + 2 * extra)%Z in
    let '(Sdiag, Sup, Sleft) := mtriple i j vd vu vl in
    let score := N.max Sdiag (N.max Sup Sleft) in
    if (x2 =? 0)%Z || (x2 =? 2 * (even - 1))%Z then setout score else score.

  (** end-gap-free bookkeeping (pend, end) of one cell *)
  Definition mpe (i j : Z) (vd vu vl : N) (pe : Z * Z) : Z * Z :=
    let '(Sdiag, Sup, Sleft) := mtriple i j vd vu vl in snd (choose egf i lB j Sdiag Sup Sleft pe).

  (** cw n i = cell (i, n - i), by recursion on the anti-diagonal number n *)
  Fixpoint cw (n : nat) (i : Z) : N :=
    match n with
    | O => mcell i (0 - i) 0 0 0
    | S n1 =>
      let j := (Z.of_nat n - i)%Z in
      match n1 with
      | O => mcell i j 0 (cw n1 (i - 1)) (cw n1 i)
      | S n2 => mcell i j (cw n2 (i - 1)) (cw n1 (i - 1)) (cw n1 i)
      end
    end.

  (** the banded matrix *)
  Definition bmat (i j : Z) : N := cw (Z.to_nat (i + j)) i.
End Matrix.

(** FastLCSEGFScoreByte(bA, bB, maxError, endgapfree, buffer) after the swap that makes bA the longer sequence;
    [init] is the content of *buffer (whole capacity) at the call, [] for a nil buffer. Result (score, length, end). *)
Definition lcs_core (bA bB : list N) (maxerr : Z) (egf : bool) (init : list N) : Z * Z * Z :=
  let lA := zlen bA in
  let lB := zlen bB in
  let maxe := if (maxerr =? -1)%Z then (lA * 2)%Z else maxerr in
  let delta := (lA - lB)%Z in
  let maxe := if egf then (maxe + delta)%Z else maxe in
  if (maxe <? delta)%Z then (-1, -1, -1)%Z else
  let extra := (maxe - delta + 1)%Z in
  let even := (1 + delta + 2 * extra)%Z in
  let width := (2 * even - 1)%Z in
  let buf := if (zlen init <? 2 * width)%Z then repeat 0 (Z.to_nat (3 * width)) else init in
  let previous := firstn (Z.to_nat width) buf in
  let current := firstn (Z.to_nat width) (skipn (Z.to_nat width) buf) in
  let previous := set extra c_empty previous in
  let previous := set (extra + even) (if egf then enc 0 0 false else enc 0 1 false) previous in
  let previous := set (extra + even - 1) (enc 0 1 false) previous in
  let ny := (lB + delta / 2)%Z in
  let '(previous, _, pe) := rows egf bA bB lA lB extra even (Z.to_nat ny) 1%Z (previous, current, (0, 0)%Z) in
  let '(s, l, o) := dec (get previous ((delta mod 2) * even + extra + delta / 2)%Z) in
  if o then (-1, -1, -1)%Z else (Z.of_N s, Z.of_N l, snd pe).

Definition lcs_band (a b : list N) (maxerr : Z) (egf : bool) (init : list N) : Z * Z * Z :=
  if (zlen a <? zlen b)%Z then lcs_core b a maxerr egf init else lcs_core a b maxerr egf init.

(** FastLCSScore / FastLCSEGFScore on the nucleotides of the two sequences *)
Definition fast_lcs_score (a b : list N) (maxerr : Z) (init : list N) : Z * Z :=
  let '(s, l, _) := lcs_band a b maxerr false init in (s, l).
Definition fast_lcs_egf_score (a b : list N) (maxerr : Z) (init : list N) : Z * Z * Z :=
  lcs_band a b maxerr true init.

(* ---------------------------------------------------------------- reference: full matrix, no band *)
(** lexicographic choice: more matches, then shorter alignment *)
Definition better (p q : nat * nat) : bool :=
  (fst q <? fst p)%nat || ((fst q =? fst p)%nat && (snd p <=? snd q)%nat).
Definition best (p q : nat * nat) : nat * nat := if better p q then p else q.
Definition step1 (p : nat * nat) : nat * nat := (fst p, S (snd p)).
Definition stepm (m : bool) (p : nat * nat) : nat * nat := ((if m then S (fst p) else fst p), S (snd p)).

(** value of cell (|a|,|b|) of the full Needleman-Wunsch matrix (match 1, mismatch/gap 0; shortest path) *)
Fixpoint lcs_ref (a b : list N) {struct a} : nat * nat :=
  match a with
  | [] => (O, length b)
  | x :: a' =>
    (fix inner (b : list N) : nat * nat :=
       match b with
       | [] => (O, length a)
       | y :: b' => best (stepm (samenuc x y) (lcs_ref a' b')) (best (step1 (lcs_ref a' b)) (step1 (inner b')))
       end) b
  end.

(* ---------------------------------------------------------------- D1Or0 *)
(** first loop: b1 = b2 = length of the common prefix *)
Fixpoint lcp (s1 s2 : list N) : nat :=
  match s1, s2 with
  | x :: s1', y :: s2' => if x =? y then S (lcp s1' s2') else O
  | _, _ => O
  end.
(** second loop, on the reversed remainders r1 = rev s1[b1:], r2 = rev s2[b2:] (heads are s1[e1], s2[e2];
    e1 > b1 iff r1 has more than one symbol left): number of iterations *)
Fixpoint sfx (r1 r2 : list N) : nat :=
  match r1, r2 with
  | x :: r1', y :: r2' =>
    if ((1 <? length r1)%nat || (1 <? length r2)%nat) && (x =? y) then S (sfx r1' r2') else O
  | _, _ => O
  end.

Definition dash : N := 45.

(** D1Or0(seq1, seq2) = (verdict, pos, a1, a2) *)
Definition d1or0 (s1 s2 : list N) : Z * Z * N * N :=
  let l1 := zlen s1 in
  let l2 := zlen s2 in
  if (1 <? Z.abs (l1 - l2))%Z then ((-1)%Z, (-1)%Z, 0, 0) else
  let b := Z.of_nat (lcp s1 s2) in
  if (b =? l1)%Z && (b =? l2)%Z then (0%Z, (-1)%Z, 0, 0) else
  let k := Z.of_nat (sfx (rev (skipn (lcp s1 s2) s1)) (rev (skipn (lcp s1 s2) s2))) in
  let e1 := (l1 - 1 - k)%Z in
  let e2 := (l2 - 1 - k)%Z in
  if ((l1 =? l2)%Z && ((b <? e1)%Z || (b <? e2)%Z))
     || ((l2 <? l1)%Z && (b <? e1)%Z)
     || ((l1 <? l2)%Z && (b <? e2)%Z)
  then ((-1)%Z, (-1)%Z, 0, 0) else
  let pos := if (e1 <=? b)%Z then (if (e2 <? e1)%Z then e1 else e2) else (-1)%Z in
  let a2 := if (e1 <=? e2)%Z then get s2 e2 else dash in
  let a1 := if (e2 <=? e1)%Z then get s1 e1 else dash in
  (1%Z, pos, a1, a2).

(* ---------------------------------------------------------------- exhaustive comparison band / reference *)
Definition nucs : list N := [97; 99; 103; 116].                      (* a c g t *)
Definition binary : list N := [97; 99].                              (* a c *)
(** all sequences over an alphabet of length n / of length <= n *)
Fixpoint seqs_len (alpha : list N) (n : nat) : list (list N) :=
  match n with O => [[]] | S n' => flat_map (fun s => map (fun c => c :: s) alpha) (seqs_len alpha n') end.
Fixpoint seqs_upto (alpha : list N) (n : nat) : list (list N) :=
  match n with O => [[]] | S n' => seqs_upto alpha n' ++ seqs_len alpha (S n') end.

(** the LCS clause of the property for one bound, as a boolean: r = reference (matches, length), sl = answer *)
Definition band_spec_ok_r (r : nat * nat) (sl : Z * Z) (m : Z) : bool :=
  let rs := Z.of_nat (fst r) in
  let rl := Z.of_nat (snd r) in
  let s := fst sl in
  let l := snd sl in
  if (m =? -1)%Z || (rl - rs <=? m)%Z then (s =? rs)%Z && (l =? rl)%Z
  else ((s =? -1)%Z && (l =? -1)%Z) || ((0 <=? s)%Z && (m <? l - s)%Z).
Definition band_spec_ok (a b : list N) (m : Z) : bool :=
  band_spec_ok_r (lcs_ref a b) (fast_lcs_score a b m []) m.

(** every pair of sequences over the alphabet of length <= n, every bound -1..n+1 (fresh buffer) *)
Definition band_ok_on (alpha : list N) (n : nat) : bool :=
  forallb (fun a => forallb (fun b =>
     let r := lcs_ref a b in
     forallb (fun m => band_spec_ok_r r (fast_lcs_score a b m []) m) (zrange (-1) (Z.of_nat n + 2)))
     (seqs_upto alpha n)) (seqs_upto alpha n).

(* ---------------------------------------------------------------- reference for the end-gap-free mode *)
(** value of the best alignment of a (the longer sequence) and b where the columns that consume a symbol of a only
    are free (not counted in the length) as long as no symbol of b has been consumed ([started] = false) and after
    the last symbol of b has been consumed (b = []): maximum number of matches, then the shortest counted length.
    Full recursion on the suffixes, no band. *)
Fixpoint egf_ref (a b : list N) (started : bool) {struct a} : nat * nat :=
  match a with
  | [] => (O, length b)
  | x :: a' =>
    (fix inner (b : list N) (started : bool) : nat * nat :=
       match b with
       | [] => (O, O)
       | y :: b' =>
         best (stepm (samenuc x y) (egf_ref a' b' true))
              (best (step1 (inner b' true))
                    (if started then step1 (egf_ref a' b started) else egf_ref a' b started))
       end) b started
  end.

(** FastLCSEGFScore swaps the sequences so that the first one is the longer *)
Definition lcs_ref_egf (a b : list N) : nat * nat :=
  if (length a <? length b)%nat then egf_ref b a false else egf_ref a b false.

Definition fast_lcs_egf_sl (a b : list N) (m : Z) (init : list N) : Z * Z :=
  let '(s, l, _) := lcs_band a b m true init in (s, l).

(* ---------------------------------------------------------------- correspondence cases *)
Inductive ccase :=
| CL (a b : list N) (m : Z) (egf : bool) (init : list N) (s l e : Z)   (* e is ignored when egf = false *)
| CD (a b : list N) (d pos : Z) (a1 a2 : N)
| CR (a b : list N) (egf : bool) (rs rl : Z)                           (* reference pair computed by the Python oracle *)
| CW (w s l : N) (o io : bool) (lp : N).                               (* decodeValues(w) = (s,l,o), _isout(w) = io, _lpath(w) = lp *)

Definition word_ok (w s l : N) (o io : bool) (lp : N) : bool :=
  let '(s', l', o') := dec w in
  (s' =? s) && (l' =? l) && Bool.eqb o' o && Bool.eqb (isout w) io && (lpath w =? lp).

Definition ref_ok (a b : list N) (egf : bool) (rs rl : Z) : bool :=
  let r := if egf then lcs_ref_egf a b else lcs_ref a b in
  (Z.of_nat (fst r) =? rs)%Z && (Z.of_nat (snd r) =? rl)%Z.

Definition case_ok (c : ccase) : bool :=
  match c with
  | CL a b m egf init s l e =>
    let '(s', l', e') := lcs_band a b m egf init in
    (s' =? s)%Z && (l' =? l)%Z && (negb egf || (e' =? e)%Z)
  | CD a b d pos a1 a2 =>
    let '(d', pos', a1', a2') := d1or0 a b in
    (d' =? d)%Z && (pos' =? pos)%Z && (a1' =? a1) && (a2' =? a2)
  | CR a b egf rs rl => ref_ok a b egf rs rl
  | CW w s l o io lp => word_ok w s l o io lp
  end.

Fixpoint mismatches_from (i : nat) (l : list ccase) : list nat :=
  match l with
  | [] => []
  | c :: l' => let rest := mismatches_from (S i) l' in if case_ok c then rest else i :: rest
  end.
Definition mismatches := mismatches_from 0.
