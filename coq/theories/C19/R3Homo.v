(** C19 — round 3: every homopolymer k-mer (aaa.., ccc.., ggg.., ttt..) is its own successor: a graph that holds one has a cycle. *)
From Coq Require Import NArith PArith List Bool Lia.
From OBI.C19 Require Import Model Algo Model3 Proofs R3Graph.
Import ListNotations.
Open Scope N_scope.

(* the k-mer made of k times the base b: b * (4^k - 1) / 3 = b * (1 + 4 + ... + 4^(k-1)) *)
Fixpoint rep4 (k : nat) : N := match k with O => 0 | S k' => 4 * rep4 k' + 1 end.
Definition homopolymer (k : nat) (b : N) : N := b * rep4 k.

Lemma rep4_pow : forall k, 3 * rep4 k + 1 = 4 ^ N.of_nat k.
Proof.
  induction k as [|k IH]; [reflexivity|]. rewrite Nat2N.inj_succ, N.pow_succ_r'. cbn [rep4]. lia.
Qed.

Lemma homopolymer_self_next : forall k g b, (1 <= k)%nat -> 2 * N.of_nat k < 64 -> b < 4 ->
  mem g (homopolymer k b) = true -> In (homopolymer k b) (nexts (N.of_nat k) g (homopolymer k b)).
Proof.
  intros k g b K1 K2 Hb M. apply nexts_spec; [lia|exact K2|]. split; [exact M|]. exists b. split; [exact Hb|].
  unfold homopolymer. pose proof (rep4_pow k) as P. set (R := rep4 k) in *. set (W := 4 ^ N.of_nat k) in *.
  assert (R1 : 1 <= R) by (destruct k; [lia|unfold R; cbn [rep4]; lia]).
  assert (E : 4 * (b * R) = b * W + (b * R - b)).
  { assert (b * W = 3 * (b * R) + b) by (rewrite <- P; lia). assert (b <= b * R) by (destruct b; [lia|nia]). lia. }
  rewrite E. replace (b * W + (b * R - b)) with ((b * R - b) + b * W) by lia. rewrite N.mod_add by (unfold W; apply N.pow_nonzero; discriminate).
  assert (S : b * R - b < W).
  { assert (b * R <= 3 * R) by (apply N.mul_le_mono_r; lia). lia. }
  rewrite N.mod_small by exact S. assert (b <= b * R) by (destruct b; [lia|nia]). lia.
Qed.

Theorem homopolymer_cyclic : forall k g b, (1 <= k)%nat -> 2 * N.of_nat k < 64 -> b < 4 ->
  mem g (homopolymer k b) = true -> has_cycle (N.of_nat k) g = true.
Proof.
  intros k g b K1 K2 Hb M. apply (self_loop_cyclic (N.of_nat k) g (homopolymer k b)).
  apply homopolymer_self_next; assumption.
Qed.

(* poly-c with k = 3 is 1 + 4 + 16 *)
Example homopolymer_example : homopolymer 3 1 = 21 /\ homopolymer 4 3 = 255.
Proof. split; reflexivity. Qed.
