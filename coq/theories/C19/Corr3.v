(** C19 — correspondence cases of round 3: the observations of harness/cmd/vh/c19r3.go against Model3.v.
    Iteration orders of Go maps (MaxHead, obistats.Mode) are not observable: an observation is accepted when SOME
    order produces it (the observed head put first in the order; one answer per candidate mode).
    Executable definitions only. *)
From Coq Require Import NArith List Bool.
From OBI.C19 Require Import Model Algo Corr Model3.
Import ListNotations.
Open Scope N_scope.

Definition cres_eqb (a b : cres) : bool :=
  match a, b with
  | CErr, CErr => true
  | CPanic, CPanic => true
  | CSeq x, CSeq y => list_eqb N.eqb x y
  | _, _ => false
  end.
Definition pair_opt_eqb (a b : option (N * N)) : bool := opt_eqb pair_eqb a b.
Definition hres_of (p : pobs) : hres := match p with PNil => HNil | PPanic => HPanic | PSome l => HPath l end.

Inductive xcase :=
| X3Old (c : ccase2)
| X3Graph (k : N) (seqs : list (list N * N))
    (speclen : option N) (spectrum : list (N * N))
    (prevl : list (list N)) (maxnexts : list (option (N * N)))
    (maxhead : option (N * N))
    (greedy : option (list N))                      (* MaxPath, when the harness ran it (acyclic graph) *)
    (minw : N) (filtered : list (N * N)) (filteredcyc : bool)
    (path : pobs) (covs : list (N * N * cres))       (* LongestConsensus(num / 2^e) for the observed heaviest path *)
    (ham : list (N * N * N))
| X3Query (wd k : N) (sparse : bool) (refs : list (list N)) (maxocc : option N) (minshared : N) (q : list N)
    (idxlen : N) (mq mrc : list (option N)) (nq nrc : N)
| X3C4 (s s2 : list N) (index : list (N * list N)) (sum sum2 common : N).

(* MaxNext / MaxPath pick "the first of the heaviest successors" in the order of Nexts: that order is not part of the property,
   an observation is accepted when it picks ANY heaviest successor at every step *)
Definition max_next_ok (k : N) (g : graph) (x : N) (obs : option (N * N)) : bool :=
  match obs, max_next k g x with
  | None, None => true
  | Some (y, w), Some (_, wm) => memb y (nexts k g x) && (weight g y =? w) && (w =? wm)
  | _, _ => false
  end.
Fixpoint greedy_ok (k : N) (g : graph) (p : list N) : bool :=
  match p with
  | [] => true
  | x :: q => match q with
              | [] => match nexts k g x with [] => true | _ => false end
              | y :: _ => max_next_ok k g x (Some (y, weight g y)) && greedy_ok k g q
              end
  end.

Fixpoint all_some {A} (l : list (option A)) : option (list A) :=
  match l with
  | [] => Some []
  | None :: _ => None
  | Some x :: t => match all_some t with Some r => Some (x :: r) | None => None end
  end.

Definition agrees3 (c : xcase) : bool :=
  match c with
  | X3Old c => agrees2 c
  | X3Graph k seqs speclen spectrum prevl maxnexts maxhead greedy minw filtered filteredcyc path covs ham =>
    match dbg_build k seqs with
    | None => false
    | Some g =>
      (match speclen with
       | None => true
       | Some n => (spectrum_len g =? n) && forallb (fun p => spectrum_at g (fst p) =? snd p) spectrum
                   && (fold_right N.add 0 (map snd spectrum) =? N.of_nat (length g))
       end)
      && list_eqb (list_eqb N.eqb) (map (fun x => sortN (prevs k g x)) (nodes g)) prevl     (* compared as sets: [prevl] comes sorted *)
      && (Nat.eqb (length maxnexts) (length g)) && forallb (fun t => max_next_ok k g (fst t) (snd t)) (combine (nodes g) maxnexts)
      && (match maxhead with
          | None => pair_opt_eqb (max_head k g (nodes g)) None
          | Some (h, w) => pair_opt_eqb (max_head k g (h :: nodes g)) (Some (h, w))
          end)
      && (match greedy with
          | None => true
          | Some [] => pair_opt_eqb (max_head k g (nodes g)) None
          | Some (h :: t) => pair_opt_eqb (max_head k g (h :: nodes g)) (Some (h, weight g h)) && greedy_ok k g (h :: t)
          end)
      && (if minw =? 0 then true else
          let g' := filter_min minw g in
          list_eqb pair_eqb g' filtered && opt_eqb Bool.eqb (go_has_cycle k g' (nodes g')) (Some filteredcyc))
      && (let r := hres_of path in
          forallb (fun t => match t with (num, e, obs) => existsb (cres_eqb obs) (cov_all_of_res k g r num e) end) covs)
      && forallb (fun t => match t with (a, b, h) => (ham_go k a b =? h) && (ham_spec (N.to_nat k) a b =? h) end) ham
    end
  | X3Query wd k sparse refs maxocc minshared q idxlen mq mrc nq nrc =>
    match all_some (map (canon wd k sparse) refs), canon wd k sparse q, canon wd k sparse (rcseq q) with
    | Some rk, Some qa, Some qb =>
      let ix := build_index maxocc rk in
      let rids := map N.of_nat (seq 0 (length refs)) in
      (N.of_nat (length ix) =? idxlen)
      && list_eqb (opt_eqb N.eqb) (map (query_count ix qa) rids) mq
      && list_eqb (opt_eqb N.eqb) (map (query_count ix qb) rids) mrc
      && (match_count ix qa (length refs) minshared =? nq)
      && (match_count ix qb (length refs) minshared =? nrc)
    | _, _, _ => false
    end
  | X3C4 s s2 index sum sum2 common =>
    opt_eqb (list_eqb (fun a b => (fst a =? fst b) && list_eqb N.eqb (snd a) (snd b))) (index4 s) (Some index)
    && (sum4 (counts4 s) =? sum) && (sum4 (counts4 s2) =? sum2)
    && (common4 (counts4 s) (counts4 s2) =? common) && (common4 (counts4 s2) (counts4 s) =? common)
  end.

Fixpoint mismatches3_from (i : nat) (l : list xcase) : list nat :=
  match l with
  | [] => []
  | c :: l' => let rest := mismatches3_from (S i) l' in if agrees3 c then rest else i :: rest
  end.
Definition mismatches3 := mismatches3_from 0.
