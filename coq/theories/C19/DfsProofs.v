(** C19 — the transcription of DeBruijnGraph.HasCycle (recursive DFS with visited / stack maps) decides
    exactly the specification has_cycle, for every iteration order of the Go map. *)
From Coq Require Import NArith List Bool Lia.
From OBI.C19 Require Import Model Proofs Algo.
Import ListNotations.
Open Scope N_scope.

Lemma memb_In' : forall x l, memb x l = true <-> In x l.
Proof.
  intros x l. unfold memb. rewrite existsb_exists. split.
  - intros (y & Hy & E). apply N.eqb_eq in E. subst. exact Hy.
  - intro H. exists x. split; [exact H|apply N.eqb_refl].
Qed.
Lemma memb_false' : forall x l, memb x l = false <-> ~ In x l.
Proof. intros x l. rewrite <- memb_In'. destruct (memb x l); split; intro H; congruence. Qed.

Lemma del_notin : forall x l, ~ In x l -> del x (x :: l) = l.
Proof.
  intros x l H. unfold del. cbn [filter]. rewrite N.eqb_refl. cbn [negb].
  induction l as [|y l IH]; [reflexivity|]. cbn [filter].
  destruct (N.eqb_spec y x) as [E|NE]; [exfalso; apply H; left; exact E|].
  cbn [negb]. f_equal. apply IH. intro I. apply H. right. exact I.
Qed.

Section Dfs.
Variables (k : N) (g : graph).

Definition edge (x y : N) : Prop := In y (nexts k g x).
Definition cyc (x : N) : Prop := exists p, is_walk k g (x :: p ++ [x]).
Definition black (v s : list N) (x : N) : Prop := In x v /\ ~ In x s.

(* the stack, newest first: each node is a successor of the one below it *)
Fixpoint chain (l : list N) : Prop :=
  match l with
  | a :: (b :: _) as t => edge b a /\ chain t
  | _ => True
  end.

Lemma chain_prefix : forall l1 l2, chain (l1 ++ l2) -> chain l1.
Proof.
  induction l1 as [|a l1 IH]; intros l2 H; [exact I|].
  destruct l1 as [|b l1]; [exact I|]. cbn [app chain] in *. destruct H as [E H]. split; [exact E|]. apply (IH l2). exact H.
Qed.

Lemma chain_rev_walk : forall l, l <> [] -> chain l -> (forall x, In x l -> mem g x = true) -> is_walk k g (rev l).
Proof.
  induction l as [|a l IH]; intros Hne Hc Hm; [congruence|].
  destruct l as [|b l].
  - cbn. split; [apply Hm; left; reflexivity|exact I].
  - destruct Hc as [E Hc]. cbn [rev] in *.
    assert (W : is_walk k g (rev l ++ [b])).
    { apply IH; [discriminate|exact Hc|]. intros x Hx. apply Hm. right. exact Hx. }
    rewrite <- app_assoc. cbn [app]. apply walk_app; [exact W|].
    cbn [is_walk]. split; [apply Hm; right; left; reflexivity|]. split; [exact E|]. split; [apply Hm; left; reflexivity|exact I].
Qed.

Lemma stack_cycle : forall a l y, chain (a :: l) -> (forall x, In x (a :: l) -> mem g x = true) ->
  In y (a :: l) -> edge a y -> cyc y.
Proof.
  intros a l y Hc Hm Hy He.
  apply in_split in Hy. destruct Hy as (pre & rest & E).
  assert (C2 : chain (y :: pre ++ [y])).
  { apply (chain_prefix _ rest). cbn [app]. rewrite <- app_assoc. cbn [app]. rewrite <- E. cbn [chain]. split; [exact He|exact Hc]. }
  exists (rev pre).
  assert (W : is_walk k g (rev (y :: pre ++ [y]))).
  { apply chain_rev_walk; [discriminate|exact C2|].
    assert (My : mem g y = true) by (apply Hm; rewrite E; apply in_or_app; right; left; reflexivity).
    intros x [<-|Hx]; [exact My|]. apply in_app_or in Hx. destruct Hx as [Hx|[<-|[]]]; [|exact My].
    apply Hm. rewrite E. apply in_or_app. left. exact Hx. }
  cbn [rev] in W. rewrite rev_app_distr in W. cbn [rev app] in W. exact W.
Qed.

Definition Inv (v s : list N) : Prop :=
  forall x, black v s x -> (forall y, edge x y -> black v s y) /\ ~ cyc x.

Definition unvl (vis l : list N) : nat := length (filter (fun x => negb (memb x vis)) l).
Definition unv (vis : list N) : nat := unvl vis (nodes g).

Lemma unvl_le : forall l v v', incl v v' -> (unvl v' l <= unvl v l)%nat.
Proof.
  intros l v v' Hi. unfold unvl. induction l as [|x l IH]; [cbn; lia|].
  cbn [filter]. destruct (memb x v) eqn:M1.
  - assert (M2 : memb x v' = true) by (apply memb_In'; apply Hi; apply memb_In'; exact M1). rewrite M2. cbn [negb]. exact IH.
  - cbn [negb]. destruct (memb x v'); cbn [negb length]; lia.
Qed.
Lemma unvl_lt : forall l v x, In x l -> ~ In x v -> (unvl (x :: v) l < unvl v l)%nat.
Proof.
  induction l as [|y l IH]; intros v x Hx Hn; [destruct Hx|].
  pose proof (unvl_le l v (x :: v) (fun z Hz => or_intror Hz)) as Le.
  unfold unvl in *. cbn [filter]. destruct Hx as [->|Hx].
  - assert (M1 : memb x (x :: v) = true) by (apply memb_In'; left; reflexivity).
    assert (M2 : memb x v = false) by (apply memb_false'; exact Hn).
    rewrite M1, M2. cbn [negb length]. lia.
  - specialize (IH v x Hx Hn). destruct (memb y v) eqn:M1.
    + assert (M2 : memb y (x :: v) = true) by (apply memb_In'; right; apply memb_In'; exact M1). rewrite M2. cbn [negb]. exact IH.
    + cbn [negb]. destruct (memb y (x :: v)); cbn [negb length]; lia.
Qed.
Lemma unv_max : forall v, (unv v <= length g)%nat.
Proof.
  intro v. unfold unv, unvl. assert (L : forall l, (length (filter (fun x => negb (memb x v)) l) <= length l)%nat).
  { induction l as [|x l IH]; [cbn; lia|]. cbn [filter]. destruct (negb (memb x v)); cbn [length]; lia. }
  specialize (L (nodes g)). unfold nodes in L at 2. rewrite map_length in L. exact L.
Qed.

Definition Pre (node : N) (vis stk : list N) : Prop :=
  In node (nodes g) /\ ~ In node vis /\ incl stk vis /\ (forall x, In x stk -> mem g x = true) /\
  chain (node :: stk) /\ Inv vis stk.

Definition Post (node : N) (vis stk : list N) (r : bool * list N * list N) : Prop :=
  match r with
  | (true, _, _) => exists x, cyc x
  | (false, v', s') => s' = stk /\ incl vis v' /\ Inv v' stk /\ black v' stk node
  end.

Definition ScanPost (node : N) (ns v stk : list N) (r : bool * list N * list N) : Prop :=
  match r with
  | (true, _, _) => exists x, cyc x
  | (false, v', s') => s' = stk /\ incl v v' /\ Inv v' (node :: stk) /\ (forall y, In y ns -> black v' (node :: stk) y)
  end.

Lemma scan_spec : forall f node stk,
  (forall nd vis st, Pre nd vis st -> (unv vis <= f)%nat -> exists r, dfs f k g nd vis st = Some r /\ Post nd vis st r) ->
  mem g node = true -> ~ In node stk -> (forall x, In x stk -> mem g x = true) -> chain (node :: stk) ->
  forall ns v, incl ns (nexts k g node) -> In node v -> incl stk v -> Inv v (node :: stk) -> (unv v <= f)%nat ->
  exists r, scan (dfs f k g) node ns v (node :: stk) = Some r /\ ScanPost node ns v stk r.
Proof.
  intros f node stk IHf Mn Hns Hms Hch.
  assert (Hm2 : forall x, In x (node :: stk) -> mem g x = true) by (intros x [<-|Hx]; [exact Mn|apply Hms; exact Hx]).
  induction ns as [|y ns IH]; intros v Hi Hnv Hsv HI Hu.
  - cbn [scan]. eexists. split; [reflexivity|]. cbn [ScanPost]. rewrite del_notin by exact Hns.
    split; [reflexivity|]. split; [apply incl_refl|]. split; [exact HI|]. intros y [].
  - assert (Ey : edge node y) by (apply Hi; left; reflexivity).
    assert (Hi' : incl ns (nexts k g node)) by (intros z Hz; apply Hi; right; exact Hz).
    assert (Hsv2 : incl (node :: stk) v) by (intros z [<-|Hz]; [exact Hnv|apply Hsv; exact Hz]).
    cbn [scan]. destruct (memb y v) eqn:My; cbn [negb].
    + apply memb_In' in My. destruct (memb y (node :: stk)) eqn:Ms.
      * apply memb_In' in Ms. eexists. split; [reflexivity|]. cbn [ScanPost].
        exists y. apply (stack_cycle node stk y Hch Hm2 Ms Ey).
      * apply memb_false' in Ms. destruct (IH v Hi' Hnv Hsv HI Hu) as (r & Er & Pr).
        exists r. split; [exact Er|]. destruct r as [[[|] v'] s']; [exact Pr|].
        destruct Pr as (P1 & P2 & P3 & P4). split; [exact P1|]. split; [exact P2|]. split; [exact P3|].
        intros z [<-|Hz]; [split; [apply P2; exact My|exact Ms]|apply P4; exact Hz].
    + apply memb_false' in My.
      destruct (IHf y v (node :: stk)) as (r1 & E1 & P1).
      { split; [apply mem_nodes; eapply nexts_mem; exact Ey|]. split; [exact My|]. split; [exact Hsv2|].
        split; [exact Hm2|]. split; [|exact HI]. cbn [chain]. split; [exact Ey|exact Hch]. }
      { exact Hu. }
      rewrite E1. destruct r1 as [[[|] v1] s1].
      * eexists. split; [reflexivity|]. exact P1.
      * destruct P1 as (Q1 & Q2 & Q3 & Q4). subst s1.
        destruct (IH v1 Hi' (Q2 _ Hnv) (fun z Hz => Q2 _ (Hsv z Hz)) Q3) as (r & Er & Pr).
        { pose proof (unvl_le (nodes g) v v1 Q2). unfold unv in *. lia. }
        exists r. split; [exact Er|]. destruct r as [[[|] v'] s']; [exact Pr|].
        destruct Pr as (R1 & R2 & R3 & R4). split; [exact R1|]. split; [intros z Hz; apply R2; apply Q2; exact Hz|].
        split; [exact R3|]. intros z [<-|Hz]; [|apply R4; exact Hz].
        destruct Q4 as [B1 B2]. split; [apply R2; exact B1|exact B2].
Qed.

Lemma dfs_spec : forall fuel node vis stk, Pre node vis stk -> (unv vis <= fuel)%nat ->
  exists r, dfs fuel k g node vis stk = Some r /\ Post node vis stk r.
Proof.
  induction fuel as [|f IHf]; intros node vis stk (P1 & P2 & P3 & P4 & P5 & P6) Hu.
  - exfalso. pose proof (unvl_lt (nodes g) vis node P1 P2). unfold unv in Hu. lia.
  - cbn [dfs].
    assert (Mn : mem g node = true) by (apply mem_nodes; exact P1).
    assert (Hns : ~ In node stk) by (intro Hx; apply P2; apply P3; exact Hx).
    destruct (scan_spec f node stk IHf Mn Hns P4 P5 (nexts k g node) (node :: vis)) as (r & Er & Pr).
    + apply incl_refl.
    + left; reflexivity.
    + intros z Hz. right. apply P3. exact Hz.
    + intros x [Bx1 Bx2].
      assert (Nx : x <> node) by (intro E; apply Bx2; left; symmetry; exact E).
      assert (Bx : black vis stk x).
      { split; [destruct Bx1 as [E|Hx]; [congruence|exact Hx]|intro Hx; apply Bx2; right; exact Hx]. }
      destruct (P6 x Bx) as [S1 S2]. split; [|exact S2].
      intros y Ey. destruct (S1 y Ey) as [Y1 Y2]. split; [right; exact Y1|].
      intros [E|Hy]; [subst y; apply P2; exact Y1|apply Y2; exact Hy].
    + pose proof (unvl_lt (nodes g) vis node P1 P2). unfold unv in *. lia.
    + exists r. split; [exact Er|]. destruct r as [[[|] v'] s']; [exact Pr|].
      destruct Pr as (R1 & R2 & R3 & R4). cbn [Post].
      assert (Bn : black v' stk node) by (split; [apply R2; left; reflexivity|exact Hns]).
      split; [exact R1|]. split; [intros z Hz; apply R2; right; exact Hz|]. split; [|exact Bn].
      intros x [Bx1 Bx2]. destruct (N.eq_dec x node) as [->|Nx].
      * split.
        -- intros y Ey. destruct (R4 y Ey) as [Y1 Y2]. split; [exact Y1|intro Hy; apply Y2; right; exact Hy].
        -- intros [p Hw]. destruct p as [|y p'].
           ++ cbn [app is_walk] in Hw. destruct Hw as (_ & Es & _).
              destruct (R4 node Es) as [_ Y2]. apply Y2. left. reflexivity.
           ++ cbn [app is_walk] in Hw. destruct Hw as (_ & Ey & Hw).
              assert (By : black v' (node :: stk) y) by (apply R4; exact Ey).
              destruct (R3 y By) as [_ NC]. apply NC. exists (p' ++ [node]).
              rewrite <- app_assoc. cbn [app].
              change (y :: p' ++ node :: [y]) with ((y :: p') ++ node :: [y]).
              apply walk_app; [exact Hw|]. cbn [is_walk]. split; [exact Mn|]. split; [exact Ey|].
              split; [eapply nexts_mem; exact Ey|exact I].
      * assert (Bx : black v' (node :: stk) x).
        { split; [exact Bx1|]. intros [E|Hx]; [apply Nx; symmetry; exact E|apply Bx2; exact Hx]. }
        destruct (R3 x Bx) as [S1 S2]. split; [|exact S2].
        intros y Ey. destruct (S1 y Ey) as [Y1 Y2]. split; [exact Y1|intro Hy; apply Y2; right; exact Hy].
Qed.

Lemma outer_spec : forall fuel order vis, (unv vis <= fuel)%nat -> Inv vis [] -> incl order (nodes g) ->
  exists b, hc_outer fuel k g order vis [] = Some b /\
    (if b then exists x, cyc x
     else exists v', incl vis v' /\ Inv v' [] /\ forall x, In x order -> In x v').
Proof.
  intros fuel. induction order as [|x t IH]; intros vis Hu HI Hi.
  - exists false. split; [reflexivity|]. exists vis. split; [apply incl_refl|]. split; [exact HI|]. intros x [].
  - assert (Hi' : incl t (nodes g)) by (intros z Hz; apply Hi; right; exact Hz).
    cbn [hc_outer]. destruct (memb x vis) eqn:Mx.
    + apply memb_In' in Mx. destruct (IH vis Hu HI Hi') as (b & Eb & Pb). exists b. split; [exact Eb|].
      destruct b; [exact Pb|]. destruct Pb as (v' & A & B & C). exists v'. split; [exact A|]. split; [exact B|].
      intros z [<-|Hz]; [apply A; exact Mx|apply C; exact Hz].
    + apply memb_false' in Mx.
      destruct (dfs_spec fuel x vis []) as (r & Er & Pr); [|exact Hu|].
      { split; [apply Hi; left; reflexivity|]. split; [exact Mx|]. split; [intros z []|]. split; [intros z []|].
        split; [exact I|exact HI]. }
      rewrite Er. destruct r as [[[|] v1] s1].
      * exists true. split; [reflexivity|exact Pr].
      * destruct Pr as (R1 & R2 & R3 & R4). subst s1.
        destruct (IH v1) as (b & Eb & Pb); [|exact R3|exact Hi'|].
        { pose proof (unvl_le (nodes g) vis v1 R2). unfold unv in *. lia. }
        exists b. split; [exact Eb|]. destruct b; [exact Pb|]. destruct Pb as (v' & A & B & C).
        exists v'. split; [intros z Hz; apply A; apply R2; exact Hz|]. split; [exact B|].
        intros z [<-|Hz]; [apply A; apply R4|apply C; exact Hz].
Qed.

Theorem go_has_cycle_correct : forall order, (forall x, In x order <-> In x (nodes g)) ->
  go_has_cycle k g order = Some (has_cycle k g).
Proof.
  intros order Ho. unfold go_has_cycle.
  destruct (outer_spec (S (length g)) order []) as (b & Eb & Pb).
  - pose proof (unv_max []). lia.
  - intros x [[] _].
  - intros x Hx. apply Ho. exact Hx.
  - rewrite Eb. f_equal. destruct b.
    + destruct Pb as (x & p & Hw). symmetry. apply has_cycle_iff. exists x, p. exact Hw.
    + destruct Pb as (v' & _ & HI & Hall). destruct (has_cycle k g) eqn:Hc; [|reflexivity]. exfalso.
      apply has_cycle_iff in Hc. destruct Hc as (x & p & Hw).
      assert (Hx : In x (nodes g)) by (apply mem_nodes; destruct Hw as [Hm _]; exact Hm).
      assert (Bx : black v' [] x) by (split; [apply Hall; apply Ho; exact Hx|intros []]).
      destruct (HI x Bx) as [_ NC]. apply NC. exists p. exact Hw.
Qed.
End Dfs.
