(** C19 — LongestConsensus(id, 0) on graphs built by Push: the string returned is the spelling of the heaviest walk. *)
From Coq Require Import NArith PArith List Bool Lia.
From OBI.C19 Require Import Model Proofs Algo HavProofs DfsProofs AlgoProofs BuiltProofs SingleProofs KmerString DecodeProofs.
Import ListNotations.
Open Scope N_scope.

Lemma longest_consensus_spec : forall k seqs g, 1 <= k -> k <= 31 -> dbg_build k seqs = Some g ->
  Forall (fun sq => 0 < snd sq) seqs -> g <> [] ->
  match best_walk_weight k g with
  | None => has_cycle k g = true /\ longest_consensus k g = None
  | Some bw => exists cs p, longest_consensus k g = Some (map decode cs) /\ digits cs /\
                 length cs = (N.to_nat k + length p - 1)%nat /\ kmers (N.to_nat k) cs = p /\
                 go_heaviest_path k g = HPath p /\ is_walk k g p /\ wsum g p = bw /\
                 (exists h rest, p = h :: rest /\ In h (heads k g)) /\
                 forall h' p', In h' (heads k g) -> is_walk k g (h' :: p') -> wsum g (h' :: p') <= wsum g p
  end.
Proof.
  intros k seqs g K1 K2 Hb Hpos Hne.
  pose proof (built_heaviest_path_optimal k seqs g K1 K2 Hb Hpos Hne) as H.
  destruct (best_walk_weight k g) as [bw|].
  - destruct H as (h & rest & Hp & Hh & Hw & Hs & Hopt).
    destruct (decode_path_spells_walk_built k seqs g (h :: rest) K1 K2 Hb Hw) as (cs & Dc & Ed & Lc & Ek).
    exists cs, (h :: rest).
    split.
    + unfold longest_consensus. destruct g as [|n0 g']; [congruence|]. rewrite Hp, Ed.
      destruct cs as [|c cs']; [cbn [length] in Lc; lia|]. reflexivity.
    + split; [exact Dc|]. split; [exact Lc|]. split; [exact Ek|]. split; [exact Hp|]. split; [exact Hw|].
      split; [exact Hs|]. split; [exists h, rest; split; [reflexivity|exact Hh]|exact Hopt].
  - destruct H as [Hc Hn]. split; [exact Hc|].
    unfold longest_consensus. destruct g as [|n0 g']; [congruence|]. rewrite Hn. reflexivity.
Qed.
