(** C19 — round 3: DeBruijnGraph.HammingDistance (xor, fold the two bits of every base onto the low one, mask, popcount)
    counts exactly the positions, among the k bases, where two k-mers differ. *)
From Coq Require Import Arith NArith PArith List Bool Lia.
From OBI.C19 Require Import Model Algo Model3 Proofs.
Import ListNotations.
Open Scope N_scope.

(* 0101...01 on k bases *)
Fixpoint mask5 (k : nat) : N := match k with O => 0 | S k' => 2 * (2 * mask5 k') + 1 end.

Lemma mask_is_mask5 : forall k, (k <= 31)%nat -> N.land M5555 (dbg_mask (N.of_nat k)) = mask5 k.
Proof.
  intros k H.
  assert (A : forallb (fun k => N.land M5555 (dbg_mask (N.of_nat k)) =? mask5 k) (seq 0 32) = true) by (vm_compute; reflexivity).
  rewrite forallb_forall in A. apply N.eqb_eq. apply A. apply in_seq. lia.
Qed.

Lemma popcount_double : forall n, popcount (2 * n) = popcount n.
Proof. destruct n; reflexivity. Qed.
Lemma popcount_succ_double : forall n, popcount (2 * n + 1) = 1 + popcount n.
Proof. destruct n; reflexivity. Qed.

(* and with ...0101: bit 0 of y, then (y >> 2) and m two places up *)
Lemma land_mask_step : forall y m,
  N.land y (2 * (2 * m) + 1) = 2 * (2 * N.land (N.shiftr y 2) m) + N.b2n (N.testbit y 0).
Proof.
  intros y m. apply N.bits_inj. intro n. rewrite N.land_spec.
  assert (R : forall a (c : bool) j, N.testbit (2 * a + N.b2n c) j = if j =? 0 then c else N.testbit a (N.pred j)).
  { intros a c j. destruct (N.eqb_spec j 0) as [->|Hj].
    - apply N.testbit_0_r.
    - replace j with (N.succ (N.pred j)) at 1 by lia. apply N.testbit_succ_r. }
  change (2 * (2 * m) + 1) with (2 * (2 * m) + N.b2n true). rewrite !R.
  destruct (N.eqb_spec n 0) as [->|Hn]; [apply andb_true_r|].
  replace (2 * m) with (2 * m + N.b2n false) by (cbn [N.b2n]; lia).
  replace (2 * N.land (N.shiftr y 2) m) with (2 * N.land (N.shiftr y 2) m + N.b2n false) by (cbn [N.b2n]; lia).
  rewrite !R. destruct (N.eqb_spec (N.pred n) 0) as [E|Hp]; [apply andb_false_r|].
  rewrite N.land_spec, N.shiftr_spec by lia. replace (N.pred (N.pred n) + 2) with n by lia. reflexivity.
Qed.

Definition nz2 (x : N) : N := if N.testbit x 0 || N.testbit x 1 then 1 else 0.
(* number of the k low bases (2 bits each) of x that are not 00 *)
Fixpoint cnt (k : nat) (x : N) : N := match k with O => 0 | S k' => nz2 x + cnt k' (N.shiftr x 2) end.

Lemma fold_popcount : forall k x, popcount (N.land (N.lor x (N.shiftr x 1)) (mask5 k)) = cnt k x.
Proof.
  induction k as [|k IH]; intro x; cbn [mask5 cnt].
  - rewrite N.land_0_r. reflexivity.
  - rewrite land_mask_step.
    assert (B : N.testbit (N.lor x (N.shiftr x 1)) 0 = N.testbit x 0 || N.testbit x 1).
    { rewrite N.lor_spec, N.shiftr_spec by lia. reflexivity. }
    assert (S2 : N.shiftr (N.lor x (N.shiftr x 1)) 2 = N.lor (N.shiftr x 2) (N.shiftr (N.shiftr x 2) 1)).
    { rewrite N.shiftr_lor, !N.shiftr_shiftr. reflexivity. }
    rewrite B, S2. unfold nz2. destruct (N.testbit x 0 || N.testbit x 1); cbn [N.b2n].
    + rewrite popcount_succ_double, popcount_double, IH. reflexivity.
    + rewrite N.add_0_r, !popcount_double, IH. lia.
Qed.

Lemma land3_zero : forall x, (N.land x 3 =? 0) = negb (N.testbit x 0 || N.testbit x 1).
Proof.
  intro x. destruct (N.testbit x 0 || N.testbit x 1) eqn:E; cbn [negb].
  - apply N.eqb_neq. intro Z. apply orb_true_iff in E.
    assert (T0 : N.testbit (N.land x 3) 0 = N.testbit x 0) by (rewrite N.land_spec; change (N.testbit 3 0) with true; apply andb_true_r).
    assert (T1 : N.testbit (N.land x 3) 1 = N.testbit x 1) by (rewrite N.land_spec; change (N.testbit 3 1) with true; apply andb_true_r).
    rewrite Z in T0, T1. cbn in T0, T1. destruct E as [E|E]; congruence.
  - apply N.eqb_eq. apply orb_false_iff in E. destruct E as [E0 E1]. apply N.bits_inj. intro n. rewrite N.land_spec, N.bits_0.
    destruct n as [|[p|p|]]; [rewrite E0; reflexivity|cbn; apply andb_false_r|cbn; apply andb_false_r|rewrite E1; reflexivity].
Qed.

Lemma digit4_succ : forall i x, digit4 (S i) x = digit4 i (N.shiftr x 2).
Proof.
  intros i x. unfold digit4. rewrite N.shiftr_shiftr. f_equal. f_equal. lia.
Qed.

Lemma cnt_spec : forall k x, cnt k x = N.of_nat (length (filter (fun i => negb (digit4 i x =? 0)) (seq 0 k))).
Proof.
  induction k as [|k IH]; intro x; [reflexivity|]. cbn [cnt]. rewrite IH.
  rewrite <- cons_seq, <- seq_shift. cbn [filter].
  assert (F : forall l, length (filter (fun i => negb (digit4 i x =? 0)) (map S l)) = length (filter (fun i => negb (digit4 i (N.shiftr x 2) =? 0)) l)).
  { induction l as [|a l IHl]; [reflexivity|]. cbn [map filter]. rewrite digit4_succ. destruct (negb (digit4 a (N.shiftr x 2) =? 0)); cbn [length]; rewrite IHl; reflexivity. }
  unfold nz2. assert (D0 : digit4 0 x = N.land x 3) by (unfold digit4; cbn; reflexivity).
  rewrite D0, land3_zero, negb_involutive.
  destruct (N.testbit x 0 || N.testbit x 1); cbn [length]; rewrite F; lia.
Qed.

Lemma digit4_lxor : forall i a b, (digit4 i (N.lxor a b) =? 0) = (digit4 i a =? digit4 i b).
Proof.
  intros i a b. unfold digit4. rewrite N.shiftr_lxor.
  set (u := N.shiftr a (2 * N.of_nat i)). set (v := N.shiftr b (2 * N.of_nat i)).
  assert (E : N.land (N.lxor u v) 3 = N.lxor (N.land u 3) (N.land v 3)).
  { apply N.bits_inj. intro n. rewrite N.land_spec, !N.lxor_spec, !N.land_spec. destruct (N.testbit 3 n); [rewrite !andb_true_r|rewrite !andb_false_r]; reflexivity. }
  rewrite E. destruct (N.eqb_spec (N.land u 3) (N.land v 3)) as [H|H].
  - rewrite H, N.lxor_nilpotent. reflexivity.
  - apply N.eqb_neq. intro Z. apply N.lxor_eq in Z. contradiction.
Qed.

(* HammingDistance(a, b) = number of positions, among the k bases, where the k-mers a and b differ (k = 1..31; bits above
   the k-mer are ignored) *)
Theorem hamming_exact : forall k a b, (k <= 31)%nat -> ham_go (N.of_nat k) a b = ham_spec k a b.
Proof.
  intros k a b H. unfold ham_go, ham_spec. cbv zeta. rewrite mask_is_mask5 by exact H. rewrite fold_popcount, cnt_spec.
  f_equal. f_equal. apply filter_ext. intro i. rewrite digit4_lxor. reflexivity.
Qed.
