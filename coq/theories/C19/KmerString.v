(** C19 — executable transcription of KmerMap.KmerAsString (pkg/obikmer/kmermap.go).
    Executable definitions only; the theorems are in DecodeProofs.v.

      buff := make([]byte, k.Kmersize)                 // zero bytes
      ks := int(k.Kmersize)
      if k.SparseAt >= 0 { ks-- }
      for i, j := 0, int(k.Kmersize)-1; i < ks; i++ {
          buff[j] = decode[kmer & 3]; j--
          if k.SparseAt >= 0 && j == k.SparseAt { buff[j] = '#'; j-- }
          kmer = kmer >> 2
      }
      return string(buff)

    The buffer is written strictly from right to left, one cell per write, at the cursor [j]: the
    model keeps [acc] = buff[j+1 ..] (the cells already written) and the cursor [j] itself as a Go
    [int] (Z: it reaches -1 after the last write, which is harmless since no write follows). The cells
    buff[0 .. j] never written keep their zero byte: they are the [repeat 0 (j+1)] prefix of the
    result. The test [j == SparseAt] is kept as written (after the decrement), so that moving the
    '#' by one cell is an observable difference.
    At most Kmersize writes happen (ks digits + at most one '#', ks = Kmersize-1 in sparse mode), so
    no write is ever out of range: KmerAsString cannot panic and the model has no error case. *)
From Coq Require Import ZArith NArith List Bool.
From OBI.C19 Require Import Model Algo.
Import ListNotations.
Open Scope N_scope.

(* [n] iterations of the loop; sat = SparseAt (None = -1); result = (final j, buff[j+1 ..]) *)
Fixpoint kas_loop (n : nat) (sat : option Z) (j : Z) (x : N) (acc : list N) : Z * list N :=
  match n with
  | O => (j, acc)
  | S n' =>
    let acc := decode (N.land x 3) :: acc in              (* buff[j] = decode[kmer & 3] *)
    let j := (j - 1)%Z in                                 (* j-- *)
    match sat with
    | Some s =>
      if (j =? s)%Z                                       (* SparseAt >= 0 && j == SparseAt *)
      then kas_loop n' sat (j - 1)%Z (N.shiftr x 2) (35 :: acc)   (* buff[j] = '#'; j-- *)
      else kas_loop n' sat j (N.shiftr x 2) acc
    | None => kas_loop n' sat j (N.shiftr x 2) acc
    end
  end.

(* ks as a Go int is Kmersize - 1 in sparse mode: for Kmersize = 0 it is -1 and the loop does not run,
   exactly as with the truncated subtraction of N *)
Definition kmer_as_string (km : kmap) (sparse_at : option N) (x : N) : list N :=
  let K := km_k km in
  let ks := match sparse_at with Some _ => K - 1 | None => K end in
  let '(j, acc) := kas_loop (N.to_nat ks) (option_map Z.of_N sparse_at) (Z.of_N K - 1)%Z x [] in
  repeat 0 (Z.to_nat (j + 1)) ++ acc.

(* NewKmerMap: SparseAt = kmersize / 2 in sparse mode (kmersize is odd then, so SparseAt < kmersize
   and the reset to -1 never fires), -1 otherwise *)
Definition sparse_at_of (km : kmap) : option N := if km_sparse km then Some (km_k km / 2) else None.

Definition kmer_string (km : kmap) (x : N) : list N := kmer_as_string km (sparse_at_of km) x.

(** ---------------- the same function with the buffer and the indexed writes spelled out
    (None = index out of range: run-time panic). DecodeProofs.kmer_as_string_buf_eq proves that it
    never panics and returns [kmer_as_string]. *)
Fixpoint upd (j : nat) (v : N) (b : list N) : option (list N) :=
  match b, j with
  | [], _ => None
  | _ :: t, O => Some (v :: t)
  | a :: t, S j' => option_map (cons a) (upd j' v t)
  end.
(* buff[j] = v with j a Go int *)
Definition store (j : Z) (v : N) (b : list N) : option (list N) :=
  if (j <? 0)%Z then None else upd (Z.to_nat j) v b.

Fixpoint kas_buf_loop (n : nat) (sat : option Z) (j : Z) (x : N) (buf : list N) : option (list N) :=
  match n with
  | O => Some buf
  | S n' =>
    match store j (decode (N.land x 3)) buf with
    | None => None
    | Some buf =>
      let j := (j - 1)%Z in
      match sat with
      | Some s =>
        if (j =? s)%Z
        then match store j 35 buf with
             | None => None
             | Some buf => kas_buf_loop n' sat (j - 1)%Z (N.shiftr x 2) buf
             end
        else kas_buf_loop n' sat j (N.shiftr x 2) buf
      | None => kas_buf_loop n' sat j (N.shiftr x 2) buf
      end
    end
  end.

Definition kmer_as_string_buf (km : kmap) (sparse_at : option N) (x : N) : option (list N) :=
  let K := km_k km in
  let ks := match sparse_at with Some _ => K - 1 | None => K end in
  kas_buf_loop (N.to_nat ks) (option_map Z.of_N sparse_at) (Z.of_N K - 1)%Z x (repeat 0 (N.to_nat K)).
