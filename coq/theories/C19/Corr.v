(** C19 — correspondence cases of round 2: the Go ALGORITHMS HasCycle / HaviestPath / DecodePath /
    LongestConsensus are compared with their transcription (Algo.v) on the verdict and on the ACTUAL
    path, decoding and consensus; the round-1 comparisons (Model.agrees: weights, heads, specification
    of cycles and of the optimum) are kept. Executable definitions only. *)
From Coq Require Import NArith List Bool.
From OBI.C19 Require Import Model Algo KmerString.
Import ListNotations.
Open Scope N_scope.

Inductive pobs := PNil | PPanic | PSome (p : list N).

Inductive ccase2 :=
| C2Old (c : ccase)
(* algo = compare the algorithms (graphs up to the size chosen by the generator); the specification
   comparison of round 1 is requested through the embedded [full] flag of [old] *)
(* KmerAsString of every canonical k-mer returned by NormalizedKmerSlice: (key value, string) pairs *)
| C2Kstr (wd k : N) (sparse : bool) (pairs : list (N * list N))
| C2Dbg (old : ccase) (k : N) (seqs : list (list N * N)) (algo : bool) (cyc : bool) (path : pobs)
        (decoded : list N) (consensus : option (list N)).

Definition pobs_eqb (a : hres) (b : pobs) : bool :=
  match a, b with
  | HNil, PNil => true
  | HPanic, PPanic => true
  | HPath p, PSome q => list_eqb N.eqb p q
  | _, _ => false
  end.

Definition agrees2 (c : ccase2) : bool :=
  match c with
  | C2Old c => agrees c
  | C2Kstr wd k sparse pairs =>
    match new_kmap wd k sparse with
    | None => false
    | Some km => forallb (fun p => list_eqb N.eqb (kmer_string km (fst p)) (snd p)) pairs
    end
  | C2Dbg old k seqs algo cyc path dec consensus =>
    agrees old &&
    (if negb algo then true else         (* [if], not [||]: vm_compute is call-by-value *)
     match dbg_build k seqs with
     | None => false
     | Some g =>
       opt_eqb Bool.eqb (go_has_cycle k g (nodes g)) (Some cyc)
       && match g with
          | [] => true                  (* HaviestPath on the empty graph: outside the statement *)
          | _ => pobs_eqb (go_heaviest_path k g) path
                 && match path with PSome p => list_eqb N.eqb (decode_path k p) dec | _ => true end
                 && opt_eqb (list_eqb N.eqb) (longest_consensus k g) consensus
          end
     end)
  end.

Fixpoint mismatches2_from (i : nat) (l : list ccase2) : list nat :=
  match l with
  | [] => []
  | c :: l' => let rest := mismatches2_from (S i) l' in if agrees2 c then rest else i :: rest
  end.
Definition mismatches2 := mismatches2_from 0.
