(** C19 — property theorems of round 3 (statements only; every proof is [exact] of a lemma of R3Graph.v / R3Cov.v /
    R3Query.v): the code of pkg/obikmer that the round-3 check newly exercises (Model3.v). *)
From Coq Require Import NArith List Bool Permutation.
From OBI.C19 Require Import Model Proofs Algo Model3 Corr3 DecodeProofs R3Graph R3Cov R3Query R3Index R3Homo R3Four R3Ham.
Import ListNotations.
Open Scope N_scope.

(** ---------------- self loops: the poly-a k-mer (value 0, the 'no predecessor' value of HaviestPath's prevNodes map) is
    its own successor, so a graph holding it has a cycle: in the search of HaviestPath (acyclic graphs only) node 0 never
    occurs and the two `log.Warn` branches about node 0 are dead code *)
Theorem C19_self_loop_is_cycle : forall k g x, In x (nexts k g x) -> has_cycle k g = true.
Proof. exact self_loop_cyclic. Qed.
Theorem C19_acyclic_graph_has_no_zero_node : forall k g, has_cycle k g = false -> mem g 0 = false.
Proof. exact acyclic_no_zero_node. Qed.
(* every homopolymer k-mer b b ... b (value b (4^k - 1) / 3) is its own successor *)
Theorem C19_homopolymer_node_is_cycle : forall k g b, (1 <= k)%nat -> 2 * N.of_nat k < 64 -> b < 4 ->
  mem g (homopolymer k b) = true -> has_cycle (N.of_nat k) g = true.
Proof. exact homopolymer_cyclic. Qed.

(** ---------------- FilterMinWeight keeps exactly the nodes of weight >= min, with their weight, and never creates a cycle *)
Theorem C19_filter_min_weight : forall m g x, NoDup (nodes g) ->
  weight (filter_min m g) x = if weight g x <? m then 0 else weight g x.
Proof. exact filter_min_weight. Qed.
Theorem C19_filter_min_nodes : forall m g x, NoDup (nodes g) ->
  (mem (filter_min m g) x = true <-> mem g x = true /\ m <= weight g x).
Proof. exact filter_min_mem_iff. Qed.
Theorem C19_subgraph_of_acyclic_is_acyclic : forall k g g', (forall z, mem g' z = true -> mem g z = true) ->
  has_cycle k g' = true -> has_cycle k g = true.
Proof. exact subgraph_cyclic. Qed.
Theorem C19_filter_min_keeps_acyclic : forall k m g, has_cycle k g = false -> has_cycle k (filter_min m g) = false.
Proof. exact filter_min_acyclic. Qed.

(** ---------------- HammingDistance (xor, fold the two bits of each base, mask 0101.. and kmermask, popcount) is the number of
    positions among the k bases where the two k-mers differ (bits above the k-mer ignored), k = 1..31 *)
Theorem C19_hamming_distance_exact : forall k a b, (k <= 31)%nat -> ham_go (N.of_nat k) a b = ham_spec k a b.
Proof. exact hamming_exact. Qed.

(** ---------------- the greedy walk MaxHead / MaxNext / MaxPath (BestConsensus): a walk from a source node, terminating on
    acyclic graphs, never heavier than the walk of HaviestPath - and possibly strictly lighter *)
Theorem C19_max_next_is_heaviest_successor : forall k g x y w, (forall z, mem g z = true -> 0 < weight g z) ->
  max_next k g x = Some (y, w) ->
  In y (nexts k g x) /\ w = weight g y /\ forall z, In z (nexts k g x) -> weight g z <= w.
Proof. exact max_next_in. Qed.
Theorem C19_greedy_walk_from_source : forall k g order h p, (forall z, mem g z = true -> 0 < weight g z) ->
  (forall x, In x order -> In x (nodes g)) -> max_path k g order = Some (h :: p) ->
  In h (heads k g) /\ is_walk k g (h :: p).
Proof. exact max_path_walk_from_source. Qed.
Theorem C19_greedy_never_heavier : forall k g order h p bw, (forall z, mem g z = true -> 0 < weight g z) ->
  (forall x, In x order -> In x (nodes g)) -> max_path k g order = Some (h :: p) ->
  best_walk_weight k g = Some bw -> wsum g (h :: p) <= bw.
Proof. exact greedy_never_heavier. Qed.
Theorem C19_greedy_terminates_on_acyclic : forall k g order, (forall z, mem g z = true -> 0 < weight g z) ->
  (forall x, In x order -> In x (nodes g)) -> has_cycle k g = false -> max_path k g order <> None.
Proof. exact greedy_terminates. Qed.
Theorem C19_greedy_optimal_refuted : exists g p bw, dbg_build 3 wit_greedy = Some g /\ has_cycle 3 g = false /\
  max_path 3 g (nodes g) = Some p /\ best_walk_weight 3 g = Some bw /\ wsum g p < bw.
Proof. exact greedy_refuted. Qed.

(** ---------------- LongestConsensus(id, min_cov) with 0 < min_cov = num / 2^e <= 1 (obiconsensus --low-coverage) *)
(* the slice path[from:to] is the path without its low-coverage ends (and only the ends) *)
Theorem C19_cov_trim_removes_low_ends : forall g mp p sp, trim_cov g mp p = Some sp ->
  exists a b, p = a ++ sp ++ b /\ Forall (low g mp) a /\ Forall (low g mp) b /\
              (forall x q, sp = x :: q -> mp <= weight g x /\ mp <= weight g (last sp x)).
Proof. exact trim_cov_infix. Qed.
Theorem C19_cov_trim_panics_iff : forall g mp p, trim_cov g mp p = None <-> p <> [] /\ Forall (low g mp) p.
Proof. exact trim_cov_panics_iff. Qed.
Theorem C19_cov_threshold_at_most_mode : forall mode num e, num <= 2 ^ e -> cov_threshold mode num e <= mode.
Proof. exact cov_threshold_le_mode. Qed.
Theorem C19_cov_small_is_plain : forall k g p num e mode, cov_threshold mode num e = 0 ->
  cov_of_res k g (HPath p) num e mode = match decode_path k p with [] => CErr | s => CSeq s end.
Proof. exact cov_small_is_plain. Qed.
(* full statement on graphs built by Push: the string returned spells the heaviest walk without its low-coverage ends,
   whatever value obistats.Mode picks among the most frequent weights; no panic, no empty answer *)
Theorem C19_consensus_low_coverage : forall k seqs g bw num e, 1 <= k -> k <= 31 -> dbg_build k seqs = Some g ->
  Forall (fun sq => 0 < snd sq) seqs -> g <> [] -> best_walk_weight k g = Some bw -> num <= 2 ^ e ->
  exists p, go_heaviest_path k g = HPath p /\ is_walk k g p /\ wsum g p = bw /\
  forall mode, In mode (modes (map (weight g) p)) ->
    let mp := cov_threshold mode num e in
    exists a sp b cs, p = a ++ sp ++ b /\ sp <> [] /\ is_walk k g sp /\
      Forall (low g mp) a /\ Forall (low g mp) b /\
      mp <= weight g (hd 0 sp) /\ mp <= weight g (last sp 0) /\
      cov_of_res k g (HPath p) num e mode = CSeq (map decode cs) /\ digits cs /\ kmers (N.to_nat k) cs = sp.
Proof. exact consensus_cov_spec. Qed.
(* min_cov > 1 (here 3/2) can make path[from:to] panic: stated guard of the theorem above *)
Theorem C19_cov_above_one_refuted : exists g p, trim_cov g (cov_threshold 1 3 1) p = None /\ modes (map (weight g) p) = [1].
Proof. exact cov_above_one_panics. Qed.

(** ---------------- KmerMap.Query (obikmersim): strand invariance and meaning of the counts *)
Theorem C19_query_strand_invariant : forall wd k0 sparse s a b ix, 0 < eff_k k0 sparse ->
  canon wd k0 sparse s = Some a -> canon wd k0 sparse (rcseq s) = Some b ->
  (forall r, query_count ix b r = query_count ix a r) /\ (forall n m, match_count ix b n m = match_count ix a n m).
Proof. exact query_strand_invariant. Qed.
Theorem C19_query_counts_shared_pairs : forall refs keys r, (r < length refs)%nat ->
  query_count (build_index None refs) keys (N.of_nat r) =
  let c := pairs keys (nth r refs []) in if c =? 0 then None else Some (c + 1).
Proof. exact query_counts_pairs. Qed.

(* NewKmerMap with maxoccurs = m >= 0 (obikmersim --max-kmers): a key keeps its complete list of references when it occurs
   fewer than m times over all references (with multiplicity), and is dropped otherwise; Query then counts the shared pairs
   over the kept k-mers only *)
Theorem C19_maxoccurs_index : forall m refs key,
  idx_get (build_index (Some m) refs) key =
  let l := idx_get (build_index None refs) key in if N.of_nat (length l) <? m then l else [].
Proof. exact maxoccurs_index. Qed.
Theorem C19_maxoccurs_query : forall m refs keys r,
  count_n r (query_hits (build_index (Some m) refs) keys) =
  count_n r (query_hits (build_index None refs) (filter (fun key => N.of_nat (length (idx_get (build_index None refs) key)) <? m) keys)).
Proof. exact maxoccurs_query_hits. Qed.

(** ---------------- 4-mer tables *)
(* Sum4Mer(Count4Mer(s)) is the number of 4-mer windows (no uint16 cell wraps below 65539 bases) *)
Theorem C19_sum4_is_window_count : forall s, N.of_nat (length s) < 65539 -> sum4 (counts4 s) = N.of_nat (length s - 3).
Proof. exact sum4_counts4. Qed.
(* Index4mer: under every code exactly the positions of the windows with that code, as many as Count4Mer counts *)
Theorem C19_index4_positions : forall s ix, index4 s = Some ix ->
  forall c ps, In (c, ps) ix <-> (c < 256 /\ ps <> [] /\ ps = positions_of c 0 (map code4 (windows 4 s))).
Proof. exact index4_spec. Qed.
Theorem C19_index4_cell_sizes : forall c l pos, N.of_nat (length (positions_of c pos l)) = count_n c l.
Proof. exact positions_of_length. Qed.
Theorem C19_index4_cell_content : forall c l pos p,
  In p (positions_of c pos l) <-> exists i, (i < length l)%nat /\ p = pos + N.of_nat i /\ nth i l (c + 1) = c.
Proof. exact positions_of_spec. Qed.
Theorem C19_common4_symmetric : forall t1 t2, common4 t1 t2 = common4 t2 t1.
Proof. exact common4_sym. Qed.
Theorem C19_common4_bounded : forall t1 t2, common4 t1 t2 <= sum4 t1 /\ common4 t1 t2 <= sum4 t2.
Proof. intros t1 t2. split; [exact (common4_le_l t1 t2)|exact (common4_le_r t1 t2)]. Qed.
Theorem C19_common4_self : forall t, common4 t t = sum4 t.
Proof. exact common4_self. Qed.

Example C19_round3_nonvacuous :
  exists g, dbg_build 4 [([116;116;103;97;99;103;116;103;99;97;116;99;103;103], 1); ([103;97;99;103;116;103;99;97;116;99], 9)] = Some g /\
            has_cycle 4 g = false /\ NoDup (nodes g) /\ forallb (fun p => 0 <? snd p) g = true /\
            cov_all_of_res 4 g (go_heaviest_path 4 g) 1 1 = [CSeq [103;97;99;103;116;103;99;97;116;99]] /\
            length (filter_min 2 g) = 7%nat /\
            canon 128 4 false [97;99;103;116;103;99;97;116;116;97] <> None.
Proof.
  eexists. split; [vm_compute; reflexivity|]. split; [vm_compute; reflexivity|].
  split; [vm_compute; repeat constructor; cbn; intuition discriminate|].
  split; [vm_compute; reflexivity|].
  split; [vm_compute; reflexivity|]. split; [vm_compute; reflexivity|]. vm_compute. discriminate.
Qed.

Print Assumptions C19_self_loop_is_cycle.
Print Assumptions C19_acyclic_graph_has_no_zero_node.
Print Assumptions C19_filter_min_weight.
Print Assumptions C19_filter_min_nodes.
Print Assumptions C19_subgraph_of_acyclic_is_acyclic.
Print Assumptions C19_filter_min_keeps_acyclic.
Print Assumptions C19_hamming_distance_exact.
Print Assumptions C19_max_next_is_heaviest_successor.
Print Assumptions C19_greedy_walk_from_source.
Print Assumptions C19_greedy_never_heavier.
Print Assumptions C19_greedy_terminates_on_acyclic.
Print Assumptions C19_greedy_optimal_refuted.
Print Assumptions C19_cov_trim_removes_low_ends.
Print Assumptions C19_cov_trim_panics_iff.
Print Assumptions C19_cov_threshold_at_most_mode.
Print Assumptions C19_cov_small_is_plain.
Print Assumptions C19_consensus_low_coverage.
Print Assumptions C19_cov_above_one_refuted.
Print Assumptions C19_query_strand_invariant.
Print Assumptions C19_query_counts_shared_pairs.
Print Assumptions C19_homopolymer_node_is_cycle.
Print Assumptions C19_maxoccurs_index.
Print Assumptions C19_maxoccurs_query.
Print Assumptions C19_sum4_is_window_count.
Print Assumptions C19_index4_positions.
Print Assumptions C19_index4_cell_sizes.
Print Assumptions C19_index4_cell_content.
Print Assumptions C19_common4_symmetric.
Print Assumptions C19_common4_bounded.
Print Assumptions C19_common4_self.
