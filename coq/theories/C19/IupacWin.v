(** C19 — the counts of the repaired Push (IupacCount.push_count) are the numbers of compatible windows
    (Proofs.compat_occ): pure combinatorics, no graph. *)
From Coq Require Import NArith List Bool Lia Arith.
From OBI.C19 Require Import Model Proofs IupacCount.
Import ListNotations.
Open Scope N_scope.

Definition b2n (b : bool) : N := if b then 1 else 0.

(* y is compatible with the K first code sets of rpl (least significant base first) *)
Fixpoint cmp (K : nat) (y : N) (rpl : list (list N)) : bool :=
  match K with
  | O => y =? 0
  | S K' => match rpl with [] => false | cs :: r => existsb (N.eqb (y mod 4)) cs && cmp K' (y / 4) r end
  end.

(* compatible windows ending in the [lim] first bytes of t, given the code sets of the bytes before *)
Fixpoint W (K : nat) (lim : nat) (rpl : list (list N)) (t : list N) (y : N) {struct t} : N :=
  match t with
  | [] => 0
  | b :: t' =>
    match lim with
    | O => 0
    | S l => b2n (cmp K y (iupac b :: rpl)) + W K l (iupac b :: rpl) t' y
    end
  end.

Fixpoint FW (K : nat) (n lim : nat) (rpl : list (list N)) (s : list N) (y : N) : N :=
  match n with
  | O => b2n (cmp K y rpl) + W K lim rpl s y
  | S n' => match s with [] => 0 | b :: t => FW K n' lim (iupac b :: rpl) t y end
  end.

Lemma sumN_zero : forall f l, (forall c, f c = 0) -> sumN f l = 0.
Proof. intros f l H. induction l as [|c l IH]; [reflexivity|]. cbn [sumN]. rewrite H, IH. reflexivity. Qed.

Lemma sumN_add : forall f g l, sumN (fun c => f c + g c) l = sumN f l + sumN g l.
Proof. intros f g l. induction l as [|c l IH]; [reflexivity|]. cbn [sumN]. rewrite IH. lia. Qed.

Lemma sumN_ext_in : forall f g l, (forall c, In c l -> f c = g c) -> sumN f l = sumN g l.
Proof.
  intros f g l H. induction l as [|c l IH]; [reflexivity|]. cbn [sumN].
  rewrite (H c) by (left; reflexivity). rewrite IH; [reflexivity|]. intros; apply H; right; assumption.
Qed.

Lemma existsb_notin : forall d l, ~ In d l -> existsb (N.eqb d) l = false.
Proof.
  intros d l. induction l as [|c l IH]; intro H; [reflexivity|]. cbn [existsb].
  destruct (N.eqb_spec d c) as [->|?]; [exfalso; apply H; left; reflexivity|].
  apply IH. intro; apply H; right; assumption.
Qed.

Lemma sum_indicator : forall d B l, NoDup l ->
  sumN (fun c => b2n ((d =? c) && B)) l = b2n (existsb (N.eqb d) l && B).
Proof.
  intros d B l H. induction H as [|c l Hn Hl IH]; [reflexivity|].
  cbn [sumN existsb]. rewrite IH.
  destruct (N.eqb_spec d c) as [->|?].
  - rewrite existsb_notin by assumption. destruct B; reflexivity.
  - destruct (existsb (N.eqb d) l), B; reflexivity.
Qed.

Lemma iupac_nodup : forall b, NoDup (iupac b).
Proof.
  intro b. unfold iupac.
  repeat match goal with |- context [N.eqb b ?v] => destruct (N.eqb b v) end;
  repeat (apply NoDup_cons; [cbn [In]; intros H; repeat (destruct H as [H|H]; [discriminate H|]); exact H|]);
  apply NoDup_nil.
Qed.

Lemma split4 : forall c m z, c < 4 -> (c + 4 * m =? z) = ((z mod 4 =? c) && (m =? z / 4)).
Proof.
  intros c m z Hc.
  pose proof (N.div_mod z 4 ltac:(discriminate)) as D. pose proof (N.mod_lt z 4 ltac:(discriminate)) as L.
  set (q := z / 4) in *. set (r := z mod 4) in *. clearbody q r.
  destruct (N.eqb_spec (c + 4 * m) z), (N.eqb_spec r c), (N.eqb_spec m q); cbn [andb];
    try reflexivity; exfalso; lia.
Qed.

Lemma cmp_outside : forall K y G X X' R, (K <= length G)%nat -> cmp K y (G ++ X :: R) = cmp K y (G ++ X' :: R).
Proof.
  induction K as [|K IH]; intros y G X X' R H; [reflexivity|].
  destruct G as [|s G]; [cbn [length] in H; lia|]. cbn [app cmp]. f_equal. apply IH. cbn [length] in H. lia.
Qed.

Lemma cmp_inside : forall K y G all R, (length G < K)%nat -> NoDup all ->
  b2n (cmp K y (G ++ all :: R)) = sumN (fun c => b2n (cmp K y (G ++ [c] :: R))) all.
Proof.
  induction K as [|K IH]; intros y G all R H Hnd; [lia|].
  destruct G as [|s G].
  - cbn [app cmp]. rewrite <- sum_indicator by assumption. apply sumN_ext_in. intros c _.
    cbn [existsb]. rewrite orb_false_r. reflexivity.
  - cbn [app cmp]. destruct (existsb (N.eqb (y mod 4)) s).
    + cbn [andb]. apply IH; [cbn [length] in H; lia|assumption].
    + cbn [andb b2n]. symmetry. apply sumN_zero. intro; reflexivity.
Qed.

Lemma W_lim0 : forall K rpl t y, W K 0 rpl t y = 0.
Proof. intros K rpl t y. destruct t; reflexivity. Qed.

Section Win.
Variable K1 : nat.
Variable y : N.
Local Notation K := (S K1).
Local Notation k := (N.of_nat (S K1)).
Local Notation single := (fun c : N => [c]).

Lemma W_split : forall c0 cs R, NoDup (c0 :: cs) -> forall t l F,
  W K l (F ++ (c0 :: cs) :: R) t y =
  W K l (F ++ [c0] :: R) t y + sumN (fun c => W K (Nat.min l (K1 - length F)) (F ++ [c] :: R) t y) cs.
Proof.
  intros c0 cs R Hnd. induction t as [|b t IH]; intros l F.
  - cbn [W]. rewrite sumN_zero by (intro; reflexivity). reflexivity.
  - destruct l as [|l].
    + cbn [W Nat.min]. rewrite sumN_zero by (intro; reflexivity). reflexivity.
    + cbn [W].
      change (iupac b :: F ++ (c0 :: cs) :: R) with ((iupac b :: F) ++ (c0 :: cs) :: R).
      change (iupac b :: F ++ [c0] :: R) with ((iupac b :: F) ++ [c0] :: R).
      rewrite (IH l (iupac b :: F)). cbn [length].
      destruct (Nat.ltb_spec (length F) K1) as [Hd|Hd].
      * replace (Nat.min (S l) (K1 - length F)) with (S (Nat.min l (K1 - S (length F)))) by lia.
        rewrite (sumN_ext_in (fun c => W K (S (Nat.min l (K1 - S (length F)))) (F ++ [c] :: R) (b :: t) y)
                   (fun c => b2n (cmp K y ((iupac b :: F) ++ [c] :: R)) +
                             W K (Nat.min l (K1 - S (length F))) ((iupac b :: F) ++ [c] :: R) t y))
          by (intros; reflexivity).
        rewrite sumN_add.
        rewrite (cmp_inside K y (iupac b :: F) (c0 :: cs) R) by (try assumption; cbn [length]; lia).
        cbn [sumN]. lia.
      * replace (K1 - length F)%nat with 0%nat by lia. replace (K1 - S (length F))%nat with 0%nat by lia.
        rewrite !Nat.min_0_r.
        rewrite (sumN_zero (fun c => W K 0 ((iupac b :: F) ++ [c] :: R) t y)) by (intro; apply W_lim0).
        rewrite (sumN_zero (fun c => W K 0 (F ++ [c] :: R) (b :: t) y)) by (intro; apply W_lim0).
        rewrite (cmp_outside K y (iupac b :: F) (c0 :: cs) [c0] R) by (cbn [length]; lia).
        lia.
Qed.

Lemma cmp_single : forall K' rp z, digits rp -> (K' <= length rp)%nat ->
  cmp K' z (map single rp) = (lval rp mod 4 ^ N.of_nat K' =? z).
Proof.
  induction K' as [|K' IH]; intros rp z Hrp Hl.
  - cbn [cmp]. change (N.of_nat 0) with 0. change (4 ^ 0) with 1. rewrite N.mod_1_r. apply N.eqb_sym.
  - destruct rp as [|c r]; [cbn [length] in Hl; lia|]. inversion Hrp as [|? ? Hc Hr]; subst.
    cbn [map cmp existsb]. rewrite IH by (try assumption; cbn [length] in Hl; lia).
    rewrite pow4_succ. cbn [lval]. rewrite mod4_step by (try assumption; apply pow4_pos).
    rewrite orb_false_r. symmetry. apply split4. assumption.
Qed.

Lemma cmp_codes : forall all rp, digits rp -> (K1 <= length rp)%nat -> NoDup all -> (forall c, In c all -> c < 4) ->
  b2n (cmp K y (all :: map single rp)) = sumN (fun c => eqc (kmer_of k (c :: rp)) y) all.
Proof.
  intros all rp Hrp Hl Hnd Hlt. cbn [cmp]. rewrite cmp_single by assumption.
  rewrite <- sum_indicator by assumption. apply sumN_ext_in. intros c Hc.
  unfold eqc, kmer_of, b2n. cbn [lval]. rewrite pow4_succ.
  rewrite mod4_step by (try apply pow4_pos; apply Hlt; assumption).
  rewrite split4 by (apply Hlt; assumption). reflexivity.
Qed.

Lemma acount_W : forall t lim rp, nonempty_codes t -> digits rp -> (K1 <= length rp)%nat ->
  acount k K1 lim rp t y = W K lim (map single rp) t y.
Proof.
  induction t as [|b t IH]; intros lim rp Hne Hrp Hl; [reflexivity|].
  destruct lim as [|l]; [reflexivity|].
  inversion Hne as [|? ? Hb Hne']; subst.
  cbn [acount W].
  pose proof (iupac_codes_lt b) as Hlt. pose proof (iupac_nodup b) as Hnd.
  destruct (iupac b) as [|c0 cs]; [congruence|].
  rewrite (cmp_codes (c0 :: cs) rp Hrp Hl Hnd Hlt). cbn [sumN].
  change ((c0 :: cs) :: map single rp) with ([] ++ (c0 :: cs) :: map single rp).
  rewrite (W_split c0 cs (map single rp) Hnd t l []). cbn [app length]. rewrite Nat.sub_0_r.
  rewrite sumN_add.
  rewrite (IH l (c0 :: rp) Hne') by (try (constructor; [apply Hlt; left; reflexivity|assumption]); cbn [length]; lia).
  rewrite (sumN_ext_in (fun c => acount k K1 (Nat.min l K1) (c :: rp) t y)
             (fun c => W K (Nat.min l K1) ([c] :: map single rp) t y)).
  2:{ intros c Hc. rewrite (IH (Nat.min l K1) (c :: rp) Hne'); [reflexivity| |cbn [length]; lia].
      constructor; [apply Hlt; right; assumption|assumption]. }
  cbn [map]. lia.
Qed.

Lemma FW_split : forall c0 cs R start lim, NoDup (c0 :: cs) -> forall n s F, (length F + n + start = K1)%nat ->
  FW K n lim (F ++ (c0 :: cs) :: R) s y =
  FW K n lim (F ++ [c0] :: R) s y + sumN (fun c => FW K n (Nat.min lim start) (F ++ [c] :: R) s y) cs.
Proof.
  intros c0 cs R start lim Hnd. induction n as [|n IH]; intros s F HF.
  - cbn [FW]. rewrite sumN_add.
    rewrite (cmp_inside K y F (c0 :: cs) R) by (try assumption; lia). cbn [sumN].
    rewrite (W_split c0 cs R Hnd s lim F).
    replace (K1 - length F)%nat with start by lia. lia.
  - destruct s as [|b t].
    + cbn [FW]. rewrite sumN_zero by (intro; reflexivity). reflexivity.
    + cbn [FW].
      change (iupac b :: F ++ (c0 :: cs) :: R) with ((iupac b :: F) ++ (c0 :: cs) :: R).
      change (iupac b :: F ++ [c0] :: R) with ((iupac b :: F) ++ [c0] :: R).
      rewrite (IH t (iupac b :: F)) by (cbn [length]; lia). reflexivity.
Qed.

Lemma fcount_FW : forall n start lim rp s, nonempty_codes s -> digits rp -> length rp = start -> (start + n = K)%nat ->
  fcount k K1 n start lim rp s y = FW K n lim (map single rp) s y.
Proof.
  induction n as [|n IH]; intros start lim rp s Hne Hrp Hl Hn.
  - cbn [fcount FW]. rewrite acount_W by (try assumption; lia). f_equal.
    rewrite cmp_single by (try assumption; lia). reflexivity.
  - destruct s as [|b t]; [reflexivity|].
    inversion Hne as [|? ? Hb Hne']; subst.
    cbn [fcount FW].
    pose proof (iupac_codes_lt b) as Hlt. pose proof (iupac_nodup b) as Hnd.
    destruct (iupac b) as [|c0 cs]; [congruence|].
    change ((c0 :: cs) :: map single rp) with ([] ++ (c0 :: cs) :: map single rp).
    rewrite (FW_split c0 cs (map single rp) (length rp) lim Hnd n t []) by (cbn [length]; lia).
    cbn [app].
    rewrite (IH (S (length rp)) lim (c0 :: rp) t Hne')
      by (try (constructor; [apply Hlt; left; reflexivity|assumption]); cbn [length]; lia).
    f_equal. apply sumN_ext_in. intros c Hc.
    rewrite (IH (S (length rp)) (Nat.min lim (length rp)) (c :: rp) t Hne'); [reflexivity| |cbn [length]; lia|lia].
    constructor; [apply Hlt; right; assumption|assumption].
Qed.
End Win.

(** ---------------- the digit-level test is the membership of the k-mer among the expansions of the window *)
Lemma in_expand : forall w e, In e (expand w) <-> Forall2 (fun c b => In c (iupac b)) e w.
Proof.
  induction w as [|a t IH]; intro e.
  - cbn [expand In]. split; [intros [<-|[]]; constructor|intro H; inversion H; left; reflexivity].
  - cbn [expand]. rewrite in_flat_map. split.
    + intros (c & Hc & He). apply in_map_iff in He. destruct He as (e' & <- & He').
      constructor; [exact Hc|apply IH; exact He'].
    + intro H. inversion H as [|c a' e' t' Hc He']; subst. exists c. split; [exact Hc|].
      apply in_map. apply IH. exact He'.
Qed.

Lemma cmp_expand : forall K' y rpb, (K' <= length rpb)%nat ->
  (cmp K' y (map iupac rpb) = true <->
   exists e, Forall2 (fun c b => In c (iupac b)) e (rev (firstn K' rpb)) /\ kval e = y).
Proof.
  induction K' as [|K' IH]; intros y rpb Hl.
  - cbn [cmp firstn rev]. split.
    + intro H. apply N.eqb_eq in H. subst. exists []. split; [constructor|reflexivity].
    + intros (e & He & Hy). inversion He; subst. reflexivity.
  - destruct rpb as [|b r]; [cbn [length] in Hl; lia|]. cbn [length] in Hl.
    cbn [map cmp firstn rev]. rewrite andb_true_iff, (IH (y / 4) r) by lia. split.
    + intros [H1 (e' & He' & Hy')]. apply existsb_exists in H1. destruct H1 as (c & Hc & Ec).
      apply N.eqb_eq in Ec. exists (e' ++ [c]). split.
      * apply Forall2_app; [exact He'|constructor; [exact Hc|constructor]].
      * rewrite kval_app. cbn [kval length]. change (N.of_nat 1) with 1. change (N.of_nat 0) with 0.
        change (4 ^ 1) with 4. change (4 ^ 0) with 1.
        pose proof (N.div_mod y 4 ltac:(discriminate)) as D. rewrite Hy', <- Ec.
        set (q := y / 4) in *. set (r0 := y mod 4) in *. clearbody q r0. lia.
    + intros (e & He & Hy). apply Forall2_app_inv_r in He. destruct He as (e1 & e2 & H1 & H2 & ->).
      inversion H2 as [|c b' e2' t' Hc H2']; subst. inversion H2'; subst.
      assert (Hc4 : c < 4) by (eapply iupac_codes_lt; eassumption).
      assert (EY : kval (e1 ++ [c]) = c + kval e1 * 4).
      { rewrite kval_app. cbn [kval length]. change (N.of_nat 1) with 1. change (N.of_nat 0) with 0.
        change (4 ^ 1) with 4. change (4 ^ 0) with 1. lia. }
      rewrite EY. rewrite N.mod_add by discriminate. rewrite N.mod_small by assumption.
      rewrite N.div_add by discriminate. rewrite N.div_small by assumption. split.
      * apply existsb_exists. exists c. split; [exact Hc|apply N.eqb_refl].
      * exists e1. split; [exact H1|lia].
Qed.

Lemma cmp_existsb : forall K' y rpb, (K' <= length rpb)%nat ->
  cmp K' y (map iupac rpb) = existsb (N.eqb y) (map kval (expand (rev (firstn K' rpb)))).
Proof.
  intros K' y rpb Hl. apply eq_true_iff_eq. rewrite cmp_expand by assumption. rewrite existsb_exists. split.
  - intros (e & He & Hy). exists (kval e). split; [apply in_map, in_expand; exact He|]. subst. apply N.eqb_refl.
  - intros (x & Hin & Ex). apply N.eqb_eq in Ex. subst x. apply in_map_iff in Hin.
    destruct Hin as (e & Hy & He). exists e. split; [apply in_expand; exact He|exact Hy].
Qed.

Lemma W_wends : forall K y t lim rpb, (length t <= lim)%nat -> (K <= length rpb + 1)%nat ->
  W K lim (map iupac rpb) t y =
  fold_right (fun w a => (if existsb (N.eqb y) (map kval (expand w)) then 1 else 0) + a) 0 (wends K rpb t).
Proof.
  intros K y. induction t as [|b t IH]; intros lim rpb Hl HK; [reflexivity|].
  destruct lim as [|l]; [cbn [length] in Hl; lia|].
  cbn [W wends]. destruct (Nat.leb_spec K (length rpb + 1)) as [_|?]; [|lia].
  cbn [app fold_right]. change (iupac b :: map iupac rpb) with (map iupac (b :: rpb)).
  rewrite cmp_existsb by (cbn [length]; lia).
  rewrite IH by (cbn [length] in *; lia). reflexivity.
Qed.

Lemma W_total : forall K y rpb t, (1 <= K)%nat -> length rpb = K ->
  b2n (cmp K y (map iupac rpb)) + W K (length t) (map iupac rpb) t y = compat_occ K (rev rpb ++ t) y.
Proof.
  intros K y rpb t HK Hl. unfold compat_occ. rewrite windows_wends by assumption.
  rewrite (windows_exact K (rev rpb)) by (try rewrite rev_length; assumption).
  cbn [app fold_right]. rewrite <- (W_wends K y t (length t) rpb) by lia. f_equal.
  rewrite cmp_existsb by lia. rewrite firstn_all2 by lia. reflexivity.
Qed.

Lemma FW_read : forall K y lim n rpb s, (n <= length s)%nat ->
  FW K n lim (map iupac rpb) s y =
  b2n (cmp K y (map iupac (rev (firstn n s) ++ rpb))) + W K lim (map iupac (rev (firstn n s) ++ rpb)) (skipn n s) y.
Proof.
  intros K y lim. induction n as [|n IH]; intros rpb s Hn; [reflexivity|].
  destruct s as [|b t]; [cbn [length] in Hn; lia|]. cbn [length] in Hn.
  cbn [FW firstn skipn rev]. change (iupac b :: map iupac rpb) with (map iupac (b :: rpb)).
  rewrite IH by lia. rewrite <- app_assoc. reflexivity.
Qed.

(** the repaired Push counts every window of the sequence once per compatible k-mer *)
Theorem push_count_compat : forall k s y, 1 <= k -> nonempty_codes s ->
  push_count k s y = compat_occ (N.to_nat k) s y.
Proof.
  intros k s y Hk Hne. unfold push_count. cbv zeta.
  set (K1 := (N.to_nat k - 1)%nat).
  assert (EK : N.to_nat k = S K1) by lia. assert (Ek : k = N.of_nat (S K1)) by lia.
  clearbody K1. subst k. rewrite EK.
  destruct (Nat.leb_spec (S K1) (length s)) as [L|L].
  - replace (S K1 - 1)%nat with K1 by lia.
    rewrite (fcount_FW K1 y (S K1) 0%nat (length s - S K1)%nat [] s Hne) by (try apply Forall_nil; reflexivity).
    cbn [map]. change (FW (S K1) (S K1) (length s - S K1) [] s y) with (FW (S K1) (S K1) (length s - S K1) (map iupac []) s y).
    rewrite (FW_read (S K1) y (length s - S K1)%nat (S K1) [] s L).
    rewrite app_nil_r. rewrite <- (skipn_length (S K1) s).
    rewrite W_total by (try lia; rewrite rev_length; apply firstn_length_le; exact L).
    rewrite rev_involutive, firstn_skipn. reflexivity.
  - unfold compat_occ. rewrite windows_short by lia. reflexivity.
Qed.
