(** C19 — the counts accumulated by the repaired Push/append on IUPAC sequences, as pure functions that
    mirror the recursion of the code ([acount] for append, [fcount] for initFirstKmer). IupacProofs.v shows
    that the model adds exactly these counts; IupacWin.v shows that they are the window counts [compat_occ]. *)
From Coq Require Import NArith List Bool Lia Arith.
From OBI.C19 Require Import Model Proofs.
Import ListNotations.
Open Scope N_scope.

Definition eqc (a b : N) : N := if a =? b then 1 else 0.
Fixpoint sumN (f : N -> N) (l : list N) : N := match l with [] => 0 | c :: t => f c + sumN f t end.

(* append: [lim] bytes of [s] may be read; [rp] = digits read so far, last first; K1 = k-1 *)
Fixpoint acount (k : N) (K1 : nat) (lim : nat) (rp : list N) (s : list N) (y : N) {struct s} : N :=
  match s with
  | [] => 0
  | b :: t =>
    match lim with
    | O => 0
    | S l =>
      match iupac b with
      | [] => 0
      | c0 :: cs =>
        eqc (kmer_of k (c0 :: rp)) y + acount k K1 l (c0 :: rp) t y
        + sumN (fun c => eqc (kmer_of k (c :: rp)) y + acount k K1 (Nat.min l K1) (c :: rp) t y) cs
      end
    end
  end.

(* initFirstKmer: [n] bytes of the first k-mer still to read, [start] already read, [lim] = end - k *)
Fixpoint fcount (k : N) (K1 : nat) (n start lim : nat) (rp s : list N) (y : N) : N :=
  match n with
  | O => eqc (kmer_of k rp) y + acount k K1 lim rp s y
  | S n' =>
    match s with
    | [] => 0
    | b :: t =>
      match iupac b with
      | [] => 0
      | c0 :: cs =>
        fcount k K1 n' (S start) lim (c0 :: rp) t y
        + sumN (fun c => fcount k K1 n' (S start) (Nat.min lim start) (c :: rp) t y) cs
      end
    end
  end.

Definition push_count (k : N) (s : list N) (y : N) : N :=
  let K := N.to_nat k in
  if (K <=? length s)%nat then fcount k (K - 1) K 0 (length s - K) [] s y else 0.
