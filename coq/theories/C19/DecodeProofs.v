(** C19 — KmerAsString / DecodePath: what the strings spell.
    - [kmer_string_dense]  : the string of a dense key is the k-mer itself;
    - [kmer_string_sparse] : the string of a sparse key is the k-mer with its centre base replaced by '#'
                             (k >= 3; for k = 1 the string is the single byte 0: [kmer_string_sparse_k1]);
    - [decode_path_spells_walk] : for ANY walk of the graph, DecodePath returns a string of length
                             k + |p| - 1 whose successive k-mers are the nodes of the walk, in order;
    - [decode_path_spells_walk_built] : the same for the graphs built by MakeDeBruijnGraph + Push. *)
From Coq Require Import ZArith NArith PArith Arith List Bool Lia.
From OBI.C19 Require Import Model Proofs Algo SingleProofs.
From OBI.C19 Require Import KmerString.
Import ListNotations.
Open Scope N_scope.

(** ================= digits of a key ================= *)
Fixpoint digits_of (K : nat) (x : N) : list N :=
  match K with O => [] | S K' => digits_of K' (x / 4) ++ [x mod 4] end.

Lemma digits_of_length : forall K x, length (digits_of K x) = K.
Proof.
  induction K as [|K IH]; intro x; [reflexivity|].
  cbn [digits_of]. rewrite app_length, IH. cbn [length]. lia.
Qed.

Lemma digits_of_digits : forall K x, digits (digits_of K x).
Proof.
  induction K as [|K IH]; intro x; [apply Forall_nil|].
  cbn [digits_of]. apply Forall_app. split; [apply IH|].
  constructor; [|apply Forall_nil]. apply N.mod_lt. discriminate.
Qed.

Lemma digits_of_kval : forall K x, x < 4 ^ N.of_nat K -> kval (digits_of K x) = x.
Proof.
  induction K as [|K IH]; intros x Hx.
  - change (4 ^ N.of_nat 0) with 1 in Hx. cbn [digits_of kval]. lia.
  - cbn [digits_of]. rewrite kval_snoc. rewrite pow4_succ in Hx.
    assert (Hq : x / 4 < 4 ^ N.of_nat K).
    { apply N.div_lt_upper_bound; [discriminate|assumption]. }
    rewrite (IH _ Hq). symmetry. apply N.div_mod. discriminate.
Qed.

(** ================= DecodePath on a walk ================= *)
Lemma kmers_cons : forall K c cs, (K <= length cs)%nat ->
  kmers (S K) (c :: cs) = kval (c :: firstn K cs) :: kmers (S K) cs.
Proof.
  intros K c cs H. unfold kmers. cbn [windows].
  destruct (Nat.leb_spec (S K) (length (c :: cs))) as [L|L]; [|cbn [length] in L; lia].
  cbn [app map firstn]. reflexivity.
Qed.

Lemma kmers_head : forall K cs y q, (1 <= K)%nat -> (K <= length cs)%nat -> kmers K cs = y :: q ->
  kval (firstn K cs) = y.
Proof.
  intros K cs y q HK HL E.
  assert (E0 : nth 0 (kmers K cs) (kval []) = y) by (rewrite E; reflexivity).
  unfold kmers in E0. rewrite map_nth in E0. rewrite windows_nth in E0 by (cbn [plus]; assumption).
  cbn [skipn] in E0. exact E0.
Qed.

Lemma walk_spelling : forall K' g p, 2 * N.of_nat (S K') < 64 -> keys_lt (N.of_nat (S K')) g ->
  is_walk (N.of_nat (S K')) g p ->
  exists cs, digits cs /\ length cs = (S K' + length p - 1)%nat /\ kmers (S K') cs = p.
Proof.
  intros K' g p Hk2 Hlt. set (k := N.of_nat (S K')) in *.
  assert (Hk1 : 1 <= k) by (unfold k; lia).
  induction p as [|x p IH]; intro Hw; [destruct Hw|].
  destruct p as [|y q].
  - destruct Hw as [Hm _]. exists (digits_of (S K') x).
    split; [apply digits_of_digits|]. split; [rewrite digits_of_length; cbn [length]; lia|].
    unfold kmers. rewrite windows_exact by (try apply digits_of_length; lia).
    cbn [map]. rewrite digits_of_kval; [reflexivity|]. apply Hlt. exact Hm.
  - destruct Hw as [Hm [Hin Hw']].
    destruct (IH Hw') as (cs & Hd & HL & HK). clear IH.
    cbn [length] in HL.
    apply (nexts_spec k g x y Hk1 Hk2) in Hin. destruct Hin as [_ (b & Hb & Ey)].
    pose proof (Hlt x Hm) as Hx. unfold k in Hx, Ey. rewrite pow4_succ in Hx, Ey.
    set (M := 4 ^ N.of_nat K') in *.
    assert (HM : M <> 0) by (apply N.pow_nonzero; discriminate).
    (* the first k-mer of cs is y = v d *)
    assert (Hy : kval (firstn (S K') cs) = y) by (eapply kmers_head; [lia|lia|exact HK]).
    rewrite (firstn_snoc 0) in Hy by lia. rewrite kval_snoc in Hy.
    pose proof (digits_nth cs K' Hd) as Hd4.
    set (v := kval (firstn K' cs)) in *. set (d := nth K' cs 0) in *.
    rewrite N.mul_mod_distr_l in Ey by (try assumption; discriminate).
    assert (Ev : v = x mod M) by lia.
    exists (x / M :: cs). split; [|split].
    + constructor; [|exact Hd]. apply N.div_lt_upper_bound; [exact HM|]. lia.
    + cbn [length]. lia.
    + rewrite kmers_cons by lia. rewrite HK. f_equal.
      cbn [kval]. rewrite firstn_length_le by lia. fold M. fold v. rewrite Ev.
      rewrite (N.div_mod x M HM) at 3. lia.
Qed.

(** DecodePath inverts k-mer extraction on walks *)
Theorem decode_path_spells_walk : forall k g p, 1 <= k -> 2 * k < 64 -> keys_lt k g -> is_walk k g p ->
  exists cs, digits cs /\ decode_path k p = map decode cs /\
             length cs = (N.to_nat k + length p - 1)%nat /\ kmers (N.to_nat k) cs = p.
Proof.
  intros k g p Hk1 Hk2 Hlt Hw.
  assert (Ek : k = N.of_nat (S (N.to_nat k - 1))).
  { rewrite <- (N2Nat.id k) at 1. f_equal. lia. }
  set (K' := (N.to_nat k - 1)%nat) in *.
  assert (EK : N.to_nat k = S K') by (unfold K'; lia).
  rewrite Ek in Hk2, Hlt, Hw.
  destruct (walk_spelling K' g p Hk2 Hlt Hw) as (cs & Hd & HL & HK).
  assert (Hp : (1 <= length p)%nat) by (destruct p; [destruct Hw|cbn [length]; lia]).
  exists cs. rewrite EK. split; [exact Hd|]. split; [|split; assumption].
  rewrite <- HK. apply decode_path_kmers; [exact EK|lia|exact Hd].
Qed.

Corollary decode_path_spells_walk_built : forall k seqs g p, 1 <= k -> k <= 31 ->
  dbg_build k seqs = Some g -> is_walk k g p ->
  exists cs, digits cs /\ decode_path k p = map decode cs /\
             length cs = (N.to_nat k + length p - 1)%nat /\ kmers (N.to_nat k) cs = p.
Proof.
  intros k seqs g p H1 H2 Hb Hw.
  apply (decode_path_spells_walk k g p); [exact H1|lia| |exact Hw].
  eapply built_keys_lt; eassumption.
Qed.

(** ================= KmerAsString ================= *)
(** the loop while the cursor does not meet SparseAt (always, in dense mode): it is DecodeNode *)
Lemma kas_loop_dense : forall n j x acc,
  kas_loop n None j x acc = ((j - Z.of_nat n)%Z, decode_node n x acc).
Proof.
  induction n as [|n IH]; intros j x acc.
  - cbn [kas_loop decode_node]. f_equal. lia.
  - cbn [kas_loop decode_node]. rewrite IH. f_equal. lia.
Qed.

Lemma kas_loop_nohit : forall n m s j x acc, (s < j - Z.of_nat n \/ j <= s)%Z ->
  kas_loop (n + m) (Some s) j x acc =
  kas_loop m (Some s) (j - Z.of_nat n)%Z (N.shiftr x (2 * N.of_nat n)) (decode_node n x acc).
Proof.
  induction n as [|n IH]; intros m s j x acc H.
  - cbn [plus decode_node]. change (2 * N.of_nat 0) with 0. rewrite N.shiftr_0_r. f_equal. lia.
  - cbn [plus kas_loop decode_node].
    destruct (Z.eqb_spec (j - 1) s) as [E|E]; [lia|].
    rewrite IH by lia. rewrite N.shiftr_shiftr. f_equal; [lia|f_equal; lia].
Qed.

Lemma decode_node_app : forall n a b acc, length b = n -> digits b ->
  decode_node n (kval (a ++ b)) acc = map decode b ++ acc.
Proof.
  induction n as [|n IH]; intros a b acc HL Hd.
  - destruct b; [reflexivity|discriminate HL].
  - assert (Hne : b <> []) by (intro E; subst b; discriminate HL).
    destruct (exists_last Hne) as (b' & d & ->).
    rewrite app_length in HL. cbn [length] in HL.
    apply Forall_app in Hd. destruct Hd as [Hb' Hdd]. inversion Hdd as [|? ? Hd4 _]; subst.
    cbn [decode_node]. rewrite app_assoc, land3, shr2, kval_snoc.
    rewrite mod4_snoc, div4_snoc by assumption.
    rewrite IH by (try assumption; lia). rewrite map_app, <- app_assoc. reflexivity.
Qed.

Lemma shiftr_kval_app : forall a b, digits b ->
  N.shiftr (kval (a ++ b)) (2 * N.of_nat (length b)) = kval a.
Proof.
  intros a b Hb. rewrite kval_app, N.shiftr_div_pow2, <- pow4_2.
  pose proof (kval_bound b Hb) as HB.
  rewrite N.div_add_l by (apply N.pow_nonzero; discriminate).
  rewrite N.div_small by assumption. lia.
Qed.

(** a. the string of a dense key is the k-mer itself *)
Theorem kmer_string_dense : forall km w, km_sparse km = false -> digits w ->
  N.of_nat (length w) = km_k km -> kmer_string km (kval w) = map decode w.
Proof.
  intros km w Hs Hd HL. unfold kmer_string, sparse_at_of, kmer_as_string. rewrite Hs.
  cbn [option_map]. rewrite kas_loop_dense.
  rewrite <- HL, Nat2N.id.
  replace (Z.to_nat (Z.of_N (N.of_nat (length w)) - 1 - Z.of_nat (length w) + 1)) with 0%nat by lia.
  cbn [repeat app]. rewrite decode_node_kval by (try assumption; reflexivity).
  apply app_nil_r.
Qed.

(** b. the string of a sparse key: centre base replaced by '#' *)
Lemma kmer_string_sparse_core : forall km a d0 b, km_sparse km = true ->
  digits a -> d0 < 4 -> digits b -> length a = S (length b) ->
  km_k km = N.of_nat (2 * length a + 1) ->
  kmer_string km (kval (a ++ d0 :: b)) = map decode a ++ 35 :: decode d0 :: map decode b.
Proof.
  intros km a d0 b Hs Ha Hd0 Hb HL Hk.
  unfold kmer_string, sparse_at_of, kmer_as_string. rewrite Hs, Hk. cbn [option_map].
  set (h := length a) in *. set (n := length b) in *.
  assert (Eh : N.of_nat (2 * h + 1) / 2 = N.of_nat h).
  { symmetry. apply (N.div_unique _ 2 _ 1); lia. }
  rewrite Eh.
  replace (N.to_nat (N.of_nat (2 * h + 1) - 1)) with (n + S (h + 0))%nat by lia.
  (* the n = h - 1 rightmost digits *)
  rewrite kas_loop_nohit by lia.
  replace (a ++ d0 :: b) with ((a ++ [d0]) ++ b) by (rewrite <- app_assoc; reflexivity).
  rewrite decode_node_app by (try assumption; reflexivity).
  fold n. rewrite shiftr_kval_app by assumption.
  (* the digit right of the centre, then '#' *)
  cbn [kas_loop]. rewrite land3, shr2, kval_snoc, mod4_snoc, div4_snoc by assumption.
  destruct (Z.eqb_spec (Z.of_N (N.of_nat (2 * h + 1)) - 1 - Z.of_nat n - 1) (Z.of_N (N.of_nat h))) as [E|E]; [|lia].
  (* the h leftmost digits *)
  rewrite kas_loop_nohit by lia.
  cbn [kas_loop]. rewrite decode_node_kval by (try assumption; reflexivity).
  replace (Z.to_nat _) with 0%nat by lia.
  cbn [repeat app]. rewrite app_nil_r. reflexivity.
Qed.

Theorem kmer_string_sparse : forall km w, km_sparse km = true -> N.odd (km_k km) = true ->
  3 <= km_k km -> digits w -> N.of_nat (length w) = km_k km ->
  kmer_string km (kval (drop_centre w)) =
  map decode (firstn (length w / 2) w) ++ [35] ++ map decode (skipn (length w / 2 + 1) w).
Proof.
  intros km w Hs Hodd H3 Hd HL. unfold drop_centre.
  set (h := (length w / 2)%nat).
  assert (EL : length w = (2 * h + 1)%nat).
  { rewrite <- HL in Hodd. apply N.odd_spec in Hodd. destruct Hodd as [m Em].
    assert (E1 : length w = (2 * N.to_nat m + 1)%nat) by lia.
    unfold h. rewrite E1 at 2.
    rewrite <- (Nat.div_unique (2 * N.to_nat m + 1) 2 (N.to_nat m) 1) by lia. exact E1. }
  assert (Hh : (1 <= h)%nat) by lia.
  replace (h + 1)%nat with (S h) by lia.
  rewrite (skipn_nth_cons 0 (S h) w) by lia.
  set (a := firstn h w). set (d0 := nth (S h) w 0). set (b := skipn (S (S h)) w).
  assert (La : length a = h) by (unfold a; apply firstn_length_le; lia).
  assert (Lb : length b = (h - 1)%nat) by (unfold b; rewrite skipn_length; lia).
  cbn [app map].
  apply kmer_string_sparse_core.
  - exact Hs.
  - apply digits_firstn. exact Hd.
  - apply digits_nth. exact Hd.
  - apply digits_skipn. exact Hd.
  - lia.
  - rewrite <- HL, EL, La. reflexivity.
Qed.

(** k = 1 in sparse mode (NewKmerMap with kmersize 0 or 1): ks = 0, the loop does not run and the
    '#' — only written after a decrement of j — is never written: the string is the single byte 0 *)
Lemma kmer_string_sparse_k1 : forall km x, km_sparse km = true -> km_k km = 1 -> kmer_string km x = [0].
Proof.
  intros km x Hs Hk. unfold kmer_string, sparse_at_of, kmer_as_string. rewrite Hs, Hk. reflexivity.
Qed.

(** the value stored by the index for a sparse k-mer is kval (drop_centre w): its string *)
Corollary kmer_string_make_sparse : forall wd k0 km w, new_kmap wd k0 true = Some km -> 3 <= km_k km ->
  digits w -> N.of_nat (length w) = km_k km ->
  kmer_string km (make_sparse km (kval w)) =
  map decode (firstn (length w / 2) w) ++ [35] ++ map decode (skipn (length w / 2 + 1) w).
Proof.
  intros wd k0 km w Hnew H3 Hd HL.
  rewrite (make_sparse_drops_centre wd k0 km w Hnew Hd HL).
  pose proof (new_kmap_facts _ _ _ _ Hnew) as (_ & Hk & Hsp & _).
  apply kmer_string_sparse; try assumption.
  rewrite Hk. unfold eff_k. destruct (N.even k0) eqn:E.
  - rewrite N.odd_add, <- N.negb_even, E. reflexivity.
  - rewrite <- N.negb_even, E. reflexivity.
Qed.

(** ================= the buffer version: no panic, same string ================= *)
Lemma upd_repeat : forall m v acc, upd m v (repeat 0 (S m) ++ acc) = Some (repeat 0 m ++ v :: acc).
Proof.
  induction m as [|m IH]; intros v acc; [reflexivity|].
  change (repeat 0 (S (S m)) ++ acc) with (0 :: (repeat 0 (S m) ++ acc)).
  cbn [upd]. rewrite IH. reflexivity.
Qed.

Lemma store_repeat : forall j v acc, (0 <= j)%Z ->
  store j v (repeat 0 (Z.to_nat (j + 1)) ++ acc) = Some (repeat 0 (Z.to_nat (j - 1 + 1)) ++ v :: acc).
Proof.
  intros j v acc Hj. unfold store. destruct (Z.ltb_spec j 0) as [L|L]; [lia|].
  replace (Z.to_nat (j + 1)) with (S (Z.to_nat j)) by lia.
  replace (Z.to_nat (j - 1 + 1)) with (Z.to_nat j) by lia. apply upd_repeat.
Qed.

Definition pending (sat : option Z) (j : Z) : Z :=
  match sat with Some s => if (s <? j)%Z then 1 else 0 | None => 0 end.

Lemma kas_buf_loop_eq : forall n sat j x acc, (Z.of_nat n + pending sat j <= j + 1)%Z ->
  kas_buf_loop n sat j x (repeat 0 (Z.to_nat (j + 1)) ++ acc) =
  Some (let '(j', acc') := kas_loop n sat j x acc in repeat 0 (Z.to_nat (j' + 1)) ++ acc').
Proof.
  induction n as [|n IH]; intros sat j x acc H; [reflexivity|].
  assert (Hp : (0 <= pending sat j)%Z) by (unfold pending; destruct sat as [s0|]; [destruct (s0 <? j)%Z|]; lia).
  cbn [kas_buf_loop kas_loop]. rewrite store_repeat by lia.
  destruct sat as [s|].
  - destruct (Z.eqb_spec (j - 1) s) as [E|E].
    + assert (H2 : (Z.of_nat (S n) + 1 <= j + 1)%Z).
      { unfold pending in H. destruct (Z.ltb_spec s j); [exact H|lia]. }
      rewrite store_repeat by lia. apply IH.
      unfold pending. destruct (Z.ltb_spec s (j - 1 - 1)); lia.
    + apply IH. unfold pending in *.
      destruct (Z.ltb_spec s (j - 1)); destruct (Z.ltb_spec s j); lia.
  - apply IH. unfold pending in *. lia.
Qed.

(** KmerAsString never indexes its buffer out of range, and the direct model is its result *)
Theorem kmer_as_string_buf_eq : forall km sat x,
  kmer_as_string_buf km sat x = Some (kmer_as_string km sat x).
Proof.
  intros km sat x. unfold kmer_as_string_buf, kmer_as_string.
  set (K := km_k km).
  replace (N.to_nat K) with (Z.to_nat ((Z.of_N K - 1) + 1)) by lia.
  rewrite <- (app_nil_r (repeat 0 _)).
  rewrite kas_buf_loop_eq; [reflexivity|].
  destruct sat as [s|]; cbn [option_map pending].
  - destruct (Z.ltb_spec (Z.of_N s) (Z.of_N K - 1)); lia.
  - lia.
Qed.

(** ================= uniqueness of the spelling ================= *)
Lemma kmers_length : forall K cs p, (1 <= K)%nat -> p <> [] -> kmers K cs = p ->
  length cs = (K + length p - 1)%nat.
Proof.
  intros K cs p HK Hp E. assert (L : length (kmers K cs) = length p) by (rewrite E; reflexivity).
  unfold kmers in L. rewrite map_length, windows_count in L by assumption.
  destruct p; [congruence|]. cbn [length] in *. lia.
Qed.

Lemma kmers_inj : forall K' p cs1 cs2, p <> [] -> digits cs1 -> digits cs2 ->
  kmers (S K') cs1 = p -> kmers (S K') cs2 = p -> cs1 = cs2.
Proof.
  intros K'. induction p as [|x p IH]; intros cs1 cs2 Hp H1 H2 E1 E2; [congruence|].
  pose proof (kmers_length (S K') cs1 _ ltac:(lia) Hp E1) as L1.
  pose proof (kmers_length (S K') cs2 _ ltac:(lia) Hp E2) as L2.
  cbn [length] in L1, L2.
  destruct p as [|y q].
  - unfold kmers in E1, E2. cbn [length] in L1, L2.
    rewrite windows_exact in E1, E2 by lia. cbn [map] in E1, E2.
    apply kval_inj; try assumption; [lia|]. congruence.
  - cbn [length] in L1, L2.
    destruct cs1 as [|c1 t1]; [cbn [length] in L1; lia|].
    destruct cs2 as [|c2 t2]; [cbn [length] in L2; lia|].
    cbn [length] in L1, L2.
    rewrite kmers_cons in E1, E2 by lia.
    inversion H1 as [|? ? Hc1 Ht1]; subst. inversion H2 as [|? ? Hc2 Ht2]; subst.
    injection E1 as Ex1 Et1. injection E2 as Ex2 Et2.
    assert (Et : t1 = t2) by (apply IH; try assumption; discriminate).
    subst t2. f_equal.
    assert (EE : c1 :: firstn K' t1 = c2 :: firstn K' t1).
    { apply kval_inj; [| |reflexivity|cbn [kval]; rewrite Ex1, Ex2; reflexivity];
        (constructor; [assumption|apply digits_firstn; assumption]). }
    injection EE as ->. reflexivity.
Qed.

(** the string returned for a walk is the ONLY base string whose successive k-mers are the walk *)
Theorem decode_path_spelling_unique : forall k p cs, 1 <= k -> p <> [] -> digits cs ->
  kmers (N.to_nat k) cs = p -> decode_path k p = map decode cs.
Proof.
  intros k p cs Hk Hp Hd E.
  assert (EK : N.to_nat k = S (N.to_nat k - 1)) by lia.
  pose proof (kmers_length (N.to_nat k) cs p ltac:(lia) Hp E) as L.
  rewrite <- E. rewrite EK. apply decode_path_kmers; [exact EK| |exact Hd].
  destruct p; [congruence|]. cbn [length] in L. lia.
Qed.

