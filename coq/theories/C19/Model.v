(** C19 — executable model of pkg/obikmer: De Bruijn graph (debruijn.go), canonical k-mers of the
    k-mer index (kmermap.go) and 4-mer tables (encodefourmer.go, counting.go).
    k-mer words are [N]; a wrap / mask is written exactly where the Go code wraps or masks (and is
    ABSENT where it does not). The functions follow the code as repaired by the fix: commits listed
    in known_findings.d/C19.json; the pre-repair versions are kept with the suffix [_orig] / [_pre] for the
    [_refuted] theorems. Executable definitions only. *)
From Coq Require Import NArith List Bool.
Import ListNotations.
Open Scope N_scope.

(** ---------------- tables (bytes are N; sequences are lower-cased by obiseq.SetSequence) *)
(* obikmer.iupac : byte -> codes (a missing key gives the nil slice) *)
Definition iupac (b : N) : list N :=
  if b =? 97 then [0] else if b =? 99 then [1] else if b =? 103 then [2] else if b =? 116 then [3]
  else if b =? 117 then [3]
  else if b =? 114 then [0;2] else if b =? 121 then [1;3] else if b =? 115 then [1;2]
  else if b =? 119 then [0;3] else if b =? 107 then [2;3] else if b =? 109 then [0;1]
  else if b =? 98 then [1;2;3] else if b =? 100 then [0;2;3] else if b =? 104 then [0;1;3]
  else if b =? 118 then [0;1;2] else if b =? 110 then [0;1;2;3] else [].

(* obikmer.revcompnuc : byte -> byte (a missing key gives 0) *)
Definition revcompnuc (b : N) : N :=
  if b =? 97 then 116 else if b =? 99 then 103 else if b =? 103 then 99 else if b =? 116 then 97
  else if b =? 117 then 97
  else if b =? 114 then 121 else if b =? 121 then 114 else if b =? 115 then 115
  else if b =? 119 then 119 else if b =? 107 then 109 else if b =? 109 then 107
  else if b =? 98 then 118 else if b =? 100 then 104 else if b =? 104 then 100
  else if b =? 118 then 98 else if b =? 110 then 110 else 0.

(* obikmer.__single_base_code__[b & 31] *)
Definition base4 (b : N) : N :=
  let i := N.land b 31 in
  if i =? 3 then 1 else if i =? 7 then 2 else if i =? 20 then 3 else if i =? 21 then 3 else 0.

(** ---------------- fixed-width words (obifp, property C20): value modulo 2^wd *)
Definition shlw (wd x n : N) : N := (N.shiftl x n) mod 2^wd.
Definition subw (x y : N) : option N := if y <=? x then Some (x - y) else None.   (* None = panic (underflow) *)

(** ================= canonical k-mers: NewKmerMap + NormalizedKmerSlice ================= *)
Record kmap := mkKmap { km_wd : N; km_k : N; km_mask : N; km_left : N; km_right : N; km_sparse : bool }.

Definition eff_k (k0 : N) (sparse : bool) : N :=
  if sparse then (if N.even k0 then k0 + 1 else k0) else (if N.odd k0 then k0 - 1 else k0).

(* mask as repaired: ((2^(2k-1) - 1) << 1) | 1, guarded by k > 0 *)
Definition kmask (wd k : N) : option N :=
  if 0 <? k then
    match subw (shlw wd 1 (2 * k - 1)) 1 with
    | Some t => Some (N.lor (shlw wd t 1) 1)
    | None => None
    end
  else Some 0.
(* original: (1 << 2k) - 1 *)
Definition kmask_orig (wd k : N) : option N := subw (shlw wd 1 (2 * k)) 1.

Definition new_kmap_with (mk : N -> N -> option N) (wd k0 : N) (sparse : bool) : option kmap :=
  let k := eff_k k0 sparse in
  let sat := k / 2 in
  match mk wd k with
  | None => None
  | Some mask =>
    if sparse then
      let pos := k - 1 - sat in
      let left := sat * 2 in
      let right := pos * 2 in
      match subw (shlw wd 1 left) 1, subw (shlw wd 1 right) 1 with
      | Some l, Some r => Some (mkKmap wd k mask (shlw wd l (right + 2)) r true)
      | _, _ => None
      end
    else Some (mkKmap wd k mask 0 0 false)
  end.
Definition new_kmap := new_kmap_with kmask.

Definition make_sparse (km : kmap) (x : N) : N :=
  if km_sparse km then N.lor (N.shiftr (N.land x (km_left km)) 2) (N.land x (km_right km)) else x.

Definition normk (km : kmap) (fw rv : N) : N :=
  let fw := make_sparse km fw in
  let rv := make_sparse km rv in
  if fw <? rv then fw else rv.

(* the loop of NormalizedKmerSlice; [masked] = the forward word is masked after the shift (repair) *)
Fixpoint nks_loop (masked : bool) (km : kmap) (s : list N) (cur ccur size : N) : list N :=
  match s with
  | [] => []
  | b :: t =>
    let cur := shlw (km_wd km) cur 2 in
    let cur := if masked then N.land cur (km_mask km) else cur in
    let ccur := N.shiftr ccur 2 in
    match iupac b with
    | [code] =>
      let ccode := hd 0 (iupac (revcompnuc b)) in
      let cur := N.lor cur code in
      let ccur := N.lor ccur (shlw (km_wd km) ccode (2 * (km_k km - 1))) in
      let size := size + 1 in
      if size =? km_k km then normk km cur ccur :: nks_loop masked km t cur ccur (size - 1)
      else nks_loop masked km t cur ccur size
    | _ => nks_loop masked km t 0 0 0
    end
  end.

Definition normalized_slice (masked : bool) (km : kmap) (s : list N) : list N :=
  if N.of_nat (length s) <? km_k km then [] else nks_loop masked km s 0 0 0.

(* None = NewKmerMap panics *)
Definition canon (wd k0 : N) (sparse : bool) (s : list N) : option (list N) :=
  match new_kmap wd k0 sparse with
  | None => None
  | Some km => Some (normalized_slice true km s)
  end.
Definition canon_orig (wd k0 : N) (sparse : bool) (s : list N) : option (list N) :=
  match new_kmap_with kmask_orig wd k0 sparse with
  | None => None
  | Some km => Some (normalized_slice false km s)
  end.

(* reverse complement of a sequence of bytes (obikmer's own complement table) *)
Definition rcseq (s : list N) : list N := map revcompnuc (rev s).

(** ================= 4-mer tables: Encode4mer + Count4Mer ================= *)
Fixpoint enc4_roll (s : list N) (code : N) : list N :=
  match s with
  | [] => []
  | b :: t => let code := N.lor ((code * 4) mod 256) (base4 b) in code :: enc4_roll t code
  end.

(* [fixed] = guard length-3 <= 0 (repair); the original guard length-3 < 0 lets length 3 through: index panic = None *)
Definition encode4 (fixed : bool) (s : list N) : option (list N) :=
  match s with
  | b0 :: b1 :: b2 :: b3 :: t =>
    let c := (0 * 4 mod 256 + base4 b0) mod 256 in
    let c := (c * 4 mod 256 + base4 b1) mod 256 in
    let c := (c * 4 mod 256 + base4 b2) mod 256 in
    let c := (c * 4 mod 256 + base4 b3) mod 256 in
    Some (c :: enc4_roll t c)
  | [_; _; _] => if fixed then Some [] else None
  | _ => Some []
  end.

Definition codes256 : list N := map N.of_nat (seq 0 256).
Fixpoint count_n (c : N) (l : list N) : N :=
  match l with [] => 0 | x :: t => (if x =? c then 1 else 0) + count_n c t end.
(* Table4mer is [256]uint16: every increment wraps modulo 2^16 *)
Definition count4 (s : list N) (c : N) : option N :=
  match encode4 true s with Some l => Some (count_n c l mod 65536) | None => None end.
Definition count4_table (fixed : bool) (s : list N) : option (list (N * N)) :=
  match encode4 fixed s with
  | Some l => Some (filter (fun p => negb (snd p =? 0)) (map (fun c => (c, count_n c l mod 65536)) codes256))
  | None => None
  end.

(** ================= De Bruijn graph ================= *)
Definition graph := list (N * N).          (* k-mer -> weight, sorted by k-mer (Go: map[uint64]uint) *)

Fixpoint weight (g : graph) (x : N) : N :=
  match g with [] => 0 | (y, w) :: t => if y =? x then w else weight t x end.
Fixpoint mem (g : graph) (x : N) : bool :=
  match g with [] => false | (y, _) :: t => (y =? x) || mem t x end.
(* graph[x] = Weight(x) + w : update the entry if the key is present, else insert it in key order *)
Fixpoint upd_w (x w : N) (g : graph) : graph :=
  match g with
  | [] => []
  | (y, v) :: t => if y =? x then (y, v + w) :: t else (y, v) :: upd_w x w t
  end.
Fixpoint ins_w (x w : N) (g : graph) : graph :=
  match g with
  | [] => [(x, w)]
  | (y, v) :: t => if x <? y then (x, w) :: g else (y, v) :: ins_w x w t
  end.
Definition add_w (x w : N) (g : graph) : graph := if mem g x then upd_w x w g else ins_w x w g.

Definition W64 : N := 2^64.
Definition shl64 (x n : N) : N := if n <? 64 then (N.shiftl x n) mod W64 else 0.
Definition not64 (x : N) : N := W64 - 1 - x mod W64.
(* MakeDeBruijnGraph: kmermask = ^(^0 << 2k) *)
Definition dbg_mask (k : N) : N := not64 (shl64 (W64 - 1) (2 * k)).
Definition clear2 (x : N) : N := N.land x (not64 3).

(* ---- the code BEFORE the repair of the finding iupac-prefix-multiplicity (suffix [_pre]) ----
   append: one recursion level per remaining byte, one branch per IUPAC code; the map is shared *)
Fixpoint dbg_append_pre (mask w : N) (s : list N) (cur : N) (g : graph) : option graph :=
  match s with
  | [] => Some g
  | b :: t =>
    match iupac b with
    | [] => None                                   (* b[0] on the nil slice: index panic *)
    | c0 :: cs =>
      let cur0 := N.lor (N.land (shl64 cur 2) mask) c0 in
      match dbg_append_pre mask w t cur0 (add_w cur0 w g) with
      | None => None
      | Some g0 =>
        (fix others (cs : list N) (cur : N) (g : graph) : option graph :=
           match cs with
           | [] => Some g
           | c :: cs' =>
             let cur' := N.lor (clear2 cur) c in
             match dbg_append_pre mask w t cur' (add_w cur' w g) with
             | None => None
             | Some g' => others cs' cur' g'
             end
           end) cs cur0 g0
      end
    end
  end.

(* Push.initFirstKmer: [n] bytes of the first k-mer still to read *)
Fixpoint dbg_first_pre (n : nat) (mask w : N) (s : list N) (key : N) (g : graph) : option graph :=
  match n with
  | O => dbg_append_pre mask w s key (add_w key w g)
  | S n' =>
    match s with
    | [] => None                                   (* unreachable after the length test *)
    | b :: t =>
      let key := shl64 key 2 in
      (fix each (cs : list N) (key : N) (g : graph) : option graph :=
         match cs with
         | [] => Some g
         | c :: cs' =>
           let key' := N.lor (clear2 key) c in
           match dbg_first_pre n' mask w t key' g with
           | None => None
           | Some g' => each cs' key' g'
           end
         end) (iupac b) key g
    end
  end.

(* Push; [ge] = the repaired length test (Len() >= k); the original is Len() > k *)
Definition dbg_push_pre_with (ge : bool) (k : N) (g : graph) (sq : list N * N) : option graph :=
  let '(s, w) := sq in
  let n := N.of_nat (length s) in
  if (if ge then k <=? n else k <? n) then dbg_first_pre (N.to_nat k) (dbg_mask k) w s 0 g else Some g.

Fixpoint dbg_build_pre_with (ge : bool) (k : N) (seqs : list (list N * N)) (g : graph) : option graph :=
  match seqs with
  | [] => Some g
  | sq :: t => match dbg_push_pre_with ge k g sq with None => None | Some g' => dbg_build_pre_with ge k t g' end
  end.
Definition dbg_build_pre (k : N) (seqs : list (list N * N)) : option graph := dbg_build_pre_with true k seqs [].
(* the fully original code: old append and original length test *)
Definition dbg_build_orig (k : N) (seqs : list (list N * N)) : option graph := dbg_build_pre_with false k seqs [].

(* ---- the code as repaired ----
   append(sequence, current, weight): the slice [sequence] is ([lim] first bytes of [s]); K1 = kmersize-1.
   The first code of a base recurses on rest = sequence[1:] ([lim-1] bytes of the tail); the other codes on
   rest[:kmersize-1] when len(rest) > kmersize-1, i.e. on (min (lim-1) K1) bytes of the tail. *)
Fixpoint dbg_append (K1 : nat) (mask w : N) (lim : nat) (s : list N) (cur : N) (g : graph) {struct s} : option graph :=
  match s with
  | [] => Some g
  | b :: t =>
    match lim with
    | O => Some g                                  (* len(sequence) == 0 *)
    | S l =>
      match iupac b with
      | [] => None                                 (* b[0] on the nil slice: index panic *)
      | c0 :: cs =>
        let cur0 := N.lor (N.land (shl64 cur 2) mask) c0 in
        match dbg_append K1 mask w l t cur0 (add_w cur0 w g) with
        | None => None
        | Some g0 =>
          let l' := Nat.min l K1 in
          (fix others (cs : list N) (cur : N) (g : graph) : option graph :=
             match cs with
             | [] => Some g
             | c :: cs' =>
               let cur' := N.lor (clear2 cur) c in
               match dbg_append K1 mask w l' t cur' (add_w cur' w g) with
               | None => None
               | Some g' => others cs' cur' g'
               end
             end) cs cur0 g0
        end
      end
    end
  end.

(* Push.initFirstKmer(start, key, end): [n] = kmersize - start bytes of the first k-mer still to read,
   [s] = the sequence from index [start]; [lim] = end - kmersize = number of bytes after the first k-mer
   that append may read (s[kmersize:end]). In the loop over the codes, for j > 0:
   if start+kmersize < end then end = start+kmersize, i.e. if start < lim then lim = start; the
   assignment persists for the following iterations ([lim] is carried by the loop; [first] = (j == 0)). *)
Fixpoint dbg_first (n start : nat) (K1 : nat) (mask w : N) (lim : nat) (s : list N) (key : N) (g : graph) : option graph :=
  match n with
  | O => dbg_append K1 mask w lim s key (add_w key w g)
  | S n' =>
    match s with
    | [] => None                                   (* unreachable after the length test *)
    | b :: t =>
      let key := shl64 key 2 in
      (fix each (first : bool) (cs : list N) (key : N) (lim : nat) (g : graph) : option graph :=
         match cs with
         | [] => Some g
         | c :: cs' =>
           let key' := N.lor (clear2 key) c in
           let lim' := if first then lim else if Nat.ltb start lim then start else lim in
           match dbg_first n' (S start) K1 mask w lim' t key' g with
           | None => None
           | Some g' => each false cs' key' lim' g'
           end
         end) true (iupac b) key lim g
    end
  end.

(* Push; [ge] = the repaired length test (Len() >= k); initFirstKmer(0, 0, len(s)): lim = len(s) - k *)
Definition dbg_push_with (ge : bool) (k : N) (g : graph) (sq : list N * N) : option graph :=
  let '(s, w) := sq in
  let n := N.of_nat (length s) in
  if (if ge then k <=? n else k <? n)
  then dbg_first (N.to_nat k) 0 (N.to_nat k - 1) (dbg_mask k) w (length s - N.to_nat k) s 0 g else Some g.

Fixpoint dbg_build_with (ge : bool) (k : N) (seqs : list (list N * N)) (g : graph) : option graph :=
  match seqs with
  | [] => Some g
  | sq :: t => match dbg_push_with ge k g sq with None => None | Some g' => dbg_build_with ge k t g' end
  end.
Definition dbg_build (k : N) (seqs : list (list N * N)) : option graph := dbg_build_with true k seqs [].

Definition nodes (g : graph) : list N := map fst g.
Definition nexts (k : N) (g : graph) (x : N) : list N :=
  let base := N.land (shl64 x 2) (dbg_mask k) in
  filter (mem g) [base; N.lor base 1; N.lor base 2; N.lor base 3].
Definition prevs (k : N) (g : graph) (x : N) : list N :=
  let idx := N.shiftr x 2 in
  let p := 2 * (k - 1) in
  filter (mem g) [idx; N.lor idx (shl64 1 p); N.lor idx (shl64 2 p); N.lor idx (shl64 3 p)].
Definition heads (k : N) (g : graph) : list N :=
  filter (fun x => match prevs k g x with [] => true | _ => false end) (nodes g).

(** specification of cycle detection and of the heaviest walk (NOT the Go DFS / heap algorithms):
    alive i = nodes from which a walk of i edges starts; a cycle exists iff alive (number of nodes) is non-empty *)
Fixpoint alive (i : nat) (k : N) (g : graph) : list N :=
  match i with
  | O => nodes g
  | S i' => let a := alive i' k g in filter (fun x => existsb (fun y => existsb (N.eqb y) a) (nexts k g x)) (nodes g)
  end.
Definition has_cycle (k : N) (g : graph) : bool :=
  match alive (length g) k g with [] => false | _ => true end.

Definition maxl (l : list N) : N := fold_right N.max 0 l.
(* btab i : node -> heaviest total weight of a walk of at most i+1 nodes starting there *)
Fixpoint btab (i : nat) (k : N) (g : graph) : graph :=
  match i with
  | O => g
  | S i' => let t := btab i' k g in map (fun p => (fst p, snd p + maxl (map (weight t) (nexts k g (fst p))))) g
  end.
(* heaviest walk from a source node: None when the graph has a cycle *)
Definition best_walk_weight (k : N) (g : graph) : option N :=
  if has_cycle k g then None else Some (maxl (map (weight (btab (length g) k g)) (heads k g))).

(** ================= correspondence cases ================= *)
Inductive ccase :=
| CDbg (k : N) (seqs : list (list N * N)) (nodes : list (N * N)) (heads : list N) (full : bool) (cyc : bool) (pathw : option N)
| CKmap (wd k : N) (sparse : bool) (s : list N) (obs obs_rc : option (list N))
| CC4 (s : list N) (tab : option (list (N * N))).

Fixpoint list_eqb {A} (e : A -> A -> bool) (a b : list A) : bool :=
  match a, b with
  | [], [] => true
  | x :: a', y :: b' => e x y && list_eqb e a' b'
  | _, _ => false
  end.
Definition pair_eqb (p q : N * N) : bool := (fst p =? fst q) && (snd p =? snd q).
Definition opt_eqb {A} (e : A -> A -> bool) (a b : option A) : bool :=
  match a, b with Some x, Some y => e x y | None, None => true | _, _ => false end.

(* the property speaks of the MULTISET of canonical k-mers: both sides are compared sorted *)
Fixpoint insertN (x : N) (l : list N) : list N :=
  match l with [] => [x] | y :: t => if x <=? y then x :: l else y :: insertN x t end.
Definition sortN (l : list N) : list N := fold_right insertN [] l.

Definition agrees (c : ccase) : bool :=
  match c with
  | CDbg k seqs nd hd full cyc pw =>
    match dbg_build k seqs with
    | None => false
    | Some g =>
      list_eqb pair_eqb g nd && list_eqb N.eqb (heads k g) hd
      && (if full                        (* big graphs: weights / nodes / heads only (the specification is cubic); [if], not [||]: *)
          then Bool.eqb (has_cycle k g) cyc      (* vm_compute is call-by-value, orb would evaluate the cubic part anyway *)
               && match g with
                  | [] => true            (* HaviestPath on the empty graph: outside the statement *)
                  | _ => opt_eqb N.eqb (best_walk_weight k g) pw
                  end
          else true)
    end
  | CKmap wd k sparse s o orc =>
    opt_eqb (list_eqb N.eqb) (option_map sortN (canon wd k sparse s)) o
    && opt_eqb (list_eqb N.eqb) (option_map sortN (canon wd k sparse (rcseq s))) orc
  | CC4 s tab => opt_eqb (list_eqb pair_eqb) (count4_table true s) tab
  end.

Fixpoint mismatches_from (i : nat) (l : list ccase) : list nat :=
  match l with
  | [] => []
  | c :: l' => let rest := mismatches_from (S i) l' in if agrees c then rest else i :: rest
  end.
Definition mismatches := mismatches_from 0.
